/-
  D128/Proofs/PowAccLogBase.lean — property C18 (accuracy of `Pow`): tools for the finer error bound of
  `Gen.decomposed192.log` (`D128/Proofs/PowAccLog.lean`).

  * `log_ge_two_z`   : `1 ≤ V → 2·(V−1)/(V+1) ≤ Real.log V`   (first term of the artanh series)
  * `tail_mul`       : `0 ≤ F ≤ Fb ≤ 1/20 → 2·tailR F ≤ 2F·Fb^26/(27(1−Fb²))`
  * `tail_abs`       : `0 ≤ F ≤ Fb ≤ 1/20 → 2·Fb^27/26 ≤ T → 2·tailR F ≤ T`
  * `log_spec2`      : `LogAcc.log_spec` with the sharper facts `F ≤ (1/(2M+1))·(1+23/10^57)` and
                       `M = 10 → F ≤ (v−1)/(v+1)·(1+23/10^57)` exported
  * `fine_rel`       : the relative case (`e0 = 0`, `M = 10`): `errLog ≤ κ·ln v`, with the constants
                       `kappa21` (`κ = 156/10^38`, any `v < 1.1`) and `kappaBand` (`κ = 199/10^39`, `v ≤ 1.092`)
-/
import D128.Proofs.PowAccDefs
import D128.Proofs.LogAccClose
set_option autoImplicit false
set_option maxRecDepth 4096
set_option linter.unusedVariables false
namespace PowAcc
open Gen D192 LogAcc Root

/-- the first term of the artanh series is a lower bound of the logarithm -/
theorem log_ge_two_z (V : ℝ) (hV : 1 ≤ V) : 2 * ((V - 1) / (V + 1)) ≤ Real.log V := by
  set z : ℝ := (V - 1) / (V + 1) with hz
  have hV1 : 0 < V + 1 := by linarith
  have hz0 : 0 ≤ z := div_nonneg (by linarith) hV1.le
  have hz1 : z < 1 := by rw [hz, div_lt_one hV1]; linarith
  obtain ⟨b1, -⟩ := EnclPf.atanh_series_bounds hz0 hz1 1
  have hVz : Real.log V = Real.log (1 + z) - Real.log (1 - z) := by
    have e1 : 1 + z = 2 * V / (V + 1) := by rw [hz]; field_simp; ring
    have e2 : 1 - z = 2 / (V + 1) := by rw [hz]; field_simp; ring
    rw [e1, e2, ← Real.log_div (by positivity) (by positivity)]
    congr 1; field_simp
  simp at b1
  linarith

/-- the truncation term, relative to `F` -/
theorem tail_mul (F Fb : ℝ) (h0 : 0 ≤ F) (h1 : F ≤ Fb) (hb : Fb ≤ 1 / 20) :
    2 * tailR F ≤ 2 * F * (Fb ^ 26 / (27 * (1 - Fb * Fb))) := by
  unfold tailR
  have hFb0 : 0 ≤ Fb := le_trans h0 h1
  have e : F * (F * F) ^ 13 = F * F ^ 26 := by ring
  have hDb : 0 < 27 * (1 - Fb * Fb) := by nlinarith
  have hden : 27 * (1 - Fb * Fb) ≤ ((2 * 13 + 1 : ℕ) : ℝ) * (1 - F * F) := by
    push_cast; nlinarith
  have hp : F ^ 26 ≤ Fb ^ 26 := pow_le_pow_left₀ h0 h1 26
  rw [e]
  have s1 : F * F ^ 26 / (((2 * 13 + 1 : ℕ) : ℝ) * (1 - F * F)) ≤ F * F ^ 26 / (27 * (1 - Fb * Fb)) :=
    div_le_div_of_nonneg_left (by positivity) hDb hden
  have s2 : F * F ^ 26 / (27 * (1 - Fb * Fb)) ≤ F * Fb ^ 26 / (27 * (1 - Fb * Fb)) :=
    div_le_div_of_nonneg_right (mul_le_mul_of_nonneg_left hp h0) hDb.le
  have e2 : 2 * F * (Fb ^ 26 / (27 * (1 - Fb * Fb))) = 2 * (F * Fb ^ 26 / (27 * (1 - Fb * Fb))) := by ring
  rw [e2]; linarith

/-- the truncation term, absolute -/
theorem tail_abs (F Fb T : ℝ) (h0 : 0 ≤ F) (h1 : F ≤ Fb) (hb : Fb ≤ 1 / 20) (hT : 2 * (Fb ^ 27 / 26) ≤ T) :
    2 * tailR F ≤ T := by
  have ht := tailR_le F h0 (le_trans h1 hb)
  have hp : F ^ 27 ≤ Fb ^ 27 := pow_le_pow_left₀ h0 h1 27
  have : F ^ 27 / 26 ≤ Fb ^ 27 / 26 := div_le_div_of_nonneg_right hp (by norm_num)
  linarith

/-- `LogAcc.log_spec` (same proof) exporting the sharper bounds of the computed quotient `F`:
`F ≤ (1/(2M+1))·(1+23/10^57)`, and `F ≤ (v−1)/(v+1)·(1+23/10^57)` when no table reduction takes place (`M = 10`). -/
theorem log_spec2 (d : decomposed192) (hd : d.sig.toNat ≠ 0)
    (he : -16000 ≤ d.exp.toInt ∧ d.exp.toInt ≤ 16000) :
    ∃ (neg : Bool) (x : decomposed192) (t : Int8) (e0 : ℤ) (M : ℤ) (v S F : ℝ),
      Gen.decomposed192.log d = .ok (neg, x, t) ∧ flag3 t ∧ -5500 ≤ x.exp.toInt ∧ x.exp.toInt ≤ 5500 ∧
      ((val d : ℚ) : ℝ) = v * (10 : ℝ) ^ e0 ∧ -16000 ≤ e0 ∧ e0 ≤ 16057 ∧ 10 ≤ M ∧ M ≤ 99 ∧
      (M : ℝ) ≤ 10 * v ∧ 10 * v < (M : ℝ) + 1 ∧
      0 ≤ F ∧ F ≤ 1 / (2 * (M : ℝ) + 1) * (1 + 23 / 10 ^ 57) ∧ F ≤ S ∧ S ≤ 2 * F ∧
      (M = 10 → F ≤ (v - 1) / (v + 1) * (1 + 23 / 10 ^ 57)) ∧
      neg = decide (e0 < 0) ∧
      |((val x : ℚ) : ℝ) - (|Real.log ((val d : ℚ) : ℝ)|)|
        ≤ errLog e0.natAbs (if M = 10 then 0 else 1) S F := by
  obtain ⟨neg, x, t, e0, M, v, v2, f, R, hlog, ht, hxe0, hxe1, hvd, he0a, he0b, hM0, hM1, hMlo, hMhi,
    h21, h22, h23, hf0, hf20, hf1, hf2, hR1, hR2, hneg, hx⟩ := log_code_spec d hd he
  -- real versions
  have hl := lamR_pos
  have hle := lamR_le
  have hMr0 : (10 : ℝ) ≤ ((M.toInt : ℤ) : ℝ) := by exact_mod_cast hM0
  have hMr1 : ((M.toInt : ℤ) : ℝ) ≤ 99 := by exact_mod_cast hM1
  have hMpos : (0 : ℝ) < ((M.toInt : ℤ) : ℝ) := by linarith
  have hMloR : ((M.toInt : ℤ) : ℝ) ≤ 10 * (v : ℝ) := by
    have : (((M.toInt : ℤ) : ℚ) : ℝ) ≤ ((10 * v : ℚ) : ℝ) := Rat.cast_le.mpr hMlo
    push_cast at this; exact this
  have hMhiR : 10 * (v : ℝ) < ((M.toInt : ℤ) : ℝ) + 1 := by
    have : ((10 * v : ℚ) : ℝ) < ((((M.toInt : ℤ) : ℚ) + 1 : ℚ) : ℝ) := Rat.cast_lt.mpr hMhi
    push_cast at this; exact this
  have hvpos : (0 : ℝ) < (v : ℝ) := by linarith
  set q : ℝ := 10 * (v : ℝ) / ((M.toInt : ℤ) : ℝ) with hq
  have hq1 : 1 ≤ q := by rw [hq, le_div_iff₀ hMpos]; linarith
  have hqhi' : q < (((M.toInt : ℤ) : ℝ) + 1) / ((M.toInt : ℤ) : ℝ) := by
    rw [hq]; exact div_lt_div_of_pos_right hMhiR hMpos
  have hqhi : q ≤ 11 / 10 := by
    have : (((M.toInt : ℤ) : ℝ) + 1) / ((M.toInt : ℤ) : ℝ) ≤ 11 / 10 := by
      rw [div_le_div_iff₀ hMpos (by norm_num)]; linarith
    linarith
  have hV2a : (1 : ℝ) ≤ (v2 : ℝ) := by exact_mod_cast h21
  have hV2b : (v2 : ℝ) ≤ q := by
    have : ((v2 : ℚ) : ℝ) ≤ ((10 * v / ((M.toInt : ℤ) : ℚ) : ℚ) : ℝ) := Rat.cast_le.mpr h22
    push_cast at this; exact this
  set m : ℝ := if (M.toInt : ℤ) = 10 then 0 else 1 with hm
  have hm01 : m = 0 ∨ m = 1 := by rw [hm]; split <;> simp
  have hV2c : q * (1 - m * ((lam : ℚ) : ℝ)) ≤ (v2 : ℝ) := by
    have : ((10 * v / ((M.toInt : ℤ) : ℚ) * (1 - (if M.toInt = 10 then 0 else lam)) : ℚ) : ℝ) ≤ ((v2 : ℚ) : ℝ) :=
      Rat.cast_le.mpr h23
    rw [hm, hq]
    split at this <;> rename_i h10
    · rw [if_pos h10]; push_cast at this; linarith
    · rw [if_neg h10]; push_cast at this; linarith
  have hF0 : (0 : ℝ) ≤ (f : ℝ) := by exact_mod_cast hf0
  have hfloR : ((v2 : ℝ) - 1) / ((v2 : ℝ) + 1) * (1 - ((lam : ℚ) : ℝ)) ≤ (f : ℝ) := by
    have : (((v2 - 1) / (v2 + 1) * (1 - lam) : ℚ) : ℝ) ≤ ((f : ℚ) : ℝ) := Rat.cast_le.mpr hf1
    push_cast at this; exact this
  have hfhiR : (f : ℝ) ≤ ((v2 : ℝ) - 1) / ((v2 : ℝ) + 1) * ((1 + ((Root.eps : ℚ) : ℝ)) / (1 - ((lam : ℚ) : ℝ))) := by
    have : ((f : ℚ) : ℝ) ≤ (((v2 - 1) / (v2 + 1) * ((1 + Root.eps) / (1 - lam)) : ℚ) : ℝ) := Rat.cast_le.mpr hf2
    push_cast at this; exact this
  have hser := log_v2_series (v2 : ℝ) f hV2a hf0 hf20 hfloR hfhiR
  set S : ℝ := ((Sj f 12 : ℚ) : ℝ) with hS
  have hFS : (f : ℝ) ≤ S := by rw [hS]; exact_mod_cast Sj_ge f hf0 12
  have hS2F : S ≤ 2 * (f : ℝ) := by
    have : ((Sj f 12 : ℚ) : ℝ) ≤ ((2 * f : ℚ) : ℝ) := Rat.cast_le.mpr (Sj_le_two_mul f hf0 hf20 12)
    push_cast at this; exact this
  have hS0 : 0 ≤ S := le_trans hF0 hFS
  have hRR1 : S * (1 - ((lam : ℚ) : ℝ)) ^ 38 ≤ (R : ℝ) := by
    have : ((Sj f 12 * (1 - lam) ^ 38 : ℚ) : ℝ) ≤ ((R : ℚ) : ℝ) := Rat.cast_le.mpr hR1
    push_cast at this; exact this
  have hRR2 : (R : ℝ) ≤ S := by rw [hS]; exact_mod_cast hR2
  have hR0 : (0 : ℝ) ≤ (R : ℝ) := by
    have h1 : (0 : ℝ) < 1 - ((lam : ℚ) : ℝ) := by linarith [show (1 : ℝ) / (6 * 10 ^ 56) < 1 by norm_num]
    exact le_trans (mul_nonneg hS0 (pow_nonneg h1.le _)) hRR1
  -- F ≤ 1/(2M)
  have hu : (0 : ℝ) < 1 - ((lam : ℚ) : ℝ) := by linarith [show (1 : ℝ) / (6 * 10 ^ 56) < 1 by norm_num]
  have hepsle : ((Root.eps : ℚ) : ℝ) ≤ 21 / 10 ^ 57 := by
    have h : Root.eps ≤ 21 / 10 ^ 57 := by unfold Root.eps; norm_num
    have : ((Root.eps : ℚ) : ℝ) ≤ ((21 / 10 ^ 57 : ℚ) : ℝ) := Rat.cast_le.mpr h
    norm_num at this ⊢; exact this
  have heps0 : (0 : ℝ) < ((Root.eps : ℚ) : ℝ) := by exact_mod_cast Root.eps_pos
  have hz_hi : ((v2 : ℝ) - 1) / ((v2 : ℝ) + 1) ≤ 1 / (2 * ((M.toInt : ℤ) : ℝ) + 1) := by
    rw [div_le_div_iff₀ (by linarith) (by linarith)]
    have : (v2 : ℝ) * ((M.toInt : ℤ) : ℝ) ≤ ((M.toInt : ℤ) : ℝ) + 1 := by
      have h1 : (v2 : ℝ) ≤ (((M.toInt : ℤ) : ℝ) + 1) / ((M.toInt : ℤ) : ℝ) := le_trans hV2b hqhi'.le
      rwa [le_div_iff₀ hMpos] at h1
    nlinarith
  have hz0 : 0 ≤ ((v2 : ℝ) - 1) / ((v2 : ℝ) + 1) := div_nonneg (by linarith) (by linarith)
  have hfac : (1 + ((Root.eps : ℚ) : ℝ)) / (1 - ((lam : ℚ) : ℝ)) ≤ 1 + 23 / 10 ^ 57 := by
    rw [div_le_iff₀ hu]; nlinarith
  have hF2M : (f : ℝ) ≤ 1 / (2 * ((M.toInt : ℤ) : ℝ) + 1) * (1 + 23 / 10 ^ 57) :=
    le_trans hfhiR (mul_le_mul hz_hi hfac (by positivity) (by positivity))
  -- the logarithm of the argument
  have hX : ((val d : ℚ) : ℝ) = (v : ℝ) * (10 : ℝ) ^ e0 := by
    rw [hvd]; push_cast; rfl
  have hLsplit : Real.log ((val d : ℚ) : ℝ)
      = (e0 : ℝ) * Real.log 10 + Real.log (((M.toInt : ℤ) : ℝ) / 10) + Real.log q := by
    rw [hX, Real.log_mul hvpos.ne' (zpow_ne_zero _ (by norm_num)), Real.log_zpow]
    have hv : (v : ℝ) = ((M.toInt : ℤ) : ℝ) / 10 * q := by rw [hq]; field_simp
    rw [hv, Real.log_mul (by positivity) (by positivity)]
    ring
  have hLq0 : 0 ≤ Real.log q := Real.log_nonneg hq1
  have hLM0 : 0 ≤ Real.log (((M.toInt : ℤ) : ℝ) / 10) := Real.log_nonneg (by rw [le_div_iff₀ (by norm_num)]; linarith)
  have hL10 : 0 < Real.log 10 := Real.log_pos (by norm_num)
  -- the core estimate
  have htab := lnM_table M hM0 hM1
  have htab' : |((lnM M : ℚ) : ℝ) - Real.log (((M.toInt : ℤ) : ℝ) / 10)| ≤ m * (1 / 2 / 10 ^ 57) := by
    rw [hm]; exact_mod_cast htab
  have hcore := core_estimate m q (v2 : ℝ) S (R : ℝ) (f : ℝ)
    hm01 hV2b hV2c hV2a hqhi hser hRR1 hRR2 hS0
  have hKabs : ((e0.natAbs : ℕ) : ℝ) = |(e0 : ℝ)| := by
    rw [Nat.cast_natAbs]; push_cast; rfl
  refine ⟨neg, x, t, e0, M.toInt, (v : ℝ), S, (f : ℝ), hlog, ht, hxe0, hxe1, hX, he0a, he0b, hM0, hM1,
    hMloR, hMhiR, hF0, hF2M, hFS, hS2F, ?_, hneg, ?_⟩
  · -- no table reduction: the quotient against `(v−1)/(v+1)`
    intro hM10
    have hm0 : m = 0 := by rw [hm, if_pos hM10]
    have hqv : q = (v2 : ℝ) := by
      rw [hm0] at hV2c; linarith
    have hqv' : q = (v : ℝ) := by
      rw [hq, hM10]; push_cast; field_simp
    rw [← hqv', hqv]
    exact le_trans hfhiR (mul_le_mul_of_nonneg_left hfac hz0)
  · -- the error bound
    have hLk0 : (0 : ℝ) ≤ ((e0.natAbs : ℕ) : ℝ) := Nat.cast_nonneg _
    have hlnM0 : (0 : ℝ) ≤ ((lnM M : ℚ) : ℝ) := by exact_mod_cast lnM_nonneg M
    have hl10hi : ((ln10v : ℚ) : ℝ) ≤ 231 / 100 := by
      have : ((ln10v : ℚ) : ℝ) ≤ ((231 / 100 : ℚ) : ℝ) := Rat.cast_le.mpr ln10v_hi
      norm_num at this ⊢; exact this
    have hl10lo : (0 : ℝ) ≤ ((ln10v : ℚ) : ℝ) := by
      have : ((23 / 10 : ℚ) : ℝ) ≤ ((ln10v : ℚ) : ℝ) := Rat.cast_le.mpr ln10v_lo
      norm_num at this; linarith
    -- lnM ≤ 2.31·m
    have hlnMhi : ((lnM M : ℚ) : ℝ) ≤ 231 / 100 * m := by
      by_cases h10 : M.toInt = 10
      · have : lnM M = 0 := by unfold lnM; rw [if_pos h10]
        rw [this, hm, if_pos h10]; norm_num
      · have hm1 : m = 1 := by rw [hm, if_neg h10]
        rw [hm1, mul_one]
        have h1 := (abs_le.mp htab').2
        rw [hm1, one_mul] at h1
        have h2 : Real.log (((M.toInt : ℤ) : ℝ) / 10) ≤ Real.log 10 :=
          Real.log_le_log (by positivity) (by linarith)
        have h3 := (abs_le.mp ln10v_table).1
        have h4 : ((ln10v : ℚ) : ℝ) ≤ 2303 / 1000 := by
          have h : ln10v ≤ 2303 / 1000 := by rw [ln10v_eq]; norm_num
          have : ((ln10v : ℚ) : ℝ) ≤ ((2303 / 1000 : ℚ) : ℝ) := Rat.cast_le.mpr h
          norm_num at this ⊢; exact this
        have h5 : (1 : ℝ) / 2 / 10 ^ 57 ≤ 1 / 1000 := by norm_num
        linarith
    -- the computed value against B
    set B : ℝ := if e0 < 0 then ((e0.natAbs : ℕ) : ℝ) * ((ln10v : ℚ) : ℝ) - 2 * (R : ℝ) - ((lnM M : ℚ) : ℝ)
        else 2 * (R : ℝ) + ((e0.natAbs : ℕ) : ℝ) * ((ln10v : ℚ) : ℝ) + ((lnM M : ℚ) : ℝ) with hB
    have hxB : |((val x : ℚ) : ℝ) - (|B|)|
        ≤ ((lam : ℚ) : ℝ) * (4 * (((e0.natAbs : ℕ) : ℝ) * ((ln10v : ℚ) : ℝ) + 2 * (R : ℝ)) + ((lnM M : ℚ) : ℝ)) := by
      have := Rat.cast_le (K := ℝ) |>.mpr hx
      rw [hB]
      split_ifs at this ⊢ with h
      all_goals (push_cast at this; exact this)
    have hmeq : (if M.toInt = 10 then (0 : ℝ) else 1) = m := by rw [hm]
    unfold errLog
    rw [hmeq]
    refine err_total ((e0.natAbs : ℕ) : ℝ) m S (tailR (f : ℝ)) (R : ℝ) ((ln10v : ℚ) : ℝ) ((lnM M : ℚ) : ℝ)
      (Real.log 10) (Real.log (((M.toInt : ℤ) : ℝ) / 10)) (Real.log q) B _ _ hLk0 hm01 hR0 hRR2 hcore
      ln10v_table htab' hl10hi hlnMhi ?_ hxB
    by_cases hneg0 : e0 < 0
    · right
      have hK : (e0 : ℝ) = -((e0.natAbs : ℕ) : ℝ) := by
        rw [hKabs, abs_of_neg (by exact_mod_cast hneg0)]; ring
      refine ⟨by rw [hB, if_pos hneg0], ?_⟩
      rw [hLsplit, hK]; ring
    · left
      have hK : (e0 : ℝ) = ((e0.natAbs : ℕ) : ℝ) := by
        rw [hKabs, abs_of_nonneg (by exact_mod_cast (not_lt.mp hneg0))]
      refine ⟨by rw [hB, if_neg hneg0], ?_⟩
      rw [hLsplit, hK]

end PowAcc

namespace PowAcc
open Gen D192 LogAcc Root

/-- the relative case (no exponent, no table): the whole budget is proportional to the logarithm -/
theorem fine_rel (v S F zb Fb κ : ℝ) (hv1 : 1 ≤ v) (hF0 : 0 ≤ F)
    (hFz : F ≤ (v - 1) / (v + 1) * (1 + 23 / 10 ^ 57)) (hz : (v - 1) / (v + 1) ≤ zb)
    (hFb : zb * (1 + 23 / 10 ^ 57) ≤ Fb) (hb : Fb ≤ 1 / 20) (hS2F : S ≤ 2 * F)
    (hκ : (1 + 23 / 10 ^ 57) * (Fb ^ 26 / (27 * (1 - Fb * Fb)) + 192 / 10 ^ 57) ≤ κ) :
    2 * tailR F + (16 * 0 + 7 * 0 + 192 * S) / 10 ^ 57 ≤ κ * Real.log v := by
  have hL := log_ge_two_z v hv1
  have hL0 : 0 ≤ Real.log v := Real.log_nonneg hv1
  have hd : (0 : ℝ) ≤ 1 + 23 / 10 ^ 57 := by norm_num
  have hFFb : F ≤ Fb := le_trans hFz (le_trans (mul_le_mul_of_nonneg_right hz hd) hFb)
  have ht := tail_mul F Fb hF0 hFFb hb
  have hFb0 : 0 ≤ Fb := le_trans hF0 hFFb
  have hc0 : 0 ≤ Fb ^ 26 / (27 * (1 - Fb * Fb)) := by
    have : 0 < 27 * (1 - Fb * Fb) := by nlinarith
    positivity
  set c : ℝ := Fb ^ 26 / (27 * (1 - Fb * Fb)) with hc
  have h2F : 2 * F ≤ (1 + 23 / 10 ^ 57) * Real.log v := by
    have : 2 * ((v - 1) / (v + 1)) * (1 + 23 / 10 ^ 57) ≤ Real.log v * (1 + 23 / 10 ^ 57) :=
      mul_le_mul_of_nonneg_right hL hd
    linarith
  have h1 : 2 * F * (c + 192 / 10 ^ 57) ≤ (1 + 23 / 10 ^ 57) * Real.log v * (c + 192 / 10 ^ 57) :=
    mul_le_mul_of_nonneg_right h2F (by positivity)
  have h2 : (1 + 23 / 10 ^ 57) * (c + 192 / 10 ^ 57) * Real.log v ≤ κ * Real.log v :=
    mul_le_mul_of_nonneg_right hκ hL0
  have e : (16 * 0 + 7 * 0 + 192 * S) / (10 : ℝ) ^ 57 = 192 / 10 ^ 57 * S := by ring
  have h3 : 192 / (10 : ℝ) ^ 57 * S ≤ 192 / 10 ^ 57 * (2 * F) := mul_le_mul_of_nonneg_left hS2F (by positivity)
  rw [e]
  nlinarith

/-- the two instances of the constants of `fine_rel` -/
theorem kappa21 : (1 + 23 / 10 ^ 57) * ((4762 / 10 ^ 5 : ℝ) ^ 26 / (27 * (1 - 4762 / 10 ^ 5 * (4762 / 10 ^ 5))) + 192 / 10 ^ 57)
    ≤ 156 / 10 ^ 38 := by norm_num

theorem kappaBand : (1 + 23 / 10 ^ 57) * ((43978 / 10 ^ 6 : ℝ) ^ 26 / (27 * (1 - 43978 / 10 ^ 6 * (43978 / 10 ^ 6))) + 192 / 10 ^ 57)
    ≤ 199 / 10 ^ 39 := by norm_num

end PowAcc
