/-
  D128/Proofs/RoundKernelCode.lean — code-level normal form of the generated rounding kernel
  `Gen.RoundingMode.round` (Go: /repo/rounding.go, `func (rm RoundingMode) round`).

  Provided:
  * `Go.loop_unfold`      : one-step unfolding of a `while` loop in `Go.GoM`
  * tactic `zeta_except_jp` (zeta-reduces all `have`s of a goal except do-notation join points)
  * `RK.adjW`, `RK.ladder_eq` : the six-mode decision table as a function of machine values, and the
      generic lemma that the generated if-ladder applies its join point to `adjW`
  * `RK.roundBody`, `RK.roundLoop`, `RK.round_eq_loop` :
      `Gen.RoundingMode.round rm shift neg sig exp trunc digit = roundLoop rm neg (none, shift, sig, exp, trunc, digit)`
      where `roundBody` is a cleaned-up (join-point free) form of the generated loop body
  * `RK.roundLoop_unfold` : one pass of the loop
  * `RK.prescaleUp_stop`, `RK.prescaleDown_stop`, `RK.prescaleDown_step` : the `shift` pre-scaling loops
  * `RK.round_adj0`, `RK.round_up`, `RK.round_up_carry`, `RK.round_down`, `RK.round_down_110` :
      evaluation of `Gen.RoundingMode.round` in the regimes reachable from the callers
-/
import Std.Tactic.Do
import Init.Internal.Order.While
import Mathlib.Tactic.SplitIfs
import D128.Gen.Rounding
import D128.Proofs.Words128

set_option autoImplicit false
set_option maxRecDepth 4096
set_option linter.unusedVariables false
set_option linter.unnecessarySeqFocus false

theorem Go.loop_unfold {β : Type} (b : β) (f : Unit → β → Go.GoM (ForInStep β)) :
    forIn (m := Go.GoM) Lean.Loop.mk b f = (do
      match ← f () b with
      | .done v => pure v
      | .yield v => forIn Lean.Loop.mk v f) :=
  Lean.Loop.forIn_eq_of_monadTail

open Lean Meta Elab Tactic in
/-- zeta-reduce every `let/have` in the goal except the do-notation join points `__do_jp` -/
elab "zeta_except_jp" : tactic => do
  let g ← getMainGoal
  g.withContext do
    let t ← instantiateMVars (← g.getType)
    let t' ← Meta.transform t (pre := fun e => do
      match e with
      | .letE n _ v b _ =>
        if n.eraseMacroScopes != `__do_jp then return .visit (b.instantiate1 v) else return .continue
      | _ => return .continue)
    let g' ← g.replaceTargetDefEq t'
    replaceMainGoal [g']

namespace RK
open Gen

def adjW (rm : UInt8) (neg : Bool) (w0 : UInt64) (trunc : Int8) (digit : UInt64) : Int64 :=
  if (rm == 0) = true then
    if (trunc == 1) = true then
      if decide (digit ≥ 5) = true then 1 else 0
    else
      if (trunc == -1) = true then
        if decide (digit > 5) = true then 1 else 0
      else
        if decide (digit > 5) = true then 1
        else
          if (digit == 5) = true then
            if (w0 % 2 != 0) = true then 1 else 0
          else 0
  else
    if (rm == 1) = true then
      if (trunc == -1) = true then
        if decide (digit > 5) = true then 1 else 0
      else
        if decide (digit ≥ 5) = true then 1 else 0
    else
      if (rm == 2) = true then
        if (trunc == -1 && digit == 0) = true then -1 else 0
      else
        if (rm == 3) = true then
          if (trunc == 1 || digit != 0) = true then 1 else 0
        else
          if (rm == 5) = true then
            if neg = true then
              if (trunc == -1 && digit == 0) = true then -1 else 0
            else
              if (trunc == 1 || digit != 0) = true then 1 else 0
          else
            if (rm == 4) = true then
              if neg = true then
                if (trunc == 1 || digit != 0) = true then 1 else 0
              else
                if (trunc == -1 && digit == 0) = true then -1 else 0
            else 0

theorem ladder_eq {α : Type} (jp : Unit → Int64 → α) (rm : UInt8) (neg : Bool) (w0 : UInt64) (trunc : Int8) (digit : UInt64) :
            (if (rm == 0) = true then
              if (trunc == 1) = true then
                if decide (digit ≥ 5) = true then
                  jp () 1
                else jp () 0
              else
                if (trunc == -1) = true then
                  if decide (digit > 5) = true then
                    jp () 1
                  else jp () 0
                else
                  if decide (digit > 5) = true then
                    jp () 1
                  else
                    if (digit == 5) = true then
                      if (w0 % 2 != 0) = true then
                        jp () 1
                      else jp () 0
                    else jp () 0
            else
              if (rm == 1) = true then
                if (trunc == -1) = true then
                  if decide (digit > 5) = true then
                    jp () 1
                  else jp () 0
                else
                  if decide (digit ≥ 5) = true then
                    jp () 1
                  else jp () 0
              else
                if (rm == 2) = true then
                  if (trunc == -1 && digit == 0) = true then
                    jp () (-1)
                  else jp () 0
                else
                  if (rm == 3) = true then
                    if (trunc == 1 || digit != 0) = true then
                      jp () 1
                    else jp () 0
                  else
                    if (rm == 5) = true then
                      if neg = true then
                        if (trunc == -1 && digit == 0) = true then
                          jp () (-1)
                        else jp () 0
                      else
                        if (trunc == 1 || digit != 0) = true then
                          jp () 1
                        else jp () 0
                    else
                      if (rm == 4) = true then
                        if neg = true then
                          if (trunc == 1 || digit != 0) = true then
                            jp () 1
                          else jp () 0
                        else
                          if (trunc == -1 && digit == 0) = true then
                            jp () (-1)
                          else jp () 0
                      else jp () 0) = jp () (adjW rm neg w0 trunc digit) := by
  unfold adjW
  repeat' split
  all_goals rfl


abbrev RSt := Option (U128 × Int16) × Bool × U128 × Int16 × Int8 × UInt64

def prescaleUp (sig : U128) (exp : Int16) : Go.GoM (U128 × Int16) :=
  forIn Lean.Loop.mk (sig, exp) fun (_ : Unit) (s : U128 × Int16) =>
    if (decide (s.2 > 0) && decide (s.1.w1 < 70368744177663)) = true then
      pure (ForInStep.yield (Gen.U128.mul64 s.1 10, s.2 - 1))
    else pure (ForInStep.done (s.1, s.2))

def prescaleDown (sig : U128) (exp : Int16) : Go.GoM (U128 × Int16) :=
  forIn Lean.Loop.mk (sig, exp) fun (_ : Unit) (s : U128 × Int16) =>
    if (decide (s.2 > 0) && (decide (s.1.w1 ≤ 70368744177663) || s.1 == { w0 := 0, w1 := 70368744177664 })) = true then
      pure (ForInStep.yield (Gen.U128.mul64 s.1 10, s.2 - 1))
    else pure (ForInStep.done (s.1, s.2))

def prescale (up : Bool) (sig : U128) (exp : Int16) : Go.GoM (U128 × Int16) :=
  if (sig.w0 ||| sig.w1 != 0) = true then
    if (decide (exp ≥ 19) && sig.w1 == 0) = true then
      (if up = true then prescaleUp else prescaleDown) (Gen.U128.mul64 sig 10000000000000000000) (exp - 19)
    else (if up = true then prescaleUp else prescaleDown) sig exp
  else pure (sig, 0)

def roundTail (shift : Bool) (p : U128 × Int16) (tsig : U128) (trunc : Int8) (digit : UInt64) :
    Go.GoM (ForInStep RSt) :=
  if decide (tsig.w1 > 703687441776639) = true then do
    let x ← Gen.U128.div10 p.1
    pure (ForInStep.yield (none, shift, x.1, p.2 + 1, (if (digit != 0) = true then 1 else trunc), x.2))
  else pure (ForInStep.done (some (tsig, p.2), shift, tsig, p.2, trunc, digit))

def roundBody (rm : UInt8) (neg : Bool) (_ : Unit) (s : RSt) : Go.GoM (ForInStep RSt) :=
  if (adjW rm neg s.2.2.1.w0 s.2.2.2.2.1 s.2.2.2.2.2 != 0) = true then
    if s.2.1 = true then do
      let p ← prescale (adjW rm neg s.2.2.1.w0 s.2.2.2.2.1 s.2.2.2.2.2 == 1) s.2.2.1 s.2.2.2.1
      roundTail false p
        (if (adjW rm neg s.2.2.1.w0 s.2.2.2.2.1 s.2.2.2.2.2 == 1) = true then Gen.U128.add64 p.1 1 else Gen.U128.sub64 p.1 1)
        s.2.2.2.2.1 s.2.2.2.2.2
    else
      roundTail s.2.1 (s.2.2.1, s.2.2.2.1)
        (if (adjW rm neg s.2.2.1.w0 s.2.2.2.2.1 s.2.2.2.2.2 == 1) = true then Gen.U128.add64 s.2.2.1 1 else Gen.U128.sub64 s.2.2.1 1)
        s.2.2.2.2.1 s.2.2.2.2.2
  else pure (ForInStep.done (some (s.2.2.1, s.2.2.2.1), s.2.1, s.2.2.1, s.2.2.2.1, s.2.2.2.2.1, s.2.2.2.2.2))

def roundLoop (rm : UInt8) (neg : Bool) (st : RSt) : Go.GoM (U128 × Int16) := do
  let s ← forIn Lean.Loop.mk st (roundBody rm neg)
  match s.1 with
  | some r => pure r
  | none => throw (Go.Panic.explicit "unreachable")

theorem round_eq_loop (rm : UInt8) (shift neg : Bool) (sig : U128) (exp : Int16) (trunc : Int8) (digit : UInt64) :
    RoundingMode.round rm shift neg sig exp trunc digit
      = roundLoop rm neg (none, shift, sig, exp, trunc, digit) := by
  unfold RoundingMode.round roundLoop
  zeta_except_jp
  simp -zeta only [ladder_eq]
  congr 1
  congr 1
  funext x s
  unfold roundBody roundTail prescale prescaleUp prescaleDown
  simp only [if_true]
  split_ifs <;> first | rfl | simp_all
  funext s
  rcases s with ⟨_ | r, rest⟩ <;> rfl


/-- one pass of the main loop -/
theorem roundLoop_unfold (rm : UInt8) (neg : Bool) (st : RSt) :
    roundLoop rm neg st = (do
      match ← roundBody rm neg () st with
      | .done v => (match v.1 with
          | some r => pure r
          | none => throw (Go.Panic.explicit "unreachable"))
      | .yield v => roundLoop rm neg v) := by
  unfold roundLoop
  rw [Go.loop_unfold]
  cases h : roundBody rm neg () st with
  | error e => rfl
  | ok r => cases r <;> rfl

/-! ## the pre-scaling loops -/

theorem prescaleUp_stop (sig : U128) (exp : Int16)
    (h : ¬ (exp > 0 ∧ sig.w1 < 70368744177663)) : prescaleUp sig exp = .ok (sig, exp) := by
  unfold prescaleUp
  rw [Go.loop_unfold]
  simp only [Bool.and_eq_true, decide_eq_true_eq, h, if_false]
  rfl

theorem prescaleDown_stop (sig : U128) (exp : Int16)
    (h : ¬ (exp > 0 ∧ (sig.w1 ≤ 70368744177663 ∨ sig = { w0 := 0, w1 := 70368744177664 }))) :
    prescaleDown sig exp = .ok (sig, exp) := by
  unfold prescaleDown
  rw [Go.loop_unfold]
  simp only [Bool.and_eq_true, Bool.or_eq_true, decide_eq_true_eq, beq_iff_eq, h, if_false]
  rfl

theorem prescaleDown_step (sig : U128) (exp : Int16)
    (h : exp > 0 ∧ (sig.w1 ≤ 70368744177663 ∨ sig = { w0 := 0, w1 := 70368744177664 })) :
    prescaleDown sig exp = prescaleDown (Gen.U128.mul64 sig 10) (exp - 1) := by
  have hc : (decide (exp > 0) && (decide (sig.w1 ≤ 70368744177663) ||
      sig == { w0 := 0, w1 := 70368744177664 })) = true := by
    simpa only [Bool.and_eq_true, Bool.or_eq_true, decide_eq_true_eq, beq_iff_eq] using h
  conv_lhs => unfold prescaleDown
  rw [Go.loop_unfold]
  dsimp only
  rw [if_pos hc]
  rfl

/-! ## Int16 / U128 helpers -/

theorem _root_.Int16.toInt_add_of (a b : Int16) (h1 : -32768 ≤ a.toInt + b.toInt)
    (h2 : a.toInt + b.toInt < 32768) : (a + b).toInt = a.toInt + b.toInt := by
  rw [Int16.toInt_add]
  apply Int.bmod_eq_of_le <;> omega

theorem _root_.Int16.toInt_sub_of (a b : Int16) (h1 : -32768 ≤ a.toInt - b.toInt)
    (h2 : a.toInt - b.toInt < 32768) : (a - b).toInt = a.toInt - b.toInt := by
  rw [Int16.toInt_sub]
  apply Int.bmod_eq_of_le <;> omega

theorem i16_gt_zero (e : Int16) : e > 0 ↔ 0 < e.toInt := by
  rw [gt_iff_lt, Int16.lt_iff_toInt_lt]; simp

theorem i16_ge_19 (e : Int16) : e ≥ 19 ↔ 19 ≤ e.toInt := by
  rw [ge_iff_le, Int16.le_iff_toInt_le]; simp

theorem U128_or_ne_zero (n : U128) : (n.w0 ||| n.w1 != 0) = decide (n.toNat ≠ 0) := by
  have h0 := n.w0.toNat_lt
  rw [Bool.eq_iff_iff, bne_iff_ne, decide_eq_true_eq, ne_eq, ne_eq, UInt64.or_eq_zero_iff,
    ← UInt64.toNat_inj, ← UInt64.toNat_inj]
  simp only [UInt64.toNat_zero, U128.toNat]
  omega

theorem U128_w1_toNat (n : U128) : n.w1.toNat = n.toNat / 2^64 := by
  have h0 := n.w0.toNat_lt
  simp only [U128.toNat]; omega

/-- `x.w1 > 0x27fffffffffff` means `x > Cmax` -/
theorem U128_w1_gt_iff (n : U128) :
    decide (n.w1 > 703687441776639) = decide (12980742146337069071326240823050240 ≤ n.toNat) := by
  have h0 := n.w0.toNat_lt
  rw [Bool.eq_iff_iff, decide_eq_true_eq, decide_eq_true_eq, gt_iff_lt, UInt64.lt_iff_toNat_lt]
  simp only [U128.toNat, UInt64.toNat_ofNat, Nat.reducePow, Nat.reduceMod]
  omega

/-- no pre-scaling happens at the minimum exponent and for full significands (for the `-1` branch:
    other than `2^110`) -/
theorem prescale_id (up : Bool) (sig : U128) (exp : Int16) (h0 : 0 ≤ exp.toInt)
    (h : exp.toInt ≤ 0 ∨ (2^110 ≤ sig.toNat ∧ (up = false → sig.toNat ≠ 2^110))) :
    prescale up sig exp = .ok (sig, exp) := by
  have hw0 := sig.w0.toNat_lt
  unfold prescale
  by_cases hz : sig.toNat = 0
  · have he : exp = 0 := by
      apply Int16.toInt_inj.1
      have : exp.toInt ≤ 0 := by
        rcases h with h | h
        · exact h
        · omega
      simp only [Int16.toInt_zero]; omega
    rw [U128_or_ne_zero]
    simp only [hz, ne_eq, not_true_eq_false, decide_false, Bool.false_eq_true, if_false, he]
    rfl
  · have h19 : ¬ ((decide (exp ≥ 19) && sig.w1 == 0) = true) := by
      simp only [Bool.and_eq_true, decide_eq_true_eq, beq_iff_eq, i16_ge_19, not_and]
      intro h19 hw
      rcases h with h | h
      · omega
      · have := congrArg UInt64.toNat hw
        simp only [UInt64.toNat_zero] at this
        simp only [U128.toNat] at h
        omega
    rw [U128_or_ne_zero]
    simp only [ne_eq, hz, not_false_eq_true, decide_true, if_true, if_neg h19]
    cases up
    · simp only [Bool.false_eq_true, if_false]
      apply prescaleDown_stop
      rw [i16_gt_zero, UInt64.le_iff_toNat_le, U128.eq_iff_toNat_eq]
      simp only [U128.toNat, UInt64.toNat_ofNat, Nat.reducePow, Nat.reduceMod, true_implies] at *
      omega
    · simp only [if_true]
      apply prescaleUp_stop
      rw [i16_gt_zero, UInt64.lt_iff_toNat_lt]
      simp only [U128.toNat, UInt64.toNat_ofNat, Nat.reducePow, Nat.reduceMod] at *
      omega

/-- the `-1` branch at `sig = 2^110`, `exp > 0`: one more digit is taken -/
theorem prescale_110 (exp : Int16) (h0 : 0 < exp.toInt) :
    prescale false { w0 := 0, w1 := 70368744177664 } exp
      = .ok ({ w0 := 0, w1 := 703687441776640 }, exp - 1) := by
  have hx : (exp - 1).toInt = exp.toInt - 1 := by
    have := exp.toInt_lt
    rw [Int16.toInt_sub_of] <;> simp <;> omega
  unfold prescale
  have h19 : ¬ ((decide (exp ≥ 19) && ({ w0 := 0, w1 := 70368744177664 } : U128).w1 == 0) = true) := by
    simp
  rw [if_pos (by decide), if_neg h19]
  simp only [Bool.false_eq_true, if_false]
  rw [prescaleDown_step _ _ ⟨(i16_gt_zero _).2 h0, Or.inr rfl⟩]
  have hm : Gen.U128.mul64 { w0 := 0, w1 := 70368744177664 } 10 = { w0 := 0, w1 := 703687441776640 } := by
    rfl
  rw [hm]
  apply prescaleDown_stop
  rw [i16_gt_zero, UInt64.le_iff_toNat_le, U128.eq_iff_toNat_eq]
  simp only [U128.toNat, UInt64.toNat_ofNat, Nat.reducePow, Nat.reduceMod]
  omega

/-! ## evaluation of the loop body -/

theorem ok_bind {α β : Type} (a : α) (f : α → Go.GoM β) : (Except.ok a >>= f) = f a := rfl

theorem roundBody_adj0 (rm : UInt8) (neg : Bool) (o : Option (U128 × Int16)) (shift : Bool) (sig : U128)
    (exp : Int16) (trunc : Int8) (digit : UInt64) (h : adjW rm neg sig.w0 trunc digit = 0) :
    roundBody rm neg () (o, shift, sig, exp, trunc, digit)
      = .ok (.done (some (sig, exp), shift, sig, exp, trunc, digit)) := by
  simp only [roundBody, h]
  rfl

theorem roundBody_up (rm : UInt8) (neg : Bool) (o : Option (U128 × Int16)) (shift : Bool) (sig : U128)
    (exp : Int16) (trunc : Int8) (digit : UInt64) (h : adjW rm neg sig.w0 trunc digit = 1) :
    roundBody rm neg () (o, shift, sig, exp, trunc, digit)
      = (do let p ← (if shift = true then prescale true sig exp else pure (sig, exp))
            roundTail false p (Gen.U128.add64 p.1 1) trunc digit) := by
  have e1 : ((1 : Int64) != 0) = true := by decide
  have e2 : ((1 : Int64) == 1) = true := by decide
  simp only [roundBody, h, e1, e2, if_true]
  cases shift
  · simp only [Bool.false_eq_true, if_false]; rfl
  · simp only [if_true]

theorem roundBody_down (rm : UInt8) (neg : Bool) (o : Option (U128 × Int16)) (shift : Bool) (sig : U128)
    (exp : Int16) (trunc : Int8) (digit : UInt64) (h : adjW rm neg sig.w0 trunc digit = -1) :
    roundBody rm neg () (o, shift, sig, exp, trunc, digit)
      = (do let p ← (if shift = true then prescale false sig exp else pure (sig, exp))
            roundTail false p (Gen.U128.sub64 p.1 1) trunc digit) := by
  have e1 : ((-1 : Int64) != 0) = true := by decide
  have e2 : ((-1 : Int64) == 1) = false := by decide
  simp only [roundBody, h, e1, e2, if_true]
  cases shift
  · simp only [Bool.false_eq_true, if_false]; rfl
  · simp only [if_true, Bool.false_eq_true, if_false]

theorem roundTail_done (shift : Bool) (p : U128 × Int16) (tsig : U128) (trunc : Int8) (digit : UInt64)
    (h : tsig.toNat < 12980742146337069071326240823050240) :
    roundTail shift p tsig trunc digit = .ok (.done (some (tsig, p.2), shift, tsig, p.2, trunc, digit)) := by
  have hw : decide (tsig.w1 > 703687441776639) = false := by
    rw [U128_w1_gt_iff]; simp only [decide_eq_false_iff_not]; omega
  simp only [roundTail, hw, Bool.false_eq_true, if_false]
  rfl

theorem roundTail_carry (shift : Bool) (p : U128 × Int16) (tsig : U128) (trunc : Int8) (digit : UInt64)
    (h : 12980742146337069071326240823050240 ≤ tsig.toNat) :
    ∃ q r, q.toNat = p.1.toNat / 10 ∧ r.toNat = p.1.toNat % 10 ∧
    roundTail shift p tsig trunc digit
      = .ok (.yield (none, shift, q, p.2 + 1, (if (digit != 0) = true then 1 else trunc), r)) := by
  have hw : decide (tsig.w1 > 703687441776639) = true := by
    rw [U128_w1_gt_iff]; simp only [decide_eq_true_eq]; omega
  obtain ⟨q, r, e, hq, hr⟩ := U128_div10_spec p.1
  refine ⟨q, r, hq, hr, ?_⟩
  simp only [roundTail, hw, if_true, e, ok_bind]
  rfl

/-! ## evaluation of `Gen.RoundingMode.round` -/

theorem round_adj0 (rm : UInt8) (shift neg : Bool) (sig : U128) (exp : Int16) (trunc : Int8)
    (digit : UInt64) (h : adjW rm neg sig.w0 trunc digit = 0) :
    RoundingMode.round rm shift neg sig exp trunc digit = .ok (sig, exp) := by
  rw [round_eq_loop, roundLoop_unfold, roundBody_adj0 _ _ _ _ _ _ _ _ h]
  rfl

/-- `adjust = 1`, no pre-scaling, no carry -/
theorem round_up (rm : UInt8) (shift neg : Bool) (sig : U128) (exp : Int16) (trunc : Int8)
    (digit : UInt64) (h : adjW rm neg sig.w0 trunc digit = 1) (h0 : 0 ≤ exp.toInt)
    (hnp : shift = true → exp.toInt ≤ 0 ∨ 2^110 ≤ sig.toNat)
    (hc : sig.toNat + 1 < 12980742146337069071326240823050240) :
    RoundingMode.round rm shift neg sig exp trunc digit = .ok (Gen.U128.add64 sig 1, exp) := by
  have hlt : (Gen.U128.add64 sig 1).toNat = sig.toNat + 1 := by
    rw [U128_add64_toNat_of_lt] <;> simp <;> omega
  have hp : (if shift = true then prescale true sig exp else pure (sig, exp)) = .ok (sig, exp) := by
    cases shift
    · rfl
    · simp only [if_true]
      apply prescale_id true sig exp h0
      rcases hnp rfl with h | h
      · exact Or.inl h
      · exact Or.inr ⟨h, by simp⟩
  rw [round_eq_loop, roundLoop_unfold, roundBody_up _ _ _ _ _ _ _ _ h, hp, ok_bind,
    roundTail_done _ _ _ _ _ (by show (Gen.U128.add64 sig 1).toNat < _; omega)]
  rfl

/-- `adjust = 1` at the largest significand: the carry re-rounds once at the next exponent -/
theorem round_up_carry (rm : UInt8) (shift neg : Bool) (sig : U128) (exp : Int16) (trunc : Int8)
    (digit : UInt64) (h : adjW rm neg sig.w0 trunc digit = 1) (h0 : 0 ≤ exp.toInt)
    (h1 : exp.toInt ≤ 32766)
    (h2 : ∀ w0, adjW rm neg w0 (if (digit != 0) = true then 1 else trunc) 9 = 1)
    (hc : sig.toNat = 12980742146337069071326240823050239) :
    ∃ sig', RoundingMode.round rm shift neg sig exp trunc digit = .ok (sig', exp + 1) ∧
      sig'.toNat = 2^110 := by
  have hlt : (Gen.U128.add64 sig 1).toNat = sig.toNat + 1 := by
    rw [U128_add64_toNat_of_lt] <;> simp <;> omega
  have hp : (if shift = true then prescale true sig exp else pure (sig, exp)) = .ok (sig, exp) := by
    cases shift
    · rfl
    · simp only [if_true]
      apply prescale_id true sig exp h0
      exact Or.inr ⟨by omega, by simp⟩
  obtain ⟨q, r, hq, hr, e⟩ := roundTail_carry false (sig, exp) (Gen.U128.add64 sig 1) trunc digit
    (by omega)
  have hr9 : r = 9 := by
    apply UInt64.toNat_inj.1
    rw [hr]; simp only [hc]; rfl
  subst hr9
  have hexp : 0 ≤ (exp + 1).toInt := by
    rw [Int16.toInt_add_of] <;> simp <;> omega
  have hq' : q.toNat = 2^110 - 1 := by rw [hq]; simp only [hc]; rfl
  rw [round_eq_loop, roundLoop_unfold, roundBody_up _ _ _ _ _ _ _ _ h, hp, ok_bind, e]
  simp only [ok_bind]
  rw [← round_eq_loop, round_up _ _ _ _ _ _ _ (h2 q.w0) hexp (by simp) (by omega)]
  refine ⟨_, rfl, ?_⟩
  rw [U128_add64_toNat_of_lt] <;> simp <;> omega

/-- `adjust = -1`, no pre-scaling -/
theorem round_down (rm : UInt8) (shift neg : Bool) (sig : U128) (exp : Int16) (trunc : Int8)
    (digit : UInt64) (h : adjW rm neg sig.w0 trunc digit = -1) (h0 : 0 ≤ exp.toInt)
    (hnp : shift = true → exp.toInt ≤ 0 ∨ (2^110 ≤ sig.toNat ∧ sig.toNat ≠ 2^110))
    (h1 : 1 ≤ sig.toNat) (hc : sig.toNat ≤ 12980742146337069071326240823050240) :
    RoundingMode.round rm shift neg sig exp trunc digit = .ok (Gen.U128.sub64 sig 1, exp) := by
  have hlt : (Gen.U128.sub64 sig 1).toNat = sig.toNat - 1 := by
    rw [U128_sub64_toNat_of_le] <;> simp <;> omega
  have hp : (if shift = true then prescale false sig exp else pure (sig, exp)) = .ok (sig, exp) := by
    cases shift
    · rfl
    · simp only [if_true]
      apply prescale_id false sig exp h0
      rcases hnp rfl with h | h
      · exact Or.inl h
      · exact Or.inr ⟨h.1, fun _ => h.2⟩
  rw [round_eq_loop, roundLoop_unfold, roundBody_down _ _ _ _ _ _ _ _ h, hp, ok_bind,
    roundTail_done _ _ _ _ _ (by show (Gen.U128.sub64 sig 1).toNat < _; omega)]
  rfl

/-- `adjust = -1` at `sig = 2^110` above the minimum exponent: the result is the largest
    significand one exponent lower -/
theorem round_down_110 (rm : UInt8) (neg : Bool) (sig : U128) (exp : Int16) (trunc : Int8)
    (digit : UInt64) (h : adjW rm neg sig.w0 trunc digit = -1) (h0 : 0 < exp.toInt)
    (hs : sig.toNat = 2^110) :
    ∃ sig', RoundingMode.round rm true neg sig exp trunc digit = .ok (sig', exp - 1) ∧
      sig'.toNat = 12980742146337069071326240823050239 := by
  have hsig : sig = { w0 := 0, w1 := 70368744177664 } := by
    apply U128.toNat_inj; rw [hs]; rfl
  subst hsig
  rw [round_eq_loop, roundLoop_unfold, roundBody_down _ _ _ _ _ _ _ _ h]
  simp only [if_true]
  have hsub : Gen.U128.sub64 { w0 := 0, w1 := 703687441776640 } 1
      = { w0 := 18446744073709551615, w1 := 703687441776639 } := by rfl
  have hsubN : (Gen.U128.sub64 { w0 := 0, w1 := 703687441776640 } 1).toNat
      = 12980742146337069071326240823050239 := by rw [hsub]; rfl
  rw [prescale_110 exp h0, ok_bind,
    roundTail_done _ _ _ _ _ (by
      show (Gen.U128.sub64 { w0 := 0, w1 := 703687441776640 } 1).toNat < _
      rw [hsubN]; decide)]
  exact ⟨_, rfl, hsubN⟩

end RK
