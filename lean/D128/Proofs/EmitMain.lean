/-
  D128/Proofs/EmitMain.lean — the emitted text of String, MarshalText, Format, Append (precision −1) and
  MarshalJSON, for ALL bit patterns.

  * `Emit.special_nan`, `Emit.special_inf`          : classification of NaN / ±Inf bit patterns
  * `Emit.string_fin`, `Emit.string_nan`, `Emit.string_inf`
  * `Emit.marshalText_fin`, `Emit.marshalText_nan`, `Emit.marshalText_inf`
  * `Emit.append_e`, `Emit.append_f`, `Emit.append_g`, `Emit.append_other`, `Emit.append_nan`,
    `Emit.append_inf`, `Emit.format_eq`            : `Append buf d verb prec` for `prec < 0`
  * `Emit.marshalJSON_fin`, `Emit.marshalJSON_nan`, `Emit.marshalJSON_inf`
-/
import D128.Proofs.EmitTop
import D128.Proofs.DigitsRound
set_option autoImplicit false
namespace Emit

/-- the value a bit pattern denotes -/
local notation "𝔳[" d "]" => Spec.interp (Gen.Decimal.lo d) (Gen.Decimal.hi d)

/-! ## specials -/

theorem special_nan (d : Gen.Decimal) (n : Bool) (p : UInt64) (h : 𝔳[d] = .nan n p) :
    Gen.Decimal.isSpecial d = true ∧ specialB d = Go.str "NaN" := by
  have h1 := Enc.interp_isNaN d
  rw [h] at h1
  have hn : Gen.Decimal.IsNaN d = true := h1.symm
  refine ⟨by rw [Enc.isSpecial_iff, hn]; rfl, ?_⟩
  unfold specialB
  rw [if_pos hn]; rfl

theorem special_inf (d : Gen.Decimal) (n : Bool) (h : 𝔳[d] = .inf n) :
    Gen.Decimal.isSpecial d = true ∧ specialB d = (if n then Go.str "-Inf" else Go.str "+Inf") := by
  have h1 := Enc.interp_isNaN d
  have h2 := Enc.interp_isInf d
  have h3 := Enc.interp_neg d
  rw [h] at h1 h2 h3
  have hn : Gen.Decimal.IsNaN d = false := h1.symm
  have hi : Gen.Decimal.isInf d = true := h2.symm
  have hs : Gen.Decimal.Signbit d = n := h3.symm
  refine ⟨by rw [Enc.isSpecial_iff, hn, hi]; rfl, ?_⟩
  unfold specialB
  rw [hn, hs]
  cases n <;> rfl

/-! ## String -/

theorem string_special (d : Gen.Decimal) (hs : Gen.Decimal.isSpecial d = true) :
    Gen.Decimal.String d = .ok (specialB d) := by
  rw [String_eq, if_pos hs, appendSpecial_plain d #[] (by decide)]
  show Except.ok (#[] ++ specialB d) = _
  rw [Array.empty_append]

/-- **String of a finite decimal** is the shortest text of the specification. -/
theorem string_fin (d : Gen.Decimal) (neg : Bool) (c : Nat) (e : Int) (hfin : 𝔳[d] = .fin neg c e) :
    ∃ out, Gen.Decimal.String d = .ok out ∧
      chars out = Spec.shortestG neg (Spec.sliceOf c e) 'e' ∧ out.size ≤ 12500 := by
  obtain ⟨hs, _⟩ := fin_fields d neg c e hfin
  obtain ⟨r, hr, hneg, hwf, hsl, hz, hx0, hx1⟩ := digits_fin d default neg c e hfin
  obtain ⟨out, ho, hco, hos⟩ := gSel_spec r #[] (-4) 6 true 101 (fun b => (pure b : Go.GoM Go.Bytes)) hwf hz
    hx0 hx1 (by decide) (by decide) (by decide)
  refine ⟨out, ?_, ?_, by simpa using hos⟩
  · rw [String_eq, if_neg (by rw [hs]; decide), hr]
    exact ho
  · rw [hco, hneg, hsl, shortestG_eq]
    rfl

theorem string_nan (d : Gen.Decimal) (n : Bool) (p : UInt64) (h : 𝔳[d] = .nan n p) :
    Gen.Decimal.String d = .ok (Go.str "NaN") := by
  obtain ⟨hs, hb⟩ := special_nan d n p h
  rw [string_special d hs, hb]

theorem string_inf (d : Gen.Decimal) (n : Bool) (h : 𝔳[d] = .inf n) :
    Gen.Decimal.String d = .ok (if n then Go.str "-Inf" else Go.str "+Inf") := by
  obtain ⟨hs, hb⟩ := special_inf d n h
  rw [string_special d hs, hb]

/-! ## MarshalText -/

theorem marshalText_special (d : Gen.Decimal) (hs : Gen.Decimal.isSpecial d = true) :
    Gen.Decimal.MarshalText d = .ok (specialB d, Go.Err.nil) := by
  rw [MarshalText_eq, if_pos hs, appendSpecial_plain d #[] (by decide)]
  show Except.ok (#[] ++ specialB d, Go.Err.nil) = _
  rw [Array.empty_append]

theorem marshalText_fin (d : Gen.Decimal) (neg : Bool) (c : Nat) (e : Int) (hfin : 𝔳[d] = .fin neg c e) :
    ∃ out, Gen.Decimal.MarshalText d = .ok (out, Go.Err.nil) ∧
      chars out = Spec.shortestG neg (Spec.sliceOf c e) 'e' ∧ out.size ≤ 12500 := by
  obtain ⟨hs, _⟩ := fin_fields d neg c e hfin
  obtain ⟨r, hr, hneg, hwf, hsl, hz, hx0, hx1⟩ := digits_fin d default neg c e hfin
  obtain ⟨out, ho, hco, hos⟩ := gSel_spec r #[] (-4) 6 true 101
    (fun b => (pure (b, Go.Err.nil) : Go.GoM (Go.Bytes × Go.Err))) hwf hz
    hx0 hx1 (by decide) (by decide) (by decide)
  refine ⟨out, ?_, ?_, by simpa using hos⟩
  · rw [MarshalText_eq, if_neg (by rw [hs]; decide), hr]
    exact ho
  · rw [hco, hneg, hsl, shortestG_eq]
    rfl

theorem marshalText_nan (d : Gen.Decimal) (n : Bool) (p : UInt64) (h : 𝔳[d] = .nan n p) :
    Gen.Decimal.MarshalText d = .ok (Go.str "NaN", Go.Err.nil) := by
  obtain ⟨hs, hb⟩ := special_nan d n p h
  rw [marshalText_special d hs, hb]

theorem marshalText_inf (d : Gen.Decimal) (n : Bool) (h : 𝔳[d] = .inf n) :
    Gen.Decimal.MarshalText d = .ok (if n then Go.str "-Inf" else Go.str "+Inf", Go.Err.nil) := by
  obtain ⟨hs, hb⟩ := special_inf d n h
  rw [marshalText_special d hs, hb]

/-! ## MarshalJSON -/

/-- **MarshalJSON of a finite decimal**: positional for leading-digit exponents −6 … 19, otherwise
exponent form with as many exponent digits as needed (no zero padding). -/
theorem marshalJSON_fin (d : Gen.Decimal) (neg : Bool) (c : Nat) (e : Int) (hfin : 𝔳[d] = .fin neg c e) :
    ∃ out, Gen.Decimal.MarshalJSON d = .ok (out, Go.Err.nil) ∧
      chars out = shortest (-6) 20 1 neg (Spec.sliceOf c e) 'e' ∧ out.size ≤ 12500 := by
  obtain ⟨hs, _⟩ := fin_fields d neg c e hfin
  obtain ⟨r, hr, hneg, hwf, hsl, hz, hx0, hx1⟩ := digits_fin d default neg c e hfin
  obtain ⟨out, ho, hco, hos⟩ := gSel_spec r #[] (-6) 20 false 101
    (fun b => (pure (b, Go.Err.nil) : Go.GoM (Go.Bytes × Go.Err))) hwf hz
    hx0 hx1 (by decide) (by decide) (by decide)
  refine ⟨out, ?_, ?_, by simpa using hos⟩
  · rw [MarshalJSON_eq, if_neg (by rw [hs]; decide), hr]
    exact ho
  · rw [hco, hneg, hsl]
    rfl

theorem marshalJSON_special (d : Gen.Decimal) (hs : Gen.Decimal.isSpecial d = true) :
    Gen.Decimal.MarshalJSON d = .ok (#[], Go.Err.jsonUnsupportedValue) := by
  rw [MarshalJSON_eq, if_pos hs, string_special d hs]
  rfl

theorem marshalJSON_nan (d : Gen.Decimal) (n : Bool) (p : UInt64) (h : 𝔳[d] = .nan n p) :
    Gen.Decimal.MarshalJSON d = .ok (#[], Go.Err.jsonUnsupportedValue) :=
  marshalJSON_special d (special_nan d n p h).1

theorem marshalJSON_inf (d : Gen.Decimal) (n : Bool) (h : 𝔳[d] = .inf n) :
    Gen.Decimal.MarshalJSON d = .ok (#[], Go.Err.jsonUnsupportedValue) :=
  marshalJSON_special d (special_inf d n h).1

/-! ## Append / Format with a negative precision -/

theorem bind_snd {α : Type} (x : Go.GoM (Gen.digits × α)) (r : Gen.digits) (out : α)
    (h : x = .ok (r, out)) : (x >>= fun y => (pure y.2 : Go.GoM α)) = .ok out := by
  rw [h]; rfl

theorem append_special (buf : Go.Bytes) (d : Gen.Decimal) (fmt : UInt8) (prec : Int64)
    (hs : Gen.Decimal.isSpecial d = true) (hbuf : buf.size < 2 ^ 62) :
    Gen.Append buf d fmt prec = .ok (buf ++ specialB d) := by
  unfold Gen.Append
  simp only [hs, if_true]
  exact appendSpecial_plain d buf hbuf

/-- verbs `e`, `E`: all digits in exponent form -/
theorem append_e (buf : Go.Bytes) (d : Gen.Decimal) (fmt : UInt8) (prec : Int64) (neg : Bool) (c : Nat)
    (e : Int) (hfin : 𝔳[d] = .fin neg c e) (hp : prec.toInt < 0) (hbuf : buf.size < 2 ^ 62)
    (hv : fmt = 101 ∨ fmt = 69) :
    ∃ out, Gen.Append buf d fmt prec = .ok out ∧
      chars out = chars buf ++ Spec.shortestE neg (Spec.sliceOf c e) (toChar fmt) := by
  obtain ⟨hs, _⟩ := fin_fields d neg c e hfin
  obtain ⟨r, hr, hneg, hwf, hsl, hz, hx0, hx1⟩ := digits_fin d default neg c e hfin
  have h0 := hwf.n0
  have hp' : prec < 0 := by rw [i64_lt_iff, i64_zero]; exact hp
  have hv' : (fmt == 101 || fmt == 69) = true := by rcases hv with h | h <;> subst h <;> rfl
  rw [Append_neg_eq buf d fmt prec hs hp', hr, Dg.ok_bind, if_pos hv']
  by_cases hn : r.ndig.toInt = 0
  · have hne : ¬ (r.ndig != 0) = true := by
      have : r.ndig = 0 := Int64.toInt_inj.mp (by rw [hn]; rfl)
      simp [this]
    rw [if_neg hne]
    obtain ⟨out, ho, hco, _⟩ := selE r buf 0 true fmt hwf hz hx0 hx1 hbuf
      (Or.inr ⟨hn, by rw [i64_zero]⟩)
    refine ⟨out, bind_snd _ r out ho, ?_⟩
    rw [hco, hneg, hsl]; rfl
  · have hne : (r.ndig != 0) = true := by
      have : r.ndig ≠ 0 := fun h => hn (by rw [h]; rfl)
      simp [this]
    rw [if_pos hne]
    have e1 : (r.ndig - 1).toInt = r.ndig.toInt - 1 := by
      have := hwf.n39
      rw [Dg.i64_sub _ _ (by rw [i64_one]; omega) (by rw [i64_one]; omega), i64_one]
    obtain ⟨out, ho, hco, _⟩ := selE r buf (r.ndig - 1) true fmt hwf hz hx0 hx1 hbuf (Or.inl e1)
    refine ⟨out, bind_snd _ r out ho, ?_⟩
    rw [hco, hneg, hsl]; rfl

/-- verb `f`: all digits in positional form -/
theorem append_f (buf : Go.Bytes) (d : Gen.Decimal) (prec : Int64) (neg : Bool) (c : Nat)
    (e : Int) (hfin : 𝔳[d] = .fin neg c e) (hp : prec.toInt < 0) (hbuf : buf.size < 2 ^ 62) :
    ∃ out, Gen.Append buf d 102 prec = .ok out ∧
      chars out = chars buf ++ Spec.shortestF neg (Spec.sliceOf c e) := by
  obtain ⟨hs, _⟩ := fin_fields d neg c e hfin
  obtain ⟨r, hr, hneg, hwf, hsl, hz, hx0, hx1⟩ := digits_fin d default neg c e hfin
  have hp' : prec < 0 := by rw [i64_lt_iff, i64_zero]; exact hp
  rw [Append_neg_eq buf d 102 prec hs hp', hr, Dg.ok_bind,
    if_neg (show ¬ ((102 : UInt8) == 101 || (102 : UInt8) == 69) = true by decide),
    if_pos (show ((102 : UInt8) == 102) = true by decide)]
  by_cases hneg' : decide (r.exp < 0) = true
  · rw [if_pos hneg']
    have hlt : r.exp.toInt < 0 := by
      rw [decide_eq_true_eq, i64_lt_iff, i64_zero] at hneg'; exact hneg'
    obtain ⟨out, ho, hco, _⟩ := selF r buf (-r.exp) hwf hz hx0 hx1 hbuf
      (by rw [i64_neg _ (by omega), if_pos hlt])
    refine ⟨out, bind_snd _ r out ho, ?_⟩
    rw [hco, hneg, hsl]; rfl
  · rw [if_neg hneg']
    have hlt : ¬ r.exp.toInt < 0 := by
      rw [decide_eq_true_eq, i64_lt_iff, i64_zero] at hneg'; exact hneg'
    obtain ⟨out, ho, hco, _⟩ := selF r buf 0 hwf hz hx0 hx1 hbuf (by rw [i64_zero, if_neg hlt])
    refine ⟨out, bind_snd _ r out ho, ?_⟩
    rw [hco, hneg, hsl]; rfl

/-- verbs `g`, `G`: the `%v` convention, exponent letter `e` / `E` -/
theorem append_g (buf : Go.Bytes) (d : Gen.Decimal) (fmt : UInt8) (prec : Int64) (neg : Bool) (c : Nat)
    (e : Int) (hfin : 𝔳[d] = .fin neg c e) (hp : prec.toInt < 0) (hbuf : buf.size < 2 ^ 62)
    (hv : fmt = 103 ∨ fmt = 71) :
    ∃ out, Gen.Append buf d fmt prec = .ok out ∧
      chars out = chars buf ++
        Spec.shortestG neg (Spec.sliceOf c e) (if fmt = 71 then 'E' else 'e') := by
  obtain ⟨hs, _⟩ := fin_fields d neg c e hfin
  obtain ⟨r, hr, hneg, hwf, hsl, hz, hx0, hx1⟩ := digits_fin d default neg c e hfin
  have h0 := hwf.n0
  have h39 := hwf.n39
  have hp' : prec < 0 := by rw [i64_lt_iff, i64_zero]; exact hp
  have hv1 : ¬ (fmt == 101 || fmt == 69) = true := by rcases hv with h | h <;> subst h <;> decide
  have hv2 : ¬ (fmt == 102) = true := by rcases hv with h | h <;> subst h <;> decide
  have hv3 : (fmt == 103 || fmt == 71) = true := by rcases hv with h | h <;> subst h <;> rfl
  have hch : toChar (if (fmt == 71) = true then 69 else 101) = (if fmt = 71 then 'E' else 'e') := by
    rcases hv with h | h <;> subst h <;> rfl
  rw [Append_neg_eq buf d fmt prec hs hp', hr, Dg.ok_bind, if_neg hv1, if_neg hv2, if_pos hv3,
    shortestG_eq]
  unfold shortest
  rw [← hsl, ← hneg, ← hch]
  -- the positional branch
  have hFF : ∀ precF : Int64, precF.toInt = (if r.exp.toInt < 0 then -r.exp.toInt else 0) →
      ∃ out, (r.fmtF buf precF 0 false false false false false >>= fun x => (pure x.2 : Go.GoM Go.Bytes)) =
          .ok out ∧
        chars out = chars buf ++ ((if r.neg then ['-'] else []) ++
          Spec.layoutF (Dg.slice r)
            (if ((Dg.slice r).ds.length : Int) > (Dg.slice r).dp then
              (((Dg.slice r).ds.length : Int) - (Dg.slice r).dp).toNat else 0) false) := by
    intro precF hpF
    obtain ⟨out, ho, hco, _⟩ := selF r buf precF hwf hz hx0 hx1 hbuf hpF
    exact ⟨out, bind_snd _ r out ho, hco⟩
  have hF2 : ∃ out, (if decide (r.exp < 0) = true then
        r.fmtF buf (0 - r.exp) 0 false false false false false >>= fun x => (pure x.2 : Go.GoM Go.Bytes)
      else r.fmtF buf 0 0 false false false false false >>= fun x => pure x.2) = .ok out ∧
      chars out = chars buf ++ ((if r.neg then ['-'] else []) ++
        Spec.layoutF (Dg.slice r)
          (if ((Dg.slice r).ds.length : Int) > (Dg.slice r).dp then
            (((Dg.slice r).ds.length : Int) - (Dg.slice r).dp).toNat else 0) false) := by
    by_cases hneg' : decide (r.exp < 0) = true
    · rw [if_pos hneg']
      have hlt : r.exp.toInt < 0 := by
        rw [decide_eq_true_eq, i64_lt_iff, i64_zero] at hneg'; exact hneg'
      exact hFF _ (by
        rw [Dg.i64_sub _ _ (by rw [i64_zero]; omega) (by rw [i64_zero]; omega), i64_zero, if_pos hlt]
        omega)
    · rw [if_neg hneg']
      have hlt : ¬ r.exp.toInt < 0 := by
        rw [decide_eq_true_eq, i64_lt_iff, i64_zero] at hneg'; exact hneg'
      exact hFF 0 (by rw [i64_zero, if_neg hlt])
  by_cases hn : r.ndig.toInt = 0
  · have hne : ¬ (r.ndig != 0) = true := by
      have : r.ndig = 0 := Int64.toInt_inj.mp (by rw [hn]; rfl)
      simp [this]
    have he := hz hn
    rw [if_neg hne]
    have e1 : (r.exp + 0).toInt = 0 := by
      rw [Dg.i64_add _ _ (by rw [i64_zero]; omega) (by rw [i64_zero]; omega), i64_zero, he]; rfl
    have c1 : ¬ (decide (r.exp + 0 < -4) || decide (r.exp + 0 ≥ 6)) = true := by
      have m4 : (-4 : Int64).toInt = -4 := by decide
      have p6 : (6 : Int64).toInt = 6 := by decide
      rw [Bool.or_eq_true, decide_eq_true_eq, decide_eq_true_eq, i64_lt_iff, ge_iff_le, i64_le_iff, e1,
        m4, p6]
      omega
    rw [if_neg c1]
    obtain ⟨out, ho, hco⟩ := hF2
    refine ⟨out, ho, ?_⟩
    rw [hco, slice_zero r hn he]; rfl
  · have hne : (r.ndig != 0) = true := by
      have : r.ndig ≠ 0 := fun h => hn (by rw [h]; rfl)
      simp [this]
    rw [if_pos hne, slice_nonempty r hwf hn, selCond r (-4) 6 hwf hx0 hx1]
    simp only [Bool.false_eq_true, if_false]
    have m4 : (-4 : Int64).toInt = -4 := by decide
    have p6 : (6 : Int64).toInt = 6 := by decide
    rw [m4, p6]
    by_cases hc : (decide ((Dg.slice r).dp - 1 < -4) || decide ((Dg.slice r).dp - 1 ≥ 6)) = true
    · rw [if_pos hc, if_pos hc]
      have e1 : (r.ndig - 1).toInt = r.ndig.toInt - 1 := by
        rw [Dg.i64_sub _ _ (by rw [i64_one]; omega) (by rw [i64_one]; omega), i64_one]
      obtain ⟨out, ho, hco, _⟩ := selE r buf (r.ndig - 1) true (if (fmt == 71) = true then 69 else 101)
        hwf hz hx0 hx1 hbuf (Or.inl e1)
      exact ⟨out, bind_snd _ r out ho, hco⟩
    · rw [if_neg hc, if_neg hc]
      exact hF2

/-- any other verb: `%` followed by the verb, as strconv does -/
theorem append_other (buf : Go.Bytes) (d : Gen.Decimal) (fmt : UInt8) (prec : Int64)
    (hs : Gen.Decimal.isSpecial d = false) (hp : prec.toInt < 0)
    (hv : fmt ≠ 101 ∧ fmt ≠ 69 ∧ fmt ≠ 102 ∧ fmt ≠ 103 ∧ fmt ≠ 71) :
    Gen.Append buf d fmt prec = .ok ((buf.push 37).push fmt) := by
  have hp' : prec < 0 := by rw [i64_lt_iff, i64_zero]; exact hp
  obtain ⟨r, hr, _⟩ := Dg.digits_ok d default
  obtain ⟨h1, h2, h3, h4, h5⟩ := hv
  rw [Append_neg_eq buf d fmt prec hs hp', hr, Dg.ok_bind,
    if_neg (show ¬ (fmt == 101 || fmt == 69) = true by simp [h1, h2]),
    if_neg (show ¬ (fmt == 102) = true by simp [h3]),
    if_neg (show ¬ (fmt == 103 || fmt == 71) = true by simp [h4, h5])]
  rfl

/-- `Format` is `Append` to the empty buffer -/
theorem format_eq (d : Gen.Decimal) (fmt : UInt8) (prec : Int64) :
    Gen.Format d fmt prec = Gen.Append #[] d fmt prec := by
  unfold Gen.Format
  cases Gen.Append #[] d fmt prec <;> rfl

end Emit
