/-
  D128/Proofs/CohortElemLog1pSeries.lean — property C19 for `Log1p`, branch `|x| < 10^-9`: the ten-term series
  `decomposed192.log1p` (Go: /repo/decomposed.go) returns BIT-IDENTICAL `(neg, res, trunc)` for two arguments of one value
  (cohort members `⟨c, e⟩`, `⟨c·10^m, e−m⟩`).

      num = d; res = d; for i = 2..10 { num, trunc = num.mul(d, trunc); tmp, _ = num.quo(i, 0);
                                        res, trunc = res ± tmp (add / sub, flag threaded) }

  The two runs are followed in lock-step (`pair_step`, `pair_loop`), each run also carrying PA17b's accuracy invariant
  `LogAcc.Inv` (from `LogAcc.step_ok`; it supplies all magnitudes and exponent windows).  Relation between the runs after
  `k` terms:
    * `val num = val num'` — `mul` is value-congruent without side condition (`CohortElem.mul_congr_prod`): the powers are
      the same register once they are inexact, before that they are exact products in different representations — possibly
      OVER-FULL in one run (`x = 25e-57` written `25·10^30e-87`: `x² = ⟨625·10^55, −169⟩ ≥ 10·LIM`, exact);
    * `tmp`, `tmp'` : `quo` normalises its numerator, so the quotients are the same register (`quo_congr_left`), except for an
      over-full / short numerator pair, where both quotients are exact and one digit apart (`quo_congr_mixed`, pa32-quo);
    * `res = res'` from the second term on: `res ≈ x` dominates `tmp ≤ 10^-9·x`, the operands are aligned at the full-width
      exponent of `res` in both runs, so `add`/`sub` return the same register outright (`add_congr_dom`, `sub_congr_dom`,
      pa32-add); before the first pass `res = d`, `res' = d'` are both below `10·LIM`;
    * flags: `FlagRel t t'` — equal, or both raised.  OBSERVATION (finding D20 of the project at work, `#guard`s at the end
      of the file): the flags of the two runs can DIFFER after a term (`+1` against `−1`: `add` writes `−1` in its `div10000`
      loop and `+1` in its `div10` loop, and the two runs drop the digits of `tmp ≠ tmp'` in different groups) — e.g. after
      term 2 for `x = -25e-57`.  They are re-synchronised by the next inexact `mul` or `add`; from the eighth term on `tmp`
      lies at least 58 digits below `res` and the flag is the same in both runs whatever came in (`add_congr_dom_far`; for
      `sub` the flags of two inexact runs always agree and exactness is excluded, `far_not_exact`).
  Exponent window: all intermediate exponents must stay in `[-16000, 16000]` (the windows of the operation lemmas), which
  needs `-1588 ≤ d.exp` for both arguments (`10·1588 + 116 = 15996`).  PARTIAL in this respect: for smaller exponents the
  statement was only checked by evaluation (whole cohorts, also where the `int16` exponents wrap: no counterexample).

  Provided (namespace `CohortElem`):
  * `FlagRel`, `dom_exp`, `dom_exp_far`, `fullAt_exists`, `val_multiple`, `far_not_exact`
  * `ResHyp`, `add_pair`, `sub_pair` : the `res` step in two runs (same register; `FlagRel`; same flag when far)
  * `mul_pair`, `quo_small_run`, `quo_small_pair` : the `num` and `tmp` steps in two runs
  * `pair_step`, `pair_loop`
  * **`log1p_congr`** : `Pre d`, `Pre d'` (non-zero, `val ≤ 10^-9`), `val d = val d'`, both `sig < 10·LIM`, both
                        `exp ≥ -1588`  ⇒  `decomposed192.log1p d neg = decomposed192.log1p d' neg`
-/
import D128.Proofs.CohortElemMulCongr
import D128.Proofs.CohortElemQuoMixed
import D128.Proofs.CohortElemAddCongr
import D128.Proofs.CohortElemAddSubCongr
import D128.Proofs.LogAccP1Code
set_option autoImplicit false
set_option maxRecDepth 4096
set_option linter.unusedVariables false
set_option exponentiation.threshold 512

namespace CohortElem
open Gen D192 Root LogAcc D128.Proofs.WordsWide

/-- flags of the two runs: equal, or both raised (finding D20: `add` may raise `+1` in one run and `-1` in the other) -/
def FlagRel (t t' : Int8) : Prop := t = t' ∨ ((t = 1 ∨ t = -1) ∧ (t' = 1 ∨ t' = -1))

theorem lim_ratio : (2 : ℚ) ^ 192 = 1024 / 100 * ((LIM : Nat) : ℚ) := by unfold LIM; norm_num

/-- the term is below the last digit of the full-width form of `res` -/
theorem dom_exp (res tmp : decomposed192) (f : Int) (x V : ℚ) (hx : 0 < x)
    (hlt : val res < (2 : ℚ) ^ 192 * (10 : ℚ) ^ f) (hb : 98 / 100 * x ≤ val res)
    (hL : ((LIM : Nat) : ℚ) * (10 : ℚ) ^ tmp.exp.toInt ≤ V) (hV : V ≤ x / 10 ^ 9) : tmp.exp.toInt < f := by
  by_contra hc
  rw [not_lt] at hc
  have h1 : (10 : ℚ) ^ f ≤ (10 : ℚ) ^ tmp.exp.toInt := zpow_le_zpow_right₀ (by norm_num) hc
  have hLq : (0 : ℚ) < ((LIM : Nat) : ℚ) := by unfold LIM; norm_num
  rw [lim_ratio] at hlt
  have h2 : ((LIM : Nat) : ℚ) * (10 : ℚ) ^ f ≤ V := le_trans (mul_le_mul_of_nonneg_left h1 hLq.le) hL
  have h3 : x / 10 ^ 9 = x * (1 / 10 ^ 9) := by ring
  nlinarith

/-- … by at least 58 digits, for the terms from the eighth on -/
theorem dom_exp_far (res tmp : decomposed192) (f : Int) (x V : ℚ) (hx : 0 < x)
    (hlt : val res < (2 : ℚ) ^ 192 * (10 : ℚ) ^ f) (hb : 98 / 100 * x ≤ val res)
    (hL : ((LIM : Nat) : ℚ) * (10 : ℚ) ^ tmp.exp.toInt ≤ V) (hV : V ≤ x / 10 ^ 63) :
    tmp.exp.toInt + 58 ≤ f ∧ V < (10 : ℚ) ^ f := by
  have hLq : (0 : ℚ) < ((LIM : Nat) : ℚ) := by unfold LIM; norm_num
  have hLv : ((LIM : Nat) : ℚ) = 25 * 2 ^ 184 := by unfold LIM; norm_num
  have h3 : x / 10 ^ 63 = x * (1 / 10 ^ 63) := by ring
  have hpf : (0 : ℚ) < (10 : ℚ) ^ f := zpow_pos (by norm_num) _
  constructor
  · by_contra hc
    have hc' : f ≤ tmp.exp.toInt + 57 := by omega
    have h1 : (10 : ℚ) ^ f ≤ (10 : ℚ) ^ (tmp.exp.toInt + 57) := zpow_le_zpow_right₀ (by norm_num) hc'
    rw [zpow_add₀ (by norm_num)] at h1
    have e57 : (10 : ℚ) ^ (57 : Int) = 10 ^ 57 := by norm_cast
    rw [e57] at h1
    rw [lim_ratio] at hlt
    have hpt : (0 : ℚ) < (10 : ℚ) ^ tmp.exp.toInt := zpow_pos (by norm_num) _
    nlinarith
  · rw [lim_ratio, hLv] at hlt
    nlinarith

/-- every non-zero register has a full-width exponent; the value is an integer multiple of `10^f` below `2^192·10^f` -/
theorem fullAt_exists (x : decomposed192) (hx : x.sig.toNat ≠ 0) :
    ∃ f : Int, FullAt x f ∧ val x < (2 : ℚ) ^ 192 * (10 : ℚ) ^ f ∧ ∃ N : Nat, val x = (N : ℚ) * (10 : ℚ) ^ f := by
  have hex : ∃ j : Nat, LIM ≤ x.sig.toNat * 10 ^ j := by
    refine ⟨57, ?_⟩
    have : 1 * 10 ^ 57 ≤ x.sig.toNat * 10 ^ 57 := Nat.mul_le_mul_right _ (Nat.one_le_iff_ne_zero.mpr hx)
    have h2 : LIM ≤ 10 ^ 57 := by unfold LIM; norm_num
    omega
  classical
  let j := Nat.find hex
  have hj : LIM ≤ x.sig.toNat * 10 ^ j := Nat.find_spec hex
  have hmin : ∀ m, m < j → ¬ LIM ≤ x.sig.toNat * 10 ^ m := fun m hm => Nat.find_min hex hm
  have hub : j = 0 ∨ x.sig.toNat * 10 ^ j < 10 * LIM := by
    rcases Nat.eq_zero_or_pos j with h0 | hpos
    · exact Or.inl h0
    · right
      have := hmin (j - 1) (by omega)
      have e : 10 ^ j = 10 ^ (j - 1) * 10 := by rw [← Nat.pow_succ]; congr 1; omega
      rw [e, ← Nat.mul_assoc]
      omega
  have hlt : x.sig.toNat * 10 ^ j < 2 ^ 192 := by
    rcases hub with h0 | h
    · rw [h0]; simpa using U192.toNat_lt x.sig
    · have : 10 * LIM < 2 ^ 192 := by unfold LIM; norm_num
      omega
  refine ⟨x.exp.toInt - j, ⟨j, rfl, hj, hub⟩, ?_, x.sig.toNat * 10 ^ j, val_shift x j⟩
  rw [val_shift x j]
  have hp : (0 : ℚ) < (10 : ℚ) ^ (x.exp.toInt - j) := zpow_pos (by norm_num) _
  have : ((x.sig.toNat * 10 ^ j : Nat) : ℚ) < (2 : ℚ) ^ 192 := by exact_mod_cast hlt
  exact mul_lt_mul_of_pos_right this hp

/-- a register at an exponent `≥ f` is a multiple of `10^f` -/
theorem val_multiple (r : decomposed192) (f : Int) (h : f ≤ r.exp.toInt) :
    ∃ M : Nat, val r = (M : ℚ) * (10 : ℚ) ^ f := by
  refine ⟨r.sig.toNat * 10 ^ (r.exp.toInt - f).toNat, ?_⟩
  unfold val
  have e : r.exp.toInt = f + ((r.exp.toInt - f).toNat : Int) := by omega
  conv_lhs => rw [e]
  rw [zpow_add₀ (by norm_num), zpow_natCast]
  push_cast; ring

/-- no exact difference with a positive amount below one unit `10^f` -/
theorem far_not_exact (f : Int) (N M : Nat) (v : ℚ) (h0 : 0 < v) (h1 : v < (10 : ℚ) ^ f) :
    (M : ℚ) * (10 : ℚ) ^ f ≠ (N : ℚ) * (10 : ℚ) ^ f - v := by
  have hp : (0 : ℚ) < (10 : ℚ) ^ f := zpow_pos (by norm_num) _
  intro h
  have h2 : ((N : ℚ) - M) * (10 : ℚ) ^ f = v := by rw [sub_mul]; linarith
  have h3 : (0 : ℚ) < (N : ℚ) - M := by
    by_contra hc
    rw [not_lt] at hc
    have := mul_nonpos_of_nonpos_of_nonneg hc hp.le
    linarith
  have h4 : (N : ℚ) - M < 1 := by
    by_contra hc
    rw [not_lt] at hc
    have := mul_le_mul_of_nonneg_right hc hp.le
    linarith
  have h5 : (M : ℤ) < N := by
    have : (M : ℚ) < N := by linarith
    exact_mod_cast this
  have h6 : (N : ℚ) - M ≥ 1 := by
    have : (M : ℤ) + 1 ≤ N := h5
    have : ((M : ℤ) + 1 : ℚ) ≤ ((N : ℤ) : ℚ) := by exact_mod_cast this
    push_cast at this; linarith
  linarith

/-- hypotheses shared by the two `res` steps -/
structure ResHyp (x V : ℚ) (res res' tmp tmp' : decomposed192) : Prop where
  hx : 0 < x
  hb : 98 / 100 * x ≤ val res
  hR : res = res' ∨ (val res = val res' ∧ res.sig.toNat < 10 * LIM ∧ res'.sig.toNat < 10 * LIM)
  hT : tmp = tmp' ∨ (tmp.sig.toNat < 10 * LIM ∧ tmp'.sig.toNat < 10 * LIM)
  hTv : val tmp = val tmp'
  hT0 : tmp.sig.toNat ≠ 0
  hT0' : tmp'.sig.toNat ≠ 0
  hL : ((LIM : Nat) : ℚ) * (10 : ℚ) ^ tmp.exp.toInt ≤ V
  hL' : ((LIM : Nat) : ℚ) * (10 : ℚ) ^ tmp'.exp.toInt ≤ V
  hV : V ≤ x / 10 ^ 9
  hTV : val tmp ≤ V
  w1 : -16000 ≤ res.exp.toInt ∧ res.exp.toInt ≤ 16000
  w1' : -16000 ≤ res'.exp.toInt ∧ res'.exp.toInt ≤ 16000
  w2 : -16000 ≤ tmp.exp.toInt ∧ tmp.exp.toInt ≤ 16000
  w2' : -16000 ≤ tmp'.exp.toInt ∧ tmp'.exp.toInt ≤ 16000

theorem ResHyp.resv {x V : ℚ} {res res' tmp tmp' : decomposed192} (h : ResHyp x V res res' tmp tmp') :
    val res = val res' := by
  rcases h.hR with h | h
  · rw [h]
  · exact h.1

theorem ResHyp.res0 {x V : ℚ} {res res' tmp tmp' : decomposed192} (h : ResHyp x V res res' tmp tmp') :
    res.sig.toNat ≠ 0 := sig_ne_of_val_pos res (by have := h.hb; have := h.hx; linarith)

/-- the step `res ← res + tmp` in two runs: the same register; flags equal or both raised; from the eighth term on the
same flag -/
theorem add_pair {x V : ℚ} {res res' tmp tmp' : decomposed192} (h : ResHyp x V res res' tmp tmp') (t1 t1' : Int8)
    (hF : FlagRel t1 t1') :
    ∃ r t2 t2', decomposed192.add res tmp t1 = .ok (r, t2) ∧ decomposed192.add res' tmp' t1' = .ok (r, t2') ∧
      FlagRel t2 t2' ∧ (V ≤ x / 10 ^ 63 → t2 = t2') := by
  obtain ⟨f, hf, hlt, N, hN⟩ := fullAt_exists res h.res0
  have hR' : res = res' ∨ (res.sig.toNat < 10 * LIM ∧ res'.sig.toNat < 10 * LIM) := h.hR.imp id (fun a => a.2)
  by_cases hfar : V ≤ x / 10 ^ 63
  · obtain ⟨e1, -⟩ := dom_exp_far res tmp f x V h.hx hlt h.hb h.hL hfar
    obtain ⟨e2, -⟩ := dom_exp_far res tmp' f x V h.hx hlt h.hb h.hL' hfar
    obtain ⟨r, t2, a1, a2, a3, -⟩ := add_congr_dom_far res res' tmp tmp' t1 t1' h.resv h.hTv hR' h.hT f hf h.hT0 h.hT0'
      e1 e2 h.w1 h.w2 h.w1' h.w2'
    exact ⟨r, t2, t2, a1, a2, Or.inl rfl, fun _ => rfl⟩
  · have e1 := dom_exp res tmp f x V h.hx hlt h.hb h.hL h.hV
    have e2 := dom_exp res tmp' f x V h.hx hlt h.hb h.hL' h.hV
    obtain ⟨r, t2, t2', a1, a2, a3, -⟩ := add_congr_dom res res' tmp tmp' t1 t1' h.resv h.hTv hR' h.hT f hf e1 e2
      h.w1 h.w2 h.w1' h.w2'
    refine ⟨r, t2, t2', a1, a2, ?_, fun hc => absurd hc hfar⟩
    rcases a3 with ⟨-, b, c⟩ | ⟨b, c, -⟩
    · rw [b, c]; exact hF
    · exact Or.inr ⟨b, c⟩

/-- the step `res ← res − tmp` in two runs -/
theorem sub_pair {x V : ℚ} {res res' tmp tmp' : decomposed192} (h : ResHyp x V res res' tmp tmp') (t1 t1' : Int8)
    (hF : FlagRel t1 t1') :
    ∃ ng r t2 t2', decomposed192.sub res tmp t1 = .ok (ng, r, t2) ∧ decomposed192.sub res' tmp' t1' = .ok (ng, r, t2') ∧
      FlagRel t2 t2' ∧ (V ≤ x / 10 ^ 63 → t2 = t2') := by
  obtain ⟨f, hf, hlt, N, hN⟩ := fullAt_exists res h.res0
  have hR' : res = res' ∨ (res.sig.toNat < 10 * LIM ∧ res'.sig.toNat < 10 * LIM) := h.hR.imp id (fun a => a.2)
  have e1 := dom_exp res tmp f x V h.hx hlt h.hb h.hL h.hV
  have e2 := dom_exp res tmp' f x V h.hx hlt h.hb h.hL' h.hV
  have hle : val tmp ≤ val res := by
    have := h.hTV; have := h.hV; have := h.hb; have := h.hx
    have h3 : x / 10 ^ 9 = x * (1 / 10 ^ 9) := by ring
    nlinarith
  obtain ⟨ng, r, t2, t2', a1, a2, a3, a4, a5, -⟩ := sub_congr_dom res res' tmp tmp' t1 t1' h.resv h.hTv hR' h.hT f hf e1 e2
    h.w1 h.w2 h.w1' h.w2'
  have hng := a4 hle
  subst hng
  refine ⟨false, r, t2, t2', a1, a2, ?_, ?_⟩
  · rcases a3 with ⟨-, b, c⟩ | ⟨b, c⟩
    · simp only [Bool.false_eq_true, if_false] at b c
      rw [b, c]; exact hF
    · exact Or.inl b
  · intro hfar
    rcases a3 with ⟨b, -, -⟩ | ⟨b, -⟩
    · exfalso
      obtain ⟨-, hVf⟩ := dom_exp_far res tmp f x V h.hx hlt h.hb h.hL hfar
      obtain ⟨M, hM⟩ := val_multiple r f a5
      rw [abs_of_nonneg (by linarith)] at b
      rw [hM, hN] at b
      exact far_not_exact f N M (val tmp) (val_pos_of_sig tmp h.hT0) (lt_of_le_of_lt h.hTV hVf) b
    · exact b

theorem ok_inj2 {α : Type} {a b : α} (h : (Except.ok a : Go.GoM α) = .ok b) : a = b := by cases h; rfl


/-- the numerator step `num ← num·d` in two runs -/
theorem mul_pair (d d' : decomposed192) (k : Nat) (num num' : decomposed192) (t t' : Int8)
    (hpre : Pre d) (hpre' : Pre d') (hv : val d = val d') (hlo : -1588 ≤ d.exp.toInt) (hlo' : -1588 ≤ d'.exp.toInt)
    (hk1 : 1 ≤ k) (hk9 : k ≤ 9) (hN : val num = val num')
    (i1 : num.sig.toNat ≠ 0) (i3 : val num ≤ val d ^ k) (i4 : (k : Int) * d.exp.toInt ≤ num.exp.toInt)
    (i1' : num'.sig.toNat ≠ 0) (i4' : (k : Int) * d'.exp.toInt ≤ num'.exp.toInt) (hF : FlagRel t t') :
    ∃ n1 n1' t1 t1', decomposed192.mul num d t = .ok (n1, t1) ∧ decomposed192.mul num' d' t' = .ok (n1', t1') ∧
      val n1 = val n1' ∧ FlagRel t1 t1' ∧ n1.sig.toNat ≠ 0 ∧ n1'.sig.toNat ≠ 0 ∧
      val n1 ≤ val d ^ k * val d ∧
      (-15880 ≤ n1.exp.toInt ∧ n1.exp.toInt ≤ 0) ∧ (-15880 ≤ n1'.exp.toInt ∧ n1'.exp.toInt ≤ 0) := by
  have hx := hpre.pos
  have hx9 := hpre.2.1
  have he1 := hpre.exp_le
  have he1' := hpre'.exp_le
  have hx1 : val d ≤ 1 := le_trans hx9 (by norm_num)
  have hq1 : val d ^ k ≤ 1 := pow_le_one₀ hx.le hx1
  have hnpos : 0 < val num := val_pos_of_sig num i1
  have hnum0 : num.exp.toInt ≤ 0 := exp_le_zero_of_val num i1 (le_trans i3 hq1)
  have hnum0' : num'.exp.toInt ≤ 0 := exp_le_zero_of_val num' i1' (by rw [← hN]; exact le_trans i3 hq1)
  have hke : -14292 ≤ (k : Int) * d.exp.toInt := by
    have : (9 - (k : Int)) * d.exp.toInt ≤ 0 := mul_nonpos_of_nonneg_of_nonpos (by omega) he1
    nlinarith
  have hke' : -14292 ≤ (k : Int) * d'.exp.toInt := by
    have : (9 - (k : Int)) * d'.exp.toInt ≤ 0 := mul_nonpos_of_nonneg_of_nonpos (by omega) he1'
    nlinarith
  obtain ⟨n1, t1, n1', t1', hm, hm', hdi⟩ := mul_congr_prod num num' d d' t t' (by rw [hN, hv])
    ⟨by omega, by omega⟩ ⟨by omega, by omega⟩ ⟨by omega, by omega⟩ ⟨by omega, by omega⟩
  obtain ⟨r, tt, hmr, m1, m2, -, m4, -, -⟩ := mul_rel num d t (by omega) (by omega)
  rw [hm] at hmr
  obtain ⟨rfl, -⟩ := Prod.mk.inj (ok_inj2 hmr)
  obtain ⟨r', tt', hmr', m1', m2', -, m4', -, -⟩ := mul_rel num' d' t' (by omega) (by omega)
  rw [hm'] at hmr'
  obtain ⟨rfl, -⟩ := Prod.mk.inj (ok_inj2 hmr')
  have hl := lam_pos
  have hls := lam_small
  have hpos : 0 < val n1 := by
    refine lt_of_lt_of_le (mul_pos (mul_pos hnpos hx) ?_) m1
    linarith [show (1 : ℚ) / 10 ^ 56 < 1 by norm_num]
  have hpos' : 0 < val n1' := by
    refine lt_of_lt_of_le (mul_pos (mul_pos (by rw [← hN]; exact hnpos) (by rw [← hv]; exact hx)) ?_) m1'
    linarith [show (1 : ℚ) / 10 ^ 56 < 1 by norm_num]
  have hs := sig_ne_of_val_pos n1 hpos
  have hs' := sig_ne_of_val_pos n1' hpos'
  have hle1 : val n1 ≤ val d ^ k * val d := le_trans m2 (mul_le_mul_of_nonneg_right i3 hx.le)
  have hle1' : val n1' ≤ val d ^ k * val d := by
    refine le_trans m2' ?_
    rw [← hN, ← hv]; exact mul_le_mul_of_nonneg_right i3 hx.le
  have hone : val d ^ k * val d ≤ 1 := by
    calc val d ^ k * val d ≤ 1 * 1 := mul_le_mul hq1 hx1 hx.le (by norm_num)
      _ = 1 := by norm_num
  have hvv : val n1 = val n1' := by
    rcases hdi with ⟨a, -, -⟩ | ⟨a, b, -, -⟩
    · rw [a]
    · rw [a, b]
  have hFF : FlagRel t1 t1' := by
    rcases hdi with ⟨-, b, c⟩ | ⟨-, -, b, c⟩
    · exact Or.inl (by rw [b, c])
    · rw [b, c]; exact hF
  exact ⟨n1, n1', t1, t1', hm, hm', hvv, hFF, hs, hs', hle1,
    ⟨by omega, exp_le_zero_of_val n1 hs (le_trans hle1 hone)⟩,
    ⟨by omega, exp_le_zero_of_val n1' hs' (le_trans hle1' hone)⟩⟩


theorem smallDiv_ne (i : UInt64) (hi : i.toNat ≠ 0) : (smallDiv i).sig.toNat ≠ 0 := by
  rw [smallDiv_sig]; exact hi

/-- one run of `quo` by a small integer -/
theorem quo_small_run (n : decomposed192) (i : UInt64) (t : Int8) (hn : n.sig.toNat ≠ 0) (hi : i.toNat ≠ 0)
    (hw : -16000 ≤ n.exp.toInt ∧ n.exp.toInt ≤ 16000) :
    ∃ r s, decomposed192.quo n (smallDiv i) t = .ok (r, s) ∧ r.sig.toNat ≠ 0 ∧
      n.exp.toInt - 116 ≤ r.exp.toInt ∧ r.exp.toInt ≤ n.exp.toInt ∧
      (LIM : ℚ) * (10 : ℚ) ^ r.exp.toInt ≤ val n := by
  have he : (smallDiv i).exp.toInt = 0 := smallDiv_exp i
  obtain ⟨r, s, a, b, c, hr, H, hexp, ha, hb, hc⟩ :=
    quo_run n (smallDiv i) t hn (smallDiv_ne i hi) hw (by rw [he]; norm_num)
  rw [he] at hexp
  refine ⟨r, s, hr, by have := H.pos; omega, by omega, by omega, ?_⟩
  rw [val_shift n a]
  have h1 : ((LIM : Nat) : ℚ) ≤ ((n.sig.toNat * 10 ^ a : Nat) : ℚ) := by exact_mod_cast H.dn_ge
  have h2 : (10 : ℚ) ^ r.exp.toInt ≤ (10 : ℚ) ^ (n.exp.toInt - a) := zpow_le_zpow_right₀ (by norm_num) (by omega)
  have hp : (0 : ℚ) < (10 : ℚ) ^ r.exp.toInt := zpow_pos (by norm_num) _
  have hL : (0 : ℚ) ≤ ((LIM : Nat) : ℚ) := by positivity
  calc ((LIM : Nat) : ℚ) * (10 : ℚ) ^ r.exp.toInt ≤ ((LIM : Nat) : ℚ) * (10 : ℚ) ^ (n.exp.toInt - a) :=
        mul_le_mul_of_nonneg_left h2 hL
    _ ≤ ((n.sig.toNat * 10 ^ a : Nat) : ℚ) * (10 : ℚ) ^ (n.exp.toInt - a) :=
        mul_le_mul_of_nonneg_right h1 (zpow_pos (by norm_num) _).le


/-- `quo` by the same small integer on two numerators of one value: quotients of one value, identical or both below
`10·LIM` -/
theorem quo_small_pair (n n' : decomposed192) (i : UInt64) (t : Int8) (hv : val n = val n') (hn : n.sig.toNat ≠ 0)
    (hn' : n'.sig.toNat ≠ 0) (hi : 2 ≤ i.toNat ∧ i.toNat ≤ 10)
    (hw : -16000 ≤ n.exp.toInt ∧ n.exp.toInt ≤ 16000) (hw' : -16000 ≤ n'.exp.toInt ∧ n'.exp.toInt ≤ 16000) :
    ∃ r r' s s', decomposed192.quo n (smallDiv i) t = .ok (r, s) ∧ decomposed192.quo n' (smallDiv i) t = .ok (r', s') ∧
      val r = val r' ∧ (r = r' ∨ (r.sig.toNat < 10 * LIM ∧ r'.sig.toNat < 10 * LIM)) ∧
      r.sig.toNat ≠ 0 ∧ r'.sig.toNat ≠ 0 ∧
      (n.exp.toInt - 116 ≤ r.exp.toInt ∧ r.exp.toInt ≤ n.exp.toInt) ∧
      (n'.exp.toInt - 116 ≤ r'.exp.toInt ∧ r'.exp.toInt ≤ n'.exp.toInt) ∧
      (LIM : ℚ) * (10 : ℚ) ^ r.exp.toInt ≤ val n ∧ (LIM : ℚ) * (10 : ℚ) ^ r'.exp.toInt ≤ val n := by
  obtain ⟨r, s, hr, a1, a2, a3, a4⟩ := quo_small_run n i t hn (by omega) hw
  obtain ⟨r', s', hr', b1, b2, b3, b4⟩ := quo_small_run n' i t hn' (by omega) hw'
  rw [← hv] at b4
  refine ⟨r, r', s, s', hr, hr', ?_, ?_, a1, b1, ⟨a2, a3⟩, ⟨b2, b3⟩, a4, b4⟩
  · by_cases hu : n.sig.toNat < 10 * LIM <;> by_cases hu' : n'.sig.toNat < 10 * LIM
    · have := quo_congr_left n n' (smallDiv i) t hv ⟨fun _ => hu', fun _ => hu⟩ (by omega) (by omega)
      rw [hr, hr'] at this
      rw [(Prod.mk.inj (ok_inj2 this)).1]
    · obtain ⟨x, x', z, hx, hx', hval, -⟩ := quo_congr_mixed n n' i t hv hn hu (by omega) hi hw hw'
      rw [hr] at hx; rw [hr'] at hx'
      rw [(Prod.mk.inj (ok_inj2 hx)).1, (Prod.mk.inj (ok_inj2 hx')).1]; exact hval
    · obtain ⟨x, x', z, hx, hx', hval, -⟩ := quo_congr_mixed n' n i t hv.symm hn' hu' (by omega) hi hw' hw
      rw [hr'] at hx; rw [hr] at hx'
      rw [(Prod.mk.inj (ok_inj2 hx)).1, (Prod.mk.inj (ok_inj2 hx')).1]; exact hval.symm
    · have := quo_congr_left n n' (smallDiv i) t hv ⟨fun h => absurd h hu, fun h => absurd h hu'⟩ (by omega) (by omega)
      rw [hr, hr'] at this
      rw [(Prod.mk.inj (ok_inj2 this)).1]
  · by_cases hu : n.sig.toNat < 10 * LIM <;> by_cases hu' : n'.sig.toNat < 10 * LIM
    · have := quo_congr_left n n' (smallDiv i) t hv ⟨fun _ => hu', fun _ => hu⟩ (by omega) (by omega)
      rw [hr, hr'] at this
      exact Or.inl (Prod.mk.inj (ok_inj2 this)).1
    · obtain ⟨x, x', z, hx, hx', -, -, c1, c2, -⟩ := quo_congr_mixed n n' i t hv hn hu (by omega) hi hw hw'
      rw [hr] at hx; rw [hr'] at hx'
      rw [(Prod.mk.inj (ok_inj2 hx)).1, (Prod.mk.inj (ok_inj2 hx')).1]; exact Or.inr ⟨c1, c2⟩
    · obtain ⟨x, x', z, hx, hx', -, -, c1, c2, -⟩ := quo_congr_mixed n' n i t hv.symm hn' hu' (by omega) hi hw' hw
      rw [hr'] at hx; rw [hr] at hx'
      rw [(Prod.mk.inj (ok_inj2 hx)).1, (Prod.mk.inj (ok_inj2 hx')).1]; exact Or.inr ⟨c2, c1⟩
    · have := quo_congr_left n n' (smallDiv i) t hv ⟨fun h => absurd h hu, fun h => absurd h hu'⟩ (by omega) (by omega)
      rw [hr, hr'] at this
      exact Or.inl (Prod.mk.inj (ok_inj2 this)).1


/-- **one pass of the series loop in two runs on arguments of one value** -/
theorem pair_step (d d' : decomposed192) (neg : Bool) (k : Nat) (num res num' res' : decomposed192) (t t' : Int8)
    (i : UInt64) (hpre : Pre d) (hpre' : Pre d') (hv : val d = val d')
    (hlo : -1588 ≤ d.exp.toInt) (hlo' : -1588 ≤ d'.exp.toInt)
    (hk1 : 1 ≤ k) (hk9 : k ≤ 9) (hi : i.toNat = k + 1)
    (hinv : Inv d neg k num res t) (hinv' : Inv d' neg k num' res' t')
    (hN : val num = val num')
    (hR : res = res' ∨ (val res = val res' ∧ res.sig.toNat < 10 * LIM ∧ res'.sig.toNat < 10 * LIM))
    (hF : FlagRel t t') :
    ∃ n1 n1' r1 t2 t2', body d neg () (num, res, t, i) = .ok (.yield (n1, r1, t2, i + 1)) ∧
      body d' neg () (num', res', t', i) = .ok (.yield (n1', r1, t2', i + 1)) ∧
      Inv d neg (k + 1) n1 r1 t2 ∧ Inv d' neg (k + 1) n1' r1 t2' ∧ val n1 = val n1' ∧ FlagRel t2 t2' ∧
      (8 ≤ k + 1 → t2 = t2') := by
  obtain ⟨nA, rA, tA, hbA, hIA⟩ := step_ok d neg k num res t i hpre hk1 hk9 hi hinv
  obtain ⟨nB, rB, tB, hbB, hIB⟩ := step_ok d' neg k num' res' t' i hpre' hk1 hk9 hi hinv'
  obtain ⟨i1, i2, i3, i4, i5, i6, i7⟩ := hinv
  obtain ⟨j1, j2, j3, j4, j5, j6, j7⟩ := hinv'
  have hx := hpre.pos
  have hx9 := hpre.2.1
  have hi10 : i ≤ 10 := by
    rw [UInt64.le_iff_toNat_le, hi]; show k + 1 ≤ 10; omega
  have hi2 : 2 ≤ i.toNat ∧ i.toNat ≤ 10 := by omega
  -- num
  obtain ⟨n1, n1', t1, t1', hm, hm', hnv, hF1, hs, hs', hle1, hw, hw'⟩ :=
    mul_pair d d' k num num' t t' hpre hpre' hv hlo hlo' hk1 hk9 hN i1 i3 i4 j1 j4 hF
  -- tmp
  obtain ⟨tmp, tmp', s, s', hq, hq', q1, q2, q3, q4, q5, q6, q7, q8⟩ :=
    quo_small_pair n1 n1' i 0 hnv hs hs' hi2 ⟨by omega, by omega⟩ ⟨by omega, by omega⟩
  obtain ⟨r0, s0, hq0, -, c2, -⟩ := quo_int n1 i 0 hs (by omega) (by omega) (by omega)
  have hq0' : decomposed192.quo n1 (smallDiv i) 0 = .ok (r0, s0) := hq0
  rw [hq] at hq0'
  obtain ⟨rfl, -⟩ := Prod.mk.inj (ok_inj2 hq0')
  have hiq : (1 : ℚ) ≤ (i.toNat : ℚ) := by exact_mod_cast (by omega : 1 ≤ i.toNat)
  have hn1pos : 0 < val n1 := val_pos_of_sig n1 hs
  have hTV : val tmp ≤ val n1 := le_trans c2 (div_le_self hn1pos.le hiq)
  -- magnitudes
  obtain ⟨-, -, -, b4, b5⟩ := res_bounds d neg k res hpre hk1 (by omega) i5
  obtain ⟨-, -, -, b4', b5'⟩ := res_bounds d' neg k res' hpre' hk1 (by omega) j5
  have hV9 : val n1 ≤ val d / 10 ^ 9 := by
    have := pow_succ_le_small (val d) hx.le hx9 k hk1
    rw [pow_succ] at this
    have h3 : val d / 10 ^ 9 = val d * (1 / 10 ^ 9) := by ring
    rw [h3]; exact le_trans hle1 this
  have hres_lo : d.exp.toInt - 58 ≤ res.exp.toInt := exp_ge_of_val res d hpre.1 (by linarith)
  have hres_lo' : d'.exp.toInt - 58 ≤ res'.exp.toInt :=
    exp_ge_of_val res' d' hpre'.1 (by have := hpre'.pos; linarith)
  have he1 := hpre.exp_le
  have he1' := hpre'.exp_le
  have H : ResHyp (val d) (val n1) res res' tmp tmp' :=
    { hx := hx, hb := b4, hR := hR, hT := q2, hTv := q1, hT0 := q3, hT0' := q4, hL := q7, hL' := q8, hV := hV9,
      hTV := hTV, w1 := ⟨by omega, by omega⟩, w1' := ⟨by omega, by omega⟩, w2 := ⟨by omega, by omega⟩,
      w2' := ⟨by omega, by omega⟩ }
  have hfar : 8 ≤ k + 1 → val n1 ≤ val d / 10 ^ 63 := by
    intro h8
    have hk7 : 7 ≤ k := by omega
    have hx1 : val d ≤ 1 := le_trans hx9 (by norm_num)
    have h7 : val d ^ k ≤ val d ^ 7 := pow_le_pow_of_le_one hx.le hx1 hk7
    have h63 : val d ^ 7 ≤ (1 / 10 ^ 9) ^ 7 := pow_le_pow_left₀ hx.le hx9 7
    have : val d ^ k * val d ≤ (1 / 10 ^ 9) ^ 7 * val d := mul_le_mul_of_nonneg_right (le_trans h7 h63) hx.le
    have h3 : val d / 10 ^ 63 = (1 / 10 ^ 9) ^ 7 * val d := by ring
    rw [h3]; exact le_trans hle1 this
  -- the two kinds of pass
  have fin : ∀ (r1 : decomposed192) (t2 t2' : Int8),
      body d neg () (num, res, t, i) = .ok (.yield (n1, r1, t2, i + 1)) →
      body d' neg () (num', res', t', i) = .ok (.yield (n1', r1, t2', i + 1)) →
      FlagRel t2 t2' → (val n1 ≤ val d / 10 ^ 63 → t2 = t2') →
      ∃ n1 n1' r1 t2 t2', body d neg () (num, res, t, i) = .ok (.yield (n1, r1, t2, i + 1)) ∧
        body d' neg () (num', res', t', i) = .ok (.yield (n1', r1, t2', i + 1)) ∧
        Inv d neg (k + 1) n1 r1 t2 ∧ Inv d' neg (k + 1) n1' r1 t2' ∧ val n1 = val n1' ∧ FlagRel t2 t2' ∧
        (8 ≤ k + 1 → t2 = t2') := by
    intro r1 t2 t2' hb hb' hFF hfl
    have eA := hbA.symm.trans hb
    have eB := hbB.symm.trans hb'
    injection eA with eA; injection eA with eA
    injection eB with eB; injection eB with eB
    obtain ⟨a1, a2⟩ := Prod.mk.inj eA
    obtain ⟨a2, a3⟩ := Prod.mk.inj a2
    obtain ⟨a3, -⟩ := Prod.mk.inj a3
    obtain ⟨c1, c2⟩ := Prod.mk.inj eB
    obtain ⟨c2, c3⟩ := Prod.mk.inj c2
    obtain ⟨c3, -⟩ := Prod.mk.inj c3
    subst a1 a2 a3 c1 c2 c3
    exact ⟨_, _, _, _, _, hb, hb', hIA, hIB, hnv, hFF, fun h8 => hfl (hfar h8)⟩
  by_cases hadd : (i % 2 == 0) = true → neg = true
  · obtain ⟨r1, t2, t2', e1, e2, hFF, hfl⟩ := add_pair H t1 t1' hF1
    exact fin r1 t2 t2' (body_add d neg num res t i n1 tmp r1 t1 s t2 hi10 hm hq hadd e1)
      (body_add d' neg num' res' t' i n1' tmp' r1 t1' s' t2' hi10 hm' hq' hadd e2) hFF hfl
  · have hev : (i % 2 == 0) = true := by
      by_contra hc; exact hadd (fun h => absurd h hc)
    have hneg : neg = false := by
      cases neg
      · rfl
      · exact absurd (fun _ => rfl) hadd
    subst hneg
    obtain ⟨ng, r1, t2, t2', e1, e2, hFF, hfl⟩ := sub_pair H t1 t1' hF1
    exact fin r1 t2 t2' (body_sub d num res t i n1 tmp r1 t1 s t2 ng hi10 hm hq hev e1)
      (body_sub d' num' res' t' i n1' tmp' r1 t1' s' t2' ng hi10 hm' hq' hev e2) hFF hfl


/-- the remaining passes of the loop, in lock-step -/
theorem pair_loop (d d' : decomposed192) (neg : Bool) (hpre : Pre d) (hpre' : Pre d') (hv : val d = val d')
    (hlo : -1588 ≤ d.exp.toInt) (hlo' : -1588 ≤ d'.exp.toInt) (n : Nat) :
    ∀ (k : Nat) (num res num' res' : decomposed192) (t t' : Int8) (i : UInt64), k + n = 10 → 1 ≤ k →
      i.toNat = k + 1 → Inv d neg k num res t → Inv d' neg k num' res' t' → val num = val num' →
      (res = res' ∨ (val res = val res' ∧ res.sig.toNat < 10 * LIM ∧ res'.sig.toNat < 10 * LIM)) →
      FlagRel t t' → (2 ≤ k → res = res') → (8 ≤ k → t = t') →
      ∃ nF nF' rF tF iF, forIn (m := Go.GoM) Lean.Loop.mk ((num, res, t, i) : St) (body d neg) = .ok (nF, rF, tF, iF) ∧
        forIn (m := Go.GoM) Lean.Loop.mk ((num', res', t', i) : St) (body d' neg) = .ok (nF', rF, tF, iF) := by
  induction n with
  | zero =>
    intro k num res num' res' t t' i hk hk1 hi hinv hinv' hN hR hF h2 h8
    have hk10 : k = 10 := by omega
    subst hk10
    have hni : ¬ i ≤ 10 := by
      rw [UInt64.le_iff_toNat_le, hi]; show ¬ (10 + 1 ≤ 10); omega
    have e1 := h2 (by norm_num)
    have e2 := h8 (by norm_num)
    subst e1 e2
    refine ⟨num, num', res, t, i, ?_, ?_⟩
    · rw [Go.loop_unfold, body_done d neg num res t i hni]; rfl
    · rw [Go.loop_unfold, body_done d' neg num' res t i hni]; rfl
  | succ n ih =>
    intro k num res num' res' t t' i hk hk1 hi hinv hinv' hN hR hF h2 h8
    obtain ⟨n1, n1', r1, t2, t2', hb, hb', hI, hI', hnv, hFF, hfl⟩ :=
      pair_step d d' neg k num res num' res' t t' i hpre hpre' hv hlo hlo' hk1 (by omega) hi hinv hinv' hN hR hF
    have hi' : (i + 1).toNat = k + 1 + 1 := by
      rw [UInt64.toNat_add, hi]; show (k + 1 + 1) % 2 ^ 64 = _; omega
    obtain ⟨nF, nF', rF, tF, iF, hl, hl'⟩ := ih (k + 1) n1 r1 n1' r1 t2 t2' (i + 1) (by omega) (by omega) hi' hI hI'
      hnv (Or.inl rfl) hFF (fun _ => rfl) hfl
    refine ⟨nF, nF', rF, tF, iF, ?_, ?_⟩
    · rw [Go.loop_unfold, hb]; exact hl
    · rw [Go.loop_unfold, hb']; exact hl'

/-- **the series `decomposed192.log1p` is a function of the value of its argument** (arguments below `10·LIM`, exponents
`≥ -1588`, value `≤ 10^-9`) -/
theorem log1p_congr (d d' : decomposed192) (neg : Bool) (hpre : Pre d) (hpre' : Pre d') (hv : val d = val d')
    (hlo : -1588 ≤ d.exp.toInt) (hlo' : -1588 ≤ d'.exp.toInt)
    (hu : d.sig.toNat < 10 * LIM) (hu' : d'.sig.toNat < 10 * LIM) :
    Gen.decomposed192.log1p d neg = Gen.decomposed192.log1p d' neg := by
  have h2 : (2 : UInt64).toNat = 1 + 1 := rfl
  obtain ⟨nF, nF', rF, tF, iF, hl, hl'⟩ := pair_loop d d' neg hpre hpre' hv hlo hlo' 9 1 d d d' d' 0 0 2 (by norm_num)
    (by norm_num) h2 (inv_init d neg hpre) (inv_init d' neg hpre') hv (Or.inr ⟨hv, hu, hu'⟩) (Or.inl rfl)
    (fun h => absurd h (by norm_num)) (fun h => absurd h (by norm_num))
  rw [log1p_eq, log1p_eq, hl, hl']
  rfl

end CohortElem

namespace CohortElem
open Gen D192 LogAcc

/-- the hypotheses of `log1p_congr` are satisfiable: `3e-12` and `3000e-15`, both signs -/
example (neg : Bool) := log1p_congr ⟨⟨3, 0, 0⟩, -12⟩ ⟨⟨3000, 0, 0⟩, -15⟩ neg
  ⟨by decide, by
    unfold D192.val; rw [show (U192.mk 3 0 0).toNat = 3 from by decide,
      show (-12 : Int16).toInt = -12 from by decide, zpow_neg]; norm_num, by decide⟩
  ⟨by decide, by
    unfold D192.val; rw [show (U192.mk 3000 0 0).toNat = 3000 from by decide,
      show (-15 : Int16).toInt = -15 from by decide, zpow_neg]; norm_num, by decide⟩
  (by unfold D192.val; rw [show (U192.mk 3 0 0).toNat = 3 from by decide,
      show (U192.mk 3000 0 0).toNat = 3000 from by decide,
      show (-12 : Int16).toInt = -12 from by decide, show (-15 : Int16).toInt = -15 from by decide,
      zpow_neg, zpow_neg]; norm_num)
  (by decide) (by decide) (by unfold LIM; decide) (by unfold LIM; decide)

/-- register and flag after the SECOND term of the series (negative argument: `res + x²/2`), by evaluation -/
def term2 (d : decomposed192) : Option (Nat × Int × Int) :=
  match (do
    let n ← decomposed192.mul d d 0
    let q ← decomposed192.quo n.1 (smallDiv 2) 0
    decomposed192.add d q.1 n.2 : Go.GoM (decomposed192 × Int8)) with
  | .ok (r, t) => some (r.sig.toNat, r.exp.toInt, t.toInt)
  | .error _ => none

/-- `U192` from a natural number -/
def u192' (n : Nat) : U192 := ⟨UInt64.ofNat n, UInt64.ofNat (n / 2 ^ 64), UInt64.ofNat (n / 2 ^ 128)⟩

-- OBSERVATION: same register, DIFFERENT flags after term 2 for `x = 25e-57` and its cohort member `25·10^30e-87`
#guard term2 ⟨u192' 25, -57⟩ = some (25 * 10 ^ 56 + 31, -113, 1)
#guard term2 ⟨u192' (25 * 10 ^ 30), -87⟩ = some (25 * 10 ^ 56 + 31, -113, -1)

end CohortElem
