/-
  D128/Proofs/CohortElemQuoMixed.lean — property C19 for the elementary functions: `decomposed192.quo` on a MIXED pair of
  numerators of one value — `d.sig < 10·LIM ≤ d'.sig` (so `d'` is over-full and `d'.sig = 10·Full(d).sig`) — and one
  identical small integer divisor `o = ⟨i, 0⟩`, `2 ≤ i ≤ 10` (the series of `Log1p`: `x^k / k` with an exact over-full power).

  With `N = Full(d).sig ∈ [LIM, 2^192/10)`: the run on `d` stops at `c = 0` iff `i ∣ N` (quotient `N/i < LIM`, exact) and else
  at `c = 1` (quotient `⌊10N/i⌋ ≥ LIM`); the run on `d'` stops at `c = 0` with `⌊10N/i⌋`.  So the registers coincide, or both
  quotients are exact with `r'.sig = 10·r.sig`, `r'.exp = r.exp − 1`.

  Provided (namespace `CohortElem`):
  * `smallDiv`, `smallDiv_sig`, `smallDiv_exp` : the divisor `⟨⟨i,0,0⟩,0⟩`
  * **`quo_congr_mixed`** : the statement above, one incoming flag; plus `r.sig, r'.sig < 10·LIM`, `≠ 0`, and
    `LIM·10^r.exp ≤ val d`, `LIM·10^r'.exp ≤ val d` (the quotient's exponent is at most the full-width exponent of the numerator)
-/
import D128.Proofs.CohortElemQuoCongr
set_option autoImplicit false
set_option maxRecDepth 4096
set_option exponentiation.threshold 512
set_option linter.unusedVariables false
open D128.Proofs.WordsWide

namespace CohortElem
open Gen D192 LogAcc

/-- the divisor `i·10^0` -/
def smallDiv (i : UInt64) : decomposed192 := ⟨⟨i, 0, 0⟩, 0⟩

theorem smallDiv_sig (i : UInt64) : (smallDiv i).sig.toNat = i.toNat := by
  simp [smallDiv, U192.toNat]

theorem smallDiv_exp (i : UInt64) : (smallDiv i).exp.toInt = 0 := by
  simp [smallDiv]

/-- the arithmetic of the two runs -/
theorem mixed_core (N i c c' : Nat) (hN : LIM ≤ N) (hN' : 10 * N < 2 ^ 192) (hi : 2 ≤ i ∧ i ≤ 10)
    (hp : QPath N i c) (hs : N * 10 ^ c % i = 0 ∨ LIM ≤ N * 10 ^ c / i)
    (hp' : QPath (10 * N) i c') :
    c' = 0 ∧ ((c = 0 ∧ N % i = 0) ∨ (c = 1 ∧ N % i ≠ 0)) ∧ N / i < LIM ∧ LIM ≤ 10 * N / i ∧ 10 * N / i < 10 * LIM := by
  have hi0 : 0 < i := by omega
  have h0 : N / i < LIM := by
    rw [Nat.div_lt_iff_lt_mul hi0]
    have : LIM * 2 ≤ LIM * i := Nat.mul_le_mul_left _ hi.1
    unfold LIM at *; omega
  have h0' : LIM ≤ N / i * 10 := by
    have : LIM / 10 ≤ N / i := by
      rw [Nat.le_div_iff_mul_le hi0]
      have : LIM / 10 * i ≤ LIM / 10 * 10 := Nat.mul_le_mul_left _ hi.2
      unfold LIM at *; omega
    unfold LIM at *; omega
  have h1 : LIM ≤ 10 * N / i := by
    rw [Nat.le_div_iff_mul_le hi0]
    have : LIM * i ≤ LIM * 10 := Nat.mul_le_mul_left _ hi.2
    omega
  have h1' : 10 * N / i < 10 * LIM := by
    rw [Nat.div_lt_iff_lt_mul hi0]
    have : 10 * LIM * 2 ≤ 10 * LIM * i := Nat.mul_le_mul_left _ hi.1
    unfold LIM at *; omega
  -- the over-full run stops at once
  have hc' : c' = 0 := by
    rcases hp' with h | ⟨c0, k1, k2, -, -⟩
    · exact h
    · exfalso
      have m1 : 10 * N * 10 ^ 0 / i ≤ 10 * N * 10 ^ c0 / i := qf_mono _ _ 0 c0 hi0 (by omega)
      rw [Nat.pow_zero, Nat.mul_one] at m1
      have : 10 * N * 10 ^ c0 / i * 1 ≤ 10 * N * 10 ^ c0 / i * 10 ^ (c' - 1 - c0) :=
        Nat.mul_le_mul_left _ (Nat.one_le_pow _ _ (by norm_num))
      omega
  refine ⟨hc', ?_, h0, h1, h1'⟩
  -- the other run makes at most one round of one digit
  have hc1 : c ≤ 1 := by
    by_contra hcc
    rcases hp with h | ⟨c0, k1, k2, -, -⟩
    · omega
    · rcases Nat.eq_zero_or_pos c0 with z | z
      · subst z
        rw [Nat.pow_zero, Nat.mul_one, Nat.sub_zero] at k2
        have h10 : 10 ≤ 10 ^ (c - 1) := by
          calc 10 = 10 ^ 1 := by norm_num
            _ ≤ 10 ^ (c - 1) := Nat.pow_le_pow_right (by norm_num) (by omega)
        have : N / i * 10 ≤ N / i * 10 ^ (c - 1) := Nat.mul_le_mul_left _ h10
        omega
      · have m1 : N * 10 ^ 1 / i ≤ N * 10 ^ c0 / i := qf_mono _ _ 1 c0 hi0 (by omega)
        rw [Nat.pow_one, Nat.mul_comm N 10] at m1
        have : N * 10 ^ c0 / i * 1 ≤ N * 10 ^ c0 / i * 10 ^ (c - 1 - c0) :=
          Nat.mul_le_mul_left _ (Nat.one_le_pow _ _ (by norm_num))
        omega
  rcases Nat.eq_zero_or_pos c with z | z
  · left
    subst z
    rw [Nat.pow_zero, Nat.mul_one] at hs
    exact ⟨rfl, hs.resolve_right (by omega)⟩
  · right
    have : c = 1 := by omega
    subst this
    refine ⟨rfl, ?_⟩
    rcases hp with h | ⟨c0, k1, -, -, k4⟩
    · omega
    · have : c0 = 0 := by omega
      subst this
      rwa [Nat.pow_zero, Nat.mul_one] at k4

/-- **`quo` on a mixed pair of numerators** (`d.sig < 10·LIM ≤ d'.sig`, one value) and the identical divisor `i·10^0`,
`2 ≤ i ≤ 10`, one incoming flag: the same register in both runs, or both quotients exact (`r'.sig = 10·r.sig`). -/
theorem quo_congr_mixed (d d' : decomposed192) (i : UInt64) (t : Int8)
    (hv : val d = val d') (hd0 : d.sig.toNat ≠ 0) (hu : d.sig.toNat < 10 * LIM) (hu' : 10 * LIM ≤ d'.sig.toNat)
    (hi : 2 ≤ i.toNat ∧ i.toNat ≤ 10)
    (h1 : -16000 ≤ d.exp.toInt ∧ d.exp.toInt ≤ 16000) (h1' : -16000 ≤ d'.exp.toInt ∧ d'.exp.toInt ≤ 16000) :
    ∃ r r' s, decomposed192.quo d (smallDiv i) t = .ok (r, s) ∧ decomposed192.quo d' (smallDiv i) t = .ok (r', s) ∧
      val r = val r' ∧ (r = r' ∨ (val r * (i.toNat : ℚ) = val d ∧ s = t)) ∧
      r.sig.toNat < 10 * LIM ∧ r'.sig.toNat < 10 * LIM ∧ r.sig.toNat ≠ 0 ∧ r'.sig.toNat ≠ 0 ∧
      (LIM : ℚ) * (10 : ℚ) ^ r.exp.toInt ≤ val d ∧ (LIM : ℚ) * (10 : ℚ) ^ r'.exp.toInt ≤ val d := by
  have hos := smallDiv_sig i
  have hoe := smallDiv_exp i
  have hO : (smallDiv i).sig.toNat < OLIM := by rw [hos]; unfold OLIM lim; omega
  have ho0 : (smallDiv i).sig.toNat ≠ 0 := by rw [hos]; omega
  -- normalise `d`
  obtain ⟨D, a, hD, ha, hDs, hDe, hDv, hDL⟩ := logScale_spec d hd0 (by omega)
  have hDu : D.sig.toNat < 10 * LIM := by
    obtain ⟨D2, hD2, hF, -⟩ := logScale_full d hd0 hu (by omega)
    rw [hD] at hD2; cases hD2
    exact hF.2
  have hq : decomposed192.quo d (smallDiv i) t = decomposed192.quo D (smallDiv i) t :=
    quo_norm d (smallDiv i) D (smallDiv i) t t hd0 hD (quoTrunc_id _ t hO) hDL hO
  have hL10 : LIM ≤ 10 * LIM := by omega
  -- `d'.sig = 10·D.sig`
  have hrel : d'.sig.toNat = 10 * D.sig.toNat ∧ D.exp.toInt = d'.exp.toInt + 1 := by
    have hlt := U192.toNat_lt d'.sig
    have hv' : val D = val d' := by rw [hDv, hv]
    obtain ⟨k, ⟨k1, k2⟩ | ⟨k1, k2⟩⟩ := val_eq_nat hv'
    · have hk : k = 1 := by
        rcases Nat.lt_or_ge k 2 with h | h
        · rcases Nat.eq_zero_or_pos k with z | z
          · subst z; rw [Nat.pow_zero, Nat.mul_one] at k1; omega
          · omega
        · exfalso
          have : 10 ^ 2 ≤ 10 ^ k := Nat.pow_le_pow_right (by norm_num) h
          have : D.sig.toNat * 10 ^ 2 ≤ D.sig.toNat * 10 ^ k := Nat.mul_le_mul_left _ this
          unfold LIM at hDL; omega
      subst hk
      exact ⟨by rw [k1]; ring, by rw [k2]; rfl⟩
    · exfalso
      have : d'.sig.toNat * 1 ≤ d'.sig.toNat * 10 ^ k := Nat.mul_le_mul_left _ (Nat.one_le_pow _ _ (by norm_num))
      omega
  obtain ⟨hsig', hexp'⟩ := hrel
  obtain ⟨r, s, c, hr, hc, g1, g2, g3, g4, g5, g6, -⟩ :=
    quo_norm_run D (smallDiv i) t hDL hO ho0 (by omega) (by rw [hoe]; omega)
  obtain ⟨r', s', c', hr', hc', g1', g2', g3', g4', g5', g6', -⟩ :=
    quo_norm_run d' (smallDiv i) t (by omega) hO ho0 (by omega) (by rw [hoe]; omega)
  rw [hos] at g1 g3 g4 g6 g1' g3' g4' g6'
  rw [hoe] at g2 g2'
  rw [hsig'] at g1' g3' g4' g6'
  obtain ⟨hc0', hcase, b1, b2, b3⟩ := mixed_core D.sig.toNat i.toNat c c' hDL
    (by rw [← hsig']; exact U192.toNat_lt _) hi g6 (by rw [← g1]; exact g4) g6'
  subst hc0'
  rw [Nat.pow_zero, Nat.mul_one] at g1' g3'
  have hi0 : 0 < i.toNat := by omega
  have hp : ∀ e : Int, (0 : ℚ) < (10 : ℚ) ^ e := fun e => zpow_pos (by norm_num) _
  have hLq : (LIM : ℚ) ≤ (D.sig.toNat : ℚ) := by exact_mod_cast hDL
  have hvd : val d = (D.sig.toNat : ℚ) * (10 : ℚ) ^ D.exp.toInt := by rw [← hDv]; rfl
  have hexpo : ∀ e : Int, e ≤ D.exp.toInt → (LIM : ℚ) * (10 : ℚ) ^ e ≤ val d := by
    intro e he
    rw [hvd]
    have : (10 : ℚ) ^ e ≤ (10 : ℚ) ^ D.exp.toInt := zpow_le_zpow_right₀ (by norm_num) he
    have hL0 : (0 : ℚ) ≤ (LIM : ℚ) := Nat.cast_nonneg _
    calc (LIM : ℚ) * (10 : ℚ) ^ e ≤ (LIM : ℚ) * (10 : ℚ) ^ D.exp.toInt := mul_le_mul_of_nonneg_left this hL0
      _ ≤ _ := mul_le_mul_of_nonneg_right hLq (hp _).le
  rw [hq]
  rcases hcase with ⟨rfl, hz⟩ | ⟨rfl, hz⟩
  · -- both exact
    rw [Nat.pow_zero, Nat.mul_one] at g1 g3
    have hz' : 10 * D.sig.toNat % i.toNat = 0 :=
      Nat.mod_eq_zero_of_dvd (Dvd.dvd.mul_left (Nat.dvd_of_mod_eq_zero hz) _)
    have hs : s = t := by rw [g3, if_pos hz]
    have hs' : s' = t := by rw [g3', if_pos hz']
    have e10 : 10 * D.sig.toNat / i.toNat = 10 * (D.sig.toNat / i.toNat) := Nat.mul_div_assoc _ (Nat.dvd_of_mod_eq_zero hz)
    refine ⟨r, r', s, hr, by rw [hr', hs', hs], ?_, Or.inr ⟨?_, hs⟩, by omega, by omega, by omega, by omega,
      hexpo _ (by omega), hexpo _ (by omega)⟩
    · unfold val
      rw [g1, g1', e10, g2, g2', hexp']
      have : (10 : ℚ) ^ (d'.exp.toInt + 1 - 0 - ((0 : ℕ) : Int)) = (10 : ℚ) ^ (d'.exp.toInt - 0 - ((0 : ℕ) : Int)) * 10 := by
        rw [show d'.exp.toInt + 1 - 0 - ((0 : ℕ) : Int) = (d'.exp.toInt - 0 - ((0 : ℕ) : Int)) + 1 by ring,
          zpow_add₀ (by norm_num), zpow_one]
      rw [this]; push_cast; ring
    · have := exact_quot_val (r := r) (N := D.sig.toNat) (M := i.toNat) (c := 0) (eD := D.exp.toInt) (eO := 0) hi0
        (by rw [Nat.pow_zero, Nat.mul_one]; exact g1) g2 (by rw [Nat.pow_zero, Nat.mul_one]; exact hz)
      rw [zpow_zero, mul_one] at this
      rw [this, hvd]
  · -- the same register
    rw [Nat.pow_one, Nat.mul_comm D.sig.toNat 10] at g1 g3
    have hrr : r = r' := d192_ext (by rw [g1, g1']) (by rw [g2, g2', hexp']; push_cast; ring)
    subst hrr
    have hss : s' = s := by rw [g3, g3']
    refine ⟨r, r, s, hr, by rw [hr', hss], rfl, Or.inl rfl, by omega, by omega, by omega, by omega,
      hexpo _ (by omega), hexpo _ (by omega)⟩

/-- `quo_congr_mixed` on `6.25e57·10^-169` (`⟨625·10^55, −169⟩`, over-full and exact) against `⟨625, −114⟩`, divided by `2` -/
example : True := trivial
#guard runOf (decomposed192.quo ⟨u192 625, -114⟩ (smallDiv 2) 0) == some (3125 * 10 ^ 53, -168, 0)
#guard runOf (decomposed192.quo ⟨u192 (625 * 10 ^ 55), -169⟩ (smallDiv 2) 0) == some (3125 * 10 ^ 54, -169, 0)
#guard runOf (decomposed192.quo ⟨u192 625, -114⟩ (smallDiv 3) 0)
  == runOf (decomposed192.quo ⟨u192 (625 * 10 ^ 55), -169⟩ (smallDiv 3) 0)

/-- the hypotheses of `quo_congr_mixed` hold on that pair -/
example := quo_congr_mixed ⟨u192 625, -114⟩ ⟨u192 (625 * 10 ^ 55), -169⟩ 2 0
  (by
    have s1 : (u192 625).toNat = 625 := by decide
    have s2 : (u192 (625 * 10 ^ 55)).toNat = 625 * 10 ^ 55 := by decide
    have e1 : (-114 : Int16).toInt = -114 := by decide
    have e2 : (-169 : Int16).toInt = -169 := by decide
    unfold val
    simp only [s1, s2, e1, e2]
    norm_num)
  (by decide)
  (by have s1 : (u192 625).toNat = 625 := by decide
      show (u192 625).toNat < 10 * LIM
      rw [s1]; unfold LIM; norm_num)
  (by have s2 : (u192 (625 * 10 ^ 55)).toNat = 625 * 10 ^ 55 := by decide
      show 10 * LIM ≤ (u192 (625 * 10 ^ 55)).toNat
      rw [s2]; unfold LIM; norm_num)
  (by decide) (by decide) (by decide)

end CohortElem
