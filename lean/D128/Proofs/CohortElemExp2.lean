/-
  D128/Proofs/CohortElemExp2.lean — property C19 for `Exp2`, general finite path: two encodings of one finite
  non-zero value give BIT-IDENTICAL results, for every `Globals` (every default rounding mode).

  Structure of the argument (Go: /repo/exp.go `Exp2`):
  * the magnitude guard `int(dExp) > 5 - l10` reads `⌊log10 |x|⌋ = l10 + dExp` only (`cohort_log`);
  * the integer/fraction split hands over `n = ⌊|x|⌋` (identical) and a fraction of identical VALUE
    (`exp2Split_congr`);
  * `2^n` (`exp2Pow`) reads `n` and the sign bit;
  * the tail (`exp2Tail`) reads the fraction only through `fracPow ln2 f fe` (`mul`, `log10`, `epow`), which depends on
    its value only (`fracPow_congr`), and otherwise `n`, `2^n`, the sign bit and the rounding mode.

  Provided (namespace `CohortElem`):
  * `exp2Pow_sb`, `exp2Tail_frac`, `exp2Tail_congr` : the stages on two encodings
  * **`Exp2_congr`** : `d` finite non-zero, `(𝔳[d]).same 𝔳[d'] = true` ⇒ `Gen.Exp2 g d = Gen.Exp2 g d'`
  * `Exp2_c19`       : the C19 form `∃ r r', Gen.Exp2 g d = .ok r ∧ Gen.Exp2 g d' = .ok r' ∧ (𝔳[r]).same 𝔳[r'] = true`
-/
import D128.Proofs.CohortElemSplit
set_option autoImplicit false
set_option maxRecDepth 4096
set_option exponentiation.threshold 512
set_option linter.unusedVariables false

namespace CohortElem
open Gen D192 ExpAcc D128.Proofs.WordsWide D128.Proofs.Total
local notation "𝔳[" d "]" => Spec.interp (Gen.Decimal.lo d) (Gen.Decimal.hi d)

/-- `2^n` reads the sign bit of the argument only -/
theorem exp2Pow_sb (d d' : Decimal) (hsb : Decimal.Signbit d' = Decimal.Signbit d) (n : UInt64)
    (k : U192 → Int16 → Int8 → Go.GoM Decimal) : exp2Pow d' n k = exp2Pow d n k := by
  unfold exp2Pow
  rw [hsb]

/-- the tail of `Exp2` with the fractional-power stage named -/
theorem exp2Tail_frac (g : Globals) (d : Decimal) (f : U128) (fe : Int16) (n : UInt64) (s : U192)
    (e : Int16) (t0 : Int8) :
    exp2Tail g d f fe n s e t0 =
      (if f.toNat ≠ 0 then
        fracPow ln2 f fe >>= fun z =>
          if (decide (z.1.exp > (6169 : Int16))) then outM (Decimal.Signbit d)
          else
            if (n != (0 : UInt64)) then do
              let w ← decomposed192.mul ({ (default : decomposed192) with sig := s, exp := e } : decomposed192) z.1 z.2
              exp2Fin g (Decimal.Signbit d) w.1 w.2
            else exp2Fin g (Decimal.Signbit d) z.1 z.2
      else
        exp2Fin g (Decimal.Signbit d) ({ (default : decomposed192) with sig := s, exp := e } : decomposed192) t0) := by
  rw [exp2Tail_clean, RK.U128_or_ne_zero]
  by_cases hf : f.toNat ≠ 0
  · rw [if_pos (decide_eq_true hf), if_pos hf]
    simp only [fracPow, bind_assoc]
  · rw [if_neg (by simpa using hf), if_neg hf]

/-- the tail of `Exp2` on two fractions of one value -/
theorem exp2Tail_congr (g : Globals) (d d' : Decimal) (hsb : Decimal.Signbit d' = Decimal.Signbit d)
    (f f' : U128) (fe fe' : Int16) (n : UInt64) (s : U192) (e : Int16) (t0 : Int8)
    (hv : (f.toNat : ℚ) * (10 : ℚ) ^ fe.toInt = (f'.toNat : ℚ) * (10 : ℚ) ^ fe'.toInt)
    (h0 : -6176 ≤ fe.toInt) (h1 : fe.toInt ≤ 0) (h0' : -6176 ≤ fe'.toInt) (h1' : fe'.toInt ≤ 0) :
    exp2Tail g d f fe n s e t0 = exp2Tail g d' f' fe' n s e t0 := by
  rw [exp2Tail_frac, exp2Tail_frac, hsb]
  by_cases hf : f.toNat ≠ 0
  · have hf' : f'.toNat ≠ 0 := fun h => hf ((frac_zero_iff hv).2 h)
    rw [if_pos hf, if_pos hf', fracPow_congr ln2 ln2_gap f f' fe fe' hv hf h0 h1 h0' h1']
  · have hf' : ¬ f'.toNat ≠ 0 := fun h => hf (fun h2 => h ((frac_zero_iff hv).1 h2))
    rw [if_neg hf, if_neg hf']

/-- **`Exp2` does not see the encoding of a finite non-zero argument**: bit-identical results for the two members
of a cohort, for every default rounding mode. -/
theorem Exp2_congr (g : Globals) (d d' : Decimal) (h : (𝔳[d]).same 𝔳[d'] = true)
    (h1 : Decimal.isSpecial d = false) (h2 : Decimal.IsZero d = false) :
    Gen.Exp2 g d = Gen.Exp2 g d' := by
  obtain ⟨h1', hsb, hz, hv⟩ := fin_args d d' h h1
  have h2' : Decimal.IsZero d' = false := by rw [hz]; exact h2
  obtain ⟨hc0, hcC, he0, he1⟩ := fin_facts d h1 h2
  obtain ⟨hc0', hcC', he0', he1'⟩ := fin_facts d' h1' h2'
  rw [Exp2_fin g d h1 h2, Exp2_fin g d' h1' h2', hsb]
  -- the magnitude guard
  have hlog := cohort_log hv (by omega) (by omega)
  have hguard : ((d.decompose.2.toInt - 6176) > 5 - (Nat.log 10 d.decompose.1.toNat : Int))
      ↔ ((d'.decompose.2.toInt - 6176) > 5 - (Nat.log 10 d'.decompose.1.toNat : Int)) := by
    constructor <;> intro hh <;> omega
  by_cases hg : (d.decompose.2.toInt - 6176) > 5 - (Nat.log 10 d.decompose.1.toNat : Int)
  · rw [if_pos hg, if_pos (hguard.1 hg)]
  · rw [if_neg hg, if_neg (fun hh => hg (hguard.2 hh))]
    have hk := Nat.log10_lt_39_of_lt d.decompose.1.toNat d.decompose.1.toNat_lt
    have hk' := Nat.log10_lt_39_of_lt d'.decompose.1.toNat d'.decompose.1.toNat_lt
    have hl : (Int64.ofNat (Nat.log 10 d.decompose.1.toNat)).toInt = Nat.log 10 d.decompose.1.toNat :=
      Int64.toInt_ofNat_small _ (by omega)
    have hl' : (Int64.ofNat (Nat.log 10 d'.decompose.1.toNat)).toInt = Nat.log 10 d'.decompose.1.toNat :=
      Int64.toInt_ofNat_small _ (by omega)
    have hde : (d.decompose.2 - 6176).toInt = d.decompose.2.toInt - 6176 := argOf_exp d h1
    have hde' : (d'.decompose.2 - 6176).toInt = d'.decompose.2.toInt - 6176 := argOf_exp d' h1'
    obtain ⟨f, f', fe, fe', n, hs, hs', hfv, a0, a1, b0, b1⟩ :=
      exp2Split_congr d.decompose.1 d'.decompose.1 (d.decompose.2 - 6176) (d'.decompose.2 - 6176)
        (Int64.ofNat (Nat.log 10 d.decompose.1.toNat)) (Int64.ofNat (Nat.log 10 d'.decompose.1.toNat))
        (fun f fe n => exp2Pow d n (fun s e t => exp2Tail g d f fe n s e t))
        (fun f fe n => exp2Pow d' n (fun s e t => exp2Tail g d' f fe n s e t))
        hc0 hcC (by rw [hde]; omega) (by rw [hde]; omega) hl (by rw [hde, hl]; omega)
        hc0' hcC' (by rw [hde']; omega) (by rw [hde']; omega) hl' (by rw [hde', hl']; omega)
        (by rw [hde, hde']; exact hv)
    rw [hs, hs']
    show exp2Pow d n (fun s e t => exp2Tail g d f fe n s e t)
      = exp2Pow d' n (fun s e t => exp2Tail g d' f' fe' n s e t)
    rw [exp2Pow_sb d d' hsb]
    congr 1
    funext s e t
    exact exp2Tail_congr g d d' hsb f f' fe fe' n s e t hfv a0 a1 b0 b1

/-- the hypotheses are satisfiable: `-123.45` as `12345e-2` and as `1234500000e-7` (split runs), and `0.0625` as
`625e-4` and `62500e-6` (pure fraction: the encodings reach `mul`) -/
example (g : Globals) : Gen.Exp2 g (compose true ⟨12345, 0⟩ 6174) = Gen.Exp2 g (compose true ⟨1234500000, 0⟩ 6169) :=
  Exp2_congr g _ _ (by decide +kernel) (by decide +kernel) (by decide +kernel)
example (g : Globals) : Gen.Exp2 g (compose false ⟨625, 0⟩ 6172) = Gen.Exp2 g (compose false ⟨62500, 0⟩ 6170) :=
  Exp2_congr g _ _ (by decide +kernel) (by decide +kernel) (by decide +kernel)

/-- C19 form: no panic, and the two results denote the same value -/
theorem Exp2_c19 (g : Globals) (d d' : Decimal) (h : (𝔳[d]).same 𝔳[d'] = true)
    (h1 : Decimal.isSpecial d = false) (h2 : Decimal.IsZero d = false) :
    ∃ r r', Gen.Exp2 g d = .ok r ∧ Gen.Exp2 g d' = .ok r' ∧ (𝔳[r]).same 𝔳[r'] = true := by
  obtain ⟨r, hr⟩ := Exp2_total g d
  refine ⟨r, r, hr, by rw [← Exp2_congr g d d' h h1 h2]; exact hr, ?_⟩
  exact Cohort.same_refl _

end CohortElem
