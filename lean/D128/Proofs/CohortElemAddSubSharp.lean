/-
  D128/Proofs/CohortElemAddSubSharp.lean — property C19 for the elementary functions: the SHARP machine-level result
  equation of `decomposed192.sub` (Go: /repo/decomposed.go), all inputs.

  `D192.sub_spec`/`SubPost` (D192Sub.lean, D192SubMath.lean) leave the number `j` of scaling steps undetermined
  (`k = 0 ∨ LIM ≤ sig·10^j`).  The scaling loops are those of `add`; as in CohortElemAddSharp.lean the triples of the
  staged programs `subNegBranch`, `subPosBranch` (D192SubCode.lean, `D192.sub_eq : … := rfl`) are re-proved with the
  no-overshoot invariant, which adds `j = 0 ∨ sig·10^j < 10·LIM`.  (The final step of `sub` is an exact subtraction of
  the aligned significands, `D192.SubFin`; there is no truncation to sharpen.)

  Provided (namespace `CohortElem`):
  * `SubNegPost'`, `SubPosPost'`, `SubPost'`, `subNeg_post'` …, `subPos_post'` …
  * `subNegBranch_triple'`, `subPosBranch_triple'`, `sub_triple'`
  * `sub_sharp` : `∃ neg r t', Gen.decomposed192.sub d o t = .ok (neg, r, t') ∧ SubPost' d o t neg r t'`
-/
import D128.Proofs.D192SubContract
import D128.Proofs.CohortElemAddSharp
set_option autoImplicit false
set_option maxRecDepth 4096
set_option exponentiation.threshold 512
set_option linter.unusedVariables false
open Std.Do D128.Proofs.WordsWide
set_option mvcgen.warning false

namespace CohortElem
open Gen D192

/-- result of the branch `exp < 0` of `sub`, sharp form -/
def SubNegPost' (d o : Gen.decomposed192) (t : Int8) (e : Int16) (neg : Bool) (r : Gen.decomposed192)
    (t' : Int8) : Prop :=
  ∃ j k : Nat, j + k = negNat e ∧ o.sig.toNat * 10 ^ j < 2 ^ 192 ∧
    (k = 0 ∨ LIM ≤ o.sig.toNat * 10 ^ j) ∧ (j = 0 ∨ o.sig.toNat * 10 ^ j < 10 * LIM) ∧
    SubFin (d.sig.toNat / 10 ^ k) (o.sig.toNat * 10 ^ j) (if d.sig.toNat % 10 ^ k = 0 then t else 1)
      (o.exp - Int16.ofNat j) neg r t'

theorem subNeg_post' {d o : Gen.decomposed192} {t : Int8} {e : Int16} {o' : Gen.decomposed192}
    {exp' : Int16} {neg : Bool} {r : Gen.decomposed192} {t' : Int8} (X : Nat) (T : Int8)
    (hsc : ScN o e o' exp') (hbig : 0 ≤ exp'.toInt ∨ scaleLim ≤ o'.sig.toNat)
    (hno : o'.sig.toNat = o.sig.toNat ∨ o'.sig.toNat < 10 * LIM)
    (hX : X = d.sig.toNat / 10 ^ negNat exp')
    (hT : T = if d.sig.toNat % 10 ^ negNat exp' = 0 then t else 1)
    (h : SubFin X o'.sig.toNat T o'.exp neg r t') : SubNegPost' d o t e neg r t' := by
  obtain ⟨h0, j, hj, hexp, hsig, hoexp⟩ := hsc
  refine ⟨j, negNat exp', hj, ?_, ?_, noOver_j hsig hno, ?_⟩
  · rw [← hsig]; exact U192.toNat_lt _
  · rcases hbig with h | h
    · left; unfold negNat; omega
    · right; rw [← hsig]; exact h
  · rw [← hsig, ← hoexp, ← hX, ← hT]; exact h

theorem subNeg_postA' {d o : Gen.decomposed192} {t : Int8} {e : Int16} {o' : Gen.decomposed192}
    {exp' : Int16} {neg : Bool} {r : Gen.decomposed192} {t' : Int8}
    (hinv : ScN o e o' exp' ∧ (0 ≤ exp'.toInt ∨ scaleLim ≤ o'.sig.toNat))
    (hno : o'.sig.toNat = o.sig.toNat ∨ o'.sig.toNat < 10 * LIM) (hg : exp' < -57)
    (hnz : d.sig.w0 = 0 → d.sig.w1 = 0 → ¬ d.sig.w2 = 0)
    (h : SubFin ((default : U192).toNat / 10 ^ negNat 0) o'.sig.toNat 1 o'.exp neg r t') :
    SubNegPost' d o t e neg r t' := by
  have hk : 58 ≤ negNat exp' := by
    have := (i16_lt_lit _ _).mp hg; simp at this; unfold negNat; omega
  obtain ⟨h1, h2⟩ := drop_all d.sig.toNat _ (U192.toNat_lt _) hk
  exact subNeg_post' _ _ hinv.1 hinv.2 hno (by rw [h1, U192.default_toNat]; simp)
    (by rw [h2, if_neg (U192.toNat_pos_of _ hnz)]) h

theorem subNeg_postB' {d o : Gen.decomposed192} {t : Int8} {e : Int16} {o' : Gen.decomposed192}
    {exp' : Int16} {neg : Bool} {r : Gen.decomposed192} {t' : Int8}
    (hinv : ScN o e o' exp' ∧ (0 ≤ exp'.toInt ∨ scaleLim ≤ o'.sig.toNat))
    (hno : o'.sig.toNat = o.sig.toNat ∨ o'.sig.toNat < 10 * LIM)
    (hz : d.sig.w0 = 0 ∧ d.sig.w1 = 0 ∧ d.sig.w2 = 0)
    (h : SubFin (d.sig.toNat / 10 ^ negNat 0) o'.sig.toNat
      (if d.sig.toNat % 10 ^ negNat 0 = 0 then t else 1) o'.exp neg r t') :
    SubNegPost' d o t e neg r t' := by
  have h0 : d.sig.toNat = 0 := U192.toNat_eq_zero _ ⟨⟨hz.1, hz.2.1⟩, hz.2.2⟩
  exact subNeg_post' _ _ hinv.1 hinv.2 hno (by rw [h0]; simp) (by rw [h0]; simp) h

theorem subNegBranch_triple' (d o : Gen.decomposed192) (t : Int8) (e : Int16) :
    ⦃⌜e.toInt < 0 ∧ e = d.exp - o.exp⌝⦄ subNegBranch d o t e
    ⦃⇓ x => ⌜SubNegPost' d o t e x.1 x.2.1 x.2.2⌝⦄ := by
  mvcgen [subNegBranch, subNegDiv_triple]
  case inv1 | inv3 | inv5 => exact fun st => ⟨negNat st.2⟩
  case inv2 | inv4 => exact ⇓ x => match x with
    | .inl st => ⌜ScN o e st.1 st.2 ∧ (st.1.sig.toNat = o.sig.toNat ∨ st.1.sig.toNat < 10 * LIM)⌝
    | .inr st => ⌜ScN o e st.1 st.2 ∧ (st.1.sig.toNat = o.sig.toNat ∨ st.1.sig.toNat < 10 * LIM)⌝
  case inv6 => exact ⇓ x => match x with
    | .inl st => ⌜ScN o e st.1 st.2 ∧ (st.1.sig.toNat = o.sig.toNat ∨ st.1.sig.toNat < 10 * LIM)⌝
    | .inr st => ⌜(ScN o e st.1 st.2 ∧ (0 ≤ st.2.toInt ∨ scaleLim ≤ st.1.sig.toNat)) ∧
        (st.1.sig.toNat = o.sig.toNat ∨ st.1.sig.toNat < 10 * LIM)⌝
  all_goals (simp +zetaDelta at *)
  case vc1 =>
    rename_i hg hinv
    obtain ⟨a, b⟩ := scN_step 19 (by norm_num) (by norm_num) 10000000000000000000 (by decide) _ _ _ ((i16_le_lit _ _).mp hg.1) (U192.scale19 _ hg.2) ⟨hinv.1, hinv.2.1⟩
    exact ⟨a, b, noOver_step _ _ _ 19 (by decide) (lt19 _ hg.2)⟩
  case vc4 =>
    rename_i hg hinv
    obtain ⟨a, b⟩ := scN_step 4 (by norm_num) (by norm_num) 10000 (by decide) _ _ _ ((i16_le_lit _ _).mp hg.1) (U192.scale4 _ hg.2) ⟨hinv.1, hinv.2.1⟩
    exact ⟨a, b, noOver_step _ _ _ 4 (by decide) (lt4 _ hg.2)⟩
  case vc7 =>
    rename_i hg hinv
    obtain ⟨a, b⟩ := scN_step 1 (by norm_num) (by norm_num) 10 (by decide) _ _ _ (by have := (i16_lt_lit _ _).mp hg.1; simp at this; omega) (U192.scale1 _ hg.2) ⟨hinv.1, hinv.2.1⟩
    exact ⟨a, b, noOver_step _ _ _ 1 (by decide) (lt1 _ hg.2)⟩
  case vc2 | vc5 => rename_i hinv; exact hinv.2
  case vc3 => rename_i h; exact scN_init _ _ (by omega)
  case vc6 | vc9 => rename_i h; exact h
  case vc8 => rename_i hg hinv; exact ⟨⟨hinv.2.1, scaleN_exit _ _ hg⟩, hinv.2.2⟩
  case vc11 => rename_i hinv _ hg hnz; exact subNeg_postA' hinv.1 hinv.2 hg hnz
  case vc13 => rename_i hinv _ hg hz; exact subNeg_postB' hinv.1 hinv.2 hz
  case vc14 => rename_i hinv _; exact scN_pre (‹e.toInt < 0 ∧ e = d.exp - o.exp›).2 hinv.1.1
  case vc15 => rename_i hinv _ _; exact subNeg_post' _ _ hinv.1.1 hinv.1.2 hinv.2 rfl rfl

/-- result of the branch `exp > 0` of `sub`, sharp form -/
def SubPosPost' (d o : Gen.decomposed192) (t : Int8) (e : Int16) (neg : Bool) (r : Gen.decomposed192)
    (t' : Int8) : Prop :=
  ∃ j k : Nat, j + k = posNat e ∧ d.sig.toNat * 10 ^ j < 2 ^ 192 ∧
    (k = 0 ∨ LIM ≤ d.sig.toNat * 10 ^ j) ∧ (j = 0 ∨ d.sig.toNat * 10 ^ j < 10 * LIM) ∧
    SubFin (d.sig.toNat * 10 ^ j) (o.sig.toNat / 10 ^ k) (if o.sig.toNat % 10 ^ k = 0 then t else -1)
      (d.exp - Int16.ofNat j) neg r t'

theorem subPos_post' {d o : Gen.decomposed192} {t : Int8} {e : Int16} {d' : Gen.decomposed192}
    {exp' : Int16} {neg : Bool} {r : Gen.decomposed192} {t' : Int8} (X : Nat) (T : Int8)
    (hsc : ScP d e d' exp') (hbig : exp'.toInt ≤ 0 ∨ scaleLim ≤ d'.sig.toNat)
    (hno : d'.sig.toNat = d.sig.toNat ∨ d'.sig.toNat < 10 * LIM)
    (hX : X = o.sig.toNat / 10 ^ posNat exp')
    (hT : T = if o.sig.toNat % 10 ^ posNat exp' = 0 then t else -1)
    (h : SubFin d'.sig.toNat X T d'.exp neg r t') : SubPosPost' d o t e neg r t' := by
  obtain ⟨h0, j, hj, hexp, hsig, hoexp⟩ := hsc
  refine ⟨j, posNat exp', hj, ?_, ?_, noOver_j hsig hno, ?_⟩
  · rw [← hsig]; exact U192.toNat_lt _
  · rcases hbig with h | h
    · left; unfold posNat; omega
    · right; rw [← hsig]; exact h
  · rw [← hsig, ← hoexp, ← hX, ← hT]; exact h

theorem subPos_postA' {d o : Gen.decomposed192} {t : Int8} {e : Int16} {d' : Gen.decomposed192}
    {exp' : Int16} {neg : Bool} {r : Gen.decomposed192} {t' : Int8}
    (hinv : ScP d e d' exp' ∧ (exp'.toInt ≤ 0 ∨ scaleLim ≤ d'.sig.toNat))
    (hno : d'.sig.toNat = d.sig.toNat ∨ d'.sig.toNat < 10 * LIM) (hg : 57 < exp')
    (hnz : o.sig.w0 = 0 → o.sig.w1 = 0 → ¬ o.sig.w2 = 0)
    (h : SubFin d'.sig.toNat ((default : U192).toNat / 10 ^ posNat 0) (-1) d'.exp neg r t') :
    SubPosPost' d o t e neg r t' := by
  have hk : 58 ≤ posNat exp' := by
    have := (i16_lt_lit _ _).mp hg; simp at this; unfold posNat; omega
  obtain ⟨h1, h2⟩ := drop_all o.sig.toNat _ (U192.toNat_lt _) hk
  exact subPos_post' _ _ hinv.1 hinv.2 hno (by rw [h1, U192.default_toNat]; simp)
    (by rw [h2, if_neg (U192.toNat_pos_of _ hnz)]) h

theorem subPos_postB' {d o : Gen.decomposed192} {t : Int8} {e : Int16} {d' : Gen.decomposed192}
    {exp' : Int16} {neg : Bool} {r : Gen.decomposed192} {t' : Int8}
    (hinv : ScP d e d' exp' ∧ (exp'.toInt ≤ 0 ∨ scaleLim ≤ d'.sig.toNat))
    (hno : d'.sig.toNat = d.sig.toNat ∨ d'.sig.toNat < 10 * LIM)
    (hz : o.sig.w0 = 0 ∧ o.sig.w1 = 0 ∧ o.sig.w2 = 0)
    (h : SubFin d'.sig.toNat (o.sig.toNat / 10 ^ posNat 0)
      (if o.sig.toNat % 10 ^ posNat 0 = 0 then t else -1) d'.exp neg r t') :
    SubPosPost' d o t e neg r t' := by
  have h0 : o.sig.toNat = 0 := U192.toNat_eq_zero _ ⟨⟨hz.1, hz.2.1⟩, hz.2.2⟩
  exact subPos_post' _ _ hinv.1 hinv.2 hno (by rw [h0]; simp) (by rw [h0]; simp) h

theorem subPosBranch_triple' (d o : Gen.decomposed192) (t : Int8) (e : Int16) :
    ⦃⌜0 < e.toInt⌝⦄ subPosBranch d o t e
    ⦃⇓ x => ⌜SubPosPost' d o t e x.1 x.2.1 x.2.2⌝⦄ := by
  mvcgen [subPosBranch, subPosDiv_triple]
  case inv1 | inv3 | inv5 => exact fun st => ⟨posNat st.2⟩
  case inv2 | inv4 => exact ⇓ x => match x with
    | .inl st => ⌜ScP d e st.1 st.2 ∧ (st.1.sig.toNat = d.sig.toNat ∨ st.1.sig.toNat < 10 * LIM)⌝
    | .inr st => ⌜ScP d e st.1 st.2 ∧ (st.1.sig.toNat = d.sig.toNat ∨ st.1.sig.toNat < 10 * LIM)⌝
  case inv6 => exact ⇓ x => match x with
    | .inl st => ⌜ScP d e st.1 st.2 ∧ (st.1.sig.toNat = d.sig.toNat ∨ st.1.sig.toNat < 10 * LIM)⌝
    | .inr st => ⌜(ScP d e st.1 st.2 ∧ (st.2.toInt ≤ 0 ∨ scaleLim ≤ st.1.sig.toNat)) ∧
        (st.1.sig.toNat = d.sig.toNat ∨ st.1.sig.toNat < 10 * LIM)⌝
  all_goals (simp +zetaDelta at *)
  case vc1 =>
    rename_i hg hinv
    obtain ⟨a, b⟩ := scP_step 19 (by norm_num) (by norm_num) 10000000000000000000 (by decide) _ _ _ ((i16_le_lit _ _).mp hg.1) (U192.scale19 _ hg.2) ⟨hinv.1, hinv.2.1⟩
    exact ⟨a, b, noOver_step _ _ _ 19 (by decide) (lt19 _ hg.2)⟩
  case vc4 =>
    rename_i hg hinv
    obtain ⟨a, b⟩ := scP_step 4 (by norm_num) (by norm_num) 10000 (by decide) _ _ _ ((i16_le_lit _ _).mp hg.1) (U192.scale4 _ hg.2) ⟨hinv.1, hinv.2.1⟩
    exact ⟨a, b, noOver_step _ _ _ 4 (by decide) (lt4 _ hg.2)⟩
  case vc7 =>
    rename_i hg hinv
    obtain ⟨a, b⟩ := scP_step 1 (by norm_num) (by norm_num) 10 (by decide) _ _ _ (by have := (i16_lt_lit _ _).mp hg.1; simp at this; omega) (U192.scale1 _ hg.2) ⟨hinv.1, hinv.2.1⟩
    exact ⟨a, b, noOver_step _ _ _ 1 (by decide) (lt1 _ hg.2)⟩
  case vc2 | vc5 => rename_i hinv; exact hinv.2
  case vc3 => rename_i h; exact scP_init _ _ (by omega)
  case vc6 | vc9 => rename_i h; exact h
  case vc8 => rename_i hg hinv; exact ⟨⟨hinv.2.1, scaleP_exit _ _ hg⟩, hinv.2.2⟩
  case vc11 => rename_i hinv _ hg hnz; exact subPos_postA' hinv.1 hinv.2 hg hnz
  case vc13 => rename_i hinv _ hg hz; exact subPos_postB' hinv.1 hinv.2 hz
  case vc14 => rename_i hinv _; exact hinv.1.1.1
  case vc15 => rename_i hinv _ _; exact subPos_post' _ _ hinv.1.1 hinv.1.2 hinv.2 rfl rfl

/-- result of `sub`, sharp form -/
def SubPost' (d o : Gen.decomposed192) (t : Int8) (neg : Bool) (r : Gen.decomposed192) (t' : Int8) : Prop :=
  ((d.exp - o.exp).toInt < 0 ∧ SubNegPost' d o t (d.exp - o.exp) neg r t') ∨
  (0 < (d.exp - o.exp).toInt ∧ SubPosPost' d o t (d.exp - o.exp) neg r t') ∨
  ((d.exp - o.exp).toInt = 0 ∧ SubFin d.sig.toNat o.sig.toNat t d.exp neg r t')

theorem sub_triple' (d o : Gen.decomposed192) (t : Int8) :
    ⦃⌜True⌝⦄ Gen.decomposed192.sub d o t ⦃⇓ x => ⌜SubPost' d o t x.1 x.2.1 x.2.2⌝⦄ := by
  rw [sub_eq]
  mvcgen [subNegBranch_triple', subPosBranch_triple', subTail_triple]
  case vc1 => rename_i h; exact i16_dec_lt0 h
  case vc2 => rename_i h _; exact fun hp => Or.inl ⟨i16_dec_lt0 h, hp⟩
  case vc3 => rename_i h; exact i16_dec_gt0 h
  case vc4 => rename_i h _; exact fun hp => Or.inr (Or.inl ⟨i16_dec_gt0 h, hp⟩)
  case vc5 => rename_i h1 h2 _; exact fun hp => Or.inr (Or.inr ⟨i16_dec_eq0 h1 h2, hp⟩)

/-- **`decomposed192.sub`, all inputs, sharp machine-level result equation** -/
theorem sub_sharp (d o : Gen.decomposed192) (t : Int8) :
    ∃ neg r t', Gen.decomposed192.sub d o t = .ok (neg, r, t') ∧ SubPost' d o t neg r t' := by
  obtain ⟨⟨neg, r, t'⟩, hr, h⟩ := ok_of_triple (sub_triple' d o t)
  exact ⟨neg, r, t', hr, h⟩

end CohortElem
