/-
  D128.Proofs.WordsWideMul — item 7: the full 192×192→384-bit product and the square.

  * `U192_mul_toNat  : (Gen.U192.mul n o).toNat = n.toNat * o.toNat`     (exact, `U384.toNat`)
  * `U192_pow2_eq_mul : Gen.U192.pow2 n = Gen.U192.mul n n`              (by `rfl`)
  * `U192_pow2_toNat : (Gen.U192.pow2 n).toNat = n.toNat ^ 2`
  * `U192_mul_low`   : low three words of the product = `(n.toNat * o.toNat) % 2^192`
  * `add_small`      : `(a + b).toNat = a.toNat + b.toNat` when the sum fits in a word
  All 14 `Add64`s of the carry chain take the documented `c ≤ 1` branch (carry-in is a 0/1 carry,
  sums of carries are passed as the addend).
-/
import D128.Proofs.WordsWide

set_option autoImplicit false
set_option exponentiation.threshold 512

namespace D128.Proofs.WordsWide

/-! ## 7. full 192×192 → 384 multiplication -/

theorem add_small (a b : UInt64) (h : a.toNat + b.toNat < 2^64) :
    (a + b).toNat = a.toNat + b.toNat := by
  rw [UInt64.toNat_add]; exact Nat.mod_eq_of_lt h

theorem U192_mul_toNat (n o : U192) :
    (Gen.U192.mul n o).toNat = n.toNat * o.toNat := by
  unfold Gen.U192.mul
  obtain ⟨s1, r0, m0, em0⟩ := mul64_spec n.w0 o.w0
  obtain ⟨t2, t1, m1, em1⟩ := mul64_spec n.w1 o.w0
  obtain ⟨s3, s2, m2, em2⟩ := mul64_spec n.w2 o.w0
  obtain ⟨u2, u1, m3, em3⟩ := mul64_spec n.w0 o.w1
  obtain ⟨v3, v2, m4, em4⟩ := mul64_spec n.w1 o.w1
  obtain ⟨u4, u3, m5, em5⟩ := mul64_spec n.w2 o.w1
  obtain ⟨w3, w2, m6, em6⟩ := mul64_spec n.w0 o.w2
  obtain ⟨x4, x3, m7, em7⟩ := mul64_spec n.w1 o.w2
  obtain ⟨w5, w4, m8, em8⟩ := mul64_spec n.w2 o.w2
  obtain ⟨r1a, k1, h1, e1, b1⟩ := add64_spec s1 t1 0 (by simp)
  obtain ⟨r2a, a3, h2, e2, b2⟩ := add64_spec s2 t2 k1 b1
  obtain ⟨r1, k3, h3, e3, b3⟩ := add64_spec r1a u1 0 (by simp)
  obtain ⟨r2b, b3', h4, e4, b4⟩ := add64_spec r2a u2 k3 b3
  obtain ⟨r2c, k5, h5, e5, b5⟩ := add64_spec r2b v2 0 (by simp)
  obtain ⟨r3a, a4, h6, e6, b6⟩ := add64_spec s3 u3 a3 b2
  obtain ⟨r3b, b4', h7, e7, b7⟩ := add64_spec r3a v3 b3' b4
  obtain ⟨r3c, c4, h8, e8, b8⟩ := add64_spec r3b w3 k5 b5
  obtain ⟨r2, k9, h9, e9, b9⟩ := add64_spec r2c w2 0 (by simp)
  obtain ⟨r3, k10, h10, e10, b10⟩ := add64_spec r3c x3 k9 b9
  obtain ⟨r4a, a5, h11, e11, b11⟩ := add64_spec u4 w4 a4 b6
  obtain ⟨r4b, b5', h12, e12, b12⟩ := add64_spec r4a x4 b4' b7
  obtain ⟨r4, k13, h13, e13, b13⟩ := add64_spec r4b (c4 + k10) 0 (by simp)
  obtain ⟨r5, k14, h14, e14, b14⟩ := add64_spec w5 ((a5 + b5') + k13) 0 (by simp)
  simp only [m0, m1, m2, m3, m4, m5, m6, m7, m8, h1, h2, h3, h4, h5, h6, h7, h8, h9, h10,
    h11, h12, h13, h14, Id.run_pure]
  have hlt : n.toNat * o.toNat < 2^192 * 2^192 :=
    Nat.mul_lt_mul'' (U192.toNat_lt n) (U192.toNat_lt o)
  have hmul : n.toNat * o.toNat =
      n.w0.toNat * o.w0.toNat + (n.w1.toNat * o.w0.toNat) * 2^64 + (n.w2.toNat * o.w0.toNat) * 2^128
      + (n.w0.toNat * o.w1.toNat) * 2^64 + (n.w1.toNat * o.w1.toNat) * 2^128
      + (n.w2.toNat * o.w1.toNat) * 2^192
      + (n.w0.toNat * o.w2.toNat) * 2^128 + (n.w1.toNat * o.w2.toNat) * 2^192
      + (n.w2.toNat * o.w2.toNat) * 2^256 := by
    simp only [U192.toNat]; ring
  rw [hmul] at hlt ⊢
  have ea : (c4 + k10).toNat = c4.toNat + k10.toNat :=
    add_small _ _ (Nat.lt_of_le_of_lt (Nat.add_le_add b8 b10) (by norm_num))
  have eb : ((a5 + b5') + k13).toNat = a5.toNat + b5'.toNat + k13.toNat := by
    have h' : (a5 + b5').toNat = a5.toNat + b5'.toNat :=
      add_small _ _ (Nat.lt_of_le_of_lt (Nat.add_le_add b11 b12) (by norm_num))
    have h'' : (a5 + b5').toNat + k13.toNat < 2^64 := by
      rw [h']
      exact Nat.lt_of_le_of_lt (Nat.add_le_add (Nat.add_le_add b11 b12) b13) (by norm_num)
    rw [add_small _ _ h'', h']
  rw [ea] at e13
  rw [eb] at e14
  clear hmul m0 m1 m2 m3 m4 m5 m6 m7 m8 h1 h2 h3 h4 h5 h6 h7 h8 h9 h10 h11 h12 h13 h14 ea eb
  simp only [U384.toNat, UInt64.toNat_zero, Nat.reducePow, Nat.reduceMul] at *
  have T : r0.toNat + r1.toNat * 2^64 + r2.toNat * 2^128 + r3.toNat * 2^192 + r4.toNat * 2^256
      + r5.toNat * 2^320 + k14.toNat * 2^384 =
      n.w0.toNat * o.w0.toNat + (n.w1.toNat * o.w0.toNat) * 2^64 + (n.w2.toNat * o.w0.toNat) * 2^128
      + (n.w0.toNat * o.w1.toNat) * 2^64 + (n.w1.toNat * o.w1.toNat) * 2^128
      + (n.w2.toNat * o.w1.toNat) * 2^192
      + (n.w0.toNat * o.w2.toNat) * 2^128 + (n.w1.toNat * o.w2.toNat) * 2^192
      + (n.w2.toNat * o.w2.toNat) * 2^256 := by
    clear hlt b1 b2 b3 b4 b5 b6 b7 b8 b9 b10 b11 b12 b13 b14
    omega
  have := r0.toNat_lt; have := r1.toNat_lt; have := r2.toNat_lt; have := r3.toNat_lt
  have := r4.toNat_lt; have := r5.toNat_lt
  clear e1 e2 e3 e4 e5 e6 e7 e8 e9 e10 e11 e12 e13 e14 em0 em1 em2 em3 em4 em5 em6 em7 em8
  clear b1 b2 b3 b4 b5 b6 b7 b8 b9 b10 b11 b12 b13 b14
  omega

/-- the generated squaring routine is literally `mul n n` -/
theorem U192_pow2_eq_mul (n : U192) : Gen.U192.pow2 n = Gen.U192.mul n n := rfl

theorem U192_pow2_toNat (n : U192) : (Gen.U192.pow2 n).toNat = n.toNat ^ 2 := by
  rw [U192_pow2_eq_mul, U192_mul_toNat, Nat.pow_two]

/-- the low three words of the product, as used by `U192.div` -/
theorem U192_mul_low (n o : U192) :
    (U192.mk (Gen.U192.mul n o).w0 (Gen.U192.mul n o).w1 (Gen.U192.mul n o).w2).toNat
      = (n.toNat * o.toNat) % 2^192 := by
  rw [← U192_mul_toNat]
  generalize Gen.U192.mul n o = q
  have := q.w0.toNat_lt; have := q.w1.toNat_lt; have := q.w2.toNat_lt
  simp only [U192.toNat, U384.toNat]
  omega

end D128.Proofs.WordsWide
