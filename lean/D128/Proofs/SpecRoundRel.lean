/-
  D128/Proofs/SpecRoundRel.lean — quantitative error bounds for `Spec.roundTo` / `Spec.flushOrRound`
  (relative error in the normal range, absolute error at the bottom of the exponent range).  Pure
  specification-level mathematics (no generated code); built on `SpecRoundMain.lean`
  (`roundTo_nearest_half`, `roundTo_within_spacing`) and `SpecRoundAt.lean` (`member_below`).

  The format keeps coefficients up to `Cmax = 10·2^110 − 1 ≈ 1.298·10^34`; above the lowest exponent a
  rounded coefficient is at least `2^110 ≈ 1.298·10^33`, so one spacing is at most `q / 2^110` and the unit
  roundoff of a nearest mode is `2^-111 ≈ 0.385·10^-33` (not `½·10^-33`).

  Provided (namespace `SpecRound`); `v = c·10^e` is the magnitude of a finite result `.fin n c e`:
  * `spacing_mul_le`          `Emin < spacingExp q → 2^110·10^(spacingExp q) ≤ q`
  * `spacingExp_eq_Emin_iff`  `spacingExp q = Emin ↔ q < (Cmax+1)·10^Emin`
  * `spacing_le_max`          `10^(spacingExp q) ≤ max (10^Emin) (q/2^110)`
  * `roundTo_nearest_err`     nearest modes: `|v − q| ≤ max (10^Emin/2) (q/2^111)`
  * `roundTo_err_lt`          every mode:   `|v − q| < max (10^Emin) (q/2^110)`
  * `roundTo_rel_error_sharp` nearest, `2^110·10^Emin ≤ q`: `|v − q| ≤ q/2^111`
  * `roundTo_rel_error_lt_sharp` every mode, `2^110·10^Emin ≤ q`: `|v − q| < q/2^110`
  * `roundTo_rel_error`       nearest, `10^(Emin+33) ≤ q`:  `|v − q| ≤ ½·10^-33·q`
  * `roundTo_rel_error_lt`    every mode, `10^(Emin+33) ≤ q`: `|v − q| < 10^-33·q`
  * `roundTo_abs_error_low`   nearest, `q < (Cmax+1)·10^Emin`: `|v − q| ≤ 10^Emin/2`
  * `roundTo_abs_error_low_lt` every mode, `q < (Cmax+1)·10^Emin`: `|v − q| < 10^Emin`
  * `roundTo_rel_error_tight` the constant `2^-111` cannot be improved (a tie just above `2^110`)
  * `roundTo_fin_of_le_max`   `q ≤ Cmax·10^Emax` → the result is finite (every mode)
  * `roundTo_fin_of_lt_half`  nearest modes: `q < (Cmax+½)·10^Emax` → the result is finite
  * `flushOrRound_fin_of_le_max`, `flushOrRound_nearest_err`, `flushOrRound_err_le` the same for
    `flushOrRound` (all `q ≥ 0`, the flush to zero below `10^(Emin-1)` included)
  * `roundTo_pos_of_ge_one`   `1 ≤ q` → the finite result is `≥ 1` (every mode)
-/
import D128.Proofs.SpecRound
set_option autoImplicit false

namespace SpecRound
open Spec

/-! ## the spacing relative to q -/

/-- above the lowest exponent the kept coefficient is at least `2^110` -/
theorem spacing_mul_le {q : Rat} (hq : 0 < q) (h : Spec.Emin < Spec.spacingExp q) :
    (2 ^ 110 : Rat) * (10 : Rat) ^ (Spec.spacingExp q) ≤ q := by
  obtain ⟨-, hb⟩ := member_below q hq (c' := 0) (e' := Spec.Emin) (Nat.zero_le _) (le_refl _) h
  have hE : (0 : Rat) < (10 : Rat) ^ (Spec.spacingExp q) := zpow_pos (by norm_num) _
  have hs : 0 ≤ q / (10 : Rat) ^ (Spec.spacingExp q) := div_nonneg hq.le hE.le
  have hb' : (2 ^ 110 : Rat) ≤ (⌊q / (10 : Rat) ^ (Spec.spacingExp q)⌋₊ : Rat) := by exact_mod_cast hb
  calc (2 ^ 110 : Rat) * (10 : Rat) ^ (Spec.spacingExp q)
      ≤ q / (10 : Rat) ^ (Spec.spacingExp q) * (10 : Rat) ^ (Spec.spacingExp q) :=
        mul_le_mul_of_nonneg_right (le_trans hb' (Nat.floor_le hs)) hE.le
    _ = q := div_mul_zpow q _

/-- the lowest exponent is used exactly below `(Cmax+1)·10^Emin` -/
theorem spacingExp_eq_Emin_iff {q : Rat} (hq : 0 < q) :
    Spec.spacingExp q = Spec.Emin ↔ q < ((Spec.Cmax : Rat) + 1) * (10 : Rat) ^ Spec.Emin := by
  have hp : (0 : Rat) < (10 : Rat) ^ Spec.Emin := zpow_pos (by norm_num) _
  have hcoef : coef q Spec.Emin ≤ Spec.Cmax ↔ q < ((Spec.Cmax : Rat) + 1) * (10 : Rat) ^ Spec.Emin := by
    unfold coef
    rw [← div_lt_iff₀ hp]
    have : ((Spec.Cmax : Rat) + 1) = ((Spec.Cmax + 1 : Nat) : Rat) := by push_cast; rfl
    rw [this, ← Nat.floor_lt (div_nonneg hq.le hp.le)]
    exact Nat.lt_succ_iff.symm
  rw [← hcoef, coef_le_Cmax_iff q hq, spacingExp_eq]
  constructor
  · intro h; have := le_max_right Spec.Emin (Spec.spacingExpRaw q); omega
  · intro h; exact max_eq_left h

theorem spacing_le_max {q : Rat} (hq : 0 < q) :
    (10 : Rat) ^ (Spec.spacingExp q) ≤ max ((10 : Rat) ^ Spec.Emin) (q / 2 ^ 110) := by
  rcases eq_or_lt_of_le (spacingExp_spec q hq).1 with h | h
  · rw [← h]; exact le_max_left _ _
  · apply le_max_of_le_right
    rw [le_div_iff₀ (by positivity)]
    have := spacing_mul_le hq h
    linarith

/-! ## absolute/relative error, unified -/

/-- nearest modes: the error is at most half a unit of the lowest exponent or `q·2^-111`, whichever is
    larger -/
theorem roundTo_nearest_err {m : Mode} (hn : isNearest m = true) {neg : Bool} {q : Rat} (hq : 0 < q)
    {n : Bool} {c : Nat} {e : Int} (h : Spec.roundTo m neg q = .fin n c e) :
    |(c : Rat) * (10 : Rat) ^ e - q| ≤ max ((10 : Rat) ^ Spec.Emin / 2) (q / 2 ^ 111) := by
  have h1 := roundTo_nearest_half hn hq h
  rcases eq_or_lt_of_le (spacingExp_spec q hq).1 with hE | hE
  · rw [← hE] at h1; exact le_trans h1 (le_max_left _ _)
  · have := spacing_mul_le hq hE
    refine le_trans h1 (le_max_of_le_right ?_)
    rw [div_le_div_iff₀ (by norm_num) (by positivity)]
    linarith

/-- every mode: the error is below one unit of the lowest exponent or `q·2^-110`, whichever is larger -/
theorem roundTo_err_lt {m : Mode} {neg : Bool} {q : Rat} (hq : 0 < q)
    {n : Bool} {c : Nat} {e : Int} (h : Spec.roundTo m neg q = .fin n c e) :
    |(c : Rat) * (10 : Rat) ^ e - q| < max ((10 : Rat) ^ Spec.Emin) (q / 2 ^ 110) :=
  lt_of_lt_of_le (roundTo_within_spacing hq h) (spacing_le_max hq)

/-- nearest modes, from `2^110·10^Emin` on: relative error at most `2^-111` -/
theorem roundTo_rel_error_sharp {m : Mode} (hn : isNearest m = true) {neg : Bool} {q : Rat}
    (hq : (2 ^ 110 : Rat) * (10 : Rat) ^ Spec.Emin ≤ q)
    {n : Bool} {c : Nat} {e : Int} (h : Spec.roundTo m neg q = .fin n c e) :
    |(c : Rat) * (10 : Rat) ^ e - q| ≤ q / 2 ^ 111 := by
  have hq0 : 0 < q := lt_of_lt_of_le (mul_pos (by positivity) (zpow_pos (by norm_num) _)) hq
  refine le_trans (roundTo_nearest_err hn hq0 h) (max_le ?_ (le_refl _))
  rw [div_le_div_iff₀ (by norm_num) (by positivity)]
  linarith

/-- every mode, from `2^110·10^Emin` on: relative error below `2^-110` -/
theorem roundTo_rel_error_lt_sharp {m : Mode} {neg : Bool} {q : Rat}
    (hq : (2 ^ 110 : Rat) * (10 : Rat) ^ Spec.Emin ≤ q)
    {n : Bool} {c : Nat} {e : Int} (h : Spec.roundTo m neg q = .fin n c e) :
    |(c : Rat) * (10 : Rat) ^ e - q| < q / 2 ^ 110 := by
  have hq0 : 0 < q := lt_of_lt_of_le (mul_pos (by positivity) (zpow_pos (by norm_num) _)) hq
  refine lt_of_lt_of_le (roundTo_err_lt hq0 h) (max_le ?_ (le_refl _))
  rw [le_div_iff₀ (by positivity)]
  linarith

theorem zpow_Emin_33 : (10 : Rat) ^ (Spec.Emin + 33) = (10 : Rat) ^ Spec.Emin * 10 ^ 33 := by
  rw [zpow_add₀ (by norm_num : (10 : Rat) ≠ 0)]; norm_num

/-- **relative error, nearest modes.**  In the normal range (`q ≥ 10^(Emin+33)`, i.e. `1e-6143`) a finite
    result of a round-to-nearest mode is within half a unit of the 34th significant digit:
    `|v − q| ≤ ½·10^-33·q`. -/
theorem roundTo_rel_error {m : Mode} (hn : isNearest m = true) {neg : Bool} {q : Rat}
    (hq : (10 : Rat) ^ (Spec.Emin + 33) ≤ q)
    {n : Bool} {c : Nat} {e : Int} (h : Spec.roundTo m neg q = .fin n c e) :
    |(c : Rat) * (10 : Rat) ^ e - q| ≤ 1 / 2 * (10 : Rat) ^ (-33 : Int) * q := by
  have hp : (0 : Rat) < (10 : Rat) ^ Spec.Emin := zpow_pos (by norm_num) _
  rw [zpow_Emin_33] at hq
  have hq0 : 0 < q := lt_of_lt_of_le (mul_pos hp (by norm_num)) hq
  have h10 : (10 : Rat) ^ (-33 : Int) = 1 / 10 ^ 33 := by norm_num
  rw [h10]
  refine le_trans (roundTo_nearest_err hn hq0 h) (max_le ?_ ?_)
  · have : (10 : Rat) ^ Spec.Emin ≤ q / 10 ^ 33 := by
      rw [le_div_iff₀ (by norm_num)]; exact hq
    linarith
  · have h2 : q / 2 ^ 111 = q * (1 / 2 ^ 111) := by ring
    rw [h2]
    have : (1 : Rat) / 2 ^ 111 ≤ 1 / 2 * (1 / 10 ^ 33) := by norm_num
    nlinarith

/-- **relative error, every mode** (directed modes included): in the normal range a finite result is
    within one unit of the 34th significant digit, strictly: `|v − q| < 10^-33·q`. -/
theorem roundTo_rel_error_lt {m : Mode} {neg : Bool} {q : Rat}
    (hq : (10 : Rat) ^ (Spec.Emin + 33) ≤ q)
    {n : Bool} {c : Nat} {e : Int} (h : Spec.roundTo m neg q = .fin n c e) :
    |(c : Rat) * (10 : Rat) ^ e - q| < (10 : Rat) ^ (-33 : Int) * q := by
  have hp : (0 : Rat) < (10 : Rat) ^ Spec.Emin := zpow_pos (by norm_num) _
  rw [zpow_Emin_33] at hq
  have hq0 : 0 < q := lt_of_lt_of_le (mul_pos hp (by norm_num)) hq
  have h10 : (10 : Rat) ^ (-33 : Int) = 1 / 10 ^ 33 := by norm_num
  rw [h10]
  refine lt_of_lt_of_le (roundTo_err_lt hq0 h) (max_le ?_ ?_)
  · have : (10 : Rat) ^ Spec.Emin ≤ q / 10 ^ 33 := by
      rw [le_div_iff₀ (by norm_num)]; exact hq
    linarith
  · have h2 : q / 2 ^ 110 = q * (1 / 2 ^ 110) := by ring
    rw [h2]
    have : (1 : Rat) / 2 ^ 110 ≤ 1 / 10 ^ 33 := by norm_num
    nlinarith

/-- **absolute error at the bottom of the exponent range** (below `(Cmax+1)·10^Emin ≈ 1.298e-6142` the
    exponent is `Emin`; this covers the subnormal range `q < 1e-6143`): nearest modes are within half a
    unit of `10^Emin` -/
theorem roundTo_abs_error_low {m : Mode} (hn : isNearest m = true) {neg : Bool} {q : Rat} (hq : 0 < q)
    (hlow : q < ((Spec.Cmax : Rat) + 1) * (10 : Rat) ^ Spec.Emin)
    {n : Bool} {c : Nat} {e : Int} (h : Spec.roundTo m neg q = .fin n c e) :
    |(c : Rat) * (10 : Rat) ^ e - q| ≤ (10 : Rat) ^ Spec.Emin / 2 := by
  have h1 := roundTo_nearest_half hn hq h
  rwa [(spacingExp_eq_Emin_iff hq).2 hlow] at h1

/-- … and every mode is within one unit of `10^Emin`, strictly -/
theorem roundTo_abs_error_low_lt {m : Mode} {neg : Bool} {q : Rat} (hq : 0 < q)
    (hlow : q < ((Spec.Cmax : Rat) + 1) * (10 : Rat) ^ Spec.Emin)
    {n : Bool} {c : Nat} {e : Int} (h : Spec.roundTo m neg q = .fin n c e) :
    |(c : Rat) * (10 : Rat) ^ e - q| < (10 : Rat) ^ Spec.Emin := by
  have h1 := roundTo_within_spacing hq h
  rwa [(spacingExp_eq_Emin_iff hq).2 hlow] at h1

/-! ## finiteness -/

/-- up to the largest finite magnitude nothing overflows, in any mode -/
theorem roundTo_fin_of_le_max (m : Mode) (neg : Bool) {q : Rat} (hq : 0 < q)
    (hmax : q ≤ (Spec.Cmax : Rat) * (10 : Rat) ^ Spec.Emax) :
    ∃ c e, Spec.roundTo m neg q = .fin neg c e ∧ c ≤ Spec.Cmax ∧ Spec.Emin ≤ e ∧ e ≤ Spec.Emax := by
  rcases roundTo_member m neg q hq with h | h
  · exact absurd (roundTo_inf_gt_max hq h) (not_lt.2 hmax)
  · exact h

/-- a nearest mode is finite exactly below `(Cmax+½)·10^Emax` -/
theorem roundTo_fin_of_lt_half {m : Mode} (hn : isNearest m = true) (neg : Bool) {q : Rat} (hq : 0 < q)
    (hmax : q < ((Spec.Cmax : Rat) + 1 / 2) * (10 : Rat) ^ Spec.Emax) :
    ∃ c e, Spec.roundTo m neg q = .fin neg c e ∧ c ≤ Spec.Cmax ∧ Spec.Emin ≤ e ∧ e ≤ Spec.Emax := by
  rcases roundTo_member m neg q hq with h | h
  · exact absurd ((roundTo_nearest_inf_iff hn neg hq).1 h) (not_le.2 hmax)
  · exact h

/-- the result for `q ≥ 1` is at least 1 (1 is a member; monotonicity) -/
theorem roundTo_pos_of_ge_one {m : Mode} {neg : Bool} {q : Rat} (hq : 1 ≤ q)
    {n : Bool} {c : Nat} {e : Int} (h : Spec.roundTo m neg q = .fin n c e) :
    1 ≤ (c : Rat) * (10 : Rat) ^ e := by
  obtain ⟨c1, e1, h1, hle⟩ := roundTo_mono m neg (by norm_num : (0 : Rat) < 1) hq h
  obtain ⟨c', e', hr, hv, -⟩ := roundTo_exact m neg (c := 1) (e := 0) (by norm_num)
    (by unfold Spec.Cmax; norm_num) (by unfold Spec.Emin; norm_num) (by unfold Spec.Emax; norm_num)
  have h11 : ((1 : Nat) : Rat) * (10 : Rat) ^ (0 : Int) = 1 := by norm_num
  rw [h11] at hr hv
  rw [hr] at h1
  injection h1 with _ hc he
  subst hc he
  linarith

/-! ## flushOrRound -/

theorem flushOrRound_fin_of_le_max (m : Mode) (neg : Bool) {q : Rat} (hq : 0 ≤ q)
    (hmax : q ≤ (Spec.Cmax : Rat) * (10 : Rat) ^ Spec.Emax) :
    ∃ c e, Spec.flushOrRound m neg q = .fin neg c e := by
  rcases eq_or_lt_of_le hq with h0 | h0
  · subst h0; exact ⟨0, 0, flushOrRound_zero m neg⟩
  · rcases lt_or_ge q ((10 : Rat) ^ (Spec.Emin - 1)) with ht | ht
    · exact ⟨0, Spec.Emin, flushOrRound_tiny m neg h0 ht⟩
    · rw [flushOrRound_eq_roundTo m neg ht]
      obtain ⟨c, e, h, -⟩ := roundTo_fin_of_le_max m neg h0 hmax
      exact ⟨c, e, h⟩

theorem zpow_Emin_pred_le : (10 : Rat) ^ (Spec.Emin - 1) ≤ (10 : Rat) ^ Spec.Emin / 2 := by
  rw [zpow_sub₀ (by norm_num : (10 : Rat) ≠ 0), zpow_one]
  have hp : (0 : Rat) < (10 : Rat) ^ Spec.Emin := zpow_pos (by norm_num) _
  rw [div_le_div_iff₀ (by norm_num) (by norm_num)]
  linarith

/-- nearest modes, every `q ≥ 0` (zero and the flushed range included) -/
theorem flushOrRound_nearest_err {m : Mode} (hn : isNearest m = true) {neg : Bool} {q : Rat} (hq : 0 ≤ q)
    {n : Bool} {c : Nat} {e : Int} (h : Spec.flushOrRound m neg q = .fin n c e) :
    n = neg ∧ |(c : Rat) * (10 : Rat) ^ e - q| ≤ max ((10 : Rat) ^ Spec.Emin / 2) (q / 2 ^ 111) := by
  have hp : (0 : Rat) < (10 : Rat) ^ Spec.Emin := zpow_pos (by norm_num) _
  rcases eq_or_lt_of_le hq with h0 | h0
  · subst h0
    rw [flushOrRound_zero] at h
    injection h with hn' hc he
    subst hn' hc he
    refine ⟨rfl, ?_⟩
    simp only [Nat.cast_zero, zero_mul, sub_zero, abs_zero, zero_div]
    exact le_max_of_le_left (by positivity)
  · rcases lt_or_ge q ((10 : Rat) ^ (Spec.Emin - 1)) with ht | ht
    · rw [flushOrRound_tiny m neg h0 ht] at h
      injection h with hn' hc he
      subst hn' hc he
      refine ⟨rfl, le_max_of_le_left ?_⟩
      simp only [Nat.cast_zero, zero_mul, zero_sub, abs_neg, abs_of_pos h0]
      exact le_trans ht.le zpow_Emin_pred_le
    · rw [flushOrRound_eq_roundTo m neg ht] at h
      exact ⟨(roundTo_fin h0 h).1, roundTo_nearest_err hn h0 h⟩

/-- every mode, every `q ≥ 0` -/
theorem flushOrRound_err_le {m : Mode} {neg : Bool} {q : Rat} (hq : 0 ≤ q)
    {n : Bool} {c : Nat} {e : Int} (h : Spec.flushOrRound m neg q = .fin n c e) :
    n = neg ∧ |(c : Rat) * (10 : Rat) ^ e - q| ≤ max ((10 : Rat) ^ Spec.Emin) (q / 2 ^ 110) := by
  have hp : (0 : Rat) < (10 : Rat) ^ Spec.Emin := zpow_pos (by norm_num) _
  rcases eq_or_lt_of_le hq with h0 | h0
  · subst h0
    rw [flushOrRound_zero] at h
    injection h with hn' hc he
    subst hn' hc he
    refine ⟨rfl, ?_⟩
    simp only [Nat.cast_zero, zero_mul, sub_zero, abs_zero, zero_div]
    exact le_max_of_le_left hp.le
  · rcases lt_or_ge q ((10 : Rat) ^ (Spec.Emin - 1)) with ht | ht
    · rw [flushOrRound_tiny m neg h0 ht] at h
      injection h with hn' hc he
      subst hn' hc he
      refine ⟨rfl, le_max_of_le_left ?_⟩
      simp only [Nat.cast_zero, zero_mul, zero_sub, abs_neg, abs_of_pos h0]
      have := zpow_Emin_pred_le
      linarith
    · rw [flushOrRound_eq_roundTo m neg ht] at h
      exact ⟨(roundTo_fin h0 h).1, (roundTo_err_lt h0 h).le⟩

/-! ## examples: the hypotheses are satisfiable, the constant is tight -/

/-- a tie just above `2^110`: the error `1/2` is `q/(2^111+1)` — the constant `2^-111` of
    `roundTo_rel_error_sharp` cannot be replaced by anything below `1/(2^111+1)` -/
theorem roundTo_rel_error_tight :
    ∃ (q : Rat) (c : Nat) (e : Int), (2 ^ 110 : Rat) * (10 : Rat) ^ Spec.Emin ≤ q ∧
      Spec.roundTo .nearestEven false q = .fin false c e ∧
      |(c : Rat) * (10 : Rat) ^ e - q| = q / (2 ^ 111 + 1) := by
  refine ⟨2 ^ 110 + 1 / 2, 2 ^ 110, 0, ?_, by decide +kernel, ?_⟩
  · have h1 : (10 : Rat) ^ Spec.Emin ≤ 1 :=
      zpow_le_one_of_nonpos₀ (by norm_num) (by unfold Spec.Emin; norm_num)
    nlinarith
  · rw [zpow_zero, mul_one]
    have : ((2 ^ 110 : Nat) : Rat) - (2 ^ 110 + 1 / 2) = -(1 / 2) := by push_cast; ring
    rw [this, abs_neg, abs_of_pos (by norm_num)]
    norm_num

example : |((6666666666666666666666666666666667 : Nat) : Rat) * (10 : Rat) ^ (-34 : Int) - 2 / 3| ≤
    1 / 2 * (10 : Rat) ^ (-33 : Int) * (2 / 3) :=
  roundTo_rel_error (m := .nearestEven) rfl
    (le_trans (zpow_le_zpow_right₀ (by norm_num) (show Spec.Emin + 33 ≤ -1 by unfold Spec.Emin; norm_num))
      (by norm_num))
    ex_nearestEven_two_thirds

end SpecRound
