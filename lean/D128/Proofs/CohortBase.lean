/-
  D128/Proofs/CohortBase.lean — the two "same value" relations of the specification
  (`Spec.Val.same`: same class, sign, numeric value, NaN payload; `Spec.Val.sameNum`: the same, any two
  NaNs identified) as equivalence relations, with the case analyses used by the congruence proofs of
  `Cohort*.lean` (property C19, first clause).  Pure specification-level mathematics.

  Provided (namespace `Cohort`):
  * `same_refl`, `same_symm`, `same_symm'`, `same_trans`
  * `sameNum_refl`, `sameNum_symm`, `sameNum_trans`, `sameNum_of_same`, `same_of_sameNum` (non-NaN)
  * `same_fin_iff`   : `(.fin n c e).same (.fin n' c' e') ↔ n = n' ∧ c·10^e = c'·10^e'` (ℚ)
  * `same_cases`, `sameNum_cases` : the three ways two values can be related
  * `zero_iff_of_mag` : equal magnitudes: `c = 0 ↔ c' = 0`
  * `classCode_congr`, `negate_congr`, `absVal_congr`, `neg_congr`, `isNaN_congr`, `isZero_congr`
  * `same_zero`       : two zeros of one sign are `same`
-/
import D128.Proofs.SpecRound
import D128.Spec.Arith
set_option autoImplicit false

namespace Cohort
open Spec

theorem same_refl (x : Val) : x.same x = true := by
  cases x <;> simp [Val.same]

theorem same_symm (x y : Val) : x.same y = y.same x := by
  cases x <;> cases y <;> simp [Val.same, Bool.beq_comm]

theorem same_symm' {x y : Val} (h : x.same y = true) : y.same x = true := by
  rw [same_symm]; exact h

theorem same_trans {x y z : Val} (h1 : x.same y = true) (h2 : y.same z = true) :
    x.same z = true := by
  cases x <;> cases y <;> cases z <;> simp_all [Val.same]

theorem sameNum_of_same {x y : Val} (h : x.same y = true) : x.sameNum y = true := by
  cases x <;> cases y <;> simp_all [Val.sameNum, Val.same]

theorem sameNum_refl (x : Val) : x.sameNum x = true := sameNum_of_same (same_refl x)

theorem sameNum_symm {x y : Val} (h : x.sameNum y = true) : y.sameNum x = true := by
  cases x <;> cases y <;> simp only [Val.sameNum] at h ⊢ <;> first | rfl | (rw [same_symm]; exact h)

theorem sameNum_trans {x y z : Val} (h1 : x.sameNum y = true) (h2 : y.sameNum z = true) :
    x.sameNum z = true := by
  cases x <;> cases y <;> cases z <;> simp_all [Val.sameNum, Val.same]

/-- away from NaN the two relations coincide -/
theorem same_of_sameNum {x y : Val} (h : x.sameNum y = true) (hx : x.isNaN = false) :
    x.same y = true := by
  cases x <;> cases y <;> simp_all [Val.sameNum, Val.same, Val.isNaN]

theorem same_fin_iff (n n' : Bool) (c c' : Nat) (e e' : Int) :
    (Val.fin n c e).same (.fin n' c' e') = true ↔
      n = n' ∧ (c : ℚ) * (10 : ℚ) ^ e = (c' : ℚ) * (10 : ℚ) ^ e' := by
  simp only [Val.same, Bool.and_eq_true, beq_iff_eq, Spec.mag, SpecRound.pow10_eq_zpow]

/-- the three ways two values can be `same` -/
theorem same_cases {x x' : Val} (h : x.same x' = true) :
    (∃ n p, x = .nan n p ∧ x' = .nan n p) ∨
    (∃ n, x = .inf n ∧ x' = .inf n) ∨
    (∃ n c e c' e', x = .fin n c e ∧ x' = .fin n c' e' ∧
      (c : ℚ) * (10 : ℚ) ^ e = (c' : ℚ) * (10 : ℚ) ^ e') := by
  cases x with
  | nan n p =>
    cases x' with
    | nan n' p' =>
      simp only [Val.same, Bool.and_eq_true, beq_iff_eq] at h
      obtain ⟨rfl, rfl⟩ := h
      exact Or.inl ⟨n, p, rfl, rfl⟩
    | inf n' => simp [Val.same] at h
    | fin n' c' e' => simp [Val.same] at h
  | inf n =>
    cases x' with
    | nan n' p' => simp [Val.same] at h
    | inf n' =>
      simp only [Val.same, beq_iff_eq] at h
      subst h
      exact Or.inr (Or.inl ⟨n, rfl, rfl⟩)
    | fin n' c' e' => simp [Val.same] at h
  | fin n c e =>
    cases x' with
    | nan n' p' => simp [Val.same] at h
    | inf n' => simp [Val.same] at h
    | fin n' c' e' =>
      obtain ⟨rfl, hm⟩ := (same_fin_iff n n' c c' e e').1 h
      exact Or.inr (Or.inr ⟨n, c, e, c', e', rfl, rfl, hm⟩)

/-- the three ways two values can be `sameNum` -/
theorem sameNum_cases {x x' : Val} (h : x.sameNum x' = true) :
    (∃ n p n' p', x = .nan n p ∧ x' = .nan n' p') ∨
    (∃ n, x = .inf n ∧ x' = .inf n) ∨
    (∃ n c e c' e', x = .fin n c e ∧ x' = .fin n c' e' ∧
      (c : ℚ) * (10 : ℚ) ^ e = (c' : ℚ) * (10 : ℚ) ^ e') := by
  cases x with
  | nan n p =>
    cases x' with
    | nan n' p' => exact Or.inl ⟨n, p, n', p', rfl, rfl⟩
    | inf n' => simp [Val.sameNum, Val.same] at h
    | fin n' c' e' => simp [Val.sameNum, Val.same] at h
  | inf n =>
    have h' : (Val.inf n).same x' = true := same_of_sameNum h rfl
    rcases same_cases h' with ⟨_, _, h1, _⟩ | ⟨_, h1, h2⟩ | ⟨_, _, _, _, _, h1, _⟩
    · cases h1
    · exact Or.inr (Or.inl ⟨_, h1, h2⟩)
    · cases h1
  | fin n c e =>
    have h' : (Val.fin n c e).same x' = true := same_of_sameNum h rfl
    rcases same_cases h' with ⟨_, _, h1, _⟩ | ⟨_, h1, h2⟩ | ⟨_, _, _, _, _, h1, h2, h3⟩
    · cases h1
    · cases h1
    · exact Or.inr (Or.inr ⟨_, _, _, _, _, h1, h2, h3⟩)

theorem zero_iff_of_mag {c c' : Nat} {e e' : Int}
    (h : (c : ℚ) * (10 : ℚ) ^ e = (c' : ℚ) * (10 : ℚ) ^ e') : c = 0 ↔ c' = 0 := by
  have hp : (10 : ℚ) ^ e ≠ 0 := (zpow_pos (by norm_num) _).ne'
  have hp' : (10 : ℚ) ^ e' ≠ 0 := (zpow_pos (by norm_num) _).ne'
  constructor
  · intro h0
    subst h0
    rw [Nat.cast_zero, zero_mul] at h
    rcases mul_eq_zero.1 h.symm with h1 | h1
    · exact_mod_cast h1
    · exact absurd h1 hp'
  · intro h0
    subst h0
    rw [Nat.cast_zero, zero_mul] at h
    rcases mul_eq_zero.1 h with h1 | h1
    · exact_mod_cast h1
    · exact absurd h1 hp

theorem same_zero (n : Bool) (e e' : Int) : (Val.fin n 0 e).same (.fin n 0 e') = true := by
  rw [same_fin_iff]; simp

theorem classCode_fin (n : Bool) (c : Nat) (e : Int) :
    classCode (.fin n c e) = if c = 0 then (if n then 2 else 1) else (if n then 4 else 3) := by
  cases c with
  | zero => simp [classCode]
  | succ k => simp [classCode]

theorem classCode_congr {x x' : Val} (h : x.sameNum x' = true) : classCode x = classCode x' := by
  rcases sameNum_cases h with ⟨_, _, _, _, rfl, rfl⟩ | ⟨_, rfl, rfl⟩ | ⟨n, c, e, c', e', rfl, rfl, hm⟩
  · rfl
  · rfl
  · rw [classCode_fin, classCode_fin]
    by_cases h0 : c = 0
    · rw [if_pos h0, if_pos ((zero_iff_of_mag hm).1 h0)]
    · rw [if_neg h0, if_neg (fun h1 => h0 ((zero_iff_of_mag hm).2 h1))]

theorem negate_congr {x x' : Val} (h : x.same x' = true) : (negate x).same (negate x') = true := by
  rcases same_cases h with ⟨_, _, rfl, rfl⟩ | ⟨_, rfl, rfl⟩ | ⟨n, c, e, c', e', rfl, rfl, hm⟩
  · exact same_refl _
  · exact same_refl _
  · simp only [negate]; rw [same_fin_iff]; exact ⟨rfl, hm⟩

theorem absVal_congr {x x' : Val} (h : x.same x' = true) : (absVal x).same (absVal x') = true := by
  rcases same_cases h with ⟨_, _, rfl, rfl⟩ | ⟨_, rfl, rfl⟩ | ⟨n, c, e, c', e', rfl, rfl, hm⟩
  · exact same_refl _
  · exact same_refl _
  · simp only [absVal]; rw [same_fin_iff]; exact ⟨rfl, hm⟩

theorem neg_congr {x x' : Val} (h : x.same x' = true) : x.neg = x'.neg := by
  rcases same_cases h with ⟨_, _, rfl, rfl⟩ | ⟨_, rfl, rfl⟩ | ⟨n, c, e, c', e', rfl, rfl, hm⟩ <;> rfl

theorem isNaN_congr {x x' : Val} (h : x.sameNum x' = true) : x.isNaN = x'.isNaN := by
  rcases sameNum_cases h with ⟨_, _, _, _, rfl, rfl⟩ | ⟨_, rfl, rfl⟩ | ⟨n, c, e, c', e', rfl, rfl, hm⟩ <;> rfl

theorem isZero_fin (n : Bool) (c : Nat) (e : Int) : (Val.fin n c e).isZero = decide (c = 0) := by
  cases c <;> simp [Val.isZero]

theorem isZero_congr {x x' : Val} (h : x.sameNum x' = true) : x.isZero = x'.isZero := by
  rcases sameNum_cases h with ⟨_, _, _, _, rfl, rfl⟩ | ⟨_, rfl, rfl⟩ | ⟨n, c, e, c', e', rfl, rfl, hm⟩
  · rfl
  · rfl
  · rw [isZero_fin, isZero_fin]
    exact decide_eq_decide.2 (zero_iff_of_mag hm)

end Cohort
