/-
  D128/Proofs/PowAccEval.lean — evaluated evidence (re-run on every build by `#guard`) about the general path of
  `Decimal.PowWithMode` (Go: /repo/arith.go), judged by the oracle `Spec.judgePow` (sound by
  `Props.C18Oracle.bad_sound`).  Only `Gen` and `Spec` are imported: nothing here depends on the proofs.

  FINDING (recorded as `pow-base-just-below-1.1`, FIXED by /repo commit 04f6227 "log carries its artanh series to the
  33rd power").  With the series of `decomposed192.log` stopping at the 25th power the logarithm of a base
  `1.092 < |x| < 1.1` was short by up to `1.5·10^-36·|ln x|` (first omitted term `f^27/27`, `f = (|x|−1)/(|x|+1) → 1/21`),
  more than the `4·10^-37·|ln|x||` property C18 grants; amplified by `|y|`:
      1.0999999^100000                         returned …055744452e4106, exact …055744479.68e4106 (27.7 units; 4.8 allowed)
      1.0959207…^153616.786…                   returned …434331004089e6077, exact …434331004132.3e6077 (43 units)
      1.098^-150000.123…                       returned …354442108138e-6124, exact …354442108079.3e-6124 (59 units)
  The violations started at `|x| ≈ 1.0948` (13 500 random operand pairs over all other regions — bases `1 ± 10^-k`,
  `|y·ln x|` up to the overflow, underflow and subnormal thresholds, both nearest modes — gave no other `.bad`).
  After the fix all of these are within the tolerance (guards below), and the proof (`Props.C18c`) needs no exclusion.
-/
import D128.Gen.Arith2
import D128.Spec.Elem
set_option autoImplicit false

namespace PowAccEval
open Gen

def mk128 (n : Nat) : U128 := ⟨UInt64.ofNat (n % 2 ^ 64), UInt64.ofNat (n / 2 ^ 64)⟩
def mkDec (neg : Bool) (c : Nat) (e : Int) : Decimal := compose neg (mk128 c) (Int16.ofInt (e + 6176))

/-- the value `PowWithMode` returns for `(±xc·10^xe)^(±yc·10^ye)` -/
def run (xn : Bool) (xc : Nat) (xe : Int) (yn : Bool) (yc : Nat) (ye : Int) (rm : UInt8 := 0) : Option Spec.Val :=
  match Gen.Decimal.PowWithMode (mkDec xn xc xe) (mkDec yn yc ye) rm with
  | .ok v => some (Spec.interp v.lo v.hi)
  | .error _ => none

/-- is the oracle satisfied -/
def okV (xn : Bool) (xc : Nat) (xe : Int) (yn : Bool) (yc : Nat) (ye : Int) (rm : UInt8 := 0) : Bool :=
  match run xn xc xe yn yc ye rm with
  | none => false
  | some r =>
    match Spec.judgePow (if rm == 0 then .nearestEven else .nearestAway) (.fin xn xc xe) (.fin yn yc ye) r with
    | .ok => true
    | _ => false

/-! ### the former counterexamples -/
#guard run false 10999999 (-7) false 1 5 == some (.fin false 1838940555294243081349327055744480 4106)
#guard okV false 10999999 (-7) false 1 5
#guard okV false 1095920701973170944287087312848086 (-33) false 15361678636817250405492292 (-20)
#guard okV false 1098000000000000000000000123456789 (-33) true 150000123456789 (-9)
#guard okV false 1099 (-3) false 12772 0

/-! ### bases next to 1 with huge exponents, thresholds, negative bases, both nearest modes -/
#guard okV false (10 ^ 33 + 1) (-33) false (14 * 10 ^ 32) 4          -- (1 + 10^-33)^(1.4·10^37)
#guard okV false (10 ^ 34 - 1) (-34) true (14 * 10 ^ 32) 5           -- (1 − 10^-34)^(−1.4·10^38)
#guard okV false 999 (-3) false 14012345 0
#guard okV true 3 0 true 5 0 1                                        -- (−3)^(−5), nearest-away
#guard okV false 2 0 false 5 (-1)
#guard okV false 7 0 false 7231 0                                     -- next to the overflow threshold
#guard okV false 7 0 true 7308 0                                      -- subnormal result

end PowAccEval
