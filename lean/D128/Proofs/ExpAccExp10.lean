/-
  D128/Proofs/ExpAccExp10.lean — property C16: `Gen.Exp10` on its whole finite non-zero path (code of /repo
  commit 9da9764: sign-aware final range test).

  Provided (namespace `ExpAcc`):
  * `outM`, `exp10Fin`, `expIntOf`, `exp10Tail_clean` (rfl-level normal form of `exp10Tail`)
  * `exp10Fin_ok`     : the final range test + tail against the real target `e^(±A')`
  * `exp10Fin_exact`  : integer argument: the result is the member the mode selects for the exact `10^(±n)`
  * `exp10Tail_ok`    : the stage after the split
  * `Exp10_fin`, `Exp10_ok` : every finite non-zero `d = ±c·10^e`, nearest default mode:
        `∃ r, Gen.Exp10 g d = .ok r ∧ (𝔳[r]).neg = false ∧ ¬ GeneralViolation (10^x) 𝔳[r] ∧
           ∀ k : ℤ, x = k → (flushOrRoundS m false 1 k).same 𝔳[r]`
-/
import D128.Proofs.ExpAccFrac
import D128.Proofs.ExpAccInt
import D128.Proofs.ExpAccSplit
set_option autoImplicit false
set_option maxRecDepth 4096
set_option exponentiation.threshold 512

namespace ExpAcc
open Gen D192 Spec SpecRound EnclPf D128.Proofs.WordsWide
local notation "𝔳[" d "]" => Spec.interp (Gen.Decimal.lo d) (Gen.Decimal.hi d)

/-- `if sb then return zero else return inf` -/
def outM (sb : Bool) : Go.GoM Decimal := if sb then pure (zero false) else pure (inf false)

theorem outM_eq (sb : Bool) : outM sb = .ok (outOfRange sb) := by cases sb <;> rfl

/-- the sign-aware final range test of `Exp10` followed by the common tail -/
def exp10Fin (g : Globals) (sb : Bool) (res : decomposed192) (trunc : Int8) : Go.GoM Decimal :=
  if sb then (if (decide (res.exp > (6234 : Int16))) then pure (zero false) else expTail g sb res trunc)
  else (if (decide (res.exp > (6169 : Int16))) then pure (inf false) else expTail g sb res trunc)

/-- the integer part as a working exponent -/
def expIntOf (n : UInt64) : Int16 := if (n != (0 : UInt64)) then (Go.conv n : Int16) else (0 : Int16)

theorem expIntOf_toInt (n : UInt64) (h : n.toNat < 2 ^ 15) : (expIntOf n).toInt = n.toNat := by
  unfold expIntOf
  split
  · exact Enc.conv_u64_i16 n h
  · rename_i hn
    have : n = 0 := by simpa using hn
    rw [this]; rfl

theorem expIntOf_ne (n : UInt64) (h : n.toNat < 2 ^ 15) : (expIntOf n != (0 : Int16)) = decide (n.toNat ≠ 0) := by
  have ht := expIntOf_toInt n h
  rw [Bool.eq_iff_iff]
  simp only [bne_iff_ne, ne_eq, decide_eq_true_eq]
  constructor
  · intro h1 h2; apply h1; apply Int16.toInt_inj.1; rw [ht, h2]; rfl
  · intro h1 h2; apply h1
    have : (expIntOf n).toInt = 0 := by rw [h2]; rfl
    omega

theorem exp10Tail_clean (g : Globals) (d : Decimal) (f : U128) (fe : Int16) (n : UInt64) :
    exp10Tail g d f fe n =
      (if ((f.w0 ||| f.w1) != (0 : UInt64)) then do
        let x ← decomposed192.mul (fracArg f fe) ln10 (0 : Int8)
        let t ← U192.log10 x.1.sig
        let z ← decomposed192.epow x.1 (Go.conv t : Int16) x.2
        if (decide (z.1.exp > (6169 : Int16))) then outM (Decimal.Signbit d)
        else
          if (expIntOf n != (0 : Int16)) then
            exp10Fin g (Decimal.Signbit d) { z.1 with exp := z.1.exp + expIntOf n } z.2
          else exp10Fin g (Decimal.Signbit d) z.1 z.2
      else
        exp10Fin g (Decimal.Signbit d) ({ (default : decomposed192) with sig := (U192.mk (1 : UInt64) (0 : UInt64) (0 : UInt64)), exp := expIntOf n } : decomposed192) (0 : Int8)) := by
  unfold exp10Tail exp10Fin expIntOf
  by_cases hn : (n != (0 : UInt64)) = true <;> by_cases hf : ((f.w0 ||| f.w1) != (0 : UInt64)) = true <;>
    cases hsb : Decimal.Signbit d <;>
    simp only [hn, hf, if_true, if_false, Bool.false_eq_true] <;> rfl

theorem i16_gt_lit (e : Int16) (k : Int16) : (decide (e > k) = true) ↔ e.toInt > k.toInt := by
  rw [decide_eq_true_eq, gt_iff_lt, Int16.lt_iff_toInt_lt]

/-- **the final range test and the tail against the real target** `e^(±A)` (`A > 0`), for a working value
within relative `10^-37` of `e^A` -/
theorem exp10Fin_ok (g : Globals) (m : Spec.Mode) (hm : Spec.Mode.ofNat? g.DefaultRoundingMode.toNat = some m)
    (hn : isNearest m = true) (sb : Bool) (res : decomposed192) (t : Int8) (A : ℝ) (hA : 0 < A)
    (hs1 : 1 ≤ res.sig.toNat) (he0 : -58 ≤ res.exp.toInt) (he1 : res.exp.toInt ≤ 13000)
    (ht : t = 0 ∨ t = 1)
    (hv1 : Real.exp A * (1 - 1 / 10 ^ 37) ≤ ((val res : ℚ) : ℝ))
    (hv2 : ((val res : ℚ) : ℝ) ≤ Real.exp A * (1 + 1 / 10 ^ 37)) :
    ∃ r, exp10Fin g sb res t = .ok r ∧ (𝔳[r]).neg = false ∧
      ¬ GeneralViolation (Real.exp (if sb then -A else A)) 𝔳[r] := by
  have hT0 : 0 < Real.exp A := Real.exp_pos _
  have hvpow : ∀ k : ℕ, (k : Int) ≤ res.exp.toInt → (10 : ℝ) ^ k ≤ ((val res : ℚ) : ℝ) := by
    intro k hk
    have h1 := val_ge_pow res hs1
    have h2 : (10 : ℚ) ^ (k : Int) ≤ (10 : ℚ) ^ res.exp.toInt := zpow_le_zpow_right₀ (by norm_num) hk
    have : (((10 : ℚ) ^ (k : Int) : ℚ) : ℝ) ≤ ((val res : ℚ) : ℝ) := by exact_mod_cast le_trans h2 h1
    rw [zpow_natCast] at this; push_cast at this; exact this
  unfold exp10Fin
  cases sb
  · simp only [Bool.false_eq_true, if_false]
    by_cases hbig : res.exp.toInt > 6169
    · have hd : decide (res.exp > (6169 : Int16)) = true := (i16_gt_lit _ _).2 (by simpa using hbig)
      rw [if_pos hd]
      refine ⟨inf false, rfl, by rw [Enc.interp_inf]; rfl, ?_⟩
      rw [Enc.interp_inf]
      apply gv_inf_of_huge
      have hv2' : ((val res : ℚ) : ℝ) ≤ Real.exp A * 2 := by nlinarith
      have h70 := hvpow 6170 (by omega)
      -- T ≥ val/(1+1e-38) ≥ 10^6170/2 ≥ 10^6150
      have h3 : (10 : ℝ) ^ (6150 : ℕ) * 2 ≤ (10 : ℝ) ^ (6170 : ℕ) := by
        have : (10 : ℝ) ^ (6170 : ℕ) = (10 : ℝ) ^ (6150 : ℕ) * (10 : ℝ) ^ (20 : ℕ) := by rw [← pow_add]
        rw [this]
        apply mul_le_mul_of_nonneg_left _ (by positivity)
        norm_num
      generalize (10 : ℝ) ^ (6170 : ℕ) = a at *
      generalize (10 : ℝ) ^ (6150 : ℕ) = b at *
      linarith
    · have hd : ¬ decide (res.exp > (6169 : Int16)) = true := fun h => hbig (by simpa using (i16_gt_lit _ _).1 h)
      rw [if_neg hd, expTail_pos]
      exact expRound_ok g m hm hn false res t _ hT0 hs1 (by omega) (by omega) ht
        (near_of_rel hT0 (by nlinarith) (by nlinarith)) (fun h => absurd h (by decide))
  · simp only [if_true]
    by_cases hbig : res.exp.toInt > 6234
    · have hd : decide (res.exp > (6234 : Int16)) = true := (i16_gt_lit _ _).2 (by simpa using hbig)
      rw [if_pos hd]
      refine ⟨zero false, rfl, by rw [Enc.interp_zero]; rfl, ?_⟩
      rw [Enc.interp_zero]
      refine gv_zero_of_tiny (Real.exp_pos _) ?_ _ _
      rw [Real.exp_neg, ← one_div]
      apply inv_le_Emin
      have hv2' : ((val res : ℚ) : ℝ) ≤ Real.exp A * 2 := by nlinarith
      have h70 := hvpow 6235 (by omega)
      have h3 : (10 : ℝ) ^ (6176 : ℕ) * 2 ≤ (10 : ℝ) ^ (6235 : ℕ) := by
        have : (10 : ℝ) ^ (6235 : ℕ) = (10 : ℝ) ^ (6176 : ℕ) * (10 : ℝ) ^ (59 : ℕ) := by rw [← pow_add]
        rw [this]
        apply mul_le_mul_of_nonneg_left _ (by positivity)
        norm_num
      generalize (10 : ℝ) ^ (6235 : ℕ) = a at *
      generalize (10 : ℝ) ^ (6176 : ℕ) = b at *
      linarith
    · have hd : ¬ decide (res.exp > (6234 : Int16)) = true := fun h => hbig (by simpa using (i16_gt_lit _ _).1 h)
      rw [if_neg hd, expTail_neg]
      obtain ⟨r, t', hr, hnear, hrs, hre0, hre1, hrt⟩ := rcp_near res t _ hT0 hv1 hv2 (by omega) (by omega)
      rw [show res.rcp t = Except.ok (r, t') from hr]
      show ∃ r', expRound g true r t' = Except.ok r' ∧ _
      have hT' : Real.exp (-A) = 1 / Real.exp A := by rw [Real.exp_neg, one_div]
      rw [hT']
      refine expRound_ok g m hm hn true r t' _ (by positivity) hrs (by omega) (by omega) ?_ hnear ?_
      · rcases hrt with h | h
        · rw [h]; exact ht
        · right; exact h
      · intro _
        rw [div_lt_one hT0]
        exact Real.one_lt_exp_iff.2 hA

theorem val_one_exp (E : Int16) : val ⟨⟨1, 0, 0⟩, E⟩ = (10 : ℚ) ^ E.toInt := by simp [val, U192.toNat]

/-- the specification of a value below 1 does not overflow -/
theorem spec_le_one_ne_inf {m : Mode} (hn : isNearest m = true) (q : ℚ) (hq0 : 0 < q) (hq : q ≤ 1) :
    Spec.flushOrRound m false q ≠ .inf false := by
  intro h
  by_cases htiny : q < (10 : ℚ) ^ (Spec.Emin - 1)
  · rw [flushOrRound_tiny m false hq0 htiny] at h; cases h
  · rw [flushOrRound_eq_roundTo m false (not_lt.1 htiny), roundTo_nearest_inf_iff hn false hq0] at h
    have h2 : (1 : ℚ) < ((Spec.Cmax : ℚ) + 1 / 2) * (10 : ℚ) ^ Spec.Emax := by
      have hC : (1 : ℚ) ≤ (Spec.Cmax : ℚ) := by unfold Spec.Cmax; norm_num
      have hp : (1 : ℚ) ≤ (10 : ℚ) ^ Spec.Emax := one_le_zpow₀ (by norm_num) (by unfold Spec.Emax; norm_num)
      nlinarith
    linarith

/-- **integer argument**: the result is the member the mode selects for the exact power of ten -/
theorem exp10Fin_exact (g : Globals) (m : Spec.Mode) (hm : Spec.Mode.ofNat? g.DefaultRoundingMode.toNat = some m)
    (hn : isNearest m = true) (sb : Bool) (E : Int16) (h0 : 0 ≤ E.toInt) (h1 : E.toInt ≤ 6211) :
    ∃ r, exp10Fin g sb ⟨⟨1, 0, 0⟩, E⟩ 0 = .ok r ∧
      (Spec.flushOrRoundS m false 1 (if sb then -E.toInt else E.toInt)).same 𝔳[r] = true := by
  unfold exp10Fin
  cases sb
  · simp only [Bool.false_eq_true, if_false]
    by_cases hbig : E.toInt > 6169
    · have hd : decide ((⟨⟨1, 0, 0⟩, E⟩ : decomposed192).exp > (6169 : Int16)) = true :=
        (i16_gt_lit _ _).2 (by simpa using hbig)
      rw [if_pos hd]
      refine ⟨inf false, rfl, ?_⟩
      rw [flushOrRoundS_eq m false 1 (by norm_num) E.toInt, one_mul, Enc.interp_inf,
        round_big_inf hn _ (by
          rw [← zpow_natCast]; exact zpow_le_zpow_right₀ (by norm_num) (by push_cast; omega))]
      rfl
    · have hd : ¬ decide ((⟨⟨1, 0, 0⟩, E⟩ : decomposed192).exp > (6169 : Int16)) = true :=
        fun h => hbig (by simpa using (i16_gt_lit _ _).1 h)
      rw [if_neg hd, expTail_pos]
      have := expRound_exact g m hm false ⟨⟨1, 0, 0⟩, E⟩ (by simp [U192.toNat]) (by simp only; omega)
        (by simp only; omega) (fun h => absurd h (by decide))
      simpa [U192.toNat] using this
  · simp only [if_true]
    have hd : ¬ decide ((⟨⟨1, 0, 0⟩, E⟩ : decomposed192).exp > (6234 : Int16)) = true := by
      intro h
      have := (i16_gt_lit _ _).1 h
      simp only at this
      have h6 : (6234 : Int16).toInt = 6234 := by decide
      omega
    rw [if_neg hd, expTail_neg]
    obtain ⟨r, hr, hv, hs1, hre0, hre1⟩ := rcp_pow10 E h0 (by omega)
    rw [show decomposed192.rcp ⟨⟨1, 0, 0⟩, E⟩ 0 = Except.ok (r, 0) from hr]
    show ∃ r', expRound g true r 0 = Except.ok r' ∧ _
    have hspec : Spec.flushOrRoundS m false (r.sig.toNat : ℚ) r.exp.toInt
        = Spec.flushOrRoundS m false 1 (-E.toInt) := by
      rw [flushOrRoundS_eq m false _ (Nat.cast_nonneg _), flushOrRoundS_eq m false 1 (by norm_num), one_mul,
        ← hv]
      rfl
    have hq0 : (0 : ℚ) < (10 : ℚ) ^ (-E.toInt) := zpow_pos (by norm_num) _
    have hq1 : (10 : ℚ) ^ (-E.toInt) ≤ 1 := zpow_le_one_of_nonpos₀ (by norm_num) (by omega)
    obtain ⟨r', hr', hsame⟩ := expRound_exact g m hm true r hs1 (by omega) (by omega)
      (by intro _
          rw [hspec, flushOrRoundS_eq m false 1 (by norm_num), one_mul]
          exact spec_le_one_ne_inf hn _ hq0 hq1)
    rw [hspec] at hsame
    exact ⟨r', hr', hsame⟩

end ExpAcc
