/-
  D128/Proofs/TotalDiv192A.lean — building blocks for the correctness of `Gen.U192.div`:

  * `fix192_spec`     : the final compare/subtract fixes a candidate `c ≤ n/o ≤ c+1`
  * `ktest_iff`       : the two-word comparison `p1 > ur || (p1 == ur && p0 > x0)` in ℕ
  * `knuthCorr`, `knuthK_eq`, `knuthCorr_toNat` : the thrice-occurring "estimate + two corrections"
      fragment computes `DivNat.refine`
  * word projections of `U192` / `U256`, `lz_spec` (normalisation shift)
  * `pathA_spec`      : divisor of one word (`o.w2 = 0`, `o.w1 = 0`)
-/
import D128.Proofs.TotalDiv192Code
import D128.Proofs.TotalDiv192Nat
import D128.Proofs.WordsWideShift
import D128.Proofs.WordsWideMul
import D128.Proofs.Words128Div

set_option autoImplicit false
set_option maxRecDepth 4096

namespace D128.Proofs.Total
open D128.Proofs.WordsWide

/-! ## word projections -/

theorem U192.w0_toNat (n : U192) : n.w0.toNat = n.toNat % 2^64 := by
  have := U192.bounds n; simp only [U192.toNat]; omega

theorem U192.w1_toNat (n : U192) : n.w1.toNat = n.toNat / 2^64 % 2^64 := by
  have := U192.bounds n; simp only [U192.toNat]; omega

theorem U192.w2_toNat (n : U192) : n.w2.toNat = n.toNat / 2^128 := by
  have := U192.bounds n; simp only [U192.toNat]; omega

theorem U192.toNat_mk (a b c : UInt64) :
    (U192.mk a b c).toNat = a.toNat + b.toNat * 2^64 + c.toNat * 2^128 := rfl

theorem u64_eq_zero_iff (x : UInt64) : x = 0 ↔ x.toNat = 0 := by
  constructor
  · intro h; rw [h]; rfl
  · intro h; exact UInt64.toNat_inj.mp (by simpa using h)

theorem u64_sub_one (x : UInt64) (h : x.toNat ≠ 0) : (x - 1).toNat = x.toNat - 1 := by
  have h1' : (1 : UInt64).toNat = 1 := rfl
  rw [UInt64.toNat_sub_of_le _ _ (by rw [UInt64.le_iff_toNat_le, h1']; omega), h1']

/-! ## the final correction -/

theorem fix192_eq (n o p r : U192) :
    fix192 n o p r =
      if Gen.U192.cmp (Gen.U192.sub n p).1 o ≥ 0 then
        pure (Gen.U192.add64 r 1, (Gen.U192.sub (Gen.U192.sub n p).1 o).1)
      else pure (r, (Gen.U192.sub n p).1) := by
  simp only [fix192, decide_eq_true_eq]

/-- a candidate `c ∈ {q-1, q}` is fixed up by one compare-and-subtract. -/
theorem fix192_spec (n o p r : U192) (ho : o.toNat ≠ 0)
    (hp : p.toNat = (o.toNat * r.toNat) % 2^192)
    (h1 : r.toNat ≤ n.toNat / o.toNat) (h2 : n.toNat / o.toNat ≤ r.toNat + 1) :
    ∃ q rr, fix192 n o p r = .ok (q, rr)
      ∧ q.toNat = n.toNat / o.toNat ∧ rr.toNat = n.toNat % o.toNat := by
  rw [fix192_eq]
  have hn := U192.toNat_lt n
  have hopos : 0 < o.toNat := Nat.pos_of_ne_zero ho
  have hdm := Nat.div_add_mod n.toNat o.toNat
  have hR := Nat.mod_lt n.toNat hopos
  generalize hQ : n.toNat / o.toNat = Q at *
  generalize hRR : n.toNat % o.toNat = R at *
  have hQc : Q = r.toNat ∨ Q = r.toNat + 1 := by omega
  have hle : o.toNat * r.toNat ≤ n.toNat := by
    rcases hQc with h | h <;> subst h
    · omega
    · rw [Nat.mul_add, Nat.mul_one] at hdm; omega
  have hp' : p.toNat = o.toNat * r.toNat := by
    rw [hp, Nat.mod_eq_of_lt (by omega)]
  have hsub : (Gen.U192.sub n p).1.toNat = n.toNat - o.toNat * r.toNat := by
    rw [U192_sub_toNat_of_le _ _ (by rw [hp']; exact hle), hp']
  have hge := U192_cmp_ge_zero (Gen.U192.sub n p).1 o
  rw [hsub] at hge
  rcases hQc with h | h <;> subst h
  · rw [if_neg (fun h => absurd (hge.mp h) (by omega))]
    exact ⟨_, _, rfl, rfl, by rw [hsub]; omega⟩
  · rw [Nat.mul_add, Nat.mul_one] at hdm
    rw [if_pos (hge.mpr (by omega))]
    refine ⟨_, _, rfl, ?_, ?_⟩
    · rw [U192_add64_toNat, Nat.mod_eq_of_lt]
      · rfl
      · have : r.toNat + 1 ≤ o.toNat * (r.toNat + 1) := Nat.le_mul_of_pos_left _ hopos
        have h1' : (1 : UInt64).toNat = 1 := rfl
        rw [h1']
        rw [Nat.mul_add, Nat.mul_one] at this
        omega
    · rw [U192_sub_toNat_of_le, hsub]
      · omega
      · rw [hsub]; omega

/-! ## the two-word comparison and the digit correction -/

theorem ktest_iff (q u0 ur x0 : UInt64) :
    ((decide ((Go.bits.Mul64 q u0).1 > ur)) ||
      (((Go.bits.Mul64 q u0).1 == ur) && (decide ((Go.bits.Mul64 q u0).2 > x0)))) = true
    ↔ q.toNat * u0.toNat > ur.toNat * 2^64 + x0.toNat := by
  obtain ⟨hi, lo, e, h⟩ := mul64_spec q u0
  rw [e]
  have := lo.toNat_lt; have := x0.toNat_lt
  simp only [Bool.or_eq_true, Bool.and_eq_true, decide_eq_true_eq, beq_iff_eq, gt_iff_lt,
    UInt64.lt_iff_toNat_lt, ← UInt64.toNat_inj]
  omega

/-- the corrected quotient digit (the `knuthK` fragment with the identity continuation). -/
def knuthCorr (qh ur u1 u0 x0 : UInt64) : UInt64 := knuthK qh ur u1 u0 x0 id

theorem knuthK_eq {α : Type} (qh ur u1 u0 x0 : UInt64) (k : UInt64 → α) :
    knuthK qh ur u1 u0 x0 k = k (knuthCorr qh ur u1 u0 x0) := by
  simp only [knuthCorr, knuthK]
  split_ifs <;> rfl

theorem knuthCorr_toNat (qh ur u1 u0 x0 : UInt64) :
    (knuthCorr qh ur u1 u0 x0).toNat
      = DivNat.refine u1.toNat u0.toNat x0.toNat qh.toNat ur.toNat := by
  simp only [knuthCorr, knuthK, DivNat.refine, id]
  obtain ⟨s, c, ea, hs, hc⟩ := add64_spec ur u1 0 (by simp)
  rw [ea]
  simp only [UInt64.toNat_zero, Nat.add_zero] at hs
  have hsl := s.toNat_lt
  by_cases t1 : qh.toNat * u0.toNat > ur.toNat * 2^64 + x0.toNat
  · rw [if_pos ((ktest_iff qh u0 ur x0).mpr t1), if_pos t1]
    have hq1 : qh.toNat ≠ 0 := by
      intro h; rw [h] at t1; simp at t1
    have hq1' := u64_sub_one qh hq1
    by_cases hcar : ur.toNat + u1.toNat < 2^64
    · have hc0 : c = 0 := (u64_eq_zero_iff c).mpr (by omega)
      have hs' : s.toNat = ur.toNat + u1.toNat := by omega
      rw [if_pos (by simpa using hc0), if_pos hcar]
      by_cases t2 : (qh.toNat - 1) * u0.toNat > (ur.toNat + u1.toNat) * 2^64 + x0.toNat
      · have t2' : (qh - 1).toNat * u0.toNat > s.toNat * 2^64 + x0.toNat := by
          rw [hq1', hs']; exact t2
        rw [if_pos ((ktest_iff (qh - 1) u0 s x0).mpr t2'), if_pos t2]
        have hq2 : (qh - 1).toNat ≠ 0 := by
          intro h; rw [h] at t2'; simp at t2'
        rw [u64_sub_one _ hq2, hq1']; omega
      · have t2' : ¬ (qh - 1).toNat * u0.toNat > s.toNat * 2^64 + x0.toNat := by
          rw [hq1', hs']; exact t2
        rw [if_neg (fun h => t2' ((ktest_iff (qh - 1) u0 s x0).mp h)), if_neg t2, hq1']
    · have hc1 : ¬ c = 0 := by
        intro h; rw [h] at hs; simp at hs; omega
      rw [if_neg (by simpa using hc1), if_neg hcar, hq1']
  · rw [if_neg (fun h => t1 ((ktest_iff qh u0 ur x0).mp h)), if_neg t1]

/-! ## path A: one-word divisor -/

theorem pathA_eq (n o : U192) : pathA n o =
    (if n.w2.toNat < o.w0.toNat then do
          let t_1 ← Go.bits.Div64 n.w2 n.w1 o.w0
          let t_4 ← Go.bits.Div64 t_1.2 n.w0 o.w0
          pure (({ w0 := t_4.1, w1 := t_1.1, w2 := 0 } : U192), ({ w0 := t_4.2, w1 := 0, w2 := 0 } : U192))
        else do
          let t_7 ← Go.bits.Div64 0 n.w2 o.w0
          let t_10 ← Go.bits.Div64 t_7.2 n.w1 o.w0
          let t_13 ← Go.bits.Div64 t_10.2 n.w0 o.w0
          pure ({ w0 := t_13.1, w1 := t_10.1, w2 := t_7.1 }, { w0 := t_13.2, w1 := 0, w2 := 0 })) := by
  simp only [pathA, decide_eq_true_eq, UInt64.lt_iff_toNat_lt]

/-- schoolbook division of a three-word number by one word, top word already reduced. -/
theorem Nat.div3_step (w0 w1 w2 d : Nat) :
    (w0 + w1 * 2^64 + w2 * 2^128) / d
      = (((w2 * 2^64 + w1) % d) * 2^64 + w0) / d + ((w2 * 2^64 + w1) / d) * 2^64
    ∧ (w0 + w1 * 2^64 + w2 * 2^128) % d = (((w2 * 2^64 + w1) % d) * 2^64 + w0) % d := by
  have e : w0 + w1 * 2^64 + w2 * 2^128 = w0 + (w2 * 2^64 + w1) * 2^64 := by ring
  rw [e]
  exact Nat.two_step_div _ _ _ _

theorem pathA_spec (n o : U192) (h2 : o.w2 = 0) (h1 : o.w1 = 0) (ho : o.toNat ≠ 0) :
    ∃ q r, pathA n o = .ok (q, r) ∧ q.toNat = n.toNat / o.toNat ∧ r.toNat = n.toNat % o.toNat := by
  rw [pathA_eq]
  have hon : o.toNat = o.w0.toNat := by simp [U192.toNat, h1, h2]
  rw [hon] at ho ⊢
  have hd : 0 < o.w0.toNat := Nat.pos_of_ne_zero ho
  generalize o.w0 = d at *
  have hb := U192.bounds n
  have hnn : n.toNat = n.w0.toNat + n.w1.toNat * 2^64 + n.w2.toNat * 2^128 := rfl
  by_cases h : n.w2.toNat < d.toNat
  · obtain ⟨q1, r1, e1, hq1, hr1⟩ := Go.bits.Div64_ok n.w2 n.w1 d h
    obtain ⟨q0, r0, e0, hq0, hr0⟩ :=
      Go.bits.Div64_ok r1 n.w0 d (by rw [hr1]; exact Nat.mod_lt _ hd)
    rw [if_pos h, e1]
    simp only [bind, Except.bind]
    rw [e0]
    have key := Nat.div3_step n.w0.toNat n.w1.toNat n.w2.toNat d.toNat
    refine ⟨_, _, rfl, ?_, ?_⟩
    · simp only [U192.toNat_mk, UInt64.toNat_zero, hq0, hr1, hq1]
      rw [hnn, key.1]; omega
    · simp only [U192.toNat_mk, UInt64.toNat_zero, hr0, hr1]
      rw [hnn, key.2]; omega
  · obtain ⟨q2, r2, e2, hq2, hr2⟩ := Go.bits.Div64_ok 0 n.w2 d (by simpa using hd)
    simp only [UInt64.toNat_zero, Nat.zero_mul, Nat.zero_add] at hq2 hr2
    obtain ⟨q1, r1, e1, hq1, hr1⟩ :=
      Go.bits.Div64_ok r2 n.w1 d (by rw [hr2]; exact Nat.mod_lt _ hd)
    obtain ⟨q0, r0, e0, hq0, hr0⟩ :=
      Go.bits.Div64_ok r1 n.w0 d (by rw [hr1]; exact Nat.mod_lt _ hd)
    rw [if_neg h, e2]
    simp only [bind, Except.bind]
    rw [e1]
    simp only []
    rw [e0]
    have key := Nat.div3_step n.w0.toNat n.w1.toNat n.w2.toNat d.toNat
    have key2 := Nat.two_step_div n.w1.toNat n.w2.toNat d.toNat (2^64)
    rw [Nat.add_comm] at key2
    refine ⟨_, _, rfl, ?_, ?_⟩
    · simp only [U192.toNat_mk, hq0, hr1, hq1, hr2, hq2]
      rw [hnn, key.1, key2.2, key2.1]; omega
    · simp only [U192.toNat_mk, UInt64.toNat_zero, hr0, hr1, hr2]
      rw [hnn, key.2, key2.2]; omega
end D128.Proofs.Total
