/-
  D128/Proofs/D192OneAdd.lean — contract of `decomposed192.add1` (Go: /repo/decomposed.go), for ALL inputs.

  `add1 d trunc` computes `d + 1` in the 57-digit working format.  Paths (in program order):
    Z  d.sig = 0                → ({1, exp 0}, trunc)                      exact
    A  d.exp < -116             → ({1, exp 0}, 1)                          d dropped  (0 < d < 2^192·10^-117)
    B  d.exp > 58               → (d, 1)                                   the 1 is dropped (1 < ulp d)
    C  -116 ≤ d.exp ≤ 0         digits of d below 10^-57 are dropped; if nothing is left
                                → ({1, exp 0}, 1)   ("early", 0 < d < 10^-57);
                                otherwise sig/10^k + 10^(-exp-k), one more digit dropped if that
                                overflows 192 bits:  result = (sig + 10^-exp) / 10^K  at exponent exp+K
    D  0 < d.exp ≤ 58           d is scaled up (×10^4, ×10 while it fits); if the exponent reaches 0 the
                                result is sig·10^j + 1 (exact, flag passed through), else (d scaled, 1).
  int16 wrap cannot occur: the loops are only entered for -116 ≤ d.exp ≤ 58.

  * `Add1Post d t x`  : the ℕ/ℤ-level description of all five paths
  * `add1_triple`     : Hoare triple (no panic — in particular the table index `-d.exp` is in `0..57` —
                        and termination) with post-condition `Add1Post`
  * `add1_spec`       : `∃ r t', add1 d t = .ok (r, t') ∧ Add1Post d t (r, t')`
-/
import D128.Proofs.D192OneBase

set_option autoImplicit false
set_option maxRecDepth 4096
set_option exponentiation.threshold 512
open Std.Do D128.Proofs.WordsWide
set_option mvcgen.warning false

namespace D192

/-- path C of `add1`, main exit: a truncation state on `P = d.sig + 10^-d.exp` (so that
`P·10^d.exp = d + 1`), result exponent in `[-57, 1]`, result at least 1. -/
def DownMain (d : Gen.decomposed192) (t : Int8) (x : Gen.decomposed192 × Int8) : Prop :=
  Tr (d.sig.toNat + 10 ^ (-d.exp.toInt).toNat) t d.exp x.2 x.1.sig.toNat x.1.exp ∧
    -57 ≤ x.1.exp.toInt ∧ x.1.exp.toInt ≤ 1 ∧ 10 ^ (-x.1.exp.toInt).toNat ≤ x.1.sig.toNat

/-- path D of `add1` (see the file header). -/
def UpMain (d : Gen.decomposed192) (t : Int8) (x : Gen.decomposed192 × Int8) : Prop :=
  ∃ j : Nat, d.sig.toNat * 10 ^ j < 2 ^ 192 ∧ x.1.exp.toInt = d.exp.toInt - j ∧ 0 ≤ x.1.exp.toInt ∧
    (x.1.exp.toInt ≠ 0 → x.1.sig.toNat = d.sig.toNat * 10 ^ j ∧ x.2 = 1 ∧ upLo ≤ x.1.sig.toNat) ∧
    (x.1.exp.toInt = 0 → x.1.sig.toNat = d.sig.toNat * 10 ^ j + 1 ∧ x.2 = t)

/-- complete ℕ/ℤ-level description of `add1 d t = x`. -/
def Add1Post (d : Gen.decomposed192) (t : Int8) (x : Gen.decomposed192 × Int8) : Prop :=
  (d.sig.toNat = 0 ∧ x = (one, t)) ∨
  (0 < d.sig.toNat ∧ d.exp.toInt < -116 ∧ x = (one, 1)) ∨
  (0 < d.sig.toNat ∧ 58 < d.exp.toInt ∧ x = (d, 1)) ∨
  (0 < d.sig.toNat ∧ -116 ≤ d.exp.toInt ∧ d.exp.toInt ≤ 0 ∧
    (Early (one, (1 : Int8)) d.sig.toNat d.exp x ∨ DownMain d t x)) ∨
  (0 < d.sig.toNat ∧ 0 < d.exp.toInt ∧ d.exp.toInt ≤ 58 ∧ UpMain d t x)

/-- the digit-dropping state read on `P = sig + 10^(-e0)` (so that `P·10^e0 = d + 1`). -/
theorem down_tr {sig : Nat} {e0 : Int16} {t tr : Int8} {cur : Nat} {e : Int16}
    (hlo : -116 ≤ e0.toInt) (hhi : e0.toInt ≤ 0)
    (h : Dn sig e0 t (-57) tr cur e) (he : -57 ≤ e.toInt) :
    Tr (sig + 10 ^ (-e0.toInt).toNat) t e0 tr (cur + 10 ^ (-e.toInt).toNat) e ∧ e.toInt ≤ 0 := by
  obtain ⟨k, hc, hee, ht, hk, hpos⟩ := h
  have he0 : e.toInt ≤ 0 := by rcases hk with h | h <;> omega
  have hsplit : (-e0.toInt).toNat = (-e.toInt).toNat + k := by omega
  refine ⟨⟨k, ?_, ?_, ?_, ?_⟩, he0⟩
  · rw [hsplit, Nat.pow_add, Nat.add_mul_div_right _ _ (Nat.pow_pos (by norm_num)), hc]
  · apply Int16.toInt_inj.mp
    have hkk : (Int16.ofNat k).toInt = k := i16_ofNat_toInt k (by omega)
    rw [Int16.toInt_add_of] <;> rw [hkk] <;> omega
  · rw [hsplit, Nat.pow_add, Nat.add_mul_mod_self_right]; exact ht
  · rcases hk with h | h
    · exact Or.inl h
    · right
      have : (-e.toInt).toNat = 57 := by omega
      rw [this]
      have : 2 ^ 192 / 10 ≤ 10 ^ 57 := by norm_num
      omega

theorem U256.w3_zero_of_lt (p : U256) (h : p.toNat < 2 ^ 192) : p.w3 = 0 := by
  rw [u64_eq_zero_iff]
  simp only [U256.toNat] at h
  omega

theorem add1_down_nc (d : Gen.decomposed192) (t tr : Int8) (cs pw : U192) (e : Int16)
    (hs : d.sig.w0 = 0 → d.sig.w1 = 0 → ¬ d.sig.w2 = 0) (hlo : -116 ≤ d.exp) (hhi : d.exp ≤ 0)
    (hinv : Dn d.sig.toNat d.exp t (-57) tr cs.toNat e ∧ -57 ≤ e)
    (hpw : pw.toNat = 10 ^ (-e.toInt).toNat) (hw3 : (Gen.U192.add cs pw).w3 = 0) :
    Add1Post d t (⟨⟨(Gen.U192.add cs pw).w0, (Gen.U192.add cs pw).w1, (Gen.U192.add cs pw).w2⟩, e⟩, tr) := by
  have hlo' : -116 ≤ d.exp.toInt := by have := i16_le hlo; simpa using this
  have hhi' : d.exp.toInt ≤ 0 := by have := i16_le hhi; simpa using this
  have he : -57 ≤ e.toInt := by have := i16_le hinv.2; simpa using this
  obtain ⟨htr, he0⟩ := down_tr hlo' hhi' hinv.1 he
  have hsum : (U192.mk (Gen.U192.add cs pw).w0 (Gen.U192.add cs pw).w1 (Gen.U192.add cs pw).w2).toNat
      = cs.toNat + 10 ^ (-e.toInt).toNat := by
    rw [U256.toNat_low3 _ hw3, U192_add_toNat, hpw]
  refine Or.inr (Or.inr (Or.inr (Or.inl ⟨sig_pos hs, hlo', hhi', Or.inr ⟨?_, he, by show e.toInt ≤ 1; omega, ?_⟩⟩)))
  · show Tr _ t d.exp tr (U192.mk _ _ _).toNat e
    rw [hsum]; exact htr
  · show 10 ^ (-e.toInt).toNat ≤ (U192.mk _ _ _).toNat
    rw [hsum]; omega

theorem add1_down_ov (d : Gen.decomposed192) (t tr f : Int8) (cs pw : U192) (e : Int16)
    (q : U256) (r : UInt64)
    (hs : d.sig.w0 = 0 → d.sig.w1 = 0 → ¬ d.sig.w2 = 0) (hlo : -116 ≤ d.exp) (hhi : d.exp ≤ 0)
    (hinv : Dn d.sig.toNat d.exp t (-57) tr cs.toNat e ∧ -57 ≤ e)
    (hpw : pw.toNat = 10 ^ (-e.toInt).toNat)
    (hdiv : q.toNat = (Gen.U192.add cs pw).toNat / 10 ∧ r.toNat = (Gen.U192.add cs pw).toNat % 10)
    (hw3 : ¬ (Gen.U192.add cs pw).w3 = 0) (hf : f = if r.toNat = 0 then tr else 1) :
    Add1Post d t (⟨⟨q.w0, q.w1, q.w2⟩, e + 1⟩, f) := by
  have hlo' : -116 ≤ d.exp.toInt := by have := i16_le hlo; simpa using this
  have hhi' : d.exp.toInt ≤ 0 := by have := i16_le hhi; simpa using this
  have he : -57 ≤ e.toInt := by have := i16_le hinv.2; simpa using this
  obtain ⟨htr, he0⟩ := down_tr hlo' hhi' hinv.1 he
  have hge : 2 ^ 192 * 10 ^ (1 - 1) ≤ (Gen.U192.add cs pw).toNat :=
    U256.ge_of_w3 _ (by
      rw [UInt64.lt_iff_toNat_lt]; simp
      exact Nat.pos_of_ne_zero (fun h => hw3 ((u64_eq_zero_iff _).mpr h)))
  have hsum : (Gen.U192.add cs pw).toNat = cs.toNat + 10 ^ (-e.toInt).toNat := by
    rw [U192_add_toNat, hpw]
  have hpwlt : pw.toNat < 2 ^ 192 := U192.toNat_lt pw
  have hcslt : cs.toNat < 2 ^ 192 := U192.toNat_lt cs
  have hq3 : q.w3 = 0 := U256.w3_zero_of_lt q (by rw [hdiv.1, U192_add_toNat]; omega)
  have hqn : (U192.mk q.w0 q.w1 q.w2).toNat = (cs.toNat + 10 ^ (-e.toInt).toNat) / 10 := by
    rw [U256.toNat_low3 _ hq3, hdiv.1, hsum]
  have hstep := Tr.step 1 (by norm_num) htr (by rw [← hsum]; exact hge) q.toNat r.toNat
    (by rw [hdiv.1, hsum]; simp) (by rw [hdiv.2, hsum]; simp)
  have hadd : (e + 1).toInt = e.toInt + 1 := by
    rw [Int16.toInt_add_of] <;> simp <;> omega
  refine Or.inr (Or.inr (Or.inr (Or.inl ⟨sig_pos hs, hlo', hhi', Or.inr ⟨?_, ?_, ?_, ?_⟩⟩)))
  · show Tr _ t d.exp f (U192.mk _ _ _).toNat (e + 1)
    rw [hqn, hf]
    rw [hdiv.1, hsum] at hstep
    exact hstep
  · show -57 ≤ (e + 1).toInt
    rw [hadd]; omega
  · show (e + 1).toInt ≤ 1
    rw [hadd]; omega
  · show 10 ^ (-(e + 1).toInt).toNat ≤ (U192.mk _ _ _).toNat
    rw [hqn, hadd, ← hsum]
    have h1 : 10 ^ (-(e.toInt + 1)).toNat ≤ 10 ^ 56 := Nat.pow_le_pow_right (by norm_num) (by omega)
    have h2 : 10 ^ 56 ≤ 2 ^ 192 / 10 := by norm_num
    have h3 : 2 ^ 192 / 10 ≤ (Gen.U192.add cs pw).toNat / 10 := Nat.div_le_div_right (by simpa using hge)
    omega

theorem add1_up_ret (d : Gen.decomposed192) (t : Int8) (b : Gen.decomposed192)
    (hs : d.sig.w0 = 0 → d.sig.w1 = 0 → ¬ d.sig.w2 = 0) (hlo : 0 < d.exp) (hhi : d.exp ≤ 58)
    (hinv : UpX d.sig.toNat d.exp b) (hne : ¬ b.exp = 0) : Add1Post d t (b, 1) := by
  have hlo' : 0 < d.exp.toInt := by have := i16_lt hlo; simpa using this
  have hhi' : d.exp.toInt ≤ 58 := by have := i16_le hhi; simpa using this
  obtain ⟨⟨j, hc, he, h0⟩, hx⟩ := hinv
  have hne' : b.exp.toInt ≠ 0 := fun h => hne (Int16.toInt_inj.mp (by simpa using h))
  refine Or.inr (Or.inr (Or.inr (Or.inr ⟨sig_pos hs, hlo', hhi', j, ?_, he, h0, ?_, ?_⟩)))
  · rw [← hc]; exact U192.toNat_lt _
  · intro _; exact ⟨hc, rfl, hx hne⟩
  · intro h; exact absurd h hne'

theorem up_no_overflow {sig : Nat} {e0 : Int16} (b : Gen.decomposed192) (hlo : 0 < e0)
    (hinv : UpX sig e0 b) (he : b.exp = 0) :
    (Gen.U192.add b.sig ⟨1, 0, 0⟩).w3 = 0 := by
  have hlo' : 0 < e0.toInt := by have := i16_lt hlo; simpa using this
  obtain ⟨⟨j, hc, hej, h0⟩, _⟩ := hinv
  apply U256.w3_zero_of_lt
  rw [U192_add_toNat]
  have h1 : (U192.mk 1 0 0).toNat = 1 := by simp [U192.toNat]
  rw [h1]
  have hj : 0 < j := by rw [he] at hej; simp at hej; omega
  have hdvd : b.sig.toNat % 10 = 0 := by
    rw [hc]
    obtain ⟨j', rfl⟩ : ∃ j', j = j' + 1 := ⟨j - 1, by omega⟩
    rw [Nat.pow_succ, ← Nat.mul_assoc]; exact Nat.mul_mod_left _ _
  have := U192.toNat_lt b.sig
  omega

theorem add1_up_fin (d : Gen.decomposed192) (t : Int8) (b : Gen.decomposed192)
    (hs : d.sig.w0 = 0 → d.sig.w1 = 0 → ¬ d.sig.w2 = 0) (hlo : 0 < d.exp) (hhi : d.exp ≤ 58)
    (hinv : UpX d.sig.toNat d.exp b) (he : b.exp = 0) :
    Add1Post d t (⟨⟨(Gen.U192.add b.sig ⟨1, 0, 0⟩).w0, (Gen.U192.add b.sig ⟨1, 0, 0⟩).w1,
      (Gen.U192.add b.sig ⟨1, 0, 0⟩).w2⟩, b.exp⟩, t) := by
  have hw3 := up_no_overflow b hlo hinv he
  have hlo' : 0 < d.exp.toInt := by have := i16_lt hlo; simpa using this
  have hhi' : d.exp.toInt ≤ 58 := by have := i16_le hhi; simpa using this
  obtain ⟨⟨j, hc, hej, h0⟩, hx⟩ := hinv
  have he' : b.exp.toInt = 0 := by rw [he]; rfl
  have h1 : (U192.mk 1 0 0).toNat = 1 := by simp [U192.toNat]
  refine Or.inr (Or.inr (Or.inr (Or.inr ⟨sig_pos hs, hlo', hhi', j, ?_, hej, h0, ?_, ?_⟩)))
  · rw [← hc]; exact U192.toNat_lt _
  · intro h; exact absurd he' h
  · intro _
    refine ⟨?_, rfl⟩
    show (U192.mk _ _ _).toNat = _
    rw [U256.toNat_low3 _ hw3, U192_add_toNat, h1, hc]

theorem add1_triple (d : Gen.decomposed192) (t : Int8) :
    ⦃⌜True⌝⦄ Gen.decomposed192.add1 d t
    ⦃⇓ x => ⌜Add1Post d t x⌝⦄ := by
  mvcgen [Gen.decomposed192.add1]
  case inv1 | inv3 => exact fun st => ⟨st.2.1.sig.toNat⟩
  case inv2 => exact ⇓ x => match x with
    | .inl st => ⌜st.1 = none ∧ Dn d.sig.toNat d.exp t (-58) st.2.2 st.2.1.sig.toNat st.2.1.exp⌝
    | .inr st => ⌜match st.1 with
        | none => Dn d.sig.toNat d.exp t (-58) st.2.2 st.2.1.sig.toNat st.2.1.exp ∧ -62 ≤ st.2.1.exp
        | some x => Early (one, (1 : Int8)) d.sig.toNat d.exp x⌝
  case inv4 => exact ⇓ x => match x with
    | .inl st => ⌜st.1 = none ∧ Dn d.sig.toNat d.exp t (-57) st.2.2 st.2.1.sig.toNat st.2.1.exp⌝
    | .inr st => ⌜match st.1 with
        | none => Dn d.sig.toNat d.exp t (-57) st.2.2 st.2.1.sig.toNat st.2.1.exp ∧ -57 ≤ st.2.1.exp
        | some x => Early (one, (1 : Int8)) d.sig.toNat d.exp x⌝
  case inv5 | inv7 => exact fun st => ⟨upM st.exp⟩
  case inv6 => exact ⇓ x => match x with
    | .inl st => ⌜Up d.sig.toNat d.exp st.sig.toNat st.exp⌝
    | .inr st => ⌜Up d.sig.toNat d.exp st.sig.toNat st.exp⌝
  case inv8 => exact ⇓ x => match x with
    | .inl st => ⌜Up d.sig.toNat d.exp st.sig.toNat st.exp⌝
    | .inr st => ⌜UpX d.sig.toNat d.exp st⌝
  all_goals (simp +zetaDelta at *)
  case vc1 => rename_i h; exact Or.inl ⟨sig_zero h, rfl⟩
  case vc2 =>
    rename_i hs h
    exact Or.inr (Or.inl ⟨sig_pos hs, by have := i16_lt h; simpa using this, rfl⟩)
  case vc3 =>
    rename_i hs _ h
    exact Or.inr (Or.inr (Or.inl ⟨sig_pos hs, by have := i16_lt h; simpa using this, rfl⟩))
  case vc4 => rename_i hdiv _ _ _ _ hg hinv _ hq; exact Dn.early4 _ _ _ hdiv.1 hg hinv.2.2 hq
  case vc5 => rename_i hdiv _ hlo _ _ hg hinv hnz hq; exact Dn.vc_nz4 _ _ _ hlo hdiv hg ⟨hinv.1, hinv.2.2⟩ hnz hq
  case vc6 => rename_i hdiv _ _ _ _ hg hinv hz hq; exact (Dn.absurd' 4 _ _ _ hdiv hinv.2.2 hz hq).elim
  case vc7 => rename_i hdiv _ hlo _ _ hg hinv hz hq; exact Dn.vc_z4 _ _ _ hlo hdiv hg ⟨hinv.1, hinv.2.2⟩ hz hq
  case vc8 => rename_i hg hinv; exact ⟨hinv.2.2, hg⟩
  case vc9 => rename_i hs _ _ _; exact Dn.refl _ _ _ _ (sig_pos hs)
  case vc10 =>
    rename_i hx hm hs hlo _ hhi
    rw [hx] at hm
    exact Or.inr (Or.inr (Or.inr (Or.inl ⟨sig_pos hs, by have := i16_le hlo; simpa using this,
      by have := i16_le hhi; simpa using this, Or.inl hm⟩)))
  case vc11 => rename_i hdiv _ _ _ _ hg hinv _ hq; exact Dn.early1 _ _ _ hdiv.1 hg hinv.2.2 hq
  case vc12 => rename_i hdiv _ hlo _ _ hg hinv hnz hq; exact Dn.vc_nz1 _ _ _ hlo hdiv hg ⟨hinv.1, hinv.2.2⟩ hnz hq
  case vc13 => rename_i hdiv _ _ _ _ hg hinv hz hq; exact (Dn.absurd' 1 _ _ _ hdiv hinv.2.2 hz hq).elim
  case vc14 => rename_i hdiv _ hlo _ _ hg hinv hz hq; exact Dn.vc_z1 _ _ _ hlo hdiv hg ⟨hinv.1, hinv.2.2⟩ hz hq
  case vc15 => rename_i hg hinv; exact ⟨hinv.2.2, hg⟩
  case vc16 =>
    rename_i hx hm _ _ _ _
    rw [hx] at hm
    exact hm.1.weaken (by norm_num)
  case vc17 =>
    rename_i hx hm hs hlo _ hhi
    rw [hx] at hm
    exact Or.inr (Or.inr (Or.inr (Or.inl ⟨sig_pos hs, by have := i16_le hlo; simpa using this,
      by have := i16_le hhi; simpa using this, Or.inl hm⟩)))
  case vc18 =>
    rename_i hx hm _ hlo _ hhi
    rw [hx] at hm
    have h1 := (down_tr (by have := i16_le hlo; simpa using this)
      (by have := i16_le hhi; simpa using this) hm.1 (by have := i16_le hm.2; simpa using this)).2
    exact ⟨by have := i16_le hm.2; simpa using this, h1⟩
  case vc19 =>
    rename_i hx hm _ _ _ hpw _ _ _ _ hdiv hs hlo _ hhi hw3 hnz
    rw [hx] at hm
    exact add1_down_ov d t _ 1 _ _ _ _ _ hs hlo hhi hm hpw hdiv hw3
      (by rw [if_neg (fun h => hnz ((u64_eq_zero_iff _).mpr h))])
  case vc20 =>
    rename_i hx hm _ _ _ hpw _ _ _ _ hdiv hs hlo _ hhi hw3 hz
    rw [hx] at hm
    exact add1_down_ov d t _ _ _ _ _ _ _ hs hlo hhi hm hpw hdiv hw3
      (by rw [if_pos ((u64_eq_zero_iff _).mp hz)])
  case vc21 =>
    rename_i hx hm _ _ _ hpw hs hlo _ hhi hw3
    rw [hx] at hm
    exact add1_down_nc d t _ _ _ _ hs hlo hhi hm hpw hw3
  case vc24 => rename_i hg hinv; exact Up.vc4 _ hg hinv
  case vc25 => rename_i hinv; exact hinv.2
  case vc26 => rename_i h; exact Up.refl _ _ h
  case vc27 => rename_i hg hinv; exact Up.vc1 _ hg hinv
  case vc28 => rename_i hg hinv; exact Up.exit _ hg hinv.2
  case vc29 => rename_i h _ _ _ _; exact h
  case vc30 => rename_i hinv hs _ hhi hlo hne; exact add1_up_ret d t _ hs hlo hhi hinv hne
  case vc31 | vc32 =>
    rename_i hinv _ _ _ _ _ _ _ _ hlo he hw3 _
    exact (hw3 (up_no_overflow _ hlo hinv he)).elim
  case vc33 => rename_i hinv hs _ hhi hlo he _; exact add1_up_fin d t _ hs hlo hhi hinv he


/-- `decomposed192.add1`, all inputs: never panics, terminates, and the result is described by
`Add1Post`. -/
theorem add1_spec (d : Gen.decomposed192) (t : Int8) :
    ∃ r t', Gen.decomposed192.add1 d t = .ok (r, t') ∧ Add1Post d t (r, t') := by
  obtain ⟨⟨r, t'⟩, hr, h⟩ := ok_of_triple (add1_triple d t)
  exact ⟨r, t', hr, h⟩

end D192
