/-
  D128/Proofs/EmitSpec.lean — the bytes appended by `fmtE` / `fmtF` (`Emit.E.eBytes`, `Emit.F.fBytes`), read
  as characters, are the layouts `Spec.layoutE` / `Spec.layoutF` of the record's slice, with the sign.

  * `Emit.signS`, `Emit.signB_chars`        : sign prefix ('-', or '+' / ' ' on request)
  * `Emit.decS`, `decS_lt`, `decS_ge`, `decS_2`, `decS_3`, `decS_4` : decimal digits of `toString`
  * `Emit.expDigitsB_chars`, `Emit.expB_chars` : the exponent is `Spec.expStr`: sign, at least two digits
        (one without `padExp`), three for |x| ≥ 100, four for |x| ≥ 1000 (|x| ≤ 9999)
  * `Emit.firstB_char`, `Emit.fracB_chars`  : leading digit and fraction of `fmtE`
  * `Emit.eBytes_chars`                     : `chars (eBytes …) = sign ++ Spec.layoutE (slice d) prec …`
  * `Emit.intB_chars`, `Emit.fracFB_chars`  : integer part and fraction of `fmtF`
  * `Emit.fBytes_chars`                     : `chars (fBytes …) = sign ++ Spec.layoutF (slice d) prec …`
-/
import D128.Proofs.EmitF
import D128.Proofs.DigitsRound
set_option autoImplicit false
namespace Emit
open Emit.E (signB expDigitsB expB expOf firstB eBytes)

/-! ## `fmtE` -/

theorem u8_ofInt_small (z : Int) (h0 : 0 ≤ z) (h1 : z < 208) :
    ((48 : UInt8) + UInt8.ofInt z).toNat = 48 + z.toNat := by
  unfold UInt8.ofInt
  rw [UInt8.toNat_add, UInt8.toNat_ofNat']
  have : (z % 2 ^ 8).toNat = z.toNat := by omega
  rw [this]
  have : (48 : UInt8).toNat = 48 := rfl
  rw [this]; omega

theorem digit_char (Y : Int64) (z : Nat) (hz : z < 10) (h : Y.toInt = z) :
    toChar (48 + (Go.conv Y : UInt8)) = Spec.digitChar z := by
  unfold toChar Spec.digitChar
  show Char.ofNat ((48 : UInt8) + UInt8.ofInt Y.toInt).toNat = _
  rw [u8_ofInt_small _ (by omega) (by omega), h]; rfl

theorem i64_div_nonneg (Y : Int64) (k : Int64) (hY : 0 ≤ Y.toInt) (hk : 0 < k.toInt) :
    (Y / k).toInt = Y.toInt / k.toInt := by
  rw [Int64.toInt_div, Int.tdiv_eq_ediv_of_nonneg hY]
  have := Y.toInt_lt
  have h1 : 0 ≤ Y.toInt / k.toInt := Int.ediv_nonneg hY (by omega)
  have h2 : Y.toInt / k.toInt ≤ Y.toInt := Int.ediv_le_self _ hY
  exact Dg.bmod64 _ (by omega) (by omega)

theorem i64_mod_nonneg (Y : Int64) (k : Int64) (hY : 0 ≤ Y.toInt) :
    (Y % k).toInt = Y.toInt % k.toInt := by
  rw [Int64.toInt_mod, Int.tmod_eq_emod_of_nonneg hY]

/-- decimal digits of a natural number (`toString`) -/
def decS (a : Nat) : List Char := (toString a).toList

theorem digitChar_eq (z : Nat) (h : z < 10) : Nat.digitChar z = Spec.digitChar z := by
  unfold Spec.digitChar
  interval_cases z <;> rfl

theorem decS_lt (a : Nat) (h : a < 10) : decS a = [Spec.digitChar a] := by
  unfold decS
  have : (toString a).toList = Nat.toDigits 10 a := by simp
  rw [this, Nat.toDigits_of_lt_base h, digitChar_eq a h]

theorem decS_ge (a : Nat) (h : 10 ≤ a) : decS a = decS (a / 10) ++ [Spec.digitChar (a % 10)] := by
  unfold decS
  have e : ∀ b : Nat, (toString b).toList = Nat.toDigits 10 b := by intro b; simp
  rw [e, e, Nat.toDigits_of_base_le (by decide) h, digitChar_eq _ (Nat.mod_lt _ (by decide))]

theorem decS_2 (a : Nat) (h0 : 10 ≤ a) (h : a < 100) :
    decS a = [Spec.digitChar (a / 10), Spec.digitChar (a % 10)] := by
  rw [decS_ge a h0, decS_lt _ (by omega)]; rfl

theorem decS_3 (a : Nat) (h0 : 100 ≤ a) (h : a < 1000) :
    decS a = [Spec.digitChar (a / 100), Spec.digitChar (a / 10 % 10), Spec.digitChar (a % 10)] := by
  rw [decS_ge a (by omega), decS_2 _ (by omega) (by omega)]
  have : a / 10 / 10 = a / 100 := by omega
  rw [this]; rfl

theorem decS_4 (a : Nat) (h0 : 1000 ≤ a) (h : a < 10000) :
    decS a = [Spec.digitChar (a / 1000), Spec.digitChar (a / 100 % 10), Spec.digitChar (a / 10 % 10),
      Spec.digitChar (a % 10)] := by
  rw [decS_ge a (by omega), decS_3 _ (by omega) (by omega)]
  have e1 : a / 10 / 100 = a / 1000 := by omega
  have e2 : a / 10 / 10 % 10 = a / 100 % 10 := by omega
  rw [e1, e2]; rfl

theorem i64_lit (k : Nat) (h : k < 2 ^ 63) : (OfNat.ofNat k : Int64).toInt = k := by
  rw [Int64.toInt_ofNat]; exact Dg.bmod64 _ (by omega) (by omega)

/-- the exponent digits: at least two when `padExp` (one otherwise), three or four when needed -/
theorem expDigitsB_chars (padExp : Bool) (Y : Int64) (a : Nat) (ha : a < 10000) (h : Y.toInt = a) :
    chars (expDigitsB padExp Y) = Spec.zeros ((if padExp then 2 else 1) - (decS a).length) ++ decS a := by
  have hY : 0 ≤ Y.toInt := by omega
  have e10 : (10 : Int64).toInt = 10 := by decide
  have e100 : (100 : Int64).toInt = 100 := by decide
  have e1000 : (1000 : Int64).toInt = 1000 := by decide
  have d10 : (Y / 10).toInt = (a / 10 : Nat) := by rw [i64_div_nonneg _ _ hY (by rw [e10]; omega), h, e10]; omega
  have d100 : (Y / 100).toInt = (a / 100 : Nat) := by rw [i64_div_nonneg _ _ hY (by rw [e100]; omega), h, e100]; omega
  have d1000 : (Y / 1000).toInt = (a / 1000 : Nat) := by rw [i64_div_nonneg _ _ hY (by rw [e1000]; omega), h, e1000]; omega
  have m10 : (Y % 10).toInt = (a % 10 : Nat) := by rw [i64_mod_nonneg _ _ hY, h, e10]; omega
  have m10' : (Y / 10 % 10).toInt = (a / 10 % 10 : Nat) := by
    rw [i64_mod_nonneg _ _ (by omega), d10, e10]; omega
  have m100' : (Y / 100 % 10).toInt = (a / 100 % 10 : Nat) := by
    rw [i64_mod_nonneg _ _ (by omega), d100, e10]; omega
  unfold expDigitsB
  by_cases h1 : Y < 10
  · have h1' := (i64_lt_iff _ _).mp h1
    rw [e10] at h1'
    rw [if_pos h1, decS_lt a (by omega)]
    cases padExp
    · simp [chars, Spec.zeros, digit_char Y a (by omega) h]
    · simp [chars, Spec.zeros, digit_char Y a (by omega) h]; rfl
  · have h1' := h1
    rw [i64_lt_iff, e10] at h1'
    rw [if_neg h1]
    by_cases h2 : Y < 100
    · have h2' := (i64_lt_iff _ _).mp h2
      rw [e100] at h2'
      rw [if_pos h2, decS_2 a (by omega) (by omega)]
      cases padExp <;>
      simp [chars, Spec.zeros, digit_char _ _ (by omega) d10, digit_char _ (a % 10) (by omega) m10]
    · have h2' := h2
      rw [i64_lt_iff, e100] at h2'
      rw [if_neg h2]
      by_cases h3 : Y < 1000
      · have h3' := (i64_lt_iff _ _).mp h3
        rw [e1000] at h3'
        rw [if_pos h3, decS_3 a (by omega) (by omega)]
        cases padExp <;>
        simp [chars, Spec.zeros, digit_char _ _ (by omega) d100, digit_char _ (a % 10) (by omega) m10,
          digit_char _ (a / 10 % 10) (by omega) m10']
      · have h3' := h3
        rw [i64_lt_iff, e1000] at h3'
        rw [if_neg h3, decS_4 a (by omega) (by omega)]
        cases padExp <;>
        simp [chars, Spec.zeros, digit_char _ _ (by omega) d1000, digit_char _ (a % 10) (by omega) m10,
          digit_char _ (a / 10 % 10) (by omega) m10', digit_char _ (a / 100 % 10) (by omega) m100']


theorem expB_chars (padExp : Bool) (e : UInt8) (X : Int64) (h0 : -9999 ≤ X.toInt) (h1 : X.toInt ≤ 9999) :
    chars (#[e] ++ expB padExp X) = Spec.expStr (toChar e) X.toInt (if padExp then 2 else 1) := by
  unfold expB Spec.expStr
  by_cases hx : X < 0
  · have hx' := (i64_lt_iff _ _).mp hx
    rw [i64_zero] at hx'
    rw [if_pos hx, if_pos hx']
    have hn : (-X).toInt = (X.toInt.natAbs : Nat) := by rw [i64_neg X (by omega)]; omega
    rw [chars_append, chars_append, expDigitsB_chars padExp (-X) X.toInt.natAbs (by omega) hn]
    rfl
  · have hx' := hx
    rw [i64_lt_iff, i64_zero] at hx'
    rw [if_neg hx, if_neg hx']
    have hn : X.toInt = (X.toInt.natAbs : Nat) := by omega
    rw [chars_append, chars_append, expDigitsB_chars padExp X X.toInt.natAbs (by omega) hn]
    rfl

/-- sign prefix as characters -/
def signS (neg printSign padSign : Bool) : Spec.Str :=
  if neg then ['-'] else if printSign then ['+'] else if padSign then [' '] else []

theorem signB_chars (neg printSign padSign : Bool) :
    chars (signB neg printSign padSign) = signS neg printSign padSign := by
  cases neg <;> cases printSign <;> cases padSign <;> rfl

theorem msd_drop_take {m : Nat} (dig : Vector UInt8 m) (n lo : Nat) :
    ((Dg.msd dig n).drop lo).take (n - lo) = (Dg.msd dig n).drop lo := by
  apply List.take_of_length_le
  simp [Dg.msd_length]

/-- exponent of the leading digit, as an integer -/
theorem expOf_toInt (d : Gen.digits) (h0 : 0 ≤ d.ndig.toInt) (h39 : d.ndig.toInt ≤ 39) (hexp : Dg.ExpOK d) :
    (expOf d).toInt = if 1 < d.ndig.toInt then d.exp.toInt + d.ndig.toInt - 1 else d.exp.toInt := by
  unfold expOf
  obtain ⟨he0, he1⟩ := hexp
  by_cases h : d.ndig > 1
  · have h' := (i64_gt_iff _ _).mp h
    rw [i64_one] at h'
    rw [if_pos h, if_pos h']
    have e1 : (d.ndig - 1).toInt = d.ndig.toInt - 1 := by
      rw [Dg.i64_sub _ _ (by rw [i64_one]; omega) (by rw [i64_one]; omega), i64_one]
    rw [Dg.i64_add _ _ (by rw [e1]; omega) (by rw [e1]; omega), e1]; omega
  · have h' := h
    rw [i64_gt_iff, i64_one] at h'
    rw [if_neg h, if_neg h']

theorem firstB_char (d : Gen.digits) (hwf : Dg.WF d) :
    toChar (firstB d) = (match (Dg.slice d).ds with | x :: _ => Spec.digitChar x | [] => '0') := by
  unfold firstB Dg.slice
  have h0 := hwf.n0
  by_cases hn : d.ndig.toInt = 0
  · have : d.ndig = 0 := Int64.toInt_inj.mp (by rw [hn]; rfl)
    simp [this, Dg.msd]; rfl
  · have hne : ¬ (d.ndig == 0) = true := by
      rw [Dg.i64_beq_zero]; exact hn
    rw [if_neg hne]
    have hpos : 0 < d.ndig.toInt.toNat := by omega
    have hh := Dg.msd_head d.dig _ hpos
    have hd := hwf.dig 0 hpos
    rw [Dg.at_eq d.dig 0 (by decide)] at hh hd
    cases hM : Dg.msd d.dig d.ndig.toInt.toNat with
    | nil => rw [hM] at hh; simp at hh
    | cons x M' =>
      rw [hM] at hh
      simp only [List.head?_cons, Option.some.injEq] at hh
      subst hh
      unfold Dg.isDig at hd
      unfold toChar Spec.digitChar Dg.dv
      show Char.ofNat (d.dig[0]).toNat = Char.ofNat _
      congr 1; omega

theorem fracB_chars (d : Gen.digits) (prec : Int64) (forceDP : Bool) (hwf : Dg.WF d)
    (hfit : d.ndig.toInt ≤ prec.toInt + 1 ∨ prec.toInt ≤ 0) :
    chars (E.fracB d prec forceDP) =
      (if prec.toInt.toNat > 0 then
        '.' :: ((Spec.digitsStr ((Dg.slice d).ds.drop 1) ++
          Spec.zeros (prec.toInt.toNat - (Spec.digitsStr ((Dg.slice d).ds.drop 1)).length)).take
            prec.toInt.toNat)
      else if forceDP then ['.'] else []) := by
  have h0 := hwf.n0
  have h39 := hwf.n39
  unfold E.fracB
  by_cases hp : prec > 0
  · have hp' := (i64_gt_iff _ _).mp hp
    rw [i64_zero] at hp'
    rw [if_pos hp, if_pos (show prec.toInt.toNat > 0 by omega)]
    have hlen : (Spec.digitsStr ((Dg.slice d).ds.drop 1)).length = d.ndig.toInt.toNat - 1 := by
      simp [Spec.digitsStr, Dg.slice, Dg.msd_length]
    have hzl : ∀ k, (Spec.zeros k).length = k := fun k => List.length_replicate
    rw [List.take_of_length_le (by rw [List.length_append, hlen, hzl]; omega), hlen]
    by_cases hn : d.ndig > 1
    · have hn' := (i64_gt_iff _ _).mp hn
      rw [i64_one] at hn'
      rw [if_pos hn, chars_append, chars_append,
        chars_digB d.dig d.ndig.toInt.toNat 1 d.ndig.toInt.toNat (by omega) (Nat.le_refl _) hwf.dig,
        msd_drop_take, chars_replicate]
      have : (prec.toInt - (d.ndig.toInt - 1)).toNat = prec.toInt.toNat - (d.ndig.toInt.toNat - 1) := by
        omega
      rw [this]; rfl
    · have hn' := hn
      rw [i64_gt_iff, i64_one] at hn'
      rw [if_neg hn, chars_append, chars_replicate]
      have hd : (Dg.slice d).ds.drop 1 = [] := by
        apply List.drop_eq_nil_of_le
        have : (Dg.slice d).ds.length = d.ndig.toInt.toNat := Dg.msd_length _ _
        omega
      rw [hd]
      have : d.ndig.toInt.toNat - 1 = 0 := by omega
      rw [this]; rfl
  · have hp' := hp
    rw [i64_gt_iff, i64_zero] at hp'
    rw [if_neg hp, if_neg (show ¬ prec.toInt.toNat > 0 by omega)]
    cases forceDP <;> rfl

/-- **`fmtE` prints the `%e` layout of the record's slice.**  `hfit`: all digits of the record fit in the
precision (`round` has been applied) or no fraction is printed; `hz`: the empty record is normalised;
`hx`: the exponent has at most four digits. -/
theorem eBytes_chars (d : Gen.digits) (prec : Int64) (forceDP printSign padSign padExp : Bool) (e : UInt8)
    (hwf : Dg.WF d) (hz : d.ndig.toInt = 0 → d.exp.toInt = 0)
    (hx : -9999 ≤ d.exp.toInt ∧ d.exp.toInt + d.ndig.toInt ≤ 10000)
    (hfit : d.ndig.toInt ≤ prec.toInt + 1 ∨ prec.toInt ≤ 0) :
    chars (eBytes d prec forceDP printSign padSign padExp e) =
      signS d.neg printSign padSign ++
        Spec.layoutE (Dg.slice d) prec.toInt.toNat forceDP (toChar e) (if padExp then 2 else 1) := by
  have h0 := hwf.n0
  have h39 := hwf.n39
  have hexp : Dg.ExpOK d := ⟨by omega, by omega⟩
  have hX := expOf_toInt d h0 h39 hexp
  have hsplit : eBytes d prec forceDP printSign padSign padExp e =
      signB d.neg printSign padSign ++ (#[firstB d] ++ (E.fracB d prec forceDP ++
        (#[e] ++ expB padExp (expOf d)))) := by
    simp [eBytes, Array.append_assoc]
  have hxx : (if (Dg.slice d).ds.isEmpty = true then (0 : Int) else (Dg.slice d).dp - 1) = (expOf d).toInt := by
    rw [hX]
    by_cases hn : d.ndig.toInt = 0
    · have : (Dg.slice d).ds = [] := by simp [Dg.slice, hn, Dg.msd]
      rw [this]; simp; rw [if_neg (by omega)]; exact (hz hn).symm
    · have : (Dg.slice d).ds.isEmpty = false := by
        rw [List.isEmpty_eq_false_iff]
        intro h
        have hl : (Dg.slice d).ds.length = d.ndig.toInt.toNat := Dg.msd_length _ _
        rw [h] at hl
        simp only [List.length_nil] at hl
        omega
      rw [this]
      show (if false = true then (0 : Int) else d.exp.toInt + d.ndig.toInt - 1) = _
      rw [if_neg (by decide)]
      by_cases h1 : 1 < d.ndig.toInt
      · rw [if_pos h1]
      · rw [if_neg h1]; omega
  have hXb : -9999 ≤ (expOf d).toInt ∧ (expOf d).toInt ≤ 9999 := by
    rw [hX]
    by_cases h1 : 1 < d.ndig.toInt
    · rw [if_pos h1]; clear hX hxx; omega
    · rw [if_neg h1]; clear hX hxx; omega
  rw [hsplit, chars_append, chars_append, chars_append, signB_chars, fracB_chars d prec forceDP hwf hfit,
    expB_chars padExp e (expOf d) hXb.1 hXb.2]
  unfold Spec.layoutE
  simp only [hxx]
  have hf : chars #[firstB d] = [toChar (firstB d)] := rfl
  rw [hf, firstB_char d hwf]
  simp only [List.append_assoc]
  rfl
/-! ## `fmtF` -/

theorem layoutF_eq (s : Spec.Slice) (prec : Nat) (sharp : Bool) :
    Spec.layoutF s prec sharp =
      (if s.dp > 0 then Spec.digitsStr (s.ds.take s.dp.toNat) ++ Spec.zeros (s.dp.toNat - s.ds.length)
        else ['0']) ++
      (if prec > 0 then
        '.' :: (List.range prec).map (fun (i : Nat) =>
          if 0 ≤ s.dp + (i : Int) ∧ (s.dp + (i : Int)).toNat < s.ds.length then
            Spec.digitChar (s.ds.getD (s.dp + (i : Int)).toNat 0) else '0')
      else if sharp then ['.'] else []) := rfl

theorem range_map_split3 {α : Type} (g : Nat → α) (a b c : Nat) :
    (List.range (a + b + c)).map g =
      (List.range a).map g ++ (List.range b).map (fun i => g (a + i)) ++
        (List.range c).map (fun i => g (a + b + i)) := by
  rw [List.range_add, List.range_add]
  simp [List.map_append, Function.comp_def]

theorem map_range_const {α : Type} (g : Nat → α) (n : Nat) (c : α) (h : ∀ i, i < n → g i = c) :
    (List.range n).map g = List.replicate n c := by
  apply List.ext_getElem
  · simp
  · intro i h1 h2
    simp at h1
    simp [h i h1]

theorem addexp_toInt (d : Gen.digits) (h0 : 0 ≤ d.ndig.toInt) (h39 : d.ndig.toInt ≤ 39) (hexp : Dg.ExpOK d) :
    (d.ndig + d.exp).toInt = d.ndig.toInt + d.exp.toInt := by
  obtain ⟨he0, he1⟩ := hexp
  exact Dg.i64_add _ _ (by omega) (by omega)

theorem dpOf_toInt (d : Gen.digits) (h0 : 0 ≤ d.ndig.toInt) (h39 : d.ndig.toInt ≤ 39) (hexp : Dg.ExpOK d)
    (hz : d.ndig.toInt = 0 → d.exp.toInt = 0) :
    (F.dpOf d).toInt = d.exp.toInt + d.ndig.toInt := by
  unfold F.dpOf
  by_cases hn : d.ndig.toInt = 0
  · have : (d.ndig == 0) = true := (Dg.i64_beq_zero _).mpr hn
    rw [if_pos this, i64_zero, hz hn, hn]; rfl
  · have : ¬ (d.ndig == 0) = true := by rw [Dg.i64_beq_zero]; exact hn
    rw [if_neg this, addexp_toInt d h0 h39 hexp]; omega

theorem intB_chars (d : Gen.digits) (hwf : Dg.WF d) (hexp : Dg.ExpOK d)
    (hz : d.ndig.toInt = 0 → d.exp.toInt = 0) :
    chars (F.intB d) =
      (if (Dg.slice d).dp > 0 then
        Spec.digitsStr ((Dg.slice d).ds.take (Dg.slice d).dp.toNat) ++
          Spec.zeros ((Dg.slice d).dp.toNat - (Dg.slice d).ds.length)
      else ['0']) := by
  have h0 := hwf.n0
  have h39 := hwf.n39
  have hl : (Dg.slice d).ds.length = d.ndig.toInt.toNat := Dg.msd_length _ _
  have hdp : (Dg.slice d).dp = d.exp.toInt + d.ndig.toInt := rfl
  have hadd := addexp_toInt d h0 h39 hexp
  rw [hl, hdp]
  unfold F.intB
  by_cases hn : d.ndig.toInt = 0
  · have : (d.ndig == 0) = true := (Dg.i64_beq_zero _).mpr hn
    rw [if_pos this, if_neg (by rw [hz hn, hn]; decide)]; rfl
  · have : ¬ (d.ndig == 0) = true := by rw [Dg.i64_beq_zero]; exact hn
    rw [if_neg this]
    by_cases hp : d.ndig + d.exp > 0
    · have hp' := (i64_gt_iff _ _).mp hp
      rw [i64_zero, hadd] at hp'
      rw [if_pos hp, if_pos (show d.exp.toInt + d.ndig.toInt > 0 by omega)]
      by_cases hgt : d.ndig > d.ndig + d.exp
      · have hgt' := (i64_gt_iff _ _).mp hgt
        rw [hadd] at hgt'
        rw [if_pos hgt, hadd,
          chars_digB d.dig d.ndig.toInt.toNat 0 _ (by omega) (by omega) hwf.dig]
        have e1 : (d.exp.toInt + d.ndig.toInt).toNat - d.ndig.toInt.toNat = 0 := by omega
        have e2 : d.ndig.toInt + d.exp.toInt = d.exp.toInt + d.ndig.toInt := by omega
        rw [e1, e2, List.drop_zero, Nat.sub_zero]
        show _ = _ ++ []
        rw [List.append_nil]; rfl
      · have hgt' := hgt
        rw [i64_gt_iff, hadd] at hgt'
        have hsub : (d.ndig + d.exp - d.ndig).toInt = d.exp.toInt := by
          rw [Dg.i64_sub _ _ (by rw [hadd]; omega) (by rw [hadd]; have := d.exp.toInt_lt; omega), hadd]
          omega
        rw [if_neg hgt, hsub, chars_append, chars_replicate,
          chars_digB d.dig d.ndig.toInt.toNat 0 _ (by omega) (Nat.le_refl _) hwf.dig]
        have e1 : (d.exp.toInt + d.ndig.toInt).toNat - d.ndig.toInt.toNat = d.exp.toInt.toNat := by omega
        have t1 : (Dg.msd d.dig d.ndig.toInt.toNat).take d.ndig.toInt.toNat =
            Dg.msd d.dig d.ndig.toInt.toNat := List.take_of_length_le (by rw [Dg.msd_length])
        have t2 : (Dg.slice d).ds.take (d.exp.toInt + d.ndig.toInt).toNat = Dg.msd d.dig d.ndig.toInt.toNat :=
          List.take_of_length_le (by have := hl; omega)
        rw [e1, List.drop_zero, Nat.sub_zero, t1, t2]; rfl
    · have hp' := hp
      rw [i64_gt_iff, i64_zero, hadd] at hp'
      rw [if_neg hp, if_neg (show ¬ d.exp.toInt + d.ndig.toInt > 0 by omega)]; rfl

theorem digitsStr_drop (M : List Nat) (k : Nat) :
    Spec.digitsStr (M.drop k) =
      (List.range (M.length - k)).map (fun i => Spec.digitChar (M.getD (k + i) 0)) := by
  apply List.ext_getElem
  · simp [Spec.digitsStr]
  · intro i h1 h2
    simp [Spec.digitsStr] at h1
    simp [Spec.digitsStr, List.getD_eq_getElem?_getD, List.getElem?_eq_getElem (show k + i < M.length by omega)]

theorem fracFB_chars (d : Gen.digits) (prec : Int64) (forceDP : Bool) (hwf : Dg.WF d) (hexp : Dg.ExpOK d)
    (hz : d.ndig.toInt = 0 → d.exp.toInt = 0) (hp62 : prec.toInt ≤ 2 ^ 62)
    (hfit : 0 < d.ndig.toInt → 0 < prec.toInt → -d.exp.toInt ≤ prec.toInt) :
    chars (F.fracB d prec forceDP) =
      (if prec.toInt.toNat > 0 then
        '.' :: (List.range prec.toInt.toNat).map (fun (i : Nat) =>
          if 0 ≤ (Dg.slice d).dp + (i : Int) ∧ ((Dg.slice d).dp + (i : Int)).toNat < (Dg.slice d).ds.length then
            Spec.digitChar ((Dg.slice d).ds.getD ((Dg.slice d).dp + (i : Int)).toNat 0) else '0')
      else if forceDP then ['.'] else []) := by
  have h0 := hwf.n0
  have h39 := hwf.n39
  obtain ⟨he0, he1⟩ := hexp
  have hl : (Dg.slice d).ds.length = d.ndig.toInt.toNat := Dg.msd_length _ _
  have hdp : (Dg.slice d).dp = d.exp.toInt + d.ndig.toInt := rfl
  have hDP := dpOf_toInt d h0 h39 ⟨he0, he1⟩ hz
  rw [hl, hdp]
  unfold F.fracB
  by_cases hp : prec > 0
  · have hp' := (i64_gt_iff _ _).mp hp
    rw [i64_zero] at hp'
    rw [if_pos hp, if_pos (show prec.toInt.toNat > 0 by omega)]
    -- the three segments
    generalize hDPi : d.exp.toInt + d.ndig.toInt = DP at *
    have hfit' := hfit
    -- values of prec', dp'
    have hdp' : (if F.dpOf d < 0 then (0 : Int64) else F.dpOf d).toInt = max DP 0 := by
      split
      · rename_i h; rw [i64_lt_iff, i64_zero, hDP] at h; rw [i64_zero]; omega
      · rename_i h; rw [i64_lt_iff, i64_zero, hDP] at h; rw [hDP]; omega
    have hprec' : (if F.dpOf d < 0 then prec + F.dpOf d else prec).toInt = prec.toInt - (-DP).toNat := by
      split
      · rename_i h; rw [i64_lt_iff, i64_zero, hDP] at h
        rw [Dg.i64_add _ _ (by rw [hDP]; omega) (by rw [hDP]; omega), hDP]; omega
      · rename_i h; rw [i64_lt_iff, i64_zero, hDP] at h; omega
    generalize (if F.dpOf d < 0 then (0 : Int64) else F.dpOf d) = dp' at *
    generalize (if F.dpOf d < 0 then prec + F.dpOf d else prec) = prec' at *
    rw [hDP]
    obtain ⟨a, ha⟩ : ∃ a, a = (-DP).toNat := ⟨_, rfl⟩
    obtain ⟨b, hb⟩ : ∃ b, b = d.ndig.toInt.toNat - dp'.toInt.toNat := ⟨_, rfl⟩
    rw [← ha]
    have hab : a + b ≤ prec.toInt.toNat := by
      by_cases hn : 0 < d.ndig.toInt
      · have := hfit hn hp'; omega
      · have : DP = 0 := by rw [← hDPi, hz (by omega)]; omega
        omega
    have hP : prec.toInt.toNat = a + b + (prec.toInt.toNat - a - b) := by omega
    rw [hP, range_map_split3]
    rw [chars_append, chars_append, chars_replicate]
    show ['.'] ++ _ ++ _ = '.' :: _
    rw [List.singleton_append, List.cons_append, List.append_assoc]
    congr 1
    congr 1
    · -- leading zeros
      symm
      apply map_range_const
      intro i hi
      rw [if_neg (by omega)]; rfl
    · unfold F.tailB
      by_cases hgt : d.ndig > dp'
      · have hgt' := (i64_gt_iff _ _).mp hgt
        have hsub : (d.ndig - dp').toInt = d.ndig.toInt - dp'.toInt := by
          exact Dg.i64_sub _ _ (by omega) (by omega)
        rw [if_pos hgt, chars_append, chars_replicate,
          chars_digB d.dig d.ndig.toInt.toNat _ _ (by omega) (Nat.le_refl _) hwf.dig, msd_drop_take,
          digitsStr_drop, Dg.msd_length, ← hb]
        congr 1
        · apply List.map_congr_left
          intro i hi
          rw [List.mem_range] at hi
          have e1 : (DP + ((a + i : Nat) : Int)).toNat = dp'.toInt.toNat + i := by omega
          rw [if_pos (by omega), e1]; rfl
        · symm
          have : (prec'.toInt - (d.ndig - dp').toInt).toNat = prec.toInt.toNat - a - b := by omega
          rw [this]
          apply map_range_const
          intro i hi
          rw [if_neg (by omega)]; rfl
      · have hgt' := hgt
        rw [i64_gt_iff] at hgt'
        rw [if_neg hgt, chars_replicate]
        have hb0 : b = 0 := by omega
        rw [hb0]
        show _ = [] ++ _
        rw [List.nil_append]
        symm
        have : (prec'.toInt - 0).toNat = prec.toInt.toNat - a - 0 := by omega
        rw [this]
        apply map_range_const
        intro i hi
        rw [if_neg (by omega)]; rfl
  · have hp' := hp
    rw [i64_gt_iff, i64_zero] at hp'
    rw [if_neg hp, if_neg (show ¬ prec.toInt.toNat > 0 by omega)]
    cases forceDP <;> rfl

/-- **`fmtF` prints the `%f` layout of the record's slice.**  `hfit`: when a fraction is printed, all
digits of the record fit in the precision (`round` has been applied); `hz`: the empty record is
normalised. -/
theorem fBytes_chars (d : Gen.digits) (prec : Int64) (forceDP printSign padSign : Bool)
    (hwf : Dg.WF d) (hexp : Dg.ExpOK d) (hz : d.ndig.toInt = 0 → d.exp.toInt = 0)
    (hp62 : prec.toInt ≤ 2 ^ 62)
    (hfit : 0 < d.ndig.toInt → 0 < prec.toInt → -d.exp.toInt ≤ prec.toInt) :
    chars (F.fBytes d prec forceDP printSign padSign) =
      signS d.neg printSign padSign ++ Spec.layoutF (Dg.slice d) prec.toInt.toNat forceDP := by
  unfold F.fBytes
  rw [chars_append, chars_append, signB_chars, intB_chars d hwf hexp hz,
    fracFB_chars d prec forceDP hwf hexp hz hp62 hfit, layoutF_eq, List.append_assoc]

end Emit
