/-
  D128/Proofs/D192Base.lean — common notions for the contracts of the 57-digit working format
  `decomposed192{sig uint192, exp int16}` (Go: /repo/decomposed.go).

  Provided (namespace `D192`):
  * `val x`, `ulp x`           : `x.sig.toNat · 10^x.exp` and `10^x.exp` as rationals
  * `Tr P t0 e0 trunc cur exp` : "truncation state" shared by every normalising loop of the format:
        ∃ k, cur = P / 10^k ∧ exp = e0 + k (machine `Int16` arithmetic) ∧
             trunc = (if 10^k ∣ P then t0 else 1) ∧ (k = 0 ∨ 2^192/10 ≤ cur)
  * `Tr.refl`, `Tr.step`        : start / one division by `10^j` of a value `≥ 2^192·10^(j-1)`
  * `Tr.k_le`                  : `P < 2^384 → k ≤ 58`
  * `trunc_val`                : the rational reading of a truncation:  with `s = P / 10^k`,
        `s·10^(E+k) ≤ P·10^E < (s+1)·10^(E+k)` and equality iff `10^k ∣ P`
  * small `Int16` facts (`i16_ofNat_toInt`, `i16_lit`)
-/
import Mathlib.Tactic.Ring
import Mathlib.Tactic.Linarith
import Mathlib.Tactic.NormNum
import Mathlib.Tactic.Positivity
import Mathlib.Tactic.FieldSimp
import Mathlib.Data.Rat.Cast.Order
import D128.Gen.Decomposed
import D128.Proofs.RoundKernelCode
import D128.Proofs.WordsWide

set_option autoImplicit false
set_option maxRecDepth 4096
set_option exponentiation.threshold 512

namespace D192

/-- the rational value of a working-format number -/
def val (x : Gen.decomposed192) : ℚ := (x.sig.toNat : ℚ) * (10 : ℚ) ^ x.exp.toInt

/-- one unit in the last place of a working-format number -/
def ulp (x : Gen.decomposed192) : ℚ := (10 : ℚ) ^ x.exp.toInt

theorem ulp_pos (x : Gen.decomposed192) : 0 < ulp x := zpow_pos (by norm_num) _
theorem val_nonneg (x : Gen.decomposed192) : 0 ≤ val x :=
  mul_nonneg (Nat.cast_nonneg _) (ulp_pos x).le

/-- truncation state of the normalising loops: `cur` is `P` with `k` low decimal digits dropped,
the exponent has been advanced by `k` (in wrapping `Int16` arithmetic, as the code does), the sticky
flag is `1` as soon as a non-zero digit was dropped and untouched otherwise, and if anything was
dropped at all then at least 57 digits remain. -/
def Tr (P : Nat) (t0 : Int8) (e0 : Int16) (trunc : Int8) (cur : Nat) (exp : Int16) : Prop :=
  ∃ k : Nat, cur = P / 10 ^ k ∧ exp = e0 + Int16.ofNat k ∧
    trunc = (if P % 10 ^ k = 0 then t0 else 1) ∧ (k = 0 ∨ 2 ^ 192 / 10 ≤ cur)

theorem Tr.refl (P : Nat) (t0 : Int8) (e0 : Int16) : Tr P t0 e0 t0 P e0 :=
  ⟨0, by simp, by simp, by simp [Nat.mod_one], Or.inl rfl⟩

theorem mod_pow_add (P k j : Nat) :
    P % 10 ^ (k + j) = 0 ↔ (P % 10 ^ k = 0 ∧ (P / 10 ^ k) % 10 ^ j = 0) := by
  rw [Nat.pow_add, Nat.mod_mul]
  have hk : 0 < 10 ^ k := Nat.pow_pos (by norm_num)
  constructor
  · intro h
    have h1 : P % 10 ^ k = 0 := by
      have := Nat.mod_lt P hk
      rcases Nat.eq_zero_or_pos (P / 10 ^ k % 10 ^ j) with h0 | h0
      · rw [h0] at h; simpa using h
      · have : 10 ^ k ≤ 10 ^ k * (P / 10 ^ k % 10 ^ j) := Nat.le_mul_of_pos_right _ h0
        omega
    rw [h1] at h
    simp only [Nat.zero_add, Nat.mul_eq_zero] at h
    exact ⟨h1, h.resolve_left (by omega)⟩
  · rintro ⟨h1, h2⟩; rw [h1, h2]; simp

/-- one pass of a normalising loop: divide by `10^j` a value that is at least `2^192·10^(j-1)`. -/
theorem Tr.step {P : Nat} {t0 : Int8} {e0 : Int16} {trunc : Int8} {cur : Nat} {exp : Int16}
    (j : Nat) (hj : 0 < j) (h : Tr P t0 e0 trunc cur exp) (hge : 2 ^ 192 * 10 ^ (j - 1) ≤ cur)
    (q r : Nat) (hq : q = cur / 10 ^ j) (hr : r = cur % 10 ^ j) :
    Tr P t0 e0 (if r = 0 then trunc else 1) q (exp + Int16.ofNat j) := by
  obtain ⟨k, hc, he, ht, _⟩ := h
  refine ⟨k + j, ?_, ?_, ?_, Or.inr ?_⟩
  · rw [hq, hc, Nat.div_div_eq_div_mul, Nat.pow_add]
  · rw [he, Int16.ofNat_add, Int16.add_assoc]
  · have := mod_pow_add P k j
    rw [← hc, ← hr] at this
    by_cases h1 : P % 10 ^ k = 0
    · by_cases h2 : r = 0
      · rw [if_pos h2, if_pos (this.mpr ⟨h1, h2⟩), ht, if_pos h1]
      · rw [if_neg h2, if_neg (fun h => h2 (this.mp h).2)]
    · rw [if_neg (fun h => h1 (this.mp h).1), ht, if_neg h1]; split <;> rfl
  · rw [hq, Nat.le_div_iff_mul_le (Nat.pow_pos (by norm_num))]
    have e : (10 : Nat) ^ j = 10 * 10 ^ (j - 1) := by
      rw [← Nat.pow_succ']; congr 1; omega
    have h10 : 2 ^ 192 / 10 * 10 ≤ 2 ^ 192 := Nat.div_mul_le_self _ _
    calc 2 ^ 192 / 10 * 10 ^ j = (2 ^ 192 / 10 * 10) * 10 ^ (j - 1) := by rw [e]; ring
      _ ≤ 2 ^ 192 * 10 ^ (j - 1) := Nat.mul_le_mul_right _ h10
      _ ≤ cur := hge

/-- at most 58 digits are ever dropped from a product of two 192-bit numbers. -/
theorem Tr.k_le {P : Nat} {k : Nat} (hP : P < 2 ^ 384) (h : k = 0 ∨ 2 ^ 192 / 10 ≤ P / 10 ^ k) :
    k ≤ 58 := by
  rcases h with h | h
  · omega
  · by_contra hk
    have h59 : 10 ^ 59 ≤ 10 ^ k := Nat.pow_le_pow_right (by norm_num) (by omega)
    have : P / 10 ^ k ≤ P / 10 ^ 59 := Nat.div_le_div_left h59 (by norm_num)
    have : P / 10 ^ 59 < 2 ^ 192 / 10 := by
      rw [Nat.div_lt_iff_lt_mul (by norm_num)]
      calc P < 2 ^ 384 := hP
        _ ≤ _ := by norm_num
    omega

/-- rational reading of a truncated value. -/
theorem trunc_val (P k : Nat) (E : Int) :
    ((P / 10 ^ k : Nat) : ℚ) * (10 : ℚ) ^ (E + k) ≤ (P : ℚ) * (10 : ℚ) ^ E ∧
    (P : ℚ) * (10 : ℚ) ^ E < ((P / 10 ^ k : Nat) : ℚ) * (10 : ℚ) ^ (E + k) + (10 : ℚ) ^ (E + k) ∧
    (((P / 10 ^ k : Nat) : ℚ) * (10 : ℚ) ^ (E + k) = (P : ℚ) * (10 : ℚ) ^ E ↔ P % 10 ^ k = 0) := by
  have hE : (0 : ℚ) < (10 : ℚ) ^ E := zpow_pos (by norm_num) _
  have hsplit : (10 : ℚ) ^ (E + k) = (10 : ℚ) ^ E * (10 : ℚ) ^ k := by
    rw [zpow_add₀ (by norm_num), zpow_natCast]
  have hdm : (P : ℚ) = ((P / 10 ^ k : Nat) : ℚ) * (10 : ℚ) ^ k + ((P % 10 ^ k : Nat) : ℚ) := by
    have := Nat.div_add_mod P (10 ^ k)
    have h2 : ((10 ^ k * (P / 10 ^ k) + P % 10 ^ k : Nat) : ℚ) = (P : ℚ) := by rw [this]
    push_cast at h2
    linarith
  have hr0 : (0 : ℚ) ≤ ((P % 10 ^ k : Nat) : ℚ) := by positivity
  have hr1 : ((P % 10 ^ k : Nat) : ℚ) < (10 : ℚ) ^ k := by
    have := Nat.mod_lt P (show 0 < 10 ^ k from Nat.pow_pos (by norm_num))
    exact_mod_cast this
  rw [hsplit]
  generalize ((P / 10 ^ k : Nat) : ℚ) = s at *
  generalize hR : ((P % 10 ^ k : Nat) : ℚ) = R at *
  have key : (P : ℚ) * 10 ^ E = s * (10 ^ E * 10 ^ k) + R * 10 ^ E := by rw [hdm]; ring
  refine ⟨?_, ?_, ?_⟩
  · rw [key]; nlinarith [mul_nonneg hr0 hE.le]
  · rw [key]; nlinarith [mul_lt_mul_of_pos_right hr1 hE]
  · rw [key]
    constructor
    · intro h
      have : R * 10 ^ E = 0 := by linarith
      have hR0 : R = 0 := by
        rcases mul_eq_zero.mp this with h | h
        · exact h
        · exact absurd h (ne_of_gt hE)
      rw [← hR] at hR0
      exact_mod_cast hR0
    · intro h
      have : R = 0 := by rw [← hR, h]; simp
      rw [this]; ring


/-! ### verification-condition forms of `Tr.step` (shapes produced by `mvcgen` + `simp +zetaDelta`) -/

theorem u64_eq_zero_iff (r : UInt64) : r = 0 ↔ r.toNat = 0 := by
  rw [← UInt64.toNat_inj]; rfl

theorem vc_nz {P : Nat} {t0 : Int8} {e0 : Int16} {trunc : Int8} {exp : Int16} {mb : Nat}
    (j : Nat) (hj : 0 < j) (cur q : Nat) (r : UInt64)
    (hdiv : q = cur / 10 ^ j ∧ r.toNat = cur % 10 ^ j) (hge : 2 ^ 192 * 10 ^ (j - 1) ≤ cur)
    (hinv : mb = cur ∧ Tr P t0 e0 trunc cur exp) (hnz : ¬ r = 0) :
    q < mb ∧ Tr P t0 e0 1 q (exp + Int16.ofNat j) := by
  have hpos : 0 < cur := Nat.lt_of_lt_of_le (by positivity) hge
  refine ⟨?_, ?_⟩
  · rw [hinv.1, hdiv.1]
    exact Nat.div_lt_self hpos (Nat.one_lt_pow (by omega) (by norm_num))
  · have := Tr.step j hj hinv.2 hge q r.toNat hdiv.1 hdiv.2
    rwa [if_neg (by rwa [← u64_eq_zero_iff])] at this

theorem vc_z {P : Nat} {t0 : Int8} {e0 : Int16} {trunc : Int8} {exp : Int16} {mb : Nat}
    (j : Nat) (hj : 0 < j) (cur q : Nat) (r : UInt64)
    (hdiv : q = cur / 10 ^ j ∧ r.toNat = cur % 10 ^ j) (hge : 2 ^ 192 * 10 ^ (j - 1) ≤ cur)
    (hinv : mb = cur ∧ Tr P t0 e0 trunc cur exp) (hz : r = 0) :
    q < mb ∧ Tr P t0 e0 trunc q (exp + Int16.ofNat j) := by
  have hpos : 0 < cur := Nat.lt_of_lt_of_le (by positivity) hge
  refine ⟨?_, ?_⟩
  · rw [hinv.1, hdiv.1]
    exact Nat.div_lt_self hpos (Nat.one_lt_pow (by omega) (by norm_num))
  · have := Tr.step j hj hinv.2 hge q r.toNat hdiv.1 hdiv.2
    rwa [if_pos (by rwa [← u64_eq_zero_iff])] at this

/-! ### word conditions of the loop guards as bounds -/

theorem U384.ge_of_w5 (p : U384) (h : 0 < p.w5) : 2 ^ 192 * 10 ^ (19 - 1) ≤ p.toNat := by
  rw [UInt64.lt_iff_toNat_lt] at h
  simp only [U384.toNat, UInt64.toNat_zero] at *
  omega

theorem U384.ge_of_w4 (p : U384) (h : 0 < p.w4) : 2 ^ 192 * 10 ^ (19 - 1) ≤ p.toNat := by
  rw [UInt64.lt_iff_toNat_lt] at h
  simp only [U384.toNat, UInt64.toNat_zero] at *
  omega

theorem U384.w5_zero_of_le (p q : U384) (h : q.toNat ≤ p.toNat) (hp : p.w5 = 0) : q.w5 = 0 := by
  rw [u64_eq_zero_iff] at *
  have := p.w0.toNat_lt; have := p.w1.toNat_lt; have := p.w2.toNat_lt
  have := p.w3.toNat_lt; have := p.w4.toNat_lt
  simp only [U384.toNat] at *
  omega

theorem U384.toNat_low4 (p : U384) (h5 : p.w5 = 0) (h4 : p.w4 = 0) :
    (U256.mk p.w0 p.w1 p.w2 p.w3).toNat = p.toNat := by
  simp [U384.toNat, U256.toNat, h5, h4]

theorem U256.ge_of_w3_1e8 (p : U256) (h : 268435455 ≤ p.w3) : 2 ^ 192 * 10 ^ (8 - 1) ≤ p.toNat := by
  rw [UInt64.le_iff_toNat_le] at h
  simp only [U256.toNat, UInt64.reduceToNat] at *
  omega

theorem U256.ge_of_w3_1e4 (p : U256) (h : 65535 ≤ p.w3) : 2 ^ 192 * 10 ^ (4 - 1) ≤ p.toNat := by
  rw [UInt64.le_iff_toNat_le] at h
  simp only [U256.toNat, UInt64.reduceToNat] at *
  omega

theorem U256.ge_of_w3 (p : U256) (h : 0 < p.w3) : 2 ^ 192 * 10 ^ (1 - 1) ≤ p.toNat := by
  rw [UInt64.lt_iff_toNat_lt] at h
  simp only [U256.toNat, UInt64.toNat_zero] at *
  omega

theorem U256.toNat_low3 (p : U256) (h3 : p.w3 = 0) :
    (U192.mk p.w0 p.w1 p.w2).toNat = p.toNat := by
  simp [U192.toNat, U256.toNat, h3]

theorem div_le_of_eq {q cur D : Nat} (h : q = cur / D) : q ≤ cur := h ▸ Nat.div_le_self _ _

/-- generalisation of `Tr.k_le`: a bound on `P` bounds the number of dropped digits. -/
theorem Tr.k_le' {P : Nat} {k : Nat} (K : Nat) (hP : P < 2 ^ 192 / 10 * 10 ^ (K + 1))
    (h : k = 0 ∨ 2 ^ 192 / 10 ≤ P / 10 ^ k) : k ≤ K := by
  rcases h with h | h
  · omega
  · by_contra hk
    have h59 : 10 ^ (K + 1) ≤ 10 ^ k := Nat.pow_le_pow_right (by norm_num) (by omega)
    have h1 : 2 ^ 192 / 10 * 10 ^ k ≤ P := by
      rw [Nat.le_div_iff_mul_le (Nat.pow_pos (by norm_num))] at h; exact h
    have h2 : 2 ^ 192 / 10 * 10 ^ (K + 1) ≤ 2 ^ 192 / 10 * 10 ^ k := Nat.mul_le_mul_left _ h59
    omega

/-- rational reading of a final truncation state whose exponent did not wrap. -/
theorem Tr.contract {P : Nat} {t0 t' : Int8} {e0 : Int16} {r : Gen.decomposed192} (K : Nat)
    (h : Tr P t0 e0 t' r.sig.toNat r.exp) (hP : P < 2 ^ 192 / 10 * 10 ^ (K + 1))
    (hK : K ≤ 100) (hlo : -32768 ≤ e0.toInt) (hhi : e0.toInt + K ≤ 32767) :
    val r ≤ (P : ℚ) * (10 : ℚ) ^ e0.toInt ∧ (P : ℚ) * (10 : ℚ) ^ e0.toInt < val r + ulp r ∧
    (val r = (P : ℚ) * (10 : ℚ) ^ e0.toInt → t' = t0) ∧
    (val r ≠ (P : ℚ) * (10 : ℚ) ^ e0.toInt → t' = 1) ∧
    e0.toInt ≤ r.exp.toInt ∧ r.exp.toInt ≤ e0.toInt + K ∧
    (r.exp = e0 ∨ 2 ^ 192 / 10 ≤ r.sig.toNat) := by
  obtain ⟨k, hc, he, ht, hn⟩ := h
  have hk : k ≤ K := Tr.k_le' K hP (hc ▸ hn)
  have hkk : (Int16.ofNat k).toInt = k := Int16.toInt_ofNat_of_lt (by omega)
  have hexp : r.exp.toInt = e0.toInt + k := by
    rw [he, Int16.toInt_add_of] <;> rw [hkk] <;> omega
  obtain ⟨h1, h2, h3⟩ := trunc_val P k e0.toInt
  unfold val ulp
  rw [hexp, hc]
  refine ⟨h1, h2, ?_, ?_, by omega, by omega, ?_⟩
  · intro h; rw [ht, if_pos (h3.mp h)]
  · intro h; rw [ht, if_neg (fun h' => h (h3.mpr h'))]
  · rcases hn with h0 | h0
    · left; rw [he, h0]; simp
    · right; rw [← hc]; exact h0

theorem i16_ofNat_toInt (k : Nat) (hk : k < 32768) : (Int16.ofNat k).toInt = k :=
  Int16.toInt_ofNat_of_lt hk

end D192
