/-
  D128/Proofs/NeverNaNConv.lean — property C15, clause "never yields NaN from finite operands otherwise":
  the conversions into Decimal (`FromInt64/32`, `FromUint64/32`, `FromInt`, `FromRat`, `FromFloat64/32`)
  and the parser on numerals.  Corollaries of the correctness theorems (C05, C09, C10) and
  `D128/Proofs/NeverNaNSpec.lean`.

  Provided (namespace `NN`):
  * `FromInt64_not_nan`, `FromInt32_not_nan`, `FromUint64_not_nan`, `FromUint32_not_nan`  (all integers)
  * `FromInt_not_nan`               every `big.Int`, valid default mode
  * `FromFloat64_isNaN`, `FromFloat32_isNaN`   NaN out ⇔ NaN in (every float bit pattern, valid default mode)
  * `FromRat_isNaN`                 EXACT: `FromRat r` is a NaN iff BOTH `FromInt(num)` and `FromInt(den)`
                                    overflow to ±Inf
  * `FromRat_not_nan`               … hence never when `|num|` or `den` is at most the largest finite
                                    Decimal `Cmax·10^6111`
  * `FromRat_nan_of_huge`           FINDING (the unrestricted claim is FALSE): if `|num|` and `den` are both
                                    ≥ `(Cmax+1)·10^6111`, `FromRat r` — a finite rational, e.g.
                                    `(10^6200+1)/10^6200 ≈ 1` — is the NaN with payload
                                    `Quo(±Infinite, Infinite)` = `16 | (5 or 6)<<8 | 5<<16`
  * `bigR`, `FromRat_bigR_nan`      the concrete instance `(10^6200+1)/10^6200`
  * `parse_numeral_not_nan`, `parseNumber_not_nan`   a numeral never parses to a NaN
-/
import D128.Proofs.NeverNaNArith
import D128.Proofs.SpecRoundRel
import D128.Props.C05Value
import D128.Props.C09
import D128.Props.C10
import D128.Props.C10b
set_option autoImplicit false

namespace NN
open Spec Go

local notation "𝔳[" d "]" => Spec.interp (Gen.Decimal.lo d) (Gen.Decimal.hi d)

/-! ## fixed-width integers -/

theorem not_nan_of_interp_fin (d : Gen.Decimal) (v : Val) (h : 𝔳[d] = v) (hv : v.isNaN = false) :
    Gen.Decimal.IsNaN d = false := by
  rw [← Enc.interp_isNaN, h, hv]

theorem ite_fromInt_not_nan (p : Prop) [Decidable p] (e : Int) (i : Int) :
    (if p then Val.fin false 0 e else fromInt i).isNaN = false := by
  split
  · rfl
  · exact fromInt_not_nan i

theorem FromInt64_not_nan (i : Int64) : Gen.Decimal.IsNaN (Gen.FromInt64 i) = false :=
  not_nan_of_interp_fin _ _ (Props.C10.fromInt64_interp i) (ite_fromInt_not_nan _ _ _)
theorem FromInt32_not_nan (i : Int32) : Gen.Decimal.IsNaN (Gen.FromInt32 i) = false :=
  not_nan_of_interp_fin _ _ (Props.C10.fromInt32_interp i) (ite_fromInt_not_nan _ _ _)
theorem FromUint64_not_nan (i : UInt64) : Gen.Decimal.IsNaN (Gen.FromUint64 i) = false :=
  not_nan_of_interp_fin _ _ (Props.C10.fromUint64_interp i) (ite_fromInt_not_nan _ _ _)
theorem FromUint32_not_nan (i : UInt32) : Gen.Decimal.IsNaN (Gen.FromUint32 i) = false :=
  not_nan_of_interp_fin _ _ (Props.C10.fromUint32_interp i) (ite_fromInt_not_nan _ _ _)

/-! ## big.Int -/

theorem FromInt_not_nan (g : Globals) (i : Int) (m : Mode)
    (hm : Mode.ofNat? g.DefaultRoundingMode.toNat = some m)
    (hbits : Go.Big.bitLen i.natAbs < 2 ^ 63) :
    ∃ r, Gen.FromInt g i = .ok r ∧ Gen.Decimal.IsNaN r = false := by
  obtain ⟨r, hr, hs⟩ := Props.C10b.fromInt_correct g i m hm hbits
  refine ⟨r, hr, ?_⟩
  rw [nan_of_same r _ hs]
  split
  · rfl
  · exact roundTo_not_nan _ _ _

/-! ## float64 / float32 -/

theorem FromFloat64_isNaN (g : Globals) (f : F64) (m : Mode)
    (hm : Mode.ofNat? g.DefaultRoundingMode.toNat = some m) :
    ∃ r, Gen.FromFloat64 g f = .ok r ∧ Gen.Decimal.IsNaN r = f.isNaN := by
  obtain ⟨r, hr, hs⟩ := Props.C09.fromFloat64_correct g f m hm
  refine ⟨r, hr, ?_⟩
  rw [nan_of_same r _ hs]
  cases hn : f.isNaN
  · simp only [Bool.false_eq_true, if_false]
    split
    · rfl
    · exact flushOrRoundS_not_nan _ _ _ _
  · simp [Val.isNaN]

theorem FromFloat32_isNaN (g : Globals) (f : F32) (m : Mode)
    (hm : Mode.ofNat? g.DefaultRoundingMode.toNat = some m) :
    ∃ r, Gen.FromFloat32 g f = .ok r ∧ Gen.Decimal.IsNaN r = f.isNaN := by
  obtain ⟨r, hr, hs⟩ := Props.C09.fromFloat32_correct g f m hm
  refine ⟨r, hr, ?_⟩
  rw [nan_of_same r _ hs]
  cases hn : f.isNaN
  · simp only [Bool.false_eq_true, if_false]
    split
    · rfl
    · exact flushOrRoundS_not_nan _ _ _ _
  · simp [Val.isNaN]

/-! ## big.Rat -/

theorem roundTo_zero_isInf (m : Mode) (neg : Bool) : (roundTo m neg 0).isInf = false := by
  cases m <;> cases neg <;> decide +kernel

/-- the rounded image of a positive integer is never a zero -/
theorem roundTo_nat_not_zero (m : Mode) (neg : Bool) (n : Nat) (hn : n ≠ 0) :
    (roundTo m neg (n : ℚ)).isZero = false := by
  have h1 : (1 : ℚ) ≤ (n : ℚ) := by exact_mod_cast Nat.one_le_iff_ne_zero.2 hn
  cases hv : roundTo m neg (n : ℚ) with
  | nan a p => rfl
  | inf a => rfl
  | fin a c e =>
    have := SpecRound.roundTo_pos_of_ge_one h1 hv
    cases c with
    | zero => simp at this; linarith
    | succ k => rfl

/-- **FromRat**, exact NaN condition: the result is a NaN iff the numerator is non-zero and BOTH
    `FromInt(num)` and `FromInt(den)` overflow to an infinity (then `Inf.Quo(Inf)` is invalid). -/
theorem FromRat_isNaN (g : Globals) (r : Rat) (m : Mode)
    (hm : Mode.ofNat? g.DefaultRoundingMode.toNat = some m)
    (hn : Go.Big.bitLen r.num.natAbs < 2 ^ 63) (hd : Go.Big.bitLen r.den < 2 ^ 63) :
    ∃ d, Gen.FromRat g r = .ok d ∧
      Gen.Decimal.IsNaN d =
        ((roundTo m (decide (r.num < 0)) (r.num.natAbs : ℚ)).isInf &&
         (roundTo m false (r.den : ℚ)).isInf) := by
  obtain ⟨d, hr, hs⟩ := Props.C10b.fromRat_spec g r m hm hn hd
  refine ⟨d, hr, ?_⟩
  rw [nan_of_same d _ hs]
  by_cases h0 : r.num = 0
  · rw [if_pos h0, h0]
    simp only [Int.natAbs_zero, Nat.cast_zero, roundTo_zero_isInf, Bool.false_and]
    rfl
  · rw [if_neg h0, quo_isNaN, roundTo_not_nan, roundTo_not_nan,
      roundTo_nat_not_zero m _ _ (Int.natAbs_ne_zero.2 h0),
      roundTo_nat_not_zero m _ _ (Nat.pos_iff_ne_zero.1 r.den_pos)]
    simp

/-- … hence `FromRat` never returns a NaN when the numerator or the denominator is at most the largest
    finite Decimal -/
theorem FromRat_not_nan (g : Globals) (r : Rat) (m : Mode)
    (hm : Mode.ofNat? g.DefaultRoundingMode.toNat = some m)
    (hn : Go.Big.bitLen r.num.natAbs < 2 ^ 63) (hd : Go.Big.bitLen r.den < 2 ^ 63)
    (hsmall : (r.num.natAbs : ℚ) ≤ (Cmax : ℚ) * (10 : ℚ) ^ Emax ∨
      (r.den : ℚ) ≤ (Cmax : ℚ) * (10 : ℚ) ^ Emax) :
    ∃ d, Gen.FromRat g r = .ok d ∧ Gen.Decimal.IsNaN d = false := by
  obtain ⟨d, hr, hs⟩ := FromRat_isNaN g r m hm hn hd
  refine ⟨d, hr, ?_⟩
  rw [hs]
  have hdpos : (0 : ℚ) < (r.den : ℚ) := by exact_mod_cast r.den_pos
  rcases hsmall with h | h
  · by_cases h0 : r.num = 0
    · rw [h0]
      simp only [Int.natAbs_zero, Nat.cast_zero, roundTo_zero_isInf, Bool.false_and]
    · have hpos : (0 : ℚ) < (r.num.natAbs : ℚ) := by
        exact_mod_cast Nat.pos_of_ne_zero (Int.natAbs_ne_zero.2 h0)
      cases hv : roundTo m (decide (r.num < 0)) (r.num.natAbs : ℚ) with
      | nan a p => rfl
      | fin a c e => rfl
      | inf a => exact absurd (SpecRound.roundTo_inf_gt_max hpos hv) (not_lt.2 h)
  · cases hv : roundTo m false (r.den : ℚ) with
    | nan a p => simp [Val.isInf]
    | fin a c e => simp [Val.isInf]
    | inf a => exact absurd (SpecRound.roundTo_inf_gt_max hdpos hv) (not_lt.2 h)

/-- **FINDING** (so "never NaN from finite operands" is FALSE for `FromRat`): when the numerator and the
    denominator both exceed the Decimal range — the quotient may be any ordinary number, e.g.
    `(10^6200+1)/10^6200 = 1.000…` — both `FromInt` calls return an infinity and `FromRat` returns the NaN
    of the invalid operation `Inf.Quo(Inf)`; its payload reads `Quo(Infinite, Infinite)` resp.
    `Quo(-Infinite, Infinite)`. -/
theorem FromRat_nan_of_huge (g : Globals) (r : Rat) (m : Mode)
    (hm : Mode.ofNat? g.DefaultRoundingMode.toNat = some m)
    (hn : Go.Big.bitLen r.num.natAbs < 2 ^ 63) (hd : Go.Big.bitLen r.den < 2 ^ 63)
    (hnum : ((Cmax : ℚ) + 1) * (10 : ℚ) ^ Emax ≤ (r.num.natAbs : ℚ))
    (hden : ((Cmax : ℚ) + 1) * (10 : ℚ) ^ Emax ≤ (r.den : ℚ)) :
    ∃ d, Gen.FromRat g r = .ok d ∧ Gen.Decimal.IsNaN d = true ∧
      Gen.Decimal.Payload_ d =
        .ok (Op.quo.code ||| (if r.num < 0 then (6 : UInt64) else 5) <<< 8 ||| (5 : UInt64) <<< 16) := by
  obtain ⟨d, hr, hs⟩ := Props.C10b.fromRat_spec g r m hm hn hd
  have h0 : r.num ≠ 0 := by
    intro h
    rw [h] at hnum
    have h1 : (0 : ℚ) < ((Cmax : ℚ) + 1) * (10 : ℚ) ^ Emax :=
      mul_pos (add_pos_of_nonneg_of_pos (Nat.cast_nonneg _) one_pos) (zpow_pos (by norm_num) _)
    simp at hnum
    linarith
  rw [if_neg h0, BigConv.roundTo_inf_of_ge m _ _ hnum, BigConv.roundTo_inf_of_ge m _ _ hden] at hs
  refine ⟨d, hr, ?_, ?_⟩
  · rw [nan_of_same d _ hs]; rfl
  · apply Sp.payload_of_same d false
    by_cases hneg : r.num < 0
    · simpa [hneg, quo, invalid2, invalid, classCode] using hs
    · simpa [hneg, quo, invalid2, invalid, classCode] using hs

/-! ## the parser -/

theorem parseNumber_not_nan (g : Globals) (d : Go.Bytes) (neg sep : Bool) (m : Mode)
    (hm : Mode.ofNat? g.DefaultRoundingMode.toNat = some m) (hsz : d.size + 6216 ≤ 2 ^ 58)
    (n : Nat) (sc : Int) (h : Spec.readNumber sep (Props.C05.chars d) = some (n, sc)) :
    ∃ v e, Gen.parseNumber g d neg sep = .ok (v, e) ∧ Gen.Decimal.IsNaN v = false := by
  obtain ⟨v, e, hv, hs, -⟩ := Props.C05.parseNumber_value g d neg sep m hm hsz n sc h
  exact ⟨v, e, hv, by rw [nan_of_same v _ hs, literalValue_not_nan]⟩

/-- every input that the grammar reads as a numeral (not as one of the names `Inf`, `Infinity`, `NaN`)
    parses to a non-NaN Decimal -/
theorem parse_numeral_not_nan (g : Globals) (d : Go.Bytes) (op : UInt64) (m : Mode)
    (hm : Mode.ofNat? g.DefaultRoundingMode.toNat = some m) (hsz : d.size + 6216 ≤ 2 ^ 58)
    (neg : Bool) (n : Nat) (sc : Int)
    (h : Spec.readLiteral true true (Props.C05.chars d) = some (.num neg n sc)) :
    ∃ v e, Gen.parse g d op = .ok (v, e) ∧ Gen.Decimal.IsNaN v = false := by
  obtain ⟨v, e, hv, hs, -⟩ := Props.C05.parse_value g d op m hm hsz neg n sc h
  exact ⟨v, e, hv, by rw [nan_of_same v _ hs, literalValue_not_nan]⟩

/-! ## a concrete instance of `FromRat_nan_of_huge` -/

section
set_option exponentiation.threshold 30000
set_option maxRecDepth 8192

theorem coprime_succ (n : ℕ) : Nat.Coprime (n + 1) n := by simp [Nat.coprime_iff_gcd_eq_one]

/-- the rational `(10^6200 + 1) / 10^6200` -/
def bigR : ℚ := ((10 ^ 6200 + 1 : ℕ) : ℚ) / ((10 ^ 6200 : ℕ) : ℚ)

theorem bigR_num : bigR.num = ((10 ^ 6200 + 1 : ℕ) : ℤ) := by
  unfold bigR
  rw [← Int.cast_natCast (10 ^ 6200 + 1), ← Int.cast_natCast (10 ^ 6200)]
  apply Rat.num_div_eq_of_coprime (by positivity)
  rw [Int.natAbs_natCast, Int.natAbs_natCast]
  exact coprime_succ _

theorem bigR_den : bigR.den = 10 ^ 6200 := by
  unfold bigR
  rw [← Int.cast_natCast (10 ^ 6200 + 1), ← Int.cast_natCast (10 ^ 6200)]
  have := Rat.den_div_eq_of_coprime (a := ((10 ^ 6200 + 1 : ℕ) : ℤ)) (b := ((10 ^ 6200 : ℕ) : ℤ)) (by positivity) (by
    rw [Int.natAbs_natCast, Int.natAbs_natCast]
    exact coprime_succ _)
  exact_mod_cast this

theorem huge_le : ((Spec.Cmax : ℚ) + 1) * (10 : ℚ) ^ Spec.Emax ≤ ((10 ^ 6200 : ℕ) : ℚ) := by
  have h1 : ((Spec.Cmax : ℚ) + 1) ≤ (10 : ℚ) ^ (35 : ℕ) := by
    unfold Spec.Cmax; norm_num
  have h2 : (10 : ℚ) ^ Spec.Emax = (10 : ℚ) ^ (6111 : ℕ) := by
    unfold Spec.Emax; norm_cast
  rw [h2]
  calc ((Spec.Cmax : ℚ) + 1) * (10 : ℚ) ^ (6111 : ℕ) ≤ (10 : ℚ) ^ (35 : ℕ) * (10 : ℚ) ^ (6111 : ℕ) :=
        mul_le_mul_of_nonneg_right h1 (by positivity)
    _ = (10 : ℚ) ^ (6146 : ℕ) := by rw [← pow_add]
    _ ≤ (10 : ℚ) ^ (6200 : ℕ) := pow_le_pow_right₀ (by norm_num) (by norm_num)
    _ = ((10 ^ 6200 : ℕ) : ℚ) := by push_cast; rfl

/-- the concrete instance of the finding, default mode nearest-even: `FromRat((10^6200+1)/10^6200)` is a NaN
    (the value is `1.000…0001`) -/
theorem FromRat_bigR_nan (g : Globals) (hg : g.DefaultRoundingMode = 0) :
    ∃ d, Gen.FromRat g bigR = .ok d ∧ Gen.Decimal.IsNaN d = true := by
  have hb : ∀ n : ℕ, n ≤ 10 ^ 6200 + 1 → Go.Big.bitLen n < 2 ^ 63 := fun n hn =>
    BigConv.bitLen_lt_of_lt (L := 24804) (lt_of_le_of_lt hn (by
      calc 10 ^ 6200 + 1 < 10 ^ 6201 := by norm_num
        _ ≤ 2 ^ (4 * 6201) := BigConv.pow10_le_pow2 _)) (by norm_num)
  obtain ⟨d, h1, h2, -⟩ := FromRat_nan_of_huge g bigR .nearestEven (by rw [hg]; rfl)
    (by rw [bigR_num, Int.natAbs_natCast]; exact hb _ le_rfl)
    (by rw [bigR_den]; exact hb _ (by omega))
    (by rw [bigR_num, Int.natAbs_natCast]; exact le_trans huge_le (by exact_mod_cast Nat.le_succ _))
    (by rw [bigR_den]; exact huge_le)
  exact ⟨d, h1, h2⟩

end

end NN
