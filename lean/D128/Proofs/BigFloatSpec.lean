/-
  D128/Proofs/BigFloatSpec.lean — what `Go.BigFloat.roundBits` (D128/Go/BigFloat.lean, the one rounding
  function of the `math/big.Float` value model) computes.  Everything is about the model's own definitions
  (`roundBits`, `exponent`, `fits`, `oddPart`, `pow2`, `roundUp`); `q` is the magnitude, `neg` the sign.

  Helpers (namespace `BF`)
  * `pow2_eq`            `Go.BigFloat.pow2 e = 2^e`
  * `bitLen_lt`, `bitLen_ge`, `bitLen_le_iff`   `2^(bitLen n - 1) ≤ n < 2^(bitLen n)`
  * `exponent_spec`, `exponent_eq`   `q > 0 ⇒ 2^(exponent q − 1) ≤ q < 2^(exponent q)`, and that determines it
  * `lowbit_spec`        `n > 0 ⇒ n − (n &&& (n−1)) = 2^k` with `2^k ∣ n` and `n / 2^k` odd
  * `oddPart_spec`       `n > 0 ⇒ n = (oddPart n).1 · 2^(oddPart n).2`, `(oddPart n).1` odd
  * `Rep prec q`         `q = M·2^E` with an integer `M < 2^prec` ("at most `prec` significant bits")
  * `fits_rep`           `fits prec q = true ⇒ Rep prec q`
  * `Bracket prec q m u` `2^(prec−1) ≤ m < 2^prec`, `m·2^u ≤ q < (m+1)·2^u`: the two neighbours of `q` among the
                         numbers with `prec` significant bits; `Bracket.unique`, `bracket_exists`,
                         `Bracket.of_rep` (a representable `q` is its own lower neighbour), `Bracket.exponent`
  The rounding function
  * `pick mode neg q m u`   the neighbour the mode selects: `q` if `q = m·2^u`, else the upper neighbour iff
                         `roundUp mode neg (m odd) (position of q relative to the midpoint)`
  * `roundBits_eq`       `prec > 0`, `q > 0`, `Bracket prec q m u ⇒ roundBits prec mode neg q = pick mode neg q m u`
                         (both branches of `roundBits`: the `fits` shortcut and the general computation)
  * `roundBits_bracket`  … with the bracket existentially quantified
  * per mode: `pick_toZero`, `pick_away`, `pick_negInf`, `pick_posInf`, `pick_nearest_below/above`,
    `pick_even_tie`, `pick_away_tie`, `pick_other` (a byte > 5 acts like ToZero)
  * `roundBits_rep`      the result has at most `prec` significant bits
  * `roundBits_exact`, `roundBits_nat`, `roundBits_idem`   exact on representables
  * `roundBits_rel_err`          `|roundBits … q − q| < 2^(1−prec)·q`        (every mode)
  * `roundBits_rel_err_nearest`  `|roundBits … q − q| ≤ 2^(−prec)·q`         (modes 0 and 1)
  * `roundBits_toZero_le`, `roundBits_away_ge`, `roundBits_negInf`, `roundBits_posInf`   side of the directed modes
  * `roundBits_pos`, `roundBits_binade`, `roundBits_zero`
  * `rep_fits`, `fits_iff`, `roundBits_fits`   `fits prec q = true ↔ Rep prec q`; the result passes `fits`
-/
import D128.Go.BigFloat
import Mathlib.Data.Rat.Floor
import Mathlib.Data.Nat.Bits
import Mathlib.Data.Nat.Bitwise
import Mathlib.Data.Nat.Prime.Basic
import Mathlib.Algebra.Order.Floor.Ring
import Mathlib.Algebra.Order.Floor.Semifield
import Mathlib.Tactic.Linarith
import Mathlib.Tactic.Positivity
import Mathlib.Tactic.FieldSimp
import Mathlib.Tactic.Ring
import Mathlib.Tactic.NormNum
set_option autoImplicit false

namespace BF
open Go Go.BigFloat

theorem two_zpow_pos (k : ℤ) : (0 : ℚ) < 2 ^ k := zpow_pos (by norm_num) k

theorem pow2_eq (e : ℤ) : Go.BigFloat.pow2 e = (2 : ℚ) ^ e := by
  unfold Go.BigFloat.pow2
  split
  · rename_i h
    obtain ⟨k, rfl⟩ : ∃ k : ℕ, e = k := ⟨e.toNat, by omega⟩
    simp
  · rename_i h
    obtain ⟨k, hk⟩ : ∃ k : ℕ, -e = k := ⟨(-e).toNat, by omega⟩
    have : e = -(k : ℤ) := by omega
    rw [hk, this, zpow_neg, zpow_natCast, Rat.divInt_eq_div]; simp

/-! ## bit lengths -/

theorem bitLen_lt (n : ℕ) : n < 2 ^ Big.bitLen n := by
  unfold Big.bitLen
  split
  · rename_i h; subst h; simp
  · exact Nat.lt_log2_self

theorem bitLen_ge (n : ℕ) (hn : n ≠ 0) : 2 ^ (Big.bitLen n - 1) ≤ n := by
  unfold Big.bitLen
  rw [if_neg hn, Nat.add_sub_cancel]
  exact Nat.log2_self_le hn

theorem bitLen_pos (n : ℕ) (hn : n ≠ 0) : 0 < Big.bitLen n := by
  unfold Big.bitLen
  rw [if_neg hn]; omega

theorem bitLen_le_iff (n L : ℕ) : Big.bitLen n ≤ L ↔ n < 2 ^ L := by
  unfold Big.bitLen
  by_cases h : n = 0
  · subst h; simp
  · rw [if_neg h, Nat.add_one_le_iff, Nat.log2_lt h]

theorem bitLen_ltQ (n : ℕ) : (n : ℚ) < (2 : ℚ) ^ (Big.bitLen n : ℤ) := by
  rw [zpow_natCast]; exact_mod_cast bitLen_lt n

theorem bitLen_geQ (n : ℕ) (hn : n ≠ 0) : (2 : ℚ) ^ ((Big.bitLen n : ℤ) - 1) ≤ (n : ℚ) := by
  have h1 := bitLen_pos n hn
  have : ((Big.bitLen n : ℤ) - 1) = ((Big.bitLen n - 1 : ℕ) : ℤ) := by omega
  rw [this, zpow_natCast]; exact_mod_cast bitLen_ge n hn

/-! ## the binary exponent -/

theorem q_eq_div (q : ℚ) (hq : 0 < q) : q = (q.num.natAbs : ℚ) / (q.den : ℚ) := by
  have hnum : 0 < q.num := Rat.num_pos.2 hq
  have hcast : ((q.num.natAbs : ℕ) : ℚ) = (q.num : ℚ) := by
    have : ((q.num.natAbs : ℕ) : ℤ) = q.num := by omega
    rw [← Int.cast_natCast, this]
  rw [hcast]; exact (Rat.num_div_den q).symm

theorem natAbs_num_ne (q : ℚ) (hq : 0 < q) : q.num.natAbs ≠ 0 := by
  have hnum : 0 < q.num := Rat.num_pos.2 hq
  omega

/-- `exponent q` is the `e` with `2^(e-1) ≤ q < 2^e` -/
theorem exponent_spec (q : ℚ) (hq : 0 < q) :
    (2 : ℚ) ^ (exponent q - 1) ≤ q ∧ q < (2 : ℚ) ^ (exponent q) := by
  have hn := natAbs_num_ne q hq
  have hqe := q_eq_div q hq
  have hdpos : (0 : ℚ) < (q.den : ℚ) := by exact_mod_cast q.den_pos
  have hapos : (0 : ℚ) < (q.num.natAbs : ℚ) := by exact_mod_cast Nat.pos_of_ne_zero hn
  have a1 := bitLen_geQ q.num.natAbs hn
  have a2 := bitLen_ltQ q.num.natAbs
  have b1 := bitLen_geQ q.den q.den_nz
  have b2 := bitLen_ltQ q.den
  set a : ℤ := (Big.bitLen q.num.natAbs : ℤ) with ha
  set b : ℤ := (Big.bitLen q.den : ℤ) with hb
  have hp := two_zpow_pos
  have lower : (2 : ℚ) ^ (a - b - 1) < q := by
    have : (2 : ℚ) ^ (a - b - 1) = 2 ^ (a - 1) / 2 ^ b := by
      rw [← zpow_sub₀ (by norm_num)]; congr 1; ring
    rw [this, hqe, div_lt_div_iff₀ (hp _) hdpos]
    calc (2 : ℚ) ^ (a - 1) * (q.den : ℚ) < 2 ^ (a - 1) * 2 ^ b := mul_lt_mul_of_pos_left b2 (hp _)
      _ ≤ (q.num.natAbs : ℚ) * 2 ^ b := mul_le_mul_of_nonneg_right a1 (hp _).le
  have upper : q < (2 : ℚ) ^ (a - b + 1) := by
    have : (2 : ℚ) ^ (a - b + 1) = 2 ^ a / 2 ^ (b - 1) := by
      rw [← zpow_sub₀ (by norm_num)]; congr 1; ring
    rw [this, hqe, div_lt_div_iff₀ hdpos (hp _)]
    calc (q.num.natAbs : ℚ) * 2 ^ (b - 1) < 2 ^ a * 2 ^ (b - 1) := mul_lt_mul_of_pos_right a2 (hp _)
      _ ≤ 2 ^ a * (q.den : ℚ) := mul_le_mul_of_nonneg_left b1 (hp _).le
  -- the test `below` decides `q < 2^(a-b)`
  have hbelow : (if a - b ≥ 0 then q.num.natAbs < q.den * 2 ^ (a - b).toNat
      else q.num.natAbs * 2 ^ (-(a - b)).toNat < q.den) ↔ q < (2 : ℚ) ^ (a - b) := by
    split
    · rename_i h
      obtain ⟨k, hk⟩ : ∃ k : ℕ, a - b = k := ⟨(a - b).toNat, by omega⟩
      rw [hk, Int.toNat_natCast, zpow_natCast]
      conv_rhs => rw [hqe, div_lt_iff₀ hdpos, mul_comm]
      exact_mod_cast Iff.rfl
    · rename_i h
      obtain ⟨k, hk⟩ : ∃ k : ℕ, -(a - b) = k := ⟨(-(a - b)).toNat, by omega⟩
      have h2 : a - b = -(k : ℤ) := by omega
      rw [hk, Int.toNat_natCast, h2, zpow_neg, zpow_natCast]
      have hk2 : (0 : ℚ) < 2 ^ k := by positivity
      conv_rhs => rw [hqe, div_lt_iff₀ hdpos, ← div_eq_inv_mul, lt_div_iff₀ hk2]
      exact_mod_cast Iff.rfl
  unfold exponent
  simp only [← ha, ← hb]
  by_cases h : q < (2 : ℚ) ^ (a - b)
  · rw [if_pos (hbelow.2 h)]
    exact ⟨lower.le, h⟩
  · rw [if_neg (fun h' => h (hbelow.1 h'))]
    simp only [add_sub_cancel_right]
    exact ⟨not_lt.1 h, upper⟩

/-- the `e` with `2^(e-1) ≤ q < 2^e` is unique -/
theorem binade_unique (q : ℚ) (e e' : ℤ) (h1 : (2 : ℚ) ^ (e - 1) ≤ q) (h2 : q < (2 : ℚ) ^ e)
    (h1' : (2 : ℚ) ^ (e' - 1) ≤ q) (h2' : q < (2 : ℚ) ^ e') : e = e' := by
  have a : e - 1 < e' := (zpow_lt_zpow_iff_right₀ (by norm_num : (1 : ℚ) < 2)).1 (lt_of_le_of_lt h1 h2')
  have b : e' - 1 < e := (zpow_lt_zpow_iff_right₀ (by norm_num : (1 : ℚ) < 2)).1 (lt_of_le_of_lt h1' h2)
  omega

theorem exponent_eq (q : ℚ) (e : ℤ) (h1 : (2 : ℚ) ^ (e - 1) ≤ q) (h2 : q < (2 : ℚ) ^ e) :
    exponent q = e := by
  have hq : 0 < q := lt_of_lt_of_le (two_zpow_pos _) h1
  obtain ⟨a, b⟩ := exponent_spec q hq
  exact binade_unique q _ _ a b h1 h2

/-! ## the lowest set bit, `oddPart`, `fits` -/

theorem and_odd (m : ℕ) : (2 * m + 1) &&& (2 * m) = 2 * m := by
  have e1 : 2 * m + 1 = Nat.bit true m := by simp [Nat.bit_val]
  have e2 : 2 * m = Nat.bit false m := by simp [Nat.bit_val]
  rw [e1]
  conv_lhs => rw [e2]
  rw [Nat.land_bit]
  simp [Nat.bit_val]

theorem and_even (m : ℕ) (hm : 0 < m) : (2 * m) &&& (2 * m - 1) = 2 * (m &&& (m - 1)) := by
  have e1 : 2 * m - 1 = Nat.bit true (m - 1) := by simp [Nat.bit_val]; omega
  have e2 : 2 * m = Nat.bit false m := by simp [Nat.bit_val]
  rw [e1]
  conv_lhs => rw [e2]
  rw [Nat.land_bit]
  simp [Nat.bit_val]

/-- `n - (n &&& (n-1))` is the lowest set bit of `n > 0` -/
theorem lowbit_spec (n : ℕ) (hn : 0 < n) :
    ∃ k, n - (n &&& (n - 1)) = 2 ^ k ∧ 2 ^ k ∣ n ∧ (n / 2 ^ k) % 2 = 1 := by
  induction n using Nat.strong_induction_on with
  | _ n ih =>
    rcases Nat.even_or_odd' n with ⟨m, rfl | rfl⟩
    · have hm : 0 < m := by omega
      obtain ⟨k, h1, h2, h3⟩ := ih m (by omega) hm
      refine ⟨k + 1, ?_, ?_, ?_⟩
      · rw [and_even m hm, pow_succ, ← h1]
        have := Nat.and_le_left (n := m) (m := m - 1)
        omega
      · rw [pow_succ, mul_comm]; exact Nat.mul_dvd_mul_left 2 h2
      · rw [pow_succ, mul_comm (2 ^ k), Nat.mul_div_mul_left _ _ (by norm_num)]; exact h3
    · refine ⟨0, ?_, by simp, ?_⟩
      · rw [Nat.add_sub_cancel, and_odd]; simp
      · simp

/-- `oddPart n = (odd, tz)` with `n = odd·2^tz`, `odd` odd -/
theorem oddPart_spec (n : ℕ) (hn : 0 < n) :
    n = (oddPart n).1 * 2 ^ (oddPart n).2 ∧ (oddPart n).1 % 2 = 1 := by
  obtain ⟨k, h1, h2, h3⟩ := lowbit_spec n hn
  unfold oddPart
  rw [if_neg (by omega)]
  simp only [h1, Nat.log2_two_pow]
  exact ⟨(Nat.div_mul_cancel h2).symm, h3⟩

/-- a positive `d` with `d &&& (d-1) = 0` is a power of two -/
theorem den_pow2_of_and (d : ℕ) (hd : 0 < d) (h : d &&& (d - 1) = 0) : ∃ j, d = 2 ^ j := by
  obtain ⟨k, h1, -, -⟩ := lowbit_spec d hd
  rw [h, Nat.sub_zero] at h1
  exact ⟨k, h1⟩

/-- `q` has at most `prec` significant bits: `q = M·2^E` with an integer `M < 2^prec` -/
def Rep (prec : ℕ) (q : ℚ) : Prop := ∃ (M : ℕ) (E : ℤ), M < 2 ^ prec ∧ q = (M : ℚ) * (2 : ℚ) ^ E

theorem Rep.mono {p p' : ℕ} {q : ℚ} (h : Rep p q) (hp : p ≤ p') : Rep p' q := by
  obtain ⟨M, E, h1, h2⟩ := h
  exact ⟨M, E, lt_of_lt_of_le h1 (Nat.pow_le_pow_right (by norm_num) hp), h2⟩

theorem rep_nat (prec n : ℕ) (h : n < 2 ^ prec) : Rep prec (n : ℚ) := ⟨n, 0, h, by simp⟩

/-- what `fits` tests (the direction that is needed: a value that `roundBits` returns unchanged is
    representable) -/
theorem fits_rep (prec : ℕ) (q : ℚ) (hq : 0 < q) (h : fits prec q = true) : Rep prec q := by
  unfold fits at h
  rw [Bool.and_eq_true, beq_iff_eq, decide_eq_true_eq] at h
  obtain ⟨hd, hb⟩ := h
  obtain ⟨j, hj⟩ := den_pow2_of_and q.den q.den_pos hd
  have hn := natAbs_num_ne q hq
  obtain ⟨ha, -⟩ := oddPart_spec q.num.natAbs (Nat.pos_of_ne_zero hn)
  rw [bitLen_le_iff] at hb
  refine ⟨(oddPart q.num.natAbs).1, ((oddPart q.num.natAbs).2 : ℤ) - (j : ℤ), hb, ?_⟩
  conv_lhs => rw [q_eq_div q hq, hj, ha]
  rw [zpow_sub₀ (by norm_num), zpow_natCast, zpow_natCast]
  push_cast
  ring

/-! ## the bracket: the two neighbours of `q` among the numbers with `prec` significant bits -/

/-- `m·2^u ≤ q < (m+1)·2^u` with a normalised `prec`-bit mantissa `m` -/
structure Bracket (prec : ℕ) (q : ℚ) (m : ℕ) (u : ℤ) : Prop where
  mlo : 2 ^ (prec - 1) ≤ m
  mhi : m < 2 ^ prec
  le : (m : ℚ) * (2 : ℚ) ^ u ≤ q
  lt : q < ((m : ℚ) + 1) * (2 : ℚ) ^ u

theorem Bracket.mloQ {prec : ℕ} {q : ℚ} {m : ℕ} {u : ℤ} (h : Bracket prec q m u) (hp : 0 < prec) :
    (2 : ℚ) ^ ((prec : ℤ) - 1) ≤ (m : ℚ) := by
  have : ((prec : ℤ) - 1) = ((prec - 1 : ℕ) : ℤ) := by omega
  rw [this, zpow_natCast]; exact_mod_cast h.mlo

theorem Bracket.mhiQ {prec : ℕ} {q : ℚ} {m : ℕ} {u : ℤ} (h : Bracket prec q m u) :
    (m : ℚ) + 1 ≤ (2 : ℚ) ^ (prec : ℤ) := by
  rw [zpow_natCast]; exact_mod_cast h.mhi

theorem Bracket.pos {prec : ℕ} {q : ℚ} {m : ℕ} {u : ℤ} (h : Bracket prec q m u) : 0 < q := by
  have h1 : 0 < m := lt_of_lt_of_le (Nat.pow_pos (by norm_num)) h.mlo
  have : (0 : ℚ) < (m : ℚ) * (2 : ℚ) ^ u := mul_pos (by exact_mod_cast h1) (two_zpow_pos u)
  exact lt_of_lt_of_le this h.le

/-- `q` lies in the binade `[2^(u+prec-1), 2^(u+prec))` -/
theorem Bracket.binade {prec : ℕ} {q : ℚ} {m : ℕ} {u : ℤ} (h : Bracket prec q m u) (hp : 0 < prec) :
    (2 : ℚ) ^ (u + prec - 1) ≤ q ∧ q < (2 : ℚ) ^ (u + prec) := by
  have hu := two_zpow_pos u
  constructor
  · have : (2 : ℚ) ^ (u + prec - 1) = (2 : ℚ) ^ ((prec : ℤ) - 1) * 2 ^ u := by
      rw [← zpow_add₀ (by norm_num)]; congr 1; ring
    rw [this]
    exact le_trans (mul_le_mul_of_nonneg_right (h.mloQ hp) hu.le) h.le
  · have : (2 : ℚ) ^ (u + prec) = (2 : ℚ) ^ (prec : ℤ) * 2 ^ u := by
      rw [← zpow_add₀ (by norm_num)]; congr 1; ring
    rw [this]
    exact lt_of_lt_of_le h.lt (mul_le_mul_of_nonneg_right h.mhiQ hu.le)

theorem Bracket.exponent {prec : ℕ} {q : ℚ} {m : ℕ} {u : ℤ} (h : Bracket prec q m u) (hp : 0 < prec) :
    Go.BigFloat.exponent q = u + prec := by
  obtain ⟨a, b⟩ := h.binade hp
  exact exponent_eq q _ a b

/-- the bracket is unique -/
theorem Bracket.unique {prec : ℕ} {q : ℚ} {m m' : ℕ} {u u' : ℤ} (hp : 0 < prec)
    (h : Bracket prec q m u) (h' : Bracket prec q m' u') : m = m' ∧ u = u' := by
  have hu : u = u' := by
    have := h.exponent hp
    rw [h'.exponent hp] at this
    omega
  subst hu
  refine ⟨?_, rfl⟩
  have hu := two_zpow_pos u
  have a : (m : ℚ) < (m' : ℚ) + 1 := by
    have := lt_of_le_of_lt h.le h'.lt
    exact lt_of_mul_lt_mul_right this hu.le
  have b : (m' : ℚ) < (m : ℚ) + 1 := by
    have := lt_of_le_of_lt h'.le h.lt
    exact lt_of_mul_lt_mul_right this hu.le
  have a' : m < m' + 1 := by exact_mod_cast a
  have b' : m' < m + 1 := by exact_mod_cast b
  omega

/-- every `q > 0` has a bracket (for `prec > 0`): `u = exponent q − prec`, `m = ⌊q/2^u⌋` -/
theorem bracket_exists (prec : ℕ) (q : ℚ) (hp : 0 < prec) (hq : 0 < q) :
    Bracket prec q ⌊q / (2 : ℚ) ^ (Go.BigFloat.exponent q - prec)⌋₊ (Go.BigFloat.exponent q - prec) := by
  obtain ⟨e1, e2⟩ := exponent_spec q hq
  set e := Go.BigFloat.exponent q with he
  set u : ℤ := e - prec with hu
  have hup := two_zpow_pos u
  set x : ℚ := q / (2 : ℚ) ^ u with hx
  have hx0 : 0 ≤ x := (div_pos hq hup).le
  have x1 : (2 : ℚ) ^ ((prec : ℤ) - 1) ≤ x := by
    rw [hx, le_div_iff₀ hup, ← zpow_add₀ (by norm_num)]
    have : (prec : ℤ) - 1 + u = e - 1 := by omega
    rw [this]; exact e1
  have x2 : x < (2 : ℚ) ^ (prec : ℤ) := by
    rw [hx, div_lt_iff₀ hup, ← zpow_add₀ (by norm_num)]
    have : (prec : ℤ) + u = e := by omega
    rw [this]; exact e2
  have f1 : ((⌊x⌋₊ : ℕ) : ℚ) ≤ x := Nat.floor_le hx0
  have f2 : x < ((⌊x⌋₊ : ℕ) : ℚ) + 1 := Nat.lt_floor_add_one x
  refine ⟨?_, ?_, ?_, ?_⟩
  · apply Nat.le_floor
    have : ((prec : ℤ) - 1) = ((prec - 1 : ℕ) : ℤ) := by omega
    rw [this, zpow_natCast] at x1
    exact_mod_cast x1
  · rw [Nat.floor_lt hx0]
    rw [zpow_natCast] at x2
    exact_mod_cast x2
  · have := mul_le_mul_of_nonneg_right f1 hup.le
    rwa [hx, div_mul_cancel₀ _ hup.ne'] at this
  · have := mul_lt_mul_of_pos_right f2 hup
    rwa [hx, div_mul_cancel₀ _ hup.ne'] at this

/-- a representable `q` is its own lower neighbour -/
theorem Bracket.of_rep {prec : ℕ} {q : ℚ} {m : ℕ} {u : ℤ} (h : Bracket prec q m u) (hp : 0 < prec)
    (hr : Rep prec q) : q = (m : ℚ) * (2 : ℚ) ^ u := by
  obtain ⟨M, E, hM, hq⟩ := hr
  have hup := two_zpow_pos u
  -- x = q / 2^u = M·2^(E-u) ∈ [m, m+1)
  have hx : q = (M : ℚ) * (2 : ℚ) ^ (E - u) * (2 : ℚ) ^ u := by
    rw [mul_assoc, ← zpow_add₀ (by norm_num), sub_add_cancel]; exact hq
  have a : (m : ℚ) ≤ (M : ℚ) * (2 : ℚ) ^ (E - u) := by
    have := h.le; rw [hx] at this
    exact le_of_mul_le_mul_right this hup
  have b : (M : ℚ) * (2 : ℚ) ^ (E - u) < (m : ℚ) + 1 := by
    have := h.lt; rw [hx] at this
    exact lt_of_mul_lt_mul_right this hup.le
  rcases le_or_gt 0 (E - u) with hk | hk
  · obtain ⟨k, hk'⟩ : ∃ k : ℕ, E - u = k := ⟨(E - u).toNat, by omega⟩
    rw [hk', zpow_natCast] at a b
    have a' : m ≤ M * 2 ^ k := by exact_mod_cast a
    have b' : M * 2 ^ k < m + 1 := by exact_mod_cast b
    have : M * 2 ^ k = m := by omega
    rw [hx, hk', zpow_natCast]
    congr 1
    exact_mod_cast this
  · exfalso
    have h1 : (2 : ℚ) ^ (E - u) ≤ (2 : ℚ) ^ (-1 : ℤ) :=
      zpow_le_zpow_right₀ (by norm_num) (by omega)
    have h2 : (M : ℚ) < (2 : ℚ) ^ (prec : ℤ) := by
      rw [zpow_natCast]; exact_mod_cast hM
    have h3 := h.mloQ hp
    have h4 : (2 : ℚ) ^ (prec : ℤ) * (2 : ℚ) ^ (-1 : ℤ) = (2 : ℚ) ^ ((prec : ℤ) - 1) := by
      rw [← zpow_add₀ (by norm_num)]; congr 1
    have h5 : (M : ℚ) * (2 : ℚ) ^ (E - u) < (2 : ℚ) ^ ((prec : ℤ) - 1) := by
      rw [← h4]
      calc (M : ℚ) * (2 : ℚ) ^ (E - u) ≤ (M : ℚ) * (2 : ℚ) ^ (-1 : ℤ) :=
            mul_le_mul_of_nonneg_left h1 (Nat.cast_nonneg _)
        _ < (2 : ℚ) ^ (prec : ℤ) * (2 : ℚ) ^ (-1 : ℤ) :=
            mul_lt_mul_of_pos_right h2 (two_zpow_pos _)
    linarith

/-! ## `roundBits` is the mode's choice among the two neighbours -/

/-- where `q` lies between its neighbours `lo < hi`: below, at, or above the midpoint -/
def half (q lo hi : ℚ) : Ordering :=
  if q - lo < hi - q then .lt else if q - lo = hi - q then .eq else .gt

/-- the neighbour of `q` that rounding mode `mode` selects (for a number of sign `neg`), given the bracket
    `m·2^u ≤ q < (m+1)·2^u`: `q` itself if it is the lower neighbour, otherwise the upper neighbour exactly
    when `Go.BigFloat.roundUp` (the mode table of the model) says so for the parity of `m` and the position of
    `q` relative to the midpoint -/
def pick (mode : UInt8) (neg : Bool) (q : ℚ) (m : ℕ) (u : ℤ) : ℚ :=
  if q = (m : ℚ) * (2 : ℚ) ^ u then q
  else if roundUp mode neg (m % 2 == 1) (half q ((m : ℚ) * (2 : ℚ) ^ u) (((m : ℚ) + 1) * (2 : ℚ) ^ u))
    then ((m : ℚ) + 1) * (2 : ℚ) ^ u else (m : ℚ) * (2 : ℚ) ^ u

theorem compare_nat (a b : ℕ) :
    compare a b = if a < b then Ordering.lt else if a = b then .eq else .gt := by
  rcases lt_trichotomy a b with h | h | h
  · rw [if_pos h]; exact Nat.compare_eq_lt.2 h
  · rw [if_neg (by omega), if_pos h]; exact Nat.compare_eq_eq.2 h
  · rw [if_neg (by omega), if_neg (by omega)]; exact Nat.compare_eq_gt.2 h

/-- the scaled fraction `n/d = q·2^s` of the general computation -/
theorem scaled (q : ℚ) (hq : 0 < q) (s : ℤ) :
    let n := if s ≥ 0 then q.num.natAbs * 2 ^ s.toNat else q.num.natAbs
    let d := if s ≥ 0 then q.den else q.den * 2 ^ (-s).toNat
    0 < d ∧ (n : ℚ) / (d : ℚ) = q / (2 : ℚ) ^ (-s) := by
  intro n d
  have hqe := q_eq_div q hq
  have hdpos : (0 : ℚ) < (q.den : ℚ) := by exact_mod_cast q.den_pos
  by_cases h : s ≥ 0
  · obtain ⟨k, hk⟩ : ∃ k : ℕ, s = k := ⟨s.toNat, by omega⟩
    have hn : n = q.num.natAbs * 2 ^ k := by simp only [n, if_pos h, hk, Int.toNat_natCast]
    have hd : d = q.den := by simp only [d, if_pos h]
    refine ⟨by rw [hd]; exact q.den_pos, ?_⟩
    rw [hn, hd, hk, zpow_neg, zpow_natCast, div_inv_eq_mul]
    conv_rhs => rw [hqe]
    push_cast; ring
  · obtain ⟨k, hk⟩ : ∃ k : ℕ, -s = k := ⟨(-s).toNat, by omega⟩
    have hn : n = q.num.natAbs := by simp only [n, if_neg h]
    have hd : d = q.den * 2 ^ k := by simp only [d, if_neg h, hk, Int.toNat_natCast]
    refine ⟨by rw [hd]; exact Nat.mul_pos q.den_pos (Nat.pow_pos (by norm_num)), ?_⟩
    rw [hn, hd, hk, zpow_natCast]
    conv_rhs => rw [hqe]
    push_cast
    rw [div_div]

/-- **`roundBits` is the mode's choice among the two neighbours.** -/
theorem roundBits_eq (prec : ℕ) (mode : UInt8) (neg : Bool) (q : ℚ) (hp : 0 < prec) (hq : 0 < q)
    {m : ℕ} {u : ℤ} (hb : Bracket prec q m u) :
    roundBits prec mode neg q = pick mode neg q m u := by
  unfold roundBits
  rw [if_neg (by rintro (h | h) <;> [exact absurd hq (not_lt.2 h); omega])]
  by_cases hf : fits prec q = true
  · rw [if_pos hf]
    unfold pick
    rw [if_pos (hb.of_rep hp (fits_rep prec q hq hf))]
  · rw [if_neg hf]
    obtain ⟨hd, hnd⟩ := scaled q hq ((prec : ℤ) - exponent q)
    simp only at hd hnd ⊢
    set s : ℤ := (prec : ℤ) - exponent q with hs
    set n := if s ≥ 0 then q.num.natAbs * 2 ^ s.toNat else q.num.natAbs with hn
    set d := if s ≥ 0 then q.den else q.den * 2 ^ (-s).toNat with hd'
    have hb0 := bracket_exists prec q hp hq
    have hus : exponent q - (prec : ℤ) = -s := by omega
    rw [hus, ← hnd, Nat.floor_div_eq_div] at hb0
    obtain ⟨rfl, rfl⟩ := Bracket.unique hp hb hb0
    have hup := two_zpow_pos (-s)
    have hdQ : (0 : ℚ) < (d : ℚ) := by exact_mod_cast hd
    -- q = (m + r/d)·2^u
    have hdiv : (n : ℚ) = (d : ℚ) * ((n / d : ℕ) : ℚ) + ((n % d : ℕ) : ℚ) := by
      exact_mod_cast (Nat.div_add_mod n d).symm
    have hqv : q = (((n / d : ℕ) : ℚ) + ((n % d : ℕ) : ℚ) / (d : ℚ)) * (2 : ℚ) ^ (-s) := by
      have : q = (n : ℚ) / (d : ℚ) * (2 : ℚ) ^ (-s) := by rw [hnd, div_mul_cancel₀ _ hup.ne']
      rw [this, hdiv]; field_simp
    have hr0 : (n % d = 0) ↔ q = ((n / d : ℕ) : ℚ) * (2 : ℚ) ^ (-s) := by
      constructor
      · intro h; rw [hqv, h]; simp
      · intro h
        have h2 : ((n % d : ℕ) : ℚ) / (d : ℚ) * (2 : ℚ) ^ (-s) = 0 := by
          have := hqv; rw [add_mul] at this; linarith
        have h3 : ((n % d : ℕ) : ℚ) / (d : ℚ) = 0 := by
          rcases mul_eq_zero.1 h2 with h | h
          · exact h
          · exact absurd h hup.ne'
        have h4 : ((n % d : ℕ) : ℚ) = 0 := by
          rcases div_eq_zero_iff.1 h3 with h | h
          · exact h
          · exact absurd h hdQ.ne'
        exact_mod_cast h4
    unfold pick
    rw [pow2_eq]
    by_cases hr : n % d = 0
    · rw [if_pos hr, if_pos (hr0.1 hr)]; exact (hr0.1 hr).symm
    · rw [if_neg hr, if_neg (fun h => hr (hr0.2 h))]
      have hhalf : compare (2 * (n % d)) d =
          half q (((n / d : ℕ) : ℚ) * (2 : ℚ) ^ (-s)) ((((n / d : ℕ) : ℚ) + 1) * (2 : ℚ) ^ (-s)) := by
        rw [compare_nat]
        unfold half
        have e1 : q - ((n / d : ℕ) : ℚ) * (2 : ℚ) ^ (-s) = ((n % d : ℕ) : ℚ) / (d : ℚ) * (2 : ℚ) ^ (-s) := by
          conv_lhs => rw [hqv]
          ring
        have e2 : (((n / d : ℕ) : ℚ) + 1) * (2 : ℚ) ^ (-s) - q
            = (1 - ((n % d : ℕ) : ℚ) / (d : ℚ)) * (2 : ℚ) ^ (-s) := by
          conv_lhs => rw [hqv]
          ring
        rw [e1, e2]
        have c1 : (((n % d : ℕ) : ℚ) / (d : ℚ) * (2 : ℚ) ^ (-s) < (1 - ((n % d : ℕ) : ℚ) / (d : ℚ)) * (2 : ℚ) ^ (-s))
            ↔ 2 * (n % d) < d := by
          rw [mul_lt_mul_iff_left₀ hup, lt_sub_iff_add_lt, ← two_mul, ← mul_div_assoc, div_lt_one hdQ]
          exact_mod_cast Iff.rfl
        have c2 : (((n % d : ℕ) : ℚ) / (d : ℚ) * (2 : ℚ) ^ (-s) = (1 - ((n % d : ℕ) : ℚ) / (d : ℚ)) * (2 : ℚ) ^ (-s))
            ↔ 2 * (n % d) = d := by
          rw [mul_left_inj' hup.ne', eq_sub_iff_add_eq, ← two_mul, ← mul_div_assoc, div_eq_one_iff_eq hdQ.ne']
          exact_mod_cast Iff.rfl
        simp only [c1, c2]
      rw [hhalf]
      split <;> simp

/-! ## consequences -/

section
variable {prec : ℕ} {mode : UInt8} {neg : Bool} {q : ℚ} {m : ℕ} {u : ℤ}

theorem pick_neighbour (mode : UInt8) (neg : Bool) (q : ℚ) (m : ℕ) (u : ℤ) :
    pick mode neg q m u = q ∧ q = (m : ℚ) * (2 : ℚ) ^ u ∨ 
    q ≠ (m : ℚ) * (2 : ℚ) ^ u ∧ (pick mode neg q m u = (m : ℚ) * (2 : ℚ) ^ u ∨
      pick mode neg q m u = ((m : ℚ) + 1) * (2 : ℚ) ^ u) := by
  unfold pick
  by_cases h : q = (m : ℚ) * (2 : ℚ) ^ u
  · left; rw [if_pos h]; exact ⟨rfl, h⟩
  · right; rw [if_neg h]; refine ⟨h, ?_⟩
    split
    · right; rfl
    · left; rfl

/-- the error of either neighbour is below one unit in the last place -/
theorem pick_abs_err (hb : Bracket prec q m u) : |pick mode neg q m u - q| < (2 : ℚ) ^ u := by
  have h1 := hb.le
  have h2 := hb.lt
  rw [add_mul, one_mul] at h2
  rcases pick_neighbour mode neg q m u with ⟨h, -⟩ | ⟨hne, h | h⟩
  · rw [h, sub_self, abs_zero]; exact two_zpow_pos u
  · rw [h, abs_lt]; constructor <;> linarith
  · have : (m : ℚ) * (2 : ℚ) ^ u < q := lt_of_le_of_ne h1 (Ne.symm hne)
    rw [h, add_mul, one_mul, abs_lt]; constructor <;> linarith [two_zpow_pos u]

/-- one unit in the last place is at most `2^(1-prec)·q` -/
theorem Bracket.ulp_le (hb : Bracket prec q m u) (hp : 0 < prec) :
    (2 : ℚ) ^ u ≤ (2 : ℚ) ^ (1 - (prec : ℤ)) * q := by
  have h1 := (hb.binade hp).1
  have : (2 : ℚ) ^ u = (2 : ℚ) ^ (1 - (prec : ℤ)) * (2 : ℚ) ^ (u + prec - 1) := by
    rw [← zpow_add₀ (by norm_num)]; congr 1; ring
  rw [this]
  exact mul_le_mul_of_nonneg_left h1 (two_zpow_pos _).le

theorem half_lt_iff (q lo hi : ℚ) : half q lo hi = .lt ↔ q - lo < hi - q := by
  unfold half; split <;> [simp [*]; (split <;> simp [*])]
theorem half_eq_iff (q lo hi : ℚ) : half q lo hi = .eq ↔ q - lo = hi - q := by
  unfold half
  by_cases h1 : q - lo < hi - q
  · rw [if_pos h1]; simp; exact ne_of_lt h1
  · rw [if_neg h1]; by_cases h2 : q - lo = hi - q <;> simp [h2]
theorem half_gt_iff (q lo hi : ℚ) : half q lo hi = .gt ↔ hi - q < q - lo := by
  unfold half
  by_cases h1 : q - lo < hi - q
  · rw [if_pos h1]; simp; linarith
  · rw [if_neg h1]; by_cases h2 : q - lo = hi - q
    · rw [if_pos h2]; simp; linarith
    · rw [if_neg h2]; simp; exact lt_of_le_of_ne (not_lt.1 h1) (Ne.symm h2)

/-- the two nearest modes: at most half a unit in the last place -/
theorem pick_nearest_err (hb : Bracket prec q m u) (hm : mode = 0 ∨ mode = 1) :
    |pick mode neg q m u - q| ≤ (2 : ℚ) ^ u / 2 := by
  have h1 := hb.le
  have h2 := hb.lt
  have hup := two_zpow_pos u
  unfold pick
  by_cases h : q = (m : ℚ) * (2 : ℚ) ^ u
  · rw [if_pos h, sub_self, abs_zero]; positivity
  · rw [if_neg h]
    set lo := (m : ℚ) * (2 : ℚ) ^ u with hlo
    set hi := ((m : ℚ) + 1) * (2 : ℚ) ^ u with hhi
    have hd : hi - lo = (2 : ℚ) ^ u := by rw [hhi, hlo]; ring
    rcases hh : half q lo hi with _ | _ | _
    · have := (half_lt_iff q lo hi).1 hh
      have hr : roundUp mode neg (m % 2 == 1) .lt = false := by
        rcases hm with rfl | rfl <;> simp [roundUp]
      rw [hr]; simp only [Bool.false_eq_true, if_false]
      rw [abs_le]; constructor <;> linarith
    · have := (half_eq_iff q lo hi).1 hh
      split <;> (rw [abs_le]; constructor <;> linarith)
    · have := (half_gt_iff q lo hi).1 hh
      have hr : roundUp mode neg (m % 2 == 1) .gt = true := by
        rcases hm with rfl | rfl <;> simp [roundUp]
      rw [hr]; simp only [if_true]
      rw [abs_le]; constructor <;> linarith

/-! ### what each mode selects -/

theorem pick_exact (mode : UInt8) (neg : Bool) (h : q = (m : ℚ) * (2 : ℚ) ^ u) : pick mode neg q m u = q := by
  unfold pick; rw [if_pos h]

/-- ToZero: the lower neighbour -/
theorem pick_toZero (neg : Bool) (q : ℚ) (m : ℕ) (u : ℤ) : pick 2 neg q m u = (m : ℚ) * (2 : ℚ) ^ u := by
  unfold pick
  by_cases h : q = (m : ℚ) * (2 : ℚ) ^ u
  · rw [if_pos h]; exact h
  · rw [if_neg h]; simp [roundUp]

/-- AwayFromZero: the upper neighbour unless exact -/
theorem pick_away (neg : Bool) (h : q ≠ (m : ℚ) * (2 : ℚ) ^ u) :
    pick 3 neg q m u = ((m : ℚ) + 1) * (2 : ℚ) ^ u := by
  unfold pick; rw [if_neg h]; simp [roundUp]

/-- ToNegativeInf: toward zero for a positive number, away from zero for a negative one -/
theorem pick_negInf (h : q ≠ (m : ℚ) * (2 : ℚ) ^ u) :
    pick 4 neg q m u = if neg then ((m : ℚ) + 1) * (2 : ℚ) ^ u else (m : ℚ) * (2 : ℚ) ^ u := by
  unfold pick; rw [if_neg h]; cases neg <;> simp [roundUp]

/-- ToPositiveInf: away from zero for a positive number, toward zero for a negative one -/
theorem pick_posInf (h : q ≠ (m : ℚ) * (2 : ℚ) ^ u) :
    pick 5 neg q m u = if neg then (m : ℚ) * (2 : ℚ) ^ u else ((m : ℚ) + 1) * (2 : ℚ) ^ u := by
  unfold pick; rw [if_neg h]; cases neg <;> simp [roundUp]

/-- a byte that is no `RoundingMode` behaves like ToZero in the model (math/big panics "unreachable";
    `Decimal.Float` never creates such a mode, it can only inherit it from a corrupted receiver) -/
theorem pick_other (h : 5 < mode) : pick mode neg q m u = (m : ℚ) * (2 : ℚ) ^ u := by
  unfold pick
  by_cases hq : q = (m : ℚ) * (2 : ℚ) ^ u
  · rw [if_pos hq]; exact hq
  · rw [if_neg hq]
    have : roundUp mode neg (m % 2 == 1)
        (half q ((m : ℚ) * (2 : ℚ) ^ u) (((m : ℚ) + 1) * (2 : ℚ) ^ u)) = false := by
      unfold roundUp
      split <;> first | rfl | (exfalso; revert h; decide)
    rw [this]; simp

/-- both nearest modes: the nearer neighbour -/
theorem pick_nearest_below (hm : mode = 0 ∨ mode = 1) (hne : q ≠ (m : ℚ) * (2 : ℚ) ^ u)
    (h : q - (m : ℚ) * (2 : ℚ) ^ u < ((m : ℚ) + 1) * (2 : ℚ) ^ u - q) :
    pick mode neg q m u = (m : ℚ) * (2 : ℚ) ^ u := by
  unfold pick; rw [if_neg hne, (half_lt_iff _ _ _).2 h]
  rcases hm with rfl | rfl <;> simp [roundUp]

theorem pick_nearest_above (hm : mode = 0 ∨ mode = 1)
    (h : ((m : ℚ) + 1) * (2 : ℚ) ^ u - q < q - (m : ℚ) * (2 : ℚ) ^ u) :
    pick mode neg q m u = ((m : ℚ) + 1) * (2 : ℚ) ^ u := by
  have hne : q ≠ (m : ℚ) * (2 : ℚ) ^ u := by
    intro h'; rw [h', sub_self, add_mul, one_mul, add_sub_cancel_left] at h
    exact absurd h (not_lt.2 (two_zpow_pos u).le)
  unfold pick; rw [if_neg hne, (half_gt_iff _ _ _).2 h]
  rcases hm with rfl | rfl <;> simp [roundUp]

/-- ToNearestEven on a tie: the neighbour with the even mantissa -/
theorem pick_even_tie (h : q - (m : ℚ) * (2 : ℚ) ^ u = ((m : ℚ) + 1) * (2 : ℚ) ^ u - q) :
    pick 0 neg q m u = if m % 2 = 1 then ((m : ℚ) + 1) * (2 : ℚ) ^ u else (m : ℚ) * (2 : ℚ) ^ u := by
  have hne : q ≠ (m : ℚ) * (2 : ℚ) ^ u := by
    intro h'; rw [h', sub_self, add_mul, one_mul, add_sub_cancel_left] at h
    exact absurd h.symm (two_zpow_pos u).ne'
  unfold pick; rw [if_neg hne, (half_eq_iff _ _ _).2 h]
  simp [roundUp]

/-- ToNearestAway on a tie: the upper neighbour -/
theorem pick_away_tie (h : q - (m : ℚ) * (2 : ℚ) ^ u = ((m : ℚ) + 1) * (2 : ℚ) ^ u - q) :
    pick 1 neg q m u = ((m : ℚ) + 1) * (2 : ℚ) ^ u := by
  have hne : q ≠ (m : ℚ) * (2 : ℚ) ^ u := by
    intro h'; rw [h', sub_self, add_mul, one_mul, add_sub_cancel_left] at h
    exact absurd h.symm (two_zpow_pos u).ne'
  unfold pick; rw [if_neg hne, (half_eq_iff _ _ _).2 h]
  simp [roundUp]

/-- either neighbour has at most `prec` significant bits -/
theorem pick_rep (hb : Bracket prec q m u) (hp : 0 < prec) : Rep prec (pick mode neg q m u) := by
  have lo_rep : Rep prec ((m : ℚ) * (2 : ℚ) ^ u) := ⟨m, u, hb.mhi, rfl⟩
  rcases pick_neighbour mode neg q m u with ⟨h, h'⟩ | ⟨-, h | h⟩
  · rw [h, h']; exact lo_rep
  · rw [h]; exact lo_rep
  · rw [h]
    by_cases hm : m + 1 < 2 ^ prec
    · exact ⟨m + 1, u, hm, by push_cast; rfl⟩
    · have hm' : m + 1 = 2 ^ prec := by have := hb.mhi; omega
      refine ⟨2 ^ (prec - 1), u + 1, Nat.pow_lt_pow_right (by norm_num) (by omega), ?_⟩
      have : ((m : ℚ) + 1) = (2 : ℚ) ^ prec := by exact_mod_cast hm'
      rw [this]
      obtain ⟨k, rfl⟩ : ∃ k, prec = k + 1 := ⟨prec - 1, by omega⟩
      push_cast
      rw [zpow_add₀ (by norm_num), zpow_one, pow_succ]
      ring

/-- the result stays in the closed binade of `q` -/
theorem pick_bounds (hb : Bracket prec q m u) (hp : 0 < prec) :
    (2 : ℚ) ^ (u + prec - 1) ≤ pick mode neg q m u ∧ pick mode neg q m u ≤ (2 : ℚ) ^ (u + prec) := by
  have hu := two_zpow_pos u
  have e1 : (2 : ℚ) ^ (u + prec - 1) = (2 : ℚ) ^ ((prec : ℤ) - 1) * 2 ^ u := by
    rw [← zpow_add₀ (by norm_num)]; congr 1; ring
  have e2 : (2 : ℚ) ^ (u + prec) = (2 : ℚ) ^ (prec : ℤ) * 2 ^ u := by
    rw [← zpow_add₀ (by norm_num)]; congr 1; ring
  have l1 : (2 : ℚ) ^ (u + prec - 1) ≤ (m : ℚ) * (2 : ℚ) ^ u := by
    rw [e1]; exact mul_le_mul_of_nonneg_right (hb.mloQ hp) hu.le
  have l2 : ((m : ℚ) + 1) * (2 : ℚ) ^ u ≤ (2 : ℚ) ^ (u + prec) := by
    rw [e2]; exact mul_le_mul_of_nonneg_right hb.mhiQ hu.le
  have l3 : (m : ℚ) * (2 : ℚ) ^ u ≤ ((m : ℚ) + 1) * (2 : ℚ) ^ u := by
    rw [add_mul, one_mul]; linarith
  rcases pick_neighbour mode neg q m u with ⟨h, h'⟩ | ⟨-, h | h⟩
  · rw [h, h']; exact ⟨l1, le_trans l3 l2⟩
  · rw [h]; exact ⟨l1, le_trans l3 l2⟩
  · rw [h]; exact ⟨le_trans l1 l3, l2⟩

end

/-! ## `roundBits`, stated without the bracket -/

section
variable (prec : ℕ) (mode : UInt8) (neg : Bool) (q : ℚ)

theorem roundBits_zero (h : q ≤ 0 ∨ prec = 0) : roundBits prec mode neg q = 0 := by
  unfold roundBits; rw [if_pos h]

/-- **`roundBits` = the mode's choice in the bracket of `q`** (which exists and is unique) -/
theorem roundBits_bracket (hp : 0 < prec) (hq : 0 < q) :
    ∃ m u, Bracket prec q m u ∧ roundBits prec mode neg q = pick mode neg q m u :=
  ⟨_, _, bracket_exists prec q hp hq, roundBits_eq prec mode neg q hp hq (bracket_exists prec q hp hq)⟩

/-- the result has at most `prec` significant bits -/
theorem roundBits_rep (hp : 0 < prec) (hq : 0 < q) : Rep prec (roundBits prec mode neg q) := by
  obtain ⟨m, u, hb, e⟩ := roundBits_bracket prec mode neg q hp hq
  rw [e]; exact pick_rep hb hp

/-- exact on representable values, in every mode -/
theorem roundBits_exact (hp : 0 < prec) (hq : 0 < q) (hr : Rep prec q) : roundBits prec mode neg q = q := by
  obtain ⟨m, u, hb, e⟩ := roundBits_bracket prec mode neg q hp hq
  rw [e]; exact pick_exact mode neg (hb.of_rep hp hr)

/-- … in particular on integers that are short enough -/
theorem roundBits_nat (n : ℕ) (hn : n ≠ 0) (h : Big.bitLen n ≤ prec) : roundBits prec mode neg (n : ℚ) = n := by
  have hp : 0 < prec := lt_of_lt_of_le (bitLen_pos n hn) h
  exact roundBits_exact prec mode neg _ hp (by exact_mod_cast Nat.pos_of_ne_zero hn)
    (rep_nat prec n ((bitLen_le_iff n prec).1 h))

theorem roundBits_pos (hp : 0 < prec) (hq : 0 < q) : 0 < roundBits prec mode neg q := by
  obtain ⟨m, u, hb, e⟩ := roundBits_bracket prec mode neg q hp hq
  rw [e]; exact lt_of_lt_of_le (two_zpow_pos _) (pick_bounds hb hp).1

/-- the result stays in the closed binade `[2^(e-1), 2^e]` of `q`, `e = exponent q` -/
theorem roundBits_binade (hp : 0 < prec) (hq : 0 < q) :
    (2 : ℚ) ^ (exponent q - 1) ≤ roundBits prec mode neg q ∧
      roundBits prec mode neg q ≤ (2 : ℚ) ^ (exponent q) := by
  obtain ⟨m, u, hb, e⟩ := roundBits_bracket prec mode neg q hp hq
  rw [e, hb.exponent hp]; exact pick_bounds hb hp

/-- idempotent (whatever the modes and signs) -/
theorem roundBits_idem (mode' : UInt8) (neg' : Bool) (hp : 0 < prec) (hq : 0 < q) :
    roundBits prec mode' neg' (roundBits prec mode neg q) = roundBits prec mode neg q :=
  roundBits_exact prec mode' neg' _ hp (roundBits_pos prec mode neg q hp hq) (roundBits_rep prec mode neg q hp hq)

/-- **relative error below `2^(1-prec)` in every mode** -/
theorem roundBits_rel_err (hp : 0 < prec) (hq : 0 < q) :
    |roundBits prec mode neg q - q| < (2 : ℚ) ^ (1 - (prec : ℤ)) * q := by
  obtain ⟨m, u, hb, e⟩ := roundBits_bracket prec mode neg q hp hq
  rw [e]; exact lt_of_lt_of_le (pick_abs_err hb) (hb.ulp_le hp)

/-- **relative error at most `2^-prec` in the two nearest modes** -/
theorem roundBits_rel_err_nearest (hm : mode = 0 ∨ mode = 1) (hp : 0 < prec) (hq : 0 < q) :
    |roundBits prec mode neg q - q| ≤ (2 : ℚ) ^ (-(prec : ℤ)) * q := by
  obtain ⟨m, u, hb, e⟩ := roundBits_bracket prec mode neg q hp hq
  rw [e]
  refine le_trans (pick_nearest_err hb hm) ?_
  have := hb.ulp_le hp
  have e2 : (2 : ℚ) ^ (-(prec : ℤ)) = (2 : ℚ) ^ (1 - (prec : ℤ)) / 2 := by
    rw [show (1 - (prec : ℤ)) = -(prec : ℤ) + 1 by ring, zpow_add₀ (by norm_num), zpow_one]; ring
  rw [e2]; linarith

/-- the directed modes: the result lies on the prescribed side of `q` (as a signed number:
    `neg` ⇒ the number is `−q`) -/
theorem roundBits_toZero_le (hp : 0 < prec) (hq : 0 < q) : roundBits prec 2 neg q ≤ q := by
  obtain ⟨m, u, hb, e⟩ := roundBits_bracket prec 2 neg q hp hq
  rw [e, pick_toZero]; exact hb.le

theorem roundBits_away_ge (hp : 0 < prec) (hq : 0 < q) : q ≤ roundBits prec 3 neg q := by
  obtain ⟨m, u, hb, e⟩ := roundBits_bracket prec 3 neg q hp hq
  rw [e]
  by_cases h : q = (m : ℚ) * (2 : ℚ) ^ u
  · rw [pick_exact 3 neg h]
  · rw [pick_away neg h]; exact hb.lt.le

theorem roundBits_negInf (hp : 0 < prec) (hq : 0 < q) :
    if neg then q ≤ roundBits prec 4 neg q else roundBits prec 4 neg q ≤ q := by
  obtain ⟨m, u, hb, e⟩ := roundBits_bracket prec 4 neg q hp hq
  rw [e]
  by_cases h : q = (m : ℚ) * (2 : ℚ) ^ u
  · rw [pick_exact 4 neg h]; cases neg <;> simp
  · rw [pick_negInf h]; cases neg
    · simp only [Bool.false_eq_true, if_false]; exact hb.le
    · simp only [if_true]; exact hb.lt.le

theorem roundBits_posInf (hp : 0 < prec) (hq : 0 < q) :
    if neg then roundBits prec 5 neg q ≤ q else q ≤ roundBits prec 5 neg q := by
  obtain ⟨m, u, hb, e⟩ := roundBits_bracket prec 5 neg q hp hq
  rw [e]
  by_cases h : q = (m : ℚ) * (2 : ℚ) ^ u
  · rw [pick_exact 5 neg h]; cases neg <;> simp
  · rw [pick_posInf h]; cases neg
    · simp only [Bool.false_eq_true, if_false]; exact hb.lt.le
    · simp only [if_true]; exact hb.le

end
/-! ## `fits` decides representability; the result of `roundBits` passes it -/

theorem two_pow_and_pred (j : ℕ) : 2 ^ j &&& (2 ^ j - 1) = 0 := by
  rw [Nat.and_two_pow_sub_one_eq_mod, Nat.mod_self]

/-- the converse of `fits_rep`: a representable value passes the test `fits` -/
theorem rep_fits (prec : ℕ) (q : ℚ) (hq : 0 < q) (h : Rep prec q) : fits prec q = true := by
  obtain ⟨M, E, hM, hqe⟩ := h
  have hn := natAbs_num_ne q hq
  -- q = (M·2^E⁺) / 2^E⁻
  have hB : ((2 ^ (-E).toNat : ℕ) : ℤ) ≠ 0 := by
    have : 0 < 2 ^ (-E).toNat := Nat.pow_pos (by norm_num)
    omega
  have hdiv : q = Rat.divInt ((M * 2 ^ E.toNat : ℕ) : ℤ) ((2 ^ (-E).toNat : ℕ) : ℤ) := by
    rw [hqe, Rat.divInt_eq_div]
    rcases le_or_gt 0 E with h | h
    · obtain ⟨n, rfl⟩ : ∃ n : ℕ, E = n := ⟨E.toNat, by omega⟩
      have : (-((n : ℕ) : ℤ)).toNat = 0 := by omega
      rw [this, Int.toNat_natCast, zpow_natCast]; push_cast; ring
    · obtain ⟨n, hn'⟩ : ∃ n : ℕ, -E = n := ⟨(-E).toNat, by omega⟩
      have hE : E = -(n : ℤ) := by omega
      have h0 : E.toNat = 0 := by omega
      rw [hn', h0, Int.toNat_natCast, hE, zpow_neg, zpow_natCast]; push_cast; ring
  -- the denominator is a power of two
  have hden : ∃ j, q.den = 2 ^ j := by
    have hd := Rat.den_dvd ((M * 2 ^ E.toNat : ℕ) : ℤ) ((2 ^ (-E).toNat : ℕ) : ℤ)
    rw [← hdiv] at hd
    have : q.den ∣ 2 ^ (-E).toNat := by exact_mod_cast hd
    obtain ⟨j, -, hj⟩ := (Nat.dvd_prime_pow Nat.prime_two).1 this
    exact ⟨j, hj⟩
  -- the odd part of the numerator divides M
  have hnum : q.num.natAbs ∣ M * 2 ^ E.toNat := by
    have hd := Rat.num_dvd ((M * 2 ^ E.toNat : ℕ) : ℤ) hB
    rw [← hdiv] at hd
    have := Int.natAbs_dvd_natAbs.2 hd
    rwa [Int.natAbs_natCast] at this
  obtain ⟨ha, hodd⟩ := oddPart_spec q.num.natAbs (Nat.pos_of_ne_zero hn)
  have hMpos : 0 < M := by
    rcases Nat.eq_zero_or_pos M with h | h
    · rw [h] at hqe; simp at hqe; exact absurd hqe hq.ne'
    · exact h
  have hoddM : (oddPart q.num.natAbs).1 ∣ M := by
    have h1 : (oddPart q.num.natAbs).1 ∣ M * 2 ^ E.toNat :=
      Dvd.dvd.trans ⟨_, ha⟩ hnum
    have hc : Nat.Coprime (oddPart q.num.natAbs).1 (2 ^ E.toNat) := by
      apply Nat.Coprime.pow_right
      rw [Nat.coprime_two_right, Nat.odd_iff]; exact hodd
    exact hc.dvd_of_dvd_mul_right h1
  have hle : (oddPart q.num.natAbs).1 < 2 ^ prec := lt_of_le_of_lt (Nat.le_of_dvd hMpos hoddM) hM
  unfold fits
  obtain ⟨j, hj⟩ := hden
  rw [Bool.and_eq_true, beq_iff_eq, decide_eq_true_eq, hj, two_pow_and_pred, bitLen_le_iff]
  exact ⟨rfl, hle⟩

/-- `fits` decides representability -/
theorem fits_iff (prec : ℕ) (q : ℚ) (hq : 0 < q) : fits prec q = true ↔ Rep prec q :=
  ⟨fits_rep prec q hq, rep_fits prec q hq⟩

/-- the result of `roundBits` passes `fits` (is a legal magnitude of a `big.Float` of that precision) -/
theorem roundBits_fits (prec : ℕ) (mode : UInt8) (neg : Bool) (q : ℚ) (hp : 0 < prec) (hq : 0 < q) :
    fits prec (roundBits prec mode neg q) = true :=
  rep_fits prec _ (roundBits_pos prec mode neg q hp hq) (roundBits_rep prec mode neg q hp hq)

end BF
