/-
  D128/Proofs/LogAccP1Code.lean — the contract of `decomposed192.log1p` (Go: /repo/decomposed.go): the
  10-term series `x ∓ x²/2 + x³/3 ∓ … ∓ x¹⁰/10` used by `Log1p` for `|x| < 10^-9`.

  The generated `while` loop is cut into its body (`body`, literally the generated lambda; `log1p_eq` by
  `rfl`), the body is evaluated from the result equations of `mul`/`quo`/`add`/`sub` (`body_add`, `body_sub`,
  `body_done`), one pass preserves the invariant `Inv` (`step_ok`), and the 9 passes are chained with
  `Go.loop_unfold` (`loop_ok`).

  Provided (namespace `LogAcc`):
  * `Pre d`                 : `d.sig ≠ 0 ∧ val d ≤ 10^-9 ∧ -3264 ≤ d.exp`
  * `Inv d neg k num res t` : state after `k` terms: `x^k(1-(k-1)lam) ≤ num ≤ x^k`, `k·d.exp ≤ num.exp`,
                              `|res - Pk neg x k| ≤ (k-1)·1.1·lam·x`, flag ∈ {0,1,-1}, `res.exp ≤ d.exp+1`
  * `step_ok`, `loop_ok`
  * `log1p_spec_strong`     : for `Pre d`: no panic, termination, no `int16` wrap,
        `|val r - P10 neg (val d)| ≤ 10·lam·val d`, flag ∈ {0,1,-1}, `r.sig ≠ 0`,
        `d.exp - 58 ≤ r.exp ≤ d.exp + 1`
  * `log1p_spec`            : the statement asked for (constant 20, window `[d.exp-60, d.exp+2]`,
        `-3240 ≤ d.exp ≤ 0`), a corollary
-/
import D128.Proofs.LogAccP1Ops
import D128.Proofs.LogAccP1Math
set_option autoImplicit false
set_option maxRecDepth 4096
set_option exponentiation.threshold 512
set_option linter.unusedVariables false
open D128.Proofs.WordsWide

namespace LogAcc
open Gen D192 Root

abbrev St := decomposed192 × decomposed192 × Int8 × UInt64

/-- the body of the generated loop, literally -/
def body (d : decomposed192) (neg : Bool) : Unit → St → Go.GoM (ForInStep St) := fun _ __s =>
  have num := __s.1
  have __s := __s.2
  have res := __s.1
  have __s := __s.2
  have trunc := __s.1
  have i := __s.2
  if decide (i ≤ 10) = true then do
    let __x ← num.mul d trunc
    match __x with
      | (r_1, r_2) =>
        have num := r_1
        have trunc := r_2
        do
        let __x ← num.quo { sig := { w0 := i, w1 := 0, w2 := 0 }, exp := 0 } 0
        match __x with
          | (r_3, r_4) =>
            have tmp := r_3
            have __do_jp := fun (__r : Unit) (res : decomposed192) (trunc : Int8) =>
              have i := i + 1
              (pure (ForInStep.yield (num, res, trunc, i)) : Go.GoM (ForInStep St))
            if (i % 2 == 0) = true then
              if neg = true then do
                let __x ← res.add tmp trunc
                match __x with
                  | (r_5, r_6) =>
                    have res := r_5
                    have trunc := r_6
                    __do_jp () res trunc
              else do
                let __x ← res.sub tmp trunc
                match __x with
                  | (r_7, r_8, r_9) =>
                    have res := r_8
                    have trunc := r_9
                    __do_jp () res trunc
            else do
              let __x ← res.add tmp trunc
              match __x with
                | (r_10, r_11) =>
                  have res := r_10
                  have trunc := r_11
                  __do_jp () res trunc
  else pure (ForInStep.done (num, res, trunc, i))

theorem log1p_eq (d : decomposed192) (neg : Bool) :
    Gen.decomposed192.log1p d neg =
      (forIn Lean.Loop.mk ((d, d, (0 : Int8), (2 : UInt64)) : St) (body d neg) >>= fun s =>
        pure (neg, s.2.1, s.2.2.1)) := rfl

theorem body_add (d : decomposed192) (neg : Bool) (num res : decomposed192) (t : Int8) (i : UInt64)
    (n' tmp r' : decomposed192) (t1 t2 t3 : Int8) (hi : i ≤ 10)
    (h1 : decomposed192.mul num d t = .ok (n', t1))
    (h2 : decomposed192.quo n' ⟨⟨i, 0, 0⟩, 0⟩ 0 = .ok (tmp, t2))
    (hc : (i % 2 == 0) = true → neg = true)
    (h3 : decomposed192.add res tmp t1 = .ok (r', t3)) :
    body d neg () (num, res, t, i) = .ok (.yield (n', r', t3, i + 1)) := by
  unfold body
  simp only [hi, decide_true, if_true]
  by_cases he : (i % 2 == 0) = true
  · have := hc he
    subst this
    simp only [h1, RK.ok_bind, h2, h3, he, if_true]
    rfl
  · simp only [h1, RK.ok_bind, h2, h3, he]
    rfl

theorem body_sub (d : decomposed192) (num res : decomposed192) (t : Int8) (i : UInt64)
    (n' tmp r' : decomposed192) (t1 t2 t3 : Int8) (ng : Bool) (hi : i ≤ 10)
    (h1 : decomposed192.mul num d t = .ok (n', t1))
    (h2 : decomposed192.quo n' ⟨⟨i, 0, 0⟩, 0⟩ 0 = .ok (tmp, t2))
    (he : (i % 2 == 0) = true)
    (h3 : decomposed192.sub res tmp t1 = .ok (ng, r', t3)) :
    body d false () (num, res, t, i) = .ok (.yield (n', r', t3, i + 1)) := by
  unfold body
  simp only [hi, decide_true, if_true]
  simp only [h1, RK.ok_bind, h2, h3, he, if_true]
  rfl

theorem body_done (d : decomposed192) (neg : Bool) (num res : decomposed192) (t : Int8) (i : UInt64)
    (hi : ¬ i ≤ 10) : body d neg () (num, res, t, i) = .ok (.done (num, res, t, i)) := by
  unfold body
  simp only [hi, decide_false, Bool.false_eq_true, if_false]
  rfl

/-! ### the invariant -/

/-- hypotheses on the argument -/
def Pre (d : decomposed192) : Prop :=
  d.sig.toNat ≠ 0 ∧ val d ≤ 1 / 10 ^ 9 ∧ -3264 ≤ d.exp.toInt

/-- the state after `k` terms -/
def Inv (d : decomposed192) (neg : Bool) (k : Nat) (num res : decomposed192) (t : Int8) : Prop :=
  num.sig.toNat ≠ 0 ∧
  val d ^ k * (1 - ((k : ℚ) - 1) * lam) ≤ val num ∧ val num ≤ val d ^ k ∧
  (k : Int) * d.exp.toInt ≤ num.exp.toInt ∧
  |val res - Pk neg (val d) k| ≤ ((k : ℚ) - 1) * (11 / 10 * lam * val d) ∧
  (t = 0 ∨ t = 1 ∨ t = -1) ∧ res.exp.toInt ≤ d.exp.toInt + 1

theorem Pre.pos {d : decomposed192} (h : Pre d) : 0 < val d := val_pos_of_sig d h.1

theorem Pre.exp_le {d : decomposed192} (h : Pre d) : d.exp.toInt ≤ 0 :=
  exp_le_zero_of_val d h.1 (le_trans h.2.1 (by norm_num))

theorem lam_small : lam ≤ 1 / 10 ^ 56 := le_trans lam_le (by norm_num)

/-- value facts that follow from the `res` part of the invariant -/
theorem res_bounds (d : decomposed192) (neg : Bool) (k : Nat) (res : decomposed192) (hpre : Pre d)
    (hk1 : 1 ≤ k) (hk : k ≤ 10)
    (h : |val res - Pk neg (val d) k| ≤ ((k : ℚ) - 1) * (11 / 10 * lam * val d)) :
    |Pk neg (val d) k - val d| ≤ val d / 100 ∧
    0 ≤ ((k : ℚ) - 1) * (11 / 10 * lam * val d) ∧
    ((k : ℚ) - 1) * (11 / 10 * lam * val d) ≤ val d / 100 ∧
    98 / 100 * val d ≤ val res ∧ val res ≤ 102 / 100 * val d := by
  have hx := hpre.pos
  have hx9 := hpre.2.1
  have hl := lam_pos
  have hls := lam_small
  obtain ⟨k', rfl⟩ : ∃ k', k = k' + 1 := ⟨k - 1, by omega⟩
  have hk' : (k' : ℚ) ≤ 9 := by exact_mod_cast (by omega : k' ≤ 9)
  have hk0 : (0 : ℚ) ≤ (k' : ℚ) := Nat.cast_nonneg _
  have hnear := Pk_near neg (val d) hx.le (le_trans hx9 (by norm_num)) k'
  have hsq : val d ^ 2 ≤ val d * (1 / 10 ^ 9) := by
    rw [pow_two]; exact mul_le_mul_of_nonneg_left hx9 hx.le
  have h1 : (k' : ℚ) * val d ^ 2 ≤ val d / 100 := by
    have : (k' : ℚ) * val d ^ 2 ≤ 9 * (val d * (1 / 10 ^ 9)) :=
      mul_le_mul hk' hsq (by positivity) (by norm_num)
    linarith
  have hc : (((k' + 1 : Nat) : ℚ) - 1) = (k' : ℚ) := by push_cast; ring
  rw [hc] at h ⊢
  have hlx : 11 / 10 * lam * val d ≤ 11 / 10 * (1 / 10 ^ 56) * val d :=
    mul_le_mul_of_nonneg_right (mul_le_mul_of_nonneg_left hls (by norm_num)) hx.le
  have hlx0 : 0 ≤ 11 / 10 * lam * val d := by positivity
  have h2 : (k' : ℚ) * (11 / 10 * lam * val d) ≤ val d / 100 := by
    have : (k' : ℚ) * (11 / 10 * lam * val d) ≤ 9 * (11 / 10 * (1 / 10 ^ 56) * val d) :=
      mul_le_mul hk' hlx hlx0 (by norm_num)
    linarith
  have hS : |Pk neg (val d) (k' + 1) - val d| ≤ val d / 100 := le_trans hnear h1
  refine ⟨hS, mul_nonneg hk0 hlx0, h2, ?_, ?_⟩
  · rw [abs_le] at h hS; linarith [h.1, hS.1]
  · rw [abs_le] at h hS; linarith [h.2, hS.2]

theorem sgn_true (j : Nat) : sgn true j = 1 := by unfold sgn; simp
theorem sgn_odd (neg : Bool) (j : Nat) (h : j % 2 = 1) : sgn neg j = 1 := by unfold sgn; simp [h]
theorem sgn_even_false (j : Nat) (h : j % 2 = 0) : sgn false j = -1 := by unfold sgn; simp [h]

theorem u64_even_iff (i : UInt64) : (i % 2 == 0) = true ↔ i.toNat % 2 = 0 := by
  rw [beq_iff_eq, ← UInt64.toNat_inj, UInt64.toNat_mod]
  rfl

/-- the final assembly of `Inv (k+1)` from the facts about `num'` and `res'` -/
theorem inv_succ (d : decomposed192) (neg : Bool) (k : Nat) (n' r' : decomposed192) (t' : Int8)
    (hpre : Pre d) (hk1 : 1 ≤ k) (hk9 : k ≤ 9)
    (hn1 : val d ^ k * val d * (1 - (((k : ℚ) - 1) * lam + lam)) ≤ val n')
    (hn2 : val n' ≤ val d ^ k * val d)
    (hne : (k : Int) * d.exp.toInt + d.exp.toInt ≤ n'.exp.toInt)
    (hr : |val r' - Pk neg (val d) (k + 1)| ≤ ((k : ℚ) - 1) * (11 / 10 * lam * val d) + 11 / 10 * lam * val d)
    (ht : t' = 0 ∨ t' = 1 ∨ t' = -1)
    (hre : r'.exp.toInt ≤ d.exp.toInt + 1 ∨ (LIM : ℚ) * ulp r' ≤ 2 * val d) :
    Inv d neg (k + 1) n' r' t' := by
  have hx := hpre.pos
  have hl := lam_pos
  have hls := lam_small
  have hkq : (k : ℚ) ≤ 9 := by exact_mod_cast hk9
  have hk0 : (0 : ℚ) ≤ (k : ℚ) := Nat.cast_nonneg _
  have hpow : 0 < val d ^ k * val d := by positivity
  have hc : (((k + 1 : Nat) : ℚ) - 1) = (k : ℚ) := by push_cast; ring
  have hc2 : ((k : ℚ) - 1) * lam + lam = (k : ℚ) * lam := by ring
  have hr' : |val r' - Pk neg (val d) (k + 1)| ≤ (((k + 1 : Nat) : ℚ) - 1) * (11 / 10 * lam * val d) := by
    rw [hc]; refine le_trans hr (le_of_eq ?_); ring
  obtain ⟨b1, b2, b3, b4, b5⟩ := res_bounds d neg (k + 1) r' hpre (by omega) (by omega) hr'
  have hkl : (k : ℚ) * lam ≤ 9 * (1 / 10 ^ 56) := mul_le_mul hkq hls hl.le (by norm_num)
  have hnpos : 0 < val n' := by
    refine lt_of_lt_of_le (mul_pos hpow ?_) hn1
    rw [hc2]; linarith
  refine ⟨sig_ne_of_val_pos n' hnpos, ?_, ?_, ?_, hr', ht, ?_⟩
  · rw [pow_succ, hc, ← hc2]; exact hn1
  · rw [pow_succ]; exact hn2
  · push_cast; linarith
  · rcases hre with h | h
    · exact h
    · exact exp_le_of_ulp r' d h

/-- one pass of the loop preserves the invariant -/
theorem step_ok (d : decomposed192) (neg : Bool) (k : Nat) (num res : decomposed192) (t : Int8)
    (i : UInt64) (hpre : Pre d) (hk1 : 1 ≤ k) (hk9 : k ≤ 9) (hi : i.toNat = k + 1)
    (hinv : Inv d neg k num res t) :
    ∃ n' r' t', body d neg () (num, res, t, i) = .ok (.yield (n', r', t', i + 1)) ∧
      Inv d neg (k + 1) n' r' t' := by
  obtain ⟨i1, i2, i3, i4, i5, i6, i7⟩ := hinv
  have hx := hpre.pos
  have hx9 := hpre.2.1
  have he0 := hpre.2.2
  have he1 := hpre.exp_le
  have hl := lam_pos
  have hls := lam_small
  have hx1 : val d ≤ 1 := le_trans hx9 (by norm_num)
  have hkq : (k : ℚ) ≤ 9 := by exact_mod_cast hk9
  have hkq1 : (1 : ℚ) ≤ (k : ℚ) := by exact_mod_cast hk1
  have hq0 : 0 < val d ^ k := pow_pos hx k
  have hq1 : val d ^ k ≤ 1 := pow_le_one₀ hx.le hx1
  have hi10 : i ≤ 10 := by
    rw [UInt64.le_iff_toNat_le, hi]; show k + 1 ≤ 10; omega
  obtain ⟨b1, b2, b3, b4, b5⟩ := res_bounds d neg k res hpre hk1 (by omega) i5
  -- exponents
  have hke : 9 * d.exp.toInt ≤ (k : Int) * d.exp.toInt := by
    have : (9 - (k : Int)) * d.exp.toInt ≤ 0 := mul_nonpos_of_nonneg_of_nonpos (by omega) he1
    linarith
  generalize hKE : (k : Int) * d.exp.toInt = KE at hke i4
  have hnum0 : num.exp.toInt ≤ 0 := exp_le_zero_of_val num i1 (le_trans i3 hq1)
  have hres_lo : d.exp.toInt - 58 ≤ res.exp.toInt := exp_ge_of_val res d hpre.1 (by linarith)
  -- num ← num·d
  obtain ⟨n', t1, hmul, m1, m2, m3, m4, m5, -⟩ := mul_rel num d t (by omega) (by omega)
  have ha0 : 0 ≤ ((k : ℚ) - 1) * lam := mul_nonneg (by linarith) hl.le
  obtain ⟨hn1, hn2⟩ := num_step (val d) lam (val d ^ k) (((k : ℚ) - 1) * lam) (val num) (val n')
    hq0.le hx.le ha0 hl.le (by linarith) i2 i3 m1 m2
  have hc2 : ((k : ℚ) - 1) * lam + lam = (k : ℚ) * lam := by ring
  have hkl : (k : ℚ) * lam ≤ 9 * (1 / 10 ^ 56) := mul_le_mul hkq hls hl.le (by norm_num)
  have hp0 : 0 < val d ^ k * val d := mul_pos hq0 hx
  have hnpos : 0 < val n' := by
    refine lt_of_lt_of_le (mul_pos hp0 ?_) hn1
    rw [hc2]; linarith
  have hn'sig := sig_ne_of_val_pos n' hnpos
  -- tmp ← num / i
  obtain ⟨tmp, t2, hquo, q1, q2, -, q4, q5, q6⟩ := quo_int n' i 0 hn'sig (by omega) (by omega) (by omega)
  have hiq : (i.toNat : ℚ) = (k : ℚ) + 1 := by rw [hi]; push_cast; ring
  have hj1 : (1 : ℚ) ≤ (i.toNat : ℚ) := by rw [hiq]; linarith
  rw [hc2] at hn1
  obtain ⟨ht1, ht2⟩ := tmp_step (val d ^ k * val d) ((k : ℚ) * lam) lam (i.toNat : ℚ) (val n') (val tmp)
    hp0.le (mul_nonneg (by linarith) hl.le) hl.le (by linarith) (by linarith) (by rw [hiq]; ring)
    hn1 hn2 q1 q2
  have hp100 : val d ^ k * val d ≤ val d / 100 := by
    have := pow_succ_le_small (val d) hx.le hx9 k hk1
    rw [pow_succ] at this
    linarith
  have hT : val d ^ k * val d / (i.toNat : ℚ) ≤ val d ^ k * val d := div_le_self hp0.le hj1
  have htmp0 := val_nonneg tmp
  rw [← hc2] at hn1
  have hPk : ∀ σ : ℚ, sgn neg (k + 1) = σ →
      Pk neg (val d) (k + 1) = Pk neg (val d) k + σ * (val d ^ k * val d / (i.toNat : ℚ)) := by
    intro σ hσ
    rw [Pk_succ, term_eq, hσ, pow_succ, hiq]; push_cast; rfl
  have hflag : ∀ t3 : Int8, (t3 = t1 ∨ t3 = 1 ∨ t3 = -1) → (t3 = 0 ∨ t3 = 1 ∨ t3 = -1) := by
    intro t3 h
    rcases h with h | h | h
    · rcases m3 with h' | h'
      · rw [h, h']; exact i6
      · rw [h, h']; exact Or.inr (Or.inl rfl)
    · exact Or.inr (Or.inl h)
    · exact Or.inr (Or.inr h)
  -- the two kinds of pass
  have hadd : sgn neg (k + 1) = 1 → ((i % 2 == 0) = true → neg = true) →
      ∃ n' r' t', body d neg () (num, res, t, i) = .ok (.yield (n', r', t', i + 1)) ∧
        Inv d neg (k + 1) n' r' t' := by
    intro hs hc
    obtain ⟨r', t3, hadd, a1, a2, a3, a4⟩ :=
      add_rel2 res tmp t1 (by omega) (by omega) (by omega) (by omega)
    refine ⟨n', r', t3, body_add d neg num res t i n' tmp r' t1 t2 t3 hi10 hmul hquo hc hadd, ?_⟩
    have hr : |val r' - (val res + 1 * val tmp)| ≤ lam * (val res + val tmp) := by
      rw [abs_le]; constructor <;> linarith
    have hstep := res_step (val d) lam (Pk neg (val d) k) _ _ _ (val res) (val tmp) (val r') 1
      (Or.inl rfl) hx hl.le b1 b2 b3 hp0.le hp100 hT i5 ht1 ht2 hr
    refine inv_succ d neg k n' r' t3 hpre hk1 hk9 hn1 hn2 (by omega) ?_ (hflag t3 a3) ?_
    · rw [hPk 1 hs]; exact hstep
    · rcases a4 with h | h
      · left; have := min_le_left res.exp.toInt tmp.exp.toInt; omega
      · right; linarith
  have hsub : sgn neg (k + 1) = -1 → (i % 2 == 0) = true → neg = false →
      ∃ n' r' t', body d neg () (num, res, t, i) = .ok (.yield (n', r', t', i + 1)) ∧
        Inv d neg (k + 1) n' r' t' := by
    intro hs hev hneg
    subst hneg
    obtain ⟨ng, r', t3, hsub, s1, s2, s3, s4⟩ :=
      sub_pos res tmp t1 (by omega) (by omega) (by linarith)
    refine ⟨n', r', t3, body_sub d num res t i n' tmp r' t1 t2 t3 ng hi10 hmul hquo hev hsub, ?_⟩
    have hlr : lam * val res ≤ lam * (val res + val tmp) :=
      mul_le_mul_of_nonneg_left (by linarith) hl.le
    have hr : |val r' - (val res + (-1) * val tmp)| ≤ lam * (val res + val tmp) := by
      rw [abs_le]; constructor <;> linarith
    have hstep := res_step (val d) lam (Pk false (val d) k) _ _ _ (val res) (val tmp) (val r') (-1)
      (Or.inr rfl) hx hl.le b1 b2 b3 hp0.le hp100 hT i5 ht1 ht2 hr
    refine inv_succ d false k n' r' t3 hpre hk1 hk9 hn1 hn2 (by omega) ?_ (hflag t3 s3) ?_
    · rw [hPk (-1) hs]; exact hstep
    · rcases s4 with h | h
      · left; have := min_le_left res.exp.toInt tmp.exp.toInt; omega
      · right; linarith
  by_cases hev : (i % 2 == 0) = true
  · have hev' : (k + 1) % 2 = 0 := by rw [← hi]; exact (u64_even_iff i).mp hev
    cases neg
    · exact hsub (sgn_even_false _ hev') hev rfl
    · exact hadd (sgn_true _) (fun _ => rfl)
  · have hod : (k + 1) % 2 = 1 := by
      have : ¬ (i.toNat % 2 = 0) := fun h => hev ((u64_even_iff i).mpr h)
      rw [hi] at this; omega
    exact hadd (sgn_odd neg _ hod) (fun h => absurd h hev)

/-- the initial state -/
theorem inv_init (d : decomposed192) (neg : Bool) (hpre : Pre d) : Inv d neg 1 d d 0 := by
  have hx := hpre.pos
  refine ⟨hpre.1, ?_, ?_, ?_, ?_, Or.inl rfl, by omega⟩
  · simp
  · simp
  · simp
  · rw [Pk_one]; simp

/-- the remaining `n` passes -/
theorem loop_ok (d : decomposed192) (neg : Bool) (hpre : Pre d) (n : Nat) :
    ∀ (k : Nat) (num res : decomposed192) (t : Int8) (i : UInt64), k + n = 10 → 1 ≤ k →
      i.toNat = k + 1 → Inv d neg k num res t →
      ∃ n' r' t' i', forIn (m := Go.GoM) Lean.Loop.mk ((num, res, t, i) : St) (body d neg)
          = .ok (n', r', t', i') ∧ Inv d neg 10 n' r' t' := by
  induction n with
  | zero =>
    intro k num res t i hk hk1 hi hinv
    have hk10 : k = 10 := by omega
    subst hk10
    have hni : ¬ i ≤ 10 := by
      rw [UInt64.le_iff_toNat_le, hi]; show ¬ (10 + 1 ≤ 10); omega
    refine ⟨num, res, t, i, ?_, hinv⟩
    rw [Go.loop_unfold, body_done d neg num res t i hni]
    rfl
  | succ n ih =>
    intro k num res t i hk hk1 hi hinv
    obtain ⟨n', r', t', hb, hinv'⟩ := step_ok d neg k num res t i hpre hk1 (by omega) hi hinv
    have hi' : (i + 1).toNat = k + 1 + 1 := by
      rw [UInt64.toNat_add, hi]; show (k + 1 + 1) % 2 ^ 64 = _; omega
    obtain ⟨n2, r2, t2, i2, hl, hinv2⟩ := ih (k + 1) n' r' t' (i + 1) (by omega) (by omega) hi' hinv'
    refine ⟨n2, r2, t2, i2, ?_, hinv2⟩
    rw [Go.loop_unfold, hb]
    exact hl

/-- **Contract of `decomposed192.log1p`** (strong form).  For `d.sig ≠ 0`, `val d ≤ 10^-9`,
`-3264 ≤ d.exp`: no panic, the loop terminates, no `int16` exponent wraps, the sign is passed through, and
the magnitude is within `10·lam·val d` (`lam = 1/(25·2^184) ≈ 1.63e-57`) of the 10-term polynomial. -/
theorem log1p_spec_strong (d : Gen.decomposed192) (neg : Bool) (hd : d.sig.toNat ≠ 0)
    (hx : D192.val d ≤ 1 / 10 ^ 9) (he0 : -3264 ≤ d.exp.toInt) :
    ∃ r t, Gen.decomposed192.log1p d neg = .ok (neg, r, t) ∧ (t = 0 ∨ t = 1 ∨ t = -1) ∧
      r.sig.toNat ≠ 0 ∧ |D192.val r - P10 neg (D192.val d)| ≤ 10 * Root.lam * D192.val d ∧
      d.exp.toInt - 58 ≤ r.exp.toInt ∧ r.exp.toInt ≤ d.exp.toInt + 1 := by
  have hpre : Pre d := ⟨hd, hx, he0⟩
  have h2 : (2 : UInt64).toNat = 1 + 1 := rfl
  obtain ⟨n', r', t', i', hl, hinv⟩ :=
    loop_ok d neg hpre 9 1 d d 0 2 (by norm_num) (by norm_num) h2 (inv_init d neg hpre)
  obtain ⟨-, -, -, -, i5, i6, i7⟩ := hinv
  obtain ⟨b1, b2, b3, b4, b5⟩ := res_bounds d neg 10 r' hpre (by norm_num) (by norm_num) i5
  have hxp := hpre.pos
  refine ⟨r', t', ?_, i6, sig_ne_of_val_pos r' (by linarith), ?_,
    exp_ge_of_val r' d hd (by linarith), i7⟩
  · rw [log1p_eq, hl]; rfl
  · refine le_trans i5 ?_
    have : (0 : ℚ) ≤ lam * val d := mul_nonneg lam_pos.le hxp.le
    push_cast
    nlinarith

/-- **Contract of `decomposed192.log1p`** in the form asked for (a corollary of `log1p_spec_strong`). -/
theorem log1p_spec (d : Gen.decomposed192) (neg : Bool) (hd : d.sig.toNat ≠ 0)
    (hx : D192.val d ≤ 1 / 10 ^ 9) (he0 : -3240 ≤ d.exp.toInt) (he1 : d.exp.toInt ≤ 0) :
    ∃ r t, Gen.decomposed192.log1p d neg = .ok (neg, r, t) ∧ (t = 0 ∨ t = 1 ∨ t = -1) ∧
      r.sig.toNat ≠ 0 ∧ |D192.val r - P10 neg (D192.val d)| ≤ 20 * Root.lam * D192.val d ∧
      d.exp.toInt - 60 ≤ r.exp.toInt ∧ r.exp.toInt ≤ d.exp.toInt + 2 := by
  obtain ⟨r, t, h1, h2, h3, h4, h5, h6⟩ := log1p_spec_strong d neg hd hx (by omega)
  refine ⟨r, t, h1, h2, h3, le_trans h4 ?_, by omega, by omega⟩
  have : (0 : ℚ) ≤ lam * val d := mul_nonneg lam_pos.le (val_nonneg d)
  nlinarith

/-- the hypotheses are satisfiable: `x = 3·10^-12`, both signs; and at the lower end of the exponent range -/
example := log1p_spec ⟨⟨3, 0, 0⟩, -12⟩ false (by decide)
  (by unfold D192.val; rw [show (U192.mk 3 0 0).toNat = 3 from by decide,
        show (-12 : Int16).toInt = -12 from by decide, zpow_neg]; norm_num)
  (by decide) (by decide)
example := log1p_spec_strong ⟨⟨123456789, 0, 0⟩, -3264⟩ true (by decide)
  (by unfold D192.val; rw [show (U192.mk 123456789 0 0).toNat = 123456789 from by decide,
        show (-3264 : Int16).toInt = -3264 from by decide]
      calc ((123456789 : Nat) : ℚ) * (10 : ℚ) ^ (-3264 : Int)
          ≤ (10 : ℚ) ^ (9 : Int) * (10 : ℚ) ^ (-3264 : Int) :=
            mul_le_mul_of_nonneg_right (by norm_num) (zpow_nonneg (by norm_num) _)
        _ = (10 : ℚ) ^ (-3255 : Int) := by rw [← zpow_add₀ (by norm_num)]; norm_num
        _ ≤ (10 : ℚ) ^ (-9 : Int) := zpow_le_zpow_right₀ (by norm_num) (by norm_num)
        _ = 1 / 10 ^ 9 := by rw [zpow_neg]; norm_num)
  (by decide)

end LogAcc
