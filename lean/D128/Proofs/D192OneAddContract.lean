/-
  D128/Proofs/D192OneAddContract.lean — rational contract of `decomposed192.add1` for ALL inputs
  (Go: /repo/decomposed.go; ℕ-level description and Hoare triple in D192OneAdd.lean).

  With `val x = x.sig·10^x.exp`, `ulp x = 10^x.exp`:
  * `add1_contract` : `add1 d t = .ok (r, t')` (no panic, terminates) with
        `val r ≤ val d + 1 < val r + ulp r`            (truncation at the result's own unit)
        `val r = val d + 1 → t' = t`,  `val r ≠ val d + 1 → t' = 1`   (the sticky flag is always right)
        `1 ≤ val r`  and  `(val d + 1 - val r)·10^56 ≤ val r`        (relative error ≤ 10^-56)
        `(r = d ∧ 58 < d.exp) ∨ -57 ≤ r.exp ≤ 58`
  * exact statements per path:
      `add1_zero`  : `d.sig = 0 → add1 d t = .ok (one, t)`
      `add1_tiny`  : `d.sig ≠ 0 → d.exp < -116 → add1 d t = .ok (one, 1)` and `0 < val d < 2^192·10^-117`
                     (the result's own unit is 1, so "truncation at the result's unit" is vacuous; the
                     real error is `val d < 6.3·10^-60`)
      `add1_huge`  : `d.sig ≠ 0 → 58 < d.exp → add1 d t = .ok (d, 1)`  (error exactly 1 < 10^59 ≤ ulp d)
      `add1_down`  : `-116 ≤ d.exp ≤ 0` : either `(one, 1)` with `0 < val d < 10^-57`, or for some `K ≤ 60`
                     `r.sig = (d.sig + 10^-d.exp) / 10^K`, `r.exp = d.exp + K`,
                     `t' = if 10^K ∣ d.sig + 10^-d.exp then t else 1`, `K = 0 ∨ 2^192/10 ≤ r.sig`,
                     `-57 ≤ r.exp ≤ 1`
      `add1_up`    : `0 < d.exp ≤ 58` : for some `j`, `d.sig·10^j < 2^192`, `r.exp = d.exp - j ≥ 0` and either
                     `r.exp = 0`, `r.sig = d.sig·10^j + 1`, `t' = t` (exact), or `r.exp > 0`,
                     `r.sig = d.sig·10^j ≥ 25·2^184`, `t' = 1` (the 1 is dropped: it is below `ulp r ≥ 10`).
  No flag defect was found in `add1`: on every path the flag is `t` iff the result is exact, `1` (true
  value above the result) otherwise.
-/
import D128.Proofs.D192OneAdd
import D128.Proofs.D192OneVal

set_option autoImplicit false
set_option maxRecDepth 4096
set_option exponentiation.threshold 512

namespace D192

/-- rational contract of `add1`: the result is `d + 1` truncated toward zero at the result's own unit,
the flag is passed through iff the result is exact and raised to `1` otherwise, the result is at least
1 and the relative error is at most `10^-56`. -/
def Add1Q (d : Gen.decomposed192) (t : Int8) (r : Gen.decomposed192) (t' : Int8) : Prop :=
  val r ≤ val d + 1 ∧ val d + 1 < val r + ulp r ∧
  (val r = val d + 1 → t' = t) ∧ (val r ≠ val d + 1 → t' = 1) ∧
  1 ≤ val r ∧ (val d + 1 - val r) * (10 : ℚ) ^ 56 ≤ val r

theorem add1Q_zero (d : Gen.decomposed192) (t : Int8) (h : d.sig.toNat = 0) : Add1Q d t one t := by
  have hv : val d = 0 := by unfold val; rw [h]; simp
  unfold Add1Q
  rw [hv, val_one, ulp_one]
  norm_num

/-- the argument is dropped entirely (paths A and C-early): `0 < val d < 10^-57`. -/
theorem add1Q_drop (d : Gen.decomposed192) (t : Int8) (h0 : 0 < val d)
    (h1 : val d < (10 : ℚ) ^ (-57 : Int)) : Add1Q d t one 1 := by
  unfold Add1Q
  rw [val_one, ulp_one]
  have e : (10 : ℚ) ^ (-57 : Int) * (10 : ℚ) ^ 56 < 1 := by norm_num
  have h2 : (10 : ℚ) ^ (-57 : Int) < 1 := by norm_num
  refine ⟨by linarith, by linarith, fun h => ?_, fun _ => rfl, le_refl _, ?_⟩
  · exfalso; linarith
  · have : (val d + 1 - 1) * (10 : ℚ) ^ 56 < (10 : ℚ) ^ (-57 : Int) * (10 : ℚ) ^ 56 := by
      rw [add_sub_cancel_right]; exact mul_lt_mul_of_pos_right h1 (by norm_num)
    linarith

/-- the `1` is dropped (paths B and D-return): the result has the value of `d`, its unit is above 1
and it carries at least `10^56` units. -/
theorem add1Q_keep (d : Gen.decomposed192) (t : Int8) (r : Gen.decomposed192) (hv : val r = val d)
    (hu : 1 < ulp r) (hb : (10 : ℚ) ^ 56 ≤ val r) : Add1Q d t r 1 := by
  unfold Add1Q
  rw [hv] at hb ⊢
  have : (1 : ℚ) ≤ (10 : ℚ) ^ 56 := by norm_num
  refine ⟨by linarith, by linarith, fun h => ?_, fun _ => rfl, by linarith, ?_⟩
  · exfalso; linarith
  · rw [add_sub_cancel_left, one_mul]; exact hb

theorem add1Q_down (d : Gen.decomposed192) (t : Int8) (r : Gen.decomposed192) (t' : Int8)
    (hlo : -116 ≤ d.exp.toInt) (hhi : d.exp.toInt ≤ 0) (h : DownMain d t (r, t')) :
    Add1Q d t r t' := by
  obtain ⟨htr, he1, he2, hge⟩ := h
  have hP : d.sig.toNat + 10 ^ (-d.exp.toInt).toNat < 2 ^ 192 / 10 * 10 ^ (60 + 1) := by
    have h1 := U192.toNat_lt d.sig
    have h2 : 10 ^ (-d.exp.toInt).toNat ≤ 10 ^ 116 := Nat.pow_le_pow_right (by norm_num) (by omega)
    have h3 : 2 ^ 192 + 10 ^ 116 < 2 ^ 192 / 10 * 10 ^ (60 + 1) := by norm_num
    omega
  have hv : ((d.sig.toNat + 10 ^ (-d.exp.toInt).toNat : Nat) : ℚ) * (10 : ℚ) ^ d.exp.toInt
      = val d + 1 := by
    rw [Nat.cast_add, add_mul, pow_neg_mul _ hhi]; rfl
  have hc := Tr.contract 60 htr hP (by norm_num) (by omega) (by omega)
  have hr := Tr.relerr 60 htr hP (by norm_num) (by omega) (by omega)
  rw [hv] at hc hr
  have h1 : (1 : ℚ) ≤ val r := by
    show (1 : ℚ) ≤ (r.sig.toNat : ℚ) * (10 : ℚ) ^ r.exp.toInt
    by_cases hneg : r.exp.toInt ≤ 0
    · have := pow_neg_mul _ hneg
      rw [← this]
      exact mul_le_mul_of_nonneg_right (by exact_mod_cast hge) (zpow_pos (by norm_num) _).le
    · have hs : (1 : ℚ) ≤ (r.sig.toNat : ℚ) := by
        have : 0 < r.sig.toNat := Nat.lt_of_lt_of_le (Nat.pow_pos (by norm_num)) hge
        exact_mod_cast this
      have hu : (1 : ℚ) ≤ (10 : ℚ) ^ r.exp.toInt := one_le_zpow₀ (by norm_num) (by omega)
      nlinarith
  refine ⟨hc.1, hc.2.1, hc.2.2.1, hc.2.2.2.1, h1, ?_⟩
  have h56 : (10 : ℚ) ^ 56 ≤ ((2 ^ 192 / 10 : Nat) : ℚ) := by norm_num
  have herr : 0 ≤ val d + 1 - val r := by linarith [hc.1]
  calc (val d + 1 - val r) * (10 : ℚ) ^ 56 ≤ (val d + 1 - val r) * ((2 ^ 192 / 10 : Nat) : ℚ) :=
        mul_le_mul_of_nonneg_left h56 herr
    _ ≤ val r := hr

theorem add1Q_up (d : Gen.decomposed192) (t : Int8) (r : Gen.decomposed192) (t' : Int8)
    (hs : 0 < d.sig.toNat) (hlo : 0 < d.exp.toInt) (h : UpMain d t (r, t')) :
    Add1Q d t r t' := by
  obtain ⟨j, hlt, he, h0, hne, hz⟩ := h
  by_cases hr0 : r.exp.toInt = 0
  · obtain ⟨hsig, ht⟩ := hz hr0
    simp only at hsig ht he hr0
    have hv : val r = val d + 1 := by
      have hj : d.exp.toInt = j := by omega
      unfold val
      rw [hsig, hr0, hj]
      push_cast
      rw [zpow_natCast]; ring
    have h1 : 1 ≤ val d := one_le_val hs (by omega)
    unfold Add1Q
    rw [hv]
    refine ⟨le_refl _, by linarith [ulp_pos r], fun _ => ht, fun h => absurd rfl h, by linarith, ?_⟩
    rw [sub_self, zero_mul]; linarith
  · obtain ⟨hsig, ht, hup⟩ := hne hr0
    simp only at hsig ht he hr0 hup h0
    subst ht
    have hv : val r = val d := val_scale j hsig he
    have hu : (10 : ℚ) ≤ ulp r := by
      have : (10 : ℚ) ^ (1 : Int) ≤ (10 : ℚ) ^ r.exp.toInt :=
        zpow_le_zpow_right₀ (by norm_num) (by omega)
      simpa [ulp] using this
    refine add1Q_keep d t r hv (by linarith) ?_
    rw [val_eq]
    have h2 : ((25 * 2 ^ 184 : Nat) : ℚ) ≤ (r.sig.toNat : ℚ) := by exact_mod_cast hup
    have h3 : (10 : ℚ) ^ 56 ≤ ((25 * 2 ^ 184 : Nat) : ℚ) * 10 := by norm_num
    nlinarith

theorem add1Q_huge (d : Gen.decomposed192) (t : Int8) (hs : 0 < d.sig.toNat)
    (he : 58 < d.exp.toInt) : Add1Q d t d 1 := by
  have hu : (10 : ℚ) ^ (59 : Int) ≤ ulp d := zpow_le_zpow_right₀ (by norm_num) (by omega)
  have h59 : (10 : ℚ) ^ (59 : Int) = (10 : ℚ) ^ 59 := by norm_num
  have h1 : (1 : ℚ) ≤ (d.sig.toNat : ℚ) := by exact_mod_cast hs
  refine add1Q_keep d t d rfl (by rw [h59] at hu; linarith [show (1 : ℚ) < (10 : ℚ) ^ 59 by norm_num]) ?_
  rw [val_eq]
  have : (10 : ℚ) ^ 56 ≤ (10 : ℚ) ^ 59 := by norm_num
  nlinarith

theorem add1Q_of_post (d : Gen.decomposed192) (t : Int8) (r : Gen.decomposed192) (t' : Int8)
    (h : Add1Post d t (r, t')) : Add1Q d t r t' := by
  rcases h with ⟨h0, hx⟩ | ⟨hs, he, hx⟩ | ⟨hs, he, hx⟩ | ⟨hs, hlo, hhi, hE | hD⟩ | ⟨hs, hlo, hhi, hU⟩
  · obtain ⟨rfl, rfl⟩ := Prod.mk.inj hx
    exact add1Q_zero d t' h0
  · obtain ⟨rfl, rfl⟩ := Prod.mk.inj hx
    refine add1Q_drop d t (val_pos hs) ?_
    have := val_lt_pow d (-117) (by omega)
    have e : (2 : ℚ) ^ 192 * (10 : ℚ) ^ (-117 : Int) < (10 : ℚ) ^ (-57 : Int) := by norm_num
    linarith
  · obtain ⟨rfl, rfl⟩ := Prod.mk.inj hx
    exact add1Q_huge r t hs he
  · obtain ⟨hx, hc⟩ := hE
    obtain ⟨rfl, rfl⟩ := Prod.mk.inj hx
    exact add1Q_drop d t (val_pos hs) hc.val_lt
  · exact add1Q_down d t r t' hlo hhi hD
  · exact add1Q_up d t r t' hs hlo hU

theorem Add1Post.zero {d : Gen.decomposed192} {t : Int8} {x : Gen.decomposed192 × Int8}
    (h : Add1Post d t x) (h0 : d.sig.toNat = 0) : x = (one, t) := by
  rcases h with ⟨_, hx⟩ | ⟨hs, _⟩ | ⟨hs, _⟩ | ⟨hs, _⟩ | ⟨hs, _⟩
  · exact hx
  all_goals omega

theorem Add1Post.tiny {d : Gen.decomposed192} {t : Int8} {x : Gen.decomposed192 × Int8}
    (h : Add1Post d t x) (hs : 0 < d.sig.toNat) (he : d.exp.toInt < -116) : x = (one, 1) := by
  rcases h with ⟨h0, _⟩ | ⟨_, _, hx⟩ | ⟨_, h1, _⟩ | ⟨_, h1, _⟩ | ⟨_, h1, _⟩
  · omega
  · exact hx
  all_goals omega

theorem Add1Post.huge {d : Gen.decomposed192} {t : Int8} {x : Gen.decomposed192 × Int8}
    (h : Add1Post d t x) (hs : 0 < d.sig.toNat) (he : 58 < d.exp.toInt) : x = (d, 1) := by
  rcases h with ⟨h0, _⟩ | ⟨_, h1, _⟩ | ⟨_, _, hx⟩ | ⟨_, _, h1, _⟩ | ⟨_, _, h1, _⟩
  · omega
  · omega
  · exact hx
  all_goals omega

theorem Add1Post.down {d : Gen.decomposed192} {t : Int8} {x : Gen.decomposed192 × Int8}
    (h : Add1Post d t x) (hs : 0 < d.sig.toNat) (hlo : -116 ≤ d.exp.toInt) (hhi : d.exp.toInt ≤ 0) :
    Early (one, (1 : Int8)) d.sig.toNat d.exp x ∨ DownMain d t x := by
  rcases h with ⟨h0, _⟩ | ⟨_, h1, _⟩ | ⟨_, h1, _⟩ | ⟨_, _, _, hx⟩ | ⟨_, h1, _⟩
  · omega
  · omega
  · omega
  · exact hx
  · omega

theorem Add1Post.up {d : Gen.decomposed192} {t : Int8} {x : Gen.decomposed192 × Int8}
    (h : Add1Post d t x) (hs : 0 < d.sig.toNat) (hlo : 0 < d.exp.toInt) (hhi : d.exp.toInt ≤ 58) :
    UpMain d t x := by
  rcases h with ⟨h0, _⟩ | ⟨_, h1, _⟩ | ⟨_, h1, _⟩ | ⟨_, _, h1, _⟩ | ⟨_, _, _, hx⟩
  · omega
  · omega
  · omega
  · omega
  · exact hx

/-- `add1`, rational contract for ALL inputs (no hypotheses): never panics, terminates; the result is
`d + 1` truncated toward zero at the result's own unit; the sticky flag is passed through iff the
result is exact and is `1` otherwise; the result is at least 1, the relative error at most `10^-56`;
the result exponent is in `[-57, 58]` unless `d` itself is returned because `d.exp > 58`. -/
theorem add1_contract (d : Gen.decomposed192) (t : Int8) :
    ∃ r t', Gen.decomposed192.add1 d t = .ok (r, t') ∧
      val r ≤ val d + 1 ∧ val d + 1 < val r + ulp r ∧
      (val r = val d + 1 → t' = t) ∧ (val r ≠ val d + 1 → t' = 1) ∧
      1 ≤ val r ∧ (val d + 1 - val r) * (10 : ℚ) ^ 56 ≤ val r ∧
      ((r = d ∧ 58 < d.exp.toInt) ∨ (-57 ≤ r.exp.toInt ∧ r.exp.toInt ≤ 58)) := by
  obtain ⟨r, t', hr, hp⟩ := add1_spec d t
  obtain ⟨h1, h2, h3, h4, h5, h6⟩ := add1Q_of_post d t r t' hp
  refine ⟨r, t', hr, h1, h2, h3, h4, h5, h6, ?_⟩
  rcases hp with ⟨_, hx⟩ | ⟨_, _, hx⟩ | ⟨_, he, hx⟩ | ⟨_, _, _, hE | hD⟩ | ⟨_, _, hhi, j, _, he, h0, _⟩
  · obtain ⟨rfl, rfl⟩ := Prod.mk.inj hx; right; rw [one_exp]; omega
  · obtain ⟨rfl, rfl⟩ := Prod.mk.inj hx; right; rw [one_exp]; omega
  · obtain ⟨rfl, rfl⟩ := Prod.mk.inj hx; exact Or.inl ⟨rfl, he⟩
  · obtain ⟨rfl, rfl⟩ := Prod.mk.inj hE.1; right; rw [one_exp]; omega
  · right; have := hD.2.1; have := hD.2.2.1; simp only at *; omega
  · right; simp only at *; omega

/-- path Z: a zero argument gives exactly 1, flag untouched. -/
theorem add1_zero (d : Gen.decomposed192) (t : Int8) (h : d.sig.toNat = 0) :
    Gen.decomposed192.add1 d t = .ok (one, t) := by
  obtain ⟨r, t', hr, hp⟩ := add1_spec d t
  rw [hr, hp.zero h]

/-- path A: a non-zero argument with `exp < -116` is dropped: the result is exactly 1 with flag `1`;
the absolute error is `val d`, which lies in `(0, 2^192·10^-117)`. -/
theorem add1_tiny (d : Gen.decomposed192) (t : Int8) (hs : 0 < d.sig.toNat)
    (he : d.exp.toInt < -116) :
    Gen.decomposed192.add1 d t = .ok (one, 1) ∧ 0 < val d ∧
      val d < (2 : ℚ) ^ 192 * (10 : ℚ) ^ (-117 : Int) := by
  obtain ⟨r, t', hr, hp⟩ := add1_spec d t
  rw [hr, hp.tiny hs he]
  exact ⟨rfl, val_pos hs, val_lt_pow d (-117) (by omega)⟩

/-- path B: a non-zero argument with `exp > 58` is returned unchanged with flag `1`; the absolute
error is exactly 1, which is below `10^59 ≤ ulp d`. -/
theorem add1_huge (d : Gen.decomposed192) (t : Int8) (hs : 0 < d.sig.toNat)
    (he : 58 < d.exp.toInt) : Gen.decomposed192.add1 d t = .ok (d, 1) := by
  obtain ⟨r, t', hr, hp⟩ := add1_spec d t
  rw [hr, hp.huge hs he]

/-- path C (`-116 ≤ exp ≤ 0`): either every digit of `d` lies below `10^-57` and the result is exactly
1 with flag `1`, or the result is the exact sum `P = d.sig + 10^-d.exp` (in units of `10^d.exp`) with
`K ≤ 60` low digits dropped. -/
theorem add1_down (d : Gen.decomposed192) (t : Int8) (hs : 0 < d.sig.toNat)
    (hlo : -116 ≤ d.exp.toInt) (hhi : d.exp.toInt ≤ 0) :
    ∃ r t', Gen.decomposed192.add1 d t = .ok (r, t') ∧
      ((r = one ∧ t' = 1 ∧ 0 < val d ∧ val d < (10 : ℚ) ^ (-57 : Int)) ∨
       (∃ K : Nat, K ≤ 60 ∧
          r.sig.toNat = (d.sig.toNat + 10 ^ (-d.exp.toInt).toNat) / 10 ^ K ∧
          r.exp.toInt = d.exp.toInt + K ∧
          t' = (if (d.sig.toNat + 10 ^ (-d.exp.toInt).toNat) % 10 ^ K = 0 then t else 1) ∧
          (K = 0 ∨ 2 ^ 192 / 10 ≤ r.sig.toNat) ∧ -57 ≤ r.exp.toInt ∧ r.exp.toInt ≤ 1)) := by
  obtain ⟨r, t', hr, hp⟩ := add1_spec d t
  refine ⟨r, t', hr, ?_⟩
  rcases hp.down hs hlo hhi with hE | hD
  · obtain ⟨rfl, rfl⟩ := Prod.mk.inj hE.1
    exact Or.inl ⟨rfl, rfl, val_pos hs, hE.2.val_lt⟩
  · right
    obtain ⟨⟨k, hc, he, ht, hn⟩, he1, he2, _⟩ := hD
    have hP : d.sig.toNat + 10 ^ (-d.exp.toInt).toNat < 2 ^ 192 / 10 * 10 ^ (60 + 1) := by
      have h1 := U192.toNat_lt d.sig
      have h2 : 10 ^ (-d.exp.toInt).toNat ≤ 10 ^ 116 := Nat.pow_le_pow_right (by norm_num) (by omega)
      have h3 : 2 ^ 192 + 10 ^ 116 < 2 ^ 192 / 10 * 10 ^ (60 + 1) := by norm_num
      omega
    have hk : k ≤ 60 := Tr.k_le' 60 hP (hc ▸ hn)
    have hkk : (Int16.ofNat k).toInt = k := i16_ofNat_toInt k (by omega)
    have hexp : r.exp.toInt = d.exp.toInt + k := by
      simp only at he; rw [he, Int16.toInt_add_of] <;> rw [hkk] <;> omega
    exact ⟨k, hk, hc, hexp, ht, hn, he1, he2⟩

/-- path D (`0 < exp ≤ 58`): the argument is scaled up by `10^j` without overflow; if the exponent
reaches 0 the result is exact and the flag is passed through; otherwise the scaled argument is
returned with flag `1` (the 1 is dropped; it is below the result's unit, and the result has at least
`25·2^184 > 6.1·10^56` units). -/
theorem add1_up (d : Gen.decomposed192) (t : Int8) (hs : 0 < d.sig.toNat)
    (hlo : 0 < d.exp.toInt) (hhi : d.exp.toInt ≤ 58) :
    ∃ r t', ∃ j : Nat, Gen.decomposed192.add1 d t = .ok (r, t') ∧ d.sig.toNat * 10 ^ j < 2 ^ 192 ∧
      r.exp.toInt = d.exp.toInt - j ∧ 0 ≤ r.exp.toInt ∧
      (r.exp.toInt ≠ 0 → r.sig.toNat = d.sig.toNat * 10 ^ j ∧ t' = 1 ∧ 25 * 2 ^ 184 ≤ r.sig.toNat) ∧
      (r.exp.toInt = 0 → r.sig.toNat = d.sig.toNat * 10 ^ j + 1 ∧ t' = t) := by
  obtain ⟨r, t', hr, hp⟩ := add1_spec d t
  obtain ⟨j, h⟩ := hp.up hs hlo hhi
  exact ⟨r, t', j, hr, h⟩

/-- the contract on a concrete input that exercises the digit-dropping loops and the 192-bit overflow:
`d = (2^192-1)·10^-60`. -/
example := add1_contract
    ⟨⟨18446744073709551615, 18446744073709551615, 18446744073709551615⟩, -60⟩ 0
example := add1_down
    ⟨⟨18446744073709551615, 18446744073709551615, 18446744073709551615⟩, -60⟩ 0
    (by decide) (by decide) (by decide)
example := add1_up ⟨⟨7, 0, 0⟩, 3⟩ 0 (by decide) (by decide) (by decide)

end D192
