/-
  D128/Proofs/PowCasesA.lean — cases (a)–(d) of property C18 on both sides: what the generated
  `Gen.Decimal.PowWithMode` returns and what `Spec.powSpecial` prescribes, under hypotheses on the
  generated class tests.  All bit patterns, every mode byte, every `Spec.Mode`.

  * `psLate`, `powSpecial_eq'`, `powSpecial_late`, `psLate_one`, `psLate_fin` : `Spec.powSpecial`
       after its three leading tests
  * `case_yzero`  (a)  y = ±0                      : `one false`,  spec `posOne`
  * `case_xone`   (b)  |x| = 1, x > 0 or y = ±Inf  : `one false`,  spec `posOne`
  * `case_late`        otherwise: code continues at `stage2`, spec at `psLate`
  * `case_yone_pos` (c) y = 1  : `d` bit for bit;   `case_yone_neg` y = −1 : `QuoWithMode (one false) d`
  * `case_nan_left`, `case_nan_right` (d) : the first NaN operand bit for bit
-/
import D128.Proofs.PowSpec
import D128.Proofs.PowEarly
set_option autoImplicit false
set_option linter.unusedVariables false
set_option linter.unusedSimpArgs false
set_option maxRecDepth 8192
namespace PowPf
open Gen Sp Spec
local notation "𝔳[" d "]" => Spec.interp (Gen.Decimal.lo d) (Gen.Decimal.hi d)

/-- `Spec.powSpecial` after its three leading tests -/
def psLate (m : Mode) (x y : Val) : Option Val :=
  match y with
  | .fin yn yc ye =>
    if mag yc ye == 1 && (ye.natAbs < 40) then (if yn then some (quo m posOne x) else some x)
    else psFin m x yn yc ye
  | .inf yn => psInf x yn
  | .nan n p => match x with | .nan n' p' => some (.nan n' p') | _ => some (.nan n p)

theorem powSpecial_eq' (m : Mode) (x y : Val) :
    powSpecial m x y =
      if y.isZero then some posOne
      else if !x.neg && absOne x then some posOne
      else if (x.neg && absOne x) && y.isInf then some posOne
      else psLate m x y := by
  rw [powSpecial_eq]; cases y <;> rfl

theorem powSpecial_late (m : Mode) (x y : Val) (h0 : y.isZero = false)
    (h : (absOne x && (!x.neg || y.isInf)) = false) : powSpecial m x y = psLate m x y := by
  rw [powSpecial_eq', h0]
  have h1 : (!x.neg && absOne x) = false := by
    revert h; cases absOne x <;> cases x.neg <;> cases y.isInf <;> simp
  have h2 : ((x.neg && absOne x) && y.isInf) = false := by
    revert h; cases absOne x <;> cases x.neg <;> cases y.isInf <;> simp
  simp only [h1, h2, if_false, Bool.false_eq_true]

theorem pow39 : Spec.Cmax < 10 ^ 39 := pow39_gt_Cmax

theorem psLate_one (m : Mode) (x : Val) (yn : Bool) (yc : Nat) (ye : Int) (hc : yc ≤ Cmax)
    (h : (mag yc ye == 1) = true) :
    psLate m x (.fin yn yc ye) = some (if yn then quo m posOne x else x) := by
  have h40 : ye.natAbs < 40 := by
    rw [mag_one_iff, decide_eq_true_eq] at h
    obtain ⟨h1, h2⟩ := h
    by_contra hc'
    have : 10 ^ 39 ≤ 10 ^ (-ye).toNat := Nat.pow_le_pow_right (by norm_num) (by omega)
    have := pow39
    omega
  simp only [psLate, h, h40, decide_true, Bool.and_self, if_true]
  cases yn <;> rfl

theorem psLate_fin (m : Mode) (x : Val) (yn : Bool) (yc : Nat) (ye : Int)
    (h : (mag yc ye == 1) = false) : psLate m x (.fin yn yc ye) = psFin m x yn yc ye := by
  simp only [psLate, h, Bool.false_and, if_false, Bool.false_eq_true]

/-! ## (a), (b): the result is exactly 1 -/

theorem case_yzero (d o : Decimal) (rm : UInt8) (m : Mode) (h : Decimal.IsZero o = true) :
    Decimal.PowWithMode d o rm = .ok (one false) ∧ powSpecial m 𝔳[d] 𝔳[o] = some posOne := by
  refine ⟨pow_yzero d o rm h, ?_⟩
  rw [powSpecial_eq', Enc.interp_isZero, h]; rfl

theorem case_xone (d o : Decimal) (rm : UInt8) (m : Mode) (h0 : Decimal.IsZero o = false)
    (h1 : absOne 𝔳[d] = true) (h2 : ((!(Decimal.Signbit d)) || (Decimal.isInf o)) = true) :
    Decimal.PowWithMode d o rm = .ok (one false) ∧ powSpecial m 𝔳[d] 𝔳[o] = some posOne := by
  refine ⟨pow_xone d o rm h0 h1 h2, ?_⟩
  rw [powSpecial_eq', Enc.interp_isZero, h0, Enc.interp_neg, Enc.interp_isInf, h1]
  revert h2
  cases Decimal.Signbit d <;> cases Decimal.isInf o <;> simp

/-- entry into the later stages on both sides -/
theorem case_late (d o : Decimal) (rm : UInt8) (m : Mode) (h0 : Decimal.IsZero o = false)
    (h : (absOne 𝔳[d] && ((!(Decimal.Signbit d)) || (Decimal.isInf o))) = false) :
    Decimal.PowWithMode d o rm = stage2 rm d o ∧ powSpecial m 𝔳[d] 𝔳[o] = psLate m 𝔳[d] 𝔳[o] := by
  refine ⟨pow_to_stage2 d o rm h0 h, ?_⟩
  apply powSpecial_late
  · rw [Enc.interp_isZero, h0]
  · rw [Enc.interp_neg, Enc.interp_isInf, h]

/-! ## (c): y = ±1 -/

theorem absOne_fin (o : Decimal) (h : absOne 𝔳[o] = true) :
    Decimal.isSpecial o = false ∧ 𝔳[o] = .fin (Decimal.Signbit o) (cf o) (ex o) ∧
      (mag (cf o) (ex o) == 1) = true := by
  rcases view o with ⟨b1, b2, b3, b4, bv⟩ | ⟨b1, b2, b3, b4, bv⟩ | ⟨b1, b2, b3, b4, b5, bc, bv⟩ | ⟨b1, b2, b3, b4, b5, bc, bb, bv⟩
  · rw [bv] at h; cases h
  · rw [bv] at h; cases h
  · rw [bv] at h; simp only [absOne, mag_zero] at h; exact absurd h (by decide)
  · rw [bv] at h; exact ⟨b3, bv, h⟩

theorem case_yone_pos (d o : Decimal) (rm : UInt8) (m : Mode) (h : absOne 𝔳[o] = true)
    (hs : Decimal.Signbit o = false) :
    stage2 rm d o = .ok d ∧ psLate m 𝔳[d] 𝔳[o] = some 𝔳[d] := by
  obtain ⟨b3, bv, hm⟩ := absOne_fin o h
  refine ⟨by rw [stage2_yone d o rm h, hs]; rfl, ?_⟩
  rw [bv, psLate_one m _ _ _ _ (Enc.decompose_sig_le o) hm, hs]; rfl

theorem case_yone_neg (d o : Decimal) (rm : UInt8) (m : Mode) (h : absOne 𝔳[o] = true)
    (hs : Decimal.Signbit o = true) :
    stage2 rm d o = Decimal.QuoWithMode (one false) d rm ∧
      psLate m 𝔳[d] 𝔳[o] = some (quo m 𝔳[one false] 𝔳[d]) := by
  obtain ⟨b3, bv, hm⟩ := absOne_fin o h
  refine ⟨by rw [stage2_yone d o rm h, hs]; rfl, ?_⟩
  rw [bv, psLate_one m _ _ _ _ (Enc.decompose_sig_le o) hm, hs, Enc.interp_one]; rfl

/-! ## (d): NaN operands -/

theorem absOne_false_mag (o : Decimal) (h : absOne 𝔳[o] = false) (b3 : Decimal.isSpecial o = false) :
    (mag (cf o) (ex o) == 1) = false := by
  rw [Enc.interp_decompose o b3] at h; exact h

theorem case_nan_left (d o : Decimal) (rm : UInt8) (m : Mode) (h : absOne 𝔳[o] = false)
    (hn : Decimal.IsNaN d = true) :
    stage2 rm d o = .ok d ∧ psLate m 𝔳[d] 𝔳[o] = some 𝔳[d] := by
  refine ⟨by rw [stage2_ladder d o rm h, ladder_nan_left d o rm hn], ?_⟩
  rw [view_nan d hn]
  rcases view o with ⟨b1, b2, b3, b4, bv⟩ | ⟨b1, b2, b3, b4, bv⟩ | ⟨b1, b2, b3, b4, b5, bc, bv⟩ | ⟨b1, b2, b3, b4, b5, bc, bb, bv⟩
  · rw [bv]; rfl
  · rw [bv]; rfl
  · have := absOne_false_mag o h b3
    rw [bv] at h ⊢; rw [psLate_fin _ _ _ _ _ h]; rfl
  · rw [bv] at h ⊢; rw [psLate_fin _ _ _ _ _ h]; rfl

theorem case_nan_right (d o : Decimal) (rm : UInt8) (m : Mode) (h : absOne 𝔳[o] = false)
    (hd : Decimal.IsNaN d = false) (hn : Decimal.IsNaN o = true) :
    stage2 rm d o = .ok o ∧ psLate m 𝔳[d] 𝔳[o] = some 𝔳[o] := by
  refine ⟨by rw [stage2_ladder d o rm h, ladder_nan_right d o rm hd hn], ?_⟩
  rw [view_nan o hn]
  rcases view d with ⟨a1, a2, a3, a4, av⟩ | ⟨a1, a2, a3, a4, av⟩ | ⟨a1, a2, a3, a4, a5, ac, av⟩ | ⟨a1, a2, a3, a4, a5, ac, ab, av⟩
  · rw [hd] at a1; cases a1
  all_goals (rw [av]; rfl)

end PowPf
