/-
  D128/Proofs/CohortElemSplit.lean — property C19 for `Exp2`/`Exp10`: the integer/fraction split of the argument
  and the fractional-power stage on two encodings of one value.

  The split (`exp2Split`, `exp10Split`) hands `n = ⌊|x|⌋` and a fraction `f·10^fe = |x| − n < 1` to its
  continuation (`ExpAcc.exp2Split_eq`, `exp10Split_eq`); both are determined by the value `|x|`: the integer part
  bit for bit, the fraction as a value (when the split does not run — `|x| < 1` — the fraction keeps the encoding
  of the argument).  The fraction then only enters through `mul (fracArg f fe) lnB 0` followed by `epow`, which
  is a function of the VALUE of the fraction (`mul_congr0` and the normalisation at the head of `epow`).

  Provided (namespace `CohortElem`):
  * `log_mul_pow`, `cohort_log`  : `⌊log10 c⌋ + e` is the same for all members of a cohort
  * `split_unique`               : `n + x = n' + x'`, `0 ≤ x, x' < 1` ⇒ `n = n'`, `x = x'`
  * `frac_unique`                : a fraction without trailing zeros is determined by its value (not needed by the
                                   main theorems; recorded because the split does produce this normal form)
  * `exp2Split_congr`, `exp10Split_congr` : the split on two encodings of one value
  * `LnGap`, `ln2_gap`, `ln10_gap` : the table constants: `x·ln b` with significand in `[10·LIM, 2^192)` has `10 ∤ x`
                                   (`epow_congr` of D128/Proofs/CohortElemEpow.lean needs both arguments on the same
                                   side of `10·LIM`)
  * `fracPow`, `fracMul_facts`, `fracPow_congr` : `mul (fracArg f fe) lnB 0`, `log10`, `epow` on fractions of
                                   equal value give the same result (register contents and flag)
-/
import D128.Proofs.ExpAccExp2Main
import D128.Proofs.CohortElemMulCongr
import D128.Proofs.CohortElemEpow
set_option autoImplicit false
set_option maxRecDepth 4096
set_option exponentiation.threshold 512
set_option linter.unusedVariables false

namespace CohortElem
open Gen D192 ExpAcc D128.Proofs.WordsWide D128.Proofs.Total

/-! ### arithmetic of cohorts -/

theorem log_mul_pow (n j : Nat) (hn : n ≠ 0) : Nat.log 10 (n * 10 ^ j) = Nat.log 10 n + j := by
  induction j with
  | zero => simp
  | succ j ih =>
    rw [Nat.pow_succ, ← Nat.mul_assoc, Nat.log_mul_base (by norm_num) (by positivity), ih]
    omega

/-- `⌊log10 c⌋ + e` is the decimal exponent of the value `c·10^e` -/
theorem cohort_log {c c' : Nat} {e e' : Int} (h : (c : ℚ) * (10 : ℚ) ^ e = (c' : ℚ) * (10 : ℚ) ^ e')
    (hc : c ≠ 0) (hc' : c' ≠ 0) : (Nat.log 10 c : Int) + e = (Nat.log 10 c' : Int) + e' := by
  rcases le_total e' e with hle | hle
  · have := nat_of_val_eq h hle
    rw [this, log_mul_pow _ _ hc]; push_cast; omega
  · have := nat_of_val_eq h.symm hle
    rw [this, log_mul_pow _ _ hc']; push_cast; omega

/-- integer part and fraction are determined by the value -/
theorem split_unique {n n' : Nat} {x x' : ℚ} (h : (n : ℚ) + x = (n' : ℚ) + x') (h0 : 0 ≤ x) (h1 : x < 1)
    (h0' : 0 ≤ x') (h1' : x' < 1) : n = n' ∧ x = x' := by
  have hn : (n : Int) = (n' : Int) := by
    have a : ((n : Int) : ℚ) < ((n' : Int) : ℚ) + 1 := by push_cast; linarith
    have b : ((n' : Int) : ℚ) < ((n : Int) : ℚ) + 1 := by push_cast; linarith
    have a' : (n : Int) < (n' : Int) + 1 := by exact_mod_cast a
    have b' : (n' : Int) < (n : Int) + 1 := by exact_mod_cast b
    omega
  have hn' : n = n' := by exact_mod_cast hn
  refine ⟨hn', ?_⟩
  rw [hn'] at h
  linarith

/-- a fraction without trailing zeros is determined by its value -/
theorem frac_unique {f f' : Nat} {a b : Int} (h : (f : ℚ) * (10 : ℚ) ^ a = (f' : ℚ) * (10 : ℚ) ^ b)
    (hf : f % 10 ≠ 0) (hf' : f' % 10 ≠ 0) : f = f' ∧ a = b := by
  have key : ∀ (f f' : Nat) (a b : Int), (f : ℚ) * (10 : ℚ) ^ a = (f' : ℚ) * (10 : ℚ) ^ b →
      f' % 10 ≠ 0 → b ≤ a → f = f' ∧ a = b := by
    intro f f' a b h hf' hle
    have h2 := nat_of_val_eq h hle
    rcases Nat.eq_zero_or_pos (a - b).toNat with h0 | h0
    · rw [h0, Nat.pow_zero, Nat.mul_one] at h2
      exact ⟨h2.symm, by omega⟩
    · exfalso
      apply hf'
      rw [h2]
      have : (10 : Nat) ∣ 10 ^ (a - b).toNat := dvd_pow_self 10 (by omega)
      exact Nat.mod_eq_zero_of_dvd (Dvd.dvd.mul_left this _)
  rcases le_total b a with hle | hle
  · exact key f f' a b h hf' hle
  · obtain ⟨x, y⟩ := key f' f b a h.symm hf hle
    exact ⟨x.symm, y.symm⟩

theorem frac_nonneg (f : Nat) (a : Int) : (0 : ℚ) ≤ (f : ℚ) * (10 : ℚ) ^ a :=
  mul_nonneg (Nat.cast_nonneg _) (zpow_pos (by norm_num) _).le

theorem frac_zero_iff {f f' : Nat} {a b : Int} (h : (f : ℚ) * (10 : ℚ) ^ a = (f' : ℚ) * (10 : ℚ) ^ b) :
    f = 0 ↔ f' = 0 := by
  have ha : (10 : ℚ) ^ a ≠ 0 := zpow_ne_zero _ (by norm_num)
  have hb : (10 : ℚ) ^ b ≠ 0 := zpow_ne_zero _ (by norm_num)
  constructor
  · intro h0
    rw [h0] at h
    simp only [Nat.cast_zero, zero_mul] at h
    rcases mul_eq_zero.1 h.symm with h | h
    · exact_mod_cast h
    · exact absurd h hb
  · intro h0
    rw [h0] at h
    simp only [Nat.cast_zero, zero_mul] at h
    rcases mul_eq_zero.1 h with h | h
    · exact_mod_cast h
    · exact absurd h ha

/-! ### the split on two encodings of one value -/

/-- **The split of `Exp2` on two encodings of one value**: the same integer part, fractions of equal value. -/
theorem exp2Split_congr {α : Type} (c c' : U128) (e e' : Int16) (l l' : Int64)
    (k k' : U128 → Int16 → UInt64 → Go.GoM α)
    (hc0 : 1 ≤ c.toNat) (hc : c.toNat ≤ Spec.Cmax) (he0 : -6176 ≤ e.toInt) (he1 : e.toInt ≤ 6111)
    (hl : l.toInt = Nat.log 10 c.toNat) (hg : e.toInt ≤ 5 - l.toInt)
    (hc0' : 1 ≤ c'.toNat) (hc' : c'.toNat ≤ Spec.Cmax) (he0' : -6176 ≤ e'.toInt) (he1' : e'.toInt ≤ 6111)
    (hl' : l'.toInt = Nat.log 10 c'.toNat) (hg' : e'.toInt ≤ 5 - l'.toInt)
    (hv : (c.toNat : ℚ) * (10 : ℚ) ^ e.toInt = (c'.toNat : ℚ) * (10 : ℚ) ^ e'.toInt) :
    ∃ (f f' : U128) (fe fe' : Int16) (n : UInt64),
      exp2Split c e l k = k f fe n ∧ exp2Split c' e' l' k' = k' f' fe' n ∧
      (f.toNat : ℚ) * (10 : ℚ) ^ fe.toInt = (f'.toNat : ℚ) * (10 : ℚ) ^ fe'.toInt ∧
      -6176 ≤ fe.toInt ∧ fe.toInt ≤ 0 ∧ -6176 ≤ fe'.toInt ∧ fe'.toInt ≤ 0 := by
  obtain ⟨f, fe, n, hs, hsum, hlt, -, -, hfe0, hfe1, -, -⟩ := exp2Split_eq c e l k hc0 hc he0 he1 hl hg
  obtain ⟨f', fe', n', hs', hsum', hlt', -, -, hfe0', hfe1', -, -⟩ :=
    exp2Split_eq c' e' l' k' hc0' hc' he0' he1' hl' hg'
  obtain ⟨hn, hx⟩ := split_unique (hsum.trans (hv.trans hsum'.symm)) (frac_nonneg _ _) hlt
    (frac_nonneg _ _) hlt'
  have hnn : n = n' := UInt64.toNat_inj.mp hn
  subst hnn
  exact ⟨f, f', fe, fe', n, hs, hs', hx, hfe0, hfe1, hfe0', hfe1'⟩

/-- **The split of `Exp10` on two encodings of one value**: both leave at once with the same result, or both
continue with the same integer part and fractions of equal value. -/
theorem exp10Split_congr (d d' : Decimal) (hsb : Decimal.Signbit d' = Decimal.Signbit d)
    (c c' : U128) (e e' : Int16) (l l' : Int64)
    (k k' : U128 → Int16 → UInt64 → Go.GoM Decimal)
    (hc0 : 1 ≤ c.toNat) (hc : c.toNat ≤ Spec.Cmax) (he0 : -6176 ≤ e.toInt) (he1 : e.toInt ≤ 6111)
    (hl : l.toInt = Nat.log 10 c.toNat) (hg : e.toInt ≤ 4 - l.toInt)
    (hc0' : 1 ≤ c'.toNat) (hc' : c'.toNat ≤ Spec.Cmax) (he0' : -6176 ≤ e'.toInt) (he1' : e'.toInt ≤ 6111)
    (hl' : l'.toInt = Nat.log 10 c'.toNat) (hg' : e'.toInt ≤ 4 - l'.toInt)
    (hv : (c.toNat : ℚ) * (10 : ℚ) ^ e.toInt = (c'.toNat : ℚ) * (10 : ℚ) ^ e'.toInt) :
    exp10Split d c e l k = exp10Split d' c' e' l' k' ∨
    ∃ (f f' : U128) (fe fe' : Int16) (n : UInt64),
      exp10Split d c e l k = k f fe n ∧ exp10Split d' c' e' l' k' = k' f' fe' n ∧
      (f.toNat : ℚ) * (10 : ℚ) ^ fe.toInt = (f'.toNat : ℚ) * (10 : ℚ) ^ fe'.toInt ∧
      -6176 ≤ fe.toInt ∧ fe.toInt ≤ 0 ∧ -6176 ≤ fe'.toInt ∧ fe'.toInt ≤ 0 := by
  obtain ⟨f, fe, n, ⟨hsum, hlt, -, -, hfe0, hfe1, -, -⟩, hbig, hsmall⟩ :=
    exp10Split_eq d c e l k hc0 hc he0 he1 hl hg
  obtain ⟨f', fe', n', ⟨hsum', hlt', -, -, hfe0', hfe1', -, -⟩, hbig', hsmall'⟩ :=
    exp10Split_eq d' c' e' l' k' hc0' hc' he0' he1' hl' hg'
  obtain ⟨hn, hx⟩ := split_unique (hsum.trans (hv.trans hsum'.symm)) (frac_nonneg _ _) hlt
    (frac_nonneg _ _) hlt'
  have hnn : n = n' := UInt64.toNat_inj.mp hn
  subst hnn
  by_cases h6 : 6211 < n.toNat
  · left
    rw [hbig h6, hbig' h6, hsb]
  · right
    exact ⟨f, f', fe, fe', n, hsmall (by omega), hsmall' (by omega), hx, hfe0, hfe1, hfe0', hfe1'⟩

/-! ### the fractional power -/

/-- what is needed of the table constant `ln b`: a multiple `x·ln b` whose significand lies in the top window
`[10·LIM, 2^192)` (which the scaling loops of `epow` leave alone) has `10 ∤ x`, so no other cohort member of the
fraction produces the product with one digit less -/
def LnGap (lnB : decomposed192) : Prop :=
  lnB.exp.toInt = -57 ∧ lnB.sig.toNat ≠ 0 ∧
    ∀ x : Nat, 10 * LIM ≤ x * lnB.sig.toNat → x * lnB.sig.toNat < 2 ^ 192 → x % 10 ≠ 0

theorem ln2_sig : ln2.sig.toNat = 693147180559945309417232121458176568075500134360255254121 := by decide
theorem ln10_sig : ln10.sig.toNat = 2302585092994045684017991454684364207601101488628772976033 := by decide

theorem ln2_gap : LnGap ln2 := by
  refine ⟨by decide, by rw [ln2_sig]; norm_num, fun x h1 h2 => ?_⟩
  rw [ln2_sig] at h1 h2
  unfold LIM at h1
  have : x = 9 := by omega
  rw [this]; decide

theorem ln10_gap : LnGap ln10 := by
  refine ⟨by decide, by rw [ln10_sig]; norm_num, fun x h1 h2 => ?_⟩
  rw [ln10_sig] at h1 h2
  unfold LIM at h1
  omega

/-- the fractional-power stage of `Exp2`/`Exp10`: `b^frac = e^(frac·ln b)` -/
def fracPow (lnB : decomposed192) (f : U128) (fe : Int16) : Go.GoM (decomposed192 × Int8) := do
  let x ← decomposed192.mul (fracArg f fe) lnB (0 : Int8)
  let t ← U192.log10 x.1.sig
  decomposed192.epow x.1 (Go.conv t : Int16) x.2

/-- size facts of the product `frac · ln b` -/
theorem fracMul_facts (lnB : decomposed192) (hL : lnB.exp.toInt = -57) (hLs : lnB.sig.toNat ≠ 0)
    (g : U128) (ge : Int16) (x : decomposed192) (tx : Int8) (hg : g.toNat ≠ 0)
    (hg0 : -6176 ≤ ge.toInt) (hg1 : ge.toInt ≤ 0)
    (hx : decomposed192.mul (fracArg g ge) lnB 0 = .ok (x, tx)) :
    x.sig.toNat ≠ 0 ∧ -6300 ≤ x.exp.toInt ∧ x.exp.toInt ≤ 100 := by
  obtain ⟨x2, tx2, kk, hx2, hk, hs, he, -, hm⟩ := mul_sharp (fracArg g ge) lnB 0
  rw [hx] at hx2
  injection hx2 with hx2
  injection hx2 with hx2a hx2b
  subst hx2a
  have hE : ((fracArg g ge).exp + lnB.exp).toInt = ge.toInt + -57 := by
    rw [Int16.toInt_add_of] <;> rw [fracArg_exp, hL] <;> omega
  have hkk : (Int16.ofNat kk).toInt = kk := Int16.toInt_ofNat_of_lt (by omega)
  have hxe : x.exp.toInt = ge.toInt + -57 + kk := by
    rw [he, Int16.toInt_add_of] <;> rw [hE, hkk] <;> omega
  refine ⟨?_, by omega, by omega⟩
  rw [hs, fracArg_sig]
  have hP : 0 < g.toNat * lnB.sig.toNat := Nat.mul_pos (by omega) (by omega)
  rcases sharp_weak hm with h | h
  · rw [h, Nat.pow_zero, Nat.div_one]; omega
  · rw [fracArg_sig] at h
    have : 0 < 2 ^ 192 / 10 := by norm_num
    omega

/-- **the fractional power depends on the value of the fraction only** -/
theorem fracPow_congr (lnB : decomposed192) (hG : LnGap lnB) (f f' : U128) (fe fe' : Int16)
    (hv : (f.toNat : ℚ) * (10 : ℚ) ^ fe.toInt = (f'.toNat : ℚ) * (10 : ℚ) ^ fe'.toInt)
    (hf : f.toNat ≠ 0)
    (h0 : -6176 ≤ fe.toInt) (h1 : fe.toInt ≤ 0) (h0' : -6176 ≤ fe'.toInt) (h1' : fe'.toInt ≤ 0) :
    fracPow lnB f fe = fracPow lnB f' fe' := by
  obtain ⟨hL, hLs, hgap⟩ := hG
  have hf' : f'.toNat ≠ 0 := fun h => hf ((frac_zero_iff hv).2 h)
  have hvv : val (fracArg f fe) * val lnB = val (fracArg f' fe') * val lnB := by
    rw [val_fracArg, val_fracArg, hv]
  obtain ⟨r, r', t1, hr, hr', hrv, hsh⟩ := mul_congr1 (fracArg f fe) (fracArg f' fe') lnB lnB 0 hvv
    (by rw [fracArg_exp]; omega) (by omega) (by rw [fracArg_exp]; omega) (by omega)
  obtain ⟨a1, a2, a3⟩ := fracMul_facts lnB hL hLs f fe r t1 hf h0 h1 hr
  obtain ⟨b1, b2, b3⟩ := fracMul_facts lnB hL hLs f' fe' r' t1 hf' h0' h1' hr'
  -- the two products are both below the top window, or both in it
  have key : ∀ (x m : Nat) (s s' : U192), s.toNat = x * lnB.sig.toNat → s'.toNat = x * lnB.sig.toNat * 10 ^ m →
      (s.toNat < 10 * LIM ↔ s'.toNat < 10 * LIM) := by
    intro x m s s' hs hs'
    rcases Nat.eq_zero_or_pos m with hm | hm
    · rw [hs, hs', hm, Nat.pow_zero, Nat.mul_one]
    · have hlt := U192.toNat_lt s'
      have h10 : (10 : Nat) ∣ 10 ^ m := dvd_pow_self 10 (by omega)
      have hx10 : (x * 10 ^ m) % 10 = 0 := Nat.mod_eq_zero_of_dvd (Dvd.dvd.mul_left h10 _)
      have e : x * lnB.sig.toNat * 10 ^ m = x * 10 ^ m * lnB.sig.toNat := by ring
      have hb : s'.toNat < 10 * LIM := by
        by_contra hc
        rw [hs', e] at hc hlt
        exact hgap (x * 10 ^ m) (by omega) hlt hx10
      have hle : s.toNat ≤ s'.toNat := by
        rw [hs, hs']; exact Nat.le_mul_of_pos_right _ (by positivity)
      constructor
      · intro _; exact hb
      · intro _; omega
  have hU : r.sig.toNat < 10 * LIM ↔ r'.sig.toNat < 10 * LIM := by
    rcases hsh with h | ⟨m, ha, hb⟩ | ⟨m, ha, hb⟩
    · rw [h]
    · rw [fracArg_sig] at ha hb
      exact key f.toNat m r.sig r'.sig ha hb
    · rw [fracArg_sig] at ha hb
      exact (key f'.toNat m r'.sig r.sig ha hb).symm
  unfold fracPow
  rw [hr, hr', ExpAcc.ok_bind, ExpAcc.ok_bind, U192_log10_eq, U192_log10_eq, ExpAcc.ok_bind, ExpAcc.ok_bind]
  exact epow_congr r r' _ _ t1 hrv a1 b1 hU ⟨by omega, by omega⟩ ⟨by omega, by omega⟩
    (conv_log_192 r.sig) (conv_log_192 r'.sig)

/-- the hypotheses are satisfiable: the fraction `0.0625` as `625e-4` and as `62500e-6` -/
example : fracPow ln2 ⟨625, 0⟩ (-4) = fracPow ln2 ⟨62500, 0⟩ (-6) :=
  fracPow_congr ln2 ln2_gap _ _ _ _ (by
    rw [show (⟨625, 0⟩ : U128).toNat = 625 by decide, show (⟨62500, 0⟩ : U128).toNat = 62500 by decide,
      show (-4 : Int16).toInt = -4 by decide, show (-6 : Int16).toInt = -6 by decide]
    norm_num) (by decide) (by decide) (by decide) (by decide) (by decide)

end CohortElem
