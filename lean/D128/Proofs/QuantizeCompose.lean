/-
  D128/Proofs/QuantizeCompose.lean — `Gen.composeQuantum` (Go: /repo/rounding.go, `func composeQuantum`)
  against `Spec.exactOrInfS` (property C08).

  Provided (namespace `Qz`):
  * Int64 helpers `i64_add`, `i64_sub`, `i64_lt_iff`, `i64_le_iff`, `i16_conv_i64`, `i64_conv_i16`
  * `cqBody`, `composeQuantum_eq`   : normal form of the generated function (loop body isolated)
  * `composeQuantum_zero`           : a zero significand gives `zero neg`
  * `composeQuantum_spec`           : for `1 ≤ sig ≤ Cmax`, `0 ≤ exp`: no panic, terminates; if
      `sig·10^(exp-6176)` is a member of the format the result is a finite Decimal of that magnitude and
      sign, otherwise it is `±Inf`
  * `composeQuantum_same`           : the result denotes `Spec.exactOrInfS neg sig (exp - 6176)` (all `sig ≤ Cmax`)
  * `composeQuantum_fin`            : … and denotes `.fin neg c e` whenever `c·10^e` is the same magnitude and a member
-/
import D128.Proofs.QuantizeSpec
import D128.Proofs.RoundKernelReduceCode
import D128.Proofs.Specials

set_option autoImplicit false
set_option maxRecDepth 4096

namespace Qz
open Gen Spec
local notation "𝔳[" d "]" => Spec.interp (Gen.Decimal.lo d) (Gen.Decimal.hi d)

/-! ## Int64 helpers -/

theorem bmod64 (x : Int) (h : -2 ^ 63 ≤ x) (h' : x < 2 ^ 63) : Int.bmod x (2 ^ 64) = x := by
  rw [Int.bmod_eq_emod]; split <;> omega

theorem i64_add (a b : Int64) (h : -2 ^ 63 ≤ a.toInt + b.toInt) (h' : a.toInt + b.toInt < 2 ^ 63) :
    (a + b).toInt = a.toInt + b.toInt := by
  rw [Int64.toInt_add]; exact bmod64 _ h h'

theorem i64_sub (a b : Int64) (h : -2 ^ 63 ≤ a.toInt - b.toInt) (h' : a.toInt - b.toInt < 2 ^ 63) :
    (a - b).toInt = a.toInt - b.toInt := by
  rw [Int64.toInt_sub]; exact bmod64 _ h h'

theorem i64_mul (a b : Int64) (h : -2 ^ 63 ≤ a.toInt * b.toInt) (h' : a.toInt * b.toInt < 2 ^ 63) :
    (a * b).toInt = a.toInt * b.toInt := by
  rw [Int64.toInt_mul]; exact bmod64 _ h h'

theorem i64_lt_iff (a b : Int64) : decide (a < b) = decide (a.toInt < b.toInt) :=
  decide_eq_decide.2 Int64.lt_iff_toInt_lt

theorem i64_le_iff (a b : Int64) : decide (a ≤ b) = decide (a.toInt ≤ b.toInt) :=
  decide_eq_decide.2 Int64.le_iff_toInt_le

theorem i16_conv_i64 (e : Int16) : (Go.conv e : Int64).toInt = e.toInt := by
  have h1 := e.toInt_lt
  have h2 := e.le_toInt
  show (Int64.ofInt e.toInt).toInt = _
  rw [Int64.toInt_ofInt]
  apply Int.bmod_eq_of_le <;> simp only [Int64.size, Int.reducePow] at * <;> omega

theorem i64_conv_i16 (x : Int64) (h0 : -2 ^ 15 ≤ x.toInt) (h1 : x.toInt < 2 ^ 15) :
    (Go.conv x : Int16).toInt = x.toInt := by
  show (Int16.ofInt x.toInt).toInt = _
  rw [Int16.toInt_ofInt]
  apply Int.bmod_eq_of_le <;> simp only [Int16.size, Int.reducePow] at * <;> omega

/-! ## normal form -/

abbrev CSt := Option Decimal × U128 × Int64

/-- body of the loop of `composeQuantum` -/
def cqBody (neg : Bool) (_ : Unit) (s : CSt) : Go.GoM (ForInStep CSt) :=
  if decide (s.2.2 > 12287) = true then
    if decide ((U128.mul64 s.2.1 10).w1 > 703687441776639) = true then
      pure (ForInStep.done (some (inf neg), s.2.1, s.2.2))
    else pure (ForInStep.yield (none, U128.mul64 s.2.1 10, s.2.2 - 1))
  else pure (ForInStep.done (none, s.2.1, s.2.2))

/-- what `composeQuantum` does with the final loop state -/
def cqFinish (neg : Bool) (s : CSt) : Go.GoM Decimal :=
  match s.1 with
  | some r => pure r
  | none => pure (compose neg s.2.1 (Go.conv s.2.2))

theorem composeQuantum_eq (neg : Bool) (sig : U128) (exp : Int64) :
    composeQuantum neg sig exp =
      if (sig.w0 ||| sig.w1 == 0) = true then pure (zero neg)
      else forIn (m := Go.GoM) Lean.Loop.mk ((none, sig, exp) : CSt) (cqBody neg) >>= cqFinish neg := by
  unfold composeQuantum cqBody cqFinish
  zeta_except_jp
  congr 1
  congr 1
  funext s
  rcases s with ⟨_ | r, rest⟩ <;> rfl

theorem composeQuantum_zero (neg : Bool) (sig : U128) (exp : Int64) (h : sig.toNat = 0) :
    composeQuantum neg sig exp = .ok (zero neg) := by
  rw [composeQuantum_eq, Sp.or_beq_zero, h]
  rfl

/-! ## the loop -/

theorem not_member_of_gt (q : ℚ) (h : (Spec.Cmax : ℚ) * (10 : ℚ) ^ Spec.Emax < q) :
    ¬ SpecRound.Member q := fun hm => absurd (SpecRound.member_le_max hm) (not_le.2 h)

theorem composeQuantum_spec (neg : Bool) (sig : U128) (exp : Int64)
    (hs1 : 1 ≤ sig.toNat) (hs : sig.toNat ≤ Spec.Cmax) (he0 : 0 ≤ exp.toInt) :
    ∃ r, composeQuantum neg sig exp = .ok r ∧
      (SpecRound.Member ((sig.toNat : ℚ) * (10 : ℚ) ^ (exp.toInt - 6176)) →
        ∃ c e, 𝔳[r] = .fin neg c e ∧
          (c : ℚ) * (10 : ℚ) ^ e = (sig.toNat : ℚ) * (10 : ℚ) ^ (exp.toInt - 6176)) ∧
      (¬ SpecRound.Member ((sig.toNat : ℚ) * (10 : ℚ) ^ (exp.toInt - 6176)) → 𝔳[r] = .inf neg) := by
  have hCm := RK.Cmax_val
  set q : ℚ := (sig.toNat : ℚ) * (10 : ℚ) ^ (exp.toInt - 6176) with hq
  have hnz : ¬ ((sig.w0 ||| sig.w1 == 0) = true) := by
    rw [Sp.or_beq_zero]; simp only [decide_eq_true_eq]; omega
  rw [composeQuantum_eq, if_neg hnz]
  have e12 : (12287 : Int64).toInt = 12287 := by decide
  obtain ⟨s', hloop, hpost⟩ := RK.loop_inv (cqBody neg)
    (fun s : CSt => s.1 = none ∧ 1 ≤ s.2.1.toNat ∧ s.2.1.toNat ≤ Spec.Cmax ∧ 0 ≤ s.2.2.toInt ∧
      (s.2.1.toNat : ℚ) * (10 : ℚ) ^ (s.2.2.toInt - 6176) = q)
    (fun s : CSt => (s.1 = some (inf neg) ∧ ¬ SpecRound.Member q) ∨
      (s.1 = none ∧ s.2.1.toNat ≤ Spec.Cmax ∧ 0 ≤ s.2.2.toInt ∧ s.2.2.toInt ≤ 12287 ∧
        (s.2.1.toNat : ℚ) * (10 : ℚ) ^ (s.2.2.toInt - 6176) = q))
    (fun s : CSt => s.2.2.toInt.toNat)
    (by
      rintro ⟨o, sg, x⟩ ⟨ho, h1, h2, h3, h4⟩
      dsimp only at ho h1 h2 h3 h4
      subst ho
      have hxlt := x.toInt_lt
      by_cases hc : decide (x > 12287) = true
      · have hgt : 12287 < x.toInt := by
          simpa only [gt_iff_lt, decide_eq_true_eq, Int64.lt_iff_toInt_lt, e12] using hc
        have hmul : (U128.mul64 sg 10).toNat = sg.toNat * 10 := by
          rw [U128_mul64_toNat_of_lt]
          · rfl
          · have : (10 : UInt64).toNat = 10 := rfl
            rw [this]; omega
        by_cases hov : decide ((U128.mul64 sg 10).w1 > 703687441776639) = true
        · right
          refine ⟨(some (inf neg), sg, x), ?_, Or.inl ⟨rfl, ?_⟩⟩
          · simp only [cqBody, hc, hov, if_true]; rfl
          · rw [RK.U128_w1_gt_iff, hmul] at hov
            simp only [decide_eq_true_eq] at hov
            apply not_member_of_gt
            rw [← h4]
            have hx : x.toInt - 6176 = Spec.Emax + (1 + ((x.toInt - 12288).toNat : Int)) := by
              unfold Spec.Emax; omega
            rw [hx, zpow_add₀ (by norm_num), zpow_add₀ (by norm_num), zpow_one, zpow_natCast]
            have hp : (0 : ℚ) < (10 : ℚ) ^ Spec.Emax := zpow_pos (by norm_num) _
            have hp1 : (1 : ℚ) ≤ (10 : ℚ) ^ (x.toInt - 12288).toNat := one_le_pow₀ (by norm_num)
            have hsg : (Spec.Cmax : ℚ) + 1 ≤ (sg.toNat : ℚ) * 10 := by
              have : Spec.Cmax + 1 ≤ sg.toNat * 10 := by omega
              exact_mod_cast this
            have hsg0 : (0 : ℚ) ≤ (sg.toNat : ℚ) := by positivity
            calc (Spec.Cmax : ℚ) * (10 : ℚ) ^ Spec.Emax
                < ((sg.toNat : ℚ) * 10) * (10 : ℚ) ^ Spec.Emax := by nlinarith
              _ ≤ ((sg.toNat : ℚ) * 10) * (10 : ℚ) ^ Spec.Emax * (10 : ℚ) ^ (x.toInt - 12288).toNat := by
                  apply le_mul_of_one_le_right _ hp1
                  positivity
              _ = (sg.toNat : ℚ) * ((10 : ℚ) ^ Spec.Emax * (10 * (10 : ℚ) ^ (x.toInt - 12288).toNat)) := by
                  ring
        · left
          have hsub : (x - 1).toInt = x.toInt - 1 := by
            rw [i64_sub] <;> simp <;> omega
          refine ⟨(none, U128.mul64 sg 10, x - 1), ?_, ⟨rfl, ?_, ?_, ?_, ?_⟩, ?_⟩
          · simp only [cqBody, hc, hov, if_true]; rfl
          · show 1 ≤ (U128.mul64 sg 10).toNat
            rw [hmul]; omega
          · show (U128.mul64 sg 10).toNat ≤ Spec.Cmax
            rw [RK.U128_w1_gt_iff, hmul] at hov
            simp only [decide_eq_true_eq] at hov
            rw [hmul]; omega
          · show 0 ≤ (x - 1).toInt
            rw [hsub]; omega
          · show ((U128.mul64 sg 10).toNat : ℚ) * (10 : ℚ) ^ ((x - 1).toInt - 6176) = q
            rw [hmul, hsub, ← h4]
            have : x.toInt - 6176 = (x.toInt - 1 - 6176) + 1 := by ring
            rw [this, zpow_add₀ (by norm_num), zpow_one]
            push_cast; ring
          · show (x - 1).toInt.toNat < x.toInt.toNat
            rw [hsub]; omega
      · right
        have hle : x.toInt ≤ 12287 := by
          simpa only [gt_iff_lt, decide_eq_true_eq, Int64.lt_iff_toInt_lt, e12, not_lt] using hc
        refine ⟨(none, sg, x), ?_, Or.inr ⟨rfl, h2, h3, hle, h4⟩⟩
        simp only [cqBody, hc]; rfl)
    (none, sig, exp) ⟨rfl, hs1, hs, he0, rfl⟩
  rw [hloop]
  rcases hpost with ⟨h1, hnm⟩ | ⟨h1, h2, h3, h4, h5⟩
  · refine ⟨inf neg, ?_, ?_⟩
    · show cqFinish neg s' = _
      unfold cqFinish; rw [h1]; rfl
    · exact ⟨fun hm => absurd hm hnm, fun _ => Enc.interp_inf neg⟩
  · refine ⟨compose neg s'.2.1 (Go.conv s'.2.2), ?_, ?_⟩
    · show cqFinish neg s' = _
      unfold cqFinish; rw [h1]; rfl
    · have hconv : (Go.conv s'.2.2 : Int16).toInt = s'.2.2.toInt := by
        apply i64_conv_i16 <;> simp only [Int.reducePow] <;> omega
      have hmem : SpecRound.Member q := by
        refine ⟨s'.2.1.toNat, s'.2.2.toInt - 6176, h2, ?_, ?_, h5.symm⟩ <;>
          simp only [Spec.Emin, Spec.Emax] <;> omega
      rw [Sp.interp_compose neg _ _ h2 (by rw [hconv]; exact h3) (by rw [hconv]; exact h4), hconv]
      exact ⟨fun _ => ⟨_, _, rfl, h5⟩, fun hn => absurd hmem hn⟩

/-- `composeQuantum` returns a Decimal denoting `Spec.exactOrInfS neg sig (exp - 6176)` -/
theorem composeQuantum_same (neg : Bool) (sig : U128) (exp : Int64)
    (hs : sig.toNat ≤ Spec.Cmax) (he0 : 0 ≤ exp.toInt) :
    ∃ r, composeQuantum neg sig exp = .ok r ∧
      (𝔳[r]).same (Spec.exactOrInfS neg (sig.toNat : ℚ) (exp.toInt - 6176)) = true := by
  by_cases hz : sig.toNat = 0
  · refine ⟨_, composeQuantum_zero neg sig exp hz, ?_⟩
    rw [hz, Enc.interp_zero]
    simp only [Nat.cast_zero, exactOrInfS_zero]
    exact Sp.same_zero _ _ _
  · obtain ⟨r, hr, hp⟩ := composeQuantum_spec neg sig exp (by omega) hs he0
    refine ⟨r, hr, ?_⟩
    have hq : (0 : ℚ) < (sig.toNat : ℚ) := by exact_mod_cast (by omega : 0 < sig.toNat)
    by_cases hm : SpecRound.Member ((sig.toNat : ℚ) * (10 : ℚ) ^ (exp.toInt - 6176))
    · obtain ⟨c, e, hv, hce⟩ := hp.1 hm
      obtain ⟨c', e', hv', hce', _⟩ := exactOrInfS_member neg _ _ hq hm
      rw [hv, hv']
      exact same_fin_of_mag _ _ _ _ _ (hce.trans hce'.symm)
    · rw [hp.2 hm, exactOrInfS_not_member neg _ _ hq hm]
      exact Sp.same_refl _

/-- when `sig·10^(exp-6176)` is the magnitude `c·10^e` of a member, `composeQuantum` denotes `.fin neg c e` -/
theorem composeQuantum_fin (neg : Bool) (sig : U128) (exp : Int64) (c : Nat) (e : Int)
    (hs1 : 1 ≤ sig.toNat) (hs : sig.toNat ≤ Spec.Cmax) (he0 : 0 ≤ exp.toInt)
    (hc : c ≤ Spec.Cmax) (he1 : Spec.Emin ≤ e) (he2 : e ≤ Spec.Emax)
    (hmag : (sig.toNat : ℚ) * (10 : ℚ) ^ (exp.toInt - 6176) = (c : ℚ) * (10 : ℚ) ^ e) :
    ∃ r, composeQuantum neg sig exp = .ok r ∧ (𝔳[r]).same (.fin neg c e) = true := by
  obtain ⟨r, hr, hp⟩ := composeQuantum_spec neg sig exp hs1 hs he0
  refine ⟨r, hr, ?_⟩
  have hm : SpecRound.Member ((sig.toNat : ℚ) * (10 : ℚ) ^ (exp.toInt - 6176)) :=
    ⟨c, e, hc, he1, he2, hmag⟩
  obtain ⟨c', e', hv, hce⟩ := hp.1 hm
  rw [hv]
  exact same_fin_of_mag _ _ _ _ _ (hce.trans hmag)

end Qz
