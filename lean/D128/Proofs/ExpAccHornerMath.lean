/-
  D128/Proofs/ExpAccHornerMath.lean — preparation for the Horner heads of `decomposed192.epow` and
  `decomposed192.epowm1` WITH size information (namespace `ExpAcc`).

  * `MulQ3`, `mul_q3`, `mul_q3spec`     : `mul` — `MulQ2` plus "exact (exponent = sum, significand = product)
                                          or normalised (`2^192/10 ≤ sig`)"
  * `Add1R'`, `add1_q3`, `add1_q3spec`  : `add1` — `Add1R` plus, for `0 < d.sig`, `d.exp ≤ 0`:
                                          `-57 ≤ r.exp ≤ 1` and `r = one ∨ (r.exp = d.exp ∧ 10^-d.exp ≤ r.sig) ∨ 2^192/10 ≤ r.sig`
  * `exp_le_of_norm`, `mul_small_exp`, `hinv_res_bounds`, `add1_big`
  * `HX`                                : the extra loop invariant `res.exp ≤ 1 ∧ (i ≤ 38 → -57 ≤ res.exp)`
  * `HOut x t d2 res tr`                : what is known when the Horner loop is left
  * `hornerK`                           : the common head of `epow`/`epowm1` in continuation-passing form
                                          (copy of the generated statements), `epowK`, `epow_eq : epow = hornerK … epowK := rfl`
  * `x_step`, `x_init`, `x_out`         : VC wrappers for the extra invariant
-/
import D128.Proofs.D192Exp
set_option autoImplicit false
set_option maxRecDepth 8192
set_option exponentiation.threshold 512
set_option linter.unusedVariables false
open Std.Do D128.Proofs.WordsWide
set_option mvcgen.warning false

namespace ExpAcc
open Gen

/-- the common head of `epow` and `epowm1` (argument reduction, the two scaling loops, the Horner
loop), in continuation-passing form: `k d2 res trunc exp`. The statements are copies of the generated
ones. -/
def hornerK {α : Type} (d : decomposed192) (l10 : Int16) (trunc : Int8)
    (k : decomposed192 → decomposed192 → Int8 → Int16 → Go.GoM α) : Go.GoM α := do
  let mut d : decomposed192 := d
  let mut trunc : Int8 := trunc
  let mut exp : Int16 := ((d.exp + l10) + (1 : Int16))
  if (decide (exp < (0 : Int16))) then
    exp := (0 : Int16)
  else
    d := { d with exp := ((-l10) - (1 : Int16)) }
  while (decide (d.sig.w2 ≤ (703687441776639 : UInt64))) do
    d := { d with sig := (U192.mul64 d.sig (10000 : UInt64)) }
    d := { d with exp := (d.exp - (4 : Int16)) }
  while (decide (d.sig.w2 ≤ (1801439850948198399 : UInt64))) do
    d := { d with sig := (U192.mul64 d.sig (10 : UInt64)) }
    d := { d with exp := (d.exp - (1 : Int16)) }
  let (r_1, r_2) ← decomposed192.quo d ({ (default : decomposed192) with sig := (U192.mk (40 : UInt64) (0 : UInt64) (0 : UInt64)), exp := (0 : Int16) } : decomposed192) trunc
  let mut res : decomposed192 := r_1
  trunc := r_2
  let mut i : UInt64 := (39 : UInt64)
  while (decide (i > (1 : UInt64))) do
    let (r_3, r_4) ← decomposed192.quo d ({ (default : decomposed192) with sig := (U192.mk i (0 : UInt64) (0 : UInt64)), exp := (0 : Int16) } : decomposed192) (0 : Int8)
    let mut tmp : decomposed192 := r_3
    let (r_5, r_6) ← decomposed192.mul res tmp trunc
    res := r_5
    trunc := r_6
    let (r_7, r_8) ← decomposed192.add1 res trunc
    res := r_7
    trunc := r_8
    i := (i - (1 : UInt64))
  k d res trunc exp

/-- the part of `epow` after the Horner loop -/
def epowK (d res : decomposed192) (trunc : Int8) (exp : Int16) : Go.GoM (decomposed192 × Int8) := do
  let mut res := res
  let mut trunc := trunc
  let (r_9, r_10) ← decomposed192.mul res d trunc
  res := r_9
  trunc := r_10
  let (r_11, r_12) ← decomposed192.add1 res trunc
  res := r_11
  trunc := r_12
  let t_13 ← decomposed192.powexp10 res exp trunc
  return t_13

theorem epow_eq (d : decomposed192) (l10 : Int16) (t : Int8) :
    decomposed192.epow d l10 t = hornerK d l10 t epowK := rfl

open D192

/-! ### `mul` and `add1` with size information -/

/-- `mul`: `MulQ2` and "exact or normalised" at the level of significands and exponents -/
def MulQ3 (d o : decomposed192) (t : Int8) (x : decomposed192 × Int8) : Prop :=
  MulQ2 d o t x ∧
  ((x.1.exp.toInt = d.exp.toInt + o.exp.toInt ∧ x.1.sig.toNat = d.sig.toNat * o.sig.toNat) ∨
    2 ^ 192 / 10 ≤ x.1.sig.toNat)

theorem mul_q3 (d o : decomposed192) (t : Int8)
    (hlo : -32768 ≤ d.exp.toInt + o.exp.toInt) (hhi : d.exp.toInt + o.exp.toInt + 58 ≤ 32767) :
    ∃ x, decomposed192.mul d o t = .ok x ∧ MulQ3 d o t x := by
  obtain ⟨x, e, h⟩ := mul_q2 d o t hlo hhi
  obtain ⟨r, t', k, e', hk, hs, he, ht, hn⟩ := mul_spec d o t
  rw [e] at e'
  obtain rfl : x = (r, t') := Except.ok.inj e'
  refine ⟨_, e, h, ?_⟩
  rcases hn with rfl | hn
  · left
    have he' : r.exp = d.exp + o.exp := by simpa using he
    have hs' : r.sig.toNat = d.sig.toNat * o.sig.toNat := by simpa using hs
    exact ⟨by rw [he']; exact Int16.toInt_add_of _ _ hlo (by omega), hs'⟩
  · right; exact hn

theorem mul_q3spec (d o : decomposed192) (t : Int8) :
    ⦃⌜-32768 ≤ d.exp.toInt + o.exp.toInt ∧ d.exp.toInt + o.exp.toInt + 58 ≤ 32767⌝⦄
    decomposed192.mul d o t
    ⦃⇓ x => ⌜MulQ3 d o t x⌝⦄ := by
  generalize hP : (-32768 ≤ d.exp.toInt + o.exp.toInt ∧ d.exp.toInt + o.exp.toInt + 58 ≤ 32767) = P
  by_cases h : P
  · obtain ⟨x, e, hc⟩ := mul_q3 d o t (hP ▸ h).1 (hP ▸ h).2
    have := triple_of_eq e (Q := fun x => MulQ3 d o t x) hc
    simpa [h] using this
  · simp [Triple, h]

/-- `add1`: `Add1R` and, for a non-zero argument with `exp ≤ 0`, the size of the result -/
def Add1R' (d : decomposed192) (t : Int8) (x : decomposed192 × Int8) : Prop :=
  Add1R d t x ∧ (0 < d.sig.toNat → d.exp.toInt ≤ 0 →
    x.1.exp.toInt ≤ 1 ∧ -57 ≤ x.1.exp.toInt ∧
    (x.1 = one ∨ (x.1.exp.toInt = d.exp.toInt ∧ 10 ^ (-d.exp.toInt).toNat ≤ x.1.sig.toNat) ∨
      2 ^ 192 / 10 ≤ x.1.sig.toNat))

theorem add1_q3 (d : decomposed192) (t : Int8) :
    ∃ x, decomposed192.add1 d t = .ok x ∧ Add1R' d t x := by
  obtain ⟨x, e, h⟩ := ok_of_triple (add1_qspec d t)
  refine ⟨x, e, h, fun hs he => ?_⟩
  by_cases hlo : d.exp.toInt < -116
  · have h1 := (add1_tiny d t hs hlo).1
    rw [e] at h1
    obtain rfl : x = (one, 1) := Except.ok.inj h1
    refine ⟨by show one.exp.toInt ≤ 1; rw [one_exp]; omega, by show -57 ≤ one.exp.toInt; rw [one_exp]; omega,
      Or.inl rfl⟩
  · obtain ⟨r, t', e', hc⟩ := add1_down d t hs (by omega) he
    rw [e] at e'
    obtain rfl : x = (r, t') := Except.ok.inj e'
    rcases hc with ⟨rfl, -⟩ | ⟨K, hK, h1, h2, h3, h4, h5, h6⟩
    · exact ⟨by show one.exp.toInt ≤ 1; rw [one_exp]; omega, by show -57 ≤ one.exp.toInt; rw [one_exp]; omega,
        Or.inl rfl⟩
    · refine ⟨h6, h5, Or.inr ?_⟩
      rcases h4 with rfl | h4
      · left
        refine ⟨by simpa using h2, ?_⟩
        show 10 ^ (-d.exp.toInt).toNat ≤ r.sig.toNat
        rw [h1]; simp
      · right; exact h4

theorem add1_q3spec (d : decomposed192) (t : Int8) :
    ⦃⌜True⌝⦄ decomposed192.add1 d t ⦃⇓ x => ⌜Add1R' d t x⌝⦄ := by
  obtain ⟨x, e, h⟩ := add1_q3 d t
  exact triple_of_eq e h

/-- a normalised significand and a value of at most 2 force the exponent down to `-57` -/
theorem exp_le_of_norm (m : decomposed192) (h : 2 ^ 192 / 10 ≤ m.sig.toNat) (hv : val m ≤ 2) :
    m.exp.toInt ≤ -57 := by
  by_contra hc
  have hge : (-56 : Int) ≤ m.exp.toInt := by omega
  have hp : (10 : ℚ) ^ (-56 : Int) ≤ (10 : ℚ) ^ m.exp.toInt := zpow_le_zpow_right₀ (by norm_num) hge
  have hs : ((2 ^ 192 / 10 : Nat) : ℚ) ≤ (m.sig.toNat : ℚ) := by exact_mod_cast h
  have : ((2 ^ 192 / 10 : Nat) : ℚ) * (10 : ℚ) ^ (-56 : Int) ≤ val m := by
    unfold val
    exact mul_le_mul hs hp (by positivity) (by positivity)
  have h2 : (2 : ℚ) < ((2 ^ 192 / 10 : Nat) : ℚ) * (10 : ℚ) ^ (-56 : Int) := by
    rw [zpow_neg]; norm_num
  linarith

/-- the exponent of a small product -/
theorem mul_small_exp {r o : decomposed192} {t : Int8} {m : decomposed192 × Int8}
    (hm : MulQ3 r o t m) (hv : val r * val o ≤ 2) :
    m.1.exp.toInt = r.exp.toInt + o.exp.toInt ∨ m.1.exp.toInt ≤ -57 := by
  rcases hm.2 with ⟨h, -⟩ | h
  · left; exact h
  · right; exact exp_le_of_norm _ h (le_trans hm.1.1 hv)

theorem mul_sig_pos {r o : decomposed192} {t : Int8} {m : decomposed192 × Int8}
    (hm : MulQ3 r o t m) (hr : 0 < val r) (ho : 0 < val o) : 0 < m.1.sig.toNat := by
  have : 0 < val m.1 := lt_of_lt_of_le (mul_pos (mul_pos hr ho) one_sub_eps_pos) hm.1.2.1
  exact sig_pos_of_val_pos _ this

theorem hinv_res_bounds {x : ℚ} {e2 : Int} {t : Int8} {b : Int8 × decomposed192 × UInt64}
    (h : HInv x e2 t b) (hx0 : 0 < x) (hx1 : x ≤ 1) : 0 < val b.2.1 ∧ val b.2.1 ≤ 2 := by
  obtain ⟨j, hj, hij, r1, r2, hf, e1, e2⟩ := h
  exact ⟨lt_of_lt_of_le (mul_pos (G_pos x hx0 j) (pow_pos one_sub_theta_pos _)) r1,
    le_trans r2 (G_le_two x hx0.le hx1 j hj)⟩

/-- `add1` of a non-zero value with exponent `≤ -55` is `one` or has at least 56 digits -/
theorem add1_big {m : decomposed192} {t : Int8} {a : decomposed192 × Int8} (ha : Add1R' m t a)
    (hs : 0 < m.sig.toNat) (he : m.exp.toInt ≤ -55) :
    a.1.exp.toInt ≤ 1 ∧ -57 ≤ a.1.exp.toInt ∧ (a.1 = one ∨ 10 ^ 55 ≤ a.1.sig.toNat) := by
  obtain ⟨h1, h2, h3⟩ := ha.2 hs (by omega)
  refine ⟨h1, h2, ?_⟩
  rcases h3 with h3 | ⟨-, h3⟩ | h3
  · left; exact h3
  · right
    have : 10 ^ 55 ≤ 10 ^ (-m.exp.toInt).toNat := Nat.pow_le_pow_right (by norm_num) (by omega)
    omega
  · right
    have : 10 ^ 55 ≤ 2 ^ 192 / 10 := by norm_num
    omega

/-! ### the extra loop invariant -/

/-- extra invariant of the Horner loop: the running value has exponent `≤ 1`, and `≥ -57` once it is
the result of an `add1` -/
def HX (st : Int8 × decomposed192 × UInt64) : Prop :=
  st.2.1.exp.toInt ≤ 1 ∧ (st.2.2.toNat ≤ 38 → -57 ≤ st.2.1.exp.toInt)

/-- what is known when the Horner loop is left (`x` is the reduced argument) -/
def HOut (x : ℚ) (t : Int8) (d2 res : decomposed192) (tr : Int8) : Prop :=
  val d2 = x ∧ 0 < x ∧ LIM ≤ d2.sig.toNat ∧ -15957 ≤ d2.exp.toInt ∧ d2.exp.toInt ≤ -57 ∧
  G x 38 * (1 - theta) ^ 115 ≤ val res ∧ val res ≤ G x 38 ∧ (tr = t ∨ tr = 1) ∧
  -57 ≤ res.exp.toInt ∧ res.exp.toInt ≤ 1

theorem x_init {D : Nat} {e : Int16} {d2 : decomposed192} {t : Int8}
    {r : decomposed192 × Int8}
    (h : ScUp D e d2 ∧ LIM ≤ d2.sig.toNat) (hD : 1 ≤ D)
    (he : -15900 ≤ e.toInt ∧ e.toInt ≤ 16000) (hx : (D : ℚ) * (10 : ℚ) ^ e.toInt ≤ 1)
    (hq : QuoS d2 40 t r) : HInv (val d2) d2.exp.toInt t (r.2, r.1, 39) ∧ HX (r.2, r.1, 39) := by
  obtain ⟨-, f2, f3, f4⟩ := scaled_facts h.1 hD he hx h.2
  refine ⟨HInv.init d2 t r f4 hq, ?_, ?_⟩
  · have := hq.2.2.2.2
    show r.1.exp.toInt ≤ 1
    omega
  · intro h39
    exfalso
    have : (39 : UInt64).toNat = 39 := rfl
    simp only [this] at h39
    omega

theorem x_step {D : Nat} {e : Int16} {d2 : decomposed192} {t : Int8}
    {b : Int8 × decomposed192 × UInt64} {mb : Nat}
    {q m a : decomposed192 × Int8}
    (h : ScUp D e d2 ∧ LIM ≤ d2.sig.toNat) (hD : 1 ≤ D)
    (he : -15900 ≤ e.toInt ∧ e.toInt ≤ 16000) (hx : (D : ℚ) * (10 : ℚ) ^ e.toInt ≤ 1)
    (hinv : mb = b.2.2.toNat ∧ HInv (val d2) d2.exp.toInt t b ∧ HX b) (hi : 1 < b.2.2)
    (hq : QuoS d2 b.2.2 0 q) (hm : MulQ3 b.2.1 q.1 b.1 m) (ha : Add1R' m.1 m.2 a) :
    (b.2.2 - 1).toNat < mb ∧ HInv (val d2) d2.exp.toInt t (a.2, a.1, b.2.2 - 1) ∧
      HX (a.2, a.1, b.2.2 - 1) := by
  obtain ⟨f1, f2, f3, f4⟩ := scaled_facts h.1 hD he hx h.2
  have hx0 : 0 < val d2 := by
    rw [f1]; exact mul_pos (by exact_mod_cast hD) (zpow_pos (by norm_num) _)
  have hx1 : val d2 ≤ 1 := by rw [f1]; exact hx
  have hstep := w_step h hD he hx ⟨hinv.1, hinv.2.1⟩ hi hq hm.1 ha.1
  refine ⟨hstep.1, hstep.2, ?_⟩
  obtain ⟨hb0, hb2⟩ := hinv_res_bounds hinv.2.1 hx0 hx1
  have hi' : 1 < b.2.2.toNat := by
    rw [UInt64.lt_iff_toNat_lt] at hi; exact hi
  have hi2 : (2 : ℚ) ≤ (b.2.2.toNat : ℚ) := by exact_mod_cast hi'
  obtain ⟨q1, q2, -, q4, q5⟩ := hq
  have hq0 : 0 < val d2 / (b.2.2.toNat : ℚ) := div_pos hx0 (by linarith)
  have hqh : val d2 / (b.2.2.toNat : ℚ) ≤ 1 / 2 := by
    rw [div_le_div_iff₀ (by linarith) (by norm_num)]; nlinarith
  have hqv0 : 0 < val q.1 := lt_of_lt_of_le (mul_pos hq0 one_sub_theta_pos) q2
  have hprod : val b.2.1 * val q.1 ≤ 2 := by
    calc val b.2.1 * val q.1 ≤ 2 * (1 / 2) := mul_le_mul hb2 (le_trans q1 hqh) hqv0.le (by norm_num)
      _ ≤ 2 := by norm_num
  have hms := mul_sig_pos hm hb0 hqv0
  have hme : m.1.exp.toInt ≤ -55 := by
    have hX := hinv.2.2.1
    rcases mul_small_exp hm hprod with h | h <;> omega
  obtain ⟨a1, a2, -⟩ := add1_big ha hms hme
  exact ⟨a1, fun _ => a2⟩

theorem x_exit {x : ℚ} {e2 : Int} {t : Int8} {b : Int8 × decomposed192 × UInt64} {mb : Nat}
    (hinv : mb = b.2.2.toNat ∧ HInv x e2 t b ∧ HX b) (hi : b.2.2 ≤ 1) :
    (HInv x e2 t b ∧ HX b) ∧ b.2.2.toNat ≤ 1 := by
  rw [UInt64.le_iff_toNat_le] at hi
  exact ⟨hinv.2, hi⟩

theorem x_out {D : Nat} {e : Int16} {d2 : decomposed192} {t : Int8}
    {b : Int8 × decomposed192 × UInt64}
    (h : ScUp D e d2 ∧ LIM ≤ d2.sig.toNat) (hD : 1 ≤ D)
    (he : -15900 ≤ e.toInt ∧ e.toInt ≤ 16000) (hx : (D : ℚ) * (10 : ℚ) ^ e.toInt ≤ 1)
    (hinv : (HInv (val d2) d2.exp.toInt t b ∧ HX b) ∧ b.2.2.toNat ≤ 1) :
    HOut ((D : ℚ) * (10 : ℚ) ^ e.toInt) t d2 b.2.1 b.1 := by
  obtain ⟨f1, f2, f3, f4⟩ := scaled_facts h.1 hD he hx h.2
  have hx0 : 0 < (D : ℚ) * (10 : ℚ) ^ e.toInt :=
    mul_pos (by exact_mod_cast hD) (zpow_pos (by norm_num) _)
  obtain ⟨⟨⟨j, hj, hij, r1, r2, hf, e1, e2⟩, hX1, hX2⟩, hi⟩ := hinv
  have hj38 : j = 38 := by omega
  subst hj38
  rw [f1] at r1 r2
  exact ⟨f1, hx0, h.2, by omega, f4, r1, r2, hf, hX2 (by omega), hX1⟩

end ExpAcc
