/-
  D128/Proofs/CanonEq.lean — canonical bits coincide iff Equal with the same sign; assembly over
  the generated `Canonical`.

    mag_eq_iff, mag_eq_zero_iff, equal_fin_iff
    canonical_eq_iff_spec    finite x, y: canonical x = canonical y ↔ Spec.equal x y ∧ same sign
    normal_exp_closest       a Normal pair has the exponent closest to zero among all pairs with
                             coefficient ≤ Cmax and the same value
    Canonical_eq             Gen.Decimal.Canonical d = .ok ⟨(Spec.canonical 𝔳[d]).1, (…).2⟩
    interp_canonical         𝔳[r] = canonVal 𝔳[d] for Canonical d = .ok r
-/
import D128.Proofs.CanonMain
set_option autoImplicit false

namespace CanonPf

theorem mag_eq_iff (c c' : Nat) (e e' : Int) :
    Spec.mag c e = Spec.mag c' e' ↔ c * 10 ^ (e - e').toNat = c' * 10 ^ (e' - e).toNat := by
  constructor
  · intro h
    by_cases hle : e ≤ e'
    · have h0 : (e - e').toNat = 0 := by omega
      rw [h0, Nat.pow_zero, Nat.mul_one]
      have h1 := CmpPf.mag_scaled c' e' e hle
      have hP := CmpPf.pow10_pos e
      rw [h1] at h
      unfold Spec.mag at h
      have := mul_right_cancel₀ hP.ne' h
      exact_mod_cast this
    · have hle' : e' ≤ e := by omega
      have h0 : (e' - e).toNat = 0 := by omega
      rw [h0, Nat.pow_zero, Nat.mul_one]
      have h1 := CmpPf.mag_scaled c e e' hle'
      have hP := CmpPf.pow10_pos e'
      rw [h1] at h
      unfold Spec.mag at h
      have := mul_right_cancel₀ hP.ne' h
      exact_mod_cast this
  · intro h
    exact (mag_eq_of_scaled c c' e e' _ _ h (by omega)).symm

theorem mag_eq_zero_iff (c : Nat) (e : Int) : Spec.mag c e = 0 ↔ c = 0 := by
  unfold Spec.mag
  have hP := CmpPf.pow10_pos e
  constructor
  · intro h
    rcases mul_eq_zero.mp h with h | h
    · exact_mod_cast h
    · exact absurd h hP.ne'
  · intro h; subst h; simp

theorem equal_fin_iff (n : Bool) (c c' : Nat) (e e' : Int) :
    Spec.equal (.fin n c e) (.fin n c' e') = true ↔ Spec.mag c e = Spec.mag c' e' := by
  unfold Spec.equal
  rw [CmpPf.spec_cmp_fin_rat]
  simp only [Spec.Val.toRat]
  cases n <;> simp only [Bool.false_eq_true, if_false, if_true, neg_lt_neg_iff, neg_inj]
  · split_ifs with h1 h2
    · simp; exact fun h => absurd h (ne_of_lt h1)
    · simp [h2]
    · simp [h2]
  · split_ifs with h1 h2
    · simp; exact fun h => absurd h.symm (ne_of_lt h1)
    · simp [h2]
    · simp [h2]

/-- two finite values have the same canonical bits iff they are `Equal` with the same sign -/
theorem canonical_eq_iff_spec (n n' : Bool) (c c' : Nat) (e e' : Int)
    (hx : Valid (.fin n c e)) (hy : Valid (.fin n' c' e')) :
    Spec.canonical (.fin n c e) = Spec.canonical (.fin n' c' e') ↔
      (Spec.equal (.fin n c e) (.fin n' c' e') = true ∧ n = n') := by
  constructor
  · intro h
    have hcv : canonVal (.fin n c e) = canonVal (.fin n' c' e') := by
      unfold canonVal; rw [h]
    have h1 := canonVal_same (.fin n c e) hx rfl
    have h2 := canonVal_same (.fin n' c' e') hy rfl
    rw [← hcv] at h2
    cases hv : canonVal (.fin n c e) with
    | nan _ _ => rw [hv] at h1; simp [Spec.Val.same] at h1
    | inf _ => rw [hv] at h1; simp [Spec.Val.same] at h1
    | fin m a b =>
      rw [hv] at h1 h2
      simp only [Spec.Val.same, Bool.and_eq_true, beq_iff_eq] at h1 h2
      have hn : n = n' := by rw [← h1.1, ← h2.1]
      subst hn
      refine ⟨?_, rfl⟩
      rw [equal_fin_iff, ← h1.2, ← h2.2]
  · rintro ⟨heq, hn⟩
    subst hn
    rw [equal_fin_iff] at heq
    by_cases hc : c = 0
    · have hc' : c' = 0 := by
        rw [← mag_eq_zero_iff c' e', ← heq, mag_eq_zero_iff]; exact hc
      subst hc; subst hc'
      rw [canonical_zero, canonical_zero]
    · have hc' : c' ≠ 0 := by
        intro h0
        apply hc
        rw [← mag_eq_zero_iff c e, heq, mag_eq_zero_iff]; exact h0
      obtain ⟨hN, _⟩ := normPair_props c e hc hx.1 hx.2
      obtain ⟨hN', _⟩ := normPair_props c' e' hc' hy.1 hy.2
      have hm : Spec.mag (normPair c e).1 (normPair c e).2
          = Spec.mag (normPair c' e').1 (normPair c' e').2 := by
        rw [mag_normPair c e hc hx.1 hx.2, mag_normPair c' e' hc' hy.1 hy.2, heq]
      obtain ⟨u1, u2⟩ := normal_unique _ _ _ _ hN hN' ((mag_eq_iff _ _ _ _).mp hm)
      rw [canonical_fin' n c e hc, canonical_fin' n c' e' hc', u1, u2]


/-- among all coefficient/exponent pairs with coefficient ≤ Cmax denoting the same non-zero value,
    the normal pair has the exponent closest to zero -/
theorem normal_exp_closest (c c' : Nat) (e e' : Int) (h : Normal c e) (hle : c' ≤ Spec.Cmax)
    (hv : Spec.mag c' e' = Spec.mag c e) : e.natAbs ≤ e'.natAbs := by
  rw [mag_eq_iff] at hv
  rcases Int.lt_trichotomy e 0 with hneg | hz | hpos
  · -- e < 0: c has no trailing zero, so e' ≤ e
    by_cases hlt : e < e'
    · exfalso
      have h0 : (e - e').toNat = 0 := by omega
      obtain ⟨k, hk⟩ : ∃ k : Nat, (e' - e).toNat = k + 1 := ⟨(e' - e).toNat - 1, by omega⟩
      rw [h0, hk, Nat.pow_zero, Nat.mul_one, Nat.pow_succ] at hv
      apply h.dn hneg
      -- hv : c' * (10^k * 10) = c
      rw [← hv, ← Nat.mul_assoc]; exact Nat.mul_mod_left _ _
    · omega
  · subst hz; simp
  · -- e > 0: no room to scale up, so e ≤ e'
    by_cases hlt : e' < e
    · exfalso
      have h0 : (e' - e).toNat = 0 := by omega
      obtain ⟨k, hk⟩ : ∃ k : Nat, (e - e').toNat = k + 1 := ⟨(e - e').toNat - 1, by omega⟩
      rw [h0, hk, Nat.pow_zero, Nat.mul_one, Nat.pow_succ] at hv
      have hup := h.up hpos
      have hpos' : 0 < 10 ^ k := by positivity
      have : c * 10 ≤ c' := by
        rw [hv, Nat.mul_comm (10 ^ k), ← Nat.mul_assoc]
        exact Nat.le_mul_of_pos_right _ hpos'
      omega
    · omega

/-! ## assembly over the generated `Canonical` -/

/-- `Canonical` never panics, terminates, and returns exactly the specified bits -/
theorem Canonical_eq (d : Gen.Decimal) :
    Gen.Decimal.Canonical d =
      .ok ⟨(Spec.canonical (Spec.interp d.lo d.hi)).1, (Spec.canonical (Spec.interp d.lo d.hi)).2⟩ := by
  obtain ⟨r, hr, hb⟩ := ok_of_triple (Canonical_triple d)
  rw [hr, ← hb]

theorem interp_canonical (d r : Gen.Decimal) (h : Gen.Decimal.Canonical d = .ok r) :
    Spec.interp r.lo r.hi = canonVal (Spec.interp d.lo d.hi) := by
  rw [Canonical_eq] at h
  cases h
  rfl

end CanonPf
