/-
  D128/Proofs/IntConv.lean — the integer conversions of convert.go: shared loop reasoning and
  `Int64`.  All four functions run the same two `while` loops (drop digits while the unbiased
  exponent is negative; multiply by ten while it is positive and the high word is zero).

  Helpers      i16_sub, i16_lt_lit, i16_gt_lit, i16_m35, i16_0, i16_6176, u64_eq_zero_iff,
               u64_ne_zero_iff, i16_ne_zero_iff, sig_zero_iff
  Magnitude    truncMag c e = ⌊c·10^e⌋,  truncInt_fin,  truncMag_small (e < −35 → 0)
  First loop   J1 (invariant), X1 (exit), J1_init, early_exit, J1_step, J1_break, J1_exit
  Second loop  J2, X2, J2_init, loop2_cond, J2_step, J2_exit
  After        X2_big (high word or exponent left → ≥ 2^64), X2_fit (else the value is w0),
               X2_zero_iff
  Saturation   satRes, satRes_zero / _neg_big / _neg_fit / _pos_big / _pos_fit, sat_fin_id,
               satRes_map, conv_spec_of (assembling NaN / Inf / finite)
  Int64        Int64_triple, Int64_eq : Int64_ d = match Spec.sat (−2^63) (2^63−1) 𝔳[d] with …
-/
import D128.Proofs.Canon
import D128.Gen.Convert
set_option autoImplicit false
open Std.Do
set_option mvcgen.warning false

namespace IntConvPf
open CanonPf

/-! ## Int16 helpers -/

theorem i16_sub (a b : Int16) (h0 : -2 ^ 15 ≤ a.toInt - b.toInt) (h1 : a.toInt - b.toInt < 2 ^ 15) :
    (a - b).toInt = a.toInt - b.toInt := by
  rw [Int16.toInt_sub]
  apply Int.bmod_eq_of_le <;> simp only [Nat.reducePow, Int.reducePow] at * <;> omega

theorem i16_lt_lit (e k : Int16) : (decide (e < k) = true) ↔ e.toInt < k.toInt := by
  simp only [decide_eq_true_eq, Int16.lt_iff_toInt_lt]

theorem i16_gt_lit (e k : Int16) : (decide (e > k) = true) ↔ k.toInt < e.toInt := by
  simp only [decide_eq_true_eq, gt_iff_lt, Int16.lt_iff_toInt_lt]

theorem i16_m35 : (-35 : Int16).toInt = -35 := by decide
theorem i16_0 : (0 : Int16).toInt = 0 := by decide
theorem i16_6176 : (6176 : Int16).toInt = 6176 := by decide

theorem u64_eq_zero_iff (x : UInt64) : (x == 0) = true ↔ x.toNat = 0 := by
  rw [beq_iff_eq, ← UInt64.toNat_inj]; rfl

theorem u64_ne_zero_iff (x : UInt64) : (x != 0) = true ↔ x.toNat ≠ 0 := by
  rw [bne_iff_ne, ne_eq, ← UInt64.toNat_inj]; rfl

theorem i16_ne_zero_iff (x : Int16) : (x != 0) = true ↔ x.toInt ≠ 0 := by
  rw [bne_iff_ne, ne_eq, ← Int16.toInt_inj]; rfl

theorem sig_zero_iff (s : U128) : (s.w0 ||| s.w1 == 0) = true ↔ s.toNat = 0 := by
  constructor
  · exact sig_eq_zero s
  · intro h
    by_cases hc : (s.w0 ||| s.w1 == 0) = true
    · exact hc
    · exact absurd h (sig_ne_zero s hc)

/-! ## truncated magnitude -/

/-- `⌊c·10^e⌋` -/
def truncMag (c : Nat) (e : Int) : Nat := c / 10 ^ (-e).toNat * 10 ^ e.toNat

theorem truncInt_fin (n : Bool) (c : Nat) (e : Int) :
    Spec.truncInt (.fin n c e) = if n then -(truncMag c e : Int) else (truncMag c e : Int) := by
  unfold Spec.truncInt truncMag
  by_cases he : e ≥ 0
  · have h0 : (-e).toNat = 0 := by omega
    simp only [he, if_true, h0, Nat.pow_zero, Nat.div_one]
  · have h0 : e.toNat = 0 := by omega
    simp only [he, if_false, h0, Nat.pow_zero, Nat.mul_one]

theorem truncMag_small (c : Nat) (e : Int) (hc : c ≤ Spec.Cmax) (he : e < -35) : truncMag c e = 0 := by
  unfold truncMag
  have h1 : c < 10 ^ 36 := by rw [Cmax_val] at hc; omega
  have h2 : 10 ^ 36 ≤ 10 ^ (-e).toNat := Nat.pow_le_pow_right (by decide) (by omega)
  rw [Nat.div_eq_of_lt (by omega)]; simp

/-! ## first loop: drop digits while the exponent is negative -/

structure J1 (c0 : Nat) (E : Int) (s : U128 × Int16) : Prop where
  rng : -35 ≤ E ∧ E ≤ 6111
  lo : E ≤ s.2.toInt
  hi : s.2.toInt ≤ (E.toNat : Int)
  val : s.1.toNat = c0 / 10 ^ (s.2.toInt - E).toNat

structure X1 (c0 : Nat) (E : Int) (s : U128 × Int16) : Prop where
  rng : E ≤ 6111
  e : s.2.toInt = (E.toNat : Int)
  val : s.1.toNat = c0 / 10 ^ (-E).toNat

theorem J1_init (c : U128) (e : Int16) (h0 : 0 ≤ e.toInt) (h1 : e.toInt ≤ 12287)
    (h35 : ¬ decide (e - 6176 < (-35 : Int16)) = true) :
    J1 c.toNat (e.toInt - 6176) (c, e - 6176) := by
  have hs : (e - 6176).toInt = e.toInt - 6176 := by
    apply i16_sub <;> rw [i16_6176] <;> simp only [Int.reducePow] <;> omega
  rw [i16_lt_lit, hs, i16_m35] at h35
  refine ⟨⟨by omega, by omega⟩, ?_, ?_, ?_⟩
  · show _ ≤ (e - 6176).toInt; rw [hs]
  · show (e - 6176).toInt ≤ _; rw [hs]; omega
  · show c.toNat = c.toNat / 10 ^ ((e - 6176).toInt - (e.toInt - 6176)).toNat
    rw [hs, Int.sub_self]; simp

theorem early_exit (c : U128) (e : Int16) (hc : c.toNat ≤ Spec.Cmax) (h0 : 0 ≤ e.toInt)
    (h1 : e.toInt ≤ 12287) (h35 : decide (e - 6176 < (-35 : Int16)) = true) :
    truncMag c.toNat (e.toInt - 6176) = 0 := by
  have hs : (e - 6176).toInt = e.toInt - 6176 := by
    apply i16_sub <;> rw [i16_6176] <;> simp only [Int.reducePow] <;> omega
  rw [i16_lt_lit, hs, i16_m35] at h35
  exact truncMag_small _ _ hc h35

theorem J1_exit (c0 : Nat) (E : Int) (s : U128 × Int16) (h : J1 c0 E s)
    (hc : ¬ decide (s.2 < (0 : Int16)) = true) : X1 c0 E s := by
  obtain ⟨rng, lo, hi, val⟩ := h
  rw [i16_lt_lit, i16_0] at hc
  refine ⟨rng.2, by omega, ?_⟩
  rw [val]
  by_cases hE : 0 ≤ E
  · have e1 : (s.2.toInt - E).toNat = 0 := by omega
    have e2 : (-E).toNat = 0 := by omega
    rw [e1, e2]
  · have e1 : s.2.toInt = 0 := by omega
    rw [e1]; simp

theorem J1_step (c0 : Nat) (E : Int) (s : U128 × Int16) (h : J1 c0 E s) (q : U128 × UInt64)
    (hq : q.1.toNat = s.1.toNat / 10 ∧ q.2.toNat = s.1.toNat % 10)
    (hc : decide (s.2 < (0 : Int16)) = true) :
    J1 c0 E (q.1, s.2 + 1) ∧ (-(s.2 + 1).toInt).toNat < (-s.2.toInt).toNat := by
  obtain ⟨rng, lo, hi, val⟩ := h
  rw [i16_lt_lit, i16_0] at hc
  have hs : (s.2 + 1).toInt = s.2.toInt + 1 := i16_add_one _ (by simp only [Int.reducePow]; omega)
  refine ⟨⟨rng, ?_, ?_, ?_⟩, ?_⟩
  · show _ ≤ (s.2 + 1).toInt; rw [hs]; omega
  · show (s.2 + 1).toInt ≤ _; rw [hs]; omega
  · show q.1.toNat = c0 / 10 ^ ((s.2 + 1).toInt - E).toNat
    rw [hs, hq.1, val, Nat.div_div_eq_div_mul]
    have : (s.2.toInt + 1 - E).toNat = (s.2.toInt - E).toNat + 1 := by omega
    rw [this, Nat.pow_succ]
  · rw [hs]; omega

theorem J1_break (c0 : Nat) (E : Int) (s : U128 × Int16) (h : J1 c0 E s) (q : U128 × UInt64)
    (hq : q.1.toNat = s.1.toNat / 10 ∧ q.2.toNat = s.1.toNat % 10)
    (hc : decide (s.2 < (0 : Int16)) = true)
    (hz : (q.1.w0 ||| q.1.w1 == 0) = true) : X1 c0 E (q.1, 0) := by
  obtain ⟨rng, lo, hi, val⟩ := h
  rw [i16_lt_lit, i16_0] at hc
  rw [sig_zero_iff] at hz
  refine ⟨rng.2, ?_, ?_⟩
  · show (0 : Int16).toInt = _; rw [i16_0]; omega
  · show q.1.toNat = _
    rw [hz]
    rw [hq.1, val, Nat.div_div_eq_div_mul, Nat.div_eq_zero_iff] at hz
    have hpos : 0 < 10 ^ (s.2.toInt - E).toNat * 10 := by positivity
    have hlt : c0 < 10 ^ (s.2.toInt - E).toNat * 10 := by omega
    have hle : 10 ^ (s.2.toInt - E).toNat * 10 ≤ 10 ^ (-E).toNat := by
      rw [← Nat.pow_succ]
      exact Nat.pow_le_pow_right (by decide) (by omega)
    rw [Nat.div_eq_of_lt (by omega)]

/-! ## second loop: scale up while the value still fits one word -/

structure J2 (T : Nat) (s : U128 × Int16) : Prop where
  rng : 0 ≤ s.2.toInt ∧ s.2.toInt ≤ 6111
  val : s.1.toNat * 10 ^ s.2.toInt.toNat = T

structure X2 (T : Nat) (s : U128 × Int16) : Prop where
  rng : 0 ≤ s.2.toInt ∧ s.2.toInt ≤ 6111
  val : s.1.toNat * 10 ^ s.2.toInt.toNat = T
  stop : ¬ (s.1.w1.toNat = 0 ∧ 0 < s.2.toInt)

theorem J2_init (c0 : Nat) (E : Int) (s : U128 × Int16) (h : X1 c0 E s) :
    J2 (truncMag c0 E) s := by
  obtain ⟨rng, e, val⟩ := h
  refine ⟨⟨by omega, by omega⟩, ?_⟩
  unfold truncMag
  rw [val, e, Int.toNat_natCast]

theorem loop2_cond (s : U128 × Int16) :
    ((s.1.w1 == 0 && decide (s.2 > (0 : Int16))) = true) ↔ (s.1.w1.toNat = 0 ∧ 0 < s.2.toInt) := by
  rw [Bool.and_eq_true, u64_eq_zero_iff, i16_gt_lit, i16_0]

theorem J2_exit (T : Nat) (s : U128 × Int16) (h : J2 T s)
    (hc : ¬ (s.1.w1 == 0 && decide (s.2 > (0 : Int16))) = true) : X2 T s := by
  rw [loop2_cond] at hc
  exact ⟨h.rng, h.val, hc⟩

theorem J2_step (T : Nat) (s : U128 × Int16) (h : J2 T s)
    (hc : (s.1.w1 == 0 && decide (s.2 > (0 : Int16))) = true) :
    J2 T (Gen.U128.mul64 s.1 10, s.2 - 1) ∧ (s.2 - 1).toInt.toNat < s.2.toInt.toNat := by
  rw [loop2_cond] at hc
  obtain ⟨rng, val⟩ := h
  have hs : (s.2 - 1).toInt = s.2.toInt - 1 := i16_sub_one _ (by simp only [Int.reducePow]; omega)
  have hw0 := s.1.w0.toNat_lt
  have hm : (Gen.U128.mul64 s.1 10).toNat = s.1.toNat * 10 := by
    rw [U128_mul64_toNat_of_lt]
    · rfl
    · have : (10 : UInt64).toNat = 10 := rfl
      rw [this, U128.toNat, hc.1]; omega
  refine ⟨⟨?_, ?_⟩, ?_⟩
  · show 0 ≤ (s.2 - 1).toInt ∧ (s.2 - 1).toInt ≤ 6111
    rw [hs]; omega
  · show (Gen.U128.mul64 s.1 10).toNat * 10 ^ (s.2 - 1).toInt.toNat = T
    rw [hm, hs, ← val]
    have : s.2.toInt.toNat = (s.2.toInt - 1).toNat + 1 := by omega
    rw [this, Nat.pow_succ]; ac_rfl
  · rw [hs]; omega

/-! ## after the loops -/

theorem X2_big (T : Nat) (s : U128 × Int16) (h : X2 T s)
    (hb : (s.1.w1 != 0 || s.2 != 0) = true) : 2 ^ 64 ≤ T := by
  obtain ⟨rng, val, stop⟩ := h
  rw [Bool.or_eq_true, u64_ne_zero_iff, i16_ne_zero_iff] at hb
  have hw : s.1.w1.toNat ≠ 0 := by
    rcases hb with h | h
    · exact h
    · intro h0; exact stop ⟨h0, by omega⟩
  have h1 : 2 ^ 64 ≤ s.1.toNat := by rw [U128.toNat]; omega
  have hpos : 0 < 10 ^ s.2.toInt.toNat := by positivity
  calc 2 ^ 64 ≤ s.1.toNat := h1
    _ ≤ s.1.toNat * 10 ^ s.2.toInt.toNat := Nat.le_mul_of_pos_right _ hpos
    _ = T := val

theorem X2_fit (T : Nat) (s : U128 × Int16) (h : X2 T s)
    (hb : ¬ (s.1.w1 != 0 || s.2 != 0) = true) : T = s.1.w0.toNat := by
  obtain ⟨rng, val, stop⟩ := h
  rw [Bool.or_eq_true, u64_ne_zero_iff, i16_ne_zero_iff] at hb
  have h1 : s.1.w1.toNat = 0 := by omega
  have h2 : s.2.toInt = 0 := by omega
  rw [← val, h2, U128.toNat, h1]; simp

theorem X2_zero_iff (T : Nat) (s : U128 × Int16) (h : X2 T s) :
    (s.1.w0 ||| s.1.w1 == 0) = decide (T = 0) := by
  obtain ⟨rng, val, stop⟩ := h
  have hpos : 0 < 10 ^ s.2.toInt.toNat := by positivity
  by_cases hz : s.1.toNat = 0
  · have : T = 0 := by rw [← val, hz]; simp
    rw [(sig_zero_iff s.1).mpr hz, this]; simp
  · have hT : T ≠ 0 := by
      rw [← val]; exact Nat.mul_ne_zero hz (by omega)
    have : ¬ (s.1.w0 ||| s.1.w1 == 0) = true := fun hh => hz ((sig_zero_iff s.1).mp hh)
    simp only [Bool.not_eq_true] at this
    rw [this]; simp [hT]


/-! ## the saturating result -/

/-- result of a saturating conversion of `±T` into `[lo, hi]` -/
def satRes {α : Type} (conv : Int → α) (lo hi : Int) (n : Bool) (T : Nat) : α × Bool :=
  if (if n then -(T : Int) else (T : Int)) < lo then (conv lo, false)
  else if (if n then -(T : Int) else (T : Int)) > hi then (conv hi, false)
  else (conv (if n then -(T : Int) else (T : Int)), true)

theorem satRes_zero {α : Type} (conv : Int → α) (lo hi : Int) (n : Bool) (hlo : lo ≤ 0) (hhi : 0 ≤ hi) :
    satRes conv lo hi n 0 = (conv 0, true) := by
  unfold satRes
  cases n <;> simp only [Int.natCast_zero, Int.neg_zero, if_true, Bool.false_eq_true, if_false] <;>
    rw [if_neg (by omega), if_neg (by omega)]

theorem satRes_neg_big {α : Type} (conv : Int → α) (lo hi : Int) (T : Nat) (h : -(T : Int) < lo) :
    satRes conv lo hi true T = (conv lo, false) := by
  unfold satRes
  simp only [if_true]
  rw [if_pos h]

theorem satRes_neg_fit {α : Type} (conv : Int → α) (lo hi : Int) (T : Nat) (h : lo ≤ -(T : Int))
    (hhi : 0 ≤ hi) : satRes conv lo hi true T = (conv (-(T : Int)), true) := by
  unfold satRes
  simp only [if_true]
  rw [if_neg (by omega), if_neg (by omega)]

theorem satRes_pos_big {α : Type} (conv : Int → α) (lo hi : Int) (T : Nat) (h : hi < (T : Int))
    (hlo : lo ≤ 0) : satRes conv lo hi false T = (conv hi, false) := by
  unfold satRes
  simp only [Bool.false_eq_true, if_false]
  rw [if_neg (by omega), if_pos (by omega)]

theorem satRes_pos_fit {α : Type} (conv : Int → α) (lo hi : Int) (T : Nat) (h : (T : Int) ≤ hi)
    (hlo : lo ≤ 0) : satRes conv lo hi false T = (conv (T : Int), true) := by
  unfold satRes
  simp only [Bool.false_eq_true, if_false]
  rw [if_neg (by omega), if_neg (by omega)]

/-! ## Int64 -/

theorem Int64_triple (d : Gen.Decimal) (hs : Gen.Decimal.isSpecial d = false) :
    ⦃⌜True⌝⦄ Gen.Decimal.Int64_ d
    ⦃⇓ r => ⌜r = satRes Int64.ofInt (-9223372036854775808) 9223372036854775807 (Gen.Decimal.Signbit d)
      (truncMag (Gen.Decimal.decompose d).1.toNat ((Gen.Decimal.decompose d).2.toInt - 6176))⌝⦄ := by
  unfold Gen.Decimal.Int64_
  simp only [hs, Bool.false_eq_true, if_false]
  mvcgen
  case inv1 => exact fun s => ⟨(-s.2.toInt).toNat⟩
  case inv2 =>
    exact ⇓ x => match x with
      | .inl s => ⌜J1 d.decompose.1.toNat (d.decompose.2.toInt - 6176) s⌝
      | .inr s => ⌜X1 d.decompose.1.toNat (d.decompose.2.toInt - 6176) s⌝
  case inv3 => exact fun s => ⟨s.2.toInt.toNat⟩
  case inv4 =>
    exact ⇓ x => match x with
      | .inl s => ⌜J2 (truncMag d.decompose.1.toNat (d.decompose.2.toInt - 6176)) s⌝
      | .inr s => ⌜X2 (truncMag d.decompose.1.toNat (d.decompose.2.toInt - 6176)) s⌝
  case vc1 h =>
    rw [early_exit _ _ (Enc.decompose_sig_le d) (Enc.decompose_exp_nonneg d)
      (Enc.decompose_exp_le d hs) h, satRes_zero _ _ _ _ (by decide) (by decide)]
    rfl
  case vc2 h35 b mb hc h q hz hq =>
    exact J1_break _ _ b h.2 q hq hc hz
  case vc3 h35 b mb hc h q hz hq =>
    have hv : mb = (-b.2.toInt).toNat := congrArg ULift.down h.1
    obtain ⟨h1, h2⟩ := J1_step _ _ b h.2 q hq hc
    exact ⟨_, rfl, by rw [hv]; exact h2, h1⟩
  case vc4 h35 b mb hc h =>
    exact J1_exit _ _ b h.2 hc
  case vc5 h35 =>
    exact J1_init _ _ (Enc.decompose_exp_nonneg d) (Enc.decompose_exp_le d hs) h35
  case vc6 h35 r hr b mb hc h =>
    have hv : mb = b.2.toInt.toNat := congrArg ULift.down h.1
    obtain ⟨h1, h2⟩ := J2_step _ b h.2 hc
    exact ⟨_, rfl, by rw [hv]; exact h2, h1⟩
  case vc7 h35 r hr b mb hc h =>
    exact J2_exit _ b h.2 hc
  case vc8 h35 r h =>
    exact J2_init _ _ r h
  case vc9 h35 r1 hr1 r hb hsg h =>
    have hT := X2_big _ r h hb
    rw [hsg, satRes_neg_big _ _ _ _ (by omega)]
    rfl
  case vc10 h35 r1 hr1 r hb hsg h =>
    have hT := X2_big _ r h hb
    simp only [Bool.not_eq_true] at hsg
    rw [hsg, satRes_pos_big _ _ _ _ (by omega) (by omega)]
    rfl
  case vc11 h35 r1 hr1 r hb hsg hw h =>
    have hT := X2_fit _ r h hb
    simp only [decide_eq_true_eq, gt_iff_lt, UInt64.lt_iff_toNat_lt, UInt64.toNat_ofNat,
      Nat.reducePow, Nat.reduceMod] at hw
    rw [hsg, satRes_neg_big _ _ _ _ (by omega)]
    rfl
  case vc12 h35 r1 hr1 r hb hsg hw hsg2 h =>
    have hT := X2_fit _ r h hb
    simp only [decide_eq_true_eq, gt_iff_lt, UInt64.lt_iff_toNat_lt, UInt64.toNat_ofNat,
      Nat.reducePow, Nat.reduceMod] at hw
    rw [hsg, satRes_neg_fit _ _ _ _ (by omega) (by omega), hT, Int64.ofInt_neg]
    show (Int64.ofInt (r.1.w0.toNat : Int) * -1, true) = _
    rw [Int64.mul_neg, Int64.mul_one]
  case vc14 h35 r1 hr1 r hb hsg hw h =>
    have hT := X2_fit _ r h hb
    simp only [Bool.not_eq_true] at hsg
    simp only [decide_eq_true_eq, gt_iff_lt, UInt64.lt_iff_toNat_lt, UInt64.toNat_ofNat,
      Nat.reducePow, Nat.reduceMod] at hw
    rw [hsg, satRes_pos_big _ _ _ _ (by omega) (by omega)]
    rfl
  case vc16 h35 r1 hr1 r hb hsg hw hsg2 h =>
    have hT := X2_fit _ r h hb
    simp only [Bool.not_eq_true] at hsg
    simp only [decide_eq_true_eq, gt_iff_lt, UInt64.lt_iff_toNat_lt, UInt64.toNat_ofNat,
      Nat.reducePow, Nat.reduceMod] at hw
    rw [hsg, satRes_pos_fit _ _ _ _ (by omega) (by omega), hT]
    rfl
  all_goals exact ExceptConds.entails.refl _


/-! ## from the triples to the specification -/

theorem sat_fin_id (lo hi : Int) (n : Bool) (c : Nat) (e : Int) :
    Spec.sat lo hi (.fin n c e) = some (satRes id lo hi n (truncMag c e)) := by
  unfold Spec.sat satRes
  simp only [truncInt_fin]
  split_ifs <;> rfl

theorem satRes_map {α : Type} (conv : Int → α) (lo hi : Int) (n : Bool) (T : Nat) :
    satRes conv lo hi n T = (conv (satRes id lo hi n T).1, (satRes id lo hi n T).2) := by
  unfold satRes
  split_ifs <;> rfl

/-- assembling the three classes -/
theorem conv_spec_of {α : Type} (f : Gen.Decimal → Go.GoM (α × Bool)) (msg : String)
    (conv : Int → α) (lo hi : Int) (d : Gen.Decimal)
    (hnan : Gen.Decimal.IsNaN d = true → f d = .error (.explicit msg))
    (hinf : Gen.Decimal.isSpecial d = true → Gen.Decimal.IsNaN d = false →
      f d = .ok (if Gen.Decimal.Signbit d then conv lo else conv hi, false))
    (hfin : Gen.Decimal.isSpecial d = false →
      f d = .ok (satRes conv lo hi (Gen.Decimal.Signbit d)
        (truncMag (Gen.Decimal.decompose d).1.toNat ((Gen.Decimal.decompose d).2.toInt - 6176)))) :
    f d = (match Spec.sat lo hi (Spec.interp d.lo d.hi) with
      | none => .error (.explicit msg)
      | some (x, ok) => .ok (conv x, ok)) := by
  by_cases hs : Gen.Decimal.isSpecial d = false
  · rw [hfin hs, Enc.interp_decompose d hs, sat_fin_id, satRes_map]
  · simp only [Bool.not_eq_false] at hs
    by_cases hn : Gen.Decimal.IsNaN d = true
    · rw [hnan hn]
      have h1 := hn
      rw [Enc.IsNaN_eq] at h1
      simp only [decide_eq_true_eq] at h1
      rw [Enc.interp_eq, if_pos h1]
      rfl
    · simp only [Bool.not_eq_true] at hn
      rw [hinf hs hn]
      have h1 := hn
      have h2 := hs
      rw [Enc.IsNaN_eq] at h1
      rw [Enc.isSpecial_eq] at h2
      simp only [decide_eq_true_eq, decide_eq_false_iff_not] at h1 h2
      have h30 : d.hi.toNat / 2 ^ 58 % 32 = 30 := by omega
      rw [Enc.interp_eq, if_neg h1, if_pos h30, ← Enc.Signbit_eq]
      cases Gen.Decimal.Signbit d <;> rfl

theorem Int64_eq (d : Gen.Decimal) :
    Gen.Decimal.Int64_ d =
      (match Spec.sat (-9223372036854775808) 9223372036854775807 (Spec.interp d.lo d.hi) with
        | none => .error (.explicit "Decimal(NaN).Int64()")
        | some (x, ok) => .ok (Int64.ofInt x, ok)) := by
  apply conv_spec_of
  · intro hn
    have hs : Gen.Decimal.isSpecial d = true := by rw [Enc.isSpecial_iff, hn]; rfl
    unfold Gen.Decimal.Int64_
    simp only [hs, hn, if_true]
    rfl
  · intro hs hn
    unfold Gen.Decimal.Int64_
    simp only [hs, hn, if_true, Bool.false_eq_true, if_false]
    cases Gen.Decimal.Signbit d <;> rfl
  · intro hs
    obtain ⟨r, hr, hq⟩ := ok_of_triple (Int64_triple d hs)
    rw [hr, hq]

end IntConvPf
