/-
  D128/Proofs/D192RootSqrtMain.lean — `Gen.Sqrt` is correct on its whole general path.

  Provided (namespace `Root`):
  * `sig_le_of_val`, `val_small`
  * `sqrtSeed_inv` : the linear seed is computed exactly (flag 0) and satisfies `0.13·x₀² ≤ ν ≤ x₀²`
  * `sqrtCore_ok`  : for EVERY finite non-zero `d`: `sqrtCore d` does not panic and returns `(res, trunc, dExp)`
                     with `ν/(val res)² ∈ [1 - 2·eps - 1e-76, 1 + 3·eps]` (`ν·10^dExp = c·10^e`, `eps = 2^-185`),
                     `-165 ≤ res.exp ≤ 0`, flag ∈ {0,1,-1}, and `LIM ≤ res.sig ∨ trunc = 0`
  * `Sqrt_correct` : **unconditional** (nearest default mode): every finite, non-zero, non-negative `d = c·10^e`:
                     `∃ r rc re, Gen.Sqrt g d = .ok r ∧ 𝔳[r] = .fin false rc re ∧ Spec.rootOk 2 c e rc re = true`
-/
import D128.Proofs.D192RootSqrtIter
import D128.Proofs.D192RootCore
set_option autoImplicit false
set_option maxRecDepth 4096
set_option linter.unusedVariables false
namespace Root
open Gen D192
local notation "𝔳[" d "]" => Spec.interp (Gen.Decimal.lo d) (Gen.Decimal.hi d)

/-- a bound on the value at an exponent not above the result's bounds the significand -/
theorem sig_le_of_val (r : decomposed192) (P : ℕ) (E : Int) (h : val r ≤ (P : ℚ) * (10 : ℚ) ^ E)
    (hE : E ≤ r.exp.toInt) : r.sig.toNat ≤ P := by
  unfold val at h
  have hp : (0 : ℚ) < (10 : ℚ) ^ E := zpow_pos (by norm_num) _
  have h1 : (10 : ℚ) ^ E ≤ (10 : ℚ) ^ r.exp.toInt := zpow_le_zpow_right₀ (by norm_num) hE
  have h2 : (r.sig.toNat : ℚ) * (10 : ℚ) ^ E ≤ (r.sig.toNat : ℚ) * (10 : ℚ) ^ r.exp.toInt :=
    mul_le_mul_of_nonneg_left h1 (Nat.cast_nonneg _)
  have h3 : (r.sig.toNat : ℚ) ≤ (P : ℚ) := le_of_mul_le_mul_right (le_trans h2 h) hp
  exact_mod_cast h3

theorem val_small (w : UInt64) (e : Int16) :
    val { sig := { w0 := w, w1 := 0, w2 := 0 }, exp := e } = (w.toNat : ℚ) * (10 : ℚ) ^ e.toInt := by
  unfold val; simp [U192.toNat]

/-- **The linear seed of `Sqrt` from the contracts**: exact (flag 0) and satisfies the loop invariant with
defect 0.87, i.e. `0.13·x₀² ≤ ν ≤ x₀²`. -/
theorem sqrtSeed_inv (nrm mulc addc : decomposed192)
    (hn0 : nrm.sig.toNat ≠ 0) (hnC : nrm.sig.toNat ≤ Spec.Cmax)
    (hne0 : -39 ≤ nrm.exp.toInt) (hne1 : nrm.exp.toInt ≤ 0)
    (hcase : (1 ≤ val nrm ∧ val nrm < 10 ∧
          mulc = { sig := { w0 := 819, w1 := 0, w2 := 0 }, exp := -3 } ∧
          addc = { sig := { w0 := 259, w1 := 0, w2 := 0 }, exp := -3 }) ∨
       (1 / 10 ≤ val nrm ∧ val nrm < 1 ∧
          mulc = { sig := { w0 := 259, w1 := 0, w2 := 0 }, exp := -2 } ∧
          addc = { sig := { w0 := 819, w1 := 0, w2 := 0 }, exp := -4 })) :
    ∃ s, sqrtSeed nrm mulc addc = .ok s ∧ SInv nrm (87 / 100) 157 s := by
  have hε := eps_pos
  set ν := val nrm with hνdef
  have hν0 : 0 < ν := val_pos_of_sig nrm hn0
  -- the constants
  obtain ⟨μ, α, hμ, hα, hme, hae, hms, hpoly⟩ : ∃ μ α : ℚ, val mulc = μ ∧ val addc = α ∧
      (mulc.exp.toInt = -3 ∨ mulc.exp.toInt = -2) ∧ (addc.exp.toInt = -3 ∨ addc.exp.toInt = -4) ∧
      mulc.sig.toNat ≤ 1000 ∧
      (0 < μ ∧ 0 < α ∧ ν * μ + α < 10 ∧ (1 - 87 / 100) * (ν * μ + α) ^ 2 ≤ ν ∧ ν ≤ (ν * μ + α) ^ 2) := by
    have e3 : (-3 : Int16).toInt = -3 := by decide
    have e2 : (-2 : Int16).toInt = -2 := by decide
    have e4 : (-4 : Int16).toInt = -4 := by decide
    rcases hcase with ⟨h1, h2, hm, ha⟩ | ⟨h1, h2, hm, ha⟩
    · refine ⟨819 / 1000, 259 / 1000, ?_, ?_, Or.inl (by rw [hm]; exact e3), Or.inl (by rw [ha]; exact e3),
        by rw [hm]; simp [U192.toNat], by norm_num, by norm_num, by linarith, ?_, ?_⟩
      · rw [hm, val_small, e3, show (819 : UInt64).toNat = 819 from rfl]; norm_num
      · rw [ha, val_small, e3, show (259 : UInt64).toNat = 259 from rfl]; norm_num
      · nlinarith [mul_nonneg (sub_nonneg.2 h1) (sub_nonneg.2 h2.le)]
      · nlinarith [mul_nonneg (sub_nonneg.2 h1) hν0.le]
    · refine ⟨259 / 100, 819 / 10000, ?_, ?_, Or.inr (by rw [hm]; exact e2), Or.inr (by rw [ha]; exact e4),
        by rw [hm]; simp [U192.toNat], by norm_num, by norm_num, by linarith, ?_, ?_⟩
      · rw [hm, val_small, e2, show (259 : UInt64).toNat = 259 from rfl]; norm_num
      · rw [ha, val_small, e4, show (819 : UInt64).toNat = 819 from rfl]; norm_num
      · nlinarith [mul_nonneg (sub_nonneg.2 h1) (sub_nonneg.2 h2.le)]
      · nlinarith [mul_nonneg (sub_nonneg.2 h1) hν0.le]
  obtain ⟨hμ0, hα0, hx10, hp1, hp2⟩ := hpoly
  -- the multiplication is exact
  obtain ⟨m1, t1, hm, a1, a2, -, ae0, ae1, ax⟩ := mul_rel nrm mulc 0
    (by rcases hme with h | h <;> omega) (by rcases hme with h | h <;> omega)
  have hm1sig : m1.sig.toNat ≤ nrm.sig.toNat * mulc.sig.toNat :=
    sig_le_of_val m1 _ _ (by rw [← val_mul]; exact a2) ae0
  have hCm : Spec.Cmax < 2 ^ 114 := by unfold Spec.Cmax; norm_num
  have hprod : nrm.sig.toNat * mulc.sig.toNat < 2 ^ 192 / 10 := by
    calc nrm.sig.toNat * mulc.sig.toNat ≤ Spec.Cmax * 1000 := Nat.mul_le_mul hnC hms
      _ < 2 ^ 192 / 10 := by unfold Spec.Cmax; norm_num
  obtain ⟨hv1, ht1, -⟩ := ax (by omega)
  rw [hμ] at hv1
  -- the addition is exact
  obtain ⟨r, t2, ha, b1, b2, -, be0, be1, bx⟩ := add_rel m1 addc t1
    (by rcases hme with h | h <;> rcases hae with h' | h' <;> omega)
    (by rcases hme with h | h <;> rcases hae with h' | h' <;> omega)
    (by rcases hme with h | h <;> omega) (by rcases hae with h' | h' <;> omega)
  rw [hv1, hα] at b1 b2 bx
  have hrexp : -44 ≤ r.exp.toInt := by
    have := min_le_left m1.exp.toInt addc.exp.toInt
    rcases min_choice m1.exp.toInt addc.exp.toInt with h | h <;>
      rcases hme with h1 | h1 <;> rcases hae with h' | h' <;> omega
  have hrsig : r.sig.toNat ≤ 10 ^ 45 := by
    apply sig_le_of_val r (10 ^ 45) (-44) _ hrexp
    have : ((10 ^ 45 : ℕ) : ℚ) * (10 : ℚ) ^ (-44 : Int) = 10 := by
      push_cast; rw [zpow_neg]; norm_num
    rw [this]; linarith
  obtain ⟨hv, ht2, -, -⟩ := bx (lt_of_le_of_lt hrsig (by unfold LIM; norm_num))
  have hxpos : 0 < ν * μ + α := by positivity
  refine ⟨(r, t2), ?_, ?_⟩
  · show (decomposed192.mul nrm mulc 0 >>= fun x => decomposed192.add x.1 addc x.2 >>= fun x =>
        pure (x.1, x.2)) = _
    rw [hm]
    show (decomposed192.add m1 addc t1 >>= fun x => pure (x.1, x.2)) = _
    rw [ha]; rfl
  · refine ⟨sig_ne_of_val_pos r (by rw [hv]; exact hxpos), by show -157 ≤ r.exp.toInt; omega, ?_, ?_,
      Or.inl (by rw [ht2, ht1]), Or.inr (by rw [ht2, ht1])⟩
    · show (1 - 87 / 100) * val r ^ 2 ≤ ν
      rw [hv]; exact hp1
    · show ν ≤ (1 + 3 * eps) * val r ^ 2
      rw [hv]
      have : 0 ≤ 3 * eps * (ν * μ + α) ^ 2 := by positivity
      nlinarith

/-- **The core of `Sqrt` never panics and returns a near-root**, for every finite non-zero argument
`c·10^e`: an iterate `res` (non-zero, exponent in [-165, 0]) with `ν/x² ∈ [1 - 2·eps - 1e-76, 1 + 3·eps]`
where `ν·10^dExp = c·10^e`, `dExp` even; flag in {0, 1, -1}; normalised or flag 0. -/
theorem sqrtCore_ok (d : Decimal) (hsp : Decimal.isSpecial d = false) (hz : Decimal.IsZero d = false) :
    ∃ (res : decomposed192) (trunc : Int8) (dExp : Int16) (ν : ℚ),
      sqrtCore d = .ok (res, trunc, dExp) ∧
      ν * (10 : ℚ) ^ dExp.toInt = (d.decompose.1.toNat : ℚ) * (10 : ℚ) ^ (d.decompose.2.toInt - 6176) ∧
      res.sig.toNat ≠ 0 ∧ -165 ≤ res.exp.toInt ∧ res.exp.toInt ≤ 0 ∧
      (1 - (2 * eps + 1 / 10 ^ 76)) * val res ^ 2 ≤ ν ∧ ν ≤ (1 + 3 * eps) * val res ^ 2 ∧
      (trunc = 0 ∨ trunc = 1 ∨ trunc = -1) ∧ (LIM ≤ res.sig.toNat ∨ trunc = 0) := by
  obtain ⟨nrm, mulc, addc, dExp, hcore, -, -, -, hne0, hne1, hnsig, hνX, hcase⟩ := sqrtCore_spec d hsp hz
  have hcnz : d.decompose.1.toNat ≠ 0 := by
    have := Sp.IsZero_eq_sig d; rw [hz] at this; simpa using this.symm
  have hn0 : nrm.sig.toNat ≠ 0 := by rw [hnsig]; exact hcnz
  have hnC : nrm.sig.toNat ≤ Spec.Cmax := by rw [hnsig]; exact Enc.decompose_sig_le d
  have hν10 : val nrm < 10 := by
    rcases hcase with ⟨-, h, -⟩ | ⟨-, h, -⟩
    · exact h
    · linarith
  obtain ⟨s0, hs0, hinv0⟩ := sqrtSeed_inv nrm mulc addc hn0 hnC hne0 hne1 hcase
  obtain ⟨s8, hs8, hinv8⟩ := sqrtIter_inv nrm s0 hn0 hne0 hne1 hν10 hinv0
  obtain ⟨g1, g2, g3, g4, g5, g6⟩ := hinv8
  have hx10 : val s8.1 < 10 := by
    by_contra hcon
    have h10 : 10 ≤ val s8.1 := not_lt.1 hcon
    have h100 : (100 : ℚ) ≤ val s8.1 ^ 2 := by nlinarith
    have hb : 2 * eps + 1 / 10 ^ 76 ≤ 1 / 2 := by
      have := eps_le
      have : (1 : ℚ) / 10 ^ 76 ≤ 1 / 10 := by norm_num
      have : (1 : ℚ) / 10 ^ 55 ≤ 1 / 10 := by norm_num
      linarith
    nlinarith
  refine ⟨s8.1, s8.2, dExp, val nrm, ?_, hνX, g1, by omega, exp_le_zero s8.1 g1 hx10, g3, g4, g5, g6⟩
  rw [hcore, hs0]
  show (iter (sqrtStep nrm) 8 s0 >>= fun s => pure (s.1, s.2, dExp)) = _
  rw [hs8]; rfl

/-- **`Gen.Sqrt` is correct on its whole general path** (nearest default mode): for every finite, non-zero,
non-negative Decimal `d = c·10^e` the call does not panic and returns a non-negative finite Decimal
`rc·10^re` with `Spec.rootOk 2 c e rc re`, i.e. one of the two Decimals adjacent to `√d` with error at
most `(1/2 + 1e-20)` ulp. -/
theorem Sqrt_correct (g : Globals) (m : Spec.Mode) (d : Decimal) (c : Nat) (e : Int)
    (h1 : Decimal.isSpecial d = false) (h2 : Decimal.IsZero d = false)
    (h3 : Decimal.Signbit d = false) (hv : 𝔳[d] = .fin false c e)
    (hm : Spec.Mode.ofNat? g.DefaultRoundingMode.toNat = some m)
    (hn : SpecRound.isNearest m = true) :
    ∃ r rc re, Gen.Sqrt g d = .ok r ∧ 𝔳[r] = .fin false rc re ∧ Spec.rootOk 2 c e rc re = true := by
  obtain ⟨res, trunc, dExp, ν, hcore, hνX, hs0, hr0, hr1, hlo, hhi, htf, hnz⟩ := sqrtCore_ok d h1 h2
  obtain ⟨hev, hd0, hd1⟩ := sqrtCore_dExp d h1 res trunc dExp hcore
  obtain ⟨htd, h2h⟩ := tdiv_two_of_even dExp.toInt hev
  rw [Enc.interp_decompose d h1] at hv
  injection hv with _ hcv hev'
  have hc0 : 0 < c := by
    have := Sp.IsZero_eq_sig d; rw [h2] at this
    have : (Gen.Decimal.decompose d).1.toNat ≠ 0 := by simpa using this.symm
    omega
  have hc : c ≤ Spec.Cmax := by rw [← hcv]; exact Enc.decompose_sig_le d
  have he0 : Spec.Emin ≤ e := by
    have := Enc.decompose_exp_nonneg d; unfold Spec.Emin; omega
  have he1 : e ≤ Spec.Emax := by
    have := Enc.decompose_exp_le d h1; unfold Spec.Emax; omega
  rw [hcv, hev'] at hνX
  rw [Sqrt_eq g d h1 h2 h3, hcore]
  show ∃ r rc re, sqrtFinish g res trunc dExp = .ok r ∧ _
  rw [sqrtFinish_eq]
  have hE := sqrt_exp res.exp dExp (by omega) (by omega) (by omega) (by omega)
  have hb := tdiv2_bounds dExp.toInt
  have hE' : (res.exp + dExp / 2 + 6176).toInt - 6176 = res.exp.toInt + dExp.toInt / 2 := by omega
  have hε := eps_pos
  have hεle := eps_le
  -- rescale by 10^dExp = (10^(dExp/2))²
  have hsc : ((res.sig.toNat : ℚ) * (10 : ℚ) ^ (res.exp.toInt + dExp.toInt / 2)) ^ (1 + 1)
      = val res ^ 2 * (10 : ℚ) ^ dExp.toInt := by
    unfold val
    rw [zpow_add₀ (by norm_num : (10 : ℚ) ≠ 0)]
    have : (10 : ℚ) ^ dExp.toInt = ((10 : ℚ) ^ (dExp.toInt / 2)) ^ 2 := by
      rw [← zpow_natCast, ← zpow_mul, show dExp.toInt / 2 * ((2 : ℕ) : ℤ) = dExp.toInt by push_cast; omega]
    rw [this]; ring
  have hp : (0 : ℚ) < (10 : ℚ) ^ dExp.toInt := zpow_pos (by norm_num) _
  exact finishK_rootOk_rel _ m false res.sig _ trunc 1 c e (2 * eps + 1 / 10 ^ 76) (3 * eps) hm hn
    (le_refl _) (by norm_num) htf (by omega) (by omega) hc0 hc he0 he1 (by omega) hnz
    (by positivity) (by have : (1 : ℚ) / 10 ^ 76 ≤ 1 / 10 ^ 56 := by norm_num
                        have : (1 : ℚ) / 10 ^ 55 = 10 / 10 ^ 56 := by norm_num
                        linarith)
    (by positivity) (by have : (1 : ℚ) / 10 ^ 55 = 10 / 10 ^ 56 := by norm_num
                        linarith)
    (by rw [hE', hsc, ← hνX, ← mul_assoc]; exact mul_le_mul_of_nonneg_right hlo hp.le)
    (by rw [hE', hsc, ← hνX, ← mul_assoc]; exact mul_le_mul_of_nonneg_right hhi hp.le)
end Root
