/-
  D128/Proofs/LogAccP1Ops.lean — operation contracts in the form needed by the proof of
  `decomposed192.log1p` (Go: /repo/decomposed.go), in particular for exponents far below -16000
  (`num = x^i` reaches ≈ -32640).

  Provided (namespace `LogAcc`):
  * `quo_contract_wide` : `quo_contract` (D192QuoContract.lean) under the weakest exponent hypotheses the
        proof supports: `-32711 ≤ d.exp`, `o.exp ≤ 32765`, `-32641 ≤ d.exp - o.exp ≤ 32700`
  * `quo_int`           : `quo` by `⟨⟨i,0,0⟩,0⟩` (`i ≠ 0`), `-32641 ≤ d.exp ≤ 32700`:
        `val d / i·(1-lam) ≤ val r ≤ val d / i`, flag ∈ {t,1}, `r.sig ≠ 0`, `d.exp-118 ≤ r.exp ≤ d.exp+1`
  * `add_rel2`          : `Root.add_rel` plus the clause `r.exp = min ∨ LIM·ulp r ≤ val r`
  * `sub_pos`           : `sub d o t` for `val o ≤ val d`: magnitude within `lam·val d` of `val d - val o`,
        flag ∈ {t,1,-1}, `r.exp ≤ max`, `r.exp = min ∨ LIM·ulp r ≤ val d`
  * `exp_le_of_ulp`, `exp_ge_of_val`, `exp_le_zero_of_val` : exponent windows from values
-/
import D128.Proofs.D192RootOps
import D128.Proofs.D192SubContract
set_option autoImplicit false
set_option maxRecDepth 4096
set_option exponentiation.threshold 512
set_option linter.unusedVariables false
open D128.Proofs.WordsWide

namespace LogAcc
open Gen D192 Root

/-- `quo_contract` with the exponent hypotheses weakened to what its proof needs (the scaled numerator
`d.exp - 57` and the exponent difference `d.exp - o.exp - 59` must stay inside `int16`). -/
theorem quo_contract_wide (d o : Gen.decomposed192) (t : Int8) (hd : d.sig.toNat ≠ 0)
    (ho : o.sig.toNat ≠ 0) (hd1 : -32711 ≤ d.exp.toInt) (ho1 : o.exp.toInt ≤ 32765)
    (hlo : -32641 ≤ d.exp.toInt - o.exp.toInt) (hhi : d.exp.toInt - o.exp.toInt ≤ 32700) :
    ∃ (r : Gen.decomposed192) (t' : Int8) (o' : ℚ), Gen.decomposed192.quo d o t = .ok (r, t') ∧
      0 < o' ∧ o' ≤ val o ∧ val o ≤ o' * (1 + 1 / 2 ^ 185) ∧ (o.sig.toNat < OLIM → o' = val o) ∧
      val r ≤ val d / o' ∧ val d / o' < val r + ulp r ∧
      ((val r = val d / o' ∧ o' = val o) → t' = t) ∧
      (¬ (val r = val d / o' ∧ o' = val o) → t' = 1) ∧
      (val r = val d / o' ∨ LIM ≤ r.sig.toNat) ∧ 1 ≤ r.sig.toNat ∧
      d.exp.toInt - o.exp.toInt - 118 ≤ r.exp.toInt ∧ r.exp.toInt ≤ d.exp.toInt - o.exp.toInt + 1 := by
  have hbd := i16_bounds d.exp
  have hbo := i16_bounds o.exp
  obtain ⟨⟨r, t'⟩, hr, hpost⟩ := quo_ok d o t ho
  rcases hpost with ⟨h0, -⟩ | ⟨-, d', o1, hfin, ⟨hsc, hdL⟩, ⟨htr, hoL⟩, ho1'⟩
  · exact absurd h0 hd
  obtain ⟨a, ha, hds, hdexp⟩ := hsc.bounds (Nat.pos_of_ne_zero hd)
  obtain ⟨b, hb, hos, hoexp, hot, hob⟩ := htr.bounds (U192.toNat_lt _)
  have hka : (Int16.ofNat a).toInt = a := Int16.toInt_ofNat_of_lt (by omega)
  have hkb : (Int16.ofNat b).toInt = b := Int16.toInt_ofNat_of_lt (by omega)
  have hde' : d'.exp.toInt = d.exp.toInt - a := by
    rw [hdexp, Int16.toInt_sub_of] <;> rw [hka] <;> omega
  have hoe' : o1.1.exp.toInt = o.exp.toInt + b := by
    rw [hoexp, Int16.toInt_add_of] <;> rw [hkb] <;> omega
  have he0 : (d'.exp - o1.1.exp).toInt = d.exp.toInt - a - (o.exp.toInt + b) := by
    rw [Int16.toInt_sub_of] <;> rw [hde', hoe'] <;> omega
  have hOnpos : 0 < o1.1.sig.toNat := Nat.pos_of_ne_zero ho1'
  obtain ⟨c1, c2, c3, c4, c5, c6, c7, c8⟩ := hfin.contract hOnpos hdL (U192.toNat_lt _)
    (by rw [he0]; omega) (by rw [he0]; omega)
  dsimp only at c1 c2 c3 c4 c5 c6 c7 c8
  obtain ⟨u1, u2, u3⟩ := truncO_val o.sig.toNat b o.exp.toInt (by
    rcases hob with h | h
    · exact Or.inl h
    · exact Or.inr h.1)
  have hE2 : (0 : ℚ) < (10 : ℚ) ^ (o.exp.toInt + b) := zpow_pos (by norm_num) _
  have hOq : (0 : ℚ) < ((o.sig.toNat / 10 ^ b : Nat) : ℚ) := by
    rw [← hos]; exact_mod_cast hOnpos
  have ho'pos : (0 : ℚ) < ((o.sig.toNat / 10 ^ b : Nat) : ℚ) * (10 : ℚ) ^ (o.exp.toInt + b) :=
    mul_pos hOq hE2
  have hX : (d'.sig.toNat : ℚ) / o1.1.sig.toNat * (10 : ℚ) ^ (d'.exp - o1.1.exp).toInt
      = val d / (((o.sig.toNat / 10 ^ b : Nat) : ℚ) * (10 : ℚ) ^ (o.exp.toInt + b)) := by
    rw [he0, hds, hos]
    unfold val
    have e1 : (10 : ℚ) ^ (d.exp.toInt - a - (o.exp.toInt + b))
        = (10 : ℚ) ^ d.exp.toInt * ((10 : ℚ) ^ a)⁻¹ * ((10 : ℚ) ^ (o.exp.toInt + b))⁻¹ := by
      rw [zpow_sub₀ (by norm_num), zpow_sub₀ (by norm_num), zpow_natCast]
      rfl
    rw [e1]
    push_cast
    have ha0 : ((10 : ℚ) ^ a) ≠ 0 := pow_ne_zero _ (by norm_num)
    field_simp
  rw [hX] at c1 c2 c3 c4 c5
  rw [he0] at c6 c7
  refine ⟨r, t', _, hr, ho'pos, u1, u2, ?_, c1, c2, ?_, ?_, c5, c8, by omega, by omega⟩
  · intro hlt
    rcases hob with h | h
    · subst h; simp [val]
    · omega
  · rintro ⟨h1, h2⟩
    rw [c3 h1, hot, if_pos (u3.mp h2)]
  · intro hn
    by_cases h1 : val r = val d / (((o.sig.toNat / 10 ^ b : Nat) : ℚ) * (10 : ℚ) ^ (o.exp.toInt + b))
    · have h2 : ¬ (((o.sig.toNat / 10 ^ b : Nat) : ℚ) * (10 : ℚ) ^ (o.exp.toInt + b) = val o) :=
        fun h2 => hn ⟨h1, h2⟩
      rw [c3 h1, hot, if_neg (fun h => h2 (u3.mpr h))]
    · exact c4 h1

/-- `quo` by a small positive integer (exponent 0, exact divisor), for numerators with exponents down to
`-32641`: the quotient truncated downward by at most relative `lam`. -/
theorem quo_int (d : Gen.decomposed192) (i : UInt64) (t : Int8) (hd : d.sig.toNat ≠ 0)
    (hi : i.toNat ≠ 0) (hlo : -32641 ≤ d.exp.toInt) (hhi : d.exp.toInt ≤ 32700) :
    ∃ r t', Gen.decomposed192.quo d ⟨⟨i, 0, 0⟩, 0⟩ t = .ok (r, t') ∧
      val d / (i.toNat : ℚ) * (1 - lam) ≤ val r ∧ val r ≤ val d / (i.toNat : ℚ) ∧
      (t' = t ∨ t' = 1) ∧ r.sig.toNat ≠ 0 ∧
      d.exp.toInt - 118 ≤ r.exp.toInt ∧ r.exp.toInt ≤ d.exp.toInt + 1 := by
  have hsig : (U192.mk i 0 0).toNat = i.toNat := by simp [U192.toNat]
  have hlt : (U192.mk i 0 0).toNat < OLIM := by
    rw [hsig]; have := i.toNat_lt; unfold OLIM lim; omega
  have he0 : (0 : Int16).toInt = 0 := by decide
  obtain ⟨r, t', o', e, h1, h2, h3, h4, h5, h6, h7, h8, h9, h10, h11, h12⟩ :=
    quo_contract_wide d ⟨⟨i, 0, 0⟩, 0⟩ t hd (by rw [hsig]; exact hi) (by omega)
      (by show (0 : Int16).toInt ≤ 32765; rw [he0]; norm_num)
      (by show -32641 ≤ d.exp.toInt - (0 : Int16).toInt; rw [he0]; omega)
      (by show d.exp.toInt - (0 : Int16).toInt ≤ 32700; rw [he0]; omega)
  have ho' : o' = (i.toNat : ℚ) := by
    rw [h4 hlt]
    show ((U192.mk i 0 0).toNat : ℚ) * (10 : ℚ) ^ (0 : Int16).toInt = _
    rw [hsig, he0]; simp
  rw [ho'] at h5 h6 h7 h8 h9
  have hq0 : 0 ≤ val d / (i.toNat : ℚ) := div_nonneg (val_nonneg d) (Nat.cast_nonneg _)
  refine ⟨r, t', e, ?_, h5, ?_, by omega, ?_, ?_⟩
  · rcases h9 with hex | hn
    · rw [hex]; exact mul_le_of_le_one_right hq0 (by have := lam_pos; linarith)
    · exact rel_of_norm r _ h5 h6 hn
  · by_cases hc : val r = val d / (i.toNat : ℚ) ∧ (i.toNat : ℚ) = val ⟨⟨i, 0, 0⟩, 0⟩
    · left; exact h7 hc
    · right; exact h8 hc
  · have h11' : d.exp.toInt - (0 : Int16).toInt - 118 ≤ r.exp.toInt := h11
    rw [he0] at h11'; omega
  · have h12' : r.exp.toInt ≤ d.exp.toInt - (0 : Int16).toInt + 1 := h12
    rw [he0] at h12'; omega

/-- `add`, relative form, with the exponent alternative: the result keeps the smaller exponent or is
normalised (`LIM ≤ r.sig`, i.e. `LIM·ulp r ≤ val r`). -/
theorem add_rel2 (d o : decomposed192) (t : Int8)
    (hlo : -32767 ≤ d.exp.toInt - o.exp.toInt) (hhi : d.exp.toInt - o.exp.toInt ≤ 32767)
    (hd : d.exp.toInt < 32767) (ho : o.exp.toInt < 32767) :
    ∃ r t', decomposed192.add d o t = .ok (r, t') ∧
      (val d + val o) * (1 - lam) ≤ val r ∧ val r ≤ val d + val o ∧
      (t' = t ∨ t' = 1 ∨ t' = -1) ∧
      (r.exp.toInt = min d.exp.toInt o.exp.toInt ∨ (LIM : ℚ) * ulp r ≤ val r) := by
  obtain ⟨r, t', hr, c1, c2, c3, c4, c5, c6, c7, c8⟩ := add_contract d o t hlo hhi hd ho
  obtain ⟨r2, t2, hr2, a1, a2, a3, -⟩ := add_rel d o t hlo hhi hd ho
  rw [hr] at hr2
  have e := ok_inj hr2
  have er : r2 = r := (congrArg Prod.fst e).symm
  have et : t2 = t' := (congrArg Prod.snd e).symm
  subst er et
  refine ⟨r2, t2, hr, a1, a2, a3, ?_⟩
  rcases c8 with h | h
  · exact Or.inl h
  · right
    rw [scaleLim_eq_LIM] at h
    unfold val ulp
    exact mul_le_mul_of_nonneg_right (by exact_mod_cast h) (zpow_pos (by norm_num) _).le

/-- `sub` of a smaller value from a larger one: no borrow, the magnitude is within `lam·val d` of the
difference (it may be too large when digits of the subtrahend are dropped). -/
theorem sub_pos (d o : decomposed192) (t : Int8)
    (hlo : -32767 ≤ d.exp.toInt - o.exp.toInt) (hhi : d.exp.toInt - o.exp.toInt ≤ 32767)
    (hle : val o ≤ val d) :
    ∃ ng r t', decomposed192.sub d o t = .ok (ng, r, t') ∧
      val d - val o - lam * val d ≤ val r ∧ val r ≤ val d - val o + lam * val d ∧
      (t' = t ∨ t' = 1 ∨ t' = -1) ∧
      (r.exp.toInt = min d.exp.toInt o.exp.toInt ∨ (LIM : ℚ) * ulp r ≤ val d) := by
  obtain ⟨ng, r, t', hr, hA, hB, hC, hmin, hmax, hex, hsc⟩ := sub_contract d o t hlo hhi
  have hl := lam_pos
  have hd0 := val_nonneg d
  have ho0 := val_nonneg o
  have hLq := LIMq_pos
  -- no borrow
  have hng : ng = false := by
    rcases le_or_gt d.exp.toInt o.exp.toInt with hc | hc
    · obtain ⟨-, -, -, h4⟩ := hA hc
      cases ng
      · rfl
      · exact absurd (h4.mp rfl) (not_lt.mpr hle)
    · obtain ⟨-, -, -, h4, -⟩ := hB hc
      cases ng
      · rfl
      · exact absurd (h4 rfl) (not_lt.mpr hle)
  subst hng
  simp only [sgnVal, Bool.false_eq_true, if_false] at hA hB hC hex
  -- the unit of the result against the larger operand
  have hsc' : r.exp.toInt = min d.exp.toInt o.exp.toInt ∨ (LIM : ℚ) * ulp r ≤ val d := by
    rcases hsc with h | h
    · exact Or.inl h
    · right
      rw [scaleLim_eq_LIM] at h
      split at h
      · exact le_trans h hle
      · exact h
  have hulp : val r = val d - val o ∨ ulp r ≤ lam * val d := by
    rcases hsc' with h | h
    · exact Or.inl (hex h)
    · right
      unfold lam
      rw [one_div, inv_mul_eq_div, le_div_iff₀ hLq]
      linarith
  have hflag : t' = t ∨ t' = 1 ∨ t' = -1 := by
    by_cases hv : val r = val d - val o
    · exact Or.inl (hC hv)
    · rcases le_or_gt d.exp.toInt o.exp.toInt with hc | hc
      · exact Or.inr (Or.inl ((hA hc).2.2.1 hv))
      · exact Or.inr (Or.inr ((hB hc).2.2.1 hv))
  refine ⟨false, r, t', hr, ?_, ?_, hflag, hsc'⟩
  · rcases hulp with h | h
    · rw [h]; nlinarith
    · rcases le_or_gt d.exp.toInt o.exp.toInt with hc | hc
      · have := (hA hc).2.1; linarith
      · have := (hB hc).2.1; nlinarith
  · rcases hulp with h | h
    · rw [h]; nlinarith
    · rcases le_or_gt d.exp.toInt o.exp.toInt with hc | hc
      · have := (hA hc).1; nlinarith
      · have := (hB hc).1; linarith

/-! ### exponent windows from values -/

theorem zpow10_pos (e : Int) : (0 : ℚ) < (10 : ℚ) ^ e := zpow_pos (by norm_num) _

/-- `LIM·ulp r ≤ 2·val d` forces `r.exp ≤ d.exp + 1` -/
theorem exp_le_of_ulp (r d : decomposed192) (h : (LIM : ℚ) * ulp r ≤ 2 * val d) :
    r.exp.toInt ≤ d.exp.toInt + 1 := by
  by_contra hc
  have hge : d.exp.toInt + 2 ≤ r.exp.toInt := by omega
  have hp : (10 : ℚ) ^ (d.exp.toInt + 2) ≤ (10 : ℚ) ^ r.exp.toInt :=
    zpow_le_zpow_right₀ (by norm_num) hge
  have e2 : (10 : ℚ) ^ (d.exp.toInt + 2) = (10 : ℚ) ^ d.exp.toInt * 100 := by
    rw [zpow_add₀ (by norm_num)]; norm_num
  have hu := zpow10_pos d.exp.toInt
  have hs : (d.sig.toNat : ℚ) < 2 ^ 192 := by exact_mod_cast U192.toNat_lt d.sig
  unfold ulp val at h
  have hL : (LIM : ℚ) = 25 * 2 ^ 184 := by unfold LIM; norm_num
  rw [hL] at h
  have h1 : (25 * 2 ^ 184 : ℚ) * ((10 : ℚ) ^ d.exp.toInt * 100) ≤ 2 * ((d.sig.toNat : ℚ) * (10 : ℚ) ^ d.exp.toInt) := by
    rw [← e2]
    exact le_trans (mul_le_mul_of_nonneg_left hp (by norm_num)) h
  have h2 : 2 * ((d.sig.toNat : ℚ) * (10 : ℚ) ^ d.exp.toInt) < 2 * (2 ^ 192 * (10 : ℚ) ^ d.exp.toInt) := by
    have := mul_lt_mul_of_pos_right hs hu
    linarith
  have h3 : (25 * 2 ^ 184 : ℚ) * ((10 : ℚ) ^ d.exp.toInt * 100) = (2500 * 2 ^ 184) * (10 : ℚ) ^ d.exp.toInt := by ring
  have h4 : 2 * ((2 : ℚ) ^ 192 * (10 : ℚ) ^ d.exp.toInt) = (512 * 2 ^ 184) * (10 : ℚ) ^ d.exp.toInt := by ring
  rw [h3] at h1; rw [h4] at h2
  have : (2500 * 2 ^ 184 : ℚ) * (10 : ℚ) ^ d.exp.toInt < (512 * 2 ^ 184) * (10 : ℚ) ^ d.exp.toInt :=
    lt_of_le_of_lt h1 h2
  have h5 := lt_of_mul_lt_mul_right this hu.le
  norm_num at h5

/-- `val d ≤ 2·val r` (`d.sig ≠ 0`) forces `d.exp - 58 ≤ r.exp` -/
theorem exp_ge_of_val (r d : decomposed192) (hd : d.sig.toNat ≠ 0) (h : val d ≤ 2 * val r) :
    d.exp.toInt - 58 ≤ r.exp.toInt := by
  by_contra hc
  have hge : r.exp.toInt + 59 ≤ d.exp.toInt := by omega
  have hp : (10 : ℚ) ^ (r.exp.toInt + 59) ≤ (10 : ℚ) ^ d.exp.toInt :=
    zpow_le_zpow_right₀ (by norm_num) hge
  have e2 : (10 : ℚ) ^ (r.exp.toInt + 59) = (10 : ℚ) ^ r.exp.toInt * 10 ^ 59 := by
    rw [zpow_add₀ (by norm_num)]; norm_num
  have hu := zpow10_pos r.exp.toInt
  have hs : (r.sig.toNat : ℚ) < 2 ^ 192 := by exact_mod_cast U192.toNat_lt r.sig
  have hd1 : (1 : ℚ) ≤ (d.sig.toNat : ℚ) := by exact_mod_cast Nat.pos_of_ne_zero hd
  unfold val at h
  have h1 : (10 : ℚ) ^ r.exp.toInt * 10 ^ 59 ≤ (d.sig.toNat : ℚ) * (10 : ℚ) ^ d.exp.toInt := by
    rw [← e2]
    calc (10 : ℚ) ^ (r.exp.toInt + 59) ≤ (10 : ℚ) ^ d.exp.toInt := hp
      _ = 1 * (10 : ℚ) ^ d.exp.toInt := (one_mul _).symm
      _ ≤ _ := mul_le_mul_of_nonneg_right hd1 (zpow10_pos _).le
  have h2 : 2 * ((r.sig.toNat : ℚ) * (10 : ℚ) ^ r.exp.toInt) < 2 * (2 ^ 192 * (10 : ℚ) ^ r.exp.toInt) := by
    have := mul_lt_mul_of_pos_right hs hu
    linarith
  have h3 : (10 : ℚ) ^ r.exp.toInt * 10 ^ 59 < (2 * 2 ^ 192) * (10 : ℚ) ^ r.exp.toInt := by
    calc _ ≤ _ := h1
      _ ≤ _ := h
      _ < _ := h2
      _ = _ := by ring
  rw [mul_comm] at h3
  have h5 := lt_of_mul_lt_mul_right h3 hu.le
  norm_num at h5

/-- a non-zero significand with value at most 1 has a non-positive exponent -/
theorem exp_le_zero_of_val (r : decomposed192) (hr : r.sig.toNat ≠ 0) (h : val r ≤ 1) :
    r.exp.toInt ≤ 0 := by
  by_contra hc
  have hge : (1 : Int) ≤ r.exp.toInt := by omega
  have hp : (10 : ℚ) ^ (1 : Int) ≤ (10 : ℚ) ^ r.exp.toInt := zpow_le_zpow_right₀ (by norm_num) hge
  have hr1 : (1 : ℚ) ≤ (r.sig.toNat : ℚ) := by exact_mod_cast Nat.pos_of_ne_zero hr
  unfold val at h
  have : (1 : ℚ) * (10 : ℚ) ^ (1 : Int) ≤ (r.sig.toNat : ℚ) * (10 : ℚ) ^ r.exp.toInt :=
    mul_le_mul hr1 hp (by norm_num) (by linarith)
  norm_num at this
  linarith

end LogAcc
