/-
  D128/Proofs/LogAccSeries.lean — the reduction by the two leading digits and the artanh series of
  `decomposed192.log` (`LogAcc.logReduce`, `LogAcc.logSeries`), in ℚ.

  * `Sj f j = Σ_{k ≤ j} f^(2k+1)/(2k+1)`   (the partial sums of the artanh series; `Sj f 16` is what the code sums)
  * `logReduce_spec` : `M = ⌊10 v⌋`, `v = val d1 ∈ [1,10)` normalised ⇒ `logReduce d1 M = .ok (d2, t2)` with
        `q = 10v/M`, `1 ≤ val d2 ≤ q`, `q(1 - lam) ≤ val d2` (`val d2 = q` when `M = 10`), `-57 ≤ d2.exp ≤ 0`
  * `logIter_spec`   : the loop invariant over `n` passes
  * `logSeries_spec` : `1 ≤ v2 = val d2 < 11/10` ⇒ `logSeries d2 t2 = .ok (res, t)` with, for the computed
        `f = val frc`,  `z(1-lam) ≤ f ≤ z(1+eps)/(1-lam)`, `z = (v2-1)/(v2+1)`, and
        `Sj f 16·(1-lam)^50 ≤ val res ≤ Sj f 16`, `-5930 ≤ res.exp ≤ 5400`, flag in `flag3`
-/
import D128.Proofs.LogAccScale
set_option autoImplicit false
set_option maxRecDepth 4096
set_option linter.unusedVariables false
namespace LogAcc
open Gen D192 Root

/-- partial sums of the artanh series: `Sj f j = Σ_{k ≤ j} f^(2k+1)/(2k+1)` -/
def Sj (f : ℚ) : Nat → ℚ
  | 0 => f
  | j + 1 => Sj f j + f * (f ^ 2) ^ (j + 1) / ((2 * (j + 1) + 1 : Nat) : ℚ)

theorem Sj_nonneg (f : ℚ) (hf : 0 ≤ f) : ∀ j, 0 ≤ Sj f j
  | 0 => hf
  | j + 1 => by
      unfold Sj
      have := Sj_nonneg f hf j
      have : 0 ≤ f * (f ^ 2) ^ (j + 1) / ((2 * (j + 1) + 1 : Nat) : ℚ) := by positivity
      linarith

theorem Sj_zero (j : Nat) : Sj 0 j = 0 := by
  induction j with
  | zero => rfl
  | succ j ih => unfold Sj; rw [ih]; simp

theorem one_sub_lam_pos : 0 < 1 - lam := by have := lam_lt_one; linarith
theorem one_sub_lam_le : 1 - lam ≤ 1 := by have := lam_pos; linarith

theorem exp_lo_of_one_le (x : decomposed192) (h : 1 ≤ val x) : -57 ≤ x.exp.toInt := by
  by_contra hcn
  have hle : x.exp.toInt ≤ -58 := by omega
  have hp : (10 : ℚ) ^ x.exp.toInt ≤ (10 : ℚ) ^ (-58 : Int) := zpow_le_zpow_right₀ (by norm_num) hle
  have hs : (x.sig.toNat : ℚ) ≤ (2 : ℚ) ^ 192 := by
    have := U192.toNat_lt x.sig
    exact_mod_cast this.le
  have : val x ≤ (2 : ℚ) ^ 192 * (10 : ℚ) ^ (-58 : Int) := by
    unfold val; exact mul_le_mul hs hp (zpow_pos (by norm_num) _).le (by positivity)
  have h2 : (2 : ℚ) ^ 192 * (10 : ℚ) ^ (-58 : Int) < 1 := by rw [zpow_neg]; norm_num
  linarith

theorem exp_hi_of_lt_ten (x : decomposed192) (hs : x.sig.toNat ≠ 0) (h : val x < 10) :
    x.exp.toInt ≤ 0 := by
  by_contra hcn
  have hge : 1 ≤ x.exp.toInt := by omega
  have hp : (10 : ℚ) ^ (1 : Int) ≤ (10 : ℚ) ^ x.exp.toInt := zpow_le_zpow_right₀ (by norm_num) hge
  have hs' : (1 : ℚ) ≤ (x.sig.toNat : ℚ) := by exact_mod_cast Nat.pos_of_ne_zero hs
  have : (1 : ℚ) * (10 : ℚ) ^ (1 : Int) ≤ val x := by
    unfold val; exact mul_le_mul hs' hp (by positivity) (by positivity)
  norm_num at this
  linarith

/-- a value truncated at a unit `10^e`, `e ≤ 0`, from a quantity `≥ 1` is itself `≥ 1` -/
theorem one_le_of_trunc (r : decomposed192) (q : ℚ) (hq : 1 ≤ q) (h2 : q < val r + ulp r)
    (he : r.exp.toInt ≤ 0) : 1 ≤ val r := by
  by_contra hc
  rw [not_le] at hc
  have hpe := pow_neg_cancel r.exp.toInt he
  have hpos : (0 : ℚ) < (10 : ℚ) ^ r.exp.toInt := zpow_pos (by norm_num) _
  have hlt : (r.sig.toNat : ℚ) < ((10 ^ (-r.exp.toInt).toNat : Nat) : ℚ) := by
    push_cast
    by_contra hcc
    rw [not_lt] at hcc
    have : (10 : ℚ) ^ (-r.exp.toInt).toNat * (10 : ℚ) ^ r.exp.toInt ≤ (r.sig.toNat : ℚ) * (10 : ℚ) ^ r.exp.toInt :=
      mul_le_mul_of_nonneg_right hcc hpos.le
    rw [mul_comm ((10 : ℚ) ^ (-r.exp.toInt).toNat), hpe] at this
    unfold val at hc; linarith
  have hlt' : r.sig.toNat + 1 ≤ 10 ^ (-r.exp.toInt).toNat := by exact_mod_cast hlt
  have : ((r.sig.toNat + 1 : Nat) : ℚ) ≤ ((10 ^ (-r.exp.toInt).toNat : Nat) : ℚ) := by exact_mod_cast hlt'
  have h3 : ((r.sig.toNat + 1 : Nat) : ℚ) * (10 : ℚ) ^ r.exp.toInt ≤ 1 := by
    calc ((r.sig.toNat + 1 : Nat) : ℚ) * (10 : ℚ) ^ r.exp.toInt
        ≤ ((10 ^ (-r.exp.toInt).toNat : Nat) : ℚ) * (10 : ℚ) ^ r.exp.toInt :=
          mul_le_mul_of_nonneg_right this hpos.le
      _ = 1 := by push_cast; rw [mul_comm, hpe]
  have h4 : val r + ulp r = ((r.sig.toNat + 1 : Nat) : ℚ) * (10 : ℚ) ^ r.exp.toInt := by
    unfold val ulp; push_cast; ring
  linarith

theorem conv_i64_u64 (M : Int64) (h0 : 0 ≤ M.toInt) : ((Go.conv M : UInt64)).toNat = M.toInt.toNat := by
  have := Int64.toInt_lt M
  simp only [Go.conv, Go.GoInt.ofInt, Go.GoInt.toInt, UInt64.ofInt, UInt64.toNat_ofNat']
  omega

theorem msdDiv_sig (M : Int64) (h0 : 0 ≤ M.toInt) : (msdDiv M).sig.toNat = M.toInt.toNat := by
  simp [msdDiv, U192.toNat, conv_i64_u64 M h0]

theorem val_msdDiv (M : Int64) (h0 : 0 ≤ M.toInt) : val (msdDiv M) = (M.toInt : ℚ) / 10 := by
  have hexp : (msdDiv M).exp.toInt = -1 := by simp [msdDiv]
  unfold val
  rw [msdDiv_sig M h0, hexp]
  have : ((M.toInt.toNat : Nat) : ℚ) = (M.toInt : ℚ) := by
    have := Int.toNat_of_nonneg h0
    exact_mod_cast this
  rw [this, zpow_neg_one]; ring

/-- the first reduction -/
theorem logReduce_spec (d1 : decomposed192) (M : Int64) (hM0 : 10 ≤ M.toInt) (hM1 : M.toInt ≤ 99)
    (hlo : (M.toInt : ℚ) ≤ 10 * val d1) (hhi : 10 * val d1 < (M.toInt : ℚ) + 1)
    (hL : LIM ≤ d1.sig.toNat) (he0 : -57 ≤ d1.exp.toInt) (he1 : d1.exp.toInt ≤ -56) :
    ∃ d2 t2, logReduce d1 M = .ok (d2, t2) ∧ (t2 = 0 ∨ t2 = 1) ∧
      1 ≤ val d2 ∧ val d2 ≤ 10 * val d1 / (M.toInt : ℚ) ∧
      10 * val d1 / (M.toInt : ℚ) * (1 - (if M.toInt = 10 then 0 else lam)) ≤ val d2 ∧
      -57 ≤ d2.exp.toInt ∧ d2.exp.toInt ≤ 0 := by
  have hMq : (10 : ℚ) ≤ (M.toInt : ℚ) := by exact_mod_cast hM0
  have hMpos : (0 : ℚ) < (M.toInt : ℚ) := by linarith
  have hq1 : 1 ≤ 10 * val d1 / (M.toInt : ℚ) := by rw [le_div_iff₀ hMpos]; linarith
  have h10i : (10 : Int64).toInt = 10 := by decide
  unfold logReduce
  by_cases hgt : M > 10
  · have hne : M.toInt ≠ 10 := by
      rw [gt_iff_lt, Int64.lt_iff_toInt_lt, h10i] at hgt; omega
    simp only [hgt, decide_true, if_true, hne, if_false]
    have hd1 : d1.sig.toNat ≠ 0 := by unfold LIM at hL; omega
    have hvo := val_msdDiv M (by omega)
    have hosig : (msdDiv M).sig.toNat = M.toInt.toNat := msdDiv_sig M (by omega)
    have hoexp : (msdDiv M).exp.toInt = -1 := by simp [msdDiv]
    obtain ⟨r, t', hr, c1, c2, c3, c4, c5, c6, c7, -⟩ := quo_lt d1 (msdDiv M) 0 hd1
      (by rw [hosig]; omega) (by rw [hosig]; unfold OLIM lim; omega) (by omega) (by rw [hoexp]; norm_num)
    have hQ : val d1 / val (msdDiv M) = 10 * val d1 / (M.toInt : ℚ) := by
      rw [hvo]; field_simp
    rw [hQ] at c1 c2 c3
    rw [hoexp] at c6 c7
    have hre : r.exp.toInt ≤ 0 := by omega
    have h1 : 1 ≤ val r := one_le_of_trunc r _ hq1 c3 hre
    exact ⟨r, t', hr, c4, h1, c2, c1, exp_lo_of_one_le r h1, hre⟩
  · have heq : M.toInt = 10 := by
      rw [gt_iff_lt, Int64.lt_iff_toInt_lt, h10i] at hgt; omega
    simp only [hgt, decide_false, Bool.false_eq_true, if_false, heq, if_true]
    refine ⟨d1, 0, rfl, Or.inl rfl, ?_, ?_, ?_, he0, by omega⟩
    · rw [heq] at hlo; push_cast at hlo; linarith
    · push_cast; apply le_of_eq; ring
    · push_cast; apply le_of_eq; ring

/-! ## the series loop -/

/-- invariant after `j` passes: `F ≈ f^(2j+1)`, `R ≈ Sj f j` -/
def SerInv (f : ℚ) (j : Nat) (s : Int8 × decomposed192 × decomposed192) : Prop :=
  flag3 s.1 ∧
  val s.2.1 ≤ f * (f ^ 2) ^ j ∧ f * (f ^ 2) ^ j * (1 - lam) ^ (2 * j) ≤ val s.2.1 ∧
  val s.2.2 ≤ Sj f j ∧ Sj f j * (1 - lam) ^ (3 * j + 2) ≤ val s.2.2 ∧
  -176 - 352 * (j : Int) ≤ s.2.1.exp.toInt ∧ s.2.1.exp.toInt ≤ 58 + 232 * (j : Int) ∧
  -294 - 352 * (j : Int) ≤ s.2.2.exp.toInt ∧ s.2.2.exp.toInt ≤ 60 + 233 * (j : Int)

theorem pow_mono_exp (u : ℚ) (hu0 : 0 < u) (hu1 : u ≤ 1) {a b : Nat} (h : a ≤ b) : u ^ b ≤ u ^ a :=
  pow_le_pow_of_le_one hu0.le hu1 h

/-- one pass of the loop preserves the invariant -/
theorem logTerm_spec (sqr : decomposed192) (f : ℚ) (hf : 0 ≤ f) (j : Nat) (hj : j ≤ 15)
    (hsq1 : val sqr ≤ f ^ 2) (hsq2 : f ^ 2 * (1 - lam) ≤ val sqr)
    (hse0 : -352 ≤ sqr.exp.toInt) (hse1 : sqr.exp.toInt ≤ 174)
    (i : UInt64) (hi : i.toNat = 2 * (j + 1) + 1)
    (s : Int8 × decomposed192 × decomposed192) (h : SerInv f j s) :
    ∃ s', logTerm sqr i s = .ok s' ∧ SerInv f (j + 1) s' := by
  obtain ⟨ht, hF1, hF2, hR1, hR2, eF0, eF1, eR0, eR1⟩ := h
  have hu0 := one_sub_lam_pos
  have hu1 := one_sub_lam_le
  have hjz : (j : Int) ≤ 15 := by exact_mod_cast hj
  have hF0 : 0 ≤ val s.2.1 := val_nonneg _
  have hR0 : 0 ≤ val s.2.2 := val_nonneg _
  have hP : 0 ≤ f * (f ^ 2) ^ j := by positivity
  unfold logTerm
  -- frc·sqr
  obtain ⟨x, tx, hx, x1, x2, -, xe0, xe1, -⟩ := mul_rel s.2.1 sqr 0 (by omega) (by omega)
  -- / i
  obtain ⟨y, ty, hy, y1, y2, -, ye0, ye1⟩ := quo_small_any x i 0 (by omega) (by omega)
  -- res + tmp
  obtain ⟨z, tz, hz, z1, z2, z3, ze0, ze1, -⟩ := add_rel s.2.2 y s.1
    (by have := min_le_left (x.exp.toInt - 118) 0; have := le_max_left (x.exp.toInt + 1) 0
        have := le_max_right (x.exp.toInt + 1) 0; have := min_le_right (x.exp.toInt - 118) 0
        rcases le_total (x.exp.toInt + 1) 0 with h | h
        · rw [max_eq_right h] at ye1; omega
        · rw [max_eq_left h] at ye1; omega)
    (by rcases le_total (x.exp.toInt - 118) 0 with h | h
        · rw [min_eq_left h] at ye0; omega
        · rw [min_eq_right h] at ye0; omega)
    (by omega)
    (by rcases le_total (x.exp.toInt + 1) 0 with h | h
        · rw [max_eq_right h] at ye1; omega
        · rw [max_eq_left h] at ye1; omega)
  simp only [hx, hy, hz, bind, Except.bind, pure, Except.pure]
  refine ⟨_, rfl, flag3_of_or3 ht z3, ?_, ?_, ?_, ?_, ?_, ?_, ?_, ?_⟩
  · -- F upper
    show val x ≤ f * (f ^ 2) ^ (j + 1)
    calc val x ≤ val s.2.1 * val sqr := x2
      _ ≤ (f * (f ^ 2) ^ j) * f ^ 2 := mul_le_mul hF1 hsq1 (val_nonneg _) hP
      _ = f * (f ^ 2) ^ (j + 1) := by ring
  · -- F lower
    show f * (f ^ 2) ^ (j + 1) * (1 - lam) ^ (2 * (j + 1)) ≤ val x
    have e : f * (f ^ 2) ^ (j + 1) * (1 - lam) ^ (2 * (j + 1))
        = (f * (f ^ 2) ^ j * (1 - lam) ^ (2 * j)) * (f ^ 2 * (1 - lam)) * (1 - lam) := by ring
    rw [e]
    have h2 : (f * (f ^ 2) ^ j * (1 - lam) ^ (2 * j)) * (f ^ 2 * (1 - lam)) ≤ val s.2.1 * val sqr :=
      mul_le_mul hF2 hsq2 (by positivity) hF0
    calc _ ≤ val s.2.1 * val sqr * (1 - lam) := mul_le_mul_of_nonneg_right h2 hu0.le
      _ ≤ val x := x1
  · -- R upper
    show val z ≤ Sj f (j + 1)
    have hxi : val x / (i.toNat : ℚ) ≤ f * (f ^ 2) ^ (j + 1) / ((2 * (j + 1) + 1 : Nat) : ℚ) := by
      rw [hi]
      apply div_le_div_of_nonneg_right _ (by positivity)
      calc val x ≤ val s.2.1 * val sqr := x2
        _ ≤ (f * (f ^ 2) ^ j) * f ^ 2 := mul_le_mul hF1 hsq1 (val_nonneg _) hP
        _ = f * (f ^ 2) ^ (j + 1) := by ring
    unfold Sj
    linarith
  · -- R lower
    show Sj f (j + 1) * (1 - lam) ^ (3 * (j + 1) + 2) ≤ val z
    have hS0 := Sj_nonneg f hf j
    have hT0 : 0 ≤ f * (f ^ 2) ^ (j + 1) / ((2 * (j + 1) + 1 : Nat) : ℚ) := by positivity
    -- the term
    have hxl : f * (f ^ 2) ^ (j + 1) * (1 - lam) ^ (2 * j + 2) ≤ val x := by
      have e : f * (f ^ 2) ^ (j + 1) * (1 - lam) ^ (2 * j + 2)
          = (f * (f ^ 2) ^ j * (1 - lam) ^ (2 * j)) * (f ^ 2 * (1 - lam)) * (1 - lam) := by ring
      rw [e]
      have h2 : (f * (f ^ 2) ^ j * (1 - lam) ^ (2 * j)) * (f ^ 2 * (1 - lam)) ≤ val s.2.1 * val sqr :=
        mul_le_mul hF2 hsq2 (by positivity) hF0
      calc _ ≤ val s.2.1 * val sqr * (1 - lam) := mul_le_mul_of_nonneg_right h2 hu0.le
        _ ≤ val x := x1
    have hyl : f * (f ^ 2) ^ (j + 1) / ((2 * (j + 1) + 1 : Nat) : ℚ) * (1 - lam) ^ (2 * j + 3) ≤ val y := by
      have hipos : (0 : ℚ) < ((2 * (j + 1) + 1 : Nat) : ℚ) := by positivity
      have : f * (f ^ 2) ^ (j + 1) / ((2 * (j + 1) + 1 : Nat) : ℚ) * (1 - lam) ^ (2 * j + 3)
          = (f * (f ^ 2) ^ (j + 1) * (1 - lam) ^ (2 * j + 2)) / ((2 * (j + 1) + 1 : Nat) : ℚ) * (1 - lam) := by
        ring
      rw [this]
      calc _ ≤ val x / ((2 * (j + 1) + 1 : Nat) : ℚ) * (1 - lam) :=
            mul_le_mul_of_nonneg_right (div_le_div_of_nonneg_right hxl hipos.le) hu0.le
        _ = val x / (i.toNat : ℚ) * (1 - lam) := by rw [hi]
        _ ≤ val y := y1
    have hp1 : (1 - lam) ^ (3 * (j + 1) + 2) ≤ (1 - lam) ^ (3 * j + 2) * (1 - lam) := by
      rw [← pow_succ]; exact pow_mono_exp _ hu0 hu1 (by omega)
    have hp2 : (1 - lam) ^ (3 * (j + 1) + 2) ≤ (1 - lam) ^ (2 * j + 3) * (1 - lam) := by
      rw [← pow_succ]; exact pow_mono_exp _ hu0 hu1 (by omega)
    have hA : Sj f j * (1 - lam) ^ (3 * (j + 1) + 2) ≤ val s.2.2 * (1 - lam) := by
      calc Sj f j * (1 - lam) ^ (3 * (j + 1) + 2) ≤ Sj f j * ((1 - lam) ^ (3 * j + 2) * (1 - lam)) :=
            mul_le_mul_of_nonneg_left hp1 hS0
        _ = Sj f j * (1 - lam) ^ (3 * j + 2) * (1 - lam) := by ring
        _ ≤ val s.2.2 * (1 - lam) := mul_le_mul_of_nonneg_right hR2 hu0.le
    have hB : f * (f ^ 2) ^ (j + 1) / ((2 * (j + 1) + 1 : Nat) : ℚ) * (1 - lam) ^ (3 * (j + 1) + 2)
        ≤ val y * (1 - lam) := by
      calc _ ≤ f * (f ^ 2) ^ (j + 1) / ((2 * (j + 1) + 1 : Nat) : ℚ) * ((1 - lam) ^ (2 * j + 3) * (1 - lam)) :=
            mul_le_mul_of_nonneg_left hp2 hT0
        _ = f * (f ^ 2) ^ (j + 1) / ((2 * (j + 1) + 1 : Nat) : ℚ) * (1 - lam) ^ (2 * j + 3) * (1 - lam) := by ring
        _ ≤ val y * (1 - lam) := mul_le_mul_of_nonneg_right hyl hu0.le
    unfold Sj
    calc (Sj f j + f * (f ^ 2) ^ (j + 1) / ((2 * (j + 1) + 1 : Nat) : ℚ)) * (1 - lam) ^ (3 * (j + 1) + 2)
        = Sj f j * (1 - lam) ^ (3 * (j + 1) + 2)
          + f * (f ^ 2) ^ (j + 1) / ((2 * (j + 1) + 1 : Nat) : ℚ) * (1 - lam) ^ (3 * (j + 1) + 2) := by ring
      _ ≤ val s.2.2 * (1 - lam) + val y * (1 - lam) := add_le_add hA hB
      _ = (val s.2.2 + val y) * (1 - lam) := by ring
      _ ≤ val z := z1
  · show -176 - 352 * ((j + 1 : Nat) : Int) ≤ x.exp.toInt
    push_cast; omega
  · show x.exp.toInt ≤ 58 + 232 * ((j + 1 : Nat) : Int)
    push_cast; omega
  · show -294 - 352 * ((j + 1 : Nat) : Int) ≤ z.exp.toInt
    push_cast
    rcases le_total (x.exp.toInt - 118) 0 with h | h
    · rw [min_eq_left h] at ye0
      rcases le_total s.2.2.exp.toInt y.exp.toInt with h' | h'
      · rw [min_eq_left h'] at ze0; omega
      · rw [min_eq_right h'] at ze0; omega
    · rw [min_eq_right h] at ye0
      rcases le_total s.2.2.exp.toInt y.exp.toInt with h' | h'
      · rw [min_eq_left h'] at ze0; omega
      · rw [min_eq_right h'] at ze0; omega
  · show z.exp.toInt ≤ 60 + 233 * ((j + 1 : Nat) : Int)
    push_cast
    rcases le_total (x.exp.toInt + 1) 0 with h | h
    · rw [max_eq_right h] at ye1
      rcases le_total s.2.2.exp.toInt y.exp.toInt with h' | h'
      · rw [max_eq_right h'] at ze1; omega
      · rw [max_eq_left h'] at ze1; omega
    · rw [max_eq_left h] at ye1
      rcases le_total s.2.2.exp.toInt y.exp.toInt with h' | h'
      · rw [max_eq_right h'] at ze1; omega
      · rw [max_eq_left h'] at ze1; omega

/-- `n` passes -/
theorem logIter_spec (sqr : decomposed192) (f : ℚ) (hf : 0 ≤ f)
    (hsq1 : val sqr ≤ f ^ 2) (hsq2 : f ^ 2 * (1 - lam) ≤ val sqr)
    (hse0 : -352 ≤ sqr.exp.toInt) (hse1 : sqr.exp.toInt ≤ 174) (n : Nat) :
    ∀ (j : Nat) (i : UInt64) (s : Int8 × decomposed192 × decomposed192), j + n ≤ 16 →
      i.toNat = 2 * (j + 1) + 1 → SerInv f j s →
      ∃ s', logIter sqr n i s = .ok s' ∧ SerInv f (j + n) s' := by
  induction n with
  | zero => intro j i s _ _ h; exact ⟨s, rfl, h⟩
  | succ n ih =>
    intro j i s hjn hi h
    obtain ⟨s1, h1, hinv1⟩ := logTerm_spec sqr f hf j (by omega) hsq1 hsq2 hse0 hse1 i hi s h
    obtain ⟨s2, h2, hinv2⟩ := ih (j + 1) (i + 2) s1 (by omega)
      (by rw [u64_succ2 i (by omega)]; omega) hinv1
    refine ⟨s2, ?_, by rw [show j + (n + 1) = j + 1 + n by omega]; exact hinv2⟩
    unfold logIter
    simp only [h1, bind, Except.bind]
    exact h2

end LogAcc

namespace LogAcc
open Gen D192 Root

/-- **The artanh series of `log`.**  `f` is the computed value of `frc ≈ z = (v-1)/(v+1)`. -/
theorem logSeries_spec (d2 : decomposed192) (t2 : Int8) (ht2 : flag3 t2)
    (h1 : 1 ≤ val d2) (h2 : val d2 < 11 / 10) (he0 : -57 ≤ d2.exp.toInt) (he1 : d2.exp.toInt ≤ 0) :
    ∃ (res : decomposed192) (t : Int8) (f : ℚ), logSeries d2 t2 = .ok (res, t) ∧ flag3 t ∧ 0 ≤ f ∧
      (val d2 - 1) / (val d2 + 1) * (1 - lam) ≤ f ∧
      f ≤ (val d2 - 1) / (val d2 + 1) * ((1 + Root.eps) / (1 - lam)) ∧
      Sj f 16 * (1 - lam) ^ 50 ≤ val res ∧ val res ≤ Sj f 16 ∧
      -5930 ≤ res.exp.toInt ∧ res.exp.toInt ≤ 5400 := by
  have hu0 := one_sub_lam_pos
  have hu1 := one_sub_lam_le
  obtain ⟨n, hn, hnv, hne⟩ := sub1_exact d2 h1 he0 he1
  obtain ⟨a, ta, ha, a1, a2, ae0, ae1⟩ := add1_rel d2 0 h1 he0 he1
  have hv1 : 0 < val d2 + 1 := by linarith
  have hapos : 0 < val a := lt_of_lt_of_le (mul_pos hv1 hu0) a1
  have hasig : a.sig.toNat ≠ 0 := sig_ne_of_val_pos a hapos
  obtain ⟨frc, tf, hf, f1, f2, f3, -, fe0, fe1⟩ := quo_gen n a t2 hasig (by omega) (by omega)
  have hfe0 : -176 ≤ frc.exp.toInt := by
    rcases le_total (n.exp.toInt - a.exp.toInt - 118) 0 with h | h
    · rw [min_eq_left h] at fe0; omega
    · rw [min_eq_right h] at fe0; omega
  have hfe1 : frc.exp.toInt ≤ 58 := by
    rcases le_total (n.exp.toInt - a.exp.toInt + 1) 0 with h | h
    · rw [max_eq_right h] at fe1; omega
    · rw [max_eq_left h] at fe1; omega
  obtain ⟨sq, ts, hs, s1, s2, se0, se1⟩ := pow2_any frc 0 (by omega) (by omega)
  have hf0 : 0 ≤ val frc := val_nonneg _
  have hinv0 : SerInv (val frc) 0 (tf, frc, frc) := by
    refine ⟨flag3_of_or ht2 f3, ?_, ?_, ?_, ?_, ?_, ?_, ?_, ?_⟩
    · show val frc ≤ val frc * (val frc ^ 2) ^ 0; simp
    · show val frc * (val frc ^ 2) ^ 0 * (1 - lam) ^ (2 * 0) ≤ val frc; simp
    · show val frc ≤ Sj (val frc) 0; exact le_refl _
    · show Sj (val frc) 0 * (1 - lam) ^ (3 * 0 + 2) ≤ val frc
      have : (1 - lam) ^ (3 * 0 + 2) ≤ 1 := pow_le_one₀ hu0.le hu1
      calc Sj (val frc) 0 * (1 - lam) ^ (3 * 0 + 2) ≤ val frc * 1 :=
            mul_le_mul_of_nonneg_left this hf0
        _ = val frc := mul_one _
    · show -176 - 352 * ((0 : Nat) : Int) ≤ frc.exp.toInt; push_cast; omega
    · show frc.exp.toInt ≤ 58 + 232 * ((0 : Nat) : Int); push_cast; omega
    · show -294 - 352 * ((0 : Nat) : Int) ≤ frc.exp.toInt; push_cast; omega
    · show frc.exp.toInt ≤ 60 + 233 * ((0 : Nat) : Int); push_cast; omega
  obtain ⟨s', hs', hinv⟩ := logIter_spec sq (val frc) hf0 s2
    s1 (by omega) (by omega) 16 0 3 (tf, frc, frc) (by omega) (by decide) hinv0
  obtain ⟨i1, -, -, i4, i5, -, -, i8, i9⟩ := hinv
  refine ⟨s'.2.2, s'.1, val frc, ?_, i1, hf0, ?_, ?_, ?_, ?_, ?_, ?_⟩
  · unfold logSeries
    simp only [hn, ha, hf, hs, bind, Except.bind, pure, Except.pure]
    rw [hs']
  · -- lower bound on f
    have hz : (val d2 - 1) / (val d2 + 1) ≤ val n / val a := by
      rw [hnv]
      exact div_le_div_of_nonneg_left (by linarith) hapos a2
    calc (val d2 - 1) / (val d2 + 1) * (1 - lam) ≤ val n / val a * (1 - lam) :=
          mul_le_mul_of_nonneg_right hz hu0.le
      _ ≤ val frc := f1
  · -- upper bound on f
    have hz : val n / val a ≤ (val d2 - 1) / ((val d2 + 1) * (1 - lam)) := by
      rw [hnv]
      exact div_le_div_of_nonneg_left (by linarith) (mul_pos hv1 hu0) a1
    have he : 0 ≤ 1 + Root.eps := by have := Root.eps_pos; linarith
    calc val frc ≤ val n / val a * (1 + Root.eps) := f2
      _ ≤ (val d2 - 1) / ((val d2 + 1) * (1 - lam)) * (1 + Root.eps) := mul_le_mul_of_nonneg_right hz he
      _ = (val d2 - 1) / (val d2 + 1) * ((1 + Root.eps) / (1 - lam)) := by
          field_simp
  · simpa using i5
  · exact i4
  · have : -294 - 352 * ((0 + 16 : Nat) : Int) ≤ s'.2.2.exp.toInt := i8
    push_cast at this; omega
  · have : s'.2.2.exp.toInt ≤ 60 + 233 * ((0 + 16 : Nat) : Int) := i9
    push_cast at this; omega

end LogAcc
