/-
  D128/Proofs/EmitJsonTotal.lean — `UnmarshalJSON` never panics and rejects non-numbers, for every byte string
  (uses the totality and the grammar theorems of the number parser, `D128/Props/C05.lean`).

  * `Emit.unmarshalJSON_total`  : every input (below 2^63 bytes), every receiver: no panic, termination, and the
        error is `nil` or `*json.UnmarshalTypeError`; with a non-nil error the receiver is returned unchanged
  * `Emit.unmarshalJSON_reject` : an input that is not `null`, not empty, and (after an optional sign) not a
        numeral of the grammar `Spec.readNumber` without separators, leaves the receiver and returns
        `*json.UnmarshalTypeError`
-/
import D128.Proofs.EmitJson
import D128.Props.C05
set_option autoImplicit false
namespace Emit

/-- **Totality of `UnmarshalJSON`.** -/
theorem unmarshalJSON_total (g : Globals) (d : Gen.Decimal) (data : Go.Bytes) (hsz : data.size < 2 ^ 63) :
    ∃ v e, Gen.Decimal.UnmarshalJSON g d data = .ok (v, e) ∧
      (e = Go.Err.nil ∨ (e = Go.Err.jsonUnmarshalType ∧ v = d)) := by
  rw [unmarshalJSON_eq g d data hsz]
  by_cases hn : data = Go.str "null"
  · rw [if_pos hn]; exact ⟨d, _, rfl, Or.inl rfl⟩
  · rw [if_neg hn]
    by_cases h0 : data.size = 0
    · rw [dif_pos h0]; exact ⟨d, _, rfl, Or.inl rfl⟩
    · rw [dif_neg h0]
      obtain ⟨r, e, hp, he⟩ := Props.C05.parseNumber_total g
        (data.extract (jsonStart (data[0]'(by omega))).2 data.size)
        (jsonStart (data[0]'(by omega))).1 false (by simp; omega)
      rw [hp]
      rcases he with rfl | rfl | rfl
      · exact ⟨r, _, rfl, Or.inl rfl⟩
      · exact ⟨d, _, rfl, Or.inr ⟨rfl, rfl⟩⟩
      · exact ⟨d, _, rfl, Or.inr ⟨rfl, rfl⟩⟩

/-- **Non-numbers are rejected** with `*json.UnmarshalTypeError`, the receiver untouched. -/
theorem unmarshalJSON_reject (g : Globals) (d : Gen.Decimal) (data : Go.Bytes) (hsz : data.size < 2 ^ 63)
    (hn : data ≠ Go.str "null") (h0 : data.size ≠ 0)
    (hbad : Spec.readNumber false
      (chars (data.extract (jsonStart (data[0]'(by omega))).2 data.size)) = none) :
    Gen.Decimal.UnmarshalJSON g d data = .ok (d, Go.Err.jsonUnmarshalType) := by
  rw [unmarshalJSON_eq g d data hsz, if_neg hn, dif_neg h0]
  obtain ⟨r, hr⟩ := (Props.C05.parseNumber_syntax_iff g
    (data.extract (jsonStart (data[0]'(by omega))).2 data.size)
    (jsonStart (data[0]'(by omega))).1 false (by simp; omega)).mpr hbad
  rw [hr]
  rfl

end Emit
