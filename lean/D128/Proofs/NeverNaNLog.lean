/-
  D128/Proofs/NeverNaNLog.lean — property C15, clause "never yields NaN from finite operands": `Log`, `Log2`,
  `Log10`.  PARTIAL: the general path (positive finite argument) hands the result of `decomposed192.log`
  (times `1/ln 10`, `1/ln 2`) to `reduce192` without any range test, so the structural argument needs two
  facts about that result that only an accuracy analysis of `decomposed192.log` can give:
    `LogOk d` : it is not the degenerate pair "zero significand, flag −1" (`Total.Good`, the same hypothesis
                as in the totality theorems `Props.C20b.Log_total_partial`) and its exponent is within `±13700`
                (the true exponent is between −92 and −52).
  Everything else is proved for ALL bit patterns and every `Globals`.

  Provided (namespace `NN`):
  * `LogOk`
  * `Log_fin_not_nan_partial`, `Log2_fin_not_nan_partial`, `Log10_fin_not_nan_partial` : positive finite
        non-zero `d` with `LogOk d`: no result is a NaN
  * `table_log`, `log_family_special_isNaN` : special operands, zeros and negative arguments (unconditional):
        the result is a NaN iff the operand is a NaN or negative and non-zero
  * `Log_isNaN_partial`, `Log2_isNaN_partial`, `Log10_isNaN_partial` : all bit patterns
  * `table_log1p`, `Log1p_special_isNaN` : `Log1p` on the operands its table decides (unconditional)
-/
import D128.Proofs.NeverNaNExp2
import D128.Proofs.TotalLog
set_option autoImplicit false
set_option maxRecDepth 8192
set_option linter.unusedVariables false
open D128.Proofs.Total

namespace NN
open Gen PowPf

local notation "𝔳[" d "]" => Spec.interp (Gen.Decimal.lo d) (Gen.Decimal.hi d)

/-- what the structural argument needs from `decomposed192.log` on the argument of `Log`/`Log2`/`Log10` -/
def LogOk (d : Decimal) : Prop :=
  ∀ r, decomposed192.log (logArg d) = .ok r → Good r ∧ -13700 ≤ r.2.1.exp.toInt ∧ r.2.1.exp.toInt ≤ 13700

theorem ok_inj {α : Type} {a b : α} (h : (Except.ok a : Go.GoM α) = .ok b) : a = b := by injection h

theorem inf_not_nan (n : Bool) : Decimal.IsNaN (inf n) = false := Enc.IsNaN_inf n

/-- positive finite non-zero argument: no result of `Log` is a NaN (every `Globals`), given `LogOk d` -/
theorem Log_fin_not_nan_partial (g : Globals) (d r : Decimal) (hok : LogOk d)
    (h1 : Decimal.isSpecial d = false) (h2 : Decimal.IsZero d = false) (h3 : Decimal.Signbit d = false)
    (h : Gen.Log g d = .ok r) : Decimal.IsNaN r = false := by
  unfold Gen.Log at h
  simp only [h1, h2, h3, Bool.false_eq_true, if_false] at h
  obtain ⟨x, hx, h⟩ := bind_ok h
  obtain ⟨hg, he0, he⟩ := hok x hx
  simp only [ite_pure] at h
  exact tail_not_nan' _ _ _ x.2.1 x.2.2 _ (inf_not_nan _) hg (by omega) r h

/-- a product with a non-zero constant keeps `Good` and moves the exponent by at most the constant's
    exponent plus 58 -/
theorem mul_good (a c : decomposed192) (t : Int8) (x : decomposed192 × Int8)
    (hc : c.sig.toNat ≠ 0) (hg : a.sig.toNat ≠ 0 ∨ t ≠ -1)
    (hlo : -30000 ≤ a.exp.toInt + c.exp.toInt) (hhi : a.exp.toInt + c.exp.toInt ≤ 30000)
    (h : decomposed192.mul a c t = .ok x) :
    (x.1.sig.toNat ≠ 0 ∨ x.2 ≠ -1) ∧ x.1.exp.toInt ≤ a.exp.toInt + c.exp.toInt + 58 := by
  by_cases ha : a.sig.toNat = 0
  · obtain ⟨r, t', k, hr, hk, hs, he, ht, hn⟩ := D192.mul_spec a c t
    rw [h] at hr
    have hx : x = (r, t') := by injection hr
    subst hx
    have hkk : (Int16.ofNat k).toInt = k := Int16.toInt_ofNat_of_lt (by omega)
    have hab : (a.exp + c.exp).toInt = a.exp.toInt + c.exp.toInt :=
      Int16.toInt_add_of _ _ (by omega) (by omega)
    have hexp : r.exp.toInt = a.exp.toInt + c.exp.toInt + k := by
      rw [he, Int16.toInt_add_of] <;> rw [hab, hkk] <;> omega
    refine ⟨Or.inr ?_, by show r.exp.toInt ≤ _; omega⟩
    show t' ≠ -1
    rw [ht, ha, Nat.zero_mul, Nat.zero_mod, if_pos rfl]
    rcases hg with hg | hg
    · exact absurd ha hg
    · exact hg
  · obtain ⟨f1, f2, f3⟩ := mul_facts a c t x ha hc hlo hhi h
    exact ⟨Or.inl f1, f3⟩

theorem invLn10_exp : Gen.invLn10.exp.toInt = -58 := by decide
theorem invLn2_exp : Gen.invLn2.exp.toInt = -57 := by decide

theorem Log10_fin_not_nan_partial (g : Globals) (d r : Decimal) (hok : LogOk d)
    (h1 : Decimal.isSpecial d = false) (h2 : Decimal.IsZero d = false) (h3 : Decimal.Signbit d = false)
    (h : Gen.Log10 g d = .ok r) : Decimal.IsNaN r = false := by
  unfold Gen.Log10 at h
  simp only [h1, h2, h3, Bool.false_eq_true, if_false] at h
  obtain ⟨x, hx, h⟩ := bind_ok h
  obtain ⟨hg, he0, he⟩ := hok x hx
  obtain ⟨y, hy, h⟩ := bind_ok h
  have hlo := x.2.1.exp.le_toInt
  obtain ⟨f1, f2⟩ := mul_good x.2.1 invLn10 x.2.2 y invLn10_ne_zero hg
    (by rw [invLn10_exp]; omega) (by rw [invLn10_exp]; omega) hy
  rw [invLn10_exp] at f2
  simp only [ite_pure] at h
  exact tail_not_nan' _ _ _ y.1 y.2 _ (inf_not_nan _) f1 (by omega) r h

theorem Log2_fin_not_nan_partial (g : Globals) (d r : Decimal) (hok : LogOk d)
    (h1 : Decimal.isSpecial d = false) (h2 : Decimal.IsZero d = false) (h3 : Decimal.Signbit d = false)
    (h : Gen.Log2 g d = .ok r) : Decimal.IsNaN r = false := by
  unfold Gen.Log2 at h
  simp only [h1, h2, h3, Bool.false_eq_true, if_false] at h
  obtain ⟨x, hx, h⟩ := bind_ok h
  obtain ⟨hg, he0, he⟩ := hok x hx
  obtain ⟨y, hy, h⟩ := bind_ok h
  have hlo := x.2.1.exp.le_toInt
  obtain ⟨f1, f2⟩ := mul_good x.2.1 invLn2 x.2.2 y invLn2_ne_zero hg
    (by rw [invLn2_exp]; omega) (by rw [invLn2_exp]; omega) hy
  rw [invLn2_exp] at f2
  simp only [ite_pure] at h
  exact tail_not_nan' _ _ _ y.1 y.2 _ (inf_not_nan _) f1 (by omega) r h

/-! ## special operands, zeros and negative arguments (unconditional) -/

def IsLogFn (fn : Spec.Fn) : Prop := fn = .log ∨ fn = .log2 ∨ fn = .log10

/-- the table of `Log`, `Log2`, `Log10`: a NaN exactly for a NaN and for a negative non-zero operand -/
theorem table_log (fn : Spec.Fn) (hf : IsLogFn fn) (x w : Spec.Val)
    (h : Spec.specialCase fn x = some w) : w.isNaN = (x.isNaN || (x.neg && !x.isZero)) := by
  cases x with
  | nan n p =>
    simp only [Spec.specialCase, Option.some.injEq] at h; subst h; rfl
  | inf n =>
    rcases hf with rfl | rfl | rfl <;> cases n <;>
      simp only [Spec.specialCase, if_true, Bool.false_eq_true, if_false, Option.some.injEq] at h <;>
      subst h <;> rfl
  | fin n c e =>
    cases c with
    | zero =>
      rcases hf with rfl | rfl | rfl <;>
        simp only [Spec.specialCase, beq_self_eq_true, if_true, Option.some.injEq] at h <;> subst h <;>
        cases n <;> rfl
    | succ k =>
      have hk : ((k + 1 : Nat) == 0) = false := by simp
      cases n
      · rcases hf with rfl | rfl | rfl <;>
          simp [Spec.specialCase, hk] at h
      · rcases hf with rfl | rfl | rfl <;>
          simp only [Spec.specialCase, hk, Bool.false_eq_true, if_false, if_true, Option.some.injEq] at h <;>
          subst h <;> rfl

/-- the table decides every special operand, every zero and every negative operand -/
theorem table_some_log (fn : Spec.Fn) (hf : IsLogFn fn) (d : Decimal)
    (h : Decimal.isSpecial d = true ∨ Decimal.IsZero d = true ∨ Decimal.Signbit d = true) :
    ∃ w, Spec.specialCase fn 𝔳[d] = some w := by
  by_cases h' : Decimal.isSpecial d = true ∨ Decimal.IsZero d = true
  · exact table_some fn d h'
  · have hs : Decimal.Signbit d = true := by
      rcases h with h | h | h
      · exact absurd (Or.inl h) h'
      · exact absurd (Or.inr h) h'
      · exact h
    rcases Sp.view d with ⟨a1, a2, a3, a4, av⟩ | ⟨a1, a2, a3, a4, av⟩ | ⟨a1, a2, a3, a4, a5, ac, av⟩ |
      ⟨a1, a2, a3, a4, a5, ac, ab, av⟩
    · exact absurd (Or.inl a3) h'
    · exact absurd (Or.inl a3) h'
    · exact absurd (Or.inr a4) h'
    · rw [av, hs]
      rcases hf with rfl | rfl | rfl <;>
        exact ⟨_, by simp only [Spec.specialCase, ab, Bool.false_eq_true, if_false, if_true]; rfl⟩

/-- special operand, zero or negative operand of `Log`, `Log2`, `Log10` (every `Globals`): the result is a
    NaN iff the operand is a NaN or negative and non-zero -/
theorem log_family_special_isNaN (fn : Spec.Fn) (hf : IsLogFn fn) (g : Globals) (d : Decimal)
    (h : Decimal.isSpecial d = true ∨ Decimal.IsZero d = true ∨ Decimal.Signbit d = true) :
    ∃ r, Props.C15.impl fn g d = .ok r ∧
      Decimal.IsNaN r = (Decimal.IsNaN d || (Decimal.Signbit d && !Decimal.IsZero d)) := by
  obtain ⟨w, hw⟩ := table_some_log fn hf d h
  obtain ⟨r, hr, hs⟩ := Props.C15.elem_special fn g d w
    (fun hfn => by rcases hf with rfl | rfl | rfl <;> cases hfn) hw
  exact ⟨r, hr, by rw [nan_of_same r w hs, table_log fn hf _ w hw, Enc.interp_isNaN, Enc.interp_neg,
    Enc.interp_isZero]⟩

theorem positive_finite (d : Decimal)
    (h : ¬ (Decimal.isSpecial d = true ∨ Decimal.IsZero d = true ∨ Decimal.Signbit d = true)) :
    Decimal.isSpecial d = false ∧ Decimal.IsZero d = false ∧ Decimal.Signbit d = false := by
  cases h1 : Decimal.isSpecial d <;> cases h2 : Decimal.IsZero d <;> cases h3 : Decimal.Signbit d <;>
    simp_all

/-- **Log**, all bit patterns, every `Globals`, given `LogOk d` and that the call returns (it does for every
    mode byte that does not round toward zero, `Props.C20b.Log_total_modes`): the result is a NaN iff the
    operand is a NaN or negative and non-zero -/
theorem Log_isNaN_partial (g : Globals) (d r : Decimal) (hok : LogOk d) (hr : Gen.Log g d = .ok r) :
    Decimal.IsNaN r = (Decimal.IsNaN d || (Decimal.Signbit d && !Decimal.IsZero d)) := by
  by_cases h : Decimal.isSpecial d = true ∨ Decimal.IsZero d = true ∨ Decimal.Signbit d = true
  · obtain ⟨r', hr', hn⟩ := log_family_special_isNaN .log (Or.inl rfl) g d h
    have e : Gen.Log g d = .ok r' := hr'
    rw [hr] at e; rw [ok_inj e]; exact hn
  · obtain ⟨h1, h2, h3⟩ := positive_finite d h
    rw [Log_fin_not_nan_partial g d r hok h1 h2 h3 hr, (not_nan_of_not_special d h1).1, h3]; rfl

theorem Log2_isNaN_partial (g : Globals) (d r : Decimal) (hok : LogOk d) (hr : Gen.Log2 g d = .ok r) :
    Decimal.IsNaN r = (Decimal.IsNaN d || (Decimal.Signbit d && !Decimal.IsZero d)) := by
  by_cases h : Decimal.isSpecial d = true ∨ Decimal.IsZero d = true ∨ Decimal.Signbit d = true
  · obtain ⟨r', hr', hn⟩ := log_family_special_isNaN .log2 (Or.inr (Or.inl rfl)) g d h
    have e : Gen.Log2 g d = .ok r' := hr'
    rw [hr] at e; rw [ok_inj e]; exact hn
  · obtain ⟨h1, h2, h3⟩ := positive_finite d h
    rw [Log2_fin_not_nan_partial g d r hok h1 h2 h3 hr, (not_nan_of_not_special d h1).1, h3]; rfl

theorem Log10_isNaN_partial (g : Globals) (d r : Decimal) (hok : LogOk d) (hr : Gen.Log10 g d = .ok r) :
    Decimal.IsNaN r = (Decimal.IsNaN d || (Decimal.Signbit d && !Decimal.IsZero d)) := by
  by_cases h : Decimal.isSpecial d = true ∨ Decimal.IsZero d = true ∨ Decimal.Signbit d = true
  · obtain ⟨r', hr', hn⟩ := log_family_special_isNaN .log10 (Or.inr (Or.inr rfl)) g d h
    have e : Gen.Log10 g d = .ok r' := hr'
    rw [hr] at e; rw [ok_inj e]; exact hn
  · obtain ⟨h1, h2, h3⟩ := positive_finite d h
    rw [Log10_fin_not_nan_partial g d r hok h1 h2 h3 hr, (not_nan_of_not_special d h1).1, h3]; rfl

/-! ## Log1p: the operands decided by the table (unconditional) -/

/-- the magnitude of a finite value exceeds one -/
def magGtOne : Spec.Val → Bool
  | .fin _ c e => decide (1 < Spec.mag c e)
  | _ => false

/-- the table of `Log1p`: a NaN exactly for a NaN, for −Inf and for a finite operand below −1 -/
theorem table_log1p (x w : Spec.Val) (h : Spec.specialCase .log1p x = some w) :
    w.isNaN = (x.isNaN || (x.neg && (x.isInf || magGtOne x))) := by
  cases x with
  | nan n p =>
    simp only [Spec.specialCase, Option.some.injEq] at h; subst h; rfl
  | inf n =>
    cases n <;>
      simp only [Spec.specialCase, if_true, Bool.false_eq_true, if_false, Option.some.injEq] at h <;>
      subst h <;> rfl
  | fin n c e =>
    cases c with
    | zero =>
      simp only [Spec.specialCase, beq_self_eq_true, if_true, Option.some.injEq] at h
      subst h
      have : ¬ (1 < Spec.mag 0 e) := by rw [Sp.mag_zero]; norm_num
      cases n <;> simp [Spec.Val.isNaN, Spec.Val.neg, Spec.Val.isInf, magGtOne, this]
    | succ k =>
      have hk : ((k + 1 : Nat) == 0) = false := by simp
      cases n
      · simp [Spec.specialCase, hk] at h
      · simp only [Spec.specialCase, hk, Bool.false_eq_true, if_false, if_true] at h
        split at h
        · rename_i h1
          simp only [Option.some.injEq] at h; subst h
          have : ¬ (1 < Spec.mag (k + 1) e) := by
            have : Spec.mag (k + 1) e = 1 := by simpa using h1
            rw [this]; norm_num
          simp [Spec.Val.isNaN, Spec.Val.neg, Spec.Val.isInf, magGtOne, this]
        · split at h
          · rename_i h2
            simp only [Option.some.injEq] at h; subst h
            have : 1 < Spec.mag (k + 1) e := by simpa using h2
            simp [Spec.Val.isNaN, Spec.Val.neg, Spec.Val.isInf, magGtOne, this, Spec.invalid1, Spec.invalid]
          · cases h

/-- `Log1p` on every operand the table decides (NaN, ±Inf, ±0, a negative operand ≤ −1), every `Globals` -/
theorem Log1p_special_isNaN (g : Globals) (d : Decimal) (w : Spec.Val)
    (h : Spec.specialCase .log1p 𝔳[d] = some w) :
    ∃ r, Gen.Log1p g d = .ok r ∧ Decimal.IsNaN r = w.isNaN := by
  obtain ⟨r, hr, hs⟩ := Props.C15.log1p_special g d w h
  exact ⟨r, hr, nan_of_same r w hs⟩

end NN
