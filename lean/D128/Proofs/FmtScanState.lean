/-
  D128/Proofs/FmtScanState.lean — the value model of `fmt.ScanState` (`D128/Go/Fmt.lean`) seen as a
  WINDOW of runes: what successive `ReadRune` calls deliver, and how `ReadRune`, `UnreadRune`,
  `SkipSpace` and `Token` move along it.  Model-only (no generated code here); used by
  `FmtScanMain.lean` for `Gen.Decimal.Scan`.

  * `FmtScan.window s`      the runes `ReadRune` will deliver from `s` on: the input from `pos`, cut by the
                            width (`wid − used` runes), by the first newline (inclusive) in `Scanln` mode,
                            empty once `atEOF`
  * `FmtScan.step`, `FmtScan.advance`, `FmtScan.stop`, `FmtScan.settle`, `FmtScan.endErr`
                            the state after a delivered rune / a run of runes / a failed read / an unread;
                            the error of a failed read (`io.EOF`, or the reader's own error when `broken`)
  * `readRune_cons`, `readRune_nil`, `unread_step`, `window_step`, `window_advance`, `window_settle`,
    `window_stop`
  * `spaceLike`, `skipLoop_spec`, `skipCore_spec`, `SkipSpace_spec` : `SkipSpace` consumes the maximal run of
    space runes (a newline counts iff `nlIsSpace`); it panics (`scanError`) exactly when that run is followed
    by a newline, or by the end of the window with a broken reader
  * `tokenLoop_spec`, `Token_spec` : `Token(false, p)` consumes the maximal run of runes satisfying `p`
  * `utf8_ascii` : the encoding of a rune below 128 is the one byte
-/
import D128.Go.Fmt
set_option autoImplicit false

namespace FmtScan
open Go Go.ScanState

/-! ## the window -/

/-- up to and including the first newline -/
def cutNl : List Int32 → List Int32
  | [] => []
  | r :: t => if r == 10 then [r] else r :: cutNl t

/-- the first `n` elements if a limit is given -/
def capW : Option Nat → List Int32 → List Int32
  | some n, l => l.take n
  | none, l => l

/-- how many runes the width still admits -/
def room (s : ScanState) : Option Nat := s.wid.map fun w => (w.toInt - s.used).toNat

/-- the runes successive `ReadRune` calls deliver -/
def window (s : ScanState) : List Int32 :=
  if s.atEOF then []
  else if s.nlIsEnd then cutNl (capW (room s) (s.input.toList.drop s.pos))
  else capW (room s) (s.input.toList.drop s.pos)

/-- the state after `ReadRune` delivered `r` -/
def step (s : ScanState) (r : Int32) : ScanState :=
  { s with pos := s.pos + 1, used := s.used + 1, atEOF := s.nlIsEnd && r == 10, canUnread := true }

/-- the state after the runes `l` were delivered one by one -/
def advance (s : ScanState) (l : List Int32) : ScanState := l.foldl step s

/-- the error of a `ReadRune` that delivers nothing -/
def endErr (s : ScanState) : Err :=
  if s.atEOF || s.widthSpent then .ioEOF else if s.broken then .errorsNew else .ioEOF

/-- the state after a `ReadRune` that delivered nothing -/
def stop (s : ScanState) : ScanState :=
  if s.atEOF || s.widthSpent then { s with canUnread := false }
  else if s.broken then { s with canUnread := false }
  else { s with atEOF := true, canUnread := false }

/-- the state after `UnreadRune` has put back the rune just read: `s` itself, `canUnread` cleared -/
def settle (s : ScanState) : ScanState := { s with canUnread := false }

theorem cutNl_ne_nil {l : List Int32} (h : l ≠ []) : cutNl l ≠ [] := by
  cases l with
  | nil => exact absurd rfl h
  | cons r t => unfold cutNl; split <;> simp

theorem widthSpent_iff (s : ScanState) : s.widthSpent = true ↔ room s = some 0 := by
  unfold widthSpent room
  cases s.wid with
  | none => simp
  | some w => simp only [decide_eq_true_eq, Option.map_some, Option.some.injEq]; omega

theorem capW_cons_pos (o : Option Nat) (r : Int32) (t : List Int32) (h : o ≠ some 0) :
    capW o (r :: t) = r :: capW (o.map (· - 1)) t := by
  cases o with
  | none => rfl
  | some n =>
    cases n with
    | zero => exact absurd rfl h
    | succ n => rfl

theorem room_step (s : ScanState) (r : Int32) : room (step s r) = (room s).map (· - 1) := by
  unfold room step
  cases s.wid with
  | none => rfl
  | some w => simp only [Option.map_some, Option.some.injEq]; omega

/-- what `window s = r :: t` says about the fields -/
theorem window_cons {s : ScanState} {r : Int32} {t : List Int32} (h : window s = r :: t) :
    s.atEOF = false ∧ s.widthSpent = false ∧ ∃ hp : s.pos < s.input.size, s.input[s.pos] = r := by
  unfold window at h
  by_cases ha : s.atEOF = true
  · rw [if_pos ha] at h; exact absurd h (by simp)
  rw [if_neg ha] at h
  have ha' : s.atEOF = false := by simpa using ha
  have hw : s.widthSpent = false := by
    cases hws : s.widthSpent with
    | false => rfl
    | true =>
      exfalso
      rw [(widthSpent_iff s).mp hws] at h
      simp [capW, cutNl] at h
  have hp : s.pos < s.input.size := by
    apply Classical.byContradiction
    intro hp
    rw [List.drop_eq_nil_of_le (by simpa using Nat.le_of_not_lt hp)] at h
    cases hr : room s <;> simp [hr, capW, cutNl] at h
  refine ⟨ha', hw, hp, ?_⟩
  have hd : s.input.toList.drop s.pos = s.input[s.pos] :: s.input.toList.drop (s.pos + 1) := by
    rw [List.drop_eq_getElem_cons (by simpa using hp)]; simp
  have hr0 : room s ≠ some 0 := fun e => by
    rw [(widthSpent_iff s).mpr e] at hw; cases hw
  rw [hd, capW_cons_pos _ _ _ hr0] at h
  split at h
  · unfold cutNl at h
    split at h <;> injection h
  · injection h

/-- the window after a delivered rune is the tail -/
theorem window_step {s : ScanState} {r : Int32} {t : List Int32} (h : window s = r :: t) :
    window (step s r) = t := by
  obtain ⟨ha, hw, hp, hr⟩ := window_cons h
  have hd : s.input.toList.drop s.pos = r :: s.input.toList.drop (s.pos + 1) := by
    rw [List.drop_eq_getElem_cons (by simpa using hp)]; simp [hr]
  have hr0 : room s ≠ some 0 := fun e => by
    rw [(widthSpent_iff s).mpr e] at hw; cases hw
  unfold window at h ⊢
  rw [if_neg (by simp [ha]), hd, capW_cons_pos _ _ _ hr0] at h
  rw [room_step]
  show (if (s.nlIsEnd && r == 10) = true then [] else
    if s.nlIsEnd = true then cutNl (capW ((room s).map (· - 1)) (s.input.toList.drop (s.pos + 1)))
    else capW ((room s).map (· - 1)) (s.input.toList.drop (s.pos + 1))) = t
  cases hn : s.nlIsEnd with
  | false =>
    rw [hn] at h
    simp only [Bool.false_and, Bool.false_eq_true, if_false] at h ⊢
    injection h
  | true =>
    rw [hn] at h
    simp only [if_true, Bool.true_and] at h ⊢
    unfold cutNl at h
    by_cases h10 : (r == 10) = true
    · rw [if_pos h10] at h ⊢
      injection h
    · rw [if_neg h10] at h ⊢
      injection h

/-- `ReadRune` on a non-empty window -/
theorem readRune_cons {s : ScanState} {r : Int32} {t : List Int32} (h : window s = r :: t) :
    s.ReadRune = (step s r, r, Go.len (utf8Encode r), .nil) := by
  obtain ⟨ha, hw, hp, hr⟩ := window_cons h
  unfold ReadRune
  rw [if_neg (by simp [ha, hw]), dif_pos hp]
  simp only [hr]
  rfl

/-- `ReadRune` on an empty window -/
theorem readRune_nil {s : ScanState} (h : window s = []) :
    s.ReadRune = (stop s, 0, 0, endErr s) := by
  unfold ReadRune stop endErr
  by_cases h1 : (s.atEOF || s.widthSpent) = true
  · rw [if_pos h1, if_pos h1, if_pos h1]
  · rw [if_neg h1, if_neg h1, if_neg h1]
    have ha : s.atEOF = false := by
      cases hh : s.atEOF <;> simp [hh] at h1 ⊢
    have hw : s.widthSpent = false := by
      cases hh : s.widthSpent <;> simp [hh] at h1 ⊢
    have hp : ¬ s.pos < s.input.size := by
      intro hp
      have hd : s.input.toList.drop s.pos = s.input[s.pos] :: s.input.toList.drop (s.pos + 1) := by
        rw [List.drop_eq_getElem_cons (by simpa using hp)]; simp
      have hr0 : room s ≠ some 0 := fun e => by
        rw [(widthSpent_iff s).mpr e] at hw; cases hw
      unfold window at h
      rw [if_neg (by simp [ha]), hd, capW_cons_pos _ _ _ hr0] at h
      split at h
      · exact cutNl_ne_nil (by simp) h
      · cases h
    rw [dif_neg hp]
    by_cases hb : s.broken = true
    · rw [if_pos hb, if_pos hb, if_pos hb]
    · rw [if_neg hb, if_neg hb, if_neg hb]

theorem endErr_cases (s : ScanState) : endErr s = .ioEOF ∨ (endErr s = .errorsNew ∧ s.broken = true) := by
  unfold endErr
  split
  · exact Or.inl rfl
  · split
    · rename_i hb; exact Or.inr ⟨rfl, hb⟩
    · exact Or.inl rfl

theorem endErr_of_not_broken (s : ScanState) (h : s.broken = false) : endErr s = .ioEOF := by
  rcases endErr_cases s with h' | ⟨_, h'⟩
  · exact h'
  · rw [h] at h'; cases h'

/-- putting back the rune just read restores the state (with `canUnread` cleared) -/
theorem unread_step {s : ScanState} {r : Int32} {t : List Int32} (h : window s = r :: t) :
    (step s r).UnreadRune = .ok (settle s, .nil) := by
  obtain ⟨ha, _, _, _⟩ := window_cons h
  unfold UnreadRune step settle
  simp only [if_true]
  simp only [Nat.add_sub_cancel, Int.add_sub_cancel, ← ha]
  rfl

@[simp] theorem window_settle (s : ScanState) : window (settle s) = window s := rfl

theorem window_stop {s : ScanState} (h : window s = []) : window (stop s) = [] := by
  unfold stop
  split
  · exact h
  · split
    · exact h
    · unfold window; simp

@[simp] theorem stop_settle (s : ScanState) : stop (settle s) = stop s := by
  unfold stop settle widthSpent; rfl

@[simp] theorem step_settle (s : ScanState) (r : Int32) : step (settle s) r = step s r := rfl

@[simp] theorem settle_settle (s : ScanState) : settle (settle s) = settle s := rfl

@[simp] theorem endErr_settle (s : ScanState) : endErr (settle s) = endErr s := by
  unfold endErr settle widthSpent; rfl

theorem advance_nil (s : ScanState) : advance s [] = s := rfl
theorem advance_cons (s : ScanState) (r : Int32) (l : List Int32) :
    advance s (r :: l) = advance (step s r) l := rfl
theorem advance_append (s : ScanState) (a b : List Int32) :
    advance s (a ++ b) = advance (advance s a) b := by
  unfold advance; rw [List.foldl_append]

theorem advance_settle_cons (s : ScanState) (r : Int32) (l : List Int32) :
    advance (settle s) (r :: l) = advance s (r :: l) := rfl

/-- the window after a run of delivered runes -/
theorem window_advance (a : List Int32) : ∀ {s : ScanState} {b : List Int32}, window s = a ++ b →
    window (advance s a) = b := by
  induction a with
  | nil => intro s b h; exact h
  | cons r a ih =>
    intro s b h
    rw [advance_cons]
    exact ih (window_step h)

/-! the fields a delivered rune does not touch -/

@[simp] theorem step_input (s : ScanState) (r : Int32) : (step s r).input = s.input := rfl
@[simp] theorem step_wid (s : ScanState) (r : Int32) : (step s r).wid = s.wid := rfl
@[simp] theorem step_nlIsSpace (s : ScanState) (r : Int32) : (step s r).nlIsSpace = s.nlIsSpace := rfl
@[simp] theorem step_nlIsEnd (s : ScanState) (r : Int32) : (step s r).nlIsEnd = s.nlIsEnd := rfl
@[simp] theorem step_broken (s : ScanState) (r : Int32) : (step s r).broken = s.broken := rfl
@[simp] theorem step_pos (s : ScanState) (r : Int32) : (step s r).pos = s.pos + 1 := rfl
@[simp] theorem step_used (s : ScanState) (r : Int32) : (step s r).used = s.used + 1 := rfl

theorem advance_fields (l : List Int32) : ∀ (s : ScanState),
    (advance s l).input = s.input ∧ (advance s l).wid = s.wid ∧
      (advance s l).nlIsSpace = s.nlIsSpace ∧ (advance s l).nlIsEnd = s.nlIsEnd ∧
      (advance s l).broken = s.broken ∧ (advance s l).pos = s.pos + l.length ∧
      (advance s l).used = s.used + l.length := by
  induction l with
  | nil => intro s; simp [advance_nil]
  | cons r l ih =>
    intro s
    rw [advance_cons]
    obtain ⟨h1, h2, h3, h4, h5, h6, h7⟩ := ih (step s r)
    refine ⟨h1, h2, h3, h4, h5, ?_, ?_⟩
    · rw [h6, step_pos, List.length_cons]; omega
    · rw [h7, step_used, List.length_cons]; push_cast; omega

/-- the window never extends beyond the input -/
theorem window_length_le (s : ScanState) : (window s).length ≤ s.input.size - s.pos := by
  have hcut : ∀ l : List Int32, (cutNl l).length ≤ l.length := by
    intro l
    induction l with
    | nil => simp [cutNl]
    | cons r t ih => unfold cutNl; split <;> simp <;> omega
  have hcap : ∀ (o : Option Nat) (l : List Int32), (capW o l).length ≤ l.length := by
    intro o l; cases o <;> simp [capW, List.length_take]; omega
  unfold window
  have h1 := hcap (room s) (s.input.toList.drop s.pos)
  have h2 : (s.input.toList.drop s.pos).length = s.input.size - s.pos := by simp
  have h3 := hcut (capW (room s) (s.input.toList.drop s.pos))
  split
  · simp
  · split <;> omega

/-! ## `SkipSpace` -/

/-- the runes `SkipSpace` consumes: Unicode White_Space, a newline only if newlines count as space -/
def spaceLike (s : ScanState) (r : Int32) : Bool := isSpace r && (r != 10 || s.nlIsSpace)

theorem spaceLike_step (s : ScanState) (r : Int32) : spaceLike (step s r) = spaceLike s := rfl

/-- the record update by which `SkipSpace` and `Token` put a rune back -/
def putBack (s1 : ScanState) : ScanState :=
  { s1 with pos := s1.pos - 1, used := s1.used - 1, atEOF := false, canUnread := false }

theorem settle_of_step {s : ScanState} {r : Int32} {t : List Int32} (h : window s = r :: t) :
    putBack (step s r) = settle s := by
  obtain ⟨ha, _, _, _⟩ := window_cons h
  unfold step settle putBack
  simp only [Nat.add_sub_cancel, Int.add_sub_cancel, ← ha]

/-- the outcome of the loop of `SkipSpace`, in window terms -/
def skipOutcome (s : ScanState) : ScanState × Option Err :=
  let tw := (window s).takeWhile (spaceLike s)
  match (window s).dropWhile (spaceLike s) with
  | [] => (stop (advance s tw), if endErr (advance s tw) = .ioEOF then none else some (endErr (advance s tw)))
  | r :: _ => if r == 10 then (step (advance s tw) r, some .errorsNew) else (settle (advance s tw), none)

theorem skipOutcome_nil {s : ScanState} (h : window s = []) :
    skipOutcome s = (stop s, if endErr s = .ioEOF then none else some (endErr s)) := by
  unfold skipOutcome; rw [h]; rfl

theorem skipOutcome_cons_space {s : ScanState} {r : Int32} {t : List Int32} (h : window s = r :: t)
    (hr : spaceLike s r = true) : skipOutcome s = skipOutcome (step s r) := by
  unfold skipOutcome
  rw [h, window_step h, spaceLike_step, List.takeWhile_cons_of_pos hr, List.dropWhile_cons_of_pos hr]
  rfl

theorem skipOutcome_cons_stop {s : ScanState} {r : Int32} {t : List Int32} (h : window s = r :: t)
    (hr : spaceLike s r = false) :
    skipOutcome s = if r == 10 then (step s r, some .errorsNew) else (settle s, none) := by
  unfold skipOutcome
  rw [h, List.takeWhile_cons_of_neg (by simp [hr]), List.dropWhile_cons_of_neg (by simp [hr])]
  rfl

theorem isSpace_nl : isSpace 10 = true := by decide

theorem skipLoop_spec : ∀ (fuel : Nat) (s : ScanState), (window s).length < fuel →
    skipLoop fuel s = skipOutcome s := by
  intro fuel
  induction fuel with
  | zero => intro s h; omega
  | succ fuel ih =>
    intro s hlen
    cases hw : window s with
    | nil =>
      rw [skipOutcome_nil hw]
      unfold skipLoop
      rw [readRune_nil hw]
      rcases endErr_cases s with he | ⟨he, _⟩ <;> simp [he]
    | cons r t =>
      have hlen' : (window (step s r)).length < fuel := by
        rw [window_step hw]; rw [hw] at hlen; simp at hlen; omega
      unfold skipLoop
      rw [readRune_cons hw]
      simp only [show (Err.nil == Err.ioEOF) = false from rfl, show (Err.nil != Err.nil) = false from rfl,
        Bool.false_eq_true, if_false]
      by_cases h10 : (r == 10) = true
      · rw [if_pos h10]
        have hr10 : r = 10 := by simpa using h10
        by_cases hn : s.nlIsSpace = true
        · rw [step_nlIsSpace, if_pos hn, ih _ hlen']
          exact (skipOutcome_cons_space hw (by simp [spaceLike, hr10, hn, isSpace_nl])).symm
        · rw [step_nlIsSpace, if_neg hn,
            skipOutcome_cons_stop hw (by simp [spaceLike, hr10, hn]), if_pos h10]
      · rw [if_neg h10]
        have hne : (r != 10) = true := by simpa using h10
        by_cases hs : isSpace r = true
        · rw [if_pos hs, ih _ hlen']
          exact (skipOutcome_cons_space hw (by simp [spaceLike, hs, hne])).symm
        · rw [if_neg hs, skipOutcome_cons_stop hw (by simp [spaceLike, hs]), if_neg h10,
            ← settle_of_step hw]
          rfl

theorem skipCore_spec (s : ScanState) : s.skipCore = skipOutcome s := by
  unfold skipCore
  exact skipLoop_spec _ s (by have := window_length_le s; omega)

/-- the runes left after the leading space -/
def afterSpace (s : ScanState) : List Int32 := (window s).dropWhile (spaceLike s)

/-- the leading space -/
def leadSpace (s : ScanState) : List Int32 := (window s).takeWhile (spaceLike s)

theorem window_lead (s : ScanState) : window s = leadSpace s ++ afterSpace s :=
  (List.takeWhile_append_dropWhile).symm

/-- the state `SkipSpace` leaves when it returns -/
def skipped (s : ScanState) : ScanState :=
  match afterSpace s with
  | [] => stop (advance s (leadSpace s))
  | _ :: _ => settle (advance s (leadSpace s))

/-- **`SkipSpace`**: consumes the maximal run of space runes of the window (a newline counts iff
`nlIsSpace`).  It panics with the `scanError` that package fmt recovers EXACTLY when that run is followed
by a newline (which is then not space: `Sscanln`, `Sscanf`), or by the end of the window where the reader
reports an error of its own (`broken`). -/
theorem SkipSpace_spec (s : ScanState) :
    s.SkipSpace =
      if afterSpace s = [] ∧ endErr (advance s (leadSpace s)) = .errorsNew ∨
          (afterSpace s).head? = some 10 then
        .error (scanError "fmt: unexpected newline or read error in SkipSpace")
      else .ok (skipped s) := by
  unfold SkipSpace
  rw [skipCore_spec]
  unfold skipOutcome skipped afterSpace leadSpace
  cases hd : (window s).dropWhile (spaceLike s) with
  | nil =>
    simp only [List.head?_nil, reduceCtorEq, or_false, true_and]
    rcases endErr_cases (advance s ((window s).takeWhile (spaceLike s))) with he | ⟨he, _⟩
    · rw [he]; simp; rfl
    · rw [he]; simp; rfl
  | cons r t =>
    simp only [List.head?_cons, Option.some.injEq, reduceCtorEq, false_and, false_or]
    by_cases h10 : r = 10
    · subst h10; simp; rfl
    · rw [if_neg (by simpa using h10), if_neg h10]; rfl

theorem window_skipped (s : ScanState) : window (skipped s) = afterSpace s := by
  have h := window_advance (leadSpace s) (window_lead s)
  unfold skipped
  cases hd : afterSpace s with
  | nil => rw [hd] at h; exact window_stop h
  | cons r t => rw [hd] at h; exact h

theorem dropWhile_head (p : Int32 → Bool) : ∀ (l : List Int32) (r : Int32) (t : List Int32),
    l.dropWhile p = r :: t → p r = false := by
  intro l
  induction l with
  | nil => intro r t h; cases h
  | cons x l ih =>
    intro r t h
    by_cases hx : p x = true
    · rw [List.dropWhile_cons_of_pos hx] at h; exact ih r t h
    · rw [List.dropWhile_cons_of_neg hx] at h
      injection h with h1 _
      subst h1; simpa using hx

/-- the first rune after the leading space is not space (in the mode of the state) -/
theorem afterSpace_head (s : ScanState) (r : Int32) (t : List Int32) (h : afterSpace s = r :: t) :
    spaceLike s r = false := by
  exact dropWhile_head _ _ _ _ h

/-! ## `Token` -/

/-- the UTF-8 bytes of a run of runes appended to `acc` -/
def encAcc (acc : Bytes) (l : List Int32) : Bytes := l.foldl (fun a r => a ++ utf8Encode r) acc

/-- the outcome of the loop of `Token`, in window terms -/
def tokenOutcome (f : Int32 → Bool) (s : ScanState) (acc : Bytes) : ScanState × Bytes × Err :=
  let tw := (window s).takeWhile f
  match (window s).dropWhile f with
  | [] => if endErr (advance s tw) = .ioEOF then (stop (advance s tw), encAcc acc tw, .nil)
          else (stop (advance s tw), #[], endErr (advance s tw))
  | _ :: _ => (settle (advance s tw), encAcc acc tw, .nil)

theorem tokenLoop_spec (f : Int32 → Bool) : ∀ (fuel : Nat) (s : ScanState) (acc : Bytes),
    (window s).length < fuel → tokenLoop f fuel s acc = tokenOutcome f s acc := by
  intro fuel
  induction fuel with
  | zero => intro s acc h; omega
  | succ fuel ih =>
    intro s acc hlen
    cases hw : window s with
    | nil =>
      unfold tokenLoop tokenOutcome
      rw [readRune_nil hw, hw]
      simp only [List.takeWhile_nil, List.dropWhile_nil, advance_nil]
      rcases endErr_cases s with he | ⟨he, _⟩ <;> simp [he, encAcc]
    | cons r t =>
      have hlen' : (window (step s r)).length < fuel := by
        rw [window_step hw]; rw [hw] at hlen; simp at hlen; omega
      unfold tokenLoop
      rw [readRune_cons hw]
      simp only [show (Err.nil == Err.ioEOF) = false from rfl, show (Err.nil != Err.nil) = false from rfl,
        Bool.false_eq_true, if_false]
      by_cases hf : f r = true
      · rw [if_pos hf, ih _ _ hlen']
        unfold tokenOutcome
        rw [hw, window_step hw, List.takeWhile_cons_of_pos hf, List.dropWhile_cons_of_pos hf]
        rfl
      · rw [if_neg hf]
        unfold tokenOutcome
        rw [hw, List.takeWhile_cons_of_neg hf, List.dropWhile_cons_of_neg hf]
        show (putBack (step s r), acc, Err.nil) = _
        rw [settle_of_step hw]
        rfl

/-- **`Token(false, f)`** consumes the maximal run of runes of the window satisfying `f` and returns
their UTF-8 encoding; the rune that ends the run is put back.  A read error of the reader at the end of
the window is returned (with a nil token). -/
theorem Token_spec (s : ScanState) (f : Int32 → Bool) : s.Token false f = tokenOutcome f s #[] := by
  unfold Token
  simp only [Bool.false_eq_true, if_false]
  exact tokenLoop_spec f _ s #[] (by have := window_length_le s; omega)

/-! ## ASCII -/

/-- the byte of a rune below 128 -/
def byteOf (r : Int32) : UInt8 := UInt8.ofNat r.toInt.toNat

theorem utf8_ascii (r : Int32) (h0 : 0 ≤ r.toInt) (h1 : r.toInt < 128) : utf8Encode r = #[byteOf r] := by
  unfold utf8Encode byteOf
  simp only
  rw [if_neg (by omega), if_pos (by omega)]

theorem encAcc_ascii (l : List Int32) (h : ∀ r ∈ l, 0 ≤ r.toInt ∧ r.toInt < 128) :
    ∀ acc : Bytes, encAcc acc l = acc ++ (l.map byteOf).toArray := by
  induction l with
  | nil => intro acc; simp [encAcc]
  | cons r l ih =>
    intro acc
    have hr := h r (by simp)
    show encAcc (acc ++ utf8Encode r) l = _
    rw [ih (fun x hx => h x (List.mem_cons_of_mem _ hx)), utf8_ascii r hr.1 hr.2]
    apply Array.ext'
    simp

end FmtScan
