/-
  D128/Proofs/ExpAccHornerM1.lean — Horner head of `decomposed192.epowm1` with size information, and `rcp dinf`.

  * `epowm1Tail neg exp res trunc` : the loop-free tail of `epowm1` after `res·d` (copy of the generated
        statements); `epowm1Tail_def` : the same in readable `if`-form;
        `epowm1K`, `epowm1_eq : epowm1 d neg l10 t = hornerK d l10 t (epowm1K neg) := rfl`
  * `Mq x = x·G x 38` (`R x = 1 + Mq x`: `R_eq_Mq`)
  * `epowm1_head_116` : for `EpowPre d l10`: `epowm1 d neg l10 t = epowm1Tail neg (epowO d l10) m tm` with
        `Mq x·(1-theta)^116 ≤ val m ≤ Mq x`, `tm ∈ {t,1}`, `10^56 ≤ m.sig`, `-16200 ≤ m.exp ≤ -55`
        (count: `1 + 3·38 = 115` truncations in the loop, one for the product)
  * `epowm1_head`     : the same with the weaker `(1-theta)^117` (requested form)
  * `rcp_dinf_range`, `rcp_dinf` : `rcp dinf t = .ok (r, t')` with `32651 ≤ r.exp ≤ 32711`, `0 < r.sig`
-/
import D128.Proofs.ExpAccHornerEpow
set_option autoImplicit false
set_option maxRecDepth 8192
set_option exponentiation.threshold 512
set_option linter.unusedVariables false
open Std.Do D128.Proofs.WordsWide
namespace ExpAcc
open Gen D192

/-- the loop-free tail of `epowm1` after `res·d` (copy of the generated statements) -/
def epowm1Tail (neg : Bool) (exp : Int16) (res : decomposed192) (trunc : Int8) :
    Go.GoM (Bool × decomposed192 × Int8) := do
  let mut res : decomposed192 := res
  let mut trunc : Int8 := trunc
  if (decide (res.exp > (6169 : Int16))) then
    if neg then
      return (true, ({ (default : decomposed192) with sig := (U192.mk (1 : UInt64) (0 : UInt64) (0 : UInt64)), exp := (0 : Int16) } : decomposed192), (0 : Int8))
    return (false, dinf, (0 : Int8))
  if (exp == (0 : Int16)) then
    if neg then
      let (r_11, r_12) ← decomposed192.add1 res trunc
      res := r_11
      trunc := r_12
      let (r_13, r_14) ← decomposed192.rcp res trunc
      res := r_13
      trunc := r_14
      let t_15 ← decomposed192.sub1 res trunc
      return t_15
    return (false, res, trunc)
  let (r_16, r_17) ← decomposed192.add1 res trunc
  res := r_16
  trunc := r_17
  let (r_18, r_19) ← decomposed192.powexp10 res exp trunc
  res := r_18
  trunc := r_19
  if neg then
    let (r_20, r_21) ← decomposed192.rcp res trunc
    res := r_20
    trunc := r_21
  let t_22 ← decomposed192.sub1 res trunc
  return t_22

/-- the part of `epowm1` after the Horner loop: `res·d`, then the tail -/
def epowm1K (neg : Bool) (d res : decomposed192) (trunc : Int8) (exp : Int16) :
    Go.GoM (Bool × decomposed192 × Int8) := do
  let mut res : decomposed192 := res
  let mut trunc : Int8 := trunc
  let (r_9, r_10) ← decomposed192.mul res d trunc
  res := r_9
  trunc := r_10
  epowm1Tail neg exp res trunc

theorem epowm1_eq (d : decomposed192) (neg : Bool) (l10 : Int16) (t : Int8) :
    decomposed192.epowm1 d neg l10 t = hornerK d l10 t (epowm1K neg) := rfl

/-- the tail in a readable form -/
theorem epowm1Tail_def (neg : Bool) (exp : Int16) (res : decomposed192) (trunc : Int8) :
    epowm1Tail neg exp res trunc =
      (if res.exp > 6169 then
        (if neg then pure (true, one, 0) else pure (false, dinf, 0))
      else if exp = 0 then
        (if neg then do
          let a ← decomposed192.add1 res trunc
          let r ← decomposed192.rcp a.1 a.2
          decomposed192.sub1 r.1 r.2
        else pure (false, res, trunc))
      else do
        let a ← decomposed192.add1 res trunc
        let p ← decomposed192.powexp10 a.1 exp a.2
        if neg then do
          let r ← decomposed192.rcp p.1 p.2
          decomposed192.sub1 r.1 r.2
        else decomposed192.sub1 p.1 p.2) := by
  unfold epowm1Tail
  by_cases h1 : res.exp > 6169
  · cases neg <;> (simp [h1]; try rfl)
  · by_cases h2 : exp = 0
    · cases neg <;> simp [h1, h2]
    · cases neg <;> simp [h1, h2]

/-- the polynomial `epowm1` evaluates before the tail: `R x = 1 + Mq x` -/
def Mq (x : ℚ) : ℚ := x * D192.G x 38

theorem R_eq_Mq (x : ℚ) : D192.R x = 1 + Mq x := rfl

/-- Horner head of `epowm1`, sharp count: `1 + 3·38` truncations in the loop and one for the product. -/
theorem epowm1_head_116 (d : Gen.decomposed192) (neg : Bool) (l10 : Int16) (t : Int8)
    (h : D192.EpowPre d l10) :
    ∃ (m : Gen.decomposed192) (tm : Int8),
      Gen.decomposed192.epowm1 d neg l10 t = epowm1Tail neg (D192.epowO d l10) m tm ∧
      Mq (D192.epowX d l10) * (1 - D192.theta) ^ 116 ≤ D192.val m ∧
      D192.val m ≤ Mq (D192.epowX d l10) ∧
      (tm = t ∨ tm = 1) ∧ 10 ^ 56 ≤ m.sig.toNat ∧ m.exp.toInt ≤ -55 ∧ -16200 ≤ m.exp.toInt := by
  obtain ⟨d2, res, tr, ⟨o1, o2, o3, o4, o5, o6, o7, o8, o9, o10⟩, e⟩ :=
    hornerK_eq d l10 t (epowm1K neg) h
  have hx1 : epowX d l10 ≤ 1 := h.2.2.2.2.2.2
  generalize epowX d l10 = x at *
  obtain ⟨m, em, hm⟩ := mul_q3 res d2 tr (by omega) (by omega)
  have hG0 := G_pos x o2 38
  have hG2 := G_le_two x o2.le hx1 38 (le_refl _)
  have hθ := one_sub_theta_pos
  have hres0 : 0 < val res := lt_of_lt_of_le (mul_pos hG0 (pow_pos hθ _)) o6
  have hd0 : 0 < val d2 := by rw [o1]; exact o2
  have hprod : val res * val d2 ≤ 2 := by
    rw [o1]
    calc val res * x ≤ 2 * 1 := mul_le_mul (le_trans o7 hG2) hx1 o2.le (by norm_num)
      _ = 2 := by norm_num
  have hme : m.1.exp.toInt ≤ -55 := by
    rcases mul_small_exp hm hprod with h | h <;> omega
  have hsig : 10 ^ 56 ≤ m.1.sig.toNat := by
    rcases hm.2 with ⟨-, hs⟩ | hs
    · have h1 := sig_pos_of_val_pos res hres0
      rw [hs]
      have h2 : 10 ^ 56 ≤ LIM := by unfold LIM; norm_num
      calc 10 ^ 56 ≤ 1 * LIM := by omega
        _ ≤ res.sig.toNat * d2.sig.toNat := Nat.mul_le_mul h1 o3
    · have : 10 ^ 56 ≤ 2 ^ 192 / 10 := by norm_num
      omega
  obtain ⟨⟨m1, m2, m3, m4, m5, m6⟩, -⟩ := hm
  refine ⟨m.1, m.2, ?_, ?_, ?_, ?_, hsig, hme, by omega⟩
  · rw [epowm1_eq, e]
    have em' : decomposed192.mul res d2 tr = pure m := em
    simp only [epowm1K, em', pure_bind]
  · unfold Mq
    have he : 1 - theta ≤ 1 - eps := by have := eps_le_theta; linarith
    have h2 : G x 38 * (1 - theta) ^ 115 * x ≤ val res * val d2 := by
      rw [o1]; exact mul_le_mul_of_nonneg_right o6 o2.le
    have h3 : 0 ≤ val res * val d2 := (mul_pos hres0 hd0).le
    calc x * G x 38 * (1 - theta) ^ 116 = G x 38 * (1 - theta) ^ 115 * x * (1 - theta) := by ring
      _ ≤ val res * val d2 * (1 - theta) := mul_le_mul_of_nonneg_right h2 hθ.le
      _ ≤ val res * val d2 * (1 - eps) := mul_le_mul_of_nonneg_left he h3
      _ ≤ val m.1 := m2
  · unfold Mq
    calc val m.1 ≤ val res * val d2 := m1
      _ ≤ G x 38 * x := by rw [o1]; exact mul_le_mul_of_nonneg_right o7 o2.le
      _ = x * G x 38 := by ring
  · by_cases hmm : val m.1 = val res * val d2
    · rw [m3 hmm]; exact o8
    · right; exact m4 hmm

/-- Horner head of `epowm1` (the requested form with `(1-theta)^117`; `epowm1_head_116` is sharper). -/
theorem epowm1_head (d : Gen.decomposed192) (neg : Bool) (l10 : Int16) (t : Int8)
    (h : D192.EpowPre d l10) :
    ∃ (m : Gen.decomposed192) (tm : Int8),
      Gen.decomposed192.epowm1 d neg l10 t = epowm1Tail neg (D192.epowO d l10) m tm ∧
      Mq (D192.epowX d l10) * (1 - D192.theta) ^ 117 ≤ D192.val m ∧
      D192.val m ≤ Mq (D192.epowX d l10) ∧
      (tm = t ∨ tm = 1) ∧ 10 ^ 56 ≤ m.sig.toNat ∧ m.exp.toInt ≤ -55 ∧ -16200 ≤ m.exp.toInt := by
  obtain ⟨m, tm, e, h1, h2, h3⟩ := epowm1_head_116 d neg l10 t h
  refine ⟨m, tm, e, le_trans ?_ h1, h2, h3⟩
  have hθ := one_sub_theta_pos
  have hθ1 : 1 - theta ≤ 1 := by have := theta_pos; linarith
  have hM : 0 ≤ Mq (epowX d l10) * (1 - theta) ^ 116 := by
    by_contra hc
    have := val_nonneg m
    have hneg : Mq (epowX d l10) * (1 - theta) ^ 116 < 0 := lt_of_not_ge hc
    have hp : 0 < (1 - theta) ^ 116 := pow_pos hθ _
    have hMq : Mq (epowX d l10) < 0 := by
      by_contra h0
      exact absurd (mul_nonneg (le_of_not_gt h0) hp.le) (not_le.mpr hneg)
    linarith
  calc Mq (epowX d l10) * (1 - theta) ^ 117
      = Mq (epowX d l10) * (1 - theta) ^ 116 * (1 - theta) := by ring
    _ ≤ Mq (epowX d l10) * (1 - theta) ^ 116 * 1 := mul_le_mul_of_nonneg_left hθ1 hM
    _ = Mq (epowX d l10) * (1 - theta) ^ 116 := by ring

example := epowm1_head ⟨⟨9, 0, 0⟩, -1⟩ true 0 0 epowPre_example

/-! ### `rcp dinf` -/

theorem i16_sub_add_toInt' (e0 : Int16) (c tt : Nat) (hc : c ≤ 59) (htt : tt ≤ 1)
    (hlo : 0 ≤ e0.toInt) (hhi : e0.toInt ≤ 32766) :
    (e0 - Int16.ofNat c + Int16.ofNat tt).toInt = e0.toInt - c + tt := by
  have h1 : (Int16.ofNat c).toInt = c := Int16.toInt_ofNat_of_lt (by omega)
  have h2 : (Int16.ofNat tt).toInt = tt := Int16.toInt_ofNat_of_lt (by omega)
  have h3 : (e0 - Int16.ofNat c).toInt = e0.toInt - c := by
    rw [Int16.toInt_sub_of] <;> rw [h1] <;> omega
  rw [Int16.toInt_add_of] <;> rw [h3, h2] <;> omega

/-- `rcp` of the overflow marker `dinf = (2^192-1)·10^32767`: the exponent arithmetic wraps
(`32767 + 2 → -32767`, `-57 - (-32767) = 32710`), the result has a non-zero significand and an exponent in
`[32651, 32711]` (`#eval`: `sig = 1593091911132452277028880397767711805591104555192618786098`,
`exp = 32654`, flag `1`). -/
theorem rcp_dinf_range (t : Int8) :
    ∃ r t', Gen.decomposed192.rcp Gen.dinf t = .ok (r, t') ∧
      32651 ≤ r.exp.toInt ∧ r.exp.toInt ≤ 32711 ∧ 0 < r.sig.toNat := by
  have hsig : dinf.sig.toNat = 2 ^ 192 - 1 := by decide
  have hexp : dinf.exp = 32767 := rfl
  obtain ⟨⟨r, t'⟩, hr, o1, hfin, ⟨htr, hoL⟩, ho1⟩ := rcp_ok dinf t (by rw [hsig]; norm_num)
  obtain ⟨b, hb, hos, hoexp, hot, hob⟩ := htr.bounds (U192.toNat_lt _)
  rw [hsig] at hos
  rw [hexp] at hoexp
  have hb2 : b = 2 := by
    rcases Nat.lt_or_ge b 2 with hlt | hge
    · exfalso
      have h10 : 10 ^ b ≤ 10 ^ 1 := Nat.pow_le_pow_right (by norm_num) (by omega)
      have : (2 ^ 192 - 1) / 10 ^ 1 ≤ (2 ^ 192 - 1) / 10 ^ b := Nat.div_le_div_left h10 (by positivity)
      rw [hos] at hoL
      unfold OLIM lim at hoL
      norm_num at this hoL
      omega
    · omega
  subst hb2
  have he0 : (-57 - o1.1.exp) = 32710 := by rw [hoexp]; decide
  rw [he0] at hfin
  have hOn : o1.1.sig.toNat = (2 ^ 192 - 1) / 10 ^ 2 := hos
  obtain ⟨c, tt, htt, hs, he, -, -, -, h1⟩ := hfin
  have hOnpos : 0 < o1.1.sig.toNat := Nat.pos_of_ne_zero ho1
  have hZ : 0 < o1.1.sig.toNat * 10 ^ tt := Nat.mul_pos hOnpos (Nat.pow_pos (by norm_num))
  rw [Nat.div_div_eq_div_mul] at hs
  have hc : c ≤ 59 := by
    by_contra hcc
    have h60 : 10 ^ 60 ≤ 10 ^ c := Nat.pow_le_pow_right (by norm_num) (by omega)
    have hsl := U192.toNat_lt r.sig
    rw [hs, Nat.div_lt_iff_lt_mul hZ] at hsl
    have h10 : 10 ^ tt ≤ 10 := by
      calc 10 ^ tt ≤ 10 ^ 1 := Nat.pow_le_pow_right (by norm_num) htt
        _ = 10 := by norm_num
    have hOnlt := U192.toNat_lt o1.1.sig
    have hZ' : o1.1.sig.toNat * 10 ^ tt ≤ 2 ^ 192 * 10 := Nat.mul_le_mul hOnlt.le h10
    have h2 : 10 ^ 57 * 10 ^ 60 ≤ 10 ^ 57 * 10 ^ c := Nat.mul_le_mul_left _ h60
    have h3 : 2 ^ 192 * (o1.1.sig.toNat * 10 ^ tt) ≤ 2 ^ 192 * (2 ^ 192 * 10) :=
      Nat.mul_le_mul_left _ hZ'
    omega
  have h32710 : (32710 : Int16).toInt = 32710 := by decide
  have hexpr : r.exp.toInt = 32710 - c + tt := by
    have := i16_sub_add_toInt' 32710 c tt hc htt (by rw [h32710]; omega) (by rw [h32710]; omega)
    rw [h32710] at this
    rw [← this]
    exact congrArg Int16.toInt he
  exact ⟨r, t', hr, by omega, by omega, h1⟩

theorem rcp_dinf (t : Int8) :
    ∃ r t', Gen.decomposed192.rcp Gen.dinf t = .ok (r, t') ∧ 6169 < r.exp.toInt ∧ 0 < r.sig.toNat := by
  obtain ⟨r, t', e, h1, h2, h3⟩ := rcp_dinf_range t
  exact ⟨r, t', e, by omega, h3⟩


end ExpAcc
