/-
  D128/Proofs/PowLadderParity.lean — property C18: the parity test of `PowWithMode` is right for every
  integer-valued y of any encoding, and the rungs x = ±0, x = ±Inf (finite y) and "x < 0, y not an
  integer" on both sides (generated code / `Spec.powSpecial`).

  Provided (namespace `PowPf`):
  * `isIntQ`, `oddIntQ`      : a rational is an integer / an odd integer
  * `exists_strip`           : every c ≠ 0 is s·10^j with s % 10 ≠ 0
  * `mag_strip`              : `mag (s·10^j) e = s·10^(e+j)`
  * `isIntQ_strip`, `oddIntQ_strip` : for s % 10 ≠ 0: s·10^t is an integer iff 0 ≤ t, odd iff t = 0 ∧ s odd
  * `intParity_math`         : `Spec.intParity c e` decides exactly "c·10^e is an integer" and its parity
                               (0 < c < 10^41, in particular every Decimal coefficient)
  * `signOf_eq`              : the sign computed by the code from the stripped y is
                               `xneg ∧ (intParity (cf o) (ex o) = some true)`, i.e. `xneg ∧ y odd integer`
  * `stripped_exp_neg_iff`   : the stripped exponent of y is below the bias iff y is not an integer
  * `psFin_zero`, `psFin_inf`, `psFin_negnan` : the three rungs of the specification
  * `case_xzero`, `case_xinf`, `case_negnan`  : the three rungs on both sides
-/
import D128.Proofs.PowLadderBase
import Mathlib.Data.Rat.Lemmas

set_option autoImplicit false
set_option maxRecDepth 8192
set_option linter.unusedVariables false
set_option linter.unusedSimpArgs false

namespace PowPf
open Gen Sp Spec
local notation "𝔳[" d "]" => Spec.interp (Gen.Decimal.lo d) (Gen.Decimal.hi d)

/-- q is an integer -/
def isIntQ (q : Rat) : Bool := q.den == 1
/-- q is an odd integer -/
def oddIntQ (q : Rat) : Bool := q.den == 1 && q.num % 2 == 1

theorem exists_strip (c : Nat) (hc : c ≠ 0) : ∃ s j, c = s * 10 ^ j ∧ s % 10 ≠ 0 := by
  induction c using Nat.strongRecOn with
  | _ c ih =>
    by_cases h : c % 10 = 0
    · obtain ⟨s, j, hs, hm⟩ := ih (c / 10) (by omega) (by omega)
      refine ⟨s, j + 1, ?_, hm⟩
      rw [pow_succ, ← mul_assoc, ← hs]; omega
    · exact ⟨c, 0, by simp, h⟩

theorem mag_strip (s j : Nat) (e : Int) :
    Spec.mag (s * 10 ^ j) e = (s : Rat) * (10 : Rat) ^ (e + j) := by
  unfold Spec.mag
  rw [SpecRound.pow10_eq_zpow, zpow_add₀ (by norm_num : (10 : Rat) ≠ 0), zpow_natCast]
  push_cast; ring

theorem natCast_den (n : Nat) : ((n : Nat) : Rat).den = 1 := by
  simp

theorem strip_nat (s : Nat) (t : Int) (ht : 0 ≤ t) :
    (s : Rat) * (10 : Rat) ^ t = ((s * 10 ^ t.toNat : Nat) : Rat) := by
  have : t = (t.toNat : Int) := (Int.toNat_of_nonneg ht).symm
  conv_lhs => rw [this, zpow_natCast]
  push_cast; rfl

theorem isIntQ_strip (s : Nat) (t : Int) (hs : s % 10 ≠ 0) :
    isIntQ ((s : Rat) * (10 : Rat) ^ t) = decide (0 ≤ t) := by
  unfold isIntQ
  by_cases ht : 0 ≤ t
  · rw [strip_nat s t ht]; simp only [Rat.den_natCast, beq_self_eq_true, ht, decide_true]
  · simp only [ht, decide_false, beq_eq_false_iff_ne, ne_eq]
    intro hden
    have hq := (Rat.den_eq_one_iff _).1 hden
    generalize ((s : Rat) * (10 : Rat) ^ t).num = z at hq
    have hn : t = -((-t).toNat : Int) := by omega
    have hpos : 1 ≤ (-t).toNat := by omega
    generalize (-t).toNat = n at *
    rw [hn, zpow_neg, zpow_natCast] at hq
    have hp : ((10 : Rat) ^ n) ≠ 0 := by positivity
    have h2 : (z : Rat) * (10 : Rat) ^ n = (s : Rat) := by
      rw [hq]; field_simp
    have h3 : z * (10 : Int) ^ n = (s : Int) := by exact_mod_cast h2
    have h4 : (10 : Int) ∣ (s : Int) := by
      rw [← h3]
      exact Dvd.dvd.mul_left (dvd_pow_self 10 (by omega)) z
    omega

theorem oddIntQ_strip (s : Nat) (t : Int) (hs : s % 10 ≠ 0) :
    oddIntQ ((s : Rat) * (10 : Rat) ^ t) = (decide (t = 0) && decide (s % 2 = 1)) := by
  have h1 := isIntQ_strip s t hs
  unfold isIntQ at h1
  unfold oddIntQ
  rw [h1]
  by_cases ht : 0 ≤ t
  · rw [strip_nat s t ht]
    simp only [ht, decide_true, Bool.true_and, Rat.num_natCast]
    by_cases h0 : t = 0
    · subst h0
      simp only [Int.toNat_zero, pow_zero, mul_one, decide_true, Bool.true_and]
      rw [Bool.eq_iff_iff, beq_iff_eq, decide_eq_true_eq]; omega
    · have hev := even_mul_pow s t.toNat (by omega)
      simp only [h0, decide_false, Bool.false_and, beq_eq_false_iff_ne, ne_eq]
      omega
  · have h0 : ¬ t = 0 := by omega
    simp [ht, h0]

/-- `Spec.intParity` decides "c·10^e is an integer" and, if so, whether it is odd -/
theorem intParity_math (c : Nat) (e : Int) (hc0 : c ≠ 0) (hc : c < 10 ^ 41) :
    intParity c e = if isIntQ (Spec.mag c e) = true then some (oddIntQ (Spec.mag c e)) else none := by
  obtain ⟨s, j, rfl, hs⟩ := exists_strip c hc0
  have hs0 : 1 ≤ s := by
    rcases Nat.eq_zero_or_pos s with h | h
    · subst h; simp at hs
    · exact h
  have hj : j ≤ 40 := by
    by_contra hcon
    have h1 : 10 ^ 41 ≤ 10 ^ j := Nat.pow_le_pow_right (by norm_num) (by omega)
    have h2 : 1 * 10 ^ j ≤ s * 10 ^ j := Nat.mul_le_mul_right _ hs0
    omega
  rw [intParity_strip s j e hs hj, mag_strip, isIntQ_strip _ _ hs, oddIntQ_strip _ _ hs]
  by_cases h : e + (j : Int) < 0
  · have : ¬ 0 ≤ e + (j : Int) := by omega
    simp [h, this]
  · have : 0 ≤ e + (j : Int) := by omega
    simp [h, this]

theorem Cmax_lt_41 : Spec.Cmax < 10 ^ 41 := by
  have := pow39; omega

/-- the executable parity is the mathematical one: `intParity … = some true` iff y is an odd integer -/
theorem intParity_odd (c : Nat) (e : Int) (hc0 : c ≠ 0) (hc : c ≤ Spec.Cmax) :
    (intParity c e == some true) = oddIntQ (Spec.mag c e) := by
  rw [intParity_math c e hc0 (lt_of_le_of_lt hc Cmax_lt_41)]
  unfold isIntQ oddIntQ
  cases h : ((Spec.mag c e).den == 1)
  · simp
  · simp only [if_true, Bool.true_and]
    cases ((Spec.mag c e).num % 2 == 1) <;> rfl

/-- … and `intParity … = none` iff y is not an integer -/
theorem intParity_isNone (c : Nat) (e : Int) (hc0 : c ≠ 0) (hc : c ≤ Spec.Cmax) :
    (intParity c e).isNone = !isIntQ (Spec.mag c e) := by
  rw [intParity_math c e hc0 (lt_of_le_of_lt hc Cmax_lt_41)]
  cases isIntQ (Spec.mag c e) <;> rfl

/-! ## the code's sign is the specification's sign -/

theorem stripped_exp (o : Decimal) (s : U128 × Int16) (j : Nat) (hs : Stripped o s j) :
    s.2.toInt - 6176 = ex o + j := by
  have := hs.2.2.1
  show s.2.toInt - 6176 = (Decimal.decompose o).2.toInt - 6176 + j
  omega

theorem intParity_stripped (o : Decimal) (s : U128 × Int16) (j : Nat) (hs : Stripped o s j) :
    intParity (cf o) (ex o) =
      if s.2.toInt < 6176 then none
      else some (decide (s.2.toInt = 6176) && decide (s.1.toNat % 2 = 1)) := by
  have he := stripped_exp o s j hs
  obtain ⟨-, hc, -, hm, hj⟩ := hs
  rw [hc, intParity_strip _ _ _ hm (by omega)]
  by_cases h : s.2.toInt < 6176
  · have : ex o + (j : Int) < 0 := by omega
    simp only [h, this, if_true]
  · have h1 : ¬ ex o + (j : Int) < 0 := by omega
    have h2 : (ex o + (j : Int) = 0) ↔ s.2.toInt = 6176 := by omega
    simp only [h, h1, if_false, h2]

theorem signOf_eq (xneg : Bool) (o : Decimal) (s : U128 × Int16) (j : Nat) (hs : Stripped o s j) :
    signOf xneg s.1 s.2 = (xneg && (intParity (cf o) (ex o) == some true)) := by
  rw [intParity_stripped o s j hs]
  unfold signOf
  by_cases h : s.2.toInt < 6176
  · have : ¬ s.2.toInt = 6176 := by omega
    simp [h, this]
  · simp only [h, if_false]
    cases (decide (s.2.toInt = 6176) && decide (s.1.toNat % 2 = 1)) <;> simp

theorem stripped_exp_neg_iff (o : Decimal) (s : U128 × Int16) (j : Nat) (hs : Stripped o s j) :
    (intParity (cf o) (ex o)).isNone = decide (s.2.toInt < 6176) := by
  rw [intParity_stripped o s j hs]
  by_cases h : s.2.toInt < 6176 <;> simp [h]

/-! ## the specification on these rungs -/

theorem psFin_zero (m : Mode) (xn : Bool) (xe : Int) (yn : Bool) (yc : Nat) (ye : Int) :
    psFin m (.fin xn 0 xe) yn yc ye =
      some (if yn = true then .inf (xn && (intParity yc ye == some true))
            else .fin (xn && (intParity yc ye == some true)) 0 0) := by
  unfold psFin
  simp only [beq_self_eq_true, if_true]
  rcases intParity yc ye with _ | b
  · simp
  · cases b <;> simp

theorem psFin_inf (m : Mode) (xn : Bool) (yn : Bool) (yc : Nat) (ye : Int) :
    psFin m (.inf xn) yn yc ye =
      some (if yn = true then .fin (xn && (intParity yc ye == some true)) 0 0
            else .inf (xn && (intParity yc ye == some true))) := by
  unfold psFin
  rcases intParity yc ye with _ | b
  · simp
  · cases b <;> simp

theorem psFin_negnan (m : Mode) (xc : Nat) (xe : Int) (yn : Bool) (yc : Nat) (ye : Int) (hx : xc ≠ 0)
    (hn : (intParity yc ye).isNone = true) :
    psFin m (.fin true xc xe) yn yc ye = some (invalid2 .pow (.fin true xc xe) (.fin yn yc ye)) := by
  unfold psFin
  have : (xc == 0) = false := by simpa using hx
  simp only [this, if_false, Bool.false_eq_true, hn, Bool.true_and, if_true]

/-! ## both sides -/

/-- x = ±0, finite y (neither 0 nor ±1) -/
theorem case_xzero (d o : Decimal) (rm : UInt8) (m : Mode) (hz : Decimal.IsZero d = true)
    (h3 : Decimal.isSpecial o = false) (h4 : Decimal.IsZero o = false) (h1 : absOne 𝔳[o] = false) :
    ladder rm d o =
      .ok (if Decimal.Signbit o = true
           then Gen.inf (Decimal.Signbit d && (intParity (cf o) (ex o) == some true))
           else Gen.zero (Decimal.Signbit d && (intParity (cf o) (ex o) == some true))) ∧
    psLate m 𝔳[d] 𝔳[o] =
      some (if Decimal.Signbit o = true
            then .inf (Decimal.Signbit d && (intParity (cf o) (ex o) == some true))
            else .fin (Decimal.Signbit d && (intParity (cf o) (ex o) == some true)) 0 0) := by
  obtain ⟨s, j, hs⟩ := strip_fin o h4
  rcases view d with ⟨a1, a2, a3, a4, av⟩ | ⟨a1, a2, a3, a4, av⟩ | ⟨a1, a2, a3, a4, a5, ac, av⟩ | ⟨a1, a2, a3, a4, a5, ac, ab, av⟩
  · rw [hz] at a4; cases a4
  · rw [hz] at a4; cases a4
  · constructor
    · rw [ladder_finY d o rm a1 h3 s j hs, afterO_zero _ _ _ _ _ _ hz, signOf_eq _ o s j hs]
    · rw [av, Enc.interp_decompose o h3]
      have := absOne_false_mag o h1 h3
      rw [psLate_fin _ _ _ _ _ this, psFin_zero]
  · rw [hz] at a4; cases a4

/-- x = ±Inf, finite y (neither 0 nor ±1) -/
theorem case_xinf (d o : Decimal) (rm : UInt8) (m : Mode) (hi : Decimal.isInf d = true)
    (h3 : Decimal.isSpecial o = false) (h4 : Decimal.IsZero o = false) (h1 : absOne 𝔳[o] = false) :
    ladder rm d o =
      .ok (if Decimal.Signbit o = true
           then Gen.zero (Decimal.Signbit d && (intParity (cf o) (ex o) == some true))
           else Gen.inf (Decimal.Signbit d && (intParity (cf o) (ex o) == some true))) ∧
    psLate m 𝔳[d] 𝔳[o] =
      some (if Decimal.Signbit o = true
            then .fin (Decimal.Signbit d && (intParity (cf o) (ex o) == some true)) 0 0
            else .inf (Decimal.Signbit d && (intParity (cf o) (ex o) == some true))) := by
  obtain ⟨s, j, hs⟩ := strip_fin o h4
  rcases view d with ⟨a1, a2, a3, a4, av⟩ | ⟨a1, a2, a3, a4, av⟩ | ⟨a1, a2, a3, a4, a5, ac, av⟩ | ⟨a1, a2, a3, a4, a5, ac, ab, av⟩
  · rw [hi] at a2; cases a2
  · constructor
    · rw [ladder_finY d o rm a1 h3 s j hs, afterO_inf _ _ _ _ _ _ a4 hi, signOf_eq _ o s j hs]
    · rw [av, Enc.interp_decompose o h3]
      have := absOne_false_mag o h1 h3
      rw [psLate_fin _ _ _ _ _ this, psFin_inf]
  · rw [hi] at a2; cases a2
  · rw [hi] at a2; cases a2

theorem interp_pownan (yn : Bool) (xc : Nat) (xe : Int) (yc : Nat) (ye : Int) (hx : xc ≠ 0) (hy : yc ≠ 0) :
    𝔳[Gen.nan 15 4 (if yn = true then 4 else 3)] =
      invalid2 .pow (.fin true xc xe) (.fin yn yc ye) := by
  rw [Enc.interp_nan]
  unfold invalid2 invalid
  rw [classCode_fin _ _ _ hx, classCode_fin _ _ _ hy]
  cases yn <;> rfl

/-- finite x < 0, finite y not an integer: the NaN with the Pow payload -/
theorem case_negnan (d o : Decimal) (rm : UInt8) (m : Mode)
    (a3 : Decimal.isSpecial d = false) (a4 : Decimal.IsZero d = false) (hneg : Decimal.Signbit d = true)
    (h3 : Decimal.isSpecial o = false) (h4 : Decimal.IsZero o = false) (h1 : absOne 𝔳[o] = false)
    (hni : (intParity (cf o) (ex o)).isNone = true) :
    ladder rm d o = .ok (Gen.nan 15 4 (if Decimal.Signbit o = true then 4 else 3)) ∧
    psLate m 𝔳[d] 𝔳[o] = some 𝔳[Gen.nan 15 4 (if Decimal.Signbit o = true then 4 else 3)] := by
  obtain ⟨s, j, hs⟩ := strip_fin o h4
  obtain ⟨t, k, ht⟩ := strip_fin d a4
  have hdc : cf d ≠ 0 := by
    have := IsZero_eq_sig d; rw [a4] at this; simpa using this.symm
  have hoc : cf o ≠ 0 := by
    have := IsZero_eq_sig o; rw [h4] at this; simpa using this.symm
  have hclass : Decimal.IsNaN d = false ∧ Decimal.isInf d = false := by
    rcases view d with ⟨b1, b2, b3, b4, bv⟩ | ⟨b1, b2, b3, b4, bv⟩ | ⟨b1, b2, b3, b4, b5, bc, bv⟩ | ⟨b1, b2, b3, b4, b5, bc, bb, bv⟩
    · rw [a3] at b3; cases b3
    · rw [a3] at b3; cases b3
    · exact ⟨b1, b2⟩
    · exact ⟨b1, b2⟩
  have hlt : s.2.toInt < 6176 := by
    have := stripped_exp_neg_iff o s j hs
    rw [hni] at this; simpa using this.symm
  constructor
  · rw [ladder_finY d o rm hclass.1 h3 s j hs, afterO_fin _ _ _ _ _ _ a4 hclass.2 t k ht, hneg,
      afterD_nan _ _ _ _ _ _ hlt]
  · rw [interp_pownan _ (cf d) (ex d) (cf o) (ex o) hdc hoc, Enc.interp_decompose d a3,
      Enc.interp_decompose o h3, hneg]
    have := absOne_false_mag o h1 h3
    rw [psLate_fin _ _ _ _ _ this, psFin_negnan _ _ _ _ _ _ hdc hni]

end PowPf
