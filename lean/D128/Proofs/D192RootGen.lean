/-
  D128/Proofs/D192RootGen.lean — unconditional theorems about `Gen.Sqrt` / `Gen.Cbrt` for EVERY valid default
  rounding mode, and unconditional exactness on perfect squares / cubes.

  Provided (namespace `Root`):
  * `SpecThm m neg k c e P` : the common shape of the specification-level final-step theorems
  * `finishK_rel_gen`       : the final step in relative form for any such theorem (normalised iterate with
                              any flag, or short exact iterate with flag 0)
  * `specThm_anymode`, `specThm_exact` : the instances from `anymode_near`, `nearest_exact`
  * `Sqrt_gen`, `Cbrt_gen`  : `Gen.Sqrt`/`Gen.Cbrt` on the general path, generic in `P`
  * `Sqrt_anymode`, `Cbrt_anymode` : **every valid mode byte** (directed modes included): no panic, finite result of
                              the right sign within `(1 + 1e-20)` spacings of the root — in particular totality
  * `Sqrt_exact`, `Cbrt_exact` : **nearest modes**: `d = (c'·10^e')^k` with `c'·10^e'` a Decimal ⇒ the result is exactly
                              `c'·10^e'` ("perfect squares and cubes give exact roots")
-/
import D128.Proofs.D192RootRel
import D128.Proofs.D192RootExact
import D128.Proofs.D192RootCbrtMain
set_option autoImplicit false
set_option maxRecDepth 4096
set_option linter.unusedVariables false
namespace Root
open Gen Spec SpecRound D192
local notation "𝔳[" d "]" => Spec.interp (Gen.Decimal.lo d) (Gen.Decimal.hi d)

/-- the common shape of the specification-level final-step theorems (`nearest_rootOk`, `anymode_near`,
`nearest_exact`): a property `P` of every representation of the rounded value -/
def SpecThm (m : Spec.Mode) (neg : Bool) (k c : Nat) (e : Int) (P : Nat → Int → Prop) : Prop :=
  ∀ (N a : Nat) (τ : ℚ) (E : Int), -1 < τ → τ < 1 → (a + 1) * 10 ^ 20 * (Spec.Cmax + 1) < N →
    (((N : ℚ) - a) * (10 : ℚ) ^ E) ^ k ≤ (c : ℚ) * (10 : ℚ) ^ e →
    (c : ℚ) * (10 : ℚ) ^ e ≤ (((N : ℚ) + a) * (10 : ℚ) ^ E) ^ k →
    ∃ c0 e0, Spec.flushOrRoundS m neg ((N : ℚ) + τ) E = .fin neg c0 e0 ∧
      Spec.pow10 (Spec.Emin - 1) ≤ ((N : ℚ) + τ) * Spec.pow10 E ∧
      ∀ rc re, rc ≤ Spec.Cmax → (rc : ℚ) * (10 : ℚ) ^ re = (c0 : ℚ) * (10 : ℚ) ^ e0 → P rc re

/-- **Final step, relative form, generic in the specification-level theorem.** -/
theorem finishK_rel_gen (rm : UInt8) (m : Spec.Mode) (neg : Bool) (sig : U192) (exp : Int16)
    (trunc : Int8) (j c : Nat) (e : Int) (β γ : ℚ) (P : Nat → Int → Prop)
    (hm : Spec.Mode.ofNat? rm.toNat = some m) (hS : SpecThm m neg (j + 1) c e P)
    (ht : trunc = 0 ∨ trunc = 1 ∨ trunc = -1)
    (hx0 : -20000 ≤ exp.toInt) (hx1 : exp.toInt ≤ 20000)
    (hsig : 1 ≤ sig.toNat) (hnorm : LIM ≤ sig.toNat ∨ trunc = 0)
    (hβ0 : 0 ≤ β) (hβ : β ≤ 41 / 10 ^ 56) (hγ0 : 0 ≤ γ) (hγ : γ ≤ 41 / 10 ^ 56)
    (hlo : (1 - β) * ((sig.toNat : ℚ) * (10 : ℚ) ^ (exp.toInt - 6176)) ^ (j + 1) ≤ (c : ℚ) * (10 : ℚ) ^ e)
    (hhi : (c : ℚ) * (10 : ℚ) ^ e ≤ (1 + γ) * ((sig.toNat : ℚ) * (10 : ℚ) ^ (exp.toInt - 6176)) ^ (j + 1)) :
    ∃ r rc re, finishK rm neg sig exp trunc = .ok r ∧ 𝔳[r] = .fin neg rc re ∧ P rc re := by
  by_cases hL : LIM ≤ sig.toNat
  · obtain ⟨a, hN, h1, h2⟩ := rel_to_abs j sig.toNat ((10 : ℚ) ^ (exp.toInt - 6176)) ((c : ℚ) * (10 : ℚ) ^ e) β γ
      (le_trans (by unfold LIM; norm_num) hL) (zpow_pos (by norm_num) _).le hβ0 hβ hγ0 hγ hlo hhi
    obtain ⟨τ, hrel, hτ0, hτ1, hτm⟩ := exists_tau trunc ht
    obtain ⟨c0, e0, hfl, hflush, hall⟩ := hS sig.toNat a τ (exp.toInt - 6176) hτ0 hτ1 hN h1 h2
    have hCm : Spec.Cmax < sig.toNat := by
      have : 1 * 1 * (Spec.Cmax + 1) ≤ (a + 1) * 10 ^ 20 * (Spec.Cmax + 1) :=
        Nat.mul_le_mul_right _ (Nat.mul_le_mul (by omega) (by norm_num))
      omega
    exact finishK_of_spec rm m neg sig exp trunc τ P hm hx0 hx1 hrel
      (by have : (1 : ℚ) ≤ (sig.toNat : ℚ) := by exact_mod_cast hsig
          linarith)
      (fun _ => hCm) (fun h => ⟨hCm, Or.inr (hτm h)⟩) (fun _ => hflush) ⟨c0, e0, hfl, hall⟩
  · have ht0 : trunc = 0 := by rcases hnorm with h | h; exact absurd h hL; exact h
    subst ht0
    set E : Int := exp.toInt - 6176 with hE
    set N' : Nat := sig.toNat * 10 ^ 60 with hN'
    have hN'ge : 6 * 10 ^ 56 ≤ N' := by
      have : 1 * 10 ^ 60 ≤ sig.toNat * 10 ^ 60 := Nat.mul_le_mul_right _ hsig
      omega
    have hval : (N' : ℚ) * (10 : ℚ) ^ (E - 60) = (sig.toNat : ℚ) * (10 : ℚ) ^ E := by
      rw [hN', zpow_sub₀ (by norm_num : (10 : ℚ) ≠ 0)]; push_cast
      field_simp
    obtain ⟨a, hN, h1, h2⟩ := rel_to_abs j N' ((10 : ℚ) ^ (E - 60)) ((c : ℚ) * (10 : ℚ) ^ e) β γ hN'ge
      (zpow_pos (by norm_num) _).le hβ0 hβ hγ0 hγ (by rw [hval]; exact hlo) (by rw [hval]; exact hhi)
    obtain ⟨c0, e0, hfl, -, hall⟩ := hS N' a 0 (E - 60) (by norm_num) (by norm_num) hN h1 h2
    have hsq : (0 : ℚ) < (sig.toNat : ℚ) := by exact_mod_cast hsig
    have hspec : Spec.flushOrRoundS m neg ((sig.toNat : ℚ) + 0) E = .fin neg c0 e0 := by
      rw [← hfl, flushOrRoundS_eq m neg _ (by linarith) E,
        flushOrRoundS_eq m neg _ (by positivity) (E - 60), add_zero, add_zero, hval]
    exact finishK_of_spec rm m neg sig exp 0 0 _ hm hx0 hx1 (Or.inl ⟨by decide, rfl⟩)
      (by linarith) (fun h => absurd h (by decide)) (fun h => absurd h (by decide))
      (fun h => absurd h (by decide)) ⟨c0, e0, hspec, hall⟩

/-- instance: every valid mode, within `(1 + 1e-20)` spacings -/
theorem specThm_anymode (m : Spec.Mode) (neg : Bool) (k c : Nat) (e : Int) (hk2 : 2 ≤ k) (hk3 : k ≤ 3)
    (hc0 : 0 < c) (hc : c ≤ Spec.Cmax) (he0 : Spec.Emin ≤ e) (he1 : e ≤ Spec.Emax) :
    SpecThm m neg k c e (fun rc re => rc ≠ 0 ∧ rc ≤ Spec.Cmax ∧
      ((rc : ℚ) * (10 : ℚ) ^ re - (1 + (10 : ℚ) ^ (-20 : Int)) * (10 : ℚ) ^ (Spec.spacingExpS (rc : ℚ) re) ≤ 0 ∨
        ((rc : ℚ) * (10 : ℚ) ^ re - (1 + (10 : ℚ) ^ (-20 : Int)) * (10 : ℚ) ^ (Spec.spacingExpS (rc : ℚ) re)) ^ k
          ≤ (c : ℚ) * (10 : ℚ) ^ e) ∧
      (c : ℚ) * (10 : ℚ) ^ e ≤
        ((rc : ℚ) * (10 : ℚ) ^ re + (1 + (10 : ℚ) ^ (-20 : Int)) * (10 : ℚ) ^ (Spec.spacingExpS (rc : ℚ) re)) ^ k) := by
  intro N a τ E hτ0 hτ1 hN hlo hhi
  obtain ⟨c0, e0, h1, h2, h3⟩ := anymode_near m k hk2 hk3 c e N a τ E neg hc0 hc he0 he1 hτ0 hτ1 hN hlo hhi
  refine ⟨c0, e0, h1, h2, fun rc re hrc hreq => ?_⟩
  obtain ⟨g0, -, -, g3, g4⟩ := h3 rc re hrc hreq
  exact ⟨g0, hrc, g3, g4⟩

/-- instance: nearest modes, exact k-th powers of members -/
theorem specThm_exact (m : Spec.Mode) (hn : isNearest m = true) (neg : Bool) (k c : Nat) (e : Int)
    (c' : Nat) (e' : Int) (hk2 : 2 ≤ k)
    (hc0 : 0 < c) (hc : c ≤ Spec.Cmax) (he0 : Spec.Emin ≤ e) (he1 : e ≤ Spec.Emax)
    (hc' : c' ≤ Spec.Cmax) (he0' : Spec.Emin ≤ e') (he1' : e' ≤ Spec.Emax)
    (hX : (c : ℚ) * (10 : ℚ) ^ e = ((c' : ℚ) * (10 : ℚ) ^ e') ^ k) :
    SpecThm m neg k c e (fun rc re => (rc : ℚ) * (10 : ℚ) ^ re = (c' : ℚ) * (10 : ℚ) ^ e') := by
  intro N a τ E hτ0 hτ1 hN hlo hhi
  obtain ⟨-, -, -, -, -, -, hflush, -⟩ := near_setup m k hk2 c e N a τ E neg hc0 hc he0 he1 hτ0 hτ1 hN hlo hhi
  obtain ⟨c0, e0, hfl, hval⟩ := nearest_exact m hn k hk2 c e N a τ E neg c' e' hc0 hc he0 he1 hτ0 hτ1 hN
    hlo hhi hc' he0' he1' hX
  exact ⟨c0, e0, hfl, hflush, fun rc re _ hreq => hreq.trans hval⟩

/-- `Gen.Sqrt` on its general path, generic in the specification-level theorem (any valid mode byte). -/
theorem Sqrt_gen (g : Globals) (m : Spec.Mode) (d : Decimal) (c : Nat) (e : Int) (P : Nat → Int → Prop)
    (h1 : Decimal.isSpecial d = false) (h2 : Decimal.IsZero d = false)
    (h3 : Decimal.Signbit d = false) (hv : 𝔳[d] = .fin false c e)
    (hm : Spec.Mode.ofNat? g.DefaultRoundingMode.toNat = some m)
    (hS : SpecThm m false 2 c e P) :
    ∃ r rc re, Gen.Sqrt g d = .ok r ∧ 𝔳[r] = .fin false rc re ∧ P rc re := by
  obtain ⟨res, trunc, dExp, ν, hcore, hνX, hs0, hr0, hr1, hlo, hhi, htf, hnz⟩ := sqrtCore_ok d h1 h2
  obtain ⟨hev, hd0, hd1⟩ := sqrtCore_dExp d h1 res trunc dExp hcore
  obtain ⟨htd, h2h⟩ := tdiv_two_of_even dExp.toInt hev
  rw [Enc.interp_decompose d h1] at hv
  injection hv with _ hcv hev'
  rw [hcv, hev'] at hνX
  rw [Sqrt_eq g d h1 h2 h3, hcore]
  show ∃ r rc re, sqrtFinish g res trunc dExp = .ok r ∧ _
  rw [sqrtFinish_eq]
  have hE := sqrt_exp res.exp dExp (by omega) (by omega) (by omega) (by omega)
  have hb := tdiv2_bounds dExp.toInt
  have hE' : (res.exp + dExp / 2 + 6176).toInt - 6176 = res.exp.toInt + dExp.toInt / 2 := by omega
  have hε := eps_pos
  have hεle := eps_le
  have hsc : ((res.sig.toNat : ℚ) * (10 : ℚ) ^ (res.exp.toInt + dExp.toInt / 2)) ^ (1 + 1)
      = val res ^ 2 * (10 : ℚ) ^ dExp.toInt := by
    unfold val
    rw [zpow_add₀ (by norm_num : (10 : ℚ) ≠ 0)]
    have : (10 : ℚ) ^ dExp.toInt = ((10 : ℚ) ^ (dExp.toInt / 2)) ^ 2 := by
      rw [← zpow_natCast, ← zpow_mul, show dExp.toInt / 2 * ((2 : ℕ) : ℤ) = dExp.toInt by push_cast; omega]
    rw [this]; ring
  have hp : (0 : ℚ) < (10 : ℚ) ^ dExp.toInt := zpow_pos (by norm_num) _
  have h55 : (1 : ℚ) / 10 ^ 55 = 10 / 10 ^ 56 := by norm_num
  exact finishK_rel_gen _ m false res.sig _ trunc 1 c e (2 * eps + 1 / 10 ^ 76) (3 * eps) P hm hS
    htf (by omega) (by omega) (by omega) hnz
    (by positivity) (by have : (1 : ℚ) / 10 ^ 76 ≤ 1 / 10 ^ 56 := by norm_num
                        linarith)
    (by positivity) (by linarith)
    (by rw [hE', hsc, ← hνX, ← mul_assoc]; exact mul_le_mul_of_nonneg_right hlo hp.le)
    (by rw [hE', hsc, ← hνX, ← mul_assoc]; exact mul_le_mul_of_nonneg_right hhi hp.le)

/-- `Gen.Cbrt` on its general path, generic in the specification-level theorem (any valid mode byte). -/
theorem Cbrt_gen (g : Globals) (m : Spec.Mode) (d : Decimal) (n : Bool) (c : Nat) (e : Int)
    (P : Nat → Int → Prop)
    (h1 : Decimal.isSpecial d = false) (h2 : Decimal.IsZero d = false)
    (hv : 𝔳[d] = .fin n c e)
    (hm : Spec.Mode.ofNat? g.DefaultRoundingMode.toNat = some m)
    (hS : SpecThm m n 3 c e P) :
    ∃ r rc re, Gen.Cbrt g d = .ok r ∧ 𝔳[r] = .fin n rc re ∧ P rc re := by
  obtain ⟨res, trunc, hcore, hs0, hr0, hr1, hlo, hhi, htf, hnz⟩ := cbrtCore_ok d h1 h2
  rw [Enc.interp_decompose d h1] at hv
  injection hv with hnv hcv hev
  rw [hcv, hev] at hlo hhi
  rw [Cbrt_eq g d h1 h2, hcore, hnv]
  show ∃ r rc re, cbrtFinish g n res trunc = .ok r ∧ _
  rw [cbrtFinish_eq]
  have hE := cbrt_exp res.exp (by omega) (by omega)
  have hE' : (res.exp + 6176).toInt - 6176 = res.exp.toInt := by omega
  have hη := etaC_le
  have hη0 := etaC_pos
  have h55 : (1 : ℚ) / 10 ^ 55 = 10 / 10 ^ 56 := by norm_num
  exact finishK_rel_gen _ m n res.sig _ trunc 2 c e (1 / 10 ^ 130 + 4 * etaC)
    (1 / 10 ^ 148 + 4 * etaC) P hm hS
    (by rcases htf with h | h
        · exact Or.inl h
        · exact Or.inr (Or.inl h))
    (by omega) (by omega) (by omega)
    (by rcases hnz with h | h
        · exact Or.inl (le_trans (by unfold LIM; norm_num) h)
        · exact Or.inr h)
    (by positivity)
    (by have : (1 : ℚ) / 10 ^ 130 ≤ 1 / 10 ^ 56 := by norm_num
        linarith)
    (by positivity)
    (by have : (1 : ℚ) / 10 ^ 148 ≤ 1 / 10 ^ 56 := by norm_num
        linarith)
    (by rw [hE']; exact hlo) (by rw [hE']; exact hhi)

theorem fin_facts (d : Decimal) (n : Bool) (c : Nat) (e : Int) (h1 : Decimal.isSpecial d = false)
    (h2 : Decimal.IsZero d = false) (hv : 𝔳[d] = .fin n c e) :
    0 < c ∧ c ≤ Spec.Cmax ∧ Spec.Emin ≤ e ∧ e ≤ Spec.Emax := by
  rw [Enc.interp_decompose d h1] at hv
  injection hv with hnv hcv hev
  refine ⟨?_, ?_, ?_, ?_⟩
  · have := Sp.IsZero_eq_sig d; rw [h2] at this
    have : (Gen.Decimal.decompose d).1.toNat ≠ 0 := by simpa using this.symm
    omega
  · rw [← hcv]; exact Enc.decompose_sig_le d
  · have := Enc.decompose_exp_nonneg d; unfold Spec.Emin; omega
  · have := Enc.decompose_exp_le d h1; unfold Spec.Emax; omega

/-- **Totality and one-spacing accuracy of `Sqrt` for EVERY valid default rounding mode.** -/
theorem Sqrt_anymode (g : Globals) (m : Spec.Mode) (d : Decimal) (c : Nat) (e : Int)
    (h1 : Decimal.isSpecial d = false) (h2 : Decimal.IsZero d = false)
    (h3 : Decimal.Signbit d = false) (hv : 𝔳[d] = .fin false c e)
    (hm : Spec.Mode.ofNat? g.DefaultRoundingMode.toNat = some m) :
    ∃ r rc re, Gen.Sqrt g d = .ok r ∧ 𝔳[r] = .fin false rc re ∧ rc ≠ 0 ∧ rc ≤ Spec.Cmax ∧
      ((rc : ℚ) * (10 : ℚ) ^ re - (1 + (10 : ℚ) ^ (-20 : Int)) * (10 : ℚ) ^ (Spec.spacingExpS (rc : ℚ) re) ≤ 0 ∨
        ((rc : ℚ) * (10 : ℚ) ^ re - (1 + (10 : ℚ) ^ (-20 : Int)) * (10 : ℚ) ^ (Spec.spacingExpS (rc : ℚ) re)) ^ 2
          ≤ (c : ℚ) * (10 : ℚ) ^ e) ∧
      (c : ℚ) * (10 : ℚ) ^ e ≤
        ((rc : ℚ) * (10 : ℚ) ^ re + (1 + (10 : ℚ) ^ (-20 : Int)) * (10 : ℚ) ^ (Spec.spacingExpS (rc : ℚ) re)) ^ 2 := by
  obtain ⟨hc0, hc, he0, he1⟩ := fin_facts d false c e h1 h2 hv
  exact Sqrt_gen g m d c e _ h1 h2 h3 hv hm
    (specThm_anymode m false 2 c e (by norm_num) (by norm_num) hc0 hc he0 he1)

/-- **Totality and one-spacing accuracy of `Cbrt` for EVERY valid default rounding mode.** -/
theorem Cbrt_anymode (g : Globals) (m : Spec.Mode) (d : Decimal) (n : Bool) (c : Nat) (e : Int)
    (h1 : Decimal.isSpecial d = false) (h2 : Decimal.IsZero d = false)
    (hv : 𝔳[d] = .fin n c e)
    (hm : Spec.Mode.ofNat? g.DefaultRoundingMode.toNat = some m) :
    ∃ r rc re, Gen.Cbrt g d = .ok r ∧ 𝔳[r] = .fin n rc re ∧ rc ≠ 0 ∧ rc ≤ Spec.Cmax ∧
      ((rc : ℚ) * (10 : ℚ) ^ re - (1 + (10 : ℚ) ^ (-20 : Int)) * (10 : ℚ) ^ (Spec.spacingExpS (rc : ℚ) re) ≤ 0 ∨
        ((rc : ℚ) * (10 : ℚ) ^ re - (1 + (10 : ℚ) ^ (-20 : Int)) * (10 : ℚ) ^ (Spec.spacingExpS (rc : ℚ) re)) ^ 3
          ≤ (c : ℚ) * (10 : ℚ) ^ e) ∧
      (c : ℚ) * (10 : ℚ) ^ e ≤
        ((rc : ℚ) * (10 : ℚ) ^ re + (1 + (10 : ℚ) ^ (-20 : Int)) * (10 : ℚ) ^ (Spec.spacingExpS (rc : ℚ) re)) ^ 3 := by
  obtain ⟨hc0, hc, he0, he1⟩ := fin_facts d n c e h1 h2 hv
  exact Cbrt_gen g m d n c e _ h1 h2 hv hm
    (specThm_anymode m n 3 c e (by norm_num) (by norm_num) hc0 hc he0 he1)

/-- **Perfect squares, unconditional** (nearest default mode): `d = (c'·10^e')²` with `c'·10^e'` a Decimal:
`Sqrt(d)` is exactly `c'·10^e'`. -/
theorem Sqrt_exact (g : Globals) (m : Spec.Mode) (d : Decimal) (c : Nat) (e : Int) (c' : Nat) (e' : Int)
    (h1 : Decimal.isSpecial d = false) (h2 : Decimal.IsZero d = false)
    (h3 : Decimal.Signbit d = false) (hv : 𝔳[d] = .fin false c e)
    (hm : Spec.Mode.ofNat? g.DefaultRoundingMode.toNat = some m) (hn : isNearest m = true)
    (hc' : c' ≤ Spec.Cmax) (he0' : Spec.Emin ≤ e') (he1' : e' ≤ Spec.Emax)
    (hX : (c : ℚ) * (10 : ℚ) ^ e = ((c' : ℚ) * (10 : ℚ) ^ e') ^ 2) :
    ∃ r rc re, Gen.Sqrt g d = .ok r ∧ 𝔳[r] = .fin false rc re ∧
      (rc : ℚ) * (10 : ℚ) ^ re = (c' : ℚ) * (10 : ℚ) ^ e' := by
  obtain ⟨hc0, hc, he0, he1⟩ := fin_facts d false c e h1 h2 hv
  exact Sqrt_gen g m d c e _ h1 h2 h3 hv hm
    (specThm_exact m hn false 2 c e c' e' (by norm_num) hc0 hc he0 he1 hc' he0' he1' hX)

/-- **Perfect cubes, unconditional** (nearest default mode). -/
theorem Cbrt_exact (g : Globals) (m : Spec.Mode) (d : Decimal) (n : Bool) (c : Nat) (e : Int)
    (c' : Nat) (e' : Int)
    (h1 : Decimal.isSpecial d = false) (h2 : Decimal.IsZero d = false)
    (hv : 𝔳[d] = .fin n c e)
    (hm : Spec.Mode.ofNat? g.DefaultRoundingMode.toNat = some m) (hn : isNearest m = true)
    (hc' : c' ≤ Spec.Cmax) (he0' : Spec.Emin ≤ e') (he1' : e' ≤ Spec.Emax)
    (hX : (c : ℚ) * (10 : ℚ) ^ e = ((c' : ℚ) * (10 : ℚ) ^ e') ^ 3) :
    ∃ r rc re, Gen.Cbrt g d = .ok r ∧ 𝔳[r] = .fin n rc re ∧
      (rc : ℚ) * (10 : ℚ) ^ re = (c' : ℚ) * (10 : ℚ) ^ e' := by
  obtain ⟨hc0, hc, he0, he1⟩ := fin_facts d n c e h1 h2 hv
  exact Cbrt_gen g m d n c e _ h1 h2 hv hm
    (specThm_exact m hn n 3 c e c' e' (by norm_num) hc0 hc he0 he1 hc' he0' he1' hX)
end Root
