/-
  D128/Proofs/NewLdexpFrexp.lean — `Ldexp` undoes `Frexp` (property C11): for every finite `d`,
  `Ldexp(Frexp(d))` denotes the value of `d`.

  Provided (namespace `NL`):
  * `spec_ldexp_frexp`  : on the specification side, `ldexp (frexp x)` is `x` for members of the format
  * `equal_of_same_fin` : `Val.same x (.fin …)` implies `Spec.equal x (.fin …)`
  * `ldexp_frexp`       : `Frexp d = (f, e)`, `Ldexp f e = r` without panic, `𝔳[r]` is `𝔳[d]` up to the
                          choice of cohort member (`Val.same`: same sign — also of zero — and same value),
                          hence `Spec.equal 𝔳[r] 𝔳[d]`
-/
import D128.Proofs.NewLdexpLdexp
import D128.Proofs.CmpOrder
import D128.Proofs.CmpSpec
set_option autoImplicit false
set_option maxRecDepth 4096
namespace NL
open Gen Spec
local notation "𝔳[" d "]" => Spec.interp (Gen.Decimal.lo d) (Gen.Decimal.hi d)

/-- specification side: scaling the fraction of `frexp` back by its exponent gives the operand -/
theorem spec_ldexp_frexp (m : Spec.Mode) (n : Bool) (c : Nat) (x : Int) (hc : c ≤ Spec.Cmax)
    (h1 : Spec.Emin ≤ x) (h2 : x ≤ Spec.Emax) :
    (Spec.ldexp m (Spec.frexp (.fin n c x)).1 (Spec.frexp (.fin n c x)).2).same (.fin n c x) = true := by
  by_cases hc0 : c = 0
  · subst hc0
    exact Sp.same_zero _ _ _
  · rw [FrexpPf.spec_frexp_fin n c x hc0]
    have hb : (c == 0) = false := by simpa using hc0
    simp only [Spec.ldexp, hb, Bool.false_eq_true, if_false]
    have : -(Nat.log 10 c : Int) - 1 + (x + (Nat.log 10 c : Int) + 1) = x := by omega
    rw [this]
    exact flushS_exact m n (Nat.pos_of_ne_zero hc0) hc h1 h2

theorem equal_of_same_fin (v : Spec.Val) (n : Bool) (c : Nat) (x : Int)
    (h : v.same (.fin n c x) = true) : Spec.equal v (.fin n c x) = true := by
  unfold Spec.equal
  rw [CmpPf.spec_cmp_congr v (.fin n c x) (.fin n c x) (.fin n c x) h (Sp.same_refl _),
    CmpPf.spec_cmp_refl_fin]
  rfl

/-- **C11, round trip.**  For every finite `d` (zeros and non-canonical encodings included) and every
valid default rounding mode: `Frexp d` returns `(f, e)`, `Ldexp f e` returns `r` without panic, and `r`
denotes the same signed value as `d` (`Val.same`), in particular `Spec.equal 𝔳[r] 𝔳[d]`. -/
theorem ldexp_frexp (g : Globals) (d : Gen.Decimal) (m : Spec.Mode)
    (hm : Spec.Mode.ofNat? g.DefaultRoundingMode.toNat = some m)
    (hd : Gen.Decimal.isSpecial d = false) :
    ∃ f e r, Gen.Frexp d = .ok (f, e) ∧ Gen.Ldexp g f e = .ok r ∧
      (𝔳[r]).same 𝔳[d] = true ∧ Spec.equal 𝔳[r] 𝔳[d] = true := by
  obtain ⟨f, e, hf, hv, he⟩ := FrexpPf.Frexp_spec d
  obtain ⟨r, hr, hs⟩ := ldexp_correct g f e m hm
  rw [hv, he] at hs
  have hx0 := Enc.decompose_exp_nonneg d
  have hx1 := Enc.decompose_exp_le d hd
  rw [Enc.interp_decompose d hd] at hs ⊢
  have key := spec_ldexp_frexp m (Gen.Decimal.Signbit d) _ _ (Enc.decompose_sig_le d)
    (show Spec.Emin ≤ (Gen.Decimal.decompose d).2.toInt - 6176 by unfold Spec.Emin; omega)
    (show (Gen.Decimal.decompose d).2.toInt - 6176 ≤ Spec.Emax by unfold Spec.Emax; omega)
  have hsame := same_trans hs key
  exact ⟨f, e, r, hf, hr, hsame, equal_of_same_fin _ _ _ _ hsame⟩

/-- the hypotheses of `ldexp_frexp` hold for `-1` -/
example := ldexp_frexp ⟨0⟩ (Gen.one true) .nearestEven rfl (Enc.isSpecial_one true)

end NL
