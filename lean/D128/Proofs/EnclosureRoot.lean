/-
  Soundness of the oracle, part 13: the exact rational decision `Spec.rootOk` / `Spec.judgeRoot` (C17) means,
  over the reals, what the property says: the result `R = rc·10^re` is within `(1/2 + 10^-20)` units in the last
  place (of the format at `R`) of the exact root `V^(1/k)`, `V = c·10^e`.

  `rootR k c e := (c·10^e)^(1/k)` (real k-th root), `rootH rc re := (1/2 + 10^-20)·10^(spacingExpS rc re)`.

  1. `rootOk_iff`   : k ≠ 0 →
        (rootOk k c e rc re = true ↔ rc ≠ 0 ∧ −200 ≤ k·re − e ≤ 200 ∧ |rc·10^re − rootR k c e| ≤ rootH rc re)
  2. `guard_of_near`: for operands/results that are Decimal values (0 < c < 10^35, 0 < rc ≤ Cmax, Emin ≤ re,
        k ∈ {2,3}) the exponent guard is implied by the inequality, hence
     `rootOk_iff_valid` : rootOk k c e rc re = true ↔ |rc·10^re − rootR k c e| ≤ rootH rc re
  3. `judgeRoot_cases`, `judgeRoot_bad_sound`, `judgeRoot_ok_sound` (assembled in Props/C17Oracle.lean)
-/
import D128.Proofs.EnclosureExact
set_option autoImplicit false

namespace EnclPf
open Spec Spec.Encl SpecRound

/-- the exact real k-th root of the magnitude `c·10^e` -/
noncomputable def rootR (k : Nat) (c : Nat) (e : Int) : ℝ := ((c : ℝ) * (10 : ℝ) ^ e) ^ ((k : ℝ)⁻¹)

/-- the tolerance of C17: `(1/2 + 10^-20)` units in the last place of the format at the result -/
noncomputable def rootH (rc : Nat) (re : Int) : ℝ :=
  (1 / 2 + (10 : ℝ) ^ (-20 : Int)) * (10 : ℝ) ^ (spacingExpS (rc : ℚ) re)

theorem rootR_nonneg (k c : Nat) (e : Int) : 0 ≤ rootR k c e := by
  unfold rootR; positivity

theorem rootR_pow (k c : Nat) (e : Int) (hk : k ≠ 0) : rootR k c e ^ k = (c : ℝ) * (10 : ℝ) ^ e := by
  unfold rootR; exact Real.rpow_inv_natCast_pow (by positivity) hk

/-- comparison of a non-negative real with the root through k-th powers -/
theorem le_root_iff {a : ℝ} (ha : 0 ≤ a) (k c : Nat) (e : Int) (hk : k ≠ 0) :
    a ≤ rootR k c e ↔ a ^ k ≤ (c : ℝ) * (10 : ℝ) ^ e := by
  rw [← rootR_pow k c e hk, pow_le_pow_iff_left₀ ha (rootR_nonneg k c e) hk]

theorem root_le_iff {a : ℝ} (ha : 0 ≤ a) (k c : Nat) (e : Int) (hk : k ≠ 0) :
    rootR k c e ≤ a ↔ (c : ℝ) * (10 : ℝ) ^ e ≤ a ^ k := by
  rw [← rootR_pow k c e hk, pow_le_pow_iff_left₀ (rootR_nonneg k c e) ha hk]

/-! ## 1. the decision, unfolded -/

theorem rootOk_eq (k c : Nat) (e : Int) (rc : Nat) (re : Int) :
    rootOk k c e rc re =
      if rc == 0 then false else
      if (k : Int) * re - e > 200 || (k : Int) * re - e < -200 then false else
      (if (rc : ℚ) - (1 / 2 + pow10 (-20)) * pow10 (spacingExpS (rc : ℚ) re - re) ≤ 0 then true
        else decide (((rc : ℚ) - (1 / 2 + pow10 (-20)) * pow10 (spacingExpS (rc : ℚ) re - re)) ^ k ≤
          (c : ℚ) * pow10 (-((k : Int) * re - e)))) &&
      decide ((c : ℚ) * pow10 (-((k : Int) * re - e)) ≤
        ((rc : ℚ) + (1 / 2 + pow10 (-20)) * pow10 (spacingExpS (rc : ℚ) re - re)) ^ k) := rfl

/-- scaling by `10^re`: the k-th power comparison in units of `10^(k·re)` -/
theorem scaled_pow_le (a : ℚ) (k c : Nat) (e re : Int) :
    (a ^ k ≤ (c : ℚ) * pow10 (-((k : Int) * re - e))) ↔
      (((a : ℚ) : ℝ) * (10 : ℝ) ^ re) ^ k ≤ (c : ℝ) * (10 : ℝ) ^ e := by
  have hp : (0 : ℝ) < ((10 : ℝ) ^ re) ^ k := by positivity
  have hsplit : (c : ℝ) * (10 : ℝ) ^ e = ((c : ℝ) * (10 : ℝ) ^ (-((k : Int) * re - e))) * ((10 : ℝ) ^ re) ^ k := by
    rw [← zpow_natCast, ← zpow_mul, mul_assoc, ← zpow_add₀ (by norm_num : (10 : ℝ) ≠ 0)]
    congr 2; ring
  rw [mul_pow, hsplit, mul_le_mul_iff_left₀ hp]
  constructor
  · intro h
    have : ((a ^ k : ℚ) : ℝ) ≤ (((c : ℚ) * pow10 (-((k : Int) * re - e)) : ℚ) : ℝ) := by exact_mod_cast h
    rw [Rat.cast_mul, pow10_cast] at this
    push_cast at this; exact this
  · intro h
    have : ((a ^ k : ℚ) : ℝ) ≤ (((c : ℚ) * pow10 (-((k : Int) * re - e)) : ℚ) : ℝ) := by
      rw [Rat.cast_mul, pow10_cast]; push_cast; exact h
    exact_mod_cast this

theorem scaled_le_pow (a : ℚ) (k c : Nat) (e re : Int) :
    ((c : ℚ) * pow10 (-((k : Int) * re - e)) ≤ a ^ k) ↔
      (c : ℝ) * (10 : ℝ) ^ e ≤ (((a : ℚ) : ℝ) * (10 : ℝ) ^ re) ^ k := by
  have hp : (0 : ℝ) < ((10 : ℝ) ^ re) ^ k := by positivity
  have hsplit : (c : ℝ) * (10 : ℝ) ^ e = ((c : ℝ) * (10 : ℝ) ^ (-((k : Int) * re - e))) * ((10 : ℝ) ^ re) ^ k := by
    rw [← zpow_natCast, ← zpow_mul, mul_assoc, ← zpow_add₀ (by norm_num : (10 : ℝ) ≠ 0)]
    congr 2; ring
  rw [mul_pow, hsplit, mul_le_mul_iff_left₀ hp]
  constructor
  · intro h
    have : (((c : ℚ) * pow10 (-((k : Int) * re - e)) : ℚ) : ℝ) ≤ ((a ^ k : ℚ) : ℝ) := by exact_mod_cast h
    rw [Rat.cast_mul, pow10_cast] at this
    push_cast at this; exact this
  · intro h
    have : (((c : ℚ) * pow10 (-((k : Int) * re - e)) : ℚ) : ℝ) ≤ ((a ^ k : ℚ) : ℝ) := by
      rw [Rat.cast_mul, pow10_cast]; push_cast; exact h
    exact_mod_cast this

/-- the half-width `h` in real units -/
theorem half_cast (rc : Nat) (re : Int) :
    ((((1 / 2 + pow10 (-20)) * pow10 (spacingExpS (rc : ℚ) re - re) : ℚ)) : ℝ) * (10 : ℝ) ^ re = rootH rc re := by
  unfold rootH
  rw [Rat.cast_mul, Rat.cast_add, pow10_cast, pow10_cast, mul_assoc, ← zpow_add₀ (by norm_num : (10 : ℝ) ≠ 0)]
  push_cast
  congr 2; ring

theorem rootOk_iff (k c : Nat) (e : Int) (rc : Nat) (re : Int) (hk : k ≠ 0) :
    rootOk k c e rc re = true ↔
      rc ≠ 0 ∧ (-200 ≤ (k : Int) * re - e ∧ (k : Int) * re - e ≤ 200) ∧
      |(rc : ℝ) * (10 : ℝ) ^ re - rootR k c e| ≤ rootH rc re := by
  rw [rootOk_eq]
  by_cases hrc : rc = 0
  · simp [hrc]
  have hrc' : (rc == 0) = false := by simpa using hrc
  simp only [hrc', Bool.false_eq_true, if_false]
  by_cases hd : (k : Int) * re - e > 200 ∨ (k : Int) * re - e < -200
  · have : (decide ((k : Int) * re - e > 200) || decide ((k : Int) * re - e < -200)) = true := by
      simpa using hd
    simp only [this, if_true]
    constructor
    · intro h; exact absurd h (by simp)
    · rintro ⟨-, ⟨h1, h2⟩, -⟩; omega
  have hdf : (decide ((k : Int) * re - e > 200) || decide ((k : Int) * re - e < -200)) = false := by
    simpa using hd
  simp only [hdf, Bool.false_eq_true, if_false]
  have hdr : -200 ≤ (k : Int) * re - e ∧ (k : Int) * re - e ≤ 200 := by omega
  -- abbreviations
  set hq : ℚ := (1 / 2 + pow10 (-20)) * pow10 (spacingExpS (rc : ℚ) re - re) with hhq
  have hHpos : 0 < rootH rc re := by unfold rootH; positivity
  have hh := half_cast rc re
  rw [← hhq] at hh
  have elo : ((((rc : ℚ) - hq : ℚ) : ℝ)) * (10 : ℝ) ^ re = (rc : ℝ) * (10 : ℝ) ^ re - rootH rc re := by
    rw [Rat.cast_sub, sub_mul, hh]; simp
  have ehi : ((((rc : ℚ) + hq : ℚ) : ℝ)) * (10 : ℝ) ^ re = (rc : ℝ) * (10 : ℝ) ^ re + rootH rc re := by
    rw [Rat.cast_add, add_mul, hh]; simp
  have hp : (0 : ℝ) < (10 : ℝ) ^ re := zpow_pos (by norm_num) _
  have hhi_nn : (0 : ℝ) ≤ (rc : ℝ) * (10 : ℝ) ^ re + rootH rc re := by positivity
  rw [Bool.and_eq_true, decide_eq_true_eq, scaled_le_pow, ehi, ← root_le_iff hhi_nn k c e hk]
  have hlow : ((if (rc : ℚ) - hq ≤ 0 then true else decide (((rc : ℚ) - hq) ^ k ≤
      (c : ℚ) * pow10 (-((k : Int) * re - e)))) = true) ↔
      (rc : ℝ) * (10 : ℝ) ^ re - rootH rc re ≤ rootR k c e := by
    split
    · rename_i hle
      have : ((((rc : ℚ) - hq : ℚ) : ℝ)) ≤ 0 := by exact_mod_cast hle
      have h2 : ((((rc : ℚ) - hq : ℚ) : ℝ)) * (10 : ℝ) ^ re ≤ 0 := mul_nonpos_of_nonpos_of_nonneg this hp.le
      rw [elo] at h2
      simp only [true_iff]
      exact le_trans h2 (rootR_nonneg k c e)
    · rename_i hle
      have : 0 < ((((rc : ℚ) - hq : ℚ) : ℝ)) := by exact_mod_cast not_le.1 hle
      have h2 : 0 ≤ ((((rc : ℚ) - hq : ℚ) : ℝ)) * (10 : ℝ) ^ re := (mul_pos this hp).le
      rw [decide_eq_true_eq, scaled_pow_le, ← le_root_iff h2 k c e hk, elo]
  rw [hlow, abs_le]
  constructor
  · rintro ⟨h1, h2⟩
    exact ⟨hrc, hdr, by linarith, by linarith⟩
  · rintro ⟨-, -, h1, h2⟩
    exact ⟨by linarith, by linarith⟩

/-! ## 2. the exponent guard is implied for Decimal values -/

theorem spacing_le_re {rc : Nat} {re : Int} (h0 : rc ≠ 0) (hrc : rc ≤ Cmax) (hre : Emin ≤ re) :
    spacingExpS (rc : ℚ) re ≤ re := by
  have hq : (0 : ℚ) < (rc : ℚ) := by exact_mod_cast Nat.pos_of_ne_zero h0
  rw [spacingExpS_eq]
  apply max_le hre
  have : spacingExpRaw (rc : ℚ) ≤ 0 := by
    rw [← coef_le_Cmax_iff (rc : ℚ) hq 0]
    unfold coef
    simp only [zpow_zero, div_one, Nat.floor_natCast]
    exact hrc
  omega

theorem rootH_le {rc : Nat} {re : Int} (h0 : rc ≠ 0) (hrc : rc ≤ Cmax) (hre : Emin ≤ re) :
    rootH rc re ≤ 6 / 10 * (10 : ℝ) ^ re := by
  unfold rootH
  have h1 : (10 : ℝ) ^ (spacingExpS (rc : ℚ) re) ≤ (10 : ℝ) ^ re :=
    zpow_le_zpow_right₀ (by norm_num) (spacing_le_re h0 hrc hre)
  have h2 : (1 / 2 + (10 : ℝ) ^ (-20 : Int)) ≤ 6 / 10 := by norm_num
  have hp : (0 : ℝ) < (10 : ℝ) ^ (spacingExpS (rc : ℚ) re) := zpow_pos (by norm_num) _
  calc (1 / 2 + (10 : ℝ) ^ (-20 : Int)) * (10 : ℝ) ^ (spacingExpS (rc : ℚ) re)
      ≤ 6 / 10 * (10 : ℝ) ^ (spacingExpS (rc : ℚ) re) := mul_le_mul_of_nonneg_right h2 hp.le
    _ ≤ 6 / 10 * (10 : ℝ) ^ re := mul_le_mul_of_nonneg_left h1 (by norm_num)

/-- for Decimal values the inequality alone bounds the exponent difference -/
theorem guard_of_near (k c : Nat) (e : Int) (rc : Nat) (re : Int) (hk : k = 2 ∨ k = 3)
    (hc0 : c ≠ 0) (hc : c < 10 ^ 35) (h0 : rc ≠ 0) (hrc : rc ≤ Cmax) (hre : Emin ≤ re)
    (h : |(rc : ℝ) * (10 : ℝ) ^ re - rootR k c e| ≤ rootH rc re) :
    -200 ≤ (k : Int) * re - e ∧ (k : Int) * re - e ≤ 200 := by
  have hk0 : k ≠ 0 := by rcases hk with rfl | rfl <;> norm_num
  have hH := rootH_le h0 hrc hre
  obtain ⟨hl, hu⟩ := abs_le.1 h
  set a : ℝ := (10 : ℝ) ^ re with ha
  have hapos : 0 < a := zpow_pos (by norm_num) _
  have hak : a ^ k = (10 : ℝ) ^ ((k : Int) * re) := by
    rw [ha, ← zpow_natCast, ← zpow_mul]; congr 1; ring
  have hakpos : 0 < a ^ k := by positivity
  have hc1 : (1 : ℝ) ≤ (c : ℝ) := by exact_mod_cast Nat.one_le_iff_ne_zero.2 hc0
  have hc2 : (c : ℝ) < (10 : ℝ) ^ 35 := by exact_mod_cast hc
  have hr1 : (1 : ℝ) ≤ (rc : ℝ) := by exact_mod_cast Nat.one_le_iff_ne_zero.2 h0
  have hr2 : (rc : ℝ) < (10 : ℝ) ^ 35 := by
    have := lt_of_le_of_lt hrc Cmax_upper; exact_mod_cast this
  have hV := rootR_pow k c e hk0
  have hpe : (0 : ℝ) < (10 : ℝ) ^ e := zpow_pos (by norm_num) _
  constructor
  · -- e ≤ k·re + 200
    by_contra hcon
    have hcon : (k : Int) * re + 201 ≤ e := by omega
    have h1 : a ^ k * (10 : ℝ) ^ (201 : Int) ≤ (10 : ℝ) ^ e := by
      rw [hak, ← zpow_add₀ (by norm_num : (10 : ℝ) ≠ 0)]
      exact zpow_le_zpow_right₀ (by norm_num) hcon
    have h2 : a ^ k * (10 : ℝ) ^ (201 : Int) ≤ rootR k c e ^ k := by
      rw [hV]; nlinarith
    have h3 : rootR k c e ≤ (10 : ℝ) ^ 36 * a := by nlinarith
    have h4 : rootR k c e ^ k ≤ ((10 : ℝ) ^ 36 * a) ^ k := pow_le_pow_left₀ (rootR_nonneg k c e) h3 k
    rw [mul_pow] at h4
    have h5 : ((10 : ℝ) ^ 36) ^ k ≤ (10 : ℝ) ^ 108 := by
      rcases hk with rfl | rfl <;> norm_num
    have h6 : (10 : ℝ) ^ 108 < (10 : ℝ) ^ (201 : Int) := by norm_num
    nlinarith
  · by_contra hcon
    have hcon : e ≤ (k : Int) * re - 201 := by omega
    have h1 : (10 : ℝ) ^ e ≤ a ^ k * (10 : ℝ) ^ (-201 : Int) := by
      rw [hak, ← zpow_add₀ (by norm_num : (10 : ℝ) ≠ 0)]
      exact zpow_le_zpow_right₀ (by norm_num) (by omega)
    have h2 : rootR k c e ^ k ≤ (10 : ℝ) ^ 35 * (a ^ k * (10 : ℝ) ^ (-201 : Int)) := by
      rw [hV]; nlinarith
    have h3 : 4 / 10 * a ≤ rootR k c e := by nlinarith
    have h4 : (4 / 10 * a) ^ k ≤ rootR k c e ^ k := pow_le_pow_left₀ (by positivity) h3 k
    rw [mul_pow] at h4
    have h5 : (1 / 100 : ℝ) ≤ (4 / 10 : ℝ) ^ k := by
      rcases hk with rfl | rfl <;> norm_num
    have h6 : (10 : ℝ) ^ 35 * (10 : ℝ) ^ (-201 : Int) ≤ 1 / 1000 := by norm_num
    generalize (10 : ℝ) ^ (-201 : Int) = ε at *
    nlinarith

theorem rootOk_iff_valid (k c : Nat) (e : Int) (rc : Nat) (re : Int) (hk : k = 2 ∨ k = 3)
    (hc0 : c ≠ 0) (hc : c < 10 ^ 35) (h0 : rc ≠ 0) (hrc : rc ≤ Cmax) (hre : Emin ≤ re) :
    rootOk k c e rc re = true ↔ |(rc : ℝ) * (10 : ℝ) ^ re - rootR k c e| ≤ rootH rc re := by
  have hk0 : k ≠ 0 := by rcases hk with rfl | rfl <;> norm_num
  rw [rootOk_iff k c e rc re hk0]
  constructor
  · rintro ⟨-, -, h⟩; exact h
  · intro h; exact ⟨h0, guard_of_near k c e rc re hk hc0 hc h0 hrc hre h, h⟩

/-! ## 3. `judgeRoot` -/

/-- the index of the root judged for `f` -/
def rootIdx (f : Fn) : Nat := if f == .sqrt then 2 else 3

theorem judgeRoot_cases (f : Fn) (n : Bool) (c : Nat) (e : Int) (rn : Bool) (rc : Nat) (re : Int)
    (hs : specialCase f (.fin n c e) = none) :
    judgeRoot f (.fin n c e) (.fin rn rc re) =
      if rn != n then .bad "wrong sign"
      else if rootOk (rootIdx f) c e rc re then .ok
      else .bad "not within (1/2 + 1e-20) ulp of the exact root" := by
  unfold judgeRoot rootIdx; simp only [hs]

/-- **`.ok`**: the result has the sign of the operand and its magnitude is within `(1/2 + 10^-20)` units in the
    last place (at the result) of the exact real root -/
theorem judgeRoot_ok_sound (f : Fn) (n : Bool) (c : Nat) (e : Int) (rn : Bool) (rc : Nat) (re : Int)
    (hs : specialCase f (.fin n c e) = none)
    (h : judgeRoot f (.fin n c e) (.fin rn rc re) = .ok) :
    rn = n ∧ rc ≠ 0 ∧ |(rc : ℝ) * (10 : ℝ) ^ re - rootR (rootIdx f) c e| ≤ rootH rc re := by
  rw [judgeRoot_cases f n c e rn rc re hs] at h
  split at h
  · exact absurd h (by simp)
  · rename_i hsg
    split at h
    · rename_i hok
      have hk0 : rootIdx f ≠ 0 := by unfold rootIdx; split <;> norm_num
      obtain ⟨h1, -, h3⟩ := (rootOk_iff _ c e rc re hk0).1 hok
      exact ⟨by simpa using hsg, h1, h3⟩
    · exact absurd h (by simp)

/-- **`.bad` on a finite result** (operand and result Decimal values): wrong sign, or a zero result for a
    non-zero operand, or the magnitude is more than `(1/2 + 10^-20)` units in the last place from the exact
    real root -/
theorem judgeRoot_bad_sound (f : Fn) (n : Bool) (c : Nat) (e : Int) (rn : Bool) (rc : Nat) (re : Int)
    (msg : String) (hs : specialCase f (.fin n c e) = none) (hc : c < 10 ^ 35)
    (hrc : rc ≤ Cmax) (hre : Emin ≤ re)
    (h : judgeRoot f (.fin n c e) (.fin rn rc re) = .bad msg) :
    rn ≠ n ∨ rc = 0 ∨ rootH rc re < |(rc : ℝ) * (10 : ℝ) ^ re - rootR (rootIdx f) c e| := by
  obtain ⟨hc0, -⟩ := specialCase_none hs
  rw [judgeRoot_cases f n c e rn rc re hs] at h
  split at h
  · rename_i hsg; left; simpa using hsg
  · right
    by_cases h0 : rc = 0
    · left; exact h0
    right
    split at h
    · exact absurd h (by simp)
    · rename_i hok
      have hk : rootIdx f = 2 ∨ rootIdx f = 3 := by unfold rootIdx; split <;> simp
      by_contra hcon
      exact hok ((rootOk_iff_valid _ c e rc re hk hc0 hc h0 hrc hre).2 (not_lt.1 hcon))

end EnclPf
