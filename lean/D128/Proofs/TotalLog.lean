/-
  D128.Proofs.TotalLog — totality of the exported logarithms `Log`, `Log2`, `Log10`, `Log1p` (C20).

  What is proved, for every bit pattern `d`:
  * `Log_triple_modes`, `Log2_triple_modes`, `Log10_triple_modes`, `Log1p_triple_modes` and the
    `…_total_modes` forms: termination without panic whenever `DefaultRoundingMode ∉ {2, 4, 5}`
    (i.e. under ToNearestEven — the package default —, ToNearestAway, AwayFromZero and every invalid
    mode byte).
  * `Log_triple_partial`, `Log2_triple_partial`, `Log10_triple_partial` (+ `…_total_partial`): for
    EVERY mode byte, provided the working-format logarithm of the argument is not the degenerate
    pair "zero significand with sticky flag −1" (`Good`).
  What this file leaves open for the unconditional statement in the directed modes ToZero/ToNegativeInf/
  ToPositiveInf: `decomposed192.log` ends in a subtraction/addition of two computed quantities
  (`ln m − k·ln 10`, `± ln msd`); if that difference cancelled to a zero significand while a discarded
  low digit of the subtrahend left the flag at −1, `reduce192` would be entered with `(0, −1)` and the
  rounding kernel would not terminate (see `TotalRound.round_zero_stuck`).  Excluding this needs a
  value-level bound on the series.  DONE LATER: `D128/Proofs/TotalLogAll.lean` discharges `Good` from the
  accuracy theorem `LogAcc.log_spec` (`Log_total_all`, `Log2_total_all`, `Log10_total_all`: every mode
  byte), and `D128/Proofs/TotalLog1pAll.lean` does the same for `Log1p` on arguments with exponent ≥ −3264.
  * helpers: `d192_add1neg_lt1_triple` (`1 − x ≠ 0` for `0 < x < 1`, needed so that `Log1p` hands a
    non-zero argument to `decomposed192.log`), `vget_pow192_big`, `vget_pow128_triple`,
    `decompose_exp_range`, `d192_log_triple_good`, `logArg`.
-/
import D128.Proofs.TotalElem
import D128.Proofs.CmpBits
set_option autoImplicit false
set_option mvcgen.warning false
set_option exponentiation.threshold 512
set_option maxRecDepth 16384
namespace D128.Proofs.Total
open Std.Do
open D128.Proofs.WordsWide

/-- the working-format result is not the degenerate pair "zero significand, sticky flag −1" on
which the rounding kernel does not terminate in the directed modes -/
def Good (r : Bool × Gen.decomposed192 × Int8) : Prop := r.2.1.sig.toNat ≠ 0 ∨ r.2.2 ≠ -1

/-- `decomposed192.log` with an assumed property of its (unique) result -/
theorem d192_log_triple_good (x : Gen.decomposed192) :
    ⦃⌜x.sig.toNat ≠ 0 ∧ (∀ r, Gen.decomposed192.log x = .ok r → Good r)⌝⦄
    Gen.decomposed192.log x ⦃⇓ r => ⌜Good r⌝⦄ :=
  triple_of_ok_pre fun ⟨h1, h2⟩ =>
    let ⟨r, e, _⟩ := ok_of_triple_pre (d192_log_triple divSpec x) h1
    ⟨r, e, h2 r e⟩

/-- the argument `Log`, `Log2`, `Log10` hand to `decomposed192.log` -/
def logArg (d : Gen.Decimal) : Gen.decomposed192 :=
  { sig := U192.mk (d.decompose).1.w0 (d.decompose).1.w1 0, exp := (d.decompose).2 - 6176 }

theorem Log_triple_partial (g : Globals) (d : Gen.Decimal)
    (hgood : ∀ r, Gen.decomposed192.log (logArg d) = .ok r → Good r) :
    ⦃⌜True⌝⦄ Gen.Log g d ⦃⇓ _ => ⌜True⌝⦄ := by
  have hl := d192_log_triple_good
  have hnz := sig_ne_zero d
  unfold logArg at hgood
  mvcgen -trivial [Gen.Log, hl]
  all_goals (simp +zetaDelta [Good] at *)
  all_goals (try have hnz' := hnz (by first | assumption | (casesm* _ ∧ _ <;> assumption)))
  all_goals (first | assumption | (refine ⟨?_, hgood⟩; d192_prep; d192_fin))

theorem invLn10_ne_zero : Gen.invLn10.sig.toNat ≠ 0 := by decide
theorem invLn2_ne_zero : Gen.invLn2.sig.toNat ≠ 0 := by decide

theorem Log10_triple_partial (g : Globals) (d : Gen.Decimal)
    (hgood : ∀ r, Gen.decomposed192.log (logArg d) = .ok r → Good r) :
    ⦃⌜True⌝⦄ Gen.Log10 g d ⦃⇓ _ => ⌜True⌝⦄ := by
  have hl := d192_log_triple_good
  have hnz := sig_ne_zero d
  have hi := invLn10_ne_zero
  unfold logArg at hgood
  mvcgen -trivial [Gen.Log10, hl]
  all_goals (simp +zetaDelta [Good] at *)
  all_goals (try have hnz' := hnz (by first | assumption | (casesm* _ ∧ _ <;> assumption)))
  all_goals (first | assumption | (refine ⟨?_, hgood⟩; d192_prep; d192_fin) | (d192_prep; d192_fin))

theorem Log2_triple_partial (g : Globals) (d : Gen.Decimal)
    (hgood : ∀ r, Gen.decomposed192.log (logArg d) = .ok r → Good r) :
    ⦃⌜True⌝⦄ Gen.Log2 g d ⦃⇓ _ => ⌜True⌝⦄ := by
  have hl := d192_log_triple_good
  have hnz := sig_ne_zero d
  have hi := invLn2_ne_zero
  unfold logArg at hgood
  mvcgen -trivial [Gen.Log2, hl]
  all_goals (simp +zetaDelta [Good] at *)
  all_goals (try have hnz' := hnz (by first | assumption | (casesm* _ ∧ _ <;> assumption)))
  all_goals (first | assumption | (refine ⟨?_, hgood⟩; d192_prep; d192_fin) | (d192_prep; d192_fin))


/-! ### unconditional totality in the modes that never round downwards (0, 1, 3 and invalid bytes) -/

theorem Log_triple_modes (g : Globals) (d : Gen.Decimal)
    (hm : g.DefaultRoundingMode ≠ 2 ∧ g.DefaultRoundingMode ≠ 4 ∧ g.DefaultRoundingMode ≠ 5) :
    ⦃⌜True⌝⦄ Gen.Log g d ⦃⇓ _ => ⌜True⌝⦄ := by
  have hl := d192_log_triple divSpec
  have hR := reduce192_total_modes_triple
  have hnz := sig_ne_zero d
  mvcgen -trivial [Gen.Log, hl, hR, -reduce192_total_triple]
  all_goals (simp +zetaDelta at *)
  all_goals (try have hnz' := hnz (by first | assumption | (casesm* _ ∧ _ <;> assumption)))
  all_goals (first | exact hm | (d192_prep; d192_fin))

theorem Log10_triple_modes (g : Globals) (d : Gen.Decimal)
    (hm : g.DefaultRoundingMode ≠ 2 ∧ g.DefaultRoundingMode ≠ 4 ∧ g.DefaultRoundingMode ≠ 5) :
    ⦃⌜True⌝⦄ Gen.Log10 g d ⦃⇓ _ => ⌜True⌝⦄ := by
  have hl := d192_log_triple divSpec
  have hR := reduce192_total_modes_triple
  have hnz := sig_ne_zero d
  mvcgen -trivial [Gen.Log10, hl, hR, -reduce192_total_triple]
  all_goals (simp +zetaDelta at *)
  all_goals (try have hnz' := hnz (by first | assumption | (casesm* _ ∧ _ <;> assumption)))
  all_goals (first | exact hm | (d192_prep; d192_fin))

theorem Log2_triple_modes (g : Globals) (d : Gen.Decimal)
    (hm : g.DefaultRoundingMode ≠ 2 ∧ g.DefaultRoundingMode ≠ 4 ∧ g.DefaultRoundingMode ≠ 5) :
    ⦃⌜True⌝⦄ Gen.Log2 g d ⦃⇓ _ => ⌜True⌝⦄ := by
  have hl := d192_log_triple divSpec
  have hR := reduce192_total_modes_triple
  have hnz := sig_ne_zero d
  mvcgen -trivial [Gen.Log2, hl, hR, -reduce192_total_triple]
  all_goals (simp +zetaDelta at *)
  all_goals (try have hnz' := hnz (by first | assumption | (casesm* _ ∧ _ <;> assumption)))
  all_goals (first | exact hm | (d192_prep; d192_fin))

theorem pow10_gt_2_128 (i : Nat) (h : 39 ≤ i) : 2^128 < 10^i := by
  calc (2:Nat)^128 < 10^39 := by norm_num
    _ ≤ 10^i := Nat.pow_le_pow_right (by norm_num) h

/-- the power table of the working format, with the size fact `add1neg` needs -/
theorem vget_pow192_big (i : Int) :
    ⦃⌜0 ≤ i ∧ i < 58⌝⦄ Go.vget Gen.uint192PowersOf10 i
    ⦃⇓ v => ⌜v.toNat = 10^i.toNat ∧ (39 ≤ i → 2^128 < v.toNat)⌝⦄ :=
  triple_of_ok_pre fun h =>
    let ⟨v, e, hv⟩ := uint192PowersOf10_vget i h.1 h.2
    ⟨v, e, hv, fun h39 => by rw [hv]; exact pow10_gt_2_128 _ (by omega)⟩

/-- `1 - x` for `0 < x < 1` (given as a 128-bit coefficient) has a non-zero significand -/
theorem d192_add1neg_lt1_triple (d : Gen.decomposed192) (trunc : Int8) :
    ⦃⌜d.sig.toNat < 2^128 ∧
        (d.exp ≤ -39 ∨ (-39 < d.exp ∧ d.exp ≤ 0 ∧ d.sig.toNat < 10^(i16v (-d.exp)).toNat))⌝⦄
    Gen.decomposed192.add1neg d trunc
    ⦃⇓ r => ⌜r.2.1.sig.toNat ≠ 0⌝⦄ := by
  have hv := vget_pow192_big
  mvcgen -trivial [Gen.decomposed192.add1neg, hv, -vget_pow192_triple, -d192_add1neg_triple]
  case inv1 | inv3 => exact fun st => ⟨dn16 st.2.1.exp⟩
  case inv2 => exact ⇓ x => match x with
    | .inl st => ⌜st.1 = none ∧ st.2.1.sig.toNat ≠ 0 ∧ -116 ≤ st.2.1.exp ∧ st.2.1.exp ≤ 0 ∧
        st.2.1.sig.toNat < 2^128 ∧ ((-39 < st.2.1.exp ∧ st.2.1.sig.toNat < 10^(i16v (-st.2.1.exp)).toNat) ∨ st.2.1.exp ≤ -39)⌝
    | .inr st => ⌜match st.1 with
        | some v => v.2.1.sig.toNat ≠ 0
        | none => st.2.1.sig.toNat ≠ 0 ∧ -62 ≤ st.2.1.exp ∧ st.2.1.exp ≤ 0 ∧
            st.2.1.sig.toNat < 2^128 ∧ ((-39 < st.2.1.exp ∧ st.2.1.sig.toNat < 10^(i16v (-st.2.1.exp)).toNat) ∨ st.2.1.exp ≤ -39)⌝
  case inv4 => exact ⇓ x => match x with
    | .inl st => ⌜st.1 = none ∧ st.2.1.sig.toNat ≠ 0 ∧ -62 ≤ st.2.1.exp ∧ st.2.1.exp ≤ 0 ∧
        st.2.1.sig.toNat < 2^128 ∧ ((-39 < st.2.1.exp ∧ st.2.1.sig.toNat < 10^(i16v (-st.2.1.exp)).toNat) ∨ st.2.1.exp ≤ -39)⌝
    | .inr st => ⌜match st.1 with
        | some v => v.2.1.sig.toNat ≠ 0
        | none => st.2.1.sig.toNat ≠ 0 ∧ -57 ≤ st.2.1.exp ∧ st.2.1.exp ≤ 0 ∧
            st.2.1.sig.toNat < 2^128 ∧ ((-39 < st.2.1.exp ∧ st.2.1.sig.toNat < 10^(i16v (-st.2.1.exp)).toNat) ∨ st.2.1.exp ≤ -39)⌝
  case inv5 | inv7 => exact fun st => ⟨up16 st.exp⟩
  case inv6 | inv8 => exact ⇓ x => match x with
    | .inl st => ⌜False⌝
    | .inr st => ⌜False⌝
  all_goals (simp +zetaDelta at *)
  all_goals d192_prep
  all_goals omega

theorem decompose_exp_range (d : Gen.Decimal) :
    0 ≤ (d.decompose).2.toInt ∧ (d.decompose).2.toInt < 16384 := by
  have h := (CmpPf.decompose_eq d).2
  rw [h]
  split <;> omega

theorem vget_pow128_triple (i : Int) :
    ⦃⌜0 ≤ i ∧ i < 39⌝⦄ Go.vget Gen.uint128PowersOf10 i ⦃⇓ v => ⌜v.toNat = 10^i.toNat⌝⦄ :=
  triple_of_ok_pre fun h => uint128PowersOf10_vget i h.1 h.2

set_option maxHeartbeats 1000000 in
theorem Log1p_triple_modes (g : Globals) (d : Gen.Decimal)
    (hm : g.DefaultRoundingMode ≠ 2 ∧ g.DefaultRoundingMode ≠ 4 ∧ g.DefaultRoundingMode ≠ 5) :
    ⦃⌜True⌝⦄ Gen.Log1p g d ⦃⇓ _ => ⌜True⌝⦄ := by
  have hl := d192_log_triple divSpec
  have hl1 := d192_log1p_triple divSpec
  have hR := reduce192_total_modes_triple
  have hv := vget_pow128_triple
  have ha := d192_add1neg_lt1_triple
  have hnz := sig_ne_zero d
  have hexp := decompose_exp_range d
  mvcgen -trivial [Gen.Log1p, hl, hl1, hR, hv, ha, -reduce192_total_triple, -d192_add1neg_triple]
  all_goals (simp +zetaDelta [U128_cmp_eq_zero_iff, U128_cmp_gt_zero_iff] at *)
  all_goals (try have hnz' := hnz (by first | assumption | (casesm* _ ∧ _ <;> assumption)))
  all_goals (first | exact hm | (d192_prep; first | omega | (simp_all; done)))

/-! ### `∃ r, f … = .ok r` forms -/

theorem Log_total_modes (g : Globals) (d : Gen.Decimal)
    (hm : g.DefaultRoundingMode ≠ 2 ∧ g.DefaultRoundingMode ≠ 4 ∧ g.DefaultRoundingMode ≠ 5) :
    ∃ r, Gen.Log g d = .ok r := total_of_triple (Log_triple_modes g d hm)
theorem Log2_total_modes (g : Globals) (d : Gen.Decimal)
    (hm : g.DefaultRoundingMode ≠ 2 ∧ g.DefaultRoundingMode ≠ 4 ∧ g.DefaultRoundingMode ≠ 5) :
    ∃ r, Gen.Log2 g d = .ok r := total_of_triple (Log2_triple_modes g d hm)
theorem Log10_total_modes (g : Globals) (d : Gen.Decimal)
    (hm : g.DefaultRoundingMode ≠ 2 ∧ g.DefaultRoundingMode ≠ 4 ∧ g.DefaultRoundingMode ≠ 5) :
    ∃ r, Gen.Log10 g d = .ok r := total_of_triple (Log10_triple_modes g d hm)
theorem Log1p_total_modes (g : Globals) (d : Gen.Decimal)
    (hm : g.DefaultRoundingMode ≠ 2 ∧ g.DefaultRoundingMode ≠ 4 ∧ g.DefaultRoundingMode ≠ 5) :
    ∃ r, Gen.Log1p g d = .ok r := total_of_triple (Log1p_triple_modes g d hm)

theorem Log_total_partial (g : Globals) (d : Gen.Decimal)
    (hgood : ∀ r, Gen.decomposed192.log (logArg d) = .ok r → Good r) :
    ∃ r, Gen.Log g d = .ok r := total_of_triple (Log_triple_partial g d hgood)
theorem Log2_total_partial (g : Globals) (d : Gen.Decimal)
    (hgood : ∀ r, Gen.decomposed192.log (logArg d) = .ok r → Good r) :
    ∃ r, Gen.Log2 g d = .ok r := total_of_triple (Log2_triple_partial g d hgood)
theorem Log10_total_partial (g : Globals) (d : Gen.Decimal)
    (hgood : ∀ r, Gen.decomposed192.log (logArg d) = .ok r → Good r) :
    ∃ r, Gen.Log10 g d = .ok r := total_of_triple (Log10_triple_partial g d hgood)

end D128.Proofs.Total
