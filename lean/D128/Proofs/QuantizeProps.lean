/-
  D128/Proofs/QuantizeProps.lean — consequences of the specification of quantisation
  (`Spec.quantize`, `Spec.ceilDp`, `Spec.floorDp`), used for the corollaries of property C08.

  Provided (namespace `Qz`):
  * `neg_of_same`, `isNaN_of_same`, `isInf_of_same`
  * `exactOrInfS_neg`, `exactOrInfS_not_nan`
  * `quantize_neg`, `ceilDp_neg`, `floorDp_neg`       : the sign is kept (also on zero results)
  * `quantize_isNaN`, `ceilDp_isNaN`, `floorDp_isNaN` : the result is NaN exactly when the operand is
  * `quantize_nan`, `quantize_inf`, … (`rfl`)          : NaN and ±Inf are returned unchanged
-/
import D128.Proofs.QuantizeSpec

set_option autoImplicit false

namespace Qz
open Spec

theorem neg_of_same (x y : Val) (h : x.same y = true) : x.neg = y.neg := by
  cases x <;> cases y <;> simp only [Val.same, Bool.false_eq_true, Bool.and_eq_true, beq_iff_eq] at h <;>
    simp only [Val.neg]
  · exact h.1
  · exact h
  · exact h.1

theorem isNaN_of_same (x y : Val) (h : x.same y = true) : x.isNaN = y.isNaN := by
  cases x <;> cases y <;> simp only [Val.same, Bool.false_eq_true] at h <;> rfl

theorem isInf_of_same (x y : Val) (h : x.same y = true) : x.isInf = y.isInf := by
  cases x <;> cases y <;> simp only [Val.same, Bool.false_eq_true] at h <;> rfl

theorem exactOrInfS_neg (n : Bool) (q : ℚ) (k : Int) : (Spec.exactOrInfS n q k).neg = n := by
  unfold Spec.exactOrInfS
  split
  · rfl
  · dsimp only
    split <;> rfl

theorem exactOrInfS_not_nan (n : Bool) (q : ℚ) (k : Int) : (Spec.exactOrInfS n q k).isNaN = false := by
  unfold Spec.exactOrInfS
  split
  · rfl
  · dsimp only
    split <;> rfl

theorem quantize_nan (dp : Int) (m : Mode) (n : Bool) (p : UInt64) :
    Spec.quantize dp m (.nan n p) = .nan n p := rfl
theorem quantize_inf (dp : Int) (m : Mode) (n : Bool) : Spec.quantize dp m (.inf n) = .inf n := rfl
theorem ceilDp_nan (dp : Int) (n : Bool) (p : UInt64) : Spec.ceilDp dp (.nan n p) = .nan n p := rfl
theorem ceilDp_inf (dp : Int) (n : Bool) : Spec.ceilDp dp (.inf n) = .inf n := rfl
theorem floorDp_nan (dp : Int) (n : Bool) (p : UInt64) : Spec.floorDp dp (.nan n p) = .nan n p := rfl
theorem floorDp_inf (dp : Int) (n : Bool) : Spec.floorDp dp (.inf n) = .inf n := rfl

theorem quantize_neg (dp : Int) (m : Mode) (x : Val) : (Spec.quantize dp m x).neg = x.neg := by
  cases x with
  | nan n p => rfl
  | inf n => rfl
  | fin n c e =>
    simp only [Spec.quantize]
    repeat' split
    all_goals first | rfl | exact exactOrInfS_neg _ _ _

theorem ceilDp_neg (dp : Int) (x : Val) : (Spec.ceilDp dp x).neg = x.neg := by
  cases x with
  | nan n p => rfl
  | inf n => rfl
  | fin n c e =>
    simp only [Spec.ceilDp]
    repeat' split
    all_goals first | rfl | exact exactOrInfS_neg _ _ _

theorem floorDp_neg (dp : Int) (x : Val) : (Spec.floorDp dp x).neg = x.neg := by
  cases x with
  | nan n p => rfl
  | inf n => rfl
  | fin n c e =>
    simp only [Spec.floorDp]
    repeat' split
    all_goals first | rfl | exact exactOrInfS_neg _ _ _

theorem quantize_isNaN (dp : Int) (m : Mode) (x : Val) : (Spec.quantize dp m x).isNaN = x.isNaN := by
  cases x with
  | nan n p => rfl
  | inf n => rfl
  | fin n c e =>
    simp only [Spec.quantize]
    repeat' split
    all_goals first | rfl | exact exactOrInfS_not_nan _ _ _

theorem ceilDp_isNaN (dp : Int) (x : Val) : (Spec.ceilDp dp x).isNaN = x.isNaN := by
  cases x with
  | nan n p => rfl
  | inf n => rfl
  | fin n c e =>
    simp only [Spec.ceilDp]
    repeat' split
    all_goals first | rfl | exact exactOrInfS_not_nan _ _ _

theorem floorDp_isNaN (dp : Int) (x : Val) : (Spec.floorDp dp x).isNaN = x.isNaN := by
  cases x with
  | nan n p => rfl
  | inf n => rfl
  | fin n c e =>
    simp only [Spec.floorDp]
    repeat' split
    all_goals first | rfl | exact exactOrInfS_not_nan _ _ _

end Qz
