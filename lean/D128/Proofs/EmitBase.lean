/-
  D128/Proofs/EmitBase.lean — common layer for the byte emitters of /repo/format.go and /repo/json.go
  (generated `D128/Gen/FormatText.lean`, `D128/Gen/JsonText.lean`).

  * `Emit.toChar`, `Emit.chars`      : bytes read as characters (`Char.ofNat b.toNat`, the reading used by
                                       `D128/Proofs/ParseTop.lean`); `chars_push`, `chars_append`,
                                       `chars_replicate`, `chars_empty`, `toChar_inj`, `chars_inj`
  * `Emit.loop_unfold`               : one-step unfolding of a `while` loop in `Go.GoM`
  * `Emit.loop_up`                   : `for i < N { buf = append(buf, c); i++ }`
  * `Emit.loop_down3`, `Emit.loop_down1`, `Emit.loop_down31` : the two zero-fill loops of `fmtF`
  * `Emit.loop_dp`                   : `for dp < 0 { prec--; buf = append(buf,'0'); dp++ }`
  * `Emit.len_toInt`, `Emit.len_beq_zero`, `Emit.len_append`, `Emit.len_sub`
                                     : `Go.len` of buffers below 2^63 bytes
  * `Emit.makeBytes_zero`            : `make([]byte, 0, cap)` is the empty slice (0 ≤ cap)
  * `Emit.vslice_eq`                 : in-range `dig[lo:hi]`
  * `Emit.digB`, `Emit.chars_digB`   : the bytes `dig[lo..hi)` of a record, as characters of `Dg.msd`
  * `Emit.pad_nop`                   : `digits.pad` returns its buffer when the text is at least `width` wide
-/
import D128.Proofs.Digits
import D128.Gen.FormatText
set_option autoImplicit false
set_option maxRecDepth 4096

namespace Emit

/-! ## bytes as characters -/

/-- a byte read as a character -/
def toChar (b : UInt8) : Char := Char.ofNat b.toNat

/-- a byte string read as a character string -/
def chars (b : Go.Bytes) : Spec.Str := b.toList.map toChar

theorem toNat_ofNat_small (n : Nat) (h : n < 0xd800) : (Char.ofNat n).toNat = n := by
  unfold Char.ofNat
  rw [dif_pos (Or.inl h)]
  simp [Char.ofNatAux, Char.toNat, UInt32.toNat_ofNatLT]

theorem toChar_toNat (b : UInt8) : (toChar b).toNat = b.toNat :=
  toNat_ofNat_small _ (by have := b.toNat_lt; omega)

theorem toChar_inj {a b : UInt8} (h : toChar a = toChar b) : a = b := by
  apply UInt8.toNat_inj.mp
  rw [← toChar_toNat a, ← toChar_toNat b, h]

theorem chars_inj {a b : Go.Bytes} (h : chars a = chars b) : a = b := by
  apply Array.toList_inj.mp
  exact (List.map_inj_right (fun _ _ => toChar_inj)).mp h

@[simp] theorem chars_empty : chars #[] = [] := rfl

@[simp] theorem chars_push (b : Go.Bytes) (c : UInt8) : chars (b.push c) = chars b ++ [toChar c] := by
  simp [chars]

@[simp] theorem chars_append (a b : Go.Bytes) : chars (a ++ b) = chars a ++ chars b := by
  simp [chars]

@[simp] theorem chars_replicate (n : Nat) (c : UInt8) :
    chars (Array.replicate n c) = List.replicate n (toChar c) := by
  simp [chars]

theorem chars_length (b : Go.Bytes) : (chars b).length = b.size := by simp [chars]

/-! ## fixed-width helpers -/

theorem i64_lt_iff (a b : Int64) : a < b ↔ a.toInt < b.toInt := Int64.lt_iff_toInt_lt
theorem i64_le_iff (a b : Int64) : a ≤ b ↔ a.toInt ≤ b.toInt := Int64.le_iff_toInt_le
theorem i64_gt_iff (a b : Int64) : a > b ↔ b.toInt < a.toInt := Int64.lt_iff_toInt_lt

theorem i64_one : (1 : Int64).toInt = 1 := by decide
theorem i64_zero : (0 : Int64).toInt = 0 := by decide
theorem i64_two : (2 : Int64).toInt = 2 := by decide
theorem i64_three : (3 : Int64).toInt = 3 := by decide

theorem i64_ofNat_toInt (n : Nat) (h : n < 2 ^ 63) : (Int64.ofNat n).toInt = n :=
  Int64.toInt_ofNat_of_lt h

theorem i64_neg (a : Int64) (h : -2 ^ 63 < a.toInt) : (-a).toInt = -a.toInt := by
  rw [Int64.toInt_neg]
  have := a.toInt_lt
  exact Dg.bmod64 _ (by omega) (by omega)

/-! ## `while` loops -/

theorem loop_unfold {β : Type} (b : β) (f : Unit → β → Go.GoM (ForInStep β)) :
    forIn Lean.Loop.mk b f = (do
      match ← f () b with
      | .done val => pure val
      | .yield val => forIn Lean.Loop.mk val f) :=
  Lean.Loop.forIn_eq_of_monadTail (l := Lean.Loop.mk) (b := b) (f := f)

/-- body of `for i < N { buf = append(buf, c); i++ }` -/
def upBody (c : UInt8) (N : Int64) : Unit → Go.Bytes × Int64 → Go.GoM (ForInStep (Go.Bytes × Int64)) :=
  fun _ s =>
    if decide (s.snd < N) = true then
      pure (ForInStep.yield (Array.push s.fst c, s.snd + 1))
    else pure (ForInStep.done (s.fst, s.snd))

theorem loop_up' (c : UInt8) (N : Int64) (buf : Go.Bytes) (i : Int64) :
    forIn Lean.Loop.mk (buf, i) (upBody c N)
    = .ok (buf ++ Array.replicate (N.toInt - i.toInt).toNat c, if i < N then N else i) := by
  generalize hm : (N.toInt - i.toInt).toNat = m
  induction m generalizing buf i with
  | zero =>
    have h : ¬ i < N := by rw [i64_lt_iff]; omega
    rw [loop_unfold]
    simp [upBody, h]
    rfl
  | succ m ih =>
    have h : i < N := by rw [i64_lt_iff]; omega
    have hlt := (i64_lt_iff i N).mp h
    have hN := N.toInt_lt
    have hi := i.le_toInt
    have e1 : (i + 1).toInt = i.toInt + 1 := by
      rw [Dg.i64_add _ _ (by rw [i64_one]; omega) (by rw [i64_one]; omega), i64_one]
    rw [loop_unfold]
    have hb : upBody c N () (buf, i) = .ok (ForInStep.yield (buf.push c, i + 1)) := by
      simp [upBody, h]; rfl
    rw [hb]
    show forIn Lean.Loop.mk (buf.push c, i + 1) (upBody c N) = _
    rw [ih (buf.push c) (i + 1) (by rw [e1]; omega)]
    congr 1
    rw [Prod.mk.injEq]
    constructor
    · rw [Array.replicate_succ', Array.push_eq_append, Array.append_assoc]
    · rw [if_pos h]
      split
      · rfl
      · rename_i h2
        rw [i64_lt_iff] at h2
        apply Int64.toInt_inj.mp; omega

/-- `for i < N { buf = append(buf, c); i++ }` appends `N - i` copies of `c` -/
theorem loop_up (c : UInt8) (N : Int64) (buf : Go.Bytes) (i : Int64) :
    forIn Lean.Loop.mk (buf, i) (fun (_ : Unit) (s : Go.Bytes × Int64) =>
      if decide (s.snd < N) = true then
        (pure (ForInStep.yield (Array.push s.fst c, s.snd + 1)) : Go.GoM _)
      else pure (ForInStep.done (s.fst, s.snd)))
    = .ok (buf ++ Array.replicate (N.toInt - i.toInt).toNat c, if i < N then N else i) :=
  loop_up' c N buf i

/-- body of `for i > 2 { buf = append(buf, '0', '0', '0'); i -= 3 }` -/
def down3Body : Unit → Go.Bytes × Int64 → Go.GoM (ForInStep (Go.Bytes × Int64)) :=
  fun _ s =>
    if decide (s.snd > 2) = true then
      pure (ForInStep.yield (((Array.push s.fst 48).push 48).push 48, s.snd - 3))
    else pure (ForInStep.done (s.fst, s.snd))

theorem loop_down3' (buf : Go.Bytes) (i : Int64) :
    forIn Lean.Loop.mk (buf, i) down3Body
    = .ok (buf ++ Array.replicate (3 * (i.toInt.toNat / 3)) 48,
        if i > 2 then Int64.ofInt (i.toInt % 3) else i) := by
  generalize hm : i.toInt.toNat / 3 = m
  induction m generalizing buf i with
  | zero =>
    have h : ¬ i > 2 := by rw [i64_gt_iff, i64_two]; omega
    rw [loop_unfold]
    simp [down3Body, h]
    rfl
  | succ m ih =>
    have h : i > 2 := by rw [i64_gt_iff, i64_two]; omega
    have hlt := (i64_gt_iff i 2).mp h
    rw [i64_two] at hlt
    have hN := i.toInt_lt
    have e1 : (i - 3).toInt = i.toInt - 3 := by
      rw [Dg.i64_sub _ _ (by rw [i64_three]; omega) (by rw [i64_three]; omega), i64_three]
    rw [loop_unfold]
    have hb : down3Body () (buf, i) =
        .ok (ForInStep.yield (((buf.push 48).push 48).push 48, i - 3)) := by
      simp [down3Body, h]; rfl
    rw [hb]
    show forIn Lean.Loop.mk (((buf.push 48).push 48).push 48, i - 3) down3Body = _
    rw [ih _ (i - 3) (by rw [e1]; omega)]
    congr 1
    rw [Prod.mk.injEq]
    constructor
    · have e2 : 3 * (m + 1) = 3 + 3 * m := by omega
      rw [e2, ← Array.replicate_append_replicate]
      apply Array.toList_inj.mp
      simp
      rw [show 3 + 3 * m = 3 * m + 1 + 1 + 1 by omega]
      simp [List.replicate_succ]
    · rw [if_pos h]
      split
      · rw [e1]; congr 1; omega
      · rename_i h2
        rw [i64_gt_iff, i64_two] at h2
        apply Int64.toInt_inj.mp
        rw [Int64.toInt_ofInt]
        show _ = Int.bmod _ (2 ^ 64)
        rw [Dg.bmod64 _ (by omega) (by omega)]; omega

/-- `for i > 2 { buf = append(buf, '0', '0', '0'); i -= 3 }` -/
theorem loop_down3 (buf : Go.Bytes) (i : Int64) :
    forIn Lean.Loop.mk (buf, i) (fun (_ : Unit) (s : Go.Bytes × Int64) =>
      if decide (s.snd > 2) = true then
        (pure (ForInStep.yield (((Array.push s.fst 48).push 48).push 48, s.snd - 3)) : Go.GoM _)
      else pure (ForInStep.done (s.fst, s.snd)))
    = .ok (buf ++ Array.replicate (3 * (i.toInt.toNat / 3)) 48,
        if i > 2 then Int64.ofInt (i.toInt % 3) else i) :=
  loop_down3' buf i

/-- body of `for i > 0 { buf = append(buf, '0'); i-- }` -/
def down1Body : Unit → Go.Bytes × Int64 → Go.GoM (ForInStep (Go.Bytes × Int64)) :=
  fun _ s =>
    if decide (s.snd > 0) = true then
      pure (ForInStep.yield (Array.push s.fst 48, s.snd - 1))
    else pure (ForInStep.done (s.fst, s.snd))

theorem loop_down1' (buf : Go.Bytes) (i : Int64) :
    forIn Lean.Loop.mk (buf, i) down1Body
    = .ok (buf ++ Array.replicate i.toInt.toNat 48, if i > 0 then 0 else i) := by
  generalize hm : i.toInt.toNat = m
  induction m generalizing buf i with
  | zero =>
    have h : ¬ i > 0 := by rw [i64_gt_iff, i64_zero]; omega
    rw [loop_unfold]
    simp [down1Body, h]
    rfl
  | succ m ih =>
    have h : i > 0 := by rw [i64_gt_iff, i64_zero]; omega
    have hlt := (i64_gt_iff i 0).mp h
    rw [i64_zero] at hlt
    have hN := i.toInt_lt
    have e1 : (i - 1).toInt = i.toInt - 1 := by
      rw [Dg.i64_sub _ _ (by rw [i64_one]; omega) (by rw [i64_one]; omega), i64_one]
    rw [loop_unfold]
    have hb : down1Body () (buf, i) = .ok (ForInStep.yield (buf.push 48, i - 1)) := by
      simp [down1Body, h]; rfl
    rw [hb]
    show forIn Lean.Loop.mk (buf.push 48, i - 1) down1Body = _
    rw [ih _ (i - 1) (by rw [e1]; omega)]
    congr 1
    rw [Prod.mk.injEq]
    constructor
    · rw [Array.replicate_succ', Array.push_eq_append, Array.append_assoc]
    · rw [if_pos h]
      split
      · rfl
      · rename_i h2
        rw [i64_gt_iff, i64_zero] at h2
        apply Int64.toInt_inj.mp; rw [i64_zero]; omega

/-- `for i > 0 { buf = append(buf, '0'); i-- }` -/
theorem loop_down1 (buf : Go.Bytes) (i : Int64) :
    forIn Lean.Loop.mk (buf, i) (fun (_ : Unit) (s : Go.Bytes × Int64) =>
      if decide (s.snd > 0) = true then
        (pure (ForInStep.yield (Array.push s.fst 48, s.snd - 1)) : Go.GoM _)
      else pure (ForInStep.done (s.fst, s.snd)))
    = .ok (buf ++ Array.replicate i.toInt.toNat 48, if i > 0 then 0 else i) :=
  loop_down1' buf i

/-- body of `for dp < 0 { prec--; buf = append(buf, '0'); dp++ }` -/
def dpBody : Unit → Go.Bytes × Int64 × Int64 → Go.GoM (ForInStep (Go.Bytes × Int64 × Int64)) :=
  fun _ s =>
    if decide (s.snd.snd < 0) = true then
      pure (ForInStep.yield (Array.push s.fst 48, s.snd.fst - 1, s.snd.snd + 1))
    else pure (ForInStep.done (s.fst, s.snd.fst, s.snd.snd))

theorem loop_dp' (buf : Go.Bytes) (prec dp : Int64) :
    forIn Lean.Loop.mk (buf, prec, dp) dpBody
    = .ok (buf ++ Array.replicate (-dp.toInt).toNat 48,
        if dp < 0 then prec + dp else prec, if dp < 0 then 0 else dp) := by
  generalize hm : (-dp.toInt).toNat = m
  induction m generalizing buf prec dp with
  | zero =>
    have h : ¬ dp < 0 := by rw [i64_lt_iff, i64_zero]; omega
    rw [loop_unfold]
    simp [dpBody, h]
    rfl
  | succ m ih =>
    have h : dp < 0 := by rw [i64_lt_iff, i64_zero]; omega
    have hlt := (i64_lt_iff dp 0).mp h
    rw [i64_zero] at hlt
    have hN := dp.le_toInt
    have e1 : (dp + 1).toInt = dp.toInt + 1 := by
      rw [Dg.i64_add _ _ (by rw [i64_one]; omega) (by rw [i64_one]; omega), i64_one]
    rw [loop_unfold]
    have hb : dpBody () (buf, prec, dp) = .ok (ForInStep.yield (buf.push 48, prec - 1, dp + 1)) := by
      simp [dpBody, h]; rfl
    rw [hb]
    show forIn Lean.Loop.mk (buf.push 48, prec - 1, dp + 1) dpBody = _
    rw [ih _ (prec - 1) (dp + 1) (by rw [e1]; omega)]
    congr 1
    rw [Prod.mk.injEq, Prod.mk.injEq]
    refine ⟨?_, ?_, ?_⟩
    · rw [Array.replicate_succ', Array.push_eq_append, Array.append_assoc]
    · rw [if_pos h]
      split
      · rw [Int64.sub_eq_add_neg, Int64.add_assoc]; congr 1
        rw [Int64.add_comm, Int64.add_assoc]
        have : (1 : Int64) + -1 = 0 := by decide
        rw [this, Int64.add_zero]
      · rename_i h2
        rw [i64_lt_iff, i64_zero] at h2
        have : dp = -1 := by
          apply Int64.toInt_inj.mp
          have : (-1 : Int64).toInt = -1 := by
            rw [i64_neg 1 (by rw [i64_one]; omega), i64_one]
          rw [this]; omega
        rw [this, Int64.sub_eq_add_neg]
    · rw [if_pos h]
      split
      · rfl
      · rename_i h2
        rw [i64_lt_iff, i64_zero] at h2
        apply Int64.toInt_inj.mp; rw [i64_zero]; omega

/-- `for dp < 0 { prec--; buf = append(buf, '0'); dp++ }` -/
theorem loop_dp (buf : Go.Bytes) (prec dp : Int64) :
    forIn Lean.Loop.mk (buf, prec, dp) (fun (_ : Unit) (s : Go.Bytes × Int64 × Int64) =>
      if decide (s.snd.snd < 0) = true then
        (pure (ForInStep.yield (Array.push s.fst 48, s.snd.fst - 1, s.snd.snd + 1)) : Go.GoM _)
      else pure (ForInStep.done (s.fst, s.snd.fst, s.snd.snd)))
    = .ok (buf ++ Array.replicate (-dp.toInt).toNat 48,
        if dp < 0 then prec + dp else prec, if dp < 0 then 0 else dp) :=
  loop_dp' buf prec dp

/-! ## lengths, allocation, slices of the digit array -/

theorem len_toInt (b : Go.Bytes) (h : b.size < 2 ^ 63) : (Go.len b).toInt = b.size :=
  i64_ofNat_toInt _ h

theorem len_beq_zero (b : Go.Bytes) (h : b.size < 2 ^ 63) : (Go.len b == 0) = decide (b.size = 0) := by
  have := len_toInt b h
  by_cases e : b.size = 0
  · have : Go.len b = 0 := by apply Int64.toInt_inj.mp; rw [this, e]; rfl
    simp [this, e]
  · have : Go.len b ≠ 0 := by
      intro h0; rw [h0, i64_zero] at this; omega
    simp [this, e]

/-- the byte count added to a buffer, as computed by `len(buf) - start` -/
theorem len_sub (a b : Go.Bytes) (h : a.size + b.size < 2 ^ 63) :
    (Go.len (a ++ b) - Go.len a).toInt = b.size := by
  have h1 := len_toInt (a ++ b) (by rw [Array.size_append]; exact h)
  have h2 := len_toInt a (by omega)
  rw [Array.size_append] at h1
  rw [Dg.i64_sub _ _ (by rw [h1, h2]; omega) (by rw [h1, h2]; omega), h1, h2]
  omega

theorem makeBytes_zero (cap : Int) (h : 0 ≤ cap) : Go.makeBytes 0 cap = .ok #[] := by
  unfold Go.makeBytes
  rw [if_pos ⟨Int.le_refl _, h⟩]; rfl

/-- the bytes `dig[lo..hi)` -/
def digB (dig : Vector UInt8 39) (lo hi : Nat) : Go.Bytes := dig.toArray.extract lo hi

theorem vslice_eq (dig : Vector UInt8 39) (lo hi : Int) (h0 : 0 ≤ lo) (h1 : lo ≤ hi) (h2 : hi ≤ 39) :
    Go.vslice dig lo hi = .ok (digB dig lo.toNat hi.toNat) := by
  unfold Go.vslice
  rw [if_pos ⟨h0, h1, by omega⟩]; rfl

theorem digB_size (dig : Vector UInt8 39) (lo hi : Nat) (h : hi ≤ 39) : (digB dig lo hi).size = hi - lo := by
  simp [digB]; omega

/-- the characters of `dig[lo..hi)` are the digit characters of the corresponding part of `Dg.msd` -/
theorem chars_digB (dig : Vector UInt8 39) (n lo hi : Nat) (hn : n ≤ 39) (hhi : hi ≤ n)
    (hd : ∀ t, t < n → Dg.isDig (Dg.at_ dig t)) :
    chars (digB dig lo hi) = Spec.digitsStr (((Dg.msd dig n).drop lo).take (hi - lo)) := by
  apply List.ext_getElem
  · simp [chars, digB, Spec.digitsStr, Dg.msd]; omega
  · intro i h1 h2
    have hi' : i < hi - lo := by
      have := digB_size dig lo hi (by omega)
      simp [chars] at h1; omega
    simp only [chars, digB, Spec.digitsStr, List.getElem_map, Array.getElem_toList,
      Array.getElem_extract, List.getElem_take, List.getElem_drop, Dg.msd_getElem]
    have hlt : lo + i < 39 := by omega
    have := hd (lo + i) (by omega)
    rw [Dg.at_eq dig (lo + i) hlt] at this ⊢
    unfold Dg.isDig at this
    unfold toChar Spec.digitChar Dg.dv
    show Char.ofNat (dig[lo + i]).toNat = _
    congr 1; omega

/-! ## `digits.pad` without padding -/

/-- `pad` leaves the buffer alone when `width - (len(buf) - start) ≤ 0` -/
theorem pad_nop (d : Gen.digits) (buf : Go.Bytes) (start width : Int64)
    (printSign padSign padRight padZero : Bool)
    (h : width - (Go.len buf - start) ≤ 0) :
    Gen.digits.pad d buf start width printSign padSign padRight padZero = .ok (d, buf) := by
  unfold Gen.digits.pad
  simp only [h, decide_true, if_true]
  rfl

end Emit
