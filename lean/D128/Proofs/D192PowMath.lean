/-
  D128/Proofs/D192PowMath.lean — arithmetic behind `decomposed192.powexp10` (d^(10^o) by binary
  exponentiation with truncating multiplications).

  * `conv_i16_i64`, `i64_and_one`, `i64_sub_one`, `i64_div_two`, `i64_gt_one` : `Int64` bookkeeping
  * `eps`                 : `1/⌊2^192/10⌋ ≈ 1.6e-57`, the relative size of one unit of a normalised result
  * `mul_exact_or_norm`, `lower_of_norm`, `MulQ2`, `mul_q2spec` : `mul` as a relative-error statement
        `val d·val o·(1-eps) ≤ val r ≤ val d·val o`
  * `sig_pos_of_val_pos`, `exp_ge_of_val`, `exp_le_of_val` : exponents from values
  * `pow_eps_ge_half`     : `(1-eps)^k ≥ 1/2` for `k ≤ 10^7`
  * `PwInv`, `PwInv.exps`, `PwInv.odd_step`, `PwInv.sq_step`, `PwInv.final` : the loop invariant
-/
import D128.Proofs.D192Mul
import Mathlib.Tactic.Positivity
import Mathlib.Algebra.Order.Ring.Pow
set_option autoImplicit false
set_option maxRecDepth 4096
set_option exponentiation.threshold 512
open D128.Proofs.WordsWide
namespace D192

theorem conv_i16_i64 (e : Int16) : (Go.conv e : Int64).toInt = e.toInt := by
  show (Int64.ofInt e.toInt).toInt = e.toInt
  have := Int16.toInt_lt e; have := Int16.le_toInt e
  rw [Int64.toInt_ofInt_of_le] <;> omega

theorem i64_and_one (p : Int64) : (p &&& 1 != 0) = true ↔ p.toInt % 2 = 1 := by
  rw [bne_iff_ne, ne_eq, ← Int64.toBitVec_inj, Int64.toBitVec_and]
  have h1 : (1 : Int64).toBitVec = 1#64 := rfl
  have h0 : (0 : Int64).toBitVec = 0#64 := rfl
  rw [h1, h0, ← BitVec.toNat_inj, BitVec.toNat_and]
  have : (1#64).toNat = 1 := rfl
  rw [this, Nat.and_one_is_mod]
  have e : p.toInt = p.toBitVec.toInt := rfl
  rw [e, BitVec.toInt_eq_toNat_bmod]
  have hlt := p.toBitVec.isLt
  simp only [BitVec.toNat_ofNat, Nat.reducePow, Nat.zero_mod]
  rw [Int.bmod_def]
  split <;> omega

theorem i64_sub_one (p : Int64) (hp : 1 ≤ p.toInt) : (p - 1).toInt = p.toInt - 1 := by
  have := Int64.toInt_lt p
  rw [Int64.toInt_sub]
  have h1 : (1 : Int64).toInt = 1 := by decide
  rw [h1]
  apply Int.bmod_eq_of_le <;> omega

theorem i64_div_two (p : Int64) (hp : 0 ≤ p.toInt) : (p / 2).toInt = p.toInt / 2 := by
  rw [Int64.toInt_div_of_ne_right _ _ (by decide)]
  have h2 : (2 : Int64).toInt = 2 := by decide
  rw [h2, Int.tdiv_eq_ediv_of_nonneg hp]

theorem i64_gt_one (p : Int64) : decide (p > 1) = true ↔ 1 < p.toInt := by
  rw [decide_eq_true_eq, gt_iff_lt, Int64.lt_iff_toInt_lt]; rfl

/-- relative size of one unit of a normalised significand: `1 / ⌊2^192/10⌋ ≈ 1.6e-57` -/
def eps : ℚ := 1 / ((2 ^ 192 / 10 : Nat) : ℚ)

theorem eps_pos : 0 < eps := by unfold eps; positivity
theorem eps_lt : eps < 1 / 10 ^ 56 := by
  unfold eps
  rw [div_lt_div_iff₀ (by positivity) (by positivity)]
  norm_num

/-- `mul`: the result is exact or normalised (value form). -/
theorem mul_exact_or_norm (d o : Gen.decomposed192) (t : Int8)
    (hlo : -32768 ≤ d.exp.toInt + o.exp.toInt) (hhi : d.exp.toInt + o.exp.toInt + 58 ≤ 32767) :
    ∃ r t', Gen.decomposed192.mul d o t = .ok (r, t') ∧
      (val r = val d * val o ∨ 2 ^ 192 / 10 ≤ r.sig.toNat) := by
  obtain ⟨⟨r, t'⟩, hr, k, h1, h2, h3, h4⟩ := ok_of_triple (mul_triple d o t)
  refine ⟨r, t', hr, ?_⟩
  rcases h4 with h4 | h4
  · left
    subst h4
    have he : (d.exp + o.exp).toInt = d.exp.toInt + o.exp.toInt :=
      Int16.toInt_add_of _ _ hlo (by omega)
    simp only [Nat.pow_zero, Nat.div_one] at h1
    have h2' : r.exp = d.exp + o.exp := by simpa using h2
    rw [val_mul]
    unfold val
    rw [h1, h2', he]
  · right; exact h4

/-- a truncated value with a normalised significand is within a relative `eps` of the exact one. -/
theorem lower_of_norm (r : Gen.decomposed192) (X : ℚ) (h1 : val r ≤ X) (h2 : X < val r + ulp r)
    (h3 : val r = X ∨ 2 ^ 192 / 10 ≤ r.sig.toNat) : X * (1 - eps) ≤ val r := by
  have hX : 0 ≤ X := le_trans (val_nonneg r) h1
  rcases h3 with h3 | h3
  · rw [h3]; nlinarith [eps_pos]
  · have hu : ulp r ≤ val r * eps := by
      unfold val eps
      have hs : ((2 ^ 192 / 10 : Nat) : ℚ) ≤ (r.sig.toNat : ℚ) := by exact_mod_cast h3
      have hp := ulp_pos r
      unfold ulp at hp ⊢
      have hN : (0 : ℚ) < ((2 ^ 192 / 10 : Nat) : ℚ) := by norm_num
      rw [mul_one_div, le_div_iff₀ hN]
      nlinarith
    have : X ≤ val r * (1 + eps) := by linarith
    have he := eps_pos
    have hv := val_nonneg r
    nlinarith

theorem sig_pos_of_val_pos (y : Gen.decomposed192) (h : 0 < val y) : 1 ≤ y.sig.toNat := by
  by_contra hc
  have h0 : y.sig.toNat = 0 := by omega
  unfold val at h; rw [h0] at h; simp at h

theorem exp_ge_of_val (y : Gen.decomposed192) (h : 1 / 2 ≤ val y) : -58 ≤ y.exp.toInt := by
  by_contra hc
  have he : y.exp.toInt ≤ -59 := by omega
  have hs : (y.sig.toNat : ℚ) < 2 ^ 192 := by exact_mod_cast U192.toNat_lt y.sig
  have hp : (10 : ℚ) ^ y.exp.toInt ≤ (10 : ℚ) ^ (-59 : Int) := zpow_le_zpow_right₀ (by norm_num) he
  have hpos : (0 : ℚ) < (10 : ℚ) ^ y.exp.toInt := zpow_pos (by norm_num) _
  have : val y < 2 ^ 192 * (10 : ℚ) ^ (-59 : Int) := by
    unfold val
    calc (y.sig.toNat : ℚ) * 10 ^ y.exp.toInt < 2 ^ 192 * 10 ^ y.exp.toInt :=
          mul_lt_mul_of_pos_right hs hpos
      _ ≤ 2 ^ 192 * (10 : ℚ) ^ (-59 : Int) := mul_le_mul_of_nonneg_left hp (by positivity)
  have h2 : (2 : ℚ) ^ 192 * (10 : ℚ) ^ (-59 : Int) < 1 / 2 := by
    rw [zpow_neg]; norm_num
  exact absurd (lt_of_le_of_lt h (lt_trans this h2)) (lt_irrefl _)

theorem exp_le_of_val (r d : Gen.decomposed192) (hr : 1 ≤ r.sig.toNat) (h : val r ≤ 2 * val d) :
    r.exp.toInt ≤ d.exp.toInt + 58 := by
  by_contra hc
  have he : d.exp.toInt + 59 ≤ r.exp.toInt := by omega
  have hs : (d.sig.toNat : ℚ) < 2 ^ 192 := by exact_mod_cast U192.toNat_lt d.sig
  have hr' : (1 : ℚ) ≤ (r.sig.toNat : ℚ) := by exact_mod_cast hr
  have hpd : (0 : ℚ) < (10 : ℚ) ^ d.exp.toInt := zpow_pos (by norm_num) _
  have hpr : (0 : ℚ) < (10 : ℚ) ^ r.exp.toInt := zpow_pos (by norm_num) _
  have hp : (10 : ℚ) ^ (d.exp.toInt + 59) ≤ (10 : ℚ) ^ r.exp.toInt :=
    zpow_le_zpow_right₀ (by norm_num) he
  have e59 : (10 : ℚ) ^ (d.exp.toInt + 59) = (10 : ℚ) ^ d.exp.toInt * 10 ^ 59 := by
    rw [zpow_add₀ (by norm_num)]; norm_num
  have h1 : (10 : ℚ) ^ r.exp.toInt ≤ val r := by
    unfold val; nlinarith
  have h2 : val d < 2 ^ 192 * (10 : ℚ) ^ d.exp.toInt := by
    unfold val; exact mul_lt_mul_of_pos_right hs hpd
  have h3 : (2 : ℚ) * 2 ^ 192 < 10 ^ 59 := by norm_num
  nlinarith

/-- Bernoulli: `(1 - eps)^k ≥ 1/2` for `k ≤ 10^7`. -/
theorem pow_eps_ge_half (k : Nat) (hk : k ≤ 10 ^ 7) : 1 / 2 ≤ (1 - eps) ^ k := by
  have h := one_add_mul_le_pow (a := -eps) (by have := eps_lt; linarith) k
  have hk' : (k : ℚ) ≤ 10 ^ 7 := by exact_mod_cast hk
  have := eps_lt
  have he := eps_pos
  have : (k : ℚ) * eps ≤ 10 ^ 7 * (1 / 10 ^ 56) := by
    apply mul_le_mul hk' (by linarith) he.le (by norm_num)
  have h2 : (10 : ℚ) ^ 7 * (1 / 10 ^ 56) < 1 / 2 := by norm_num
  calc (1 : ℚ) / 2 ≤ 1 + (k : ℚ) * -eps := by linarith
    _ ≤ (1 + -eps) ^ k := h
    _ = (1 - eps) ^ k := by ring_nf

open Std.Do in
/-- `mul` as a relative-error statement (no normalisation assumption needed: an unnormalised result
is exact). -/
def MulQ2 (d o : Gen.decomposed192) (t : Int8) (x : Gen.decomposed192 × Int8) : Prop :=
  val x.1 ≤ val d * val o ∧ val d * val o * (1 - eps) ≤ val x.1 ∧
  (val x.1 = val d * val o → x.2 = t) ∧ (val x.1 ≠ val d * val o → x.2 = 1) ∧
  d.exp.toInt + o.exp.toInt ≤ x.1.exp.toInt ∧ x.1.exp.toInt ≤ d.exp.toInt + o.exp.toInt + 58

theorem mul_q2 (d o : Gen.decomposed192) (t : Int8)
    (hlo : -32768 ≤ d.exp.toInt + o.exp.toInt) (hhi : d.exp.toInt + o.exp.toInt + 58 ≤ 32767) :
    ∃ x, Gen.decomposed192.mul d o t = .ok x ∧ MulQ2 d o t x := by
  obtain ⟨r, t', e, h1, h2, h3, h4, h5, h6, -⟩ := mul_contract d o t hlo hhi
  obtain ⟨r', t'', e', h7⟩ := mul_exact_or_norm d o t hlo hhi
  rw [e] at e'
  obtain ⟨rfl, rfl⟩ : r = r' ∧ t' = t'' := by
    have := Except.ok.inj e'; exact ⟨congrArg Prod.fst this, congrArg Prod.snd this⟩
  exact ⟨(r, t'), e, h1, lower_of_norm r _ h1 h2 h7, h3, h4, h5, h6⟩

/-- loop invariant of `powexp10`: `d ≈ x^n`, `r ≈ x^m`, `n·p10 + m = P`, with at most `n-1` resp. `m`
relative truncations of size `eps` accumulated, and flags that say "inexact" exactly when they should -/
def PwInv (x : ℚ) (P : Nat) (t0 : Int8) (d : Gen.decomposed192) (trunc : Int8) (p10 : Int64)
    (rtrunc : Int8) (r : Gen.decomposed192) : Prop :=
  ∃ n m : Nat, 1 ≤ n ∧ m < n ∧ 1 ≤ p10.toInt ∧ (n : Int) * p10.toInt + m = P ∧
    x ^ n * (1 - eps) ^ (n - 1) ≤ val d ∧ val d ≤ x ^ n ∧
    x ^ m * (1 - eps) ^ m ≤ val r ∧ val r ≤ x ^ m ∧
    (val d = x ^ n → trunc = t0) ∧ (val d ≠ x ^ n → trunc = 1) ∧
    (val r = x ^ m → rtrunc = t0) ∧ (val r ≠ x ^ m → rtrunc = 1 ∨ val d ≠ x ^ n)

theorem one_sub_eps_pos : 0 < 1 - eps := by have := eps_lt; linarith
theorem one_sub_eps_le : 1 - eps ≤ 1 := by have := eps_pos; linarith

theorem PwInv.exps {x : ℚ} {P : Nat} {t0 : Int8} {d : Gen.decomposed192} {trunc : Int8}
    {p10 : Int64} {rtrunc : Int8} {r : Gen.decomposed192} (h : PwInv x P t0 d trunc p10 rtrunc r)
    (hx : 1 ≤ x) (hP : P ≤ 10 ^ 7) :
    -58 ≤ d.exp.toInt ∧ -58 ≤ r.exp.toInt ∧ r.exp.toInt ≤ d.exp.toInt + 58 ∧
      1 / 2 ≤ val d ∧ 1 / 2 ≤ val r := by
  obtain ⟨n, m, hn, hmn, hp, hnm, d1, d2, r1, r2, -⟩ := h
  have hnP : n ≤ P := by
    have : (n : Int) ≤ (n : Int) * p10.toInt := by nlinarith
    omega
  have hxn : (1 : ℚ) ≤ x ^ n := one_le_pow₀ hx
  have hxm : (1 : ℚ) ≤ x ^ m := one_le_pow₀ hx
  have hmn' : x ^ m ≤ x ^ n := pow_le_pow_right₀ hx hmn.le
  have b1 := pow_eps_ge_half (n - 1) (by omega)
  have b2 := pow_eps_ge_half m (by omega)
  have hd : 1 / 2 ≤ val d := by nlinarith
  have hr : 1 / 2 ≤ val r := by nlinarith
  have hrd : val r ≤ 2 * val d := by nlinarith
  exact ⟨exp_ge_of_val d hd, exp_ge_of_val r hr,
    exp_le_of_val r d (sig_pos_of_val_pos r (by linarith)) hrd, hd, hr⟩

theorem mul_eq_of_le {a b A B : ℚ} (ha : 0 ≤ a) (hb : 0 ≤ b) (hA : 0 < A) (hB : 0 < B)
    (haA : a ≤ A) (hbB : b ≤ B) (h : a * b = A * B) : a = A ∧ b = B := by
  constructor
  · by_contra hne
    have hlt : a < A := lt_of_le_of_ne haA hne
    have : a * b < A * B := by nlinarith
    linarith
  · by_contra hne
    have hlt : b < B := lt_of_le_of_ne hbB hne
    have : a * b < A * B := by nlinarith
    linarith

/-- value bookkeeping of one truncated product `y ≈ a·b` where `a ≈ A` with `i` and `b ≈ B` with `j`
accumulated truncations. -/
theorem prod_vals {a b A B y : ℚ} {i j : Nat}
    (hA : 0 < A) (hB : 0 < B) (ha0 : 0 ≤ a) (hb0 : 0 ≤ b)
    (a1 : A * (1 - eps) ^ i ≤ a) (a2 : a ≤ A) (b1 : B * (1 - eps) ^ j ≤ b) (b2 : b ≤ B)
    (y1 : y ≤ a * b) (y2 : a * b * (1 - eps) ≤ y) :
    A * B * (1 - eps) ^ (i + j + 1) ≤ y ∧ y ≤ A * B ∧ (y = A * B → y = a * b ∧ a = A ∧ b = B) := by
  have h0 := one_sub_eps_pos
  have hab : a * b ≤ A * B := mul_le_mul a2 b2 hb0 hA.le
  refine ⟨?_, le_trans y1 hab, ?_⟩
  · have e : A * B * (1 - eps) ^ (i + j + 1)
        = (A * (1 - eps) ^ i) * (B * (1 - eps) ^ j) * (1 - eps) := by ring
    rw [e]
    have : (A * (1 - eps) ^ i) * (B * (1 - eps) ^ j) ≤ a * b :=
      mul_le_mul a1 b1 (by positivity) ha0
    nlinarith
  · intro he
    have h1 : a * b = A * B := le_antisymm hab (by rw [← he]; exact y1)
    obtain ⟨e1, e2⟩ := mul_eq_of_le ha0 hb0 hA hB a2 b2 h1
    exact ⟨by rw [he, h1], e1, e2⟩

/-- loop body, `p10` even: `d := d·d; p10 /= 2`. -/
theorem PwInv.body_even {x : ℚ} {P : Nat} {t0 : Int8} {d : Gen.decomposed192} {trunc : Int8}
    {p10 : Int64} {rtrunc : Int8} {r : Gen.decomposed192} (h : PwInv x P t0 d trunc p10 rtrunc r)
    (hx : 1 ≤ x) (hgt : 1 < p10.toInt) (hev : ¬ p10.toInt % 2 = 1)
    (z : Gen.decomposed192 × Int8) (hz : MulQ2 d d trunc z) :
    PwInv x P t0 z.1 z.2 (p10 / 2) rtrunc r ∧ (p10 / 2).toInt < p10.toInt := by
  obtain ⟨n, m, hn, hmn, hp, hnm, d1, d2, r1, r2, fd1, fd2, fr1, fr2⟩ := h
  obtain ⟨z1, z2, z3, z4, -, -⟩ := hz
  have hdiv := i64_div_two p10 (by omega)
  have hxn : (0 : ℚ) < x ^ n := by positivity
  have hd0 : 0 ≤ val d := val_nonneg d
  obtain ⟨v1, v2, v3⟩ := prod_vals hxn hxn hd0 hd0 d1 d2 d1 d2 z1 z2
  have e2n : x ^ n * x ^ n = x ^ (2 * n) := by ring
  rw [e2n] at v1 v2 v3
  refine ⟨⟨2 * n, m, by omega, by omega, by rw [hdiv]; omega, ?_, ?_, v2, r1, r2, ?_, ?_, fr1, ?_⟩,
    by rw [hdiv]; omega⟩
  · rw [hdiv]; push_cast
    have : p10.toInt = 2 * (p10.toInt / 2) := by omega
    nlinarith
  · have : n - 1 + (n - 1) + 1 = 2 * n - 1 := by omega
    rw [← this]; exact v1
  · intro he
    obtain ⟨e1, e2, -⟩ := v3 he
    rw [z3 e1, fd1 e2]
  · intro hne
    by_cases hy : val z.1 = val d * val d
    · have : val d ≠ x ^ n := by
        intro hd; apply hne; rw [hy, hd, e2n]
      rw [z3 hy, fd2 this]
    · exact z4 hy
  · intro hr
    rcases fr2 hr with h | h
    · exact Or.inl h
    · right
      intro he
      exact h (v3 he).2.1

/-- loop body, `p10` odd: `r := d·r; p10--; d := d·d; p10 /= 2`. -/
theorem PwInv.body_odd {x : ℚ} {P : Nat} {t0 : Int8} {d : Gen.decomposed192} {trunc : Int8}
    {p10 : Int64} {rtrunc : Int8} {r : Gen.decomposed192} (h : PwInv x P t0 d trunc p10 rtrunc r)
    (hx : 1 ≤ x) (hgt : 1 < p10.toInt) (hodd : p10.toInt % 2 = 1)
    (y : Gen.decomposed192 × Int8) (hy : MulQ2 d r rtrunc y)
    (z : Gen.decomposed192 × Int8) (hz : MulQ2 d d trunc z) :
    PwInv x P t0 z.1 z.2 ((p10 - 1) / 2) y.2 y.1 ∧ ((p10 - 1) / 2).toInt < p10.toInt := by
  obtain ⟨n, m, hn, hmn, hp, hnm, d1, d2, r1, r2, fd1, fd2, fr1, fr2⟩ := h
  obtain ⟨z1, z2, z3, z4, -, -⟩ := hz
  obtain ⟨y1, y2, y3, y4, -, -⟩ := hy
  have hsub := i64_sub_one p10 hp
  have hdiv := i64_div_two (p10 - 1) (by rw [hsub]; omega)
  rw [hsub] at hdiv
  have hxn : (0 : ℚ) < x ^ n := by positivity
  have hxm : (0 : ℚ) < x ^ m := by positivity
  have hd0 : 0 ≤ val d := val_nonneg d
  have hr0 : 0 ≤ val r := val_nonneg r
  obtain ⟨v1, v2, v3⟩ := prod_vals hxn hxn hd0 hd0 d1 d2 d1 d2 z1 z2
  obtain ⟨w1, w2, w3⟩ := prod_vals hxn hxm hd0 hr0 d1 d2 r1 r2 y1 y2
  have e2n : x ^ n * x ^ n = x ^ (2 * n) := by ring
  have enm : x ^ n * x ^ m = x ^ (m + n) := by ring
  rw [e2n] at v1 v2 v3
  rw [enm] at w1 w2 w3
  refine ⟨⟨2 * n, m + n, by omega, by omega, by rw [hdiv]; omega, ?_, ?_, v2, ?_, w2, ?_, ?_, ?_, ?_⟩,
    by rw [hdiv]; omega⟩
  · rw [hdiv]; push_cast
    have : p10.toInt - 1 = 2 * ((p10.toInt - 1) / 2) := by omega
    nlinarith
  · have : n - 1 + (n - 1) + 1 = 2 * n - 1 := by omega
    rw [← this]; exact v1
  · have : n - 1 + m + 1 = m + n := by omega
    rw [this] at w1; exact w1
  · intro he
    obtain ⟨e1, e2, -⟩ := v3 he
    rw [z3 e1, fd1 e2]
  · intro hne
    by_cases hy : val z.1 = val d * val d
    · have : val d ≠ x ^ n := by
        intro hd; apply hne; rw [hy, hd, e2n]
      rw [z3 hy, fd2 this]
    · exact z4 hy
  · intro he
    obtain ⟨e1, e2, e3⟩ := w3 he
    rw [y3 e1, fr1 e3]
  · intro hne
    by_cases hyy : val y.1 = val d * val r
    · by_cases hd : val d = x ^ n
      · have hr : val r ≠ x ^ m := by
          intro hr; apply hne; rw [hyy, hd, hr, enm]
        rcases fr2 hr with h | h
        · left; rw [y3 hyy, h]
        · exact absurd hd h
      · right
        intro he
        exact hd (v3 he).2.1
    · left; exact y4 hyy

theorem PwInv.init (d : Gen.decomposed192) (t0 : Int8) (p : Int64) (hp : 1 ≤ p.toInt) :
    PwInv (val d) p.toInt.toNat t0 d t0 p t0 ⟨⟨1, 0, 0⟩, 0⟩ := by
  refine ⟨1, 0, by omega, by omega, hp, by push_cast; omega, by simp, by simp, ?_, ?_,
    fun _ => rfl, fun h => absurd (by simp) h, fun _ => rfl, fun h => ?_⟩
  · simp [val, U192.toNat]
  · simp [val, U192.toNat]
  · exfalso; apply h; simp [val, U192.toNat]

/-- what the loop and the final product deliver -/
def PwPost (x : ℚ) (P : Nat) (t0 : Int8) (res : Gen.decomposed192 × Int8) : Prop :=
  (res.1 = Gen.dinf ∧ (10 : ℚ) ^ (16326 : Int) ≤ x ^ P) ∨
  (x ^ P * (1 - eps) ^ P ≤ val res.1 ∧ val res.1 ≤ x ^ P ∧
    (val res.1 = x ^ P → res.2 = if t0 = 0 then 0 else 1) ∧ (val res.1 ≠ x ^ P → res.2 = 1))

theorem val_ge_pow (y : Gen.decomposed192) (h : 1 ≤ y.sig.toNat) :
    (10 : ℚ) ^ y.exp.toInt ≤ val y := by
  unfold val
  have : (1 : ℚ) ≤ (y.sig.toNat : ℚ) := by exact_mod_cast h
  have hp : (0 : ℚ) < (10 : ℚ) ^ y.exp.toInt := zpow_pos (by norm_num) _
  nlinarith

theorem PwInv.overflow1 {x : ℚ} {P : Nat} {t0 : Int8} {d : Gen.decomposed192} {trunc : Int8}
    {p10 : Int64} {rtrunc : Int8} {r : Gen.decomposed192} (h : PwInv x P t0 d trunc p10 rtrunc r)
    (hx : 1 ≤ x) (hP : P ≤ 10 ^ 7) (hov : 16326 ≤ d.exp.toInt) : (10 : ℚ) ^ (16326 : Int) ≤ x ^ P := by
  obtain ⟨-, -, -, hdv, -⟩ := h.exps hx hP
  obtain ⟨n, m, hn, hmn, hp, hnm, d1, d2, -⟩ := h
  have hnP : n ≤ P := by
    have : (n : Int) ≤ (n : Int) * p10.toInt := by nlinarith
    omega
  have h1 := val_ge_pow d (sig_pos_of_val_pos d (by linarith))
  have h2 : (10 : ℚ) ^ (16326 : Int) ≤ (10 : ℚ) ^ d.exp.toInt := zpow_le_zpow_right₀ (by norm_num) hov
  have h3 : x ^ n ≤ x ^ P := pow_le_pow_right₀ hx hnP
  linarith

theorem PwInv.overflow2 {x : ℚ} {P : Nat} {t0 : Int8} {d : Gen.decomposed192} {trunc : Int8}
    {p10 : Int64} {rtrunc : Int8} {r : Gen.decomposed192} (h : PwInv x P t0 d trunc p10 rtrunc r)
    (hx : 1 ≤ x) (hP : P ≤ 10 ^ 7) (hov : 32652 ≤ d.exp.toInt + r.exp.toInt) :
    (10 : ℚ) ^ (16326 : Int) ≤ x ^ P := by
  obtain ⟨-, -, -, hdv, hrv⟩ := h.exps hx hP
  obtain ⟨n, m, hn, hmn, hp, hnm, d1, d2, r1, r2, -⟩ := h
  have hnP : n + m ≤ P := by
    have : (n : Int) ≤ (n : Int) * p10.toInt := by nlinarith
    omega
  have h1 := val_ge_pow d (sig_pos_of_val_pos d (by linarith))
  have h1' := val_ge_pow r (sig_pos_of_val_pos r (by linarith))
  have h2 : (10 : ℚ) ^ (32652 : Int) ≤ (10 : ℚ) ^ (d.exp.toInt + r.exp.toInt) :=
    zpow_le_zpow_right₀ (by norm_num) hov
  rw [zpow_add₀ (by norm_num)] at h2
  have h3 : x ^ (n + m) ≤ x ^ P := pow_le_pow_right₀ hx hnP
  have h4 : (10 : ℚ) ^ (16326 : Int) ≤ (10 : ℚ) ^ (32652 : Int) :=
    zpow_le_zpow_right₀ (by norm_num) (by norm_num)
  have hpd : (0 : ℚ) < (10 : ℚ) ^ d.exp.toInt := zpow_pos (by norm_num) _
  have hpr : (0 : ℚ) < (10 : ℚ) ^ r.exp.toInt := zpow_pos (by norm_num) _
  have h5 : (10 : ℚ) ^ d.exp.toInt * (10 : ℚ) ^ r.exp.toInt ≤ val d * val r :=
    mul_le_mul h1 h1' hpr.le (by linarith)
  have h6 : val d * val r ≤ x ^ n * x ^ m :=
    mul_le_mul d2 r2 (by linarith) (by positivity)
  have e2 : x ^ n * x ^ m = x ^ (n + m) := by ring
  calc (10 : ℚ) ^ (16326 : Int) ≤ (10 : ℚ) ^ (32652 : Int) := h4
    _ ≤ (10 : ℚ) ^ d.exp.toInt * (10 : ℚ) ^ r.exp.toInt := h2
    _ ≤ val d * val r := h5
    _ ≤ x ^ n * x ^ m := h6
    _ = x ^ (n + m) := e2
    _ ≤ x ^ P := h3

/-- the final product. -/
theorem PwInv.final {x : ℚ} {P : Nat} {t0 : Int8} {d : Gen.decomposed192} {trunc : Int8}
    {p10 : Int64} {rtrunc : Int8} {r : Gen.decomposed192} (h : PwInv x P t0 d trunc p10 rtrunc r)
    (hx : 1 ≤ x) (hle : ¬ 1 < p10.toInt) (T : Int8)
    (hT : T = if rtrunc != 0 then 1 else trunc)
    (y : Gen.decomposed192 × Int8) (hy : MulQ2 d r T y) : PwPost x P t0 y := by
  obtain ⟨n, m, hn, hmn, hp, hnm, d1, d2, r1, r2, fd1, fd2, fr1, fr2⟩ := h
  obtain ⟨y1, y2, y3, y4, -, -⟩ := hy
  have hp1 : p10.toInt = 1 := by omega
  have hP : n + m = P := by rw [hp1] at hnm; omega
  have hxn : (0 : ℚ) < x ^ n := by positivity
  have hxm : (0 : ℚ) < x ^ m := by positivity
  obtain ⟨w1, w2, w3⟩ := prod_vals hxn hxm (val_nonneg d) (val_nonneg r) d1 d2 r1 r2 y1 y2
  have enm : x ^ n * x ^ m = x ^ P := by rw [← hP]; ring
  rw [enm] at w1 w2 w3
  right
  refine ⟨?_, w2, ?_, ?_⟩
  · have : n - 1 + m + 1 = P := by omega
    rw [this] at w1; exact w1
  · intro he
    obtain ⟨e1, e2, e3⟩ := w3 he
    rw [y3 e1, hT, fd1 e2, fr1 e3]
    by_cases h0 : t0 = 0
    · subst h0; simp
    · rw [if_neg h0, if_pos (by simpa using h0)]
  · intro hne
    by_cases hyy : val y.1 = val d * val r
    · rw [y3 hyy, hT]
      by_cases hd : val d = x ^ n
      · have hr : val r ≠ x ^ m := by
          intro hr; apply hne; rw [hyy, hd, hr, enm]
        rcases fr2 hr with h | h
        · rw [h]; simp
        · exact absurd hd h
      · rw [fd2 hd]; split <;> rfl
    · exact y4 hyy

/-! ### `Int64` forms of the loop guards -/

/-- loop measure -/
def pM (p : Int64) : Nat := p.toInt.toNat

theorem i64_one_lt (p : Int64) : 1 < p ↔ 1 < p.toInt := by
  rw [Int64.lt_iff_toInt_lt]; rfl

theorem i64_le_one (p : Int64) : p ≤ 1 ↔ p.toInt ≤ 1 := by
  rw [Int64.le_iff_toInt_le]; rfl

theorem i64_and_one_eq (p : Int64) : p &&& 1 = 0 ↔ ¬ p.toInt % 2 = 1 := by
  have := i64_and_one p
  rw [bne_iff_ne, ne_eq] at this
  constructor
  · intro h h1; exact (this.mpr h1) h
  · intro h; by_contra hc; exact h (this.mp hc)

theorem conv_mul_two (e : Int16) : ((Go.conv e : Int64) * 2).toInt = 2 * e.toInt := by
  have := Int16.toInt_lt e; have := Int16.le_toInt e
  rw [Int64.toInt_mul, conv_i16_i64]
  have h2 : (2 : Int64).toInt = 2 := by decide
  rw [h2]
  have : (e.toInt * 2).bmod (2 ^ 64) = e.toInt * 2 := by apply Int.bmod_eq_of_le <;> omega
  omega

theorem conv2_gt (e : Int16) : 32651 < (Go.conv e : Int64) * 2 ↔ 16326 ≤ e.toInt := by
  rw [Int64.lt_iff_toInt_lt, conv_mul_two]
  have : (32651 : Int64).toInt = 32651 := by decide
  rw [this]; omega

theorem conv2_le (e : Int16) : (Go.conv e : Int64) * 2 ≤ 32651 ↔ e.toInt ≤ 16325 := by
  rw [Int64.le_iff_toInt_le, conv_mul_two]
  have : (32651 : Int64).toInt = 32651 := by decide
  rw [this]; omega

theorem conv_add (a b : Int16) : ((Go.conv a : Int64) + Go.conv b).toInt = a.toInt + b.toInt := by
  have := Int16.toInt_lt a; have := Int16.le_toInt a
  have := Int16.toInt_lt b; have := Int16.le_toInt b
  rw [Int64.toInt_add, conv_i16_i64, conv_i16_i64]
  apply Int.bmod_eq_of_le <;> omega

theorem convadd_gt (a b : Int16) :
    32651 < (Go.conv a : Int64) + Go.conv b ↔ 32652 ≤ a.toInt + b.toInt := by
  rw [Int64.lt_iff_toInt_lt, conv_add]
  have : (32651 : Int64).toInt = 32651 := by decide
  rw [this]; omega

theorem convadd_le (a b : Int16) :
    (Go.conv a : Int64) + Go.conv b ≤ 32651 ↔ a.toInt + b.toInt ≤ 32651 := by
  rw [Int64.le_iff_toInt_le, conv_add]
  have : (32651 : Int64).toInt = 32651 := by decide
  rw [this]

end D192
