/-
  D128/Proofs/LayoutMain.lean — `Gen.Decimal.format` against `Spec.fmtSpec`.

  * `Ly.flagsOf`, `Ly.precOf`, `Ly.coefOf`, `Ly.expoOf` : reading of `formatArgs` / of a finite `d`
  * `Ly.format_spec_eE`, `Ly.format_spec_fF`, `Ly.format_spec_gG` : the three verb classes
  * `Ly.format_spec`   : `format d buf args = .ok (args, r)` with `bstr r = bstr buf ++ Spec.fmtSpec …`
-/
import D128.Proofs.LayoutSharpG

set_option autoImplicit false
set_option maxRecDepth 4096

namespace Ly
open Dg Gen

/-- the flag set a `formatArgs` record stands for -/
def flagsOf (a : formatArgs) : Spec.Flags :=
  { plus := a.printSign, minus := a.padRight, sharp := a.forceDP, space := a.padSign, zero := a.padZero }

/-- the precision a `formatArgs` record stands for (negative = absent) -/
def precOf (a : formatArgs) : Option Nat :=
  if a.prec.toInt < 0 then none else some a.prec.toInt.toNat

theorem precision_eq (a : formatArgs) :
    formatArgs.precision a = if a.prec < 0 then ((0 : Int64), false) else (a.prec, true) := by
  unfold formatArgs.precision
  by_cases h : a.prec < 0 <;> simp [h, Id.run] <;> rfl

/-- the coefficient/exponent pair of a finite `d` -/
def coefOf (d : Decimal) : Nat := (Decimal.decompose d).1.toNat
def expoOf (d : Decimal) : Int := (Decimal.decompose d).2.toInt - 6176

theorem prec_default (args : formatArgs) (hprec : args.prec.toInt < 2 ^ 56) :
    ∃ P : Nat, (if (if args.prec < 0 then ((0 : Int64), false) else (args.prec, true)).2 = true
        then (if args.prec < 0 then ((0 : Int64), false) else (args.prec, true)).1.toInt = P
        else P = 6) ∧
      P = (precOf args).getD 6 ∧ P < 2 ^ 56 := by
  have z0 : (0 : Int64).toInt = 0 := by decide
  unfold precOf
  by_cases hn : args.prec < 0
  · have hn' : args.prec.toInt < 0 := by rw [i64_lt, z0] at hn; exact hn
    exact ⟨6, by simp [hn], by simp [hn'], by decide⟩
  · have hn' : ¬ args.prec.toInt < 0 := by rw [i64_lt, z0] at hn; exact hn
    exact ⟨args.prec.toInt.toNat, by rw [if_neg hn]; simp only [if_true]; omega,
      by rw [if_neg hn']; rfl, by omega⟩

theorem format_spec_eE (d : Decimal) (buf : Go.Bytes) (args : formatArgs)
    (hfin : Decimal.isSpecial d = false) (hv : args.verb = 101 ∨ args.verb = 69)
    (hprec : args.prec.toInt < 2 ^ 56) (W : Nat) (hW : args.wid.toInt = W) (hW' : W < 2 ^ 62)
    (hb : buf.size < 2 ^ 61) (hprz : args.padRight = true → args.padZero = false) :
    ∃ r, Decimal.format d buf args = .ok (args, r) ∧
      bstr r = bstr buf ++ Spec.fmtSpec (flagsOf args) (chr args.verb) (precOf args) (some W)
        (Decimal.Signbit d) (Spec.sliceOf (coefOf d) (expoOf d)) := by
  obtain ⟨r0, hr0, hwf, hneg, hs, hx0, hdp, hz⟩ := digits_fin d (default : digits) hfin
  have hf0 : Fin0 r0 := ⟨hwf, hx0, hdp, hz⟩
  replace hs : slice r0 = Spec.sliceOf (coefOf d) (expoOf d) := hs
  have z0 : (0 : Int64).toInt = 0 := by decide
  rw [format_E d buf args hv, hr0, precision_eq]
  have hvc : chr args.verb = 'e' ∨ chr args.verb = 'E' := by
    rcases hv with h | h <;> rw [h]
    · left; rfl
    · right; rfl
  obtain ⟨P, hP, hPdef, hPb⟩ := prec_default args hprec
  obtain ⟨r, hr, hstr, hnorm⟩ := formatE_spec r0 hf0 buf args _ _ (formatArgs.width args) P hP (by omega) W hW hW' hb hprz
  refine ⟨r, hr, ?_⟩
  rw [hstr, fmtSpec_eq, bodyOf_e _ _ _ hvc, ← hPdef, hneg, hs]
  show _ = bstr buf ++ padStr args.padRight args.padZero W (signStr (Decimal.Signbit d) args.printSign args.padSign)
    (if args.forceDP = true then _ else _)
  cases hsh : args.forceDP
  · rfl
  · simp only [if_true]
    rw [sharpFix_layoutE _ (by rw [← hs]; exact hnorm) P _ hvc _ hvc]

theorem format_spec_fF (d : Decimal) (buf : Go.Bytes) (args : formatArgs)
    (hfin : Decimal.isSpecial d = false) (hv : args.verb = 102 ∨ args.verb = 70)
    (hprec : args.prec.toInt < 2 ^ 56) (W : Nat) (hW : args.wid.toInt = W) (hW' : W < 2 ^ 62)
    (hb : buf.size < 2 ^ 61) (hprz : args.padRight = true → args.padZero = false) :
    ∃ r, Decimal.format d buf args = .ok (args, r) ∧
      bstr r = bstr buf ++ Spec.fmtSpec (flagsOf args) (chr args.verb) (precOf args) (some W)
        (Decimal.Signbit d) (Spec.sliceOf (coefOf d) (expoOf d)) := by
  obtain ⟨r0, hr0, hwf, hneg, hs, hx0, hdp, hz⟩ := digits_fin d (default : digits) hfin
  have hf0 : Fin0 r0 := ⟨hwf, hx0, hdp, hz⟩
  replace hs : slice r0 = Spec.sliceOf (coefOf d) (expoOf d) := hs
  rw [format_F d buf args hv, hr0, precision_eq]
  have hvc : chr args.verb = 'f' ∨ chr args.verb = 'F' := by
    rcases hv with h | h <;> rw [h]
    · left; rfl
    · right; rfl
  obtain ⟨P, hP, hPdef, hPb⟩ := prec_default args hprec
  obtain ⟨r, hr, hstr, hnorm⟩ := formatF_spec r0 hf0 buf args _ _ (formatArgs.width args) P hP
    (by omega) W hW hW' hb hprz
  refine ⟨r, hr, ?_⟩
  rw [hstr, fmtSpec_eq, bodyOf_f _ _ _ hvc, ← hPdef, hneg, hs]
  show _ = bstr buf ++ padStr args.padRight args.padZero W (signStr (Decimal.Signbit d) args.printSign args.padSign)
    (if args.forceDP = true then _ else _)
  cases hsh : args.forceDP
  · rfl
  · simp only [if_true]
    rw [sharpFix_layoutF _ (by rw [← hs]; exact hnorm) P _ hvc]

theorem format_spec_gG (d : Decimal) (buf : Go.Bytes) (args : formatArgs)
    (hfin : Decimal.isSpecial d = false) (hv : args.verb = 103 ∨ args.verb = 71)
    (hprec : args.prec.toInt < 2 ^ 56) (W : Nat) (hW : args.wid.toInt = W) (hW' : W < 2 ^ 62)
    (hb : buf.size < 2 ^ 61) (hprz : args.padRight = true → args.padZero = false) :
    ∃ r, Decimal.format d buf args = .ok (args, r) ∧
      bstr r = bstr buf ++ Spec.fmtSpec (flagsOf args) (chr args.verb) (precOf args) (some W)
        (Decimal.Signbit d) (Spec.sliceOf (coefOf d) (expoOf d)) := by
  obtain ⟨r0, hr0, hwf, hneg, hs, hx0, hdp, hz⟩ := digits_fin d (default : digits) hfin
  have hf0 : Fin0 r0 := ⟨hwf, hx0, hdp, hz⟩
  replace hs : slice r0 = Spec.sliceOf (coefOf d) (expoOf d) := hs
  have z0 : (0 : Int64).toInt = 0 := by decide
  have hn0 := hwf.n0
  have hn39 := hwf.n39
  rw [format_G d buf args hv, hr0, precision_eq]
  have hvc : chr args.verb = 'g' ∨ chr args.verb = 'G' := by
    rcases hv with h | h <;> rw [h]
    · left; rfl
    · right; rfl
  have hec : chr (if (args.verb == 71) = true then 69 else 101) =
      (if chr args.verb == 'G' then 'E' else 'e') := by
    rcases hv with h | h <;> rw [h] <;> rfl
  have hs0 : NormS (slice r0) := by rw [← nslice_fin0 r0 hf0]; exact normS_nslice r0 hwf
  have hlen0 : (slice r0).ds.length = r0.ndig.toInt.toNat := msd_length _ _
  -- the precision in effect
  obtain ⟨P, M, hP, hPb, hM1, hMP, hcase⟩ : ∃ P M : Nat,
      (if (if args.prec < 0 then ((0 : Int64), false) else (args.prec, true)).2 = true then
        (0 ≤ (if args.prec < 0 then ((0 : Int64), false) else (args.prec, true)).1.toInt ∧
          P = max (if args.prec < 0 then ((0 : Int64), false) else (args.prec, true)).1.toInt.toNat 1 ∧
          M = P)
        else (P = max r0.ndig.toInt.toNat 6 ∧ M = 6)) ∧ P < 2 ^ 57 ∧ 1 ≤ M ∧ M ≤ P ∧
      ((∃ p0, precOf args = some p0 ∧ P = max p0 1 ∧ M = P) ∨
        (precOf args = none ∧ P = max r0.ndig.toInt.toNat 6 ∧ M = 6)) := by
    unfold precOf
    by_cases hn : args.prec < 0
    · have hn' : args.prec.toInt < 0 := by rw [i64_lt, z0] at hn; exact hn
      refine ⟨max r0.ndig.toInt.toNat 6, 6, by simp [hn], by omega, by omega, by omega,
        Or.inr ⟨by rw [if_pos hn'], rfl, rfl⟩⟩
    · have hn' : ¬ args.prec.toInt < 0 := by rw [i64_lt, z0] at hn; exact hn
      refine ⟨max args.prec.toInt.toNat 1, max args.prec.toInt.toNat 1, ?_, by omega, by omega,
        by omega, Or.inl ⟨args.prec.toInt.toNat, by rw [if_neg hn'], rfl, rfl⟩⟩
      rw [if_neg hn]
      exact ⟨by show 0 ≤ args.prec.toInt; omega, rfl, rfl⟩
  obtain ⟨r, hr, hstr, hnorm, hlen⟩ := formatG_spec r0 hf0 buf args _ _ (formatArgs.width args) P M
    hP hPb W hW hW' hb hprz
  refine ⟨r, hr, ?_⟩
  rw [hstr, fmtSpec_eq, hneg, hec]
  rw [hs] at hnorm hlen hs0 hlen0 ⊢
  generalize Spec.sliceOf (coefOf d) (expoOf d) = s at *
  show _ = bstr buf ++ padStr args.padRight args.padZero W (signStr (Decimal.Signbit d) args.printSign args.padSign)
    (if args.forceDP = true then _ else _)
  -- without '#'
  have hplain : bodyG (Spec.roundSlice s P) P M false (if chr args.verb == 'G' then 'E' else 'e') =
      Spec.bodyOf s (chr args.verb) (precOf args) := by
    rcases hcase with ⟨p0, hp0, hPe, hMe⟩ | ⟨hp0, hPe, hMe⟩
    · rw [hp0, hMe]; exact bodyG_some s p0 _ hvc P hPe hnorm hlen
    · rw [hp0, hMe]; exact bodyG_none s hs0 _ hvc P (by rw [hlen0, hPe]; omega)
  cases hsh : args.forceDP
  · simp only [Bool.false_eq_true, if_false]
    rw [hplain]
  · simp only [if_true]
    rw [← hplain]
    have hE : (if chr args.verb == 'G' then 'E' else 'e') = 'e' ∨
        (if chr args.verb == 'G' then 'E' else 'e') = 'E' := by
      rcases hvc with h | h <;> rw [h]
      · left; rfl
      · right; rfl
    rw [sharpFix_bodyG (Spec.roundSlice s P) hnorm P M _ hE _ hvc (precOf args) hlen hM1 hMP]
    · intro c hc1 hc2 hc3
      rcases hcase with ⟨p0, hp0, hPe, hMe⟩ | ⟨hp0, hPe, hMe⟩
      · rw [hp0]; simp only [Option.getD_some]; omega
      · rw [hp0]; simp only [Option.getD_none]
        have : (Spec.roundSlice s P).ds.length = r0.ndig.toInt.toNat := by
          rw [roundSlice_of_le s P (by rw [hlen0, hPe]; omega), hlen0]
        rw [this] at hc2 hc3
        omega
    · intro hz0
      rcases hcase with ⟨p0, hp0, hPe, hMe⟩ | ⟨hp0, hPe, hMe⟩
      · rw [hp0]; simp only [Option.getD_some]; omega
      · rw [hp0]; simp only [Option.getD_none]
        have : (Spec.roundSlice s P).ds.length = r0.ndig.toInt.toNat := by
          rw [roundSlice_of_le s P (by rw [hlen0, hPe]; omega), hlen0]
        rw [this] at hz0
        omega

/-- **`Decimal.format` is `Spec.fmtSpec`** for every finite `d`, the six float verbs, every
precision (absent or `< 2^56`), width (`< 2^62`) and flag combination in which `0` is not combined
with `-` (`parseFormat` never produces that combination; `Decimal.Format` can — see
`pad_zero_minus`).  No panic; `args` is returned unchanged; the bytes already in `buf` stay. -/
theorem format_spec (d : Decimal) (buf : Go.Bytes) (args : formatArgs)
    (hfin : Decimal.isSpecial d = false)
    (hv : args.verb = 101 ∨ args.verb = 69 ∨ args.verb = 102 ∨ args.verb = 70 ∨
      args.verb = 103 ∨ args.verb = 71)
    (hprec : args.prec.toInt < 2 ^ 56) (W : Nat) (hW : args.wid.toInt = W) (hW' : W < 2 ^ 62)
    (hb : buf.size < 2 ^ 61) (hprz : args.padRight = true → args.padZero = false) :
    ∃ r, Decimal.format d buf args = .ok (args, r) ∧
      bstr r = bstr buf ++ Spec.fmtSpec (flagsOf args) (chr args.verb) (precOf args) (some W)
        (Decimal.Signbit d) (Spec.sliceOf (coefOf d) (expoOf d)) := by
  rcases hv with h | h | h | h | h | h
  · exact format_spec_eE d buf args hfin (Or.inl h) hprec W hW hW' hb hprz
  · exact format_spec_eE d buf args hfin (Or.inr h) hprec W hW hW' hb hprz
  · exact format_spec_fF d buf args hfin (Or.inl h) hprec W hW hW' hb hprz
  · exact format_spec_fF d buf args hfin (Or.inr h) hprec W hW hW' hb hprz
  · exact format_spec_gG d buf args hfin (Or.inl h) hprec W hW hW' hb hprz
  · exact format_spec_gG d buf args hfin (Or.inr h) hprec W hW hW' hb hprz

end Ly
