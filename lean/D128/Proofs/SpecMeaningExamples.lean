/-
  D128/Proofs/SpecMeaningExamples.lean — concrete instances: the hypotheses of the main theorems of
  `SpecMeaning*.lean` / `D128/Props/SpecMeaning.lean` are satisfiable on non-trivial inputs.  Closed facts
  about rationals are evaluated with `decide +kernel` (kernel evaluation, no extra axioms).
-/
import D128.Props.SpecMeaning

set_option autoImplicit false

namespace SpecMeaning
open Spec SpecRound

/-! ### 1. comparison -/
example : Spec.cmp (.fin false 100 (-2)) (.inf false) = -1 :=
  (cmp_lt_iff _ _ rfl rfl).2 (fin_lt_top _)
example : Spec.cmp (.fin true 0 5) (.fin false 0 (-3)) = 0 := cmp_neg_zero _ _ _ _
example : Spec.equal (.fin false 1 1) (.fin false 10 0) = true :=
  (equal_fin_iff _ _ _ _ _ _).2 (by decide +kernel)
example : Spec.compare (.nan true 3) (.inf true) = -1 := compare_nan_lt _ _ _ rfl
example : ordKey (Spec.maxVal (.fin true 0 0) (.fin false 0 2)) =
    max (ordKey (.fin true 0 0)) (ordKey (.fin false 0 2)) := ordKey_maxVal _ _ rfl rfl
example : (Val.fin false 10 (-1)).same (Val.fin false 1 0) = true :=
  (ordKey_eq_iff_same _ _ rfl rfl).1 (by
    rw [ordKey_of_not_zero _ rfl, ordKey_of_not_zero _ rfl, ext_fin, ext_fin,
      show (Val.fin false 10 (-1)).toRat = (Val.fin false 1 0).toRat by decide +kernel])

/-! ### 2. arithmetic: 1 − 0.3 (exact), 1/3 (inexact), tiny product (flush) -/
example : Spec.add .toZero (.fin false 1 0) (.fin true 3 (-1)) =
    Spec.roundTo .toZero (decide ((Val.fin false 1 0).toRat + (Val.fin true 3 (-1)).toRat < 0))
      |(Val.fin false 1 0).toRat + (Val.fin true 3 (-1)).toRat| :=
  add_exact_ne_zero _ _ _ _ _ _ _ (by decide) (by decide) (by decide +kernel)
example : Selected .toNegInf ((Val.fin false 1 0).toRat - (Val.fin false 3 (-40)).toRat)
    (Spec.sub .toNegInf (.fin false 1 0) (.fin false 3 (-40))) :=
  Props.SpecMeaningThms.sub_selected _ _ _ _ _ _ _ (by decide) (by decide) (by decide +kernel)
example : Spec.sub .toNegInf (.fin false 1 0) (.fin false 10 (-1)) = .fin true 0 0 :=
  sub_cancel _ _ _ _ _ _ _ (by decide) (by decide) (by decide +kernel)
example : Selected .awayFromZero ((Val.fin true 1 0).toRat * (Val.fin false 3 (-1)).toRat)
    (Spec.mul .awayFromZero (.fin true 1 0) (.fin false 3 (-1))) :=
  Props.SpecMeaningThms.mul_selected _ _ _ _ _ _ _ (by decide) (by decide) (Or.inl (by decide +kernel))
example : Spec.mul .awayFromZero (.fin true 1 (-6000)) (.fin false 3 (-200)) = .fin true 0 Spec.Emin :=
  Props.SpecMeaningThms.mul_flush _ _ _ _ _ _ _ (by decide +kernel) (by decide +kernel)
example : Selected .nearestAway ((Val.fin false 2 0).toRat / (Val.fin true 3 0).toRat)
    (Spec.quo .nearestAway (.fin false 2 0) (.fin true 3 0)) :=
  Props.SpecMeaningThms.quo_selected _ _ _ _ _ _ _ (by decide) (by decide) (Or.inl (by decide +kernel))

/-! ### 3. quoRem: −7 = 2·(−3) + (−1);  10^40 quoRem 3: 40-digit quotient, rounded -/
example : ∃ cq eq, (Spec.quoRem .nearestEven (.fin true 7 0) (.fin false 2 0)).1 = .fin true cq eq ∧
    (Val.fin true cq eq).toRat =
      ((trunc ((Val.fin true 7 0).toRat / (Val.fin false 2 0).toRat) : Int) : ℚ) :=
  quoRem_quo_exact _ _ _ _ _ _ _ (by decide) (by rw [natAbs_trunc]; decide +kernel)
example : trunc ((Val.fin true 7 0).toRat / (Val.fin false 2 0).toRat) = -3 := by
  have : (Val.fin true 7 0).toRat / (Val.fin false 2 0).toRat = -(7 / 2) := by decide +kernel
  rw [this, trunc_neg, trunc_of_nonneg (by norm_num)]
  have : ⌊(7 / 2 : ℚ)⌋₊ = 3 := by decide +kernel
  rw [this]; rfl
example : ¬ Member (((trunc ((Val.fin false 1 40).toRat / (Val.fin false 3 0).toRat)).natAbs : Nat) : ℚ) := by
  rw [natAbs_trunc, ← isMember_iff (Nat.cast_nonneg _)]
  decide +kernel

/-! ### 4. quantisation: 0.25 to one decimal (tie), −0.5 to an integer, 0.05 to an integer (flush) -/
theorem ex_not_mult : ¬ IsMult (Val.fin true 25 (-2)).toRat 1 :=
  mt (den_one_iff_isMult true 25 (-2) 1).2 (by decide +kernel)
example : ∃ k : Nat, ModeSelects .nearestEven true (|(Val.fin true 25 (-2)).toRat| / (10 : ℚ) ^ (-(1 : Int))) k ∧
    Spec.quantize 1 .nearestEven (.fin true 25 (-2)) = Spec.exactOrInfS true (k : ℚ) (-1) :=
  quantize_round 1 .nearestEven true 25 (-2) (by decide) ex_not_mult (by decide +kernel)
example : Spec.quantize 0 .awayFromZero (.fin false 5 (-2)) = .fin false 0 0 :=
  quantize_flush 0 .awayFromZero false 5 (-2) (by decide)
    (mt (den_one_iff_isMult false 5 (-2) 0).2 (by decide +kernel)) (by decide +kernel)
example : Spec.quantize (-1) .toZero (.fin false 120 0) = .fin false 120 0 :=
  quantize_of_mult (-1) .toZero false 120 0 (by decide)
    ((den_one_iff_isMult false 120 0 (-1)).1 (by decide +kernel))
example : IsGreatest {y : ℚ | IsMult y 0 ∧ y ≤ (Val.fin true 5 (-1)).toRat}
    (Val.fin true 10000000000000000000000000000000000 (-34)).toRat :=
  floorDp_isGreatest 0 true 5 (-1) (by decide +kernel)
example : Spec.ceilDp (-6200) (.fin false 1 0) = .inf false :=
  (ceilDp_member_inf_iff (-6200) false 1 0 (by decide) (by decide) (by decide) (by decide)).2 (by
    have h : (1 : ℚ) ≤ (⌈(Val.fin false 1 0).toRat / (10 : ℚ) ^ (-(-6200 : Int))⌉ : ℚ) := by
      have : (0 : ℚ) < (Val.fin false 1 0).toRat / (10 : ℚ) ^ (-(-6200 : Int)) := by
        apply div_pos (by decide +kernel) (zpow_pos (by norm_num) _)
      have h1 : (0 : Int) < ⌈(Val.fin false 1 0).toRat / (10 : ℚ) ^ (-(-6200 : Int))⌉ := Int.ceil_pos.2 this
      exact_mod_cast h1
    have hp : (0 : ℚ) < (10 : ℚ) ^ (-(-6200 : Int)) := zpow_pos (by norm_num) _
    have hlt : (Spec.Cmax : ℚ) * (10 : ℚ) ^ Spec.Emax < (10 : ℚ) ^ (-(-6200 : Int)) := by
      have h1 : (Spec.Cmax : ℚ) < (10 : ℚ) ^ (35 : Int) := by
        have h35 : (10 : ℚ) ^ (35 : Int) = ((10 ^ 35 : Nat) : ℚ) := by norm_num
        rw [h35]; exact_mod_cast Cmax_upper
      have h2 : (10 : ℚ) ^ (35 : Int) * (10 : ℚ) ^ Spec.Emax ≤ (10 : ℚ) ^ (-(-6200 : Int)) := by
        rw [← zpow_add₀ (by norm_num : (10 : ℚ) ≠ 0)]
        exact zpow_le_zpow_right₀ (by norm_num) (by unfold Spec.Emax; norm_num)
      have hpE : (0 : ℚ) < (10 : ℚ) ^ Spec.Emax := zpow_pos (by norm_num) _
      calc (Spec.Cmax : ℚ) * (10 : ℚ) ^ Spec.Emax < (10 : ℚ) ^ (35 : Int) * (10 : ℚ) ^ Spec.Emax :=
            mul_lt_mul_of_pos_right h1 hpE
        _ ≤ _ := h2
    calc (Spec.Cmax : ℚ) * (10 : ℚ) ^ Spec.Emax < 1 * (10 : ℚ) ^ (-(-6200 : Int)) := by rw [one_mul]; exact hlt
      _ ≤ _ := mul_le_mul_of_nonneg_right h hp.le)

/-! ### 5. scaling and integer conversions -/
example : (Spec.newVal .nearestEven (-123) 4).same (.fin true 123 4) = true :=
  newVal_member .nearestEven (-123) 4 (by decide) (by decide) (by decide) (by decide)
example : Selected .toPosInf ((Val.fin true 7 (-6180)).toRat * (10 : ℚ) ^ (3 : Int))
    (Spec.ldexp .toPosInf (.fin true 7 (-6180)) 3) :=
  Props.SpecMeaningThms.ldexp_selected _ _ _ _ _ (by decide) (Or.inr rfl)
example : (Spec.ldexp .nearestEven (Spec.frexp (.fin true 1234 5)).1 (Spec.frexp (.fin true 1234 5)).2).same
    (.fin true 1234 5) = true :=
  ldexp_frexp .nearestEven true 1234 5 (by decide) (by decide) (by decide) (by decide)
example : 1 / 10 ≤ |(Spec.frexp (.fin true 1234 5)).1.toRat| ∧ |(Spec.frexp (.fin true 1234 5)).1.toRat| < 1 :=
  frexp_range true 1234 5 (by decide)
example : Spec.sat (-128) 127 (.fin true 1285 (-1)) = some (-128, true) :=
  (sat_ok_iff (-128) 127 _ (-128)).2 ⟨rfl, by
    have : (Val.fin true 1285 (-1)).toRat = -(257 / 2) := by decide +kernel
    rw [this, trunc_neg, trunc_of_nonneg (by norm_num)]
    have : ⌊(257 / 2 : ℚ)⌋₊ = 128 := by decide +kernel
    rw [this]; rfl, by decide, by decide⟩

end SpecMeaning
