/-
  D128/Proofs/ExpAccSplitLoops.lean — property C16, the three loops of the integer/fraction split of the
  argument in `Gen.Exp2` and `Gen.Exp10` (Go: /repo/exp.go), each isolated as a definition and given an exact
  contract; then the contract of their composition (`split_ok`), shared by `Exp2` and `Exp10`
  (D128/Proofs/ExpAccSplit.lean ties the three definitions to the generated code).

  The argument is `|x| = c·10^e`.  With `E = max(-e, 0)` fractional digits and `P = max(e, 0)`:
    loop 1 (`splitRev`)   pops the `E` low digits of `c` and pushes them onto a reversed number:
                          `rev = revDigits c E`, `sig = c / 10^E`, `exp = P`;
    loop 2 (`splitScale`) `n = (c / 10^E)·10^P`;
    loop 3 (`splitUnrev`) pops the digits of `rev` until it is exhausted (this drops the trailing zeros of the
                          fraction) and pushes them back: after `m` steps `f = (c % 10^E) / 10^(E-m)`, `fe = -m`.

  Provided (namespace `ExpAcc`):
  * `revDigits v j` (the low `j` digits of `v`, reversed), `revDigits_lt`, `revDigits_div10`, `revDigits_mod10`,
    `mod_pow_eq_zero_of_revDigits`, `digit_of_mod`, `unrev_step`
  * `splitRev`, `splitScale`, `splitUnrev` (copies of the generated loops) and
    `splitRev_triple`, `splitScale_triple`, `splitUnrev_triple`
  * `unrev_facts` : what the exit state of loop 3 means
  * `SplitFacts c e L f fe n` : the statement about the result; `split_ok` : the three loops run one after the
    other return `f fe n` with `SplitFacts`
-/
import D128.Proofs.TotalExp2
import D128.Proofs.D192Base
set_option autoImplicit false
set_option mvcgen.warning false
set_option linter.unusedVariables false
namespace ExpAcc
open Std.Do
open D128.Proofs.Total D128.Proofs.WordsWide
open Gen

/-! ### digits -/

/-- the low `j` decimal digits of `v`, reversed: digit `0` of `v` becomes the leading digit -/
def revDigits (v : Nat) : Nat → Nat
  | 0 => 0
  | j+1 => revDigits v j * 10 + v / 10^j % 10

theorem revDigits_succ (v j : Nat) : revDigits v (j+1) = revDigits v j * 10 + v / 10^j % 10 := rfl

theorem revDigits_lt (v j : Nat) : revDigits v j < 10^j := by
  induction j with
  | zero => simp [revDigits]
  | succ j ih =>
    have := Nat.mod_lt (v / 10^j) (by norm_num : 0 < 10)
    simp only [revDigits, Nat.pow_succ]; omega

theorem revDigits_div10 (v j : Nat) : revDigits v (j+1) / 10 = revDigits v j := by
  have := Nat.mod_lt (v / 10^j) (by norm_num : 0 < 10)
  rw [revDigits_succ]; omega

theorem revDigits_mod10 (v j : Nat) : revDigits v (j+1) % 10 = v / 10^j % 10 := by
  have := Nat.mod_lt (v / 10^j) (by norm_num : 0 < 10)
  rw [revDigits_succ]; omega

/-- the reversed number vanishes only if all the digits do -/
theorem mod_pow_eq_zero_of_revDigits (v j : Nat) (h : revDigits v j = 0) : v % 10^j = 0 := by
  induction j with
  | zero => simp [Nat.mod_one]
  | succ j ih =>
    rw [revDigits_succ] at h
    have h1 : revDigits v j = 0 := by omega
    have h2 : v / 10^j % 10 = 0 := by omega
    rw [Nat.mod_pow_succ, ih h1, h2, Nat.mul_zero]

/-- digit `j < E` of `v % 10^E` is digit `j` of `v` -/
theorem digit_of_mod (v E j : Nat) (hj : j < E) : v % 10^E / 10^j % 10 = v / 10^j % 10 := by
  have hE : 10^E = 10^j * 10^(E-j) := by rw [← Nat.pow_add]; congr 1; omega
  have hd : 10 ∣ 10^(E-j) := by
    have : E - j = (E - j - 1) + 1 := by omega
    rw [this, Nat.pow_succ]; exact Nat.dvd_mul_left _ _
  rw [hE, Nat.mod_mul_right_div_self, Nat.mod_mod_of_dvd _ hd]

/-- one step of the re-reversal: the next digit is appended to the fraction read so far -/
theorem unrev_step (v E j : Nat) (hj : j < E) :
    v % 10^E / 10^(j+1) * 10 + v / 10^j % 10 = v % 10^E / 10^j := by
  rw [← digit_of_mod v E j hj, Nat.pow_succ, ← Nat.div_div_eq_div_mul]
  omega

/-! ### the three loops -/

/-- first loop of the split: pop the low digits of `sig` while `exp < 0`, push them onto `dSig` -/
def splitRev (dSig sig : U128) (exp : Int16) : Go.GoM (U128 × U128 × Int16) := do
  let mut dSig : U128 := dSig
  let mut sig : U128 := sig
  let mut exp : Int16 := exp
  while (decide (exp < (0 : Int16))) do
    let mut rem : UInt64 := (0 : UInt64)
    let (r_4, r_5) ← U128.div10 sig
    sig := r_4
    rem := r_5
    dSig := (U128.mul64 dSig (10 : UInt64))
    dSig := (U128.add64 dSig rem)
    exp := (exp + (1 : Int16))
  return (dSig, sig, exp)

/-- second loop of the split: `dSigInt·10^exp` for a positive exponent -/
def splitScale (dSigInt : UInt64) (exp : Int16) : Go.GoM (UInt64 × Int16) := do
  let mut dSigInt : UInt64 := dSigInt
  let mut exp : Int16 := exp
  while (decide (exp > (0 : Int16))) do
    dSigInt := (dSigInt * (10 : UInt64))
    exp := (exp - (1 : Int16))
  return (dSigInt, exp)

/-- third loop of the split: pop all digits of `sig`, push them onto `dSig`, count them in `dExp` -/
def splitUnrev (dSig : U128) (dExp : Int16) (sig : U128) : Go.GoM (U128 × Int16 × U128) := do
  let mut dSig : U128 := dSig
  let mut dExp : Int16 := dExp
  let mut sig : U128 := sig
  while ((sig.w0 ||| sig.w1) != (0 : UInt64)) do
    let mut rem_1 : UInt64 := (0 : UInt64)
    let (r_6, r_7) ← U128.div10 sig
    sig := r_6
    rem_1 := r_7
    dSig := (U128.mul64 dSig (10 : UInt64))
    dSig := (U128.add64 dSig rem_1)
    dExp := (dExp - (1 : Int16))
  return (dSig, dExp, sig)

/-- loop 1: with `E = max(-e,0)`: the reversed low `E` digits, the quotient `c / 10^E`, exponent `max(e,0)` -/
theorem splitRev_triple (c : U128) (e : Int16) (hE : -38 ≤ e.toInt) :
    ⦃⌜True⌝⦄ splitRev default c e
    ⦃⇓ r => ⌜r.1.toNat = revDigits c.toNat (-e.toInt).toNat ∧
      r.2.1.toNat = c.toNat / 10 ^ (-e.toInt).toNat ∧ r.2.2.toInt = max e.toInt 0⌝⦄ := by
  mvcgen -trivial [splitRev]
  case inv1 => exact fun st => ⟨dn16 st.2.2⟩
  case inv2 => exact ⇓ x => match x with
    | .inl st => ⌜∃ j : Nat, i16v st.2.2 = e.toInt + j ∧ (i16v st.2.2 ≤ 0 ∨ j = 0) ∧
        st.2.1.toNat = c.toNat / 10 ^ j ∧ st.1.toNat = revDigits c.toNat j⌝
    | .inr st => ⌜∃ j : Nat, i16v st.2.2 = e.toInt + j ∧ (i16v st.2.2 ≤ 0 ∨ j = 0) ∧
        st.2.1.toNat = c.toNat / 10 ^ j ∧ st.1.toNat = revDigits c.toNat j ∧ 0 ≤ i16v st.2.2⌝
  all_goals (simp +zetaDelta at *)
  all_goals d192_prep
  case vc1 =>
    obtain ⟨hm, j, h1, h2, h3, h4⟩ := ‹_ ∧ ∃ _, _›
    obtain ⟨hq, hr⟩ := ‹_ = _ / 10 ∧ _›
    have hj : j + 1 ≤ 38 := by omega
    have hlt := revDigits_lt c.toNat (j + 1)
    have hp : 10 ^ (j + 1) ≤ 10 ^ 38 := Nat.pow_le_pow_right (by norm_num) hj
    have hrev := revDigits_succ c.toNat j
    refine ⟨by omega, j + 1, by push_cast; omega, by omega, ?_, ?_⟩
    · rw [hq, h3, Nat.div_div_eq_div_mul, Nat.pow_succ]
    · rw [hr, h3, h4, ← hrev]
      exact Nat.mod_eq_of_lt (by omega)
  case vc2 =>
    obtain ⟨hm, j, h1, h2, h3, h4⟩ := ‹_ ∧ ∃ _, _›
    exact ⟨j, h1, h2, h3, h4, by omega⟩
  case vc3 =>
    exact ⟨0, by simp, by simp, by simp, by simp [revDigits, U128.toNat]⟩
  case vc4 =>
    obtain ⟨j, h1, h2, h3, h4, h5⟩ := ‹∃ _, _›
    have : j = (-e.toInt).toNat := by omega
    subst this
    exact ⟨h4, h3, by omega⟩

/-- loop 2: `a·10^P`, `P = max(p,0)` (no overflow assumed) -/
theorem splitScale_triple (a : UInt64) (p : Int16) (P : Nat)
    (hP : (p.toInt ≤ 0 ∧ P = 0) ∨ p.toInt = P) (hp : a.toNat * 10 ^ P < 2 ^ 64) :
    ⦃⌜True⌝⦄ splitScale a p ⦃⇓ r => ⌜r.1.toNat = a.toNat * 10 ^ P⌝⦄ := by
  mvcgen -trivial [splitScale]
  case inv1 => exact fun st => ⟨up16 st.2⟩
  case inv2 => exact ⇓ x => match x with
    | .inl st => ⌜∃ j : Nat, j ≤ P ∧ st.1.toNat = a.toNat * 10 ^ j ∧
        (i16v st.2 = P - j ∨ (i16v st.2 ≤ 0 ∧ P = 0))⌝
    | .inr st => ⌜st.1.toNat = a.toNat * 10 ^ P⌝
  all_goals (simp +zetaDelta at *)
  all_goals d192_prep
  case vc1 =>
    obtain ⟨hm, j, h1, h2, h3⟩ := ‹_ ∧ ∃ _, _›
    have hj : j + 1 ≤ P := by omega
    have hle : a.toNat * 10 ^ (j + 1) ≤ a.toNat * 10 ^ P :=
      Nat.mul_le_mul_left _ (Nat.pow_le_pow_right (by norm_num) hj)
    refine ⟨by omega, j + 1, hj, ?_, by omega⟩
    rw [h2, Nat.pow_succ, ← Nat.mul_assoc]
    exact Nat.mod_eq_of_lt (by rw [Nat.pow_succ, ← Nat.mul_assoc] at hle; omega)
  case vc2 =>
    obtain ⟨hm, j, h1, h2, h3⟩ := ‹_ ∧ ∃ _, _›
    have : j = P := by omega
    rw [h2, this]
  case vc3 =>
    exact ⟨0, by omega, by simp, by omega⟩
  case vc4 => assumption

/-- loop 3 on the reversed low `E` digits of `v`: it stops after `m ≤ E` steps, when the rest of the reversed
number is zero, with the `m` leading digits of the `E`-digit fraction `v % 10^E` -/
theorem splitUnrev_triple (s : U128) (v E : Nat) (hE : E ≤ 38) (hs : s.toNat = revDigits v E) :
    ⦃⌜True⌝⦄ splitUnrev default 0 s
    ⦃⇓ r => ⌜∃ m : Nat, m ≤ E ∧ r.2.1.toInt = -(m : Int) ∧ revDigits v (E - m) = 0 ∧
      r.1.toNat = v % 10 ^ E / 10 ^ (E - m) ∧ (m = 0 ∨ revDigits v (E - m + 1) ≠ 0)⌝⦄ := by
  mvcgen -trivial [splitUnrev]
  case inv1 => exact fun st => ⟨st.2.2.toNat⟩
  case inv2 => exact ⇓ x => match x with
    | .inl st => ⌜∃ m : Nat, m ≤ E ∧ i16v st.2.1 = -(m : Int) ∧ st.2.2.toNat = revDigits v (E - m) ∧
        st.1.toNat = v % 10 ^ E / 10 ^ (E - m) ∧ (m = 0 ∨ revDigits v (E - m + 1) ≠ 0)⌝
    | .inr st => ⌜∃ m : Nat, m ≤ E ∧ i16v st.2.1 = -(m : Int) ∧ revDigits v (E - m) = 0 ∧
        st.1.toNat = v % 10 ^ E / 10 ^ (E - m) ∧ (m = 0 ∨ revDigits v (E - m + 1) ≠ 0)⌝
  all_goals (simp +zetaDelta at *)
  all_goals d192_prep
  case vc1 =>
    obtain ⟨hm, m, h1, h2, h3, h4, h5⟩ := ‹_ ∧ ∃ _, _›
    obtain ⟨hq, hr⟩ := ‹_ = _ / 10 ∧ _›
    have hne : E - m ≠ 0 := by
      intro h0
      rw [h0] at h3
      exact ‹¬ _ = 0› h3
    obtain ⟨j, hj⟩ : ∃ j, E - m = j + 1 := ⟨E - m - 1, by omega⟩
    have hj' : E - (m + 1) = j := by omega
    have hjE : j < E := by omega
    have hstep := unrev_step v E j hjE
    have hlt : v % 10 ^ E < 10 ^ 38 :=
      lt_of_lt_of_le (Nat.mod_lt _ (by positivity)) (Nat.pow_le_pow_right (by norm_num) hE)
    have hle : v % 10 ^ E / 10 ^ j ≤ v % 10 ^ E := Nat.div_le_self _ _
    rw [hj] at h3 h4
    refine ⟨?_, m + 1, by omega, by push_cast; omega, ?_, ?_, Or.inr ?_⟩
    · rw [hq, hm]; omega
    · rw [hj', hq, h3, revDigits_div10]
    · rw [hj', hr, h3, h4, revDigits_mod10, hstep]
      exact Nat.mod_eq_of_lt (by omega)
    · rw [hj', ← h3]; assumption
  case vc2 =>
    obtain ⟨hm, m, h1, h2, h3, h4, h5⟩ := ‹_ ∧ ∃ _, _›
    exact ⟨m, h1, h2, by rw [← h3]; assumption, h4, h5⟩
  case vc3 =>
    refine ⟨0, by omega, by simp, by simpa using hs, ?_, Or.inl rfl⟩
    have : v % 10 ^ E / 10 ^ E = 0 := Nat.div_eq_of_lt (Nat.mod_lt _ (by positivity))
    simp [U128.toNat, this]
  case vc4 => assumption

/-! ### what the exit state means -/

/-- exit state of loop 3: `f·10^(E-m)` is the `E`-digit fraction, and `f` has no trailing zero -/
theorem unrev_facts (v E m f : Nat) (hm : m ≤ E) (h0 : revDigits v (E - m) = 0)
    (hf : f = v % 10 ^ E / 10 ^ (E - m)) (h5 : m = 0 ∨ revDigits v (E - m + 1) ≠ 0) :
    f * 10 ^ (E - m) = v % 10 ^ E ∧ (f = 0 → m = 0) ∧ (f ≠ 0 → f % 10 ≠ 0) := by
  have hz := mod_pow_eq_zero_of_revDigits v (E - m) h0
  have hdvd : 10 ^ (E - m) ∣ 10 ^ E := Nat.pow_dvd_pow _ (by omega)
  have h1 : 10 ^ (E - m) ∣ v % 10 ^ E := by
    apply Nat.dvd_of_mod_eq_zero
    rw [Nat.mod_mod_of_dvd _ hdvd, hz]
  have key : m ≠ 0 → f % 10 ≠ 0 := by
    intro hm0
    have h6 : revDigits v (E - m + 1) ≠ 0 := by
      rcases h5 with h | h
      · exact absurd h hm0
      · exact h
    rw [revDigits_succ, h0] at h6
    rw [hf, digit_of_mod v E (E - m) (by omega)]
    omega
  have hm0 : m = 0 → f = 0 := by
    intro h
    rw [hf, h, Nat.sub_zero]
    exact Nat.div_eq_of_lt (Nat.mod_lt _ (by positivity))
  refine ⟨by rw [hf]; exact Nat.div_mul_cancel h1, fun hf0 => ?_, fun hf0 => ?_⟩
  · by_contra hc
    have := key hc
    omega
  · exact key (fun h => hf0 (hm0 h))

/-- the value equation of the split -/
theorem split_value (c : Nat) (e : Int) (E P m f n : Nat) (hE : (E : Int) = max (-e) 0)
    (hP : (P : Int) = max e 0) (hm : m ≤ E) (hf : f * 10 ^ (E - m) = c % 10 ^ E)
    (hn : n = c / 10 ^ E * 10 ^ P) :
    (n : ℚ) + (f : ℚ) * (10 : ℚ) ^ (-(m : Int)) = (c : ℚ) * (10 : ℚ) ^ e ∧
    (f : ℚ) * (10 : ℚ) ^ (-(m : Int)) < 1 := by
  rcases lt_or_ge e 0 with he | he
  · have hP0 : P = 0 := by omega
    have heE : e = -(E : Int) := by omega
    subst hP0
    rw [heE]
    have hpos : (0 : ℚ) < (10 : ℚ) ^ E := by positivity
    have h10 : (10 : ℚ) ^ (-(m : Int)) = (10 : ℚ) ^ (E - m) * (10 : ℚ) ^ (-(E : Int)) := by
      rw [zpow_neg, zpow_neg, zpow_natCast, zpow_natCast]
      have : (10 : ℚ) ^ E = (10 : ℚ) ^ (E - m) * (10 : ℚ) ^ m := by
        rw [← pow_add]; congr 1; omega
      rw [this]
      field_simp
    have hfr : (f : ℚ) * (10 : ℚ) ^ (-(m : Int)) = ((c % 10 ^ E : Nat) : ℚ) * (10 : ℚ) ^ (-(E : Int)) := by
      rw [← hf, h10]; push_cast; ring
    have hdm : (c : ℚ) = (10 : ℚ) ^ E * (n : ℚ) + ((c % 10 ^ E : Nat) : ℚ) := by
      have := Nat.div_add_mod c (10 ^ E)
      rw [hn, Nat.pow_zero, Nat.mul_one]
      exact_mod_cast this.symm
    have hinv : (10 : ℚ) ^ E * (10 : ℚ) ^ (-(E : Int)) = 1 := by
      rw [zpow_neg, zpow_natCast]; field_simp
    have hlt : ((c % 10 ^ E : Nat) : ℚ) < (10 : ℚ) ^ E := by
      have : c % 10 ^ E < 10 ^ E := Nat.mod_lt _ (by positivity)
      exact_mod_cast this
    rw [hfr]
    refine ⟨?_, ?_⟩
    · rw [hdm, add_mul, mul_assoc, mul_comm (n : ℚ), ← mul_assoc, hinv, one_mul]
    · rw [zpow_neg, zpow_natCast, ← div_eq_mul_inv, div_lt_one hpos]
      exact hlt
  · have hE0 : E = 0 := by omega
    have heP : e = (P : Int) := by omega
    subst hE0
    have hm0 : m = 0 := by omega
    subst hm0
    have hf0 : f = 0 := by simpa [Nat.mod_one] using hf
    subst hf0
    rw [heP, hn]
    simp

/-- the integer part has at most `G+1` digits -/
theorem split_int_bound (c L E P G : Nat) (hc : c < 10 ^ (L + 1)) (h : L + P ≤ G + E)
    (hEP : E = 0 ∨ P = 0) : c / 10 ^ E * 10 ^ P < 10 ^ (G + 1) := by
  rcases hEP with h0 | h0
  · subst h0
    rw [Nat.pow_zero, Nat.div_one]
    calc c * 10 ^ P < 10 ^ (L + 1) * 10 ^ P := Nat.mul_lt_mul_of_pos_right hc (by positivity)
      _ = 10 ^ (L + 1 + P) := by rw [← Nat.pow_add]
      _ ≤ 10 ^ (G + 1) := Nat.pow_le_pow_right (by norm_num) (by omega)
  · subst h0
    rw [Nat.pow_zero, Nat.mul_one]
    apply Nat.div_lt_of_lt_mul
    calc c < 10 ^ (L + 1) := hc
      _ ≤ 10 ^ (E + (G + 1)) := Nat.pow_le_pow_right (by norm_num) (by omega)
      _ = 10 ^ E * 10 ^ (G + 1) := by rw [Nat.pow_add]

theorem Cmax_lt : Spec.Cmax < 10 ^ 35 := by unfold Spec.Cmax; norm_num

/-! ### the three loops one after the other -/

/-- the split of `|x| = c·10^e ≥ 1` (`L = ⌊log10 c⌋`, `0 ≤ L + e ≤ G`): the three loops return the integer part
`n = ⌊|x|⌋ < 10^(G+1)` and the fraction `f·10^fe = |x| - n` with `f` free of trailing zeros (`f = 0, fe = 0` when
the fraction vanishes) -/
theorem split_ok (dSig : U128) (dExp : Int16) (L G : Nat) (hG : G ≤ 17)
    (hc0 : 1 ≤ dSig.toNat) (hc : dSig.toNat ≤ Spec.Cmax)
    (hl : L = Nat.log 10 dSig.toNat) (hg : dExp.toInt ≤ (G : Int) - L) (hpos : 0 ≤ (L : Int) + dExp.toInt) :
    ∃ (s1 : U128 × U128 × Int16) (s2 : UInt64 × Int16) (s3 : U128 × Int16 × U128),
      splitRev default dSig dExp = .ok s1 ∧ splitScale s1.2.1.w0 s1.2.2 = .ok s2 ∧
      splitUnrev default 0 s1.1 = .ok s3 ∧
      (s2.1.toNat : ℚ) + (s3.1.toNat : ℚ) * (10 : ℚ) ^ s3.2.1.toInt
        = (dSig.toNat : ℚ) * (10 : ℚ) ^ dExp.toInt ∧
      (s3.1.toNat : ℚ) * (10 : ℚ) ^ s3.2.1.toInt < 1 ∧ s2.1.toNat < 10 ^ (G + 1) ∧ 1 ≤ s2.1.toNat ∧
      s3.1.toNat ≤ Spec.Cmax ∧ -40 ≤ s3.2.1.toInt ∧ s3.2.1.toInt ≤ 0 ∧
      (s3.1.toNat = 0 → s3.2.1 = 0) ∧ (s3.1.toNat ≠ 0 → s3.1.toNat % 10 ≠ 0) := by
  have hL : L < 35 := by
    rw [hl]
    exact Nat.log_lt_of_lt_pow (by omega) (lt_of_le_of_lt hc Cmax_lt)
  have hcL : dSig.toNat < 10 ^ (L + 1) := by
    rw [hl]; exact Nat.lt_pow_succ_log_self (by norm_num) _
  have hLc : 10 ^ L ≤ dSig.toNat := by
    rw [hl]; exact Nat.pow_log_le_self 10 (by omega)
  -- the numbers of fractional digits and of appended zeros
  obtain ⟨E, hE⟩ : ∃ E : Nat, E = (-dExp.toInt).toNat := ⟨_, rfl⟩
  obtain ⟨P, hP⟩ : ∃ P : Nat, P = dExp.toInt.toNat := ⟨_, rfl⟩
  have hEL : E ≤ L := by omega
  obtain ⟨s1, e1, h1a, h1b, h1c⟩ := ok_of_triple (splitRev_triple dSig dExp (by omega))
  rw [← hE] at h1a h1b
  have hn : dSig.toNat / 10 ^ E * 10 ^ P < 10 ^ (G + 1) :=
    split_int_bound _ L E P G hcL (by omega) (by omega)
  have h18 : 10 ^ (G + 1) ≤ 10 ^ 18 := Nat.pow_le_pow_right (by norm_num) (by omega)
  have hPpos : 1 ≤ 10 ^ P := Nat.one_le_pow _ _ (by norm_num)
  have hw0 : s1.2.1.w0.toNat = dSig.toNat / 10 ^ E := by
    rw [U128.w0_toNat, h1b]
    apply Nat.mod_eq_of_lt
    calc dSig.toNat / 10 ^ E ≤ dSig.toNat / 10 ^ E * 10 ^ P := Nat.le_mul_of_pos_right _ hPpos
      _ < 2 ^ 64 := by omega
  obtain ⟨s2, e2, h2⟩ := ok_of_triple (splitScale_triple s1.2.1.w0 s1.2.2 P (by omega)
    (by rw [hw0]; omega))
  rw [hw0] at h2
  obtain ⟨s3, e3, m, hm, h3a, h3b, h3c, h3d⟩ :=
    ok_of_triple (splitUnrev_triple s1.1 dSig.toNat E (by omega) h1a)
  obtain ⟨hf1, hf2, hf3⟩ := unrev_facts dSig.toNat E m s3.1.toNat hm h3b h3c h3d
  obtain ⟨hv1, hv2⟩ := split_value dSig.toNat dExp.toInt E P m s3.1.toNat s2.1.toNat
    (by omega) (by omega) hm hf1 h2
  have hq1 : 1 ≤ dSig.toNat / 10 ^ E :=
    Nat.div_pos (le_trans (Nat.pow_le_pow_right (by norm_num) hEL) hLc) (by positivity)
  have hfle : s3.1.toNat ≤ dSig.toNat := by
    rw [h3c]
    exact le_trans (Nat.div_le_self _ _) (Nat.mod_le _ _)
  refine ⟨s1, s2, s3, e1, e2, e3, ?_, ?_, by omega, ?_, by omega, by omega, by omega, ?_, hf3⟩
  · rw [h3a]; exact hv1
  · rw [h3a]; exact hv2
  · rw [h2]; exact Nat.mul_pos hq1 (by positivity)
  · intro h0
    have := hf2 h0
    rw [i16_eq_iff, h3a, this]; rfl

end ExpAcc
