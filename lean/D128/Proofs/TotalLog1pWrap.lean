/-
  D128/Proofs/TotalLog1pWrap.lean — property C20 (totality): `Log1p` for EVERY bit pattern and EVERY mode byte.

  `TotalLog1pAll.Log1p_total_partial` left open the directed modes for finite arguments with exponent below
  −3264, where the `int16` exponents inside `decomposed192.log1p` wrap around (recorded finding
  `log1p-tiny-argument-exponent-wrap`: the results are 0 / ±Inf).  The question was whether the garbage can be the
  pair "zero significand, flag −1" on which the rounding kernel does not return.  It cannot:

  For `d = s·10^E` with `-6176 ≤ E ≤ -3265` the stored exponent of the `k`-th term `d^k/k` is `≡ k·E + slack`
  (mod 2^16, |slack| small), and `res` always is (a scaled copy of) ONE of the earlier terms `j < k`.  The wrapped
  exponent difference seen by `add`/`sub` is therefore `≡ (k-j)·|E| + slack` with `3265 ≤ (k-j)·|E| ≤ 55584`,
  i.e. as a signed 16-bit number it is either `≥ 116` or `≤ -116` — never inside the window in which the two
  operands overlap.  So each `add`/`sub` drops one operand completely and returns the other one (scaled,
  non-zero): the significand handed to the rounding kernel is never zero.

  Provided (namespace `D128.Proofs.Total`):
  * `bmod16`, `cg_*`            : congruences mod 2^16 for wrapping `Int16` arithmetic
  * `mul_wrap`, `quo_wrap`      : `mul` / `quo` by a small integer: non-zero result, exponent up to a bounded slack
  * `add_far`, `sub_far`        : `add`/`sub` of non-zero operands whose wrapped exponent difference is outside
                                  `(-116, 116)`: the result is one operand scaled, non-zero
  * `WInv`, `wstep_ok`, `wloop_ok` : the invariant and the nine passes of the loop
  * `log1p_wrap_good`           : `decomposed192.log1p x neg = .ok r` with `r.sig ≠ 0` for `x.sig ≠ 0`,
                                  `-6176 ≤ x.exp ≤ -3265`
  * `Log1p_triple_all`, `Log1p_total_all` : `∃ r, Gen.Log1p g d = .ok r` for all `g`, `d`
-/
import D128.Proofs.TotalLog1pAll
set_option autoImplicit false
set_option mvcgen.warning false
set_option exponentiation.threshold 512
set_option maxRecDepth 16384
set_option linter.unusedVariables false
namespace D128.Proofs.Total
open Std.Do
open D128.Proofs.WordsWide
open D192 LogAcc

/-! ### congruences mod 2^16 -/

theorem bmod16 (x : Int) : (Int.bmod x (2 ^ 16) - x) % 65536 = 0 := by
  rw [Int.bmod_def]
  split <;> omega

theorem cg_add (a b : Int16) : ((a + b).toInt - (a.toInt + b.toInt)) % 65536 = 0 := by
  rw [Int16.toInt_add]; exact bmod16 _

theorem cg_sub (a b : Int16) : ((a - b).toInt - (a.toInt - b.toInt)) % 65536 = 0 := by
  rw [Int16.toInt_sub]; exact bmod16 _

theorem ofNat16 (k : Nat) (hk : k < 32768) : (Int16.ofNat k).toInt = k :=
  Int16.toInt_ofNat_of_lt (by omega)

/-- `x = a + b + k` -/
theorem cg_aak (x a b : Int16) (k : Nat) (hk : k < 32768) (h : x = a + b + Int16.ofNat k) :
    (x.toInt - (a.toInt + b.toInt + k)) % 65536 = 0 := by
  have h1 := cg_add (a + b) (Int16.ofNat k)
  have h2 := cg_add a b
  rw [ofNat16 k hk] at h1
  rw [h]; omega

/-- `x = a - j` -/
theorem cg_sk (x a : Int16) (j : Nat) (hj : j < 32768) (h : x = a - Int16.ofNat j) :
    (x.toInt - (a.toInt - j)) % 65536 = 0 := by
  have h1 := cg_sub a (Int16.ofNat j)
  rw [ofNat16 j hj] at h1
  rw [h]; exact h1

/-- `x = a - j + k` -/
theorem cg_skk (x a : Int16) (j k : Nat) (hj : j < 32768) (hk : k < 32768)
    (h : x = a - Int16.ofNat j + Int16.ofNat k) :
    (x.toInt - (a.toInt - j + k)) % 65536 = 0 := by
  have h1 := cg_sub a (Int16.ofNat j)
  have h2 := cg_add (a - Int16.ofNat j) (Int16.ofNat k)
  rw [ofNat16 j hj] at h1
  rw [ofNat16 k hk] at h2
  rw [h]; omega

/-! ### the operations, wrap-aware -/

theorem pow_exp_lt58 (n j : Nat) (hn : 1 ≤ n) (h : n * 10 ^ j < 2 ^ 192) : j ≤ 57 := by
  by_contra hc
  have h58 : 10 ^ 58 ≤ 10 ^ j := Nat.pow_le_pow_right (by norm_num) (by omega)
  have : 1 * 10 ^ 58 ≤ n * 10 ^ j := Nat.mul_le_mul hn h58
  omega

/-- a value `P < 2^192` that went through the normalising loop state `Tr`: at most one digit was dropped and
the result is non-zero if `P` is -/
theorem tr_small {P : Nat} {t0 t' : Int8} {e0 e' : Int16} {cur : Nat} (h : Tr P t0 e0 t' cur e')
    (hP : P < 2 ^ 192) (hP0 : P ≠ 0) : cur ≠ 0 ∧ ∃ k2 : Nat, k2 ≤ 1 ∧ e' = e0 + Int16.ofNat k2 := by
  obtain ⟨k2, h1, h2, -, h4⟩ := h
  rcases h4 with h4 | h4
  · subst h4
    refine ⟨by rw [h1]; simpa using hP0, 0, by omega, h2⟩
  · refine ⟨by omega, k2, ?_, h2⟩
    by_contra hc
    have h100 : 10 ^ 2 ≤ 10 ^ k2 := Nat.pow_le_pow_right (by norm_num) (by omega)
    have : P / 10 ^ k2 ≤ P / 10 ^ 2 := Nat.div_le_div_left h100 (by norm_num)
    omega

/-- `mul` of non-zero operands: non-zero, exponent `d.exp + o.exp + κ`, `κ ≤ 58` -/
theorem mul_wrap (d o : Gen.decomposed192) (t : Int8) (hd : d.sig.toNat ≠ 0) (ho : o.sig.toNat ≠ 0) :
    ∃ (r : Gen.decomposed192) (t' : Int8) (κ : Nat), Gen.decomposed192.mul d o t = .ok (r, t') ∧ r.sig.toNat ≠ 0 ∧ κ ≤ 58 ∧
      (r.exp.toInt - (d.exp.toInt + o.exp.toInt + κ)) % 65536 = 0 := by
  obtain ⟨r, t', k, hr, hk, hs, he, -, hb⟩ := mul_spec d o t
  refine ⟨r, t', k, hr, ?_, hk, cg_aak _ _ _ k (by omega) he⟩
  rcases hb with hb | hb
  · subst hb
    rw [hs]; simp only [pow_zero, Nat.div_one]
    exact Nat.mul_ne_zero hd ho
  · omega

/-- `quo` of a non-zero numerator by a small integer `1 ≤ i ≤ 10`: non-zero, exponent `d.exp + s`,
`-116 ≤ s ≤ 1` -/
theorem quo_wrap (d : Gen.decomposed192) (i : UInt64) (hd : d.sig.toNat ≠ 0) (hi1 : 1 ≤ i.toNat)
    (hi : i.toNat ≤ 10) :
    ∃ (r : Gen.decomposed192) (t' : Int8) (s : Int), Gen.decomposed192.quo d ⟨⟨i, 0, 0⟩, 0⟩ 0 = .ok (r, t') ∧ r.sig.toNat ≠ 0 ∧
      -116 ≤ s ∧ s ≤ 1 ∧ (r.exp.toInt - (d.exp.toInt + s)) % 65536 = 0 := by
  have hosig : (⟨⟨i, 0, 0⟩, 0⟩ : Gen.decomposed192).sig.toNat = i.toNat := by
    simp [U192.toNat]
  have ho : (⟨⟨i, 0, 0⟩, 0⟩ : Gen.decomposed192).sig.toNat ≠ 0 := by rw [hosig]; omega
  obtain ⟨⟨r, t'⟩, hr, hpost⟩ := quo_ok d ⟨⟨i, 0, 0⟩, 0⟩ 0 ho
  rcases hpost with ⟨h0, -⟩ | ⟨-, d', o1, hfin, ⟨hsc, hdL⟩, ⟨htr, hoL⟩, ho1⟩
  · exact absurd h0 hd
  obtain ⟨a, ha, hds, hdexp⟩ := hsc.bounds (Nat.pos_of_ne_zero hd)
  obtain ⟨b, hb, hos, hoexp, -, hob⟩ := htr.bounds (U192.toNat_lt _)
  rw [hosig] at hos hob
  have hb0 : b = 0 := by
    rcases hob with h | ⟨-, h⟩
    · exact h
    · unfold OLIM lim at h; omega
  subst hb0
  simp only [pow_zero, Nat.div_one] at hos
  obtain ⟨c, tt, htt, hs, he, -, -, -, h1⟩ := hfin
  dsimp only at hs he h1
  have hc : c ≤ 59 := by
    by_contra hcc
    have h60 : 10 ^ 60 ≤ 10 ^ c := Nat.pow_le_pow_right (by norm_num) (by omega)
    have hZ : 0 < o1.1.sig.toNat * 10 ^ tt := by
      rw [hos]; exact Nat.mul_pos (by omega) (Nat.pow_pos (by norm_num))
    have hsl := U192.toNat_lt r.sig
    rw [hs, Nat.div_div_eq_div_mul, Nat.div_lt_iff_lt_mul hZ] at hsl
    have h10 : 10 ^ tt ≤ 10 := by
      calc 10 ^ tt ≤ 10 ^ 1 := Nat.pow_le_pow_right (by norm_num) htt
        _ = 10 := by norm_num
    have hZ' : o1.1.sig.toNat * 10 ^ tt ≤ 10 * 10 := Nat.mul_le_mul (by omega) h10
    have h2 : LIM * 10 ^ 60 ≤ d'.sig.toNat * 10 ^ c := Nat.mul_le_mul hdL h60
    have h3 : 2 ^ 192 * (o1.1.sig.toNat * 10 ^ tt) ≤ 2 ^ 192 * (10 * 10) := Nat.mul_le_mul_left _ hZ'
    unfold LIM at h2
    omega
  have e1 := cg_sk d'.exp d.exp a (by omega) hdexp
  have e2 : o1.1.exp.toInt = 0 := by
    rw [hoexp]; show ((0 : Int16) + Int16.ofNat 0).toInt = 0; rfl
  have e3 := cg_sub d'.exp o1.1.exp
  have e4 := cg_skk r.exp (d'.exp - o1.1.exp) c tt (by omega) (by omega) he
  refine ⟨r, t', -(a : Int) - c + tt, hr, by omega, by omega, by omega, ?_⟩
  rw [e2] at e3
  omega

/-- `add` of two non-zero operands whose wrapped exponent difference is outside `(-116, 116)`: the result is
the operand with the larger (apparent) exponent, scaled by `10^j`, `j ≤ 57` (plus at most one digit of
normalisation) -/
theorem add_far (d o : Gen.decomposed192) (t : Int8) (hd : d.sig.toNat ≠ 0) (ho : o.sig.toNat ≠ 0)
    (hfar : (d.exp - o.exp).toInt ≤ -116 ∨ 116 ≤ (d.exp - o.exp).toInt) :
    ∃ (r : Gen.decomposed192) (t' : Int8) (s : Int), Gen.decomposed192.add d o t = .ok (r, t') ∧ r.sig.toNat ≠ 0 ∧ -57 ≤ s ∧ s ≤ 1 ∧
      ((d.exp - o.exp).toInt ≤ -116 → (r.exp.toInt - (o.exp.toInt + s)) % 65536 = 0) ∧
      (116 ≤ (d.exp - o.exp).toInt → (r.exp.toInt - (d.exp.toInt + s)) % 65536 = 0) := by
  obtain ⟨r, t', hr, hpost⟩ := add_spec d o t
  have hdl := U192.toNat_lt d.sig
  have hol := U192.toNat_lt o.sig
  rcases hpost with ⟨he, j, k, hjk, hlt, -, htr⟩ | ⟨he, j, k, hjk, hlt, -, htr⟩ | ⟨he, -⟩
  · have hj := pow_exp_lt58 _ j (by omega) hlt
    have hk : 58 ≤ k := by unfold negNat at hjk; omega
    rw [(drop_all _ k hdl hk).1, Nat.zero_add] at htr
    have hP0 : o.sig.toNat * 10 ^ j ≠ 0 := Nat.mul_ne_zero ho (by positivity)
    obtain ⟨hne, k2, hk2, hexp⟩ := tr_small htr hlt hP0
    have e1 := cg_skk r.exp o.exp j k2 (by omega) (by omega) hexp
    exact ⟨r, t', -(j : Int) + k2, hr, hne, by omega, by omega, fun _ => by omega, fun h => by omega⟩
  · have hj := pow_exp_lt58 _ j (by omega) hlt
    have hk : 58 ≤ k := by unfold posNat at hjk; omega
    rw [(drop_all _ k hol hk).1, Nat.add_zero] at htr
    have hP0 : d.sig.toNat * 10 ^ j ≠ 0 := Nat.mul_ne_zero hd (by positivity)
    obtain ⟨hne, k2, hk2, hexp⟩ := tr_small htr hlt hP0
    have e1 := cg_skk r.exp d.exp j k2 (by omega) (by omega) hexp
    exact ⟨r, t', -(j : Int) + k2, hr, hne, by omega, by omega, fun h => by omega, fun _ => by omega⟩
  · omega

/-- the same for `sub` -/
theorem sub_far (d o : Gen.decomposed192) (t : Int8) (hd : d.sig.toNat ≠ 0) (ho : o.sig.toNat ≠ 0)
    (hfar : (d.exp - o.exp).toInt ≤ -116 ∨ 116 ≤ (d.exp - o.exp).toInt) :
    ∃ (ng : Bool) (r : Gen.decomposed192) (t' : Int8) (s : Int), Gen.decomposed192.sub d o t = .ok (ng, r, t') ∧ r.sig.toNat ≠ 0 ∧ -57 ≤ s ∧ s ≤ 1 ∧
      ((d.exp - o.exp).toInt ≤ -116 → (r.exp.toInt - (o.exp.toInt + s)) % 65536 = 0) ∧
      (116 ≤ (d.exp - o.exp).toInt → (r.exp.toInt - (d.exp.toInt + s)) % 65536 = 0) := by
  obtain ⟨ng, r, t', hr, hpost⟩ := sub_spec d o t
  have hdl := U192.toNat_lt d.sig
  have hol := U192.toNat_lt o.sig
  rcases hpost with ⟨he, j, k, hjk, hlt, -, hexp, hA, -⟩ | ⟨he, j, k, hjk, hlt, -, hexp, -, hB⟩ | ⟨he, -⟩
  · have hj := pow_exp_lt58 _ j (by omega) hlt
    have hk : 58 ≤ k := by unfold negNat at hjk; omega
    rw [(drop_all _ k hdl hk).1] at hA
    have hP0 : 0 < o.sig.toNat * 10 ^ j := Nat.pos_of_ne_zero (Nat.mul_ne_zero ho (by positivity))
    obtain ⟨-, hs, -⟩ := hA hP0
    have e1 := cg_sk r.exp o.exp j (by omega) hexp
    exact ⟨ng, r, t', -(j : Int), hr, by omega, by omega, by omega, fun _ => by omega, fun h => by omega⟩
  · have hj := pow_exp_lt58 _ j (by omega) hlt
    have hk : 58 ≤ k := by unfold posNat at hjk; omega
    rw [(drop_all _ k hol hk).1] at hB
    have hP0 : 0 < d.sig.toNat * 10 ^ j := Nat.pos_of_ne_zero (Nat.mul_ne_zero hd (by positivity))
    obtain ⟨-, hs, -⟩ := hB (Nat.zero_le _)
    have e1 := cg_sk r.exp d.exp j (by omega) hexp
    exact ⟨ng, r, t', -(j : Int), hr, by omega, by omega, by omega, fun h => by omega, fun _ => by omega⟩
  · omega

/-! ### the loop of `decomposed192.log1p` under exponent wrap-around -/

/-- state after `k` terms: both significands non-zero, and the stored exponent of `res` is that of `num`
plus `m·|E| + σ` (mod 2^16) for some `0 ≤ m ≤ k-1` (`res` is a scaled copy of term `k-m`), `|σ| ≤ 173(k-1)` -/
def WInv (k : Nat) (num res : Gen.decomposed192) : Prop :=
  num.sig.toNat ≠ 0 ∧ res.sig.toNat ≠ 0 ∧
    ∃ m ME σ : Int, 0 ≤ m ∧ m ≤ (k : Int) - 1 ∧ 3265 * m ≤ ME ∧ ME ≤ 6176 * m ∧
      -173 * ((k : Int) - 1) ≤ σ ∧ σ ≤ 173 * ((k : Int) - 1) ∧
      (res.exp.toInt - num.exp.toInt - ME - σ) % 65536 = 0

theorem wstep_ok (d : Gen.decomposed192) (neg : Bool) (k : Nat) (num res : Gen.decomposed192) (t : Int8)
    (i : UInt64) (hd : d.sig.toNat ≠ 0) (hE0 : -6176 ≤ d.exp.toInt) (hE1 : d.exp.toInt ≤ -3265)
    (hk1 : 1 ≤ k) (hk9 : k ≤ 9) (hi : i.toNat = k + 1) (hinv : WInv k num res) :
    ∃ n' r' t', body d neg () (num, res, t, i) = .ok (.yield (n', r', t', i + 1)) ∧
      WInv (k + 1) n' r' := by
  obtain ⟨hnum, hres, m, ME, σ, hm0, hm1, hME0, hME1, hσ0, hσ1, hcg⟩ := hinv
  have hi10 : i ≤ 10 := by
    rw [UInt64.le_iff_toNat_le, hi]; show k + 1 ≤ 10; omega
  obtain ⟨n', t1, κ, hmul, hn', hκ, hcn⟩ := mul_wrap num d t hnum hd
  obtain ⟨tmp, t2, s, hquo, htmp, hs0, hs1, hct⟩ := quo_wrap n' i hn' (by omega) (by omega)
  have hdiff := cg_sub res.exp tmp.exp
  have hb := i16_bounds (res.exp - tmp.exp)
  have hW : 1822 ≤ ME - d.exp.toInt + (σ - κ - s) ∧ ME - d.exp.toInt + (σ - κ - s) ≤ 57084 := by
    constructor <;> omega
  have hX : ((res.exp - tmp.exp).toInt - (ME - d.exp.toInt + (σ - κ - s))) % 65536 = 0 := by omega
  have hfar : (res.exp - tmp.exp).toInt ≤ -116 ∨ 116 ≤ (res.exp - tmp.exp).toInt := by
    generalize ME - d.exp.toInt + (σ - κ - s) = W at hW hX
    omega
  have hadd : ((i % 2 == 0) = true → neg = true) →
      ∃ n' r' t', body d neg () (num, res, t, i) = .ok (.yield (n', r', t', i + 1)) ∧
        WInv (k + 1) n' r' := by
    intro hc
    obtain ⟨r', t3, s2, hadd, hr', hs20, hs21, hneg, hpos⟩ := add_far res tmp t1 hres htmp hfar
    refine ⟨n', r', t3, body_add d neg num res t i n' tmp r' t1 t2 t3 hi10 hmul hquo hc hadd, hn', hr', ?_⟩
    rcases hfar with hf | hf
    · have := hneg hf
      exact ⟨0, 0, s + s2, by omega, by omega, by omega, by omega, by push_cast; omega,
        by push_cast; omega, by omega⟩
    · have := hpos hf
      exact ⟨m + 1, ME - d.exp.toInt, σ + s2 - κ, by omega, by push_cast; omega, by omega, by omega,
        by push_cast; omega, by push_cast; omega, by omega⟩
  have hsub : (i % 2 == 0) = true → neg = false →
      ∃ n' r' t', body d neg () (num, res, t, i) = .ok (.yield (n', r', t', i + 1)) ∧
        WInv (k + 1) n' r' := by
    intro hev hng
    subst hng
    obtain ⟨ng, r', t3, s2, hsub, hr', hs20, hs21, hneg, hpos⟩ := sub_far res tmp t1 hres htmp hfar
    refine ⟨n', r', t3, body_sub d num res t i n' tmp r' t1 t2 t3 ng hi10 hmul hquo hev hsub, hn', hr', ?_⟩
    rcases hfar with hf | hf
    · have := hneg hf
      exact ⟨0, 0, s + s2, by omega, by omega, by omega, by omega, by push_cast; omega,
        by push_cast; omega, by omega⟩
    · have := hpos hf
      exact ⟨m + 1, ME - d.exp.toInt, σ + s2 - κ, by omega, by push_cast; omega, by omega, by omega,
        by push_cast; omega, by push_cast; omega, by omega⟩
  by_cases hev : (i % 2 == 0) = true
  · cases neg
    · exact hsub hev rfl
    · exact hadd (fun _ => rfl)
  · exact hadd (fun h => absurd h hev)

theorem wloop_ok (d : Gen.decomposed192) (neg : Bool) (hd : d.sig.toNat ≠ 0) (hE0 : -6176 ≤ d.exp.toInt)
    (hE1 : d.exp.toInt ≤ -3265) (n : Nat) :
    ∀ (k : Nat) (num res : Gen.decomposed192) (t : Int8) (i : UInt64), k + n = 10 → 1 ≤ k →
      i.toNat = k + 1 → WInv k num res →
      ∃ n' r' t' i', forIn (m := Go.GoM) Lean.Loop.mk ((num, res, t, i) : St) (body d neg)
          = .ok (n', r', t', i') ∧ WInv 10 n' r' := by
  induction n with
  | zero =>
    intro k num res t i hk hk1 hi hinv
    have hk10 : k = 10 := by omega
    subst hk10
    have hni : ¬ i ≤ 10 := by
      rw [UInt64.le_iff_toNat_le, hi]; show ¬ (10 + 1 ≤ 10); omega
    refine ⟨num, res, t, i, ?_, hinv⟩
    rw [Go.loop_unfold, body_done d neg num res t i hni]
    rfl
  | succ n ih =>
    intro k num res t i hk hk1 hi hinv
    obtain ⟨n', r', t', hb, hinv'⟩ := wstep_ok d neg k num res t i hd hE0 hE1 hk1 (by omega) hi hinv
    have hi' : (i + 1).toNat = k + 1 + 1 := by
      rw [UInt64.toNat_add, hi]; show (k + 1 + 1) % 2 ^ 64 = _; omega
    obtain ⟨n2, r2, t2, i2, hl, hinv2⟩ := ih (k + 1) n' r' t' (i + 1) (by omega) (by omega) hi' hinv'
    refine ⟨n2, r2, t2, i2, ?_, hinv2⟩
    rw [Go.loop_unfold, hb]
    exact hl

/-- **`decomposed192.log1p` below the wrap threshold**: for a non-zero significand and an exponent in
`[-6176, -3265]` (every finite non-zero `Decimal` with biased exponent `< 2912`) the series returns, and its
significand is NOT zero — whatever the (wrapped, meaningless) exponent and the flag are. -/
theorem log1p_wrap_good (x : Gen.decomposed192) (neg : Bool) (hd : x.sig.toNat ≠ 0)
    (hE0 : -6176 ≤ x.exp.toInt) (hE1 : x.exp.toInt ≤ -3265) :
    ∃ r, Gen.decomposed192.log1p x neg = .ok r ∧ r.2.1.sig.toNat ≠ 0 := by
  have h2 : (2 : UInt64).toNat = 1 + 1 := rfl
  have hinit : WInv 1 x x := ⟨hd, hd, 0, 0, 0, by omega, by norm_num, by omega, by omega, by norm_num,
    by norm_num, by omega⟩
  obtain ⟨n', r', t', i', hl, hinv⟩ :=
    wloop_ok x neg hd hE0 hE1 9 1 x x 0 2 (by norm_num) (by norm_num) h2 hinit
  refine ⟨(neg, r', t'), ?_, hinv.2.1⟩
  rw [log1p_eq, hl]; rfl

/-- the two examples of the recorded finding (`Log1p(1e-3641)`, `Log1p(1e-6000)`): hypotheses satisfiable -/
example := log1p_wrap_good ⟨⟨1, 0, 0⟩, -3641⟩ false (by decide) (by decide) (by decide)
example := log1p_wrap_good ⟨⟨123456789, 0, 0⟩, -6000⟩ true (by decide) (by decide) (by decide)

/-! ### `Log1p`, every bit pattern, every mode byte -/

section
open D192

/-- a small argument of `Log1p` (`|x| ≤ 10^-9`), at any exponent a `Decimal` can have -/
def ArgSmallAll (x : Gen.decomposed192) : Prop :=
  x.sig.toNat ≠ 0 ∧ val x ≤ 1 / 10 ^ 9 ∧ -6176 ≤ x.exp.toInt

theorem log1p_good_all (x : Gen.decomposed192) (neg : Bool) (h : ArgSmallAll x) :
    ∃ r, Gen.decomposed192.log1p x neg = .ok r ∧ Good r := by
  obtain ⟨h1, h2, h3⟩ := h
  by_cases he : -3264 ≤ x.exp.toInt
  · exact log1p_good x neg h1 h2 he
  · obtain ⟨r, hr, hne⟩ := log1p_wrap_good x neg h1 h3 (by omega)
    exact ⟨r, hr, Or.inl hne⟩

theorem log1p_good_all_triple (x : Gen.decomposed192) (neg : Bool) :
    ⦃⌜ArgSmallAll x⌝⦄ Gen.decomposed192.log1p x neg ⦃⇓ r => ⌜Good r⌝⦄ :=
  triple_of_ok_pre fun h => log1p_good_all x neg h

theorem argSmallAll_raw (s : U128) (e : Int16) (l : Int64) (he : 0 ≤ e.toInt ∧ e.toInt < 16384)
    (hs : s.toNat ≠ 0) (hl : l.toInt = Nat.log 10 s.toNat)
    (hle : ¬ decide ((Go.conv l : Int16) + (e - 6176) > -10) = true) : ArgSmallAll (l1pArg s e) := by
  have hle := i16_not_gt hle
  have hL := Nat.log10_lt_39_of_lt s.toNat s.toNat_lt
  rw [Int16.le_iff_toInt_le, l10_toInt e l he (by omega) (by omega)] at hle
  have h10 : (-10 : Int16).toInt = -10 := rfl
  rw [h10, hl] at hle
  refine ⟨by rw [l1pArg_sig]; exact hs, ?_, by rw [l1pArg_exp s e he]; omega⟩
  refine le_trans (val_lt_of_log s e he).le ?_
  have : (1 : ℚ) / 10 ^ 9 = (10 : ℚ) ^ (-9 : Int) := by rw [zpow_neg]; norm_num
  rw [this]
  exact zpow_le_zpow_right₀ (by norm_num) (by omega)

end

set_option maxHeartbeats 1000000 in
theorem Log1p_triple_all (g : Globals) (d : Gen.Decimal) :
    ⦃⌜True⌝⦄ Gen.Log1p g d ⦃⇓ _ => ⌜True⌝⦄ := by
  have hl := log_logOK_triple
  have hl1 := log1p_good_all_triple
  have ha1 := add1_logOK_triple
  have ha := add1neg_logOK_triple
  have hv := vget_pow128_triple
  have hlg := U128_log10_log
  have hnz := sig_ne_zero d
  have hexp := decompose_exp_range d
  mvcgen -trivial [Gen.Log1p, hl, hl1, ha1, ha, hv, hlg, -d192_add1neg_triple, -d192_add1_triple, -U128_log10_triple]
  all_goals (clear hl hl1 ha1 ha hv hlg)
  all_goals (try assumption)
  all_goals (try contradiction)
  all_goals (have hs' := hnz (Bool.eq_false_iff.mpr (by assumption)))
  all_goals first
    | exact idx_bounds_raw _ hexp (by assumption) (by assumption)
    | exact argBigLt_cmp_raw _ _ _ _ hexp hs' (by assumption) (by assumption) (by assumption)
        (by assumption) (by assumption) (by assumption)
    | exact argBigLt_exp_raw _ _ _ hexp hs' (by assumption) (by assumption) (by assumption)
    | exact argBig_raw _ _ _ hexp hs' (by assumption) (by assumption)
    | exact argSmallAll_raw _ _ _ hexp hs' (by assumption) (by assumption)

/-- **`Log1p` is total**: every bit pattern of the argument, every value of `DefaultRoundingMode` (also the
invalid mode bytes): the generated function returns — no panic, every loop terminates.  In particular the
directed modes on arguments below `10^-3264`, where the result is wrong because of the `int16` exponent wrap
(recorded finding), do NOT hang: the significand handed to the rounding kernel is never zero there. -/
theorem Log1p_total_all (g : Globals) (d : Gen.Decimal) : ∃ r, Gen.Log1p g d = .ok r :=
  total_of_triple (Log1p_triple_all g d)

/-- e.g. `Log1p(1e-3641)`, `Log1p(-7e-6170)` under ToZero (2), ToNegativeInf (4), ToPositiveInf (5) -/
example : ∃ r, Gen.Log1p { DefaultRoundingMode := 2 } (Gen.compose false ⟨1, 0⟩ 2535) = .ok r :=
  Log1p_total_all _ _
example : ∃ r, Gen.Log1p { DefaultRoundingMode := 4 } (Gen.compose true ⟨7, 0⟩ 6) = .ok r :=
  Log1p_total_all _ _

end D128.Proofs.Total
