/-
  Pure arithmetic behind the staged comparison (no generated code here).

  * `cmp3 x y res`            — 0 / `res * -1` / `res` according to x = y / x < y / x > y
  * `tailSpec a b k t res`    — what the tail of `Cmp` computes: compare `a` with `b / 10^k`,
                                using the sticky flag `t ∨ b % 10^k ≠ 0` to break a tie
  * `tailSpec_step`           — one staged division keeps `tailSpec`
  * `tailSpec_exit`           — quotient 0 (with a > 0) decides `res`
  * `tailSpec_gt`             — `b / 10^k < a` decides `res`
  * `tailSpec_zero`           — k = 0 : plain comparison plus flag
  * `tailSpec_false`          — `tailSpec a b k false res = cmp3 (a * 10^k) b res`
  * `eqSpec_step`, …          — the same for `Equal`
-/
import Mathlib.Tactic.Ring
import Mathlib.Tactic.Linarith
import Mathlib.Tactic.NormNum
set_option autoImplicit false

namespace CmpPf

def cmp3 (x y : Nat) (res : Int8) : Int8 :=
  if x = y then 0 else if x < y then res * (-1) else res

def tailSpec (a b k : Nat) (t : Bool) (res : Int8) : Int8 :=
  if a = b / 10 ^ k then (if (t || decide (b % 10 ^ k ≠ 0)) then res * (-1) else 0)
  else if a < b / 10 ^ k then res * (-1) else res

theorem div_pow_split (b j k : Nat) (hj : j ≤ k) : b / 10 ^ j / 10 ^ (k - j) = b / 10 ^ k := by
  rw [Nat.div_div_eq_div_mul, ← pow_add, Nat.add_sub_cancel' hj]

theorem mod_pow_split (b j k : Nat) (hj : j ≤ k) :
    (b % 10 ^ k = 0) ↔ (b / 10 ^ j % 10 ^ (k - j) = 0 ∧ b % 10 ^ j = 0) := by
  have hk : (10:Nat) ^ k = 10 ^ j * 10 ^ (k - j) := by
    rw [← pow_add, Nat.add_sub_cancel' hj]
  rw [hk, Nat.mod_mul]
  have hp : 0 < (10:Nat) ^ j := by positivity
  constructor
  · intro h
    have h1 : b % 10 ^ j = 0 := by
      rcases Nat.eq_zero_or_pos (b % 10 ^ j) with h0 | h0
      · exact h0
      · omega
    refine ⟨?_, h1⟩
    rw [h1] at h
    simpa [hp.ne'] using h
  · rintro ⟨h1, h2⟩
    rw [h1, h2]; simp

theorem tailSpec_step (a b k j P : Nat) (hP : P = 10 ^ j) (hj : j ≤ k) (t : Bool) (res : Int8) :
    tailSpec a (b / P) (k - j) (t || decide (b % P ≠ 0)) res = tailSpec a b k t res := by
  subst hP
  unfold tailSpec
  rw [div_pow_split b j k hj]
  have := mod_pow_split b j k hj
  by_cases h1 : b % 10 ^ k = 0
  · have h2 := this.1 h1
    simp [h1, h2.1, h2.2]
  · have h2 : ¬ (b / 10 ^ j % 10 ^ (k - j) = 0 ∧ b % 10 ^ j = 0) := fun h => h1 (this.2 h)
    by_cases h3 : b % 10 ^ j = 0
    · have h4 : b / 10 ^ j % 10 ^ (k - j) ≠ 0 := fun h => h2 ⟨h, h3⟩
      simp [h1, h3, h4]
    · simp [h1, h3]

theorem tailSpec_gt (a b k : Nat) (t : Bool) (res : Int8) (h : b / 10 ^ k < a) :
    tailSpec a b k t res = res := by
  unfold tailSpec
  rw [if_neg (by omega), if_neg (by omega)]

theorem tailSpec_exit (a b k j P : Nat) (hP : P = 10 ^ j) (hj : j ≤ k) (t : Bool) (res : Int8)
    (ha : 0 < a) (h0 : b / P = 0) : tailSpec a b k t res = res := by
  subst hP
  apply tailSpec_gt
  rw [← div_pow_split b j k hj, h0]
  simpa using ha

theorem tailSpec_zero (a b : Nat) (t : Bool) (res : Int8) :
    tailSpec a b 0 t res =
      if a = b then (if t then res * (-1) else 0) else if a < b then res * (-1) else res := by
  unfold tailSpec; simp [Nat.mod_one]

theorem tailSpec_false (a b k : Nat) (res : Int8) :
    tailSpec a b k false res = cmp3 (a * 10 ^ k) b res := by
  unfold tailSpec cmp3
  have hp : 0 < (10:Nat) ^ k := by positivity
  have hdm := Nat.div_add_mod b (10 ^ k)
  have hml := Nat.mod_lt b hp
  generalize hq : b / 10 ^ k = q at *
  generalize hr : b % 10 ^ k = r at *
  generalize (10:Nat) ^ k = p at *
  by_cases h1 : a = q
  · subst h1
    by_cases h2 : r = 0
    · subst h2
      have : a * p = b := by rw [← hdm]; ring
      simp [this]
    · have hlt : a * p < b := by
        have : a * p = p * a := Nat.mul_comm _ _
        omega
      have hne : a * p ≠ b := by omega
      simp [h2, hne, hlt]
  · rcases Nat.lt_or_gt_of_ne h1 with h | h
    · have hlt : a * p < b := by
        rw [← hdm]; nlinarith
      have hne : a * p ≠ b := by omega
      simp [h1, h, hne, hlt]
    · have hgt : b < a * p := by
        rw [← hdm]; nlinarith
      have hne : a * p ≠ b := by omega
      have hnl : ¬ a * p < b := by omega
      have hnl' : ¬ a < q := by omega
      simp [h1, hnl', hne, hnl]

/-! ## Equal -/

/-- what the tail of `Equal` computes -/
def eqSpec (a b k : Nat) : Bool := decide (a = b / 10 ^ k ∧ b % 10 ^ k = 0)

theorem eqSpec_step (a b k j P : Nat) (hP : P = 10 ^ j) (hj : j ≤ k) (h0 : b % P = 0) :
    eqSpec a (b / P) (k - j) = eqSpec a b k := by
  subst hP
  unfold eqSpec
  rw [div_pow_split b j k hj]
  have := mod_pow_split b j k hj
  by_cases h1 : b % 10 ^ k = 0
  · have h2 := this.1 h1
    simp [h1, h2.1]
  · have h4 : b / 10 ^ j % 10 ^ (k - j) ≠ 0 := fun h => h1 (this.2 ⟨h, h0⟩)
    simp [h1, h4]

theorem eqSpec_exit (a b k j P : Nat) (hP : P = 10 ^ j) (hj : j ≤ k) (h0 : b % P ≠ 0) :
    eqSpec a b k = false := by
  subst hP
  unfold eqSpec
  have := mod_pow_split b j k hj
  have h1 : b % 10 ^ k ≠ 0 := fun h => h0 (this.1 h).2
  simp [h1]

theorem eqSpec_zero (a b : Nat) : eqSpec a b 0 = decide (a = b) := by
  unfold eqSpec; simp [Nat.mod_one]

theorem eqSpec_gt (a b k : Nat) (h : b / 10 ^ k < a) : eqSpec a b k = false := by
  unfold eqSpec
  have : a ≠ b / 10 ^ k := by omega
  simp [this]

theorem eqSpec_eq (a b k : Nat) : eqSpec a b k = decide (a * 10 ^ k = b) := by
  unfold eqSpec
  have hp : 0 < (10:Nat) ^ k := by positivity
  have hdm := Nat.div_add_mod b (10 ^ k)
  have hml := Nat.mod_lt b hp
  generalize hq : b / 10 ^ k = q at *
  generalize hr : b % 10 ^ k = r at *
  generalize (10:Nat) ^ k = p at *
  rw [decide_eq_decide]
  constructor
  · rintro ⟨rfl, rfl⟩
    rw [← hdm]; ring
  · intro h
    subst h
    have h1 : a * p = p * a := by ring
    rw [h1] at hq hr
    rw [Nat.mul_div_cancel_left _ hp] at hq
    rw [Nat.mul_mod_right] at hr
    exact ⟨hq, hr.symm⟩

end CmpPf
