/-
  D128/Proofs/TotalFloat.lean — property C20 (totality): `FromFloat64` / `FromFloat32` terminate without panic
  for every bit pattern and EVERY byte in `DefaultRoundingMode` (C09 covers the five valid modes only).

  Uses PA8's staging `FF.fromFloat64_eq` (FloatFromCode) and class lemmas (FloatFromTop); the loops of the two
  scaling paths are handled with `mvcgen`:
  * `bigK_triple` / `bigPath_triple`   : branch `shift < 0` (needs only `0 ≤ shift`)
  * `smallK_triple` / `smallPath_triple` : branch `shift > 0`; needs `mant ≠ 0` — for `mant = 0` the inner loop
      `for zeros >= 4 { sig256 = sig256.mul64(10); zeros = LeadingZeros64(sig256[3]) }` would spin forever; the
      callers exclude it (`f != 0`, and normal numbers have the hidden bit set)
  * `core_triple`, `FromFloat64_total_all`, `FromFloat32_total_all`
-/
import D128.Proofs.TotalBase128
import D128.Proofs.TotalReduce192
import D128.Proofs.FloatFromTop
set_option autoImplicit false
set_option mvcgen.warning false
set_option exponentiation.threshold 512
set_option maxRecDepth 16384
namespace D128.Proofs.Total
open Std.Do
open D128.Proofs.WordsWide

theorem clz_toInt (x : UInt64) :
    (x.toNat = 0 ∧ (Go.bits.LeadingZeros64 x).toInt = 64) ∨
    (∃ L : Nat, 1 ≤ L ∧ L ≤ 64 ∧ 2^(L-1) ≤ x.toNat ∧ x.toNat < 2^L ∧
      (Go.bits.LeadingZeros64 x).toInt = 64 - L) := by
  by_cases hx : x = 0
  · left; subst hx; exact ⟨rfl, by decide⟩
  · right
    obtain ⟨L, hL, h1, h2, hlo, hhi⟩ := Go.bits.Len64_spec x hx
    refine ⟨L, h1, h2, hlo, hhi, ?_⟩
    have h64 : (64 : Int64).toInt = 64 := rfl
    have hLi : (Int64.ofNat L).toInt = L := by
      rw [Int64.toInt_ofNat_of_lt (by omega)]
    rw [Go.bits.LeadingZeros64, hL, i64_sub_toInt] <;> rw [h64, hLi] <;> omega

theorem clz_nonneg (x : UInt64) : (0 ≤ (Go.bits.LeadingZeros64 x).toInt) = True := by
  rcases clz_toInt x with ⟨_, h⟩ | ⟨L, _, _, _, _, h⟩ <;> simp [h] <;> omega

theorem clz_le64 (x : UInt64) : ((Go.bits.LeadingZeros64 x).toInt ≤ 64) = True := by
  rcases clz_toInt x with ⟨_, h⟩ | ⟨L, _, _, _, _, h⟩ <;> simp [h]

theorem clz_ge_iff (x : UInt64) (k : Nat) (hk : k ≤ 64) :
    ((k : Int) ≤ (Go.bits.LeadingZeros64 x).toInt) ↔ x.toNat < 2^(64 - k) := by
  rcases clz_toInt x with ⟨h0, h⟩ | ⟨L, h1, h2, hlo, hhi, h⟩
  · rw [h, h0]; constructor
    · intro _; exact Nat.two_pow_pos _
    · intro _; omega
  · rw [h]; constructor
    · intro hle
      have : L ≤ 64 - k := by omega
      exact Nat.lt_of_lt_of_le hhi (Nat.pow_le_pow_right (by norm_num) this)
    · intro hlt
      by_contra hc
      have : 64 - k ≤ L - 1 := by omega
      have := Nat.pow_le_pow_right (n := 2) (by norm_num) this
      omega

theorem clz_ge4 (x : UInt64) : (4 ≤ (Go.bits.LeadingZeros64 x).toInt) = (x.toNat < 2^60) := by
  have := clz_ge_iff x 4 (by norm_num); simpa using propext this

theorem clz_ge3_of_lt (x : UInt64) (h : x.toNat < 2^61) : 3 ≤ (Go.bits.LeadingZeros64 x).toInt :=
  (clz_ge_iff x 3 (by norm_num)).2 (by simpa using h)

theorem tz_range (x : UInt64) :
    0 ≤ (Go.bits.TrailingZeros64 x).toInt ∧ (Go.bits.TrailingZeros64 x).toInt ≤ 64 := by
  unfold Go.bits.TrailingZeros64
  split
  · decide
  · have h : ∀ n fuel, Go.bits.tz n fuel ≤ fuel := by
      intro n fuel
      induction fuel generalizing n with
      | zero => simp [Go.bits.tz]
      | succ k ih =>
        simp only [Go.bits.tz]
        split
        · omega
        · have := ih (n / 2); omega
    have := h x.toNat 64
    rw [Int64.toInt_ofNat_of_lt (by omega)]
    omega

theorem shlS_triple (x : UInt64) (s : Int) : ⦃⌜0 ≤ s⌝⦄ Go.shlS x s ⦃⇓ _ => ⌜True⌝⦄ :=
  triple_of_ok_pre fun h => ⟨Go.GoShift.shl x s.toNat, by simp [Go.shlS, Int.not_lt.2 h]; rfl, trivial⟩

theorem shrS_triple (x : UInt64) (s : Int) : ⦃⌜0 ≤ s⌝⦄ Go.shrS x s ⦃⇓ r => ⌜r = Go.shr x s⌝⦄ :=
  triple_of_ok_pre fun h => ⟨Go.GoShift.shr x s.toNat, by simp [Go.shrS, Int.not_lt.2 h]; rfl, rfl⟩


theorem ff_finishK_triple (rm : UInt8) (neg : Bool) (sig256 : U256) (exp : Int16) (trunc : Int8) :
    ⦃⌜trunc = 0 ∨ trunc = 1⌝⦄ FF.finishK rm neg sig256 exp trunc ⦃⇓ _ => ⌜True⌝⦄ := by
  mvcgen -trivial [FF.finishK]
  all_goals (simp +zetaDelta at *)
  rename_i h
  rcases h with h | h <;> simp [h]

/-- `U256.div10` with the fact the renormalising loop of `FromFloat64` needs: the quotient has at
least three leading zero bits -/
theorem U256_div10_clz3 (n : U256) :
    ⦃⌜True⌝⦄ Gen.U256.div10 n
    ⦃⇓ p => ⌜p.1.toNat = n.toNat / 10 ∧ p.2.toNat = n.toNat % 10 ∧
      3 ≤ (Go.bits.LeadingZeros64 p.1.w3).toInt ∧ (Go.bits.LeadingZeros64 p.1.w3).toInt ≤ 64⌝⦄ := by
  obtain ⟨q, r, e, hq, hr⟩ := U256_div10_eq n
  refine triple_of_eq e ⟨hq, hr, ?_, by simpa using clz_le64 q.w3⟩
  show 3 ≤ (Go.bits.LeadingZeros64 q.w3).toInt
  apply clz_ge3_of_lt
  have := U256.toNat_lt n
  have hw0 := q.w0.toNat_lt; have hw1 := q.w1.toNat_lt; have hw2 := q.w2.toNat_lt
  have hx : q.toNat = q.w0.toNat + q.w1.toNat * 2^64 + q.w2.toNat * 2^128 + q.w3.toNat * 2^192 := rfl
  omega

theorem bigK_triple (rm : UInt8) (neg : Bool) (mant : UInt64) (shift zeros : Int64) :
    ⦃⌜0 ≤ zeros.toInt⌝⦄ FF.bigK rm neg mant shift zeros ⦃⇓ _ => ⌜True⌝⦄ := by
  have hs := shlS_triple
  have hf := ff_finishK_triple
  have hd := U256_div10_clz3
  mvcgen -trivial [FF.bigK, FF.bigBody, hs, hf, hd, -U256_div10_spec]
  case inv1 => exact fun st => ⟨up64 st.2.1⟩
  case inv2 => exact ⇓ x => match x with
    | .inl st => ⌜st.2.2.2.1 = 0 ∨ st.2.2.2.1 = 1⌝
    | .inr st => ⌜st.2.2.2.1 = 0 ∨ st.2.2.2.1 = 1⌝
  all_goals (simp +zetaDelta at *)
  all_goals d128_prep
  all_goals d192_fin

theorem bigPath_triple (rm : UInt8) (neg : Bool) (mant : UInt64) (shift : Int64) :
    ⦃⌜0 ≤ shift.toInt⌝⦄ FF.bigPath rm neg mant shift ⦃⇓ _ => ⌜True⌝⦄ := by
  have hk := bigK_triple
  have h0 := clz_nonneg mant
  mvcgen -trivial [FF.bigPath, hk]
  all_goals (simp +zetaDelta at *)
  all_goals assumption


theorem U256.w3_toNat_lt (n : U256) (k : Nat) : n.w3.toNat < k ↔ n.toNat < k * 2^192 := by
  have := n.w0.toNat_lt; have := n.w1.toNat_lt; have := n.w2.toNat_lt
  simp only [U256.toNat]; omega

/-- a right shift by at most 4 of a 256-bit value with fewer than 4 leading zeros is non-zero -/
theorem rsh_conv_ne_zero (x : U256) (m : Int64) (h0 : 0 ≤ m.toInt) (h4 : m.toInt ≤ 4)
    (hx : 2^252 ≤ x.toNat) : ((Gen.U256.rsh x (Go.conv m : UInt64)).toNat = 0) = False := by
  rw [U256_rsh_toNat, conv_i64_u64_toNat m h0, eq_iff_iff, iff_false]
  have hm : m.toInt.toNat ≤ 4 := by omega
  have hp : 2 ^ m.toInt.toNat ≤ 2 ^ 4 := Nat.pow_le_pow_right (by norm_num) hm
  have hpos := Nat.two_pow_pos m.toInt.toNat
  intro h
  rw [Nat.div_eq_zero_iff] at h
  omega

theorem rsh_conv_ne_zero' (x : U256) (z : Int64)
    (h : ¬x.toNat = 0 ∧ (4 ≤ z.toInt ↔ x.toNat <
      7237005577332262213973186563042994240829374041602535252466099000494570602496) ∧
      0 ≤ z.toInt ∧ z.toInt < 4) :
    ((Gen.U256.rsh x (Go.conv (4 - z) : UInt64)).toNat = 0) = False := by
  obtain ⟨_, hiff, h0, h4⟩ := h
  have e : (4 - z).toInt = 4 - z.toInt := by
    apply i64_sub_toInt' ; intros; simp only [Int64.reduceToInt] at *; omega
  apply rsh_conv_ne_zero <;> (try rw [e]) <;> omega

/-- `x.toInt`, hidden from the default simp set -/
def i64v (x : Int64) : Int := x.toInt

macro "i64_disch2" : tactic =>
  `(tactic| (intros; (try simp only [Int64.reduceToInt, Int.reducePow, Int.reduceNeg, Int.reduceMul, conv_i16_i64_toInt] at *); (try simp (disch := i64_disch) only [i64_add_toInt', i64_sub_toInt', i64_mul_toInt', Int64.reduceToInt] at *); omega))

theorem smallK_triple (rm : UInt8) (neg : Bool) (mant : UInt64) (shift zeros : Int64) :
    ⦃⌜0 ≤ zeros.toInt ∧ zeros.toInt ≤ shift.toInt ∧ (Go.shr mant zeros.toInt).toNat ≠ 0⌝⦄
    FF.smallK rm neg mant shift zeros ⦃⇓ _ => ⌜True⌝⦄ := by
  have hs := shrS_triple
  have hf := ff_finishK_triple
  mvcgen -trivial [FF.smallK, FF.smallBody, FF.smallInner, FF.smallShift, hs, hf]
  case inv1 => exact fun st => ⟨up64 st.2.1⟩
  case inv2 => exact ⇓ x => match x with
    | .inl st => ⌜0 ≤ i64v st.2.1 ∧ st.2.2.1.toNat ≠ 0 ∧ (st.2.2.2.1 = 0 ∨ st.2.2.2.1 = 1)⌝
    | .inr st => ⌜st.2.2.2.1 = 0 ∨ st.2.2.2.1 = 1⌝
  case inv3 => exact fun st => ⟨2^256 - st.2.1.toNat⟩
  case inv4 => exact ⇓ x => match x with
    | .inl st => ⌜st.2.1.toNat ≠ 0 ∧ (4 ≤ st.2.2.toInt ↔ st.2.1.toNat < 2^252) ∧ 0 ≤ st.2.2.toInt ∧
        st.2.2.toInt ≤ 64⌝
    | .inr st => ⌜st.2.1.toNat ≠ 0 ∧ (4 ≤ st.2.2.toInt ↔ st.2.1.toNat < 2^252) ∧ 0 ≤ st.2.2.toInt ∧
        st.2.2.toInt < 4⌝
  all_goals (simp +zetaDelta [clz_ge4, clz_nonneg, clz_le64, U256.w3_toNat_lt] at *)
  all_goals (try simp only [i64v] at *)
  all_goals d128_prep
  all_goals (try simp (disch := i64_disch2) only [i64_sub_toInt', Int64.reduceToInt] at *)
  all_goals (try simp (disch := d192_disch) only [rsh_conv_ne_zero, U256_mul64_toNat_of_lt, UInt64.reduceToNat,
    not_false_eq_true] at *)
  all_goals (try simp (disch := assumption) only [rsh_conv_ne_zero'] at *)
  all_goals (try d192_fin)

theorem shr_tz_ne_zero (mant : UInt64) (hm : mant.toNat ≠ 0) (k : Int) (_hk0 : 0 ≤ k)
    (hk : k ≤ (Go.bits.TrailingZeros64 mant).toInt) : (Go.shr mant k).toNat ≠ 0 := by
  obtain ⟨z, hz, hz64, hdvd, hz63, hzk⟩ := FF.tz_spec mant
  rw [Go.shr_toNat]
  have hkz : k.toNat ≤ z := by omega
  have hd : 2 ^ k.toNat ∣ mant.toNat := Nat.dvd_trans (Nat.pow_dvd_pow 2 hkz) hdvd
  obtain ⟨c, hc⟩ := hd
  rw [hc, Nat.mul_div_cancel_left _ (Nat.two_pow_pos _)]
  intro h0; subst h0; omega

theorem smallPath_triple (rm : UInt8) (neg : Bool) (mant : UInt64) (shift : Int64) :
    ⦃⌜0 ≤ shift.toInt ∧ mant.toNat ≠ 0⌝⦄ FF.smallPath rm neg mant shift ⦃⇓ _ => ⌜True⌝⦄ := by
  have hk := smallK_triple
  have h0 := (tz_range mant).1
  mvcgen -trivial [FF.smallPath, hk]
  all_goals (simp +zetaDelta at *)
  all_goals (rename_i h hc; obtain ⟨h1, h2⟩ := h)
  · exact ⟨h1, shr_tz_ne_zero mant h2 _ h1 (by rw [Int64.lt_iff_toInt_lt] at hc; omega)⟩
  · exact ⟨h0, by rw [Int64.le_iff_toInt_le] at hc; exact hc, shr_tz_ne_zero mant h2 _ h0 (le_refl _)⟩

theorem core_triple (rm : UInt8) (neg : Bool) (mant : UInt64) (exp : Int16) :
    ⦃⌜mant.toNat ≠ 0⌝⦄ FF.core rm neg mant exp ⦃⇓ _ => ⌜True⌝⦄ := by
  have hb := bigPath_triple
  have hs := smallPath_triple
  mvcgen -trivial [FF.core, hb, hs]
  all_goals (simp +zetaDelta at *)
  all_goals d128_prep
  all_goals d192_fin

/-- `FromFloat64` terminates without panic for every bit pattern and **every** default-rounding-mode
byte (also invalid ones, which behave like ToNearestEven) -/
theorem FromFloat64_total_all (g : Globals) (f : Go.F64) : ∃ r, Gen.FromFloat64 g f = .ok r := by
  by_cases hn : f.isNaN = true
  · exact ⟨_, FF.fromFloat64_nan g f hn⟩
  have hn' : f.isNaN = false := by simpa using hn
  by_cases hi : f.isInf = true
  · exact ⟨_, FF.fromFloat64_inf g f hi⟩
  have hi' : f.isInf = false := by simpa using hi
  by_cases hz : f.isZero = true
  · exact ⟨_, FF.fromFloat64_zero g f hz⟩
  have hz' : f.isZero = false := by simpa using hz
  rw [FF.fromFloat64_eq]
  have h1 : ¬ Go.math.IsNaN f = true := by show ¬ f.isNaN = true; rw [hn']; simp
  rw [if_neg h1, if_neg (by rw [FF.isInf0, hi']; simp), if_neg (by rw [FF.feq_zero f hn', hz']; simp)]
  have hmant : (Go.math.Float64bits f &&& 4503599627370495).toNat = f.mantField := rfl
  split
  · rename_i hc
    have h0 : f.expField = 0 := by
      rw [beq_iff_eq, ← Int16.toInt_inj, FF.expI_toInt] at hc
      have : (0 : Int16).toInt = 0 := rfl
      omega
    have hmnz : f.mantField ≠ 0 := by
      intro hz0
      unfold Go.F64.isZero at hz'
      simp [h0, hz0] at hz'
    obtain ⟨r, e, _⟩ := ok_of_triple_pre (core_triple g.DefaultRoundingMode
      (Go.math.Float64bits f &&& 9223372036854775808 != 0)
      (Go.math.Float64bits f &&& 4503599627370495) (-1022)) (by rw [hmant]; exact hmnz)
    exact ⟨r, e⟩
  · obtain ⟨r, e, _⟩ := ok_of_triple_pre (core_triple g.DefaultRoundingMode
      (Go.math.Float64bits f &&& 9223372036854775808 != 0)
      (Go.math.Float64bits f &&& 4503599627370495 ||| 4503599627370496)
      ((Go.conv (Go.shr (Go.math.Float64bits f) 52 &&& 2047) : Int16) - 1023))
      (by rw [FF.mant_or]; omega)
    exact ⟨r, e⟩

theorem FromFloat32_total_all (g : Globals) (f : Go.F32) : ∃ r, Gen.FromFloat32 g f = .ok r := by
  obtain ⟨r, e⟩ := FromFloat64_total_all g (Go.F32.toF64 f)
  unfold Gen.FromFloat32
  split
  · exact ⟨_, rfl⟩
  · rw [e]; exact ⟨_, rfl⟩

example : ∃ r, Gen.FromFloat64 { DefaultRoundingMode := 200 } ⟨0x3FB999999999999A⟩ = .ok r :=
  FromFloat64_total_all _ _

end D128.Proofs.Total
