/-
  The value of a numeral, part 1: a ghost reading of the bytes and the specification.

  `parseNumber` is a left-to-right fold of `Parse.step2`; the specification `Spec.readNumber` reads digit
  groups.  Both are related to a third, trivial reading of the bytes — the *ghost* fold `gfold`, which
  only accumulates the mathematical quantities (all significand digits as one natural number, the
  number of significand / fraction digits, the exponent digits as a natural number, the flags) and
  ignores validity.

  * `ParseLong.G`, `g0`, `gstep`, `gfold`      the ghost state, its initial value, one byte, the fold
  * `gfold_nd_le`, `gfold_n_lt`               `nd` grows by at most one per byte; `n < 10^nd`; `nf ≤ nd`
  * `gacc`, `setAcc`, `readDigits_gfold`      `Spec.readDigits` over a digit group (with separators) is the
                                              ghost fold over that group
  * `readNumber_gfold`                        `Spec.readNumber sep chars = some (m, sc)` ⇒
                                              `m = (gfold cs g0).n`, `sc = ±ev − nf` of the ghost
-/
import D128.Proofs.ParseGrammar
import D128.Proofs.ParseValue

set_option linter.unusedSimpArgs false
set_option linter.unusedVariables false

namespace ParseLong
open Parse

/-- the mathematical content of the bytes read so far -/
structure G where
  /-- all significand digits read as one number -/
  n : Nat
  /-- number of significand digits -/
  nd : Nat
  /-- number of significand digits after the point -/
  nf : Nat
  /-- the exponent digits read as one number -/
  ev : Nat
  dot : Bool
  exp : Bool
  eneg : Bool
  deriving Repr, DecidableEq

def g0 : G := ⟨0, 0, 0, 0, false, false, false⟩

def gstep (c : UInt8) (g : G) : G :=
  if isDig c then
    if g.exp then { g with ev := g.ev * 10 + dval c }
    else { g with n := g.n * 10 + dval c, nd := g.nd + 1, nf := if g.dot then g.nf + 1 else g.nf }
  else if c == (46 : UInt8) then { g with dot := true }
  else if (c == (69 : UInt8)) || (c == (101 : UInt8)) then { g with exp := true }
  else if c == (45 : UInt8) then { g with eneg := true }
  else g

def gfold : List UInt8 → G → G
  | [], g => g
  | c :: r, g => gfold r (gstep c g)

@[simp] theorem gfold_nil (g : G) : gfold [] g = g := rfl
theorem gfold_cons (c : UInt8) (r : List UInt8) (g : G) : gfold (c :: r) g = gfold r (gstep c g) := rfl

theorem gfold_append (a b : List UInt8) (g : G) : gfold (a ++ b) g = gfold b (gfold a g) := by
  induction a generalizing g with
  | nil => rfl
  | cons c r ih => simp only [List.cons_append, gfold_cons, ih]

/-! ## simple facts about the ghost -/

theorem gstep_nd_le (c : UInt8) (g : G) : (gstep c g).nd ≤ g.nd + 1 := by
  unfold gstep
  repeat' split
  all_goals simp

theorem gstep_nd_ge (c : UInt8) (g : G) : g.nd ≤ (gstep c g).nd := by
  unfold gstep
  repeat' split
  all_goals simp

theorem gfold_nd_le (cs : List UInt8) (g : G) : (gfold cs g).nd ≤ g.nd + cs.length := by
  induction cs generalizing g with
  | nil => simp
  | cons c r ih =>
    rw [gfold_cons, List.length_cons]
    have := ih (gstep c g)
    have := gstep_nd_le c g
    omega

/-- the ghost invariant: `n` has at most `nd` digits, fraction digits are significand digits -/
def GInv (g : G) : Prop := g.n < 10 ^ g.nd ∧ g.nf ≤ g.nd

theorem gstep_inv (c : UInt8) (g : G) (h : GInv g) : GInv (gstep c g) := by
  obtain ⟨h1, h2⟩ := h
  unfold gstep
  by_cases hd : isDig c = true
  · simp only [hd, if_true]
    by_cases he : g.exp = true
    · simp only [he, if_true]; exact ⟨h1, h2⟩
    · simp only [he, Bool.false_eq_true, if_false]
      refine ⟨?_, ?_⟩
      · show g.n * 10 + dval c < 10 ^ (g.nd + 1)
        have := dval_le c hd
        rw [Nat.pow_succ]; omega
      · show (if g.dot = true then g.nf + 1 else g.nf) ≤ g.nd + 1
        split <;> omega
  · simp only [hd, Bool.false_eq_true, if_false]
    repeat' split
    all_goals exact ⟨h1, h2⟩

theorem gfold_inv (cs : List UInt8) (g : G) (h : GInv g) : GInv (gfold cs g) := by
  induction cs generalizing g with
  | nil => exact h
  | cons c r ih => exact ih _ (gstep_inv c g h)

theorem g0_inv : GInv g0 := ⟨by decide, by decide⟩

/-! ## digit groups -/

/-- the accumulator a digit group adds to -/
def gacc (g : G) : Nat := if g.exp then g.ev else g.n

/-- the ghost after a digit group of `k` digits that brought the accumulator to `a` -/
def setAcc (g : G) (a k : Nat) : G :=
  if g.exp then { g with ev := a }
  else { g with n := a, nd := g.nd + k, nf := if g.dot then g.nf + k else g.nf }

theorem setAcc_self (g : G) : setAcc g (gacc g) 0 = g := by
  obtain ⟨n, nd, nf, ev, dot, exp, eneg⟩ := g
  unfold setAcc gacc
  cases exp <;> cases dot <;> simp

theorem gacc_gstep_dig (c : UInt8) (g : G) (hc : isDig c = true) :
    gacc (gstep c g) = gacc g * 10 + dval c := by
  obtain ⟨n, nd, nf, ev, dot, exp, eneg⟩ := g
  unfold gstep gacc
  cases exp <;> simp [hc]

theorem setAcc_gstep_dig (c : UInt8) (g : G) (hc : isDig c = true) (a j cnt : Nat) (h : cnt + 1 ≤ j) :
    setAcc (gstep c g) a (j - (cnt + 1)) = setAcc g a (j - cnt) := by
  obtain ⟨n, nd, nf, ev, dot, exp, eneg⟩ := g
  unfold gstep setAcc
  cases exp <;> cases dot <;> simp [hc] <;> omega

theorem gstep_us (g : G) : gstep 95 g = g := by
  unfold gstep
  simp [show isDig 95 = false from by decide]

/-- `Spec.readDigits` over a digit group is the ghost fold over the group -/
theorem readDigits_gfold (sep : Bool) (cs : List UInt8) (nz : Bool) :
    ∀ acc cnt (g : G), decide (cnt > 0) = nz → gacc g = acc →
      cnt ≤ (Spec.readDigits sep (cs.map toChar) acc cnt).2.1 ∧
      gfold cs g = gfold (skipD sep cs nz).2
        (setAcc g (Spec.readDigits sep (cs.map toChar) acc cnt).1
          ((Spec.readDigits sep (cs.map toChar) acc cnt).2.1 - cnt)) := by
  induction cs, nz using skipD.induct sep with
  | case1 nz =>
    intro acc cnt g _ hg
    simp only [List.map_nil, Spec.readDigits, skipD, Nat.sub_self, gfold_nil]
    rw [← hg, setAcc_self]
    exact ⟨Nat.le_refl _, rfl⟩
  | case2 c rest nz hd ih =>
    intro acc cnt g h hg
    rw [List.map_cons, readDigits_cons, isDigit_toChar, if_pos hd, skipD_dig sep c rest nz hd, gfold_cons]
    obtain ⟨h1, h2⟩ := ih (acc * 10 + Spec.digitVal (toChar c)) (cnt + 1) (gstep c g) (by simp)
      (by rw [gacc_gstep_dig c g hd, hg, digitVal_toChar]; rfl)
    refine ⟨by omega, ?_⟩
    rw [h2, setAcc_gstep_dig c g hd _ _ _ h1]
  | case3 c nz hc hu d rest' hd ih =>
    intro acc cnt g h hg
    have hu' : (sep && toChar c == '_' && decide (cnt > 0)) = true := by
      rw [h, show '_' = toChar 95 from rfl, toChar_beq]; exact hu
    have h95 : c = 95 := by
      simp only [Bool.and_eq_true, beq_iff_eq] at hu; exact hu.1.2
    rw [List.map_cons, List.map_cons, readDigits_cons, isDigit_toChar, if_neg hc, if_pos hu']
    simp only [isDigit_toChar, hd, if_true]
    rw [readDigits_cons, isDigit_toChar, if_pos hd, skipD_us_dig sep c d rest' nz hc hu hd, gfold_cons, gfold_cons,
      h95, gstep_us]
    obtain ⟨h1, h2⟩ := ih (acc * 10 + Spec.digitVal (toChar d)) (cnt + 1) (gstep d g) (by simp)
      (by rw [gacc_gstep_dig d g hd, hg, digitVal_toChar]; rfl)
    refine ⟨by omega, ?_⟩
    rw [h2, setAcc_gstep_dig d g hd _ _ _ h1]
  | case4 c nz hc hu d rest' hd =>
    intro acc cnt g h hg
    have hu' : (sep && toChar c == '_' && decide (cnt > 0)) = true := by
      rw [h, show '_' = toChar 95 from rfl, toChar_beq]; exact hu
    rw [List.map_cons, List.map_cons, readDigits_cons, isDigit_toChar, if_neg hc, if_pos hu']
    simp only [isDigit_toChar, hd, Bool.false_eq_true, if_false]
    rw [skipD_us_nodig sep c d rest' nz hc hu hd]
    simp only [Nat.sub_self]
    rw [← hg, setAcc_self]
    exact ⟨Nat.le_refl _, rfl⟩
  | case5 c nz hc hu =>
    intro acc cnt g h hg
    have hu' : (sep && toChar c == '_' && decide (cnt > 0)) = true := by
      rw [h, show '_' = toChar 95 from rfl, toChar_beq]; exact hu
    rw [List.map_cons, List.map_nil, readDigits_cons, isDigit_toChar, if_neg hc, if_pos hu']
    rw [skipD_us_end sep c nz hc hu]
    simp only [Nat.sub_self]
    rw [← hg, setAcc_self]
    exact ⟨Nat.le_refl _, rfl⟩
  | case6 c rest nz hc hu =>
    intro acc cnt g h hg
    have hu' : ¬ (sep && toChar c == '_' && decide (cnt > 0)) = true := by
      rw [h, show '_' = toChar 95 from rfl, toChar_beq]; exact hu
    rw [List.map_cons, readDigits_cons, isDigit_toChar, if_neg hc, if_neg hu']
    rw [skipD_other sep c rest nz hc hu]
    simp only [Nat.sub_self]
    rw [← hg, setAcc_self]
    exact ⟨Nat.le_refl _, rfl⟩

/-! ## `Spec.readNumber` and the ghost -/

theorem gstep_dot (g : G) : gstep 46 g = { g with dot := true } := by
  unfold gstep
  simp [show isDig 46 = false from by decide]

theorem gstep_e (c : UInt8) (hc : c = 101 ∨ c = 69) (g : G) : gstep c g = { g with exp := true } := by
  unfold gstep
  rcases hc with h | h <;> subst h
  · simp [show isDig 101 = false from by decide]
  · simp [show isDig 69 = false from by decide]

theorem gstep_minus (g : G) : gstep 45 g = { g with eneg := true } := by
  unfold gstep
  simp [show isDig 45 = false from by decide]

theorem gstep_plus (g : G) : gstep 43 g = g := by
  unfold gstep
  simp [show isDig 43 = false from by decide]

/-- integer digits, optional point, fraction digits -/
theorem sigPart (sep : Bool) (cs : List UInt8) :
    ∃ (R2 : List UInt8) (G2 : G),
      dotStep sep (Spec.readDigits sep (cs.map toChar) 0 0).1 (Spec.readDigits sep (cs.map toChar) 0 0).2.2
        = (G2.n, G2.nf, R2.map toChar) ∧
      gfold cs g0 = gfold R2 G2 ∧ G2.exp = false ∧ G2.ev = 0 ∧ G2.eneg = false := by
  obtain ⟨h1r, -⟩ := readDigits_skipD sep cs false 0 0 (by simp)
  obtain ⟨h1c, h1g⟩ := readDigits_gfold sep cs false 0 0 g0 (by simp) rfl
  generalize Spec.readDigits sep (cs.map toChar) 0 0 = P1 at *
  obtain ⟨ip, ni, r1⟩ := P1
  simp only at h1r h1g ⊢
  subst h1r
  have hG1 : setAcc g0 ip (ni - 0) = ⟨ip, ni, 0, 0, false, false, false⟩ := by
    simp [setAcc, g0]
  rw [hG1] at h1g
  cases hR : (skipD sep cs false).2 with
  | nil =>
    rw [hR] at h1g
    exact ⟨[], ⟨ip, ni, 0, 0, false, false, false⟩, rfl, h1g, rfl, rfl, rfl⟩
  | cons c r =>
    rw [hR] at h1g
    by_cases h46 : c = 46
    · subst h46
      simp only [List.map_cons, dotStep]
      rw [if_pos (show toChar 46 = '.' from rfl)]
      rw [gfold_cons, gstep_dot] at h1g
      obtain ⟨h2r, -⟩ := readDigits_skipD sep r false ip 0 (by simp)
      obtain ⟨h2c, h2g⟩ := readDigits_gfold sep r false ip 0 ⟨ip, ni, 0, 0, true, false, false⟩ (by simp) rfl
      generalize Spec.readDigits sep (r.map toChar) ip 0 = P2 at *
      obtain ⟨fp, nf, r2⟩ := P2
      simp only at h2r h2g ⊢
      subst h2r
      refine ⟨(skipD sep r false).2, ⟨fp, ni + nf, nf, 0, true, false, false⟩, rfl, ?_, rfl, rfl, rfl⟩
      rw [h1g, h2g]
      simp [setAcc]
    · have h' : toChar c ≠ '.' := fun hh => h46 ((toChar_eq_lit c 46).mp hh)
      simp only [List.map_cons, dotStep]
      rw [if_neg h']
      exact ⟨c :: r, ⟨ip, ni, 0, 0, false, false, false⟩, rfl, h1g, rfl, rfl, rfl⟩

/-- the optional sign of the exponent -/
theorem signPart (r0 : List UInt8) (Ge : G) (hneg : Ge.eneg = false) :
    ∃ (R3 : List UInt8) (G3 : G), signStep (r0.map toChar) = (G3.eneg, R3.map toChar) ∧
      gfold r0 Ge = gfold R3 G3 ∧ G3.exp = Ge.exp ∧ G3.ev = Ge.ev ∧ G3.n = Ge.n ∧ G3.nf = Ge.nf := by
  cases r0 with
  | nil => exact ⟨[], Ge, by rw [hneg]; rfl, rfl, rfl, rfl, rfl, rfl⟩
  | cons c r' =>
    simp only [List.map_cons, signStep]
    by_cases h45 : c = 45
    · subst h45
      rw [if_pos (show toChar 45 = '-' from rfl)]
      exact ⟨r', { Ge with eneg := true }, rfl, by rw [gfold_cons, gstep_minus], rfl, rfl, rfl, rfl⟩
    · have e1 : toChar c ≠ '-' := fun hh => h45 ((toChar_eq_lit c 45).mp hh)
      rw [if_neg e1]
      by_cases h43 : c = 43
      · subst h43
        rw [if_pos (show toChar 43 = '+' from rfl)]
        exact ⟨r', Ge, by rw [hneg], by rw [gfold_cons, gstep_plus], rfl, rfl, rfl, rfl⟩
      · have e2 : toChar c ≠ '+' := fun hh => h43 ((toChar_eq_lit c 43).mp hh)
        rw [if_neg e2]
        exact ⟨c :: r', Ge, by rw [hneg]; rfl, rfl, rfl, rfl, rfl, rfl⟩

theorem map_toChar_eq_nil {l : List UInt8} (h : l.map toChar = []) : l = [] := by
  cases l with
  | nil => rfl
  | cons _ _ => simp at h

/-- **the specification reads what the ghost reads**: on an accepted numeral the literal value of
    `Spec.readNumber` is `n · 10^(±ev − nf)` of the ghost fold -/
theorem readNumber_gfold (sep : Bool) (cs : List UInt8) (m : Nat) (sc : Int)
    (h : Spec.readNumber sep (cs.map toChar) = some (m, sc)) :
    m = (gfold cs g0).n ∧
    sc = (if (gfold cs g0).eneg then -((gfold cs g0).ev : Int) else ((gfold cs g0).ev : Int))
          - ((gfold cs g0).nf : Int) := by
  rw [readNumber_eq'] at h
  unfold readNumber' at h
  obtain ⟨R2, G2, hdot, hfold, hexp, hev, hneg⟩ := sigPart sep cs
  simp only [hdot] at h
  rw [hfold]
  split at h
  · cases h
  cases R2 with
  | nil =>
    simp only [List.map_nil] at h
    injection h with h; injection h with h1 h2
    simp only [gfold_nil, hneg, hev, Bool.false_eq_true, if_false]
    exact ⟨h1.symm, by rw [← h2]; simp⟩
  | cons e0 r0 =>
    simp only [List.map_cons] at h
    have he : (toChar e0 == 'e' || toChar e0 == 'E') = decide (e0 = 101 ∨ e0 = 69) := by
      rw [show 'e' = toChar 101 from rfl, show 'E' = toChar 69 from rfl, toChar_beq, toChar_beq]
      rw [Bool.eq_iff_iff]; simp
    rw [he] at h
    by_cases hE : e0 = 101 ∨ e0 = 69
    · simp only [hE, decide_true, if_true] at h
      rw [gfold_cons, gstep_e e0 hE]
      obtain ⟨R3, G3, hsgn, hf3, h3exp, h3ev, h3n, h3nf⟩ := signPart r0 { G2 with exp := true } hneg
      rw [hsgn] at h
      simp only at h
      obtain ⟨h4r, -⟩ := readDigits_skipD sep R3 false 0 0 (by simp)
      obtain ⟨h4c, h4g⟩ := readDigits_gfold sep R3 false 0 0 G3 (by simp)
        (by unfold gacc; rw [h3exp]; simp [h3ev, hev])
      generalize Spec.readDigits sep (R3.map toChar) 0 0 = P3 at *
      obtain ⟨ev, ne, r''⟩ := P3
      simp only at h4r h4g h
      split at h
      · cases h
      rename_i hcond
      simp only [Bool.or_eq_true, decide_eq_true_eq, not_or, ne_eq, Decidable.not_not] at hcond
      have hR4 : (skipD sep R3 false).2 = [] := map_toChar_eq_nil (by rw [← h4r]; exact hcond.2)
      rw [hR4, gfold_nil] at h4g
      injection h with h; injection h with h1 h2
      rw [hf3, h4g]
      have hs : setAcc G3 ev (ne - 0) = { G3 with ev := ev } := by
        unfold setAcc; rw [h3exp]; rfl
      rw [hs]
      simp only [h3n, h3nf]
      exact ⟨h1.symm, h2.symm⟩
    · simp only [hE, decide_false, Bool.false_eq_true, if_false] at h
      cases h

end ParseLong
