/-
  Soundness of the rational enclosure oracle `Spec.Encl` (D128/Spec/Enclosure.lean), part 1:
  rounding primitives and interval operations.

  Membership of a real number in a rational interval: `EnclPf.Mem x a := a.lo ≤ x ∧ x ≤ a.hi`
  (notation `x ∈ᵢ a`).

  1. `rdDownPos_le q : rdDownPos q ≤ q`, `le_rdUpPos q : q ≤ rdUpPos q`            (all q)
     `rdDown_le q : rdDown q ≤ q`, `le_rdUp q : q ≤ rdUp q`                        (all q)
     `rdDown_le_real`, `le_rdUp_real` (the same after the cast to ℝ, for a real below/above q)
     `rdDown_ge q : q − |q|·10^-79 ≤ rdDown q`, `rdUp_le q : rdUp q ≤ q + |q|·10^-79`   (all q; `eps = 10^-79`)
  2. `mem_pt`, `mem_add`, `mem_sub`, `mem_neg`, `mem_mul`, `mem_scale`, `mem_invPos`, `mem_sqrN`
     (inclusion monotonicity of `I.pt/add/sub/neg/mul/scale/invPos` and of `sqrN`),
     `mem_of_contains` (`I.contains a q = true ↔ q ∈ᵢ a`)
-/
import D128.Spec.Enclosure
import D128.Proofs.SpecRoundBase
import Mathlib.Data.Real.Basic
import Mathlib.Data.Rat.Cast.Order
import Mathlib.Algebra.Order.Floor.Ring
import Mathlib.Tactic.Linarith
import Mathlib.Tactic.Positivity
import Mathlib.Tactic.FieldSimp
import Mathlib.Tactic.Ring
import Mathlib.Tactic.NormNum
set_option autoImplicit false

namespace EnclPf
open Spec Spec.Encl SpecRound

/-! ## 1. rounding primitives -/

theorem rdDownPos_le (q : Rat) : rdDownPos q ≤ q := by
  unfold rdDownPos
  simp only
  have hp := pow10_pos (P - 1 - ilog10 q)
  rw [div_le_iff₀ hp]
  exact Int.floor_le (q * pow10 (P - 1 - ilog10 q))

theorem le_rdUpPos (q : Rat) : q ≤ rdUpPos q := by
  unfold rdUpPos
  simp only
  have hp := pow10_pos (P - 1 - ilog10 q)
  rw [le_div_iff₀ hp]
  exact Rat.le_ceil

theorem rdDown_le (q : Rat) : rdDown q ≤ q := by
  unfold rdDown
  split
  · rename_i h; have : q = 0 := by simpa using h
    rw [this]
  · split
    · exact rdDownPos_le q
    · have := le_rdUpPos (-q); linarith

theorem le_rdUp (q : Rat) : q ≤ rdUp q := by
  unfold rdUp
  split
  · rename_i h; have : q = 0 := by simpa using h
    rw [this]
  · split
    · exact le_rdUpPos q
    · have := rdDownPos_le (-q); linarith

theorem rdDown_le_real {q : Rat} {x : ℝ} (h : (q : ℝ) ≤ x) : ((rdDown q : ℚ) : ℝ) ≤ x :=
  le_trans (by exact_mod_cast rdDown_le q) h

theorem le_rdUp_real {q : Rat} {x : ℝ} (h : x ≤ (q : ℝ)) : x ≤ ((rdUp q : ℚ) : ℝ) :=
  le_trans h (by exact_mod_cast le_rdUp q)

/-! ### relative precision: 80 significant digits -/

/-- the relative rounding unit `10^-79` -/
def eps : ℚ := 1 / 10 ^ 79

theorem eps_pos : 0 < eps := by unfold eps; positivity

theorem inv_pow10_le (q : Rat) (hq : 0 < q) : 1 / pow10 (P - 1 - ilog10 q) ≤ q * eps := by
  have h1 := (ilog10_spec q hq).1
  rw [pow10_eq_zpow, show P - 1 - ilog10 q = (79 : Int) - ilog10 q from rfl, zpow_sub₀ (by norm_num), one_div_div]
  unfold eps
  rw [div_le_iff₀ (by positivity)]
  calc (10 : ℚ) ^ ilog10 q ≤ q := h1
    _ = q * (1 / 10 ^ 79) * 10 ^ (79 : Int) := by
        rw [show ((10 : ℚ) ^ (79 : Int)) = 10 ^ 79 from by norm_cast]; field_simp

theorem rdDownPos_ge (q : Rat) (hq : 0 < q) : q - q * eps ≤ rdDownPos q := by
  have h := inv_pow10_le q hq
  unfold rdDownPos
  simp only
  have hp := pow10_pos (P - 1 - ilog10 q)
  have hf : q * pow10 (P - 1 - ilog10 q) - 1 < ((q * pow10 (P - 1 - ilog10 q)).floor : ℚ) :=
    Int.sub_one_lt_floor (q * pow10 (P - 1 - ilog10 q))
  rw [le_div_iff₀ hp]
  have : (q - 1 / pow10 (P - 1 - ilog10 q)) * pow10 (P - 1 - ilog10 q) = q * pow10 (P - 1 - ilog10 q) - 1 := by
    field_simp
  nlinarith

theorem rdUpPos_le (q : Rat) (hq : 0 < q) : rdUpPos q ≤ q + q * eps := by
  have h := inv_pow10_le q hq
  unfold rdUpPos
  simp only
  have hp := pow10_pos (P - 1 - ilog10 q)
  have hf : ((q * pow10 (P - 1 - ilog10 q)).ceil : ℚ) < q * pow10 (P - 1 - ilog10 q) + 1 := by
    have := Rat.ceil_lt (x := q * pow10 (P - 1 - ilog10 q))
    exact_mod_cast this
  rw [div_le_iff₀ hp]
  have : (q + 1 / pow10 (P - 1 - ilog10 q)) * pow10 (P - 1 - ilog10 q) = q * pow10 (P - 1 - ilog10 q) + 1 := by
    field_simp
  nlinarith

theorem rdDown_ge (q : Rat) : q - |q| * eps ≤ rdDown q := by
  unfold rdDown
  split
  · rename_i h; have : q = 0 := by simpa using h
    rw [this]; simp
  · split
    · rename_i h; rw [abs_of_pos h]; exact rdDownPos_ge q h
    · rename_i h0 h
      have hq : q < 0 := lt_of_le_of_ne (not_lt.1 h) (by simpa using h0)
      rw [abs_of_neg hq]
      have := rdUpPos_le (-q) (by linarith); linarith

theorem rdUp_le (q : Rat) : rdUp q ≤ q + |q| * eps := by
  unfold rdUp
  split
  · rename_i h; have : q = 0 := by simpa using h
    rw [this]; simp
  · split
    · rename_i h; rw [abs_of_pos h]; exact rdUpPos_le q h
    · rename_i h0 h
      have hq : q < 0 := lt_of_le_of_ne (not_lt.1 h) (by simpa using h0)
      rw [abs_of_neg hq]
      have := rdDownPos_ge (-q) (by linarith); linarith

example : rdDown (1 / 3) ≤ 1 / 3 ∧ (1 / 3 : Rat) ≤ rdUp (1 / 3) := ⟨rdDown_le _, le_rdUp _⟩

/-! ## 2. interval operations -/

/-- the real `x` lies in the rational interval `a` -/
def Mem (x : ℝ) (a : I) : Prop := ((a.lo : ℚ) : ℝ) ≤ x ∧ x ≤ ((a.hi : ℚ) : ℝ)

scoped infix:50 " ∈ᵢ " => Mem

theorem mem_pt (q : Rat) : (q : ℝ) ∈ᵢ I.pt q := ⟨le_refl _, le_refl _⟩

theorem mem_of_contains {a : I} {q : Rat} : a.contains q = true ↔ (q : ℝ) ∈ᵢ a := by
  unfold I.contains Mem
  simp only [Bool.and_eq_true, decide_eq_true_eq]
  constructor
  · rintro ⟨h1, h2⟩; exact ⟨by exact_mod_cast h1, by exact_mod_cast h2⟩
  · rintro ⟨h1, h2⟩; exact ⟨by exact_mod_cast h1, by exact_mod_cast h2⟩

theorem lo_le_hi_of_mem {a : I} {x : ℝ} (h : x ∈ᵢ a) : a.lo ≤ a.hi := by
  have := le_trans h.1 h.2; exact_mod_cast this

theorem mem_add {a b : I} {x y : ℝ} (hx : x ∈ᵢ a) (hy : y ∈ᵢ b) : (x + y) ∈ᵢ a.add b := by
  constructor
  · apply rdDown_le_real; push_cast; linarith [hx.1, hy.1]
  · apply le_rdUp_real; push_cast; linarith [hx.2, hy.2]

theorem mem_sub {a b : I} {x y : ℝ} (hx : x ∈ᵢ a) (hy : y ∈ᵢ b) : (x - y) ∈ᵢ a.sub b := by
  constructor
  · apply rdDown_le_real; push_cast; linarith [hx.1, hy.2]
  · apply le_rdUp_real; push_cast; linarith [hx.2, hy.1]

theorem mem_neg {a : I} {x : ℝ} (hx : x ∈ᵢ a) : (-x) ∈ᵢ a.neg := by
  constructor
  · show (((-a.hi : ℚ)) : ℝ) ≤ -x; push_cast; linarith [hx.2]
  · show -x ≤ (((-a.lo : ℚ)) : ℝ); push_cast; linarith [hx.1]

/-- a product of two reals from two intervals lies between the least and the greatest corner product -/
theorem mul_corner_bounds {α : Type*} [Field α] [LinearOrder α] [IsStrictOrderedRing α]
    {al ah bl bh x y : α} (hx1 : al ≤ x) (hx2 : x ≤ ah) (hy1 : bl ≤ y) (hy2 : y ≤ bh) :
    min (min (al * bl) (al * bh)) (min (ah * bl) (ah * bh)) ≤ x * y ∧
    x * y ≤ max (max (al * bl) (al * bh)) (max (ah * bl) (ah * bh)) := by
  constructor
  · rcases le_total 0 y with h | h
    · -- x*y ≥ al*y, and al*y ≥ min (al*bl) (al*bh)
      have h1 : al * y ≤ x * y := mul_le_mul_of_nonneg_right hx1 h
      rcases le_total 0 al with h' | h'
      · have : al * bl ≤ al * y := mul_le_mul_of_nonneg_left hy1 h'
        exact le_trans (le_trans (min_le_left _ _) (min_le_left _ _)) (le_trans this h1)
      · have : al * bh ≤ al * y := mul_le_mul_of_nonpos_left hy2 h'
        exact le_trans (le_trans (min_le_left _ _) (min_le_right _ _)) (le_trans this h1)
    · have h1 : ah * y ≤ x * y := mul_le_mul_of_nonpos_right hx2 h
      rcases le_total 0 ah with h' | h'
      · have : ah * bl ≤ ah * y := mul_le_mul_of_nonneg_left hy1 h'
        exact le_trans (le_trans (min_le_right _ _) (min_le_left _ _)) (le_trans this h1)
      · have : ah * bh ≤ ah * y := mul_le_mul_of_nonpos_left hy2 h'
        exact le_trans (le_trans (min_le_right _ _) (min_le_right _ _)) (le_trans this h1)
  · rcases le_total 0 y with h | h
    · have h1 : x * y ≤ ah * y := mul_le_mul_of_nonneg_right hx2 h
      rcases le_total 0 ah with h' | h'
      · have : ah * y ≤ ah * bh := mul_le_mul_of_nonneg_left hy2 h'
        exact le_trans (le_trans h1 this) (le_trans (le_max_right _ _) (le_max_right _ _))
      · have : ah * y ≤ ah * bl := mul_le_mul_of_nonpos_left hy1 h'
        exact le_trans (le_trans h1 this) (le_trans (le_max_left _ _) (le_max_right _ _))
    · have h1 : x * y ≤ al * y := mul_le_mul_of_nonpos_right hx1 h
      rcases le_total 0 al with h' | h'
      · have : al * y ≤ al * bh := mul_le_mul_of_nonneg_left hy2 h'
        exact le_trans (le_trans h1 this) (le_trans (le_max_right _ _) (le_max_left _ _))
      · have : al * y ≤ al * bl := mul_le_mul_of_nonpos_left hy1 h'
        exact le_trans (le_trans h1 this) (le_trans (le_max_left _ _) (le_max_left _ _))

theorem mem_mul {a b : I} {x y : ℝ} (hx : x ∈ᵢ a) (hy : y ∈ᵢ b) : (x * y) ∈ᵢ a.mul b := by
  obtain ⟨h1, h2⟩ := mul_corner_bounds hx.1 hx.2 hy.1 hy.2
  unfold I.mul
  constructor
  · apply rdDown_le_real
    simp only [min4]
    push_cast
    exact h1
  · apply le_rdUp_real
    simp only [max4]
    push_cast
    exact h2

theorem mem_scale {a : I} {x : ℝ} (hx : x ∈ᵢ a) (q : Rat) : (x * (q : ℝ)) ∈ᵢ a.scale q :=
  mem_mul hx (mem_pt q)

theorem mem_invPos {a : I} {x : ℝ} (ha : 0 < a.lo) (hx : x ∈ᵢ a) : (1 / x) ∈ᵢ a.invPos := by
  have hlo : (0 : ℝ) < (a.lo : ℝ) := by exact_mod_cast ha
  have hxpos : 0 < x := lt_of_lt_of_le hlo hx.1
  have hhi : (0 : ℝ) < (a.hi : ℝ) := lt_of_lt_of_le hxpos hx.2
  unfold I.invPos
  constructor
  · apply rdDown_le_real; push_cast
    exact one_div_le_one_div_of_le hxpos hx.2
  · apply le_rdUp_real; push_cast
    exact one_div_le_one_div_of_le hlo hx.1

theorem mem_sqrN (n : Nat) : ∀ {a : I} {x : ℝ}, x ∈ᵢ a → (x ^ (2 ^ n)) ∈ᵢ sqrN n a := by
  induction n with
  | zero => intro a x hx; simpa [sqrN] using hx
  | succ n ih =>
    intro a x hx
    have := ih (mem_mul hx hx)
    rw [← pow_two, ← pow_mul, ← pow_succ'] at this
    exact this

example : ((1 / 3 : ℚ) : ℝ) * ((2 / 7 : ℚ) : ℝ) ∈ᵢ (I.pt (1 / 3)).mul (I.pt (2 / 7)) :=
  mem_mul (mem_pt _) (mem_pt _)

end EnclPf
