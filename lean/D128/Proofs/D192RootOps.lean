/-
  D128/Proofs/D192RootOps.lean — the contracts of `decomposed192.mul/add/quo` (D192Mul, D192AddContract,
  D192QuoContract) in the RELATIVE form used by the convergence proofs of `Sqrt`/`Cbrt`, covering both
  alternatives of every "exact or normalised" clause.

  Provided (namespace `Root`):
  * `lam = 1/LIM` (`LIM = 25·2^184 ≈ 6.13e56`), `eps = 2^-185`, `lam_le : lam ≤ 1/(6e56)`
  * `grid_exact`, `ulp_le_of_norm`, `rel_of_norm`, `val_at`, `val_pos_of_sig`, `sig_ne_of_val_pos`, `ok_inj`
  * `mul_rel` : `val d·val o·(1-lam) ≤ val r ≤ val d·val o`, flag ∈ {t, 1}, exponent range, and
                `r.sig < 2^192/10 → exact ∧ flag kept ∧ r.sig = d.sig·o.sig`
  * `add_rel` : `(val d+val o)(1-lam) ≤ val r ≤ val d+val o`, flag ∈ {t, 1, -1}, exponent range, and
                `r.sig < LIM → exact ∧ flag kept ∧ d.sig ≤ r.sig ∧ o.sig ≤ r.sig`
  * `quo_rel` : `(val d/val o)(1-lam) ≤ val r ≤ (val d/val o)(1+eps)`, flag ∈ {t, 1}, `1 ≤ r.sig`,
                exponent range, and `r.sig < LIM → o.sig < OLIM → exact ∧ flag kept`
-/
import D128.Proofs.D192Mul
import D128.Proofs.D192AddContract
import D128.Proofs.D192QuoContract
set_option autoImplicit false
set_option maxRecDepth 4096
set_option linter.unusedVariables false
namespace Root
open Gen D192

/-- relative size of one working ulp of a normalised significand: `1/LIM`, `LIM = 25·2^184 ≈ 6.13e56` -/
def lam : ℚ := 1 / (LIM : ℚ)

theorem LIMq_pos : (0 : ℚ) < (LIM : ℚ) := by unfold LIM; norm_num
theorem lam_pos : 0 < lam := by unfold lam; exact div_pos one_pos LIMq_pos
theorem lam_le : lam ≤ 1 / (6 * 10 ^ 56) := by
  unfold lam LIM; norm_num

/-- a truncation to a grid that contains the exact value is exact -/
theorem grid_exact (R M : ℕ) (u : ℚ) (hu : 0 < u) (h1 : (R : ℚ) * u ≤ (M : ℚ) * u)
    (h2 : (M : ℚ) * u < (R : ℚ) * u + u) : R = M := by
  have a1 : (R : ℚ) ≤ (M : ℚ) := le_of_mul_le_mul_right h1 hu
  have a2 : (M : ℚ) < (R : ℚ) + 1 := by
    have : (M : ℚ) * u < ((R : ℚ) + 1) * u := by linarith [show ((R : ℚ) + 1) * u = (R : ℚ) * u + u by ring]
    exact lt_of_mul_lt_mul_right this hu.le
  have b1 : R ≤ M := by exact_mod_cast a1
  have b2 : M < R + 1 := by exact_mod_cast a2
  omega

/-- the ulp of a value with at least `L` in the significand is at most `value / L` -/
theorem ulp_le_of_norm (r : decomposed192) (L : ℕ) (hL : 0 < L) (h : L ≤ r.sig.toNat) :
    ulp r ≤ val r / (L : ℚ) := by
  have hLq : (0 : ℚ) < (L : ℚ) := by exact_mod_cast hL
  rw [le_div_iff₀ hLq]
  unfold val ulp
  have : (L : ℚ) ≤ (r.sig.toNat : ℚ) := by exact_mod_cast h
  have hp : (0 : ℚ) < (10 : ℚ) ^ r.exp.toInt := zpow_pos (by norm_num) _
  nlinarith

/-- a truncated value `v - ulp < r ≤ v` whose significand is normalised is within relative `lam` -/
theorem rel_of_norm (r : decomposed192) (v : ℚ) (h1 : val r ≤ v) (h2 : v < val r + ulp r)
    (hn : LIM ≤ r.sig.toNat) : v * (1 - lam) ≤ val r := by
  have hu := ulp_le_of_norm r LIM (by unfold LIM; norm_num) hn
  have hr0 := val_nonneg r
  have hl := lam_pos
  have e : val r / (LIM : ℚ) = val r * lam := by unfold lam; ring
  rw [e] at hu
  have hv : v < val r * (1 + lam) := by linarith [show val r * (1 + lam) = val r + val r * lam by ring]
  have hl1 : lam ≤ 1 := le_trans lam_le (by norm_num)
  -- v (1 - lam) < r (1+lam)(1-lam) ≤ r
  have h3 : v * (1 - lam) ≤ val r * (1 + lam) * (1 - lam) :=
    mul_le_mul_of_nonneg_right hv.le (by linarith)
  have h4 : val r * (1 + lam) * (1 - lam) ≤ val r := by
    have : val r * (1 + lam) * (1 - lam) = val r - val r * (lam * lam) := by ring
    have : 0 ≤ val r * (lam * lam) := mul_nonneg hr0 (mul_nonneg hl.le hl.le)
    linarith
  linarith

theorem val_pos_of_sig (r : decomposed192) (h : r.sig.toNat ≠ 0) : 0 < val r := by
  unfold val
  exact mul_pos (by exact_mod_cast Nat.pos_of_ne_zero h) (zpow_pos (by norm_num) _)

theorem sig_ne_of_val_pos (r : decomposed192) (h : 0 < val r) : r.sig.toNat ≠ 0 := by
  intro h0; unfold val at h; rw [h0] at h; simp at h

theorem ok_inj {α : Type} {a b : α} (h : (Except.ok a : Go.GoM α) = .ok b) : a = b := by
  cases h; rfl

/-- `mul`, relative form: the product truncated downward by at most relative `lam`; an un-normalised
result (`sig < 2^192/10`) is exact, keeps the flag and has the product of the significands. -/
theorem mul_rel (d o : decomposed192) (t : Int8)
    (hlo : -32768 ≤ d.exp.toInt + o.exp.toInt) (hhi : d.exp.toInt + o.exp.toInt + 58 ≤ 32767) :
    ∃ r t', decomposed192.mul d o t = .ok (r, t') ∧
      val d * val o * (1 - lam) ≤ val r ∧ val r ≤ val d * val o ∧ (t' = t ∨ t' = 1) ∧
      d.exp.toInt + o.exp.toInt ≤ r.exp.toInt ∧ r.exp.toInt ≤ d.exp.toInt + o.exp.toInt + 58 ∧
      (r.sig.toNat < 2 ^ 192 / 10 →
        val r = val d * val o ∧ t' = t ∧ r.sig.toNat = d.sig.toNat * o.sig.toNat) := by
  obtain ⟨r, t', hr, c1, c2, c3, c4, c5, c6, c7⟩ := mul_contract d o t hlo hhi
  obtain ⟨r2, t2, k, hr2, hk, s1, s2, s3, s4⟩ := mul_spec d o t
  rw [hr] at hr2
  have e := ok_inj hr2
  have er : r2 = r := (congrArg Prod.fst e).symm
  have et : t2 = t' := (congrArg Prod.snd e).symm
  subst er et
  have hshort : r2.sig.toNat < 2 ^ 192 / 10 → k = 0 := by
    intro h; rcases s4 with h0 | h0
    · exact h0
    · omega
  have hflag : t2 = t ∨ t2 = 1 := by
    rw [s3]; split
    · exact Or.inl rfl
    · exact Or.inr rfl
  refine ⟨r2, t2, hr, ?_, c1, hflag, c5, c6, ?_⟩
  · by_cases hn : 2 ^ 192 / 10 ≤ r2.sig.toNat
    · exact rel_of_norm r2 _ c1 c2 (le_trans (by unfold LIM; norm_num) hn)
    · have hk0 := hshort (by omega)
      subst hk0
      have hsig : r2.sig.toNat = d.sig.toNat * o.sig.toNat := by rw [s1]; simp
      have hexp : r2.exp.toInt = d.exp.toInt + o.exp.toInt := by
        have e0 : d.exp + o.exp + Int16.ofNat 0 = d.exp + o.exp := by simp
        rw [s2, e0, Int16.toInt_add_of] <;> omega
      have hv : val r2 = val d * val o := by
        rw [val_mul]; unfold val; rw [hsig, hexp]
      rw [hv]
      have : 0 ≤ val d * val o := mul_nonneg (val_nonneg d) (val_nonneg o)
      have := lam_pos
      nlinarith
  · intro hlt
    have hk0 := hshort hlt
    subst hk0
    have hsig : r2.sig.toNat = d.sig.toNat * o.sig.toNat := by rw [s1]; simp
    have hexp : r2.exp.toInt = d.exp.toInt + o.exp.toInt := by
      have e0 : d.exp + o.exp + Int16.ofNat 0 = d.exp + o.exp := by simp
      rw [s2, e0, Int16.toInt_add_of] <;> omega
    have hv : val r2 = val d * val o := by
      rw [val_mul]; unfold val; rw [hsig, hexp]
    exact ⟨hv, c3 hv, hsig⟩

theorem scaleLim_eq_LIM : scaleLim = LIM := rfl

/-- a value re-expressed at a lower exponent -/
theorem val_at (x : decomposed192) (m : Int) (h : m ≤ x.exp.toInt) :
    val x = ((x.sig.toNat * 10 ^ (x.exp.toInt - m).toNat : Nat) : ℚ) * (10 : ℚ) ^ m := by
  unfold val
  have : x.exp.toInt = ((x.exp.toInt - m).toNat : Int) + m := by
    rw [Int.toNat_of_nonneg (by omega)]; ring
  conv_lhs => rw [this, zpow_add₀ (by norm_num : (10 : ℚ) ≠ 0), zpow_natCast]
  push_cast; ring

/-- `add`, relative form: the sum truncated downward by at most relative `lam`; an un-normalised result
(`sig < LIM`) is exact, keeps the flag, and its significand dominates both operands'. -/
theorem add_rel (d o : decomposed192) (t : Int8)
    (hlo : -32767 ≤ d.exp.toInt - o.exp.toInt) (hhi : d.exp.toInt - o.exp.toInt ≤ 32767)
    (hd : d.exp.toInt < 32767) (ho : o.exp.toInt < 32767) :
    ∃ r t', decomposed192.add d o t = .ok (r, t') ∧
      (val d + val o) * (1 - lam) ≤ val r ∧ val r ≤ val d + val o ∧
      (t' = t ∨ t' = 1 ∨ t' = -1) ∧
      min d.exp.toInt o.exp.toInt ≤ r.exp.toInt ∧ r.exp.toInt ≤ max d.exp.toInt o.exp.toInt + 1 ∧
      (r.sig.toNat < LIM →
        val r = val d + val o ∧ t' = t ∧ d.sig.toNat ≤ r.sig.toNat ∧ o.sig.toNat ≤ r.sig.toNat) := by
  obtain ⟨r, t', hr, c1, c2, c3, c4, c5, c6, c7, c8⟩ := add_contract d o t hlo hhi hd ho
  have hexact : r.sig.toNat < LIM →
      val r = val d + val o ∧ d.sig.toNat ≤ r.sig.toNat ∧ o.sig.toNat ≤ r.sig.toNat := by
    intro hlt
    have hm : r.exp.toInt = min d.exp.toInt o.exp.toInt := by
      rcases c8 with h | h
      · exact h
      · rw [scaleLim_eq_LIM] at h; omega
    set m := min d.exp.toInt o.exp.toInt with hmdef
    have hd' := val_at d m (min_le_left _ _)
    have ho' := val_at o m (min_le_right _ _)
    have hu : (0 : ℚ) < (10 : ℚ) ^ m := zpow_pos (by norm_num) _
    have hrv : val r = (r.sig.toNat : ℚ) * (10 : ℚ) ^ m := by unfold val; rw [hm]
    have hul : ulp r = (10 : ℚ) ^ m := by unfold ulp; rw [hm]
    set Dn := d.sig.toNat * 10 ^ (d.exp.toInt - m).toNat with hDn
    set On := o.sig.toNat * 10 ^ (o.exp.toInt - m).toNat with hOn
    have hsum : val d + val o = ((Dn + On : Nat) : ℚ) * (10 : ℚ) ^ m := by
      rw [hd', ho']; push_cast; ring
    have heq : r.sig.toNat = Dn + On := by
      apply grid_exact _ _ _ hu
      · rw [← hrv, ← hsum]; exact c1
      · rw [← hrv, ← hsum, ← hul]; exact c2
    refine ⟨by rw [hrv, hsum, heq], ?_, ?_⟩
    · have : d.sig.toNat ≤ Dn := Nat.le_mul_of_pos_right _ (Nat.pow_pos (by norm_num))
      omega
    · have : o.sig.toNat ≤ On := Nat.le_mul_of_pos_right _ (Nat.pow_pos (by norm_num))
      omega
  have hflag : t' = t ∨ t' = 1 ∨ t' = -1 := by
    by_cases h : val r = val d + val o
    · exact Or.inl (c3 h)
    · exact Or.inr (c4 h)
  refine ⟨r, t', hr, ?_, c1, hflag, c6, c7, ?_⟩
  · by_cases hn : LIM ≤ r.sig.toNat
    · exact rel_of_norm r _ c1 c2 hn
    · obtain ⟨hv, -, -⟩ := hexact (by omega)
      rw [hv]
      have : 0 ≤ val d + val o := add_nonneg (val_nonneg d) (val_nonneg o)
      have := lam_pos
      nlinarith
  · intro hlt
    obtain ⟨hv, h1, h2⟩ := hexact hlt
    exact ⟨hv, c3 hv, h1, h2⟩

/-- relative size of the truncation of the divisor in `quo` -/
def eps : ℚ := 1 / 2 ^ 185

theorem eps_pos : 0 < eps := by unfold eps; positivity

/-- `quo`, relative form: within `[-lam, +eps]` relative of the true quotient (the divisor may lose its last
digits, which makes the quotient LARGER); an un-normalised quotient of an un-truncated divisor is exact
and keeps the flag. -/
theorem quo_rel (d o : decomposed192) (t : Int8) (hd : d.sig.toNat ≠ 0) (ho : o.sig.toNat ≠ 0)
    (hde : -16000 ≤ d.exp.toInt ∧ d.exp.toInt ≤ 16000)
    (hoe : -16000 ≤ o.exp.toInt ∧ o.exp.toInt ≤ 16000) :
    ∃ r t', decomposed192.quo d o t = .ok (r, t') ∧
      val d / val o * (1 - lam) ≤ val r ∧ val r ≤ val d / val o * (1 + eps) ∧
      (t' = t ∨ t' = 1) ∧ 1 ≤ r.sig.toNat ∧
      d.exp.toInt - o.exp.toInt - 118 ≤ r.exp.toInt ∧ r.exp.toInt ≤ d.exp.toInt - o.exp.toInt + 1 ∧
      (r.sig.toNat < LIM → o.sig.toNat < OLIM → val r = val d / val o ∧ t' = t) := by
  obtain ⟨r, t', o', hr, p0, p1, p2, p3, c1, c2, c3, c4, c5, c6, c7, c8⟩ :=
    quo_contract d o t hd ho hde hoe
  have hx := val_pos_of_sig o ho
  have hν := val_pos_of_sig d hd
  have hl := lam_pos
  have hflag : t' = t ∨ t' = 1 := by
    by_cases h : val r = val d / o' ∧ o' = val o
    · exact Or.inl (c3 h)
    · exact Or.inr (c4 h)
  -- ν/x ≤ ν/o' ≤ (ν/x)(1+eps)
  have hq1 : val d / val o ≤ val d / o' := div_le_div_of_nonneg_left hν.le p0 p1
  have hq2 : val d / o' ≤ val d / val o * (1 + eps) := by
    rw [div_le_iff₀ p0]
    have e : val d / val o * (1 + eps) * o' = val d * (o' * (1 + 1 / 2 ^ 185)) / val o := by
      unfold eps; ring
    rw [e, le_div_iff₀ hx]
    exact mul_le_mul_of_nonneg_left p2 hν.le
  refine ⟨r, t', hr, ?_, le_trans c1 hq2, hflag, c6, c7, c8, ?_⟩
  · rcases c5 with hex | hn
    · rw [hex]
      have : 0 ≤ val d / val o := div_nonneg hν.le hx.le
      nlinarith
    · have := rel_of_norm r _ c1 c2 hn
      have h2 : val d / val o * (1 - lam) ≤ val d / o' * (1 - lam) :=
        mul_le_mul_of_nonneg_right hq1 (by have := lam_le; linarith [show (1 : ℚ) / (6 * 10 ^ 56) ≤ 1 by norm_num])
      linarith
  · intro hlt holt
    have ho' := p3 holt
    have hex : val r = val d / o' := by
      rcases c5 with h | h
      · exact h
      · omega
    rw [ho'] at hex
    exact ⟨hex, c3 ⟨by rw [ho']; exact hex, ho'⟩⟩
end Root
