/-
  D128/Proofs/FloatSpec.lean — what the bit patterns `Go.F64` / `Go.F32` denote, and what
  `Go.roundDyadic` (the single rounding primitive of `D128/Go/Float.lean`) computes.
  Continued in `FloatSpecRound.lean` (bit-level decoding of F64/F32 and the conversions).

  Definitions (namespace `Go`)
  * `F64.mag x`, `F64.toRat x`, `F64.isFinite x`   : |x| = m·2^e for `(m, e) = x.dyadic`, signed value
  * `F32.dyadic x`, `F32.mag x`, `F32.toRat x`, `F32.isFinite x`, `F32.isZero x`
  * `BinFmt.decode f n`  : the magnitude encoded by the low `eb+mb` bits `n` of a finite pattern
  * `BinFmt.infBits f`   : the pattern of +∞ (`maxBiased · 2^mb`)
  * `BinFmt.IsFin f n`   : `n < infBits f`
  * (below the fixed block) `rneShift`, `rdQ`, `rdM`, `rdU` (normal form of `roundDyadic`: last-place
    exponent, integer significand, pattern for an unbounded exponent range), `BinFmt.emax`

  Theorems (general `f : BinFmt`; x := (m:ℚ)·2^e, r := roundDyadic f m e)
  Decoding
  * `BinFmt.decode_eq`          : uniform formula `(n − K·2^mb)·2^(K+qmin)`, `K = n/2^mb − 1`
  * `BinFmt.decode_grid`        : `decode (K·2^mb + M) = M·2^(K+qmin)` for `M ≤ 2^(mb+1)`, `K = 0 ∨ 2^mb ≤ M`
  * `BinFmt.decode_succ`        : consecutive patterns differ by one unit in the last place
  * `BinFmt.decode_strictMono`  : `StrictMono f.decode` (all patterns, a fortiori the finite ones)
  * `BinFmt.decode_zero`, `BinFmt.decode_nonneg`
  * `BinFmt.decode_infBits(')`  : `decode infBits = 2^(emax+1)`                      (1 ≤ eb)
  * `BinFmt.decode_maxFinite`   : `decode (infBits−1) = (2^(mb+1) − 1)·2^(emax−mb)`   (2 ≤ eb)
  * `BinFmt.decode_normal_form` : every pattern is `M·2^q`, `M < 2^(mb+1)`, `qmin ≤ q`,
                                  `2^mb ≤ M ∨ q = qmin`, and `q + mb ≤ emax` when finite
  Rounding primitive
  * `rneShift_spec`, `nearest_of_half` : the inexact branch is round-half-even of `m/2^s`
  * `rdM_spec`, `rd_t_bounds`, `rdM_bounds`, `roundDyadic_eq` : `r = min (rdU f m e) infBits` (1 ≤ eb)
  * `rdU_nearest`, `rdU_tie`, `rdU_unique`, `rdU_mono`, `BinFmt.nearestEven_mono`, `decode_rdU(_exact)`
  `roundDyadic`
  * `roundDyadic_le_infBits`    : range `r ≤ infBits`                               (1 ≤ eb)
  * `roundDyadic_zero`          : `roundDyadic f 0 e = 0`
  * `roundDyadic_eq_rdU`, `roundDyadic_eq_infBits_iff`
  * `roundDyadic_nearest`       : `r < infBits → ∀ n, |decode r − x| ≤ |decode n − x|`  (1 ≤ eb)
  * `roundDyadic_tie`           : … equality with `n ≠ r` forces `r % 2 = 0`       (1 ≤ eb, 1 ≤ mb)
  * `roundDyadic_exact`         : `n < infBits → decode n = x → r = n`               (1 ≤ eb)
  * `roundDyadic_exact_of_bits` : `m < 2^(mb+1)`, `qmin ≤ e`, `x < 2^(emax+1)` ⇒ `r` finite, `decode r = x`
  * `roundDyadic_mono`          : `x ≤ x' → r ≤ r'`                                 (1 ≤ eb, 1 ≤ mb)
  * `roundDyadic_faithful`      : finite `decode r` is the largest value ≤ x or the smallest ≥ x
  * `roundDyadic_eq_infBits_iff_ge` : `r = infBits ↔ (2^(mb+1) − 1/2)·2^(emax−mb) ≤ x` (2 ≤ eb, 1 ≤ mb)
  * `roundDyadic_lt_infBits_of_lt`  : `x < 2^emax → r < infBits`
  * `dyadic_lt_of_bits`, `two_zpow_pos`, `pat_split`, `abs_scale` : small helpers
-/
import D128.Go.Float
import Mathlib.Data.Rat.Floor
import Mathlib.Algebra.Order.Floor.Ring
import Mathlib.Tactic.Linarith
import Mathlib.Tactic.Positivity
import Mathlib.Tactic.FieldSimp
import Mathlib.Tactic.Ring
import Mathlib.Tactic.NormNum
import Mathlib.Order.Monotone.Basic
set_option autoImplicit false

namespace Go

/-! ## Definitions -/

/-- magnitude of a finite `float64`: `m · 2^e` with `(m, e) = x.dyadic` -/
def F64.mag (x : F64) : ℚ := (x.dyadic.1 : ℚ) * (2 : ℚ) ^ x.dyadic.2

/-- signed exact value of a finite `float64` (meaningless for NaN and ±Inf) -/
def F64.toRat (x : F64) : ℚ := if x.sign then -x.mag else x.mag

/-- neither NaN nor ±Inf -/
def F64.isFinite (x : F64) : Bool := x.expField != 0x7ff

/-- `(m, e)` with |x| = m · 2^e for finite x -/
def F32.dyadic (x : F32) : Nat × Int :=
  if x.expField == 0 then (x.mantField, -149) else (2 ^ 23 + x.mantField, (x.expField : Int) - 150)

def F32.mag (x : F32) : ℚ := (x.dyadic.1 : ℚ) * (2 : ℚ) ^ x.dyadic.2
def F32.toRat (x : F32) : ℚ := if x.sign then -x.mag else x.mag
def F32.isFinite (x : F32) : Bool := x.expField != 0xff
def F32.isZero (x : F32) : Bool := x.expField == 0 && x.mantField == 0

/-- the magnitude encoded by the exponent and mantissa fields `n` (sign bit removed) of a finite
    pattern of format `f` -/
def BinFmt.decode (f : BinFmt) (n : Nat) : ℚ :=
  if n / 2 ^ f.mb = 0 then ((n % 2 ^ f.mb : Nat) : ℚ) * (2 : ℚ) ^ f.qmin
  else ((2 ^ f.mb + n % 2 ^ f.mb : Nat) : ℚ) * (2 : ℚ) ^ (((n / 2 ^ f.mb : Nat) : Int) - 1 + f.qmin)

/-- exponent and mantissa fields of +∞ -/
def BinFmt.infBits (f : BinFmt) : Nat := f.maxBiased * 2 ^ f.mb

/-- the fields `n` belong to a finite number -/
def BinFmt.IsFin (f : BinFmt) (n : Nat) : Prop := n < f.infBits

/-! ## Decoding: uniform formula, grid form, strict monotonicity -/



theorem two_zpow_pos (k : ℤ) : (0:ℚ) < (2:ℚ) ^ k := zpow_pos (by norm_num) k

/-- splitting a pattern into binade index and full significand -/
theorem pat_split (P n : ℕ) (hP : 0 < P) :
    n = (n / P - 1) * P + (n - (n / P - 1) * P) ∧ n - (n / P - 1) * P < 2 * P ∧
      (n / P - 1 = 0 ∨ P ≤ n - (n / P - 1) * P) := by
  have hdm := Nat.div_add_mod n P
  have hml := Nat.mod_lt n hP
  by_cases h0 : n / P = 0
  · have hlt := (Nat.div_eq_zero_iff_lt hP).mp h0
    simp [h0]; omega
  · obtain ⟨K, hK⟩ : ∃ K, n / P = K + 1 := ⟨n / P - 1, by have := Nat.pos_of_ne_zero h0; omega⟩
    rw [hK] at hdm ⊢
    have : P * (K + 1) = K * P + P := by ring
    simp only [Nat.add_sub_cancel]
    omega

/-- uniform formula -/
theorem BinFmt.decode_eq (f : BinFmt) (n : ℕ) :
    f.decode n = ((n - (n / 2 ^ f.mb - 1) * 2 ^ f.mb : ℕ) : ℚ)
        * (2:ℚ) ^ (((n / 2 ^ f.mb - 1 : ℕ) : ℤ) + f.qmin) := by
  unfold BinFmt.decode
  have hp : 0 < 2 ^ f.mb := Nat.pos_of_ne_zero (by positivity)
  generalize 2 ^ f.mb = P at *
  have hdm := Nat.div_add_mod n P
  split
  · rename_i h
    rw [h]
    have : n % P = n := by rw [← hdm, h]; simp
    simp [this]
  · rename_i h
    obtain ⟨E, hE⟩ : ∃ E, n / P = E + 1 := ⟨n / P - 1, by have := Nat.pos_of_ne_zero h; omega⟩
    rw [hE]
    have : n - (E + 1 - 1) * P = P + n % P := by
      rw [hE] at hdm
      simp only [Nat.add_sub_cancel]
      have : P * (E + 1) = E * P + P := by ring
      omega
    rw [this]
    congr 2
    push_cast
    simp

theorem BinFmt.decode_grid (f : BinFmt) (K M : ℕ) (hM : M ≤ 2 ^ (f.mb + 1))
    (h : K = 0 ∨ 2 ^ f.mb ≤ M) :
    f.decode (K * 2 ^ f.mb + M) = (M : ℚ) * (2:ℚ) ^ ((K : ℤ) + f.qmin) := by
  have hp : 0 < 2 ^ f.mb := Nat.pos_of_ne_zero (by positivity)
  have h2 : 2 ^ (f.mb + 1) = 2 * 2 ^ f.mb := by ring
  rw [h2] at hM
  clear h2
  rw [BinFmt.decode_eq]
  generalize 2 ^ f.mb = P at *
  by_cases hlt : M < P
  · have hK : K = 0 := by omega
    subst hK
    have : (0 * P + M) / P = 0 := by
      simp [Nat.div_eq_of_lt hlt]
    rw [this]; simp
  · by_cases heq : M = 2 * P
    · have : (K * P + M) / P = K + 2 := by
        rw [heq]
        have : K * P + 2 * P = (K + 2) * P := by ring
        rw [this, Nat.mul_div_cancel _ hp]
      rw [this]
      have e0 : K + 2 - 1 = K + 1 := by omega
      have e1 : K * P + M - (K + 2 - 1) * P = P := by
        rw [heq, e0]
        have : (K + 1) * P = K * P + P := by ring
        omega
      rw [e1, heq, e0]
      have : (((K + 1 : ℕ) : ℤ)) + f.qmin = ((K : ℤ) + f.qmin) + 1 := by
        push_cast; ring
      rw [this, zpow_add_one₀ (by norm_num)]
      push_cast
      ring
    · have hlt2 : M < 2 * P := by omega
      have : (K * P + M) / P = K + 1 := by
        have : K * P + M = (M - P) + (K + 1) * P := by
          have : (K + 1) * P = K * P + P := by ring
          omega
        rw [this, Nat.add_mul_div_right _ _ hp, Nat.div_eq_of_lt (by omega)]
        simp
      rw [this]
      simp

theorem BinFmt.decode_succ (f : BinFmt) (n : ℕ) :
    f.decode (n + 1) = f.decode n + (2:ℚ) ^ (((n / 2 ^ f.mb - 1 : ℕ) : ℤ) + f.qmin) := by
  have hp : 0 < 2 ^ f.mb := Nat.pos_of_ne_zero (by positivity)
  have h2 : 2 ^ (f.mb + 1) = 2 * 2 ^ f.mb := by ring
  obtain ⟨hn, hMlt, hcond⟩ := pat_split (2 ^ f.mb) n hp
  have e1 := f.decode_grid _ _ (h2 ▸ hMlt.le) hcond
  have e2 := f.decode_grid (n / 2 ^ f.mb - 1) (n - (n / 2 ^ f.mb - 1) * 2 ^ f.mb + 1)
    (h2 ▸ hMlt) (by omega)
  rw [← hn] at e1
  rw [← Nat.add_assoc, ← hn] at e2
  rw [e1, e2]; push_cast; ring

theorem BinFmt.decode_strictMono (f : BinFmt) : StrictMono f.decode := by
  apply strictMono_nat_of_lt_succ
  intro n
  rw [f.decode_succ]
  have := two_zpow_pos (((n / 2 ^ f.mb - 1 : ℕ) : ℤ) + f.qmin)
  linarith



/-- nearest-even rounding of `m / 2^s` (the inexact branch of `roundDyadic`) -/
def rneShift (m s : ℕ) : ℕ :=
  if m % 2 ^ s > 2 ^ (s - 1) ∨ (m % 2 ^ s = 2 ^ (s - 1) ∧ m / 2 ^ s % 2 = 1) then m / 2 ^ s + 1
  else m / 2 ^ s

theorem rneShift_spec (m s : ℕ) (hs : 1 ≤ s) :
    |((rneShift m s : ℕ) : ℚ) - (m : ℚ) / (2:ℚ) ^ s| ≤ 1 / 2 ∧
    (|((rneShift m s : ℕ) : ℚ) - (m : ℚ) / (2:ℚ) ^ s| = 1 / 2 → rneShift m s % 2 = 0) := by
  obtain ⟨s', rfl⟩ : ∃ s', s = s' + 1 := ⟨s - 1, by omega⟩
  have hH : (0:ℚ) < (2:ℚ) ^ s' := by positivity
  have hdm := Nat.div_add_mod m (2 ^ (s' + 1))
  have hml := Nat.mod_lt m (show 0 < 2 ^ (s' + 1) by positivity)
  have h2 : 2 ^ (s' + 1) = 2 * 2 ^ s' := by ring
  unfold rneShift
  simp only [Nat.add_sub_cancel]
  rw [h2] at hdm hml ⊢
  generalize m / (2 * 2 ^ s') = lo at *
  generalize m % (2 * 2 ^ s') = rem at *
  have hmq : (m : ℚ) = 2 * 2 ^ s' * lo + rem := by
    rw [← hdm]; push_cast; ring
  have hpq : ((2:ℚ) ^ (s' + 1)) = 2 * 2 ^ s' := by ring
  have hremq : (rem : ℚ) < 2 * 2 ^ s' := by exact_mod_cast hml
  have hdiv : (m : ℚ) / (2:ℚ) ^ (s' + 1) = lo + rem / (2 * 2 ^ s') := by
    rw [hmq, hpq]; field_simp
  rw [hdiv]
  split
  · rename_i hc
    have hge : (2:ℚ) ^ s' ≤ rem := by
      rcases hc with h | h
      · exact_mod_cast h.le
      · exact_mod_cast h.1.ge
    have e : ((lo + 1 : ℕ) : ℚ) - (lo + rem / (2 * 2 ^ s')) = 1 - rem / (2 * 2 ^ s') := by
      push_cast; ring
    have hle : (rem : ℚ) / (2 * 2 ^ s') < 1 := by rw [div_lt_one (by positivity)]; exact hremq
    have hge' : 1 / 2 ≤ (rem : ℚ) / (2 * 2 ^ s') := by
      rw [le_div_iff₀ (by positivity)]; linarith
    rw [e, abs_of_pos (by linarith)]
    refine ⟨by linarith, fun heq => ?_⟩
    have : (rem : ℚ) / (2 * 2 ^ s') = 1 / 2 := by linarith
    rw [div_eq_iff (by positivity)] at this
    have hr : (rem : ℚ) = 2 ^ s' := by linarith
    have hr' : rem = 2 ^ s' := by exact_mod_cast hr
    rcases hc with h | h
    · omega
    · omega
  · rename_i hc
    have hc' : rem ≤ 2 ^ s' ∧ (rem = 2 ^ s' → lo % 2 = 0) := by
      constructor
      · by_contra h; exact hc (Or.inl (by omega))
      · intro h; by_contra h'; exact hc (Or.inr ⟨h, by omega⟩)
    have hle : (rem : ℚ) ≤ 2 ^ s' := by exact_mod_cast hc'.1
    have e : ((lo : ℕ) : ℚ) - (lo + rem / (2 * 2 ^ s')) = -(rem / (2 * 2 ^ s')) := by ring
    have hle' : (rem : ℚ) / (2 * 2 ^ s') ≤ 1 / 2 := by
      rw [div_le_iff₀ (by positivity)]; linarith
    have h0 : 0 ≤ (rem : ℚ) / (2 * 2 ^ s') := by positivity
    rw [e, abs_neg, abs_of_nonneg h0]
    refine ⟨hle', fun heq => ?_⟩
    rw [div_eq_iff (by positivity)] at heq
    have hr : (rem : ℚ) = 2 ^ s' := by linarith
    exact hc'.2 (by exact_mod_cast hr)

/-- an integer within 1/2 of `t` is a nearest integer -/
theorem nearest_of_half (R k : ℕ) (t : ℚ) (h : |(R : ℚ) - t| ≤ 1 / 2) :
    |(R : ℚ) - t| ≤ |(k : ℚ) - t| ∧ (k ≠ R → |(R : ℚ) - t| = |(k : ℚ) - t| → |(R : ℚ) - t| = 1 / 2) := by
  by_cases hk : k = R
  · subst hk; exact ⟨le_refl _, fun h => absurd rfl h⟩
  · have h1 : (1:ℚ) ≤ |(k : ℚ) - R| := by
      have : (1 : ℤ) ≤ |(k : ℤ) - R| := by
        have : (k : ℤ) - R ≠ 0 := by omega
        exact Int.one_le_abs this
      have := (Int.cast_le (R := ℚ)).mpr this
      simpa using this
    have h2 : |(k : ℚ) - R| ≤ |(k : ℚ) - t| + |(R : ℚ) - t| := by
      have := abs_sub_le (k : ℚ) t R
      rwa [abs_sub_comm t (R : ℚ)] at this
    refine ⟨by linarith, fun _ he => ?_⟩
    linarith

/-- exponent of the last place chosen by `roundDyadic` -/
def rdQ (f : BinFmt) (m : ℕ) (e : ℤ) : ℤ := max ((Nat.log2 m : ℤ) + e - f.mb) f.qmin

/-- the integer significand chosen by `roundDyadic` (before the carry is normalised) -/
def rdM (f : BinFmt) (m : ℕ) (e : ℤ) : ℕ :=
  if rdQ f m e ≤ e then m * 2 ^ (e - rdQ f m e).toNat else rneShift m (rdQ f m e - e).toNat

/-- `roundDyadic` for an unbounded exponent range -/
def rdU (f : BinFmt) (m : ℕ) (e : ℤ) : ℕ :=
  if m = 0 then 0 else (rdQ f m e - f.qmin).toNat * 2 ^ f.mb + rdM f m e

theorem rdQ_ge (f : BinFmt) (m : ℕ) (e : ℤ) : f.qmin ≤ rdQ f m e := le_max_right _ _

theorem rdM_spec (f : BinFmt) (m : ℕ) (e : ℤ) :
    |((rdM f m e : ℕ) : ℚ) - (m : ℚ) * (2:ℚ) ^ (e - rdQ f m e)| ≤ 1 / 2 ∧
    (|((rdM f m e : ℕ) : ℚ) - (m : ℚ) * (2:ℚ) ^ (e - rdQ f m e)| = 1 / 2 → rdM f m e % 2 = 0) := by
  unfold rdM
  split
  · rename_i h
    obtain ⟨k, hk⟩ : ∃ k : ℕ, e - rdQ f m e = k := ⟨(e - rdQ f m e).toNat, by omega⟩
    rw [hk]
    simp only [Int.toNat_natCast, zpow_natCast]
    push_cast
    simp
  · rename_i h
    obtain ⟨s, hs⟩ : ∃ s : ℕ, rdQ f m e - e = s := ⟨(rdQ f m e - e).toNat, by omega⟩
    have hs1 : 1 ≤ s := by omega
    have : e - rdQ f m e = -(s : ℤ) := by omega
    rw [hs, this, zpow_neg, zpow_natCast, ← div_eq_mul_inv]
    exact rneShift_spec m s hs1

theorem rd_t_bounds (f : BinFmt) (m : ℕ) (e : ℤ) (hm : m ≠ 0) :
    (m : ℚ) * (2:ℚ) ^ (e - rdQ f m e) < (2:ℚ) ^ (f.mb + 1) ∧
    (f.qmin < rdQ f m e → (2:ℚ) ^ f.mb ≤ (m : ℚ) * (2:ℚ) ^ (e - rdQ f m e)) := by
  have hlo : (2:ℚ) ^ (Nat.log2 m) ≤ m := by exact_mod_cast Nat.log2_self_le hm
  have hhi : (m : ℚ) < (2:ℚ) ^ (Nat.log2 m + 1) := by exact_mod_cast Nat.lt_log2_self
  have h2 : (0:ℚ) < 2 := by norm_num
  constructor
  · have hq : (Nat.log2 m : ℤ) + e - f.mb ≤ rdQ f m e := le_max_left _ _
    have hle : (2:ℚ) ^ (e - rdQ f m e) ≤ (2:ℚ) ^ ((f.mb : ℤ) - Nat.log2 m) :=
      zpow_le_zpow_right₀ (by norm_num) (by omega)
    calc (m : ℚ) * (2:ℚ) ^ (e - rdQ f m e)
        < (2:ℚ) ^ (Nat.log2 m + 1) * (2:ℚ) ^ (e - rdQ f m e) := by
          apply mul_lt_mul_of_pos_right hhi (zpow_pos (by norm_num) _)
      _ ≤ (2:ℚ) ^ (Nat.log2 m + 1) * (2:ℚ) ^ ((f.mb : ℤ) - Nat.log2 m) := by
          apply mul_le_mul_of_nonneg_left hle (by positivity)
      _ = (2:ℚ) ^ (f.mb + 1) := by
          rw [← zpow_natCast, ← zpow_natCast, ← zpow_add₀ (by norm_num)]
          congr 1; push_cast; ring
  · intro hq
    have hq' : rdQ f m e = (Nat.log2 m : ℤ) + e - f.mb := by
      unfold rdQ at hq ⊢; omega
    have : e - rdQ f m e = (f.mb : ℤ) - Nat.log2 m := by omega
    rw [this]
    calc (2:ℚ) ^ f.mb = (2:ℚ) ^ (Nat.log2 m) * (2:ℚ) ^ ((f.mb : ℤ) - Nat.log2 m) := by
          rw [← zpow_natCast, ← zpow_natCast, ← zpow_add₀ (by norm_num)]
          congr 1; ring
      _ ≤ (m : ℚ) * (2:ℚ) ^ ((f.mb : ℤ) - Nat.log2 m) := by
          apply mul_le_mul_of_nonneg_right hlo (zpow_pos (by norm_num) _).le

theorem rdM_bounds (f : BinFmt) (m : ℕ) (e : ℤ) (hm : m ≠ 0) :
    rdM f m e ≤ 2 ^ (f.mb + 1) ∧ (f.qmin < rdQ f m e → 2 ^ f.mb ≤ rdM f m e) := by
  obtain ⟨hhalf, -⟩ := rdM_spec f m e
  obtain ⟨hlt, hge⟩ := rd_t_bounds f m e hm
  constructor
  · by_contra hc
    have hc' : (2:ℚ) ^ (f.mb + 1) < (rdM f m e : ℚ) := by exact_mod_cast Nat.lt_of_not_le hc
    have := (nearest_of_half _ (2 ^ (f.mb + 1)) _ hhalf).1
    push_cast at this
    rw [abs_of_pos (by linarith), abs_of_pos (by linarith)] at this
    linarith
  · intro hq
    have hge := hge hq
    by_contra hc
    have hc' : (rdM f m e : ℚ) < (2:ℚ) ^ f.mb := by exact_mod_cast Nat.lt_of_not_le hc
    have := (nearest_of_half _ (2 ^ f.mb) _ hhalf).1
    push_cast at this
    rw [abs_of_neg (by linarith), abs_of_nonpos (by linarith)] at this
    linarith

theorem BinFmt.one_le_maxBiased (f : BinFmt) (heb : 1 ≤ f.eb) : 1 ≤ f.maxBiased := by
  unfold BinFmt.maxBiased
  have : 2 ^ 1 ≤ 2 ^ f.eb := Nat.pow_le_pow_right (by norm_num) heb
  omega

theorem roundDyadic_eq (f : BinFmt) (m : ℕ) (e : ℤ) (heb : 1 ≤ f.eb) :
    roundDyadic f m e = min (rdU f m e) f.infBits := by
  unfold roundDyadic rdU
  split
  · simp
  rename_i hm
  obtain ⟨hMle, hMge⟩ := rdM_bounds f m e hm
  have hqge := rdQ_ge f m e
  have hp : 0 < 2 ^ f.mb := Nat.pos_of_ne_zero (by positivity)
  have h2 : 2 ^ (f.mb + 1) = 2 * 2 ^ f.mb := by ring
  have hmb := f.one_le_maxBiased heb
  have hM0 : (if max ((Nat.log2 m : ℤ) + e - f.mb) f.qmin ≤ e then
      m * 2 ^ (e - max ((Nat.log2 m : ℤ) + e - f.mb) f.qmin).toNat
    else
      let s := (max ((Nat.log2 m : ℤ) + e - f.mb) f.qmin - e).toNat
      let lo := m / 2 ^ s
      let rem := m % 2 ^ s
      let half := 2 ^ (s - 1)
      if rem > half ∨ (rem = half ∧ lo % 2 = 1) then lo + 1 else lo) = rdM f m e := by
    unfold rdM rdQ rneShift; rfl
  simp only [hM0]
  have hq : max ((Nat.log2 m : ℤ) + e - f.mb) f.qmin = rdQ f m e := rfl
  simp only [hq]
  obtain ⟨K, hK⟩ : ∃ K : ℕ, rdQ f m e = f.qmin + K := ⟨(rdQ f m e - f.qmin).toNat, by omega⟩
  have hKn : (rdQ f m e - f.qmin).toNat = K := by omega
  rw [hKn]
  have hbias : ∀ j : ℤ, f.qmin + j + f.mb + f.bias = j + 1 := by
    intro j; unfold BinFmt.qmin; ring
  unfold BinFmt.infBits
  rw [h2] at hMle ⊢
  generalize rdM f m e = M at *
  generalize 2 ^ f.mb = P at *
  generalize f.maxBiased = B at *
  by_cases hcarry : M = 2 * P
  · simp only [hcarry, if_true]
    have : ¬ (P < P) := lt_irrefl _
    simp only [this, if_false]
    have hb : rdQ f m e + 1 + f.mb + f.bias = ((K + 2 : ℕ) : ℤ) := by
      rw [hK]; have := hbias (K + 1); push_cast; omega
    rw [hb]
    simp only [ge_iff_le, Nat.cast_le, Int.toNat_natCast, Nat.sub_self, Nat.add_zero]
    split
    · rename_i hB
      rw [Nat.min_eq_right]
      calc B * P ≤ (K + 2) * P := Nat.mul_le_mul_right _ hB
        _ = K * P + 2 * P := by ring
    · rename_i hB
      have : (K + 2) * P = K * P + 2 * P := by ring
      rw [Nat.min_eq_left]
      · omega
      · have : (K + 2 + 1) * P ≤ B * P := Nat.mul_le_mul_right _ (by omega)
        have : (K + 2 + 1) * P = K * P + 2 * P + P := by ring
        omega
  · simp only [hcarry, if_false]
    split
    · rename_i hlt
      have hK0 : K = 0 := by
        by_contra hK0
        have := hMge (by omega)
        omega
      subst hK0
      rw [Nat.min_eq_left]
      · simp
      · have : 1 * P ≤ B * P := Nat.mul_le_mul_right _ hmb
        omega
    · rename_i hge
      have hb : rdQ f m e + f.mb + f.bias = ((K + 1 : ℕ) : ℤ) := by
        rw [hK]; have := hbias K; push_cast; omega
      rw [hb]
      simp only [ge_iff_le, Nat.cast_le, Int.toNat_natCast]
      have e1 : (K + 1) * P = K * P + P := by ring
      split
      · rename_i hB
        rw [Nat.min_eq_right]
        have : B * P ≤ (K + 1) * P := Nat.mul_le_mul_right _ hB
        omega
      · rename_i hB
        rw [Nat.min_eq_left]
        · omega
        · have : (K + 1 + 1) * P ≤ B * P := Nat.mul_le_mul_right _ (by omega)
          have : (K + 1 + 1) * P = K * P + P + P := by ring
          omega



/-! ## Nearest / ties-to-even for the unbounded-exponent rounding `rdU` -/


theorem abs_scale (a b c : ℚ) (hc : 0 < c) : |a * c - b * c| = |a - b| * c := by
  rw [← sub_mul, abs_mul, abs_of_pos hc]

theorem rdU_zero (f : BinFmt) (e : ℤ) : rdU f 0 e = 0 := by simp [rdU]

theorem BinFmt.decode_zero (f : BinFmt) : f.decode 0 = 0 := by
  simp [BinFmt.decode]

/-- the value `x = m·2^e` on the scale of the last place: `x = t·2^q` -/
theorem rd_x_eq (f : BinFmt) (m : ℕ) (e : ℤ) :
    (m : ℚ) * (2:ℚ) ^ e = ((m : ℚ) * (2:ℚ) ^ (e - rdQ f m e)) * (2:ℚ) ^ (rdQ f m e) := by
  rw [mul_assoc, ← zpow_add₀ (by norm_num)]; congr 2; ring

/-- comparison of the result with any pattern on the grid of the last place -/
theorem rdU_grid (f : BinFmt) (m : ℕ) (e : ℤ) (hm : m ≠ 0) (M' : ℕ)
    (hM' : M' ≤ 2 ^ (f.mb + 1)) (hc : (rdQ f m e - f.qmin).toNat = 0 ∨ 2 ^ f.mb ≤ M') :
    let n := (rdQ f m e - f.qmin).toNat * 2 ^ f.mb + M'
    let x := (m : ℚ) * (2:ℚ) ^ e
    |f.decode (rdU f m e) - x| ≤ |f.decode n - x| ∧
    (n ≠ rdU f m e → |f.decode (rdU f m e) - x| = |f.decode n - x| → rdM f m e % 2 = 0) := by
  intro n x
  obtain ⟨hMle, hMge⟩ := rdM_bounds f m e hm
  obtain ⟨hhalf, heven⟩ := rdM_spec f m e
  have hqge := rdQ_ge f m e
  have hqK : ((rdQ f m e - f.qmin).toNat : ℤ) + f.qmin = rdQ f m e := by omega
  have hcM : (rdQ f m e - f.qmin).toNat = 0 ∨ 2 ^ f.mb ≤ rdM f m e := by
    by_cases h : (rdQ f m e - f.qmin).toNat = 0
    · exact Or.inl h
    · exact Or.inr (hMge (by omega))
  have e1 : f.decode (rdU f m e) = (rdM f m e : ℚ) * (2:ℚ) ^ (rdQ f m e) := by
    rw [rdU, if_neg hm, f.decode_grid _ _ hMle hcM, hqK]
  have e2 : f.decode n = (M' : ℚ) * (2:ℚ) ^ (rdQ f m e) := by
    rw [f.decode_grid _ _ hM' hc, hqK]
  have hx : x = ((m : ℚ) * (2:ℚ) ^ (e - rdQ f m e)) * (2:ℚ) ^ (rdQ f m e) := rd_x_eq f m e
  have hpos := two_zpow_pos (rdQ f m e)
  rw [e1, e2, hx, abs_scale _ _ _ hpos, abs_scale _ _ _ hpos]
  obtain ⟨hn1, hn2⟩ := nearest_of_half (rdM f m e) M' _ hhalf
  refine ⟨mul_le_mul_of_nonneg_right hn1 hpos.le, fun hne heq => ?_⟩
  have heq' := mul_right_cancel₀ hpos.ne' heq
  apply heven
  apply hn2 _ heq'
  intro h
  apply hne
  simp only [n, rdU, if_neg hm, h]

/-- **Nearest** (unbounded exponent range): the pattern computed by `rdU` decodes to a value at
    least as close to `m·2^e` as any other pattern. -/
theorem rdU_nearest_aux (f : BinFmt) (m : ℕ) (e : ℤ) (hm : m ≠ 0) (n : ℕ) :
    let x := (m : ℚ) * (2:ℚ) ^ e
    |f.decode (rdU f m e) - x| ≤ |f.decode n - x| ∧
    (n ≠ rdU f m e → |f.decode (rdU f m e) - x| = |f.decode n - x| → rdM f m e % 2 = 0) := by
  intro x
  have hp : 0 < 2 ^ f.mb := Nat.pos_of_ne_zero (by positivity)
  have h2 : 2 ^ (f.mb + 1) = 2 * 2 ^ f.mb := by ring
  have hqge := rdQ_ge f m e
  have hqK : ((rdQ f m e - f.qmin).toNat : ℤ) + f.qmin = rdQ f m e := by omega
  obtain ⟨htlt, htge⟩ := rd_t_bounds f m e hm
  have hx : x = ((m : ℚ) * (2:ℚ) ^ (e - rdQ f m e)) * (2:ℚ) ^ (rdQ f m e) := rd_x_eq f m e
  have hpos := two_zpow_pos (rdQ f m e)
  set K := (rdQ f m e - f.qmin).toNat with hK
  by_cases hlow : n < K * 2 ^ f.mb + (if K = 0 then 0 else 2 ^ f.mb)
  · -- below the grid
    have hK0 : K ≠ 0 := by
      intro h; simp [h] at hlow
    rw [if_neg hK0] at hlow
    obtain ⟨g1, -⟩ := rdU_grid f m e hm (2 ^ f.mb) (by omega) (Or.inr le_rfl)
    have hmono := f.decode_strictMono hlow
    have eG : f.decode (K * 2 ^ f.mb + 2 ^ f.mb) = ((2 ^ f.mb : ℕ) : ℚ) * (2:ℚ) ^ (rdQ f m e) := by
      rw [f.decode_grid _ _ (by omega) (Or.inr le_rfl), hqK]
    have hGx : f.decode (K * 2 ^ f.mb + 2 ^ f.mb) ≤ x := by
      rw [eG, hx]; push_cast
      exact mul_le_mul_of_nonneg_right (htge (by omega)) hpos.le
    have hlt : |f.decode (K * 2 ^ f.mb + 2 ^ f.mb) - x| < |f.decode n - x| := by
      rw [abs_of_nonpos (by linarith), abs_of_neg (by linarith)]; linarith
    have g1' : |f.decode (rdU f m e) - x| ≤ |f.decode (K * 2 ^ f.mb + 2 ^ f.mb) - x| := g1
    exact ⟨by linarith, fun _ h => absurd h (by linarith)⟩
  · by_cases hhigh : K * 2 ^ f.mb + 2 ^ (f.mb + 1) < n
    · obtain ⟨g1, -⟩ := rdU_grid f m e hm (2 ^ (f.mb + 1)) le_rfl (Or.inr (by omega))
      have hmono := f.decode_strictMono hhigh
      have eG : f.decode (K * 2 ^ f.mb + 2 ^ (f.mb + 1))
          = ((2 ^ (f.mb + 1) : ℕ) : ℚ) * (2:ℚ) ^ (rdQ f m e) := by
        rw [f.decode_grid _ _ le_rfl (Or.inr (by omega)), hqK]
      have hGx : x < f.decode (K * 2 ^ f.mb + 2 ^ (f.mb + 1)) := by
        rw [eG, hx]; push_cast
        exact mul_lt_mul_of_pos_right htlt hpos
      have hlt : |f.decode (K * 2 ^ f.mb + 2 ^ (f.mb + 1)) - x| < |f.decode n - x| := by
        rw [abs_of_pos (by linarith), abs_of_pos (by linarith)]; linarith
      have g1' : |f.decode (rdU f m e) - x| ≤ |f.decode (K * 2 ^ f.mb + 2 ^ (f.mb + 1)) - x| := g1
      exact ⟨by linarith, fun _ h => absurd h (by linarith)⟩
    · -- on the grid
      have hKn : K * 2 ^ f.mb ≤ n := by
        split at hlow <;> omega
      obtain ⟨M', hM'⟩ : ∃ M', n = K * 2 ^ f.mb + M' := ⟨n - K * 2 ^ f.mb, by omega⟩
      have := rdU_grid f m e hm M' (by omega) (by
        by_cases h : K = 0
        · exact Or.inl h
        · right; rw [if_neg h] at hlow; omega)
      rw [hM']
      exact this


theorem BinFmt.decode_nonneg (f : BinFmt) (n : ℕ) : 0 ≤ f.decode n := by
  rw [← f.decode_zero]; exact f.decode_strictMono.monotone (Nat.zero_le n)

theorem rdU_nearest (f : BinFmt) (m : ℕ) (e : ℤ) (n : ℕ) :
    |f.decode (rdU f m e) - (m : ℚ) * (2:ℚ) ^ e| ≤ |f.decode n - (m : ℚ) * (2:ℚ) ^ e| := by
  by_cases hm : m = 0
  · subst hm; simp [rdU_zero, f.decode_zero]
  · exact (rdU_nearest_aux f m e hm n).1

theorem rdU_tie (f : BinFmt) (m : ℕ) (e : ℤ) (n : ℕ) (hmb : 1 ≤ f.mb) (hne : n ≠ rdU f m e)
    (h : |f.decode (rdU f m e) - (m : ℚ) * (2:ℚ) ^ e| = |f.decode n - (m : ℚ) * (2:ℚ) ^ e|) :
    rdU f m e % 2 = 0 := by
  by_cases hm : m = 0
  · subst hm; simp [rdU_zero]
  · have := (rdU_nearest_aux f m e hm n).2 hne h
    rw [rdU, if_neg hm]
    obtain ⟨k, hk⟩ : ∃ k, f.mb = k + 1 := ⟨f.mb - 1, by omega⟩
    rw [hk, pow_succ, ← Nat.mul_assoc]
    omega

/-- Round-to-nearest-even is monotone: if `b` is a nearest-even pattern for `x`, `a` one for `x'`
    and `x ≤ x'`, then `b ≤ a`. -/
theorem BinFmt.nearestEven_mono (f : BinFmt) (x x' : ℚ) (a b : ℕ) (hxx : x ≤ x')
    (hb : ∀ n, |f.decode b - x| ≤ |f.decode n - x|)
    (hbt : ∀ n, n ≠ b → |f.decode b - x| = |f.decode n - x| → b % 2 = 0)
    (ha : ∀ n, |f.decode a - x'| ≤ |f.decode n - x'|)
    (hat : ∀ n, n ≠ a → |f.decode a - x'| = |f.decode n - x'| → a % 2 = 0) : b ≤ a := by
  by_contra hlt
  have hlt : a < b := Nat.lt_of_not_le hlt
  have hd := f.decode_strictMono hlt
  have h1 : (f.decode a + f.decode b) / 2 ≤ x := by
    by_contra h
    have h : x < (f.decode a + f.decode b) / 2 := lt_of_not_ge h
    have := hb a
    rw [abs_of_pos (show 0 < f.decode b - x by linarith)] at this
    have : |f.decode a - x| < f.decode b - x := abs_lt.mpr ⟨by linarith, by linarith⟩
    linarith
  have h2 : x' ≤ (f.decode a + f.decode b) / 2 := by
    by_contra h
    have h : (f.decode a + f.decode b) / 2 < x' := lt_of_not_ge h
    have := ha b
    rw [abs_of_neg (show f.decode a - x' < 0 by linarith)] at this
    have : |f.decode b - x'| < -(f.decode a - x') := abs_lt.mpr ⟨by linarith, by linarith⟩
    linarith
  have hx : x = (f.decode a + f.decode b) / 2 := le_antisymm (by linarith) h1
  have hx' : x' = (f.decode a + f.decode b) / 2 := le_antisymm h2 (by linarith)
  have e1 : |f.decode b - x| = (f.decode b - f.decode a) / 2 := by
    rw [abs_of_pos (by linarith)]; linarith
  have e2 : |f.decode a - x| = (f.decode b - f.decode a) / 2 := by
    rw [abs_of_neg (by linarith)]; linarith
  have hbe := hbt a (by omega) (by rw [e1, e2])
  have hae := hat b (by omega) (by rw [hx', ← hx, e1, e2])
  have hlt2 : a + 1 < b := by omega
  have hd1 := f.decode_strictMono (Nat.lt_succ_self a)
  have hd2 := f.decode_strictMono hlt2
  have := hb (a + 1)
  rw [e1] at this
  have : |f.decode (a + 1) - x| < (f.decode b - f.decode a) / 2 :=
    abs_lt.mpr ⟨by linarith, by linarith⟩
  linarith

/-- a pattern that is nearest, and even on ties, is the one computed by `rdU` -/
theorem rdU_unique (f : BinFmt) (m : ℕ) (e : ℤ) (hmb : 1 ≤ f.mb) (r : ℕ)
    (hn : ∀ n, |f.decode r - (m : ℚ) * (2:ℚ) ^ e| ≤ |f.decode n - (m : ℚ) * (2:ℚ) ^ e|)
    (ht : ∀ n, n ≠ r → |f.decode r - (m : ℚ) * (2:ℚ) ^ e| = |f.decode n - (m : ℚ) * (2:ℚ) ^ e| →
      r % 2 = 0) : r = rdU f m e :=
  le_antisymm
    (f.nearestEven_mono _ _ _ _ le_rfl hn ht (rdU_nearest f m e)
      (fun n h1 h2 => rdU_tie f m e n hmb h1 h2))
    (f.nearestEven_mono _ _ _ _ le_rfl (rdU_nearest f m e)
      (fun n h1 h2 => rdU_tie f m e n hmb h1 h2) hn ht)

theorem rdU_mono (f : BinFmt) (hmb : 1 ≤ f.mb) (m m' : ℕ) (e e' : ℤ)
    (h : (m : ℚ) * (2:ℚ) ^ e ≤ (m' : ℚ) * (2:ℚ) ^ e') : rdU f m e ≤ rdU f m' e' :=
  f.nearestEven_mono _ _ _ _ h (rdU_nearest f m e) (fun n h1 h2 => rdU_tie f m e n hmb h1 h2)
    (rdU_nearest f m' e') (fun n h1 h2 => rdU_tie f m' e' n hmb h1 h2)

/-! ## `roundDyadic` -/

theorem roundDyadic_le_infBits (f : BinFmt) (heb : 1 ≤ f.eb) (m : ℕ) (e : ℤ) :
    roundDyadic f m e ≤ f.infBits := by
  rw [roundDyadic_eq f m e heb]; exact Nat.min_le_right _ _

theorem roundDyadic_zero (f : BinFmt) (e : ℤ) : roundDyadic f 0 e = 0 := by
  simp [roundDyadic]

theorem roundDyadic_eq_rdU (f : BinFmt) (heb : 1 ≤ f.eb) (m : ℕ) (e : ℤ)
    (h : roundDyadic f m e < f.infBits) : roundDyadic f m e = rdU f m e := by
  rw [roundDyadic_eq f m e heb] at h ⊢
  omega

theorem roundDyadic_eq_infBits_iff (f : BinFmt) (heb : 1 ≤ f.eb) (m : ℕ) (e : ℤ) :
    roundDyadic f m e = f.infBits ↔ f.infBits ≤ rdU f m e := by
  rw [roundDyadic_eq f m e heb]; omega

/-- **Nearest.** A finite result is at least as close to `m·2^e` as any other pattern (even
    patterns beyond the exponent range of the format, a fortiori all finite ones). -/
theorem roundDyadic_nearest (f : BinFmt) (heb : 1 ≤ f.eb) (m : ℕ) (e : ℤ)
    (h : roundDyadic f m e < f.infBits) (n : ℕ) :
    |f.decode (roundDyadic f m e) - (m : ℚ) * (2:ℚ) ^ e| ≤ |f.decode n - (m : ℚ) * (2:ℚ) ^ e| := by
  rw [roundDyadic_eq_rdU f heb m e h]; exact rdU_nearest f m e n

/-- **Ties to even.** -/
theorem roundDyadic_tie (f : BinFmt) (heb : 1 ≤ f.eb) (hmb : 1 ≤ f.mb) (m : ℕ) (e : ℤ)
    (h : roundDyadic f m e < f.infBits) (n : ℕ) (hne : n ≠ roundDyadic f m e)
    (heq : |f.decode (roundDyadic f m e) - (m : ℚ) * (2:ℚ) ^ e|
      = |f.decode n - (m : ℚ) * (2:ℚ) ^ e|) :
    roundDyadic f m e % 2 = 0 := by
  rw [roundDyadic_eq_rdU f heb m e h] at hne heq ⊢; exact rdU_tie f m e n hmb hne heq

/-- **Exactness.** A representable value is returned unchanged. -/
theorem roundDyadic_exact (f : BinFmt) (heb : 1 ≤ f.eb) (m : ℕ) (e : ℤ) (n : ℕ)
    (hn : n < f.infBits) (hx : f.decode n = (m : ℚ) * (2:ℚ) ^ e) : roundDyadic f m e = n := by
  have h := rdU_nearest f m e n
  rw [hx, sub_self, abs_zero] at h
  have h0 : f.decode (rdU f m e) = f.decode n := by
    rw [hx]; exact sub_eq_zero.mp (abs_nonpos_iff.mp h)
  have := f.decode_strictMono.injective h0
  rw [roundDyadic_eq f m e heb, this]; omega

/-- **Monotone.** -/
theorem roundDyadic_mono (f : BinFmt) (heb : 1 ≤ f.eb) (hmb : 1 ≤ f.mb) (m m' : ℕ) (e e' : ℤ)
    (h : (m : ℚ) * (2:ℚ) ^ e ≤ (m' : ℚ) * (2:ℚ) ^ e') :
    roundDyadic f m e ≤ roundDyadic f m' e' := by
  rw [roundDyadic_eq f m e heb, roundDyadic_eq f m' e' heb]
  have := rdU_mono f hmb m m' e e' h
  omega

/-- **Faithful.** A finite result decodes to the largest representable value `≤ x` or to the
    smallest one `≥ x`. -/
theorem roundDyadic_faithful (f : BinFmt) (heb : 1 ≤ f.eb) (m : ℕ) (e : ℤ)
    (h : roundDyadic f m e < f.infBits) :
    (f.decode (roundDyadic f m e) ≤ (m : ℚ) * (2:ℚ) ^ e ∧
      ∀ n, f.decode n ≤ (m : ℚ) * (2:ℚ) ^ e → f.decode n ≤ f.decode (roundDyadic f m e)) ∨
    ((m : ℚ) * (2:ℚ) ^ e ≤ f.decode (roundDyadic f m e) ∧
      ∀ n, (m : ℚ) * (2:ℚ) ^ e ≤ f.decode n → f.decode (roundDyadic f m e) ≤ f.decode n) := by
  rcases le_total (f.decode (roundDyadic f m e)) ((m : ℚ) * (2:ℚ) ^ e) with hle | hle
  · refine Or.inl ⟨hle, fun n hn => ?_⟩
    have := roundDyadic_nearest f heb m e h n
    rw [abs_of_nonpos (by linarith), abs_of_nonpos (by linarith)] at this
    linarith
  · refine Or.inr ⟨hle, fun n hn => ?_⟩
    have := roundDyadic_nearest f heb m e h n
    rw [abs_of_nonneg (by linarith), abs_of_nonneg (by linarith)] at this
    linarith


/-! ## Representable dyadics, largest finite value, overflow threshold, normal form -/


/-- largest unbiased exponent of a finite number -/
def BinFmt.emax (f : BinFmt) : ℤ := (f.maxBiased : ℤ) - 1 - f.bias

theorem BinFmt.decode_infBits (f : BinFmt) (heb : 1 ≤ f.eb) :
    f.decode f.infBits = (2:ℚ) ^ (f.emax + 1) := by
  have hmb := f.one_le_maxBiased heb
  obtain ⟨B, hB⟩ : ∃ B, f.maxBiased = B + 1 := ⟨f.maxBiased - 1, by omega⟩
  have : f.infBits = B * 2 ^ f.mb + 2 ^ f.mb := by rw [BinFmt.infBits, hB]; ring
  rw [this, f.decode_grid B (2 ^ f.mb) (Nat.pow_le_pow_right (by norm_num) (by omega))
    (Or.inr le_rfl)]
  push_cast
  rw [← zpow_natCast, ← zpow_add₀ (by norm_num)]
  congr 1
  rw [BinFmt.emax, hB, BinFmt.qmin]; push_cast; ring

/-- the value of the pattern computed by `rdU` -/
theorem decode_rdU (f : BinFmt) (m : ℕ) (e : ℤ) (hm : m ≠ 0) :
    f.decode (rdU f m e) = (rdM f m e : ℚ) * (2:ℚ) ^ (rdQ f m e) := by
  obtain ⟨hMle, hMge⟩ := rdM_bounds f m e hm
  have hqge := rdQ_ge f m e
  have hqK : ((rdQ f m e - f.qmin).toNat : ℤ) + f.qmin = rdQ f m e := by omega
  have hcM : (rdQ f m e - f.qmin).toNat = 0 ∨ 2 ^ f.mb ≤ rdM f m e := by
    by_cases h : (rdQ f m e - f.qmin).toNat = 0
    · exact Or.inl h
    · exact Or.inr (hMge (by omega))
  rw [rdU, if_neg hm, f.decode_grid _ _ hMle hcM, hqK]

/-- if the last place chosen is not above `e`, nothing is rounded away -/
theorem decode_rdU_exact (f : BinFmt) (m : ℕ) (e : ℤ) (hm : m ≠ 0) (hq : rdQ f m e ≤ e) :
    f.decode (rdU f m e) = (m : ℚ) * (2:ℚ) ^ e := by
  rw [decode_rdU f m e hm, rdM, if_pos hq]
  obtain ⟨k, hk⟩ : ∃ k : ℕ, e - rdQ f m e = k := ⟨(e - rdQ f m e).toNat, by omega⟩
  rw [hk, Int.toNat_natCast]
  push_cast
  rw [mul_assoc, ← zpow_natCast, ← zpow_add₀ (by norm_num)]
  congr 2; omega

/-- **Exactness, constructive form.** A dyadic `m·2^e` with `m < 2^(mb+1)` (at most `mb+1`
    significant bits), `qmin ≤ e` and below `2^(emax+1)` is returned unchanged: the result is a
    finite pattern that decodes to `m·2^e`. -/
theorem roundDyadic_exact_of_bits (f : BinFmt) (heb : 1 ≤ f.eb) (m : ℕ) (e : ℤ)
    (hbits : m < 2 ^ (f.mb + 1)) (he : f.qmin ≤ e)
    (hx : (m : ℚ) * (2:ℚ) ^ e < (2:ℚ) ^ (f.emax + 1)) :
    roundDyadic f m e < f.infBits ∧ f.decode (roundDyadic f m e) = (m : ℚ) * (2:ℚ) ^ e := by
  by_cases hm : m = 0
  · subst hm
    have := f.one_le_maxBiased heb
    have hp : 0 < 2 ^ f.mb := Nat.pos_of_ne_zero (by positivity)
    rw [roundDyadic_zero, f.decode_zero]
    exact ⟨Nat.mul_pos (by omega) hp, by simp⟩
  have hL : Nat.log2 m < f.mb + 1 := (Nat.log2_lt hm).mpr hbits
  have hq : rdQ f m e ≤ e := by unfold rdQ; omega
  have hd := decode_rdU_exact f m e hm hq
  have hlt : rdU f m e < f.infBits := by
    apply f.decode_strictMono.lt_iff_lt.mp
    rw [hd, f.decode_infBits heb]; exact hx
  have : roundDyadic f m e = rdU f m e := by rw [roundDyadic_eq f m e heb]; omega
  rw [this]; exact ⟨hlt, hd⟩

/-- bound in the form convenient for concrete formats -/
theorem dyadic_lt_of_bits (m j : ℕ) (e k : ℤ) (hm : m < 2 ^ j) (hk : (j : ℤ) + e ≤ k) :
    (m : ℚ) * (2:ℚ) ^ e < (2:ℚ) ^ k := by
  have h1 : (m : ℚ) < (2:ℚ) ^ j := by exact_mod_cast hm
  calc (m : ℚ) * (2:ℚ) ^ e < (2:ℚ) ^ j * (2:ℚ) ^ e := mul_lt_mul_of_pos_right h1 (two_zpow_pos e)
    _ = (2:ℚ) ^ ((j : ℤ) + e) := by rw [← zpow_natCast, ← zpow_add₀ (by norm_num)]
    _ ≤ (2:ℚ) ^ k := zpow_le_zpow_right₀ (by norm_num) hk



theorem BinFmt.three_le_maxBiased (f : BinFmt) (heb : 2 ≤ f.eb) : 3 ≤ f.maxBiased := by
  unfold BinFmt.maxBiased
  have : 2 ^ 2 ≤ 2 ^ f.eb := Nat.pow_le_pow_right (by norm_num) heb
  omega

/-- the largest finite value: `(2^(mb+1) − 1)·2^(emax − mb)` -/
theorem BinFmt.decode_maxFinite (f : BinFmt) (heb : 2 ≤ f.eb) :
    f.decode (f.infBits - 1) = ((2:ℚ) ^ (f.mb + 1) - 1) * (2:ℚ) ^ (f.emax - f.mb) := by
  have hmb := f.three_le_maxBiased heb
  have hp : 1 ≤ 2 ^ f.mb := Nat.one_le_two_pow
  have h2 : 2 ^ (f.mb + 1) = 2 * 2 ^ f.mb := by ring
  obtain ⟨B, hB⟩ : ∃ B, f.maxBiased = B + 2 := ⟨f.maxBiased - 2, by omega⟩
  have : f.infBits - 1 = B * 2 ^ f.mb + (2 ^ (f.mb + 1) - 1) := by
    rw [BinFmt.infBits, hB, h2]
    have : (B + 2) * 2 ^ f.mb = B * 2 ^ f.mb + 2 * 2 ^ f.mb := by ring
    omega
  rw [this, f.decode_grid B _ (by omega) (Or.inr (by omega))]
  rw [Nat.cast_sub (by omega)]
  push_cast
  congr 2
  rw [BinFmt.emax, hB, BinFmt.qmin]; push_cast; ring

/-- `decode infBits` in the scale of the largest finite binade -/
theorem BinFmt.decode_infBits' (f : BinFmt) (heb : 1 ≤ f.eb) :
    f.decode f.infBits = (2:ℚ) ^ (f.mb + 1) * (2:ℚ) ^ (f.emax - f.mb) := by
  rw [f.decode_infBits heb, ← zpow_natCast, ← zpow_add₀ (by norm_num)]
  congr 1; push_cast; ring

/-- **Overflow threshold.** The result is the pattern of +∞ exactly from the midpoint between the
    largest finite number and `2^(emax+1)` on. -/
theorem roundDyadic_eq_infBits_iff_ge (f : BinFmt) (heb : 2 ≤ f.eb) (hmb : 1 ≤ f.mb) (m : ℕ) (e : ℤ) :
    roundDyadic f m e = f.infBits ↔
      ((2:ℚ) ^ (f.mb + 1) - 1 / 2) * (2:ℚ) ^ (f.emax - f.mb) ≤ (m : ℚ) * (2:ℚ) ^ e := by
  have heb1 : 1 ≤ f.eb := by omega
  rw [roundDyadic_eq_infBits_iff f heb1]
  have hB := f.three_le_maxBiased heb
  have hp : 1 ≤ 2 ^ f.mb := Nat.one_le_two_pow
  have hinf_pos : 1 ≤ f.infBits := by
    rw [BinFmt.infBits]; exact Nat.mul_pos (by omega) (by omega)
  have dI := f.decode_infBits' heb1
  have dM := f.decode_maxFinite heb
  have hu := two_zpow_pos (f.emax - f.mb)
  set u := (2:ℚ) ^ (f.emax - f.mb) with hu_def
  set x := (m : ℚ) * (2:ℚ) ^ e with hx
  set T := (2:ℚ) ^ (f.mb + 1) with hT
  have hthr : (T - 1 / 2) * u = (f.decode (f.infBits - 1) + f.decode f.infBits) / 2 := by
    rw [dI, dM]; ring
  have hlt : f.decode (f.infBits - 1) < f.decode f.infBits :=
    f.decode_strictMono (by omega)
  rw [hthr]
  constructor
  · intro hge
    by_contra hc
    have hc : x < (f.decode (f.infBits - 1) + f.decode f.infBits) / 2 := lt_of_not_ge hc
    have hmono : f.decode f.infBits ≤ f.decode (rdU f m e) := f.decode_strictMono.monotone hge
    have hn := rdU_nearest f m e (f.infBits - 1)
    rw [abs_of_pos (by linarith)] at hn
    have : |f.decode (f.infBits - 1) - x| < f.decode (rdU f m e) - x :=
      abs_lt.mpr ⟨by linarith, by linarith⟩
    linarith
  · intro hge
    by_contra hc
    have hc : rdU f m e ≤ f.infBits - 1 := by omega
    have hmono : f.decode (rdU f m e) ≤ f.decode (f.infBits - 1) := f.decode_strictMono.monotone hc
    have hn := rdU_nearest f m e f.infBits
    rw [abs_of_neg (by linarith)] at hn
    have hxlt : x < f.decode f.infBits := by
      by_contra h
      have h : f.decode f.infBits ≤ x := le_of_not_gt h
      rw [abs_of_nonpos (by linarith)] at hn
      linarith
    rw [abs_of_pos (by linarith)] at hn
    -- so x is exactly the midpoint and the result is the largest finite pattern: a tie
    have hxeq : x = (f.decode (f.infBits - 1) + f.decode f.infBits) / 2 := by linarith
    have hdeq : f.decode (rdU f m e) = f.decode (f.infBits - 1) := by linarith
    have hreq : rdU f m e = f.infBits - 1 := f.decode_strictMono.injective hdeq
    have htie := rdU_tie f m e f.infBits hmb (by omega) (by
      rw [abs_of_neg (by linarith), abs_of_pos (by linarith), hdeq]; linarith)
    have heven : f.infBits % 2 = 0 := by
      obtain ⟨k, hk⟩ : ∃ k, f.mb = k + 1 := ⟨f.mb - 1, by omega⟩
      rw [BinFmt.infBits, hk, pow_succ, ← Nat.mul_assoc]; omega
    omega


/-- every pattern decodes to a normal form `M·2^q`: at most `mb+1` significant bits, `q ≥ qmin`,
    and the leading bit is set unless `q = qmin` (subnormal); finite patterns have `q + mb ≤ emax` -/
theorem BinFmt.decode_normal_form (f : BinFmt) (n : ℕ) :
    ∃ (M : ℕ) (q : ℤ), f.decode n = (M : ℚ) * (2:ℚ) ^ q ∧ M < 2 ^ (f.mb + 1) ∧ f.qmin ≤ q ∧
      (2 ^ f.mb ≤ M ∨ q = f.qmin) ∧ (2 ≤ f.eb → n < f.infBits → q + f.mb ≤ f.emax) := by
  have hp : 0 < 2 ^ f.mb := Nat.pos_of_ne_zero (by positivity)
  have h2 : 2 ^ (f.mb + 1) = 2 * 2 ^ f.mb := by ring
  obtain ⟨hn, hMlt, hcond⟩ := pat_split (2 ^ f.mb) n hp
  refine ⟨n - (n / 2 ^ f.mb - 1) * 2 ^ f.mb, ((n / 2 ^ f.mb - 1 : ℕ) : ℤ) + f.qmin,
    f.decode_eq n, by omega, by omega, ?_, ?_⟩
  · rcases hcond with h | h
    · right; rw [h]; simp
    · left; exact h
  · intro heb hfin
    have hB := f.three_le_maxBiased heb
    have : n / 2 ^ f.mb < f.maxBiased := by
      rw [Nat.div_lt_iff_lt_mul hp]; exact hfin
    rw [BinFmt.emax, BinFmt.qmin]
    omega

/-- values below `2^emax` never overflow -/
theorem roundDyadic_lt_infBits_of_lt (f : BinFmt) (heb : 2 ≤ f.eb) (hmb : 1 ≤ f.mb) (m : ℕ) (e : ℤ)
    (hx : (m : ℚ) * (2:ℚ) ^ e < (2:ℚ) ^ f.emax) : roundDyadic f m e < f.infBits := by
  have hle := roundDyadic_le_infBits f (by omega) m e
  have hne : roundDyadic f m e ≠ f.infBits := by
    rw [Ne, roundDyadic_eq_infBits_iff_ge f heb hmb]
    intro hge
    have hu := two_zpow_pos (f.emax - f.mb)
    have h1 : (2:ℚ) ^ f.mb * (2:ℚ) ^ (f.emax - f.mb) = (2:ℚ) ^ f.emax := by
      rw [← zpow_natCast, ← zpow_add₀ (by norm_num)]; congr 1; ring
    have h2 : (2:ℚ) ^ (f.mb + 1) = 2 * (2:ℚ) ^ f.mb := by ring
    have h3 : (1:ℚ) ≤ (2:ℚ) ^ f.mb := one_le_pow₀ (by norm_num)
    have : (2:ℚ) ^ f.mb * (2:ℚ) ^ (f.emax - f.mb)
        ≤ ((2:ℚ) ^ (f.mb + 1) - 1 / 2) * (2:ℚ) ^ (f.emax - f.mb) :=
      mul_le_mul_of_nonneg_right (by rw [h2]; linarith) hu.le
    linarith
  omega


/-! ## Examples: the hypotheses of the main theorems are satisfiable on non-trivial inputs -/

/-- halfway case `2^53 + 1`: finite, so `roundDyadic_nearest`, `_tie`, `_faithful` apply; the
    neighbour pattern `1076·2^52 + 1` (value `2^53 + 2`) is at the same distance, the result is even -/
example : roundDyadic fmt64 (2 ^ 53 + 1) 0 < fmt64.infBits ∧ 1 ≤ fmt64.eb ∧ 1 ≤ fmt64.mb ∧
    1076 * 2 ^ 52 + 1 ≠ roundDyadic fmt64 (2 ^ 53 + 1) 0 ∧
    |fmt64.decode (roundDyadic fmt64 (2 ^ 53 + 1) 0) - ((2 ^ 53 + 1 : ℕ) : ℚ) * (2:ℚ) ^ (0:ℤ)|
      = |fmt64.decode (1076 * 2 ^ 52 + 1) - ((2 ^ 53 + 1 : ℕ) : ℚ) * (2:ℚ) ^ (0:ℤ)| := by
  have hr : roundDyadic fmt64 (2 ^ 53 + 1) 0 = 1076 * 2 ^ 52 := by decide
  rw [hr]
  refine ⟨by decide, by decide, by decide, by decide, ?_⟩
  norm_num [BinFmt.decode, fmt64, BinFmt.qmin, BinFmt.bias]

/-- `roundDyadic_exact`: the pattern of 1.5 decodes to `3·2^-1` -/
example : 1023 * 2 ^ 52 + 2 ^ 51 < fmt64.infBits ∧
    fmt64.decode (1023 * 2 ^ 52 + 2 ^ 51) = ((3 : ℕ) : ℚ) * (2:ℚ) ^ (-1 : ℤ) := by
  refine ⟨by decide, ?_⟩
  norm_num [BinFmt.decode, fmt64, BinFmt.qmin, BinFmt.bias]

/-- `roundDyadic_eq_infBits_iff_ge`: the midpoint `(2^54 − 1)·2^970` itself already overflows -/
example : ((2:ℚ) ^ (fmt64.mb + 1) - 1 / 2) * (2:ℚ) ^ (fmt64.emax - fmt64.mb)
      ≤ ((2 ^ 54 - 1 : ℕ) : ℚ) * (2:ℚ) ^ (970 : ℤ) ∧
    roundDyadic fmt64 (2 ^ 54 - 1) 970 = fmt64.infBits := by
  refine ⟨?_, by decide⟩
  have : fmt64.emax - fmt64.mb = 971 := by decide
  have hu := two_zpow_pos 970
  rw [this, show (971 : ℤ) = 970 + 1 by norm_num, zpow_add_one₀ (by norm_num)]
  generalize (2:ℚ) ^ (970 : ℤ) = u at *
  norm_num [fmt64]
  linarith

/-- `roundDyadic_mono` on two subnormal arguments -/
example : ((3 : ℕ) : ℚ) * (2:ℚ) ^ (-1075 : ℤ) ≤ ((1 : ℕ) : ℚ) * (2:ℚ) ^ (-1073 : ℤ) ∧
    roundDyadic fmt64 3 (-1075) = 2 ∧ roundDyadic fmt64 1 (-1073) = 2 := by
  refine ⟨?_, by decide, by decide⟩
  have : (2:ℚ) ^ (-1073 : ℤ) = 4 * (2:ℚ) ^ (-1075 : ℤ) := by
    rw [show (-1073 : ℤ) = 2 + (-1075) by norm_num, zpow_add₀ (by norm_num)]; norm_num
  rw [this]
  have := two_zpow_pos (-1075)
  generalize (2:ℚ) ^ (-1075 : ℤ) = u at *
  push_cast; linarith

/-- `roundDyadic_exact_of_bits`: a 24-bit significand with a float32-range exponent -/
example : (2 ^ 24 - 1) < 2 ^ (fmt64.mb + 1) ∧ fmt64.qmin ≤ -149 ∧
    ((2 ^ 24 - 1 : ℕ) : ℚ) * (2:ℚ) ^ (-149 : ℤ) < (2:ℚ) ^ (fmt64.emax + 1) :=
  ⟨by decide, by decide, dyadic_lt_of_bits _ 24 _ _ (by norm_num) (by decide)⟩

end Go
