/-
  D128/Proofs/PowLadderSign.lean — property C18: the sign of the result and "finite operands never give
  NaN", for every continuation of the ladder of `Gen.Decimal.PowWithMode` and EVERY mode byte.

  Provided (namespace `PowPf`):
  * `reduce128_range`     : `reduce128` returns a non-negative exponent (any mode byte; `sig ≠ 0 ∨ trunc ≠ -1`,
                            entry exponent in `[-32000, 20000]`)
  * `pow10Exact_sign`, `byK_sign`, `pow10Path_sign` : the power-of-ten shortcut returns a value of sign `neg`
  * `finish_sign`         : every `.ok r` of `finish` (power-of-ten shortcut, square-root shortcut, general
                            path) has `Signbit r = neg`, `IsNaN r = false` (`RcpRange` for the general path
                            through `rcp`, see D128/Proofs/PowLadderGeneral.lean)
  * `ladder_fin_sign`     : finite non-zero x, finite y ∉ {0, ±1}, not (x < 0 ∧ y ∉ ℤ): every `.ok r` of
                            `ladder` has sign `x < 0 ∧ y odd integer` and is not NaN
  * `quo_one_not_nan`     : `1/x` for a finite x is not NaN (valid mode byte, via the division theorem)
  * `pow_fin_not_nan`     : finite x, y, not (x < 0, x ≠ 0, y ∉ ℤ): no `.ok` result of `PowWithMode` is a NaN
  * `top_fin_sign`        : finite non-zero x, finite y ∉ {0, ±1} (values), not (x < 0 ∧ y ∉ ℤ): every result of
                            `PowWithMode` has sign `x < 0 ∧ y odd integer` and is not NaN
  * `top_fin_not_nan`     : `pow_fin_not_nan` in terms of the denoted values
-/
import D128.Proofs.PowLadderGeneral

set_option autoImplicit false
set_option maxRecDepth 8192
set_option linter.unusedVariables false
set_option linter.unusedSimpArgs false

namespace PowPf
open Gen Sp Spec RK D128.Proofs.Total
local notation "𝔳[" d "]" => Spec.interp (Gen.Decimal.lo d) (Gen.Decimal.hi d)

/-- `reduce128` never returns a negative exponent (every mode byte) -/
theorem reduce128_range (rm : UInt8) (neg : Bool) (sig : U128) (exp : Int16) (trunc : Int8)
    (h : sig.toNat ≠ 0 ∨ trunc ≠ -1) (he0 : -32000 ≤ exp.toInt) (he1 : exp.toInt ≤ 20000) :
    ∃ r, Gen.RoundingMode.reduce128 rm neg sig exp trunc = .ok r ∧ 0 ≤ r.2.toInt := by
  rw [reduce128_eq]
  obtain ⟨s', e', t', d', hk, hrel⟩ := ladder128_spec sig exp trunc he0 (by omega)
  rw [hk]
  apply reduceTail_range
  · rcases hrel with ⟨hs, hd, ht, he, -⟩ | ⟨p, hp2, hp4, hN, hs, hd, ht, he⟩
    · rcases h with hj | hj
      · exact Or.inl (by rw [hs]; exact hj)
      · exact Or.inr (Or.inl (i8_ne_of_toInt _ (by rw [ht]; exact i8_toInt_ne _ hj)))
    · refine Or.inl ?_
      rw [hs]
      have h1 : 10 ^ p * 2 ^ 110 / 10 ^ p ≤ sig.toNat / 10 ^ p := Nat.div_le_div_right hN
      rw [Nat.mul_div_cancel_left _ (by positivity)] at h1
      have : 0 < (2 : Nat) ^ 110 := by norm_num
      omega
  · rcases hrel with ⟨hs, hd, ht, he, -⟩ | ⟨p, hp2, hp4, hN, hs, hd, ht, he⟩ <;> omega

/-! ## the power-of-ten shortcut -/

theorem ok_pure_inj {α : Type} {a b : α} (h : (pure a : Go.GoM α) = .ok b) : a = b := by
  injection h

theorem pow10Exact_sign (rm : UInt8) (dNeg neg : Bool) (oSig dSig : U128) (dExp : Int16) (p10 : Int64)
    (r : Decimal) (hdS : dSig.toNat ≠ 0)
    (h : pow10Exact rm dNeg neg oSig dSig dExp p10 = .ok r) : SignOk neg r := by
  unfold pow10Exact at h
  generalize ((((Go.conv (dExp - (6176 : Int16)) : Int64) * p10) * (Go.conv oSig.w0 : Int64)) + (6176 : Int64)) = e64 at h
  have l3 : (-35 : Int64).toInt = -35 := by decide
  have l4 : (12322 : Int64).toInt = 12322 := by decide
  by_cases c1 : decide (e64 < (-35 : Int64)) = true
  · rw [if_pos c1] at h; rw [← ok_pure_inj h]; exact signOk_zero neg
  rw [if_neg c1] at h
  by_cases c2 : decide (e64 > (12322 : Int64)) = true
  · rw [if_pos c2] at h; rw [← ok_pure_inj h]; exact signOk_inf neg
  rw [if_neg c2] at h
  have h3 : ¬ e64.toInt < -35 := fun hh => c1 ((NL.i64_lt_lit _ _).2 (by rw [l3]; exact hh))
  have h4 : ¬ 12322 < e64.toInt := fun hh => c2 ((NL.i64_gt_lit _ _).2 (by rw [l4]; exact hh))
  have hE16 : (Go.conv e64 : Int16).toInt = e64.toInt :=
    FrexpPf.i64_conv_i16 e64 (by simp only [Int.reducePow]; omega) (by simp only [Int.reducePow]; omega)
  obtain ⟨x, hx, hx0⟩ := reduce128_range rm dNeg dSig (Go.conv e64 : Int16) 0 (Or.inl hdS)
    (by rw [hE16]; omega) (by rw [hE16]; omega)
  rw [hx, RK.ok_bind] at h
  by_cases c3 : decide (x.2 > (12287 : Int16)) = true
  · rw [if_pos c3] at h; rw [← ok_pure_inj h]; exact signOk_inf neg
  · rw [if_neg c3] at h; rw [← ok_pure_inj h]
    apply signOk_compose neg x.1 x.2 hx0
    rw [decide_eq_true_eq, gt_iff_lt, Int16.lt_iff_toInt_lt] at c3
    have : (12287 : Int16).toInt = 12287 := by decide
    omega

theorem byK_sign (neg : Bool) (dExp : Int16) (r : Decimal) (h : byK neg dExp = .ok r) : SignOk neg r := by
  unfold byK at h
  by_cases c1 : (dExp == (6176 : Int16)) = true
  · rw [if_pos c1] at h; rw [← ok_pure_inj h]; exact signOk_one neg
  rw [if_neg c1] at h
  by_cases c2 : decide (dExp < (6176 : Int16)) = true
  · rw [if_pos c2] at h; rw [← ok_pure_inj h]; exact signOk_zero neg
  · rw [if_neg c2] at h; rw [← ok_pure_inj h]; exact signOk_inf neg

theorem pow10Path_sign (rm : UInt8) (dNeg neg : Bool) (oSig : U128) (oExp : Int16) (dSig : U128)
    (dExp : Int16) (r : Decimal) (hdS : dSig.toNat ≠ 0)
    (h : pow10Path rm dNeg neg oSig oExp dSig dExp = .ok r) : SignOk neg r := by
  unfold pow10Path at h
  by_cases c0 : ((oSig.w1 != (0 : UInt64)) || (decide (oSig.w0 > (12322 : UInt64)))) = true
  · rw [if_pos c0] at h; exact byK_sign _ _ _ h
  rw [if_neg c0] at h
  by_cases c1 : (oExp == (6176 : Int16)) = true
  · rw [if_pos c1] at h; exact pow10Exact_sign _ _ _ _ _ _ _ _ hdS h
  rw [if_neg c1] at h
  by_cases c2 : (oExp == (6177 : Int16)) = true
  · rw [if_pos c2] at h; exact pow10Exact_sign _ _ _ _ _ _ _ _ hdS h
  rw [if_neg c2] at h
  by_cases c3 : (oExp == (6178 : Int16)) = true
  · rw [if_pos c3] at h; exact pow10Exact_sign _ _ _ _ _ _ _ _ hdS h
  rw [if_neg c3] at h
  by_cases c4 : (oExp == (6179 : Int16)) = true
  · rw [if_pos c4] at h; exact pow10Exact_sign _ _ _ _ _ _ _ _ hdS h
  rw [if_neg c4] at h
  by_cases c5 : (oExp == (6180 : Int16)) = true
  · rw [if_pos c5] at h; exact pow10Exact_sign _ _ _ _ _ _ _ _ hdS h
  rw [if_neg c5] at h
  by_cases c6 : (oExp == (6181 : Int16)) = true
  · rw [if_pos c6] at h; exact pow10Exact_sign _ _ _ _ _ _ _ _ hdS h
  rw [if_neg c6] at h
  by_cases c7 : (oExp == (6182 : Int16)) = true
  · rw [if_pos c7] at h; exact pow10Exact_sign _ _ _ _ _ _ _ _ hdS h
  rw [if_neg c7] at h
  by_cases c8 : (oExp == (6183 : Int16)) = true
  · rw [if_pos c8] at h; exact pow10Exact_sign _ _ _ _ _ _ _ _ hdS h
  rw [if_neg c8] at h
  exact byK_sign _ _ _ h

/-! ## every continuation -/

theorem finish_sign (rm : UInt8) (dNeg oNeg neg : Bool) (oSig : U128) (oExp : Int16) (dSig : U128)
    (dExp : Int16) (r : Decimal) (hrcp : RcpRange) (hd0 : 0 ≤ dExp.toInt) (hd1 : dExp.toInt ≤ 12400)
    (h : finish rm dNeg oNeg neg oSig oExp dSig dExp = .ok r) : SignOk neg r := by
  unfold finish at h
  by_cases c1 : (((!oNeg) && (decide (oExp ≥ (6176 : Int16)))) && (dSig == (U128.mk (1 : UInt64) (0 : UInt64)))) = true
  · rw [if_pos c1] at h
    apply pow10Path_sign _ _ _ _ _ _ _ _ _ h
    rw [Bool.and_eq_true, u128_beq, u128_one, decide_eq_true_eq] at c1
    omega
  rw [if_neg c1] at h
  by_cases c2 : (((((dExp &&& (1 : Int16)) == (0 : Int16)) && (oExp == (6175 : Int16))) && (dSig == (U128.mk (1 : UInt64) (0 : UInt64)))) && (oSig == (U128.mk (5 : UInt64) (0 : UInt64)))) = true
  · rw [if_pos c2] at h
    simp only [Bool.and_eq_true, i16_and_one, decide_eq_true_eq] at c2
    have hev : (dExp.toInt - 6176) % 2 = 0 := by omega
    obtain ⟨⟨hx1, hx2⟩, ⟨hb1, hb2⟩, ⟨hb3, hb4⟩⟩ := half_exp dExp hd0 hd1 hev
    cases oNeg
    · simp only [Bool.false_eq_true, if_false] at h
      rw [← ok_pure_inj h]
      exact signOk_compose neg dSig _ (by rw [hx1]; exact hb1) (by rw [hx1]; exact hb2)
    · simp only [if_true] at h
      rw [← ok_pure_inj h]
      exact signOk_compose neg dSig _ (by rw [hx2]; exact hb3) (by rw [hx2]; exact hb4)
  · rw [if_neg c2] at h
    exact general_sign rm oNeg neg oSig oExp dSig dExp r hrcp h

/-- finite non-zero x, finite y ∉ {0, ±1}, not (x < 0 with y ∉ ℤ): every result of the ladder has the
    sign `x < 0 ∧ y odd integer` and is not a NaN -/
theorem ladder_fin_sign (d o : Decimal) (rm : UInt8) (r : Decimal) (hrcp : RcpRange)
    (a3 : Decimal.isSpecial d = false) (a4 : Decimal.IsZero d = false)
    (h3 : Decimal.isSpecial o = false) (h4 : Decimal.IsZero o = false)
    (hint : Decimal.Signbit d = false ∨ (intParity (cf o) (ex o)).isNone = false)
    (h : ladder rm d o = .ok r) :
    SignOk (Decimal.Signbit d && (intParity (cf o) (ex o) == some true)) r := by
  obtain ⟨s, j, hs⟩ := strip_fin o h4
  obtain ⟨t, k, ht⟩ := strip_fin d a4
  have hint' : Decimal.Signbit d = false ∨ 6176 ≤ s.2.toInt := by
    rcases hint with hh | hh
    · exact Or.inl hh
    · right
      have := stripped_exp_neg_iff o s j hs
      rw [hh] at this
      have : ¬ s.2.toInt < 6176 := by simpa using this.symm
      omega
  rw [ladder_to_finish d o rm a3 a4 h3 s j hs t k ht hint'] at h
  have hd0 : 0 ≤ t.2.toInt := by
    have := Enc.decompose_exp_nonneg d; have := ht.2.2.1; omega
  have hd1 : t.2.toInt ≤ 12400 := by
    have := Enc.decompose_exp_le d a3; have := ht.2.2.1; have := ht.2.2.2.2; omega
  exact finish_sign _ _ _ _ _ _ _ _ _ hrcp hd0 hd1 h

/-! ## finite operands never give NaN -/

theorem roundToS_not_nan (m : Mode) (neg : Bool) (q : Rat) (k : Int) :
    (Spec.roundToS m neg q k).isNaN = false := by
  unfold Spec.roundToS
  dsimp only
  by_cases h1 : roundAt m neg q (spacingExpS q k - k) > Cmax
  · rw [if_pos h1]; dsimp only; split <;> rfl
  · rw [if_neg h1]; dsimp only; split <;> rfl

theorem flushOrRoundS_not_nan (m : Mode) (neg : Bool) (q : Rat) (k : Int) :
    (Spec.flushOrRoundS m neg q k).isNaN = false := by
  unfold Spec.flushOrRoundS
  by_cases h1 : (q == 0) = true
  · rw [if_pos h1]; rfl
  rw [if_neg h1]
  by_cases h2 : ilog10 q + k < Emin - 1
  · rw [if_pos h2]; rfl
  rw [if_neg h2]; exact roundToS_not_nan m neg q k

/-- `Spec.quo m 1 x` is not a NaN for a finite x -/
theorem quo_one_spec_not_nan (m : Mode) (n : Bool) (c : Nat) (e : Int) :
    (Spec.quo m (.fin false 1 0) (.fin n c e)).isNaN = false := by
  unfold Spec.quo
  by_cases hc : (c == 0) = true
  · have : ((1 : Nat) == 0) = false := by decide
    simp only [hc, if_true, this, Bool.false_eq_true, if_false]; rfl
  · simp only [hc, Bool.false_eq_true, if_false]
    exact flushOrRoundS_not_nan _ _ _ _

theorem isNaN_of_same (x y : Val) (h : x.same y = true) : x.isNaN = y.isNaN := by
  cases x <;> cases y <;> simp [Val.same] at h ⊢ <;> rfl

/-- finite x, y, excluding negative non-zero x with non-integer y: no result of `PowWithMode` is a NaN.
    `hquo` is the division theorem for the call `1/x` made when y = −1; `hrcp` see `RcpRange`. -/
theorem pow_fin_not_nan (d o : Decimal) (rm : UInt8) (m : Mode) (r : Decimal) (hrcp : RcpRange)
    (hquo : ∃ q, Decimal.QuoWithMode (one false) d rm = .ok q ∧
      (𝔳[q]).same (Spec.quo m 𝔳[one false] 𝔳[d]) = true)
    (a3 : Decimal.isSpecial d = false) (h3 : Decimal.isSpecial o = false)
    (hint : Decimal.Signbit d = false ∨ Decimal.IsZero d = true ∨ Decimal.IsZero o = true ∨
      (intParity (cf o) (ex o)).isNone = false)
    (h : Decimal.PowWithMode d o rm = .ok r) : Decimal.IsNaN r = false := by
  obtain ⟨hdn, hdi⟩ := fin_class d a3
  obtain ⟨hon, hoi⟩ := fin_class o h3
  by_cases h0 : Decimal.IsZero o = true
  · rw [pow_yzero d o rm h0] at h; rw [← ok_pure_inj h]; exact (signOk_one false).2
  have h0' : Decimal.IsZero o = false := by simpa using h0
  by_cases hb : (absOne 𝔳[d] && ((!(Decimal.Signbit d)) || (Decimal.isInf o))) = true
  · rw [Bool.and_eq_true] at hb
    rw [pow_xone d o rm h0' hb.1 hb.2] at h; rw [← ok_pure_inj h]; exact (signOk_one false).2
  have hb' : (absOne 𝔳[d] && ((!(Decimal.Signbit d)) || (Decimal.isInf o))) = false := by simpa using hb
  rw [pow_to_stage2 d o rm h0' hb'] at h
  by_cases hyo : absOne 𝔳[o] = true
  · rw [stage2_yone d o rm hyo] at h
    cases hs : Decimal.Signbit o
    · rw [hs] at h
      simp only [Bool.false_eq_true, if_false] at h
      rw [← ok_pure_inj h]; exact hdn
    · rw [hs] at h
      simp only [if_true] at h
      obtain ⟨q, hq, hsame⟩ := hquo
      rw [hq] at h
      have : q = r := by injection h
      subst this
      have h1 := isNaN_of_same _ _ hsame
      rw [Enc.interp_one, Enc.interp_decompose d a3, quo_one_spec_not_nan, Enc.interp_isNaN] at h1
      exact h1
  have hyo' : absOne 𝔳[o] = false := by simpa using hyo
  rw [stage2_ladder d o rm hyo'] at h
  by_cases hz : Decimal.IsZero d = true
  · obtain ⟨e1, -⟩ := case_xzero d o rm m hz h3 h0' hyo'
    rw [e1] at h
    cases hs : Decimal.Signbit o
    · rw [hs] at h
      simp only [Bool.false_eq_true, if_false] at h
      have hr : Gen.zero (Decimal.Signbit d && (intParity (cf o) (ex o) == some true)) = r := by injection h
      rw [← hr]; exact (signOk_zero _).2
    · rw [hs] at h
      simp only [if_true] at h
      have hr : Gen.inf (Decimal.Signbit d && (intParity (cf o) (ex o) == some true)) = r := by injection h
      rw [← hr]; exact (signOk_inf _).2
  have hz' : Decimal.IsZero d = false := by simpa using hz
  have hint' : Decimal.Signbit d = false ∨ (intParity (cf o) (ex o)).isNone = false := by
    rcases hint with hh | hh | hh | hh
    · exact Or.inl hh
    · rw [hz'] at hh; cases hh
    · rw [h0'] at hh; cases hh
    · exact Or.inr hh
  exact (ladder_fin_sign d o rm r hrcp a3 hz' h3 h0' hint' h).2

/-! ## in terms of the denoted values -/

theorem top_fin_sign (d o : Decimal) (rm : UInt8) (xn : Bool) (xc : Nat) (xe : Int) (yn : Bool) (yc : Nat)
    (ye : Int) (r : Decimal) (hrcp : RcpRange)
    (hx : 𝔳[d] = .fin xn xc xe) (hx0 : xc ≠ 0) (hy : 𝔳[o] = .fin yn yc ye) (hy0 : yc ≠ 0)
    (hy1 : Spec.mag yc ye ≠ 1) (hint : xn = false ∨ isIntQ (Spec.mag yc ye) = true)
    (h : Decimal.PowWithMode d o rm = .ok r) :
    Decimal.Signbit r = (xn && oddIntQ (Spec.mag yc ye)) ∧ Decimal.IsNaN r = false := by
  obtain ⟨a3, a1, a2, a5, a4⟩ := fin_of_interp d xn xc xe hx
  obtain ⟨h3, b1, b2, b5, b4⟩ := fin_of_interp o yn yc ye hy
  have a4' : Decimal.IsZero d = false := by rw [a4]; simpa using hx0
  have h4 : Decimal.IsZero o = false := by rw [b4]; simpa using hy0
  have hyo : absOne 𝔳[o] = false := by rw [hy]; exact absOne_of_mag _ _ _ hy1
  have hoi : Decimal.isInf o = false := (fin_class o h3).2
  have hc : yc ≤ Spec.Cmax := by rw [← b2]; exact Enc.decompose_sig_le o
  by_cases hb : (absOne 𝔳[d] && ((!(Decimal.Signbit d)) || (Decimal.isInf o))) = true
  · -- x = +1
    rw [Bool.and_eq_true] at hb
    rw [pow_xone d o rm h4 hb.1 hb.2] at h
    rw [← ok_pure_inj h]
    have hxn : xn = false := by
      have := hb.2; rw [hoi, Bool.or_false, a1] at this; simpa using this
    rw [hxn]; exact signOk_one false
  · have hb' : (absOne 𝔳[d] && ((!(Decimal.Signbit d)) || (Decimal.isInf o))) = false := by simpa using hb
    rw [(to_ladder d o rm .nearestEven h4 hb' hyo).1] at h
    have hint' : Decimal.Signbit d = false ∨ (intParity (cf o) (ex o)).isNone = false := by
      rcases hint with hh | hh
      · left; rw [a1]; exact hh
      · right; rw [b2, b5, intParity_isNone yc ye hy0 hc, hh]; rfl
    have := ladder_fin_sign d o rm r hrcp a3 a4' h3 h4 hint' h
    rw [a1, b2, b5, intParity_odd yc ye hy0 hc] at this
    exact this

theorem top_fin_not_nan (d o : Decimal) (rm : UInt8) (m : Mode) (xn : Bool) (xc : Nat) (xe : Int)
    (yn : Bool) (yc : Nat) (ye : Int) (r : Decimal) (hrcp : RcpRange)
    (hquo : ∃ q, Decimal.QuoWithMode (one false) d rm = .ok q ∧
      (𝔳[q]).same (Spec.quo m 𝔳[one false] 𝔳[d]) = true)
    (hx : 𝔳[d] = .fin xn xc xe) (hy : 𝔳[o] = .fin yn yc ye)
    (hexc : ¬ (xn = true ∧ xc ≠ 0 ∧ yc ≠ 0 ∧ isIntQ (Spec.mag yc ye) = false))
    (h : Decimal.PowWithMode d o rm = .ok r) : Decimal.IsNaN r = false := by
  obtain ⟨a3, a1, a2, a5, a4⟩ := fin_of_interp d xn xc xe hx
  obtain ⟨h3, b1, b2, b5, b4⟩ := fin_of_interp o yn yc ye hy
  have hc : yc ≤ Spec.Cmax := by rw [← b2]; exact Enc.decompose_sig_le o
  apply pow_fin_not_nan d o rm m r hrcp hquo a3 h3 _ h
  by_cases h1 : xn = true
  · by_cases h2 : xc = 0
    · right; left; rw [a4, h2]; rfl
    · by_cases h3' : yc = 0
      · right; right; left; rw [b4, h3']; rfl
      · right; right; right
        have hi : isIntQ (Spec.mag yc ye) = true := by
          by_contra hcon
          exact hexc ⟨h1, h2, h3', by simpa using hcon⟩
        rw [b2, b5, intParity_isNone yc ye h3' hc, hi]; rfl
  · left; rw [a1]; simpa using h1

end PowPf
