/-
  The two loops of `parseNumber` are one left-to-right fold.

  `Parse.loops` (first loop on a `uint64`, hand-over, second loop on a `uint128` with the two-digit
  step) equals the plain fold `Parse.run2` of the single-character step `Parse.step2`
  from the initial state:

  * `Parse.run2`                     fold of `step2` over the bytes (`none` = syntax error)
  * `Parse.conv_digit_u64`, `Parse.conv_digit_i64`   value of `uint64(c-'0')`, `int(c-'0')` for a digit
  * `Parse.u128_step_small`          `⟨x,0⟩·10 + d = ⟨x·10+d, 0⟩` when `x ≤ 0x18ff…`
  * `Parse.u128_two_step`            `sig·100 + (10a+b) = (sig·10+a)·10 + b` in `uint128`, and the
                                     intermediate high word stays `≤ 0x18ff…` when `sig.w1 ≤ 0x027f…`
  * `Parse.step1_step2`              the first loop's step is the second loop's step on `toS2`
  * `Parse.loop2_eq_run2`            second loop = fold (the two-digit step is two single steps)
  * `Parse.loops_eq_run2`            `loops sep cs = run2 sep cs (toS2 init1)`
  * `Parse.parseNumber_eq_run2`      `Gen.parseNumber g d neg sep` in terms of `run2` and `finish`
-/
import D128.Proofs.Parse
import D128.Proofs.Words128

set_option linter.unusedSimpArgs false
set_option linter.unusedVariables false

namespace Parse

/-- the parser as a plain fold of the single-character step -/
def run2 (sep : Bool) : List UInt8 → S2 → Option S2
  | [], s => some s
  | c :: r, s => (step2 sep c s).bind (run2 sep r)

@[simp] theorem run2_nil (sep : Bool) (s : S2) : run2 sep [] s = some s := rfl
theorem run2_cons (sep : Bool) (c : UInt8) (r : List UInt8) (s : S2) :
    run2 sep (c :: r) s = (step2 sep c s).bind (run2 sep r) := rfl

theorem run2_append (sep : Bool) (a b : List UInt8) (s : S2) :
    run2 sep (a ++ b) s = (run2 sep a s).bind (run2 sep b) := by
  induction a generalizing s with
  | nil => rfl
  | cons c r ih =>
    simp only [List.cons_append, run2_cons]
    cases step2 sep c s with
    | none => rfl
    | some s' => exact ih s'

/-! ## digits -/

theorem isDig_iff (c : UInt8) : isDig c = true ↔ 48 ≤ c.toNat ∧ c.toNat ≤ 57 := by
  unfold isDig
  simp only [Bool.and_eq_true, decide_eq_true_eq, ge_iff_le, UInt8.le_iff_toNat_le]
  rfl

theorem sub48_toNat (c : UInt8) (h : isDig c = true) : (c - 48).toNat = c.toNat - 48 := by
  rw [isDig_iff] at h
  rw [UInt8.toNat_sub_of_le]
  · rfl
  · rw [UInt8.le_iff_toNat_le]; exact h.1

theorem conv_digit_u64 (c : UInt8) (h : isDig c = true) :
    (Go.conv (c - (48 : UInt8)) : UInt64).toNat = c.toNat - 48 := by
  have h1 := sub48_toNat c h
  have := (c - 48).toNat_lt
  simp [Go.conv, Go.GoInt.ofInt, Go.GoInt.toInt, UInt64.ofInt]
  omega

theorem conv_digit_i64 (c : UInt8) (h : isDig c = true) :
    (Go.conv (c - (48 : UInt8)) : Int64).toInt = ((c.toNat - 48 : Nat) : Int) := by
  have h1 := sub48_toNat c h
  have := (c - 48).toNat_lt
  simp only [Go.conv, Go.GoInt.ofInt, Go.GoInt.toInt]
  rw [Int64.toInt_ofInt_of_le] <;> omega

/-! ## `uint128` arithmetic of the significand -/

theorem u128_w1_le (n : U128) (k : Nat) (h : n.toNat < (k + 1) * 2^64) : n.w1.toNat ≤ k := by
  unfold U128.toNat at h
  have := n.w0.toNat_lt
  by_contra hc
  have : (k + 1) * 2^64 ≤ n.w1.toNat * 2^64 := Nat.mul_le_mul_right _ (by omega)
  omega

theorem u128_step_small (x dv : UInt64) (hx : x ≤ (1801439850948198399 : UInt64)) (hd : dv.toNat ≤ 9) :
    Gen.U128.add64 (Gen.U128.mul64 ⟨x, 0⟩ 10) dv = ⟨x * 10 + dv, 0⟩ := by
  apply U128.toNat_inj
  rw [U128_add64_toNat, U128_mul64_toNat]
  rw [UInt64.le_iff_toNat_le] at hx
  have e1 : (1801439850948198399 : UInt64).toNat = 1801439850948198399 := rfl
  have e2 : (10 : UInt64).toNat = 10 := rfl
  have e3 : (0 : UInt64).toNat = 0 := rfl
  rw [e1] at hx
  have hlt : x.toNat * 10 + dv.toNat < 2^64 := by omega
  have hm : x.toNat * 10 % 2^64 = x.toNat * 10 := Nat.mod_eq_of_lt (by omega)
  have hr : (x * 10 + dv).toNat = x.toNat * 10 + dv.toNat := by
    rw [UInt64.toNat_add, UInt64.toNat_mul, e2, hm, Nat.mod_eq_of_lt hlt]
  simp only [U128.toNat, hr, e2, e3, Nat.zero_mul, Nat.add_zero]
  rw [Nat.mod_eq_of_lt (a := x.toNat * 10) (by omega), Nat.mod_eq_of_lt (by omega)]

theorem u128_step (sig : U128) (dv : UInt64) (hs : sig.w1 ≤ (1801439850948198399 : UInt64))
    (hd : dv.toNat ≤ 9) :
    (Gen.U128.add64 (Gen.U128.mul64 sig 10) dv).toNat = sig.toNat * 10 + dv.toNat := by
  rw [U128_add64_toNat, U128_mul64_toNat]
  rw [UInt64.le_iff_toNat_le] at hs
  have e1 : (1801439850948198399 : UInt64).toNat = 1801439850948198399 := rfl
  have e2 : (10 : UInt64).toNat = 10 := rfl
  rw [e1] at hs
  have := sig.w0.toNat_lt
  rw [e2]
  unfold U128.toNat
  omega

theorem u128_two_step (sig : U128) (a b : UInt64) (hs : sig.w1 ≤ (180143985094819839 : UInt64))
    (ha : a.toNat ≤ 9) (hb : b.toNat ≤ 9) :
    Gen.U128.add64 (Gen.U128.mul64 sig 100) (a * 10 + b) =
        Gen.U128.add64 (Gen.U128.mul64 (Gen.U128.add64 (Gen.U128.mul64 sig 10) a) 10) b ∧
      (Gen.U128.add64 (Gen.U128.mul64 sig 10) a).w1 ≤ (1801439850948198399 : UInt64) := by
  rw [UInt64.le_iff_toNat_le] at hs
  have e0 : (180143985094819839 : UInt64).toNat = 180143985094819839 := rfl
  have e1 : (1801439850948198399 : UInt64).toNat = 1801439850948198399 := rfl
  have e2 : (10 : UInt64).toNat = 10 := rfl
  have e3 : (100 : UInt64).toNat = 100 := rfl
  rw [e0] at hs
  have hw0 := sig.w0.toNat_lt
  have hsig : sig.toNat < 180143985094819840 * 2^64 := by unfold U128.toNat; omega
  have hab : (a * 10 + b).toNat = a.toNat * 10 + b.toNat := by
    rw [UInt64.toNat_add, UInt64.toNat_mul, e2]; omega
  have h1 : (Gen.U128.add64 (Gen.U128.mul64 sig 10) a).toNat = sig.toNat * 10 + a.toNat := by
    rw [U128_add64_toNat, U128_mul64_toNat, e2]; omega
  constructor
  · apply U128.toNat_inj
    rw [U128_add64_toNat, U128_mul64_toNat, U128_add64_toNat, U128_mul64_toNat, h1, hab, e2, e3]
    omega
  · rw [UInt64.le_iff_toNat_le, e1]
    apply u128_w1_le
    rw [h1]; omega

/-! ## the first loop is the second loop restricted to `uint64` -/

theorem step1_step2 (sep : Bool) (c : UInt8) (s : S1) (hexp : s.sawexp = false) (hsgn : s.cansgn = false)
    (hk : s.sig64 ≤ (1801439850948198399 : UInt64)) :
    step2 sep c (toS2 s) = (step1 sep c s).map toS2 := by
  unfold step1 step2
  by_cases hd : isDig c = true
  · have hdv : (Go.conv (c - (48 : UInt8)) : UInt64).toNat ≤ 9 := by
      rw [conv_digit_u64 c hd]; rw [isDig_iff] at hd; omega
    have h0 : (toS2 s).sig.w1 ≤ (1801439850948198399 : UInt64) := by
      show (0 : UInt64) ≤ _; decide
    simp only [hd, if_true, toS2, hexp, Bool.false_eq_true, if_false, Option.map_some]
    rw [if_pos (by decide)]
    simp only [u128_step_small s.sig64 _ hk hdv]
  · simp only [hd, Bool.false_eq_true, if_false, toS2, hexp, hsgn, Bool.or_false, Bool.not_false]
    by_cases h46 : (c == 46) = true
    · simp only [h46, if_true]
      split <;> rfl
    simp only [h46, Bool.false_eq_true, if_false]
    by_cases he : (c == 69 || c == 101) = true
    · simp only [he, if_true]
      split <;> rfl
    simp only [he, Bool.false_eq_true, if_false]
    by_cases h45 : (c == 45) = true
    · have h95 : (c == 95) = false := by
        simp only [beq_iff_eq] at h45; subst h45; decide
      simp only [h45, if_true, h95, Bool.false_eq_true, if_false, Option.map_none]
    simp only [h45, Bool.false_eq_true, if_false]
    by_cases h95 : (c == 95) = true
    · simp only [h95, if_true]
      split <;> rfl
    simp only [h95, Bool.false_eq_true, if_false]
    by_cases h43 : (c == 43) = true
    · simp only [h43, if_true, Option.map_none]
    · simp only [h43, Bool.false_eq_true, if_false, Option.map_none]

/-- while no exponent has been seen, a sign is not allowed -/
theorem step1_cansgn (sep : Bool) (c : UInt8) (s s' : S1) (h : step1 sep c s = some s')
    (he : s'.sawexp = false) : s'.cansgn = false := by
  unfold step1 at h
  split at h
  · cases h; rfl
  split at h
  · split at h
    · cases h
    · cases h; rfl
  split at h
  · split at h
    · cases h
    · cases h; cases he
  split at h
  · split at h
    · cases h
    · cases h; rfl
  · cases h

theorem cond1_iff (s : S1) :
    cond1 s = true ↔ s.sawexp = false ∧ s.sig64 ≤ (1801439850948198399 : UInt64) := by
  unfold cond1
  simp only [Bool.and_eq_true, Bool.not_eq_true', decide_eq_true_eq]

theorem after1_eq_run2 (sep : Bool) (cs : List UInt8) (s : S1)
    (hJ : s.sawexp = false → s.cansgn = false)
    (h2 : ∀ cs s, loop2 sep cs s = run2 sep cs s) :
    after1 sep cs s = run2 sep cs (toS2 s) := by
  induction cs generalizing s with
  | nil => rw [after1_exit _ _ _ (Or.inr rfl), h2]
  | cons c r ih =>
    by_cases hc : cond1 s = true
    · rw [after1_cons _ _ _ _ hc, run2_cons]
      obtain ⟨he, hk⟩ := (cond1_iff s).mp hc
      rw [step1_step2 sep c s he (hJ he) hk]
      cases h : step1 sep c s with
      | none => rfl
      | some s' =>
        simp only [Option.map_some, Option.bind_some]
        exact ih s' (step1_cansgn sep c s s' h)
    · rw [after1_exit _ _ _ (Or.inl (by simpa using hc)), h2]

/-! ## the two-digit step is two single steps -/

theorem step2_digit_acc (sep : Bool) (c : UInt8) (s : S2) (hd : isDig c = true) (he : s.sawexp = false)
    (hk : s.sig.w1 ≤ (1801439850948198399 : UInt64)) :
    step2 sep c s = some ⟨if s.sawdot then s.nfrac + (1 : Int64) else s.nfrac, s.trunc, true, true, false,
      s.eneg, true, s.sawdot, s.sawexp,
      Gen.U128.add64 (Gen.U128.mul64 s.sig (10 : UInt64)) (Go.conv (c - (48 : UInt8)) : UInt64), s.exp⟩ := by
  unfold step2
  simp only [hd, if_true, he, Bool.false_eq_true, if_false, hk]

theorem loop2_eq_run2 (sep : Bool) (cs : List UInt8) (s : S2) : loop2 sep cs s = run2 sep cs s := by
  induction cs, s using loop2.induct sep with
  | case1 s => rfl
  | case2 c s h => simp only [loop2, run2_cons, run2, h]; rfl
  | case3 c s s' h => simp only [loop2, run2_cons, run2, h]; rfl
  | case4 c c2 rest s hcond ih =>
    rw [loop2_two _ _ _ _ _ hcond, ih]
    simp only [Bool.and_eq_true, Bool.not_eq_true', decide_eq_true_eq] at hcond
    obtain ⟨⟨⟨⟨hd, he⟩, hk⟩, hk2⟩, hd2⟩ := hcond
    have hda : (Go.conv (c - (48 : UInt8)) : UInt64).toNat ≤ 9 := by
      rw [conv_digit_u64 c hd]; rw [isDig_iff] at hd; omega
    have hdb : (Go.conv (c2 - (48 : UInt8)) : UInt64).toNat ≤ 9 := by
      rw [conv_digit_u64 c2 hd2]; rw [isDig_iff] at hd2; omega
    obtain ⟨e1, e2⟩ := u128_two_step s.sig _ _ hk2 hda hdb
    have hs2 := step2_digit_acc sep c2
      ⟨if s.sawdot then s.nfrac + (1 : Int64) else s.nfrac, s.trunc, true, true, false, s.eneg, true,
        s.sawdot, s.sawexp,
        Gen.U128.add64 (Gen.U128.mul64 s.sig (10 : UInt64)) (Go.conv (c - (48 : UInt8)) : UInt64), s.exp⟩
      hd2 he e2
    rw [run2_cons, step2_digit_acc sep c s hd he hk, Option.bind_some, run2_cons, hs2, Option.bind_some]
    congr 1
    unfold step22
    rw [e1]
    cases s.sawdot
    · rfl
    · simp only [if_true]
      congr 1
      rw [Int64.add_assoc]; rfl
  | case5 c c2 rest s hcond h =>
    rw [loop2_single _ _ _ _ (by intro c2' r' hr; cases hr; simpa using hcond), run2_cons, h]
    rfl
  | case6 c c2 rest s hcond s' h ih =>
    rw [loop2_single _ _ _ _ (by intro c2' r' hr; cases hr; simpa using hcond), run2_cons, h]
    exact ih

/-- both loops = the plain fold -/
theorem loops_eq_run2 (sep : Bool) (cs : List UInt8) : loops sep cs = run2 sep cs (toS2 init1) :=
  after1_eq_run2 sep cs init1 (fun _ => rfl) (loop2_eq_run2 sep)

/-- `parseNumber` = fold of `step2` over the bytes, then `finish` -/
theorem parseNumber_eq_run2 (g : Globals) (d : Go.Bytes) (neg sep : Bool)
    (hsz : d.size < 2^63) :
    Gen.parseNumber g d neg sep =
      match run2 sep d.toList (toS2 init1) with
      | none => .ok ((default : Gen.Decimal), Go.Err.parseNumberSyntaxError)
      | some s => finish g neg s := by
  rw [parseNumber_eq_model g d neg sep hsz, model, loops_eq_run2]
  rfl

end Parse
