/-
  D128/Proofs/CanonMain.lean — value-level consequences of `Spec.canonical`.

    Valid, interp_valid      every bit pattern denotes a value with c ≤ Cmax, −6176 ≤ e ≤ 6111
    canonVal                 the value denoted by the canonical bits
    canonVal_nan / _inf / _zero / _fin
    mag_zero, mag_normPair
    canonVal_same            non-NaN: same class, sign, value
    canonVal_sameNum         all values (NaN ↦ NaN)
    canonical_canonVal       Spec.canonical (canonVal x) = Spec.canonical x   (idempotence)
-/
import D128.Proofs.CanonSpec
set_option autoImplicit false

namespace CanonPf

/-! ## values that bit patterns can denote -/

/-- finite values have a coefficient ≤ Cmax and an exponent in range -/
def Valid : Spec.Val → Prop
  | .fin _ c e => c ≤ Spec.Cmax ∧ -6176 ≤ e ∧ e ≤ 6111
  | _ => True

theorem interp_valid (lo hi : UInt64) : Valid (Spec.interp lo hi) := by
  by_cases hs : Gen.Decimal.isSpecial ⟨lo, hi⟩ = false
  · have h := Enc.interp_decompose ⟨lo, hi⟩ hs
    dsimp only at h
    rw [h]
    have h1 := Enc.decompose_sig_le ⟨lo, hi⟩
    have h2 := Enc.decompose_exp_nonneg ⟨lo, hi⟩
    have h3 := Enc.decompose_exp_le ⟨lo, hi⟩ hs
    exact ⟨h1, by omega, by omega⟩
  · have h := Enc.interp_isFin ⟨lo, hi⟩
    dsimp only at h
    simp only [Bool.not_eq_false] at hs
    rw [hs] at h
    cases hv : Spec.interp lo hi with
    | fin n c e => rw [hv] at h; simp [Spec.Val.isFin] at h
    | nan n p => trivial
    | inf n => trivial

/-! ## `Spec.canonical` by class, and reading the result back -/

/-- reading of the canonical bits -/
def canonVal (x : Spec.Val) : Spec.Val := Spec.interp (Spec.canonical x).1 (Spec.canonical x).2

theorem canonVal_nan (n : Bool) (p : UInt64) : canonVal (.nan n p) = .nan false 0 := by
  unfold canonVal
  show Spec.interp 0 0x7c00000000000000 = _
  rfl

theorem canonVal_inf (n : Bool) : canonVal (.inf n) = .inf n := by
  unfold canonVal; cases n <;> rfl

theorem canonVal_zero (n : Bool) (e : Int) : canonVal (.fin n 0 e) = .fin n 0 (-6176) := by
  unfold canonVal; rw [canonical_zero]; cases n <;> rfl

theorem canonVal_fin (n : Bool) (c : Nat) (e : Int) (hc : c ≠ 0) (hle : c ≤ Spec.Cmax)
    (he : -6176 ≤ e ∧ e ≤ 6111) :
    canonVal (.fin n c e) = .fin n (normPair c e).1 (normPair c e).2 := by
  unfold canonVal
  rw [canonical_fin' n c e hc]
  obtain ⟨hN, _⟩ := normPair_props c e hc hle he
  exact interp_encode n _ _ hN.le hN.rng

/-! ## value preservation -/

theorem mag_zero (e : Int) : Spec.mag 0 e = 0 := by unfold Spec.mag; simp

theorem mag_normPair (c : Nat) (e : Int) (hc : c ≠ 0) (hle : c ≤ Spec.Cmax)
    (he : -6176 ≤ e ∧ e ≤ 6111) :
    Spec.mag (normPair c e).1 (normPair c e).2 = Spec.mag c e := by
  obtain ⟨_, j1, j2, h1, h2, _⟩ := normPair_props c e hc hle he
  exact mag_eq_of_scaled c _ e _ j1 j2 h1 h2

/-- the canonical encoding denotes the same class, sign and value (NaN: any NaN) -/
theorem canonVal_same (x : Spec.Val) (hx : Valid x) (hn : x.isNaN = false) :
    (canonVal x).same x = true := by
  cases x with
  | nan n p => simp [Spec.Val.isNaN] at hn
  | inf n => rw [canonVal_inf]; simp [Spec.Val.same]
  | fin n c e =>
    by_cases hc : c = 0
    · subst hc
      rw [canonVal_zero]; simp [Spec.Val.same, mag_zero]
    · rw [canonVal_fin n c e hc hx.1 hx.2]
      simp [Spec.Val.same, mag_normPair c e hc hx.1 hx.2]

theorem canonVal_sameNum (x : Spec.Val) (hx : Valid x) : (canonVal x).sameNum x = true := by
  cases x with
  | nan n p => rw [canonVal_nan]; rfl
  | inf n => rw [canonVal_inf]; simp [Spec.Val.sameNum, Spec.Val.same]
  | fin n c e =>
    have := canonVal_same (.fin n c e) hx rfl
    revert this
    cases canonVal (.fin n c e) <;> simp [Spec.Val.sameNum]

/-! ## idempotence -/

theorem canonical_canonVal (x : Spec.Val) (hx : Valid x) :
    Spec.canonical (canonVal x) = Spec.canonical x := by
  cases x with
  | nan n p => rw [canonVal_nan]; rfl
  | inf n => rw [canonVal_inf]
  | fin n c e =>
    by_cases hc : c = 0
    · subst hc
      rw [canonVal_zero, canonical_zero, canonical_zero]
    · rw [canonVal_fin n c e hc hx.1 hx.2]
      obtain ⟨hN, _⟩ := normPair_props c e hc hx.1 hx.2
      rw [canonical_fin' n _ _ hN.nz, normPair_of_normal _ _ hN, canonical_fin' n c e hc]

end CanonPf
