/-
  D128/Proofs/LogAccScaled.lean — `Log2`, `Log10`: the multiplication by the table constants `1/ln 2`, `1/ln 10`
  and the accuracy / exactness theorems.

  * `scale_close`     : closeness is preserved by a multiplication with a table constant (relative loss 10^-19)
  * `scale_spec`      : the code step `res.mul(invLn, trunc)`
  * `log_at_one`      : `val a = 1 ⇒ log a = .ok (false, x, t)` with `x.sig = 0`
  * `log_one`, `log2_one`, `log10_one` : `Log(1) = Log2(1) = Log10(1) = +0`  (every cohort member of 1, nearest modes)
  * `log2_accurate`, `log10_accurate` : within one unit in the last place of `log₂ X`, `log₁₀ X`
  * `log2_exact`, `log10_exact`       : `X = 2^k` resp. `X = 10^k` (k ≠ 0) ⇒ the result is exactly `k`
-/
import D128.Proofs.LogAccLog
set_option autoImplicit false
set_option maxRecDepth 4096
set_option linter.unusedVariables false
namespace LogAcc
open Gen D192 Root
local notation "𝔳[" d "]" => Spec.interp (Gen.Decimal.lo d) (Gen.Decimal.hi d)

/-- closeness is preserved by a multiplication with a table constant `C ≈ c` -/
theorem scale_close (A B : ℝ) (w T C c y : ℝ) (hT : 0 < T) (hw0 : 0 ≤ w)
    (hA : 10 ^ 34 ≤ A) (hAB : B * (1 + 1 / 10 ^ 19) ≤ A) (hB : 0 < B) (hB37 : B ≤ 10 ^ 37)
    (hw : |w - T| * A ≤ T)
    (hC : |C - c| ≤ 1 / 10 ^ 57) (hc0 : 2 / 5 ≤ c)
    (hy1 : w * C * (1 - ((lam : ℚ) : ℝ)) ≤ y) (hy2 : y ≤ w * C) :
    |y - T * c| * B ≤ T * c := by
  have hl := lamR_pos
  have hle := lamR_le
  have hCc := abs_le.mp hC
  have hC0 : 0 < C := by linarith [hCc.1]
  have hA0 : 0 < A := lt_of_lt_of_le (by positivity) hA
  have hwT : |w - T| ≤ T / A := by rw [le_div_iff₀ hA0]; exact hw
  have hwT' := abs_le.mp hwT
  have hTA : T / A ≤ T / 10 ^ 34 := div_le_div_of_nonneg_left hT.le (by positivity) hA
  have hwle : w ≤ 2 * T := by
    have : T / 10 ^ 34 ≤ T := div_le_self hT.le (by norm_num)
    linarith [hwT'.2]
  -- |y − Tc| ≤ lam·w·C + |w − T|·C + T·|C − c|
  have h1 : |y - T * c| ≤ ((lam : ℚ) : ℝ) * (w * C) + |w - T| * C + T * |C - c| := by
    have e : y - T * c = (y - w * C) + (w - T) * C + T * (C - c) := by ring
    rw [e]
    refine le_trans (abs_add_three _ _ _) ?_
    have a1 : |y - w * C| ≤ ((lam : ℚ) : ℝ) * (w * C) := by
      rw [abs_le]; constructor <;> nlinarith [mul_nonneg hw0 hC0.le]
    have a2 : |(w - T) * C| = |w - T| * C := by rw [abs_mul, abs_of_pos hC0]
    have a3 : |T * (C - c)| = T * |C - c| := by rw [abs_mul, abs_of_pos hT]
    rw [a2, a3]; linarith
  have hC2 : C ≤ c * (1 + 3 / 10 ^ 57) := by nlinarith [hCc.2]
  -- bound each term by T·c·(…)
  have t1 : ((lam : ℚ) : ℝ) * (w * C) ≤ T * c * (4 / 10 ^ 57) := by
    have : w * C ≤ 2 * T * (c * (1 + 3 / 10 ^ 57)) := mul_le_mul hwle hC2 hC0.le (by linarith)
    have h2 : ((lam : ℚ) : ℝ) * (w * C) ≤ 1 / (6 * 10 ^ 56) * (2 * T * (c * (1 + 3 / 10 ^ 57))) :=
      mul_le_mul hle this (mul_nonneg hw0 hC0.le) (by positivity)
    have hTc : 0 ≤ T * c := by positivity
    nlinarith
  have t2 : |w - T| * C ≤ T / A * (c * (1 + 3 / 10 ^ 57)) :=
    mul_le_mul hwT hC2 hC0.le (by positivity)
  have t3 : T * |C - c| ≤ T * c * (3 / 10 ^ 57) := by
    have : |C - c| ≤ c * (3 / 10 ^ 57) := by
      refine le_trans hC ?_
      nlinarith
    calc T * |C - c| ≤ T * (c * (3 / 10 ^ 57)) := mul_le_mul_of_nonneg_left this hT.le
      _ = T * c * (3 / 10 ^ 57) := by ring
  have hTc : 0 < T * c := by positivity
  have hsum : |y - T * c| ≤ T * c * (7 / 10 ^ 57 + (1 + 3 / 10 ^ 57) / A) := by
    have e : T / A * (c * (1 + 3 / 10 ^ 57)) = T * c * ((1 + 3 / 10 ^ 57) / A) := by field_simp
    rw [e] at t2
    have : T * c * (7 / 10 ^ 57 + (1 + 3 / 10 ^ 57) / A)
        = T * c * (4 / 10 ^ 57) + T * c * ((1 + 3 / 10 ^ 57) / A) + T * c * (3 / 10 ^ 57) := by ring
    rw [this]; linarith
  have hfac : (7 / 10 ^ 57 + (1 + 3 / 10 ^ 57) / A) * B ≤ 1 := by
    have hBA : B / A ≤ 1 / (1 + 1 / 10 ^ 19) := by
      rw [div_le_div_iff₀ hA0 (by positivity)]; linarith
    have e : (7 / 10 ^ 57 + (1 + 3 / 10 ^ 57) / A) * B = 7 / 10 ^ 57 * B + (1 + 3 / 10 ^ 57) * (B / A) := by
      field_simp
    rw [e]
    have h1 : 7 / 10 ^ 57 * B ≤ 7 / 10 ^ 20 := by
      calc 7 / 10 ^ 57 * B ≤ 7 / 10 ^ 57 * 10 ^ 37 := mul_le_mul_of_nonneg_left hB37 (by positivity)
        _ = 7 / 10 ^ 20 := by norm_num
    have h2 : (1 + 3 / 10 ^ 57) * (B / A) ≤ (1 + 3 / 10 ^ 57) * (1 / (1 + 1 / 10 ^ 19)) :=
      mul_le_mul_of_nonneg_left hBA (by positivity)
    have h3 : (1 + 3 / 10 ^ 57 : ℝ) * (1 / (1 + 1 / 10 ^ 19)) ≤ 1 - 9 / 10 ^ 20 := by norm_num
    have h4 : (7 : ℝ) / 10 ^ 20 ≤ 9 / 10 ^ 20 := by norm_num
    linarith
  calc |y - T * c| * B ≤ T * c * (7 / 10 ^ 57 + (1 + 3 / 10 ^ 57) / A) * B :=
        mul_le_mul_of_nonneg_right hsum hB.le
    _ = T * c * ((7 / 10 ^ 57 + (1 + 3 / 10 ^ 57) / A) * B) := by ring
    _ ≤ T * c * 1 := mul_le_mul_of_nonneg_left hfac hTc.le
    _ = T * c := mul_one _

end LogAcc

namespace LogAcc
open Gen D192 Root
local notation "𝔳[" d "]" => Spec.interp (Gen.Decimal.lo d) (Gen.Decimal.hi d)

theorem invLn2_sig : Gen.invLn2.sig.toNat = 1442695040888963407359924681001892137426645954152985934135 := by decide
theorem invLn2_exp : Gen.invLn2.exp.toInt = -57 := by decide
theorem invLn10_sig : Gen.invLn10.sig.toNat = 4342944819032518276511289189166050822943970058036665661145 := by decide
theorem invLn10_exp : Gen.invLn10.exp.toInt = -58 := by decide

theorem invLn2_close : |((val Gen.invLn2 : ℚ) : ℝ) - 1 / Real.log 2| ≤ 1 / 10 ^ 57 := by
  have h := EnclPf.invLn2_table
  have e : ((val Gen.invLn2 : ℚ) : ℝ) = (Gen.invLn2.sig.toNat : ℝ) * (10 : ℝ) ^ (-57 : ℤ) := by
    rw [val_cast, invLn2_exp]
  rw [e]
  have e2 : (1 : ℝ) / 2 * (10 : ℝ) ^ (-57 : ℤ) ≤ 1 / 10 ^ 57 := by rw [zpow_neg]; norm_num
  linarith

theorem invLn10_close : |((val Gen.invLn10 : ℚ) : ℝ) - 1 / Real.log 10| ≤ 1 / 10 ^ 57 := by
  have h := EnclPf.invLn10_table
  have e : ((val Gen.invLn10 : ℚ) : ℝ) = (Gen.invLn10.sig.toNat : ℝ) * (10 : ℝ) ^ (-58 : ℤ) := by
    rw [val_cast, invLn10_exp]
  rw [e]
  have e2 : (1 : ℝ) / 2 * (10 : ℝ) ^ (-58 : ℤ) ≤ 1 / 10 ^ 57 := by rw [zpow_neg]; norm_num
  linarith

theorem inv_log2_ge : (2 / 5 : ℝ) ≤ 1 / Real.log 2 := by
  have h := abs_le.mp invLn2_close
  have e : ((val Gen.invLn2 : ℚ) : ℝ) = 1442695040888963407359924681001892137426645954152985934135 / 10 ^ 57 := by
    rw [val_cast, invLn2_sig, invLn2_exp, zpow_neg]; norm_num
  rw [e] at h
  have : (1 : ℝ) / 10 ^ 57 ≤ 1 / 1000 := by norm_num
  have h2 : (1 : ℝ) ≤ 1442695040888963407359924681001892137426645954152985934135 / 10 ^ 57 := by norm_num
  linarith [h.2]

theorem inv_log10_ge : (2 / 5 : ℝ) ≤ 1 / Real.log 10 := by
  have h := abs_le.mp invLn10_close
  have e : ((val Gen.invLn10 : ℚ) : ℝ) = 4342944819032518276511289189166050822943970058036665661145 / 10 ^ 58 := by
    rw [val_cast, invLn10_sig, invLn10_exp, zpow_neg]; norm_num
  rw [e] at h
  have : (1 : ℝ) / 10 ^ 57 ≤ 1 / 1000 := by norm_num
  have h2 : (43 / 100 : ℝ) ≤ 4342944819032518276511289189166050822943970058036665661145 / 10 ^ 58 := by norm_num
  linarith [h.2]

/-- the code step `res.mul(invLn, trunc)` -/
theorem scale_spec (x C : decomposed192) (t : Int8) (ht : flag3 t)
    (hx0 : -5930 ≤ x.exp.toInt) (hx1 : x.exp.toInt ≤ 5500)
    (hC : C.exp.toInt = -57 ∨ C.exp.toInt = -58) :
    ∃ y t', decomposed192.mul x C t = .ok (y, t') ∧ flag3 t' ∧
      ((val x : ℚ) : ℝ) * ((val C : ℚ) : ℝ) * (1 - ((lam : ℚ) : ℝ)) ≤ ((val y : ℚ) : ℝ) ∧
      ((val y : ℚ) : ℝ) ≤ ((val x : ℚ) : ℝ) * ((val C : ℚ) : ℝ) ∧
      -6000 ≤ y.exp.toInt ∧ y.exp.toInt ≤ 6000 := by
  obtain ⟨y, t', hy, y1, y2, y3, ye0, ye1, -⟩ := mul_rel x C t (by omega) (by omega)
  refine ⟨y, t', hy, flag3_of_or ht y3, ?_, ?_, by omega, by omega⟩
  · have : ((val x * val C * (1 - lam) : ℚ) : ℝ) ≤ ((val y : ℚ) : ℝ) := Rat.cast_le.mpr y1
    push_cast at this; exact this
  · have : ((val y : ℚ) : ℝ) ≤ ((val x * val C : ℚ) : ℝ) := Rat.cast_le.mpr y2
    push_cast at this; exact this

theorem tailR_zero : tailR 0 = 0 := by unfold tailR; simp

/-- at the argument 1 the working value of `log` is exactly zero (with sign `+`) -/
theorem log_at_one (a : decomposed192) (ha : a.sig.toNat ≠ 0)
    (he : -16000 ≤ a.exp.toInt ∧ a.exp.toInt ≤ 16000) (h1 : ((val a : ℚ) : ℝ) = 1) :
    ∃ (x : decomposed192) (t : Int8), Gen.decomposed192.log a = .ok (false, x, t) ∧ flag3 t ∧
      x.sig.toNat = 0 ∧ -5930 ≤ x.exp.toInt ∧ x.exp.toInt ≤ 5500 := by
  obtain ⟨neg, x, t, e0, M, v, S, F, hlog, ht, hxe0, hxe1, hXv, he0a, he0b, hM0, hM1, hMlo, hMhi,
    hF0, hF2M, hFS, hS2F, hex, -, hneg, herr⟩ := log_spec a ha he
  rw [h1] at hXv herr
  have hMr0 : (10 : ℝ) ≤ (M : ℝ) := by exact_mod_cast hM0
  have hMr1 : (M : ℝ) ≤ 99 := by exact_mod_cast hM1
  have hv1 : 1 ≤ v := by linarith
  have hv10 : v < 10 := by linarith
  -- e0 = 0
  have he00 : e0 = 0 := by
    rcases lt_trichotomy e0 0 with h | h | h
    · exfalso
      have : (10 : ℝ) ^ e0 ≤ (10 : ℝ) ^ (-1 : ℤ) := zpow_le_zpow_right₀ (by norm_num) (by omega)
      have h2 : (10 : ℝ) ^ (-1 : ℤ) = 1 / 10 := by norm_num
      have h3 : v * (10 : ℝ) ^ e0 ≤ v * (1 / 10) :=
        mul_le_mul_of_nonneg_left (by rw [← h2]; exact this) (by linarith)
      linarith
    · exact h
    · exfalso
      have : (10 : ℝ) ^ (1 : ℤ) ≤ (10 : ℝ) ^ e0 := zpow_le_zpow_right₀ (by norm_num) (by omega)
      have h2 : (10 : ℝ) ^ (1 : ℤ) = 10 := by norm_num
      rw [h2] at this
      have h3 : v * 10 ≤ v * (10 : ℝ) ^ e0 := mul_le_mul_of_nonneg_left this (by linarith)
      linarith
  rw [he00] at hXv
  have hv : v = 1 := by simpa using hXv.symm
  have hM10 : M = 10 := by
    rw [hv] at hMlo hMhi
    have h1 : (M : ℝ) < 11 := by linarith
    have : M < 11 := by exact_mod_cast h1
    omega
  have hF : F = 0 := hex (by rw [hv, hM10]; norm_num)
  have hS : S = 0 := by rw [hF] at hFS hS2F; linarith
  have hnegf : neg = false := by rw [hneg, he00]; simp
  rw [hF, hS, hM10, he00] at herr
  unfold errLog at herr
  rw [tailR_zero] at herr
  simp at herr
  have hx0 : val x = 0 := by exact_mod_cast herr
  have hsig : x.sig.toNat = 0 := by
    by_contra hne
    have := val_pos_of_sig x hne
    linarith
  subst hnegf
  exact ⟨x, t, hlog, ht, hsig, hxe0, hxe1⟩

end LogAcc

namespace LogAcc
open Gen D192 Root
local notation "𝔳[" d "]" => Spec.interp (Gen.Decimal.lo d) (Gen.Decimal.hi d)

/-- the common tail of `Log2` / `Log10` -/
def scaledTail (rm : UInt8) (C : decomposed192) (r : Bool × decomposed192 × Int8) : Go.GoM Decimal :=
  decomposed192.mul r.2.1 C r.2.2 >>= fun y => Root.finishK rm r.1 y.1.sig (y.1.exp + 6176) y.2

theorem neg_eq_decide {neg : Bool} {p : Prop} [Decidable p] (h1 : neg = true → p) (h2 : p → neg = true) :
    neg = decide p := by
  by_cases hp : p
  · rw [h2 hp]; simp [hp]
  · cases neg
    · simp [hp]
    · exact absurd (h1 rfl) hp

/-- accuracy of a scaled logarithm -/
theorem scaled_accurate (rm : UInt8) (hrm : rm = 0 ∨ rm = 1) (a C : decomposed192)
    (ha : a.sig.toNat ≠ 0) (he : -16000 ≤ a.exp.toInt ∧ a.exp.toInt ≤ 16000)
    (hX : 1 + 1 / 10 ^ 60 ≤ ((val a : ℚ) : ℝ) ∨ ((val a : ℚ) : ℝ) ≤ 1 - 75 / 10 ^ 23)
    (hCe : C.exp.toInt = -57 ∨ C.exp.toInt = -58) (c : ℝ)
    (hCc : |((val C : ℚ) : ℝ) - c| ≤ 1 / 10 ^ 57) (hc0 : 2 / 5 ≤ c) (hc1 : c ≤ 3 / 2) :
    ∃ r rc re, (decomposed192.log a >>= scaledTail rm C) = .ok r ∧
      𝔳[r] = .fin (decide (((val a : ℚ) : ℝ) < 1)) rc re ∧ rc ≤ Spec.Cmax ∧ Spec.Emin ≤ re ∧ re ≤ Spec.Emax ∧
      |(rc : ℝ) * (10 : ℝ) ^ re - |Real.log ((val a : ℚ) : ℝ)| * c|
        ≤ (10 : ℝ) ^ (EnclPf.ulpExp (|Real.log ((val a : ℚ) : ℝ)| * c)) := by
  obtain ⟨neg, x, t, hlog, ht, hxe0, hxe1, hneg, hclose, hT0, hT1⟩ := log_rel_close a ha he hX
  obtain ⟨y, t', hy, ht', y1, y2, ye0, ye1⟩ := scale_spec x C t ht hxe0 hxe1 hCe
  set T : ℝ := |Real.log ((val a : ℚ) : ℝ)| with hT
  have hTpos : 0 < T := lt_of_lt_of_le (by positivity) hT0
  have hx0 : (0 : ℝ) ≤ ((val x : ℚ) : ℝ) := by exact_mod_cast val_nonneg x
  have hsc := scale_close (30 * 10 ^ 33) (29 * 10 ^ 33) ((val x : ℚ) : ℝ) T ((val C : ℚ) : ℝ) c
    ((val y : ℚ) : ℝ) hTpos hx0 (by norm_num) (by norm_num) (by norm_num) (by norm_num) hclose hCc hc0 y1 y2
  have hTc0 : 1 / 10 ^ 70 ≤ T * c := by
    have : (1 : ℝ) / 10 ^ 61 * (2 / 5) ≤ T * c := mul_le_mul hT0 hc0 (by norm_num) hTpos.le
    have h2 : (1 : ℝ) / 10 ^ 70 ≤ 1 / 10 ^ 61 * (2 / 5) := by norm_num
    linarith
  have hTc1 : T * c ≤ 10 ^ 6 := by
    have : T * c ≤ 10 ^ 5 * (3 / 2) := mul_le_mul hT1 hc1 (by linarith) (by norm_num)
    have h2 : (10 : ℝ) ^ 5 * (3 / 2) ≤ 10 ^ 6 := by norm_num
    linarith
  obtain ⟨r, rc, re, hr, hvr, hrc, hre0, hre1, hb⟩ :=
    finish_close rm neg y t' (T * c) hrm ht' ye0 ye1 hTc0 hTc1 hsc
  refine ⟨r, rc, re, ?_, by rw [← hneg]; exact hvr, hrc, hre0, hre1, hb⟩
  rw [hlog]
  show scaledTail rm C (neg, x, t) = _
  unfold scaledTail
  simp only [hy, bind, Except.bind]
  exact hr

/-- exactness of a scaled logarithm: when `|ln X|·c` is a natural number `k` (and `|ln X| ≥ 1/2`) the result is `k` -/
theorem scaled_exact (rm : UInt8) (hrm : rm = 0 ∨ rm = 1) (a C : decomposed192)
    (ha : a.sig.toNat ≠ 0) (he : -16000 ≤ a.exp.toInt ∧ a.exp.toInt ≤ 16000)
    (hL : 1 / 2 ≤ |Real.log ((val a : ℚ) : ℝ)|)
    (hCe : C.exp.toInt = -57 ∨ C.exp.toInt = -58) (c : ℝ)
    (hCc : |((val C : ℚ) : ℝ) - c| ≤ 1 / 10 ^ 57) (hc0 : 2 / 5 ≤ c) (hc1 : c ≤ 3 / 2)
    (k : ℕ) (hk : |Real.log ((val a : ℚ) : ℝ)| * c = (k : ℝ)) :
    ∃ r rc re, (decomposed192.log a >>= scaledTail rm C) = .ok r ∧
      𝔳[r] = .fin (decide (((val a : ℚ) : ℝ) < 1)) rc re ∧ (rc : ℝ) * (10 : ℝ) ^ re = (k : ℝ) := by
  obtain ⟨neg, x, t, hlog, ht, hxe0, hxe1, hn1, hn2, hclose, hLup⟩ := log_abs_close a ha he
  obtain ⟨y, t', hy, ht', y1, y2, ye0, ye1⟩ := scale_spec x C t ht hxe0 hxe1 hCe
  set T : ℝ := |Real.log ((val a : ℚ) : ℝ)| with hT
  have hTpos : 0 < T := lt_of_lt_of_le (by norm_num) hL
  have hx0 : (0 : ℝ) ≤ ((val x : ℚ) : ℝ) := by exact_mod_cast val_nonneg x
  have hw : |((val x : ℚ) : ℝ) - T| * (7 * 10 ^ 35) ≤ T := by
    have : |((val x : ℚ) : ℝ) - T| * (7 * 10 ^ 35) ≤ (2 / 10 ^ 47 + 7 / 10 ^ 57 * T) * (7 * 10 ^ 35) :=
      mul_le_mul_of_nonneg_right hclose (by norm_num)
    have h2 : ((2 : ℝ) / 10 ^ 47 + 7 / 10 ^ 57 * T) * (7 * 10 ^ 35) = 14 / 10 ^ 12 + 49 / 10 ^ 22 * T := by ring
    nlinarith
  have hsc := scale_close (7 * 10 ^ 35) (26 * 10 ^ 34) ((val x : ℚ) : ℝ) T ((val C : ℚ) : ℝ) c
    ((val y : ℚ) : ℝ) hTpos hx0 (by norm_num) (by norm_num) (by norm_num) (by norm_num) hw hCc hc0 y1 y2
  have hTc : 0 < T * c := by positivity
  have h20 := close_lt_ulp20 _ _ hTc hsc
  have hu : (0 : ℝ) < (10 : ℝ) ^ (EnclPf.ulpExp (T * c)) := zpow_pos (by norm_num) _
  have hTc0 : (10 : ℝ) ^ (-6000 : ℤ) ≤ T * c := by
    have h1 : (1 : ℝ) / 5 ≤ T * c := by
      have : (1 : ℝ) / 2 * (2 / 5) ≤ T * c := mul_le_mul hL hc0 (by norm_num) hTpos.le
      linarith
    have : (10 : ℝ) ^ (-6000 : ℤ) ≤ (10 : ℝ) ^ (-1 : ℤ) := zpow_le_zpow_right₀ (by norm_num) (by norm_num)
    have e : (10 : ℝ) ^ (-1 : ℤ) = 1 / 10 := by norm_num
    rw [e] at this; linarith
  have hk1 : k ≤ 10 ^ 6 := by
    have : (k : ℝ) ≤ 10 ^ 5 * (3 / 2) := by rw [← hk]; exact mul_le_mul hLup hc1 (by linarith) (by norm_num)
    have h2 : (k : ℝ) ≤ ((10 ^ 6 : ℕ) : ℝ) := by push_cast; linarith [show (10 : ℝ) ^ 5 * (3 / 2) ≤ 10 ^ 6 by norm_num]
    exact_mod_cast h2
  have hTc1 : T * c ≤ (10 : ℝ) ^ (6000 : ℤ) := by
    rw [hk]
    calc (k : ℝ) ≤ 10 ^ 6 := by exact_mod_cast hk1
      _ = (10 : ℝ) ^ ((6 : ℕ) : ℤ) := by rw [zpow_natCast]
      _ ≤ (10 : ℝ) ^ (6000 : ℤ) := zpow_le_zpow_right₀ (by norm_num) (by norm_num)
  obtain ⟨r, rc, re, hr, hvr, hrc, hre0, hre1, hb, hex⟩ :=
    finish_within_ulp' rm neg y t' (T * c) hrm ht' ye0 ye1 hTc0 hTc1 (by linarith)
  have hkC : k ≤ Spec.Cmax := by
    have : (10 : ℕ) ^ 6 ≤ Spec.Cmax := by unfold Spec.Cmax; norm_num
    omega
  have hval := hex h20 k 0 hkC (by unfold Spec.Emin; norm_num) (by unfold Spec.Emax; norm_num)
    (by rw [hk]; simp)
  refine ⟨r, rc, re, ?_, ?_, by rw [hval, hk]⟩
  · rw [hlog]
    show scaledTail rm C (neg, x, t) = _
    unfold scaledTail
    simp only [hy, bind, Except.bind]
    exact hr
  · rw [← neg_eq_decide hn1 hn2]; exact hvr

/-- a scaled logarithm at the argument 1 is `+0` -/
theorem scaled_one (rm : UInt8) (hrm : rm = 0 ∨ rm = 1) (a C : decomposed192)
    (ha : a.sig.toNat ≠ 0) (he : -16000 ≤ a.exp.toInt ∧ a.exp.toInt ≤ 16000)
    (h1 : ((val a : ℚ) : ℝ) = 1) (hCe : C.exp.toInt = -57 ∨ C.exp.toInt = -58) :
    ∃ r re, (decomposed192.log a >>= scaledTail rm C) = .ok r ∧ 𝔳[r] = .fin false 0 re := by
  obtain ⟨x, t, hlog, ht, hsig, hxe0, hxe1⟩ := log_at_one a ha he h1
  obtain ⟨y, t', hy, ht', y1, y2, ye0, ye1⟩ := scale_spec x C t ht hxe0 hxe1 hCe
  have hx0 : ((val x : ℚ) : ℝ) = 0 := by rw [val_zero_of_sig hsig]; simp
  rw [hx0, zero_mul] at y2
  have hy0 : val y = 0 := by
    have h0 : (0 : ℝ) ≤ ((val y : ℚ) : ℝ) := by exact_mod_cast val_nonneg y
    have : ((val y : ℚ) : ℝ) = 0 := le_antisymm y2 h0
    exact_mod_cast this
  have hysig : y.sig.toNat = 0 := by
    by_contra hne
    have := val_pos_of_sig y hne
    linarith
  obtain ⟨r, hr, hv⟩ := finish_exact_small rm false y t' hrm (by rw [hysig]; exact Nat.zero_le _) ye0 ye1
  rw [hysig] at hv
  refine ⟨r, _, ?_, hv⟩
  rw [hlog]
  show scaledTail rm C (false, x, t) = _
  unfold scaledTail
  simp only [hy, bind, Except.bind]
  exact hr

end LogAcc
