/-
  D128.Proofs.TotalRound — totality (termination + no panic) of the rounding kernel
  `Gen.RoundingMode.round` (Go: /repo/rounding.go, `func (rm RoundingMode) round`), for EVERY rounding
  mode byte (including the invalid ones ≥ 6), every `shift neg exp trunc digit`.

  Provided (namespace `D128.Proofs.Total`):
  * `adjW_cases`            : the decision table yields 0, +1, or (-1 and then `trunc = -1 ∧ digit = 0`)
  * `prescaleUp_total`, `prescaleDown_total`, `prescale_total` : the pre-scaling loops terminate and
      keep a non-zero significand non-zero
  * `NoDown rm neg`, `noDown_of_modes_sign`, `noDown_of_modes` : `adjust = -1` is never decided unless
      `rm = 2 ∨ (rm = 5 ∧ neg) ∨ (rm = 4 ∧ ¬neg)`
  * `roundLoop_total_gen`, `roundLoop_total` : the main loop terminates from every state with
      `NoDown rm neg ∨ sig ≠ 0 ∨ trunc ≠ -1 ∨ digit ≠ 0`
  * `round_total_nodown`, `round_total_modes_sign`, `round_total_modes`, `round_total_modes_triple` :
      unconditional totality (all `sig exp trunc digit`) for `rm ∉ {2,4,5}` (sign-aware: see above)
  * `round_total`           : `sig.toNat ≠ 0 ∨ trunc ≠ -1 ∨ digit ≠ 0 → ∃ r, round … = .ok r`
  * `round_total_triple`    : the same as an `@[spec]` Hoare triple
  * `triple_of_total`       : `(P → ∃ r, f = .ok r) → ⦃⌜P⌝⦄ f ⦃⇓ _ => ⌜True⌝⦄`
  * FINDING (`roundBody_zero_stuck`, `roundLoop_zero_stuck`, `round_zero_stuck`,
      `round_zero_stuck_shift`): the hypothesis of `round_total` is necessary. From
      `sig = 0, trunc = -1, digit = 0` with a mode/sign whose decision is `adjust = -1`
      (`ToZero`; `ToPositiveInf` with `neg`; `ToNegativeInf` with `¬neg`), one pass of the loop is a
      `continue` to the very same state with `exp+1` (`0 - 1` wraps to `2^128-1`, which is above
      the largest significand, and `0/10 = 0`), i.e. the Go code loops forever.
-/
import D128.Proofs.RoundKernelCode
import D128.Proofs.WordsWide

set_option autoImplicit false
set_option maxRecDepth 4096
set_option linter.unusedVariables false
set_option mvcgen.warning false

namespace D128.Proofs.Total
open Std.Do
open RK

/-- a total `GoM` computation satisfies the trivial-postcondition triple -/
theorem triple_of_total {α : Type} {f : Go.GoM α} {P : Prop} (h : P → ∃ r, f = .ok r) :
    ⦃⌜P⌝⦄ f ⦃⇓ _ => ⌜True⌝⦄ := by
  by_cases hp : P
  · obtain ⟨r, hr⟩ := h hp
    subst hr
    show ⦃⌜P⌝⦄ (pure r : Go.GoM α) ⦃⇓ _ => ⌜True⌝⦄
    mvcgen
  · simp [Triple, hp]

/-! ## the decision table -/

theorem adjW_cases (rm : UInt8) (neg : Bool) (w0 : UInt64) (trunc : Int8) (digit : UInt64) :
    adjW rm neg w0 trunc digit = 0 ∨ adjW rm neg w0 trunc digit = 1 ∨
    (adjW rm neg w0 trunc digit = -1 ∧ trunc = -1 ∧ digit = 0) := by
  unfold adjW
  repeat' split
  all_goals first
    | (left; rfl)
    | (right; left; rfl)
    | (right; right
       rename_i h
       simp only [Bool.and_eq_true, beq_iff_eq] at h
       exact ⟨rfl, h.1, h.2⟩)

/-! ## the pre-scaling loops -/

theorem prescaleUp_step (sig : U128) (exp : Int16)
    (h : exp > 0 ∧ sig.w1 < 70368744177663) :
    prescaleUp sig exp = prescaleUp (Gen.U128.mul64 sig 10) (exp - 1) := by
  have hc : (decide (exp > 0) && decide (sig.w1 < 70368744177663)) = true := by
    simpa only [Bool.and_eq_true, decide_eq_true_eq] using h
  conv_lhs => unfold prescaleUp
  rw [Go.loop_unfold]
  dsimp only
  rw [if_pos hc]
  rfl

theorem i16_pred (exp : Int16) (h : 0 < exp.toInt) : (exp - 1).toInt = exp.toInt - 1 := by
  have := exp.toInt_lt
  rw [Int16.toInt_sub_of] <;> simp <;> omega

theorem mul10_ne_zero (sig : U128) (h : sig.toNat < 70368744177664 * 2 ^ 64 ∨ sig.toNat = 2 ^ 110)
    (h0 : sig.toNat ≠ 0) : (Gen.U128.mul64 sig 10).toNat ≠ 0 := by
  have h10 : (10 : UInt64).toNat = 10 := rfl
  rw [U128_mul64_toNat_of_lt _ _ (by rw [h10]; omega), h10]
  omega

theorem prescaleUp_total (sig : U128) (exp : Int16) :
    ∃ p, prescaleUp sig exp = .ok p ∧ (sig.toNat ≠ 0 → p.1.toNat ≠ 0) := by
  induction hn : exp.toInt.toNat using Nat.strongRecOn generalizing sig exp with
  | _ n ih =>
    by_cases h : exp > 0 ∧ sig.w1 < 70368744177663
    · rw [prescaleUp_step _ _ h]
      have hpos : 0 < exp.toInt := (i16_gt_zero _).1 h.1
      have hx := i16_pred exp hpos
      obtain ⟨p, hp, hp'⟩ := ih _ (by omega) (Gen.U128.mul64 sig 10) (exp - 1) rfl
      refine ⟨p, hp, fun h0 => hp' (mul10_ne_zero sig (Or.inl ?_) h0)⟩
      have hw := h.2
      have hw0 := sig.w0.toNat_lt
      rw [UInt64.lt_iff_toNat_lt] at hw
      simp only [U128.toNat, UInt64.toNat_ofNat, Nat.reducePow, Nat.reduceMod] at *
      omega
    · exact ⟨_, prescaleUp_stop _ _ h, id⟩

theorem prescaleDown_total (sig : U128) (exp : Int16) :
    ∃ p, prescaleDown sig exp = .ok p ∧ (sig.toNat ≠ 0 → p.1.toNat ≠ 0) := by
  induction hn : exp.toInt.toNat using Nat.strongRecOn generalizing sig exp with
  | _ n ih =>
    by_cases h : exp > 0 ∧ (sig.w1 ≤ 70368744177663 ∨ sig = { w0 := 0, w1 := 70368744177664 })
    · rw [prescaleDown_step _ _ h]
      have hpos : 0 < exp.toInt := (i16_gt_zero _).1 h.1
      have hx := i16_pred exp hpos
      obtain ⟨p, hp, hp'⟩ := ih _ (by omega) (Gen.U128.mul64 sig 10) (exp - 1) rfl
      refine ⟨p, hp, fun h0 => hp' (mul10_ne_zero sig ?_ h0)⟩
      rcases h.2 with hw | hw
      · left
        have hw0 := sig.w0.toNat_lt
        rw [UInt64.le_iff_toNat_le] at hw
        simp only [U128.toNat, UInt64.toNat_ofNat, Nat.reducePow, Nat.reduceMod] at *
        omega
      · right
        rw [hw]; rfl
    · exact ⟨_, prescaleDown_stop _ _ h, id⟩

theorem prescale_total (up : Bool) (sig : U128) (exp : Int16) :
    ∃ p, prescale up sig exp = .ok p ∧ (sig.toNat ≠ 0 → p.1.toNat ≠ 0) := by
  have key : ∀ s e, ∃ p, (if up = true then prescaleUp else prescaleDown) s e = .ok p ∧
      (s.toNat ≠ 0 → p.1.toNat ≠ 0) := by
    intro s e
    cases up
    · exact prescaleDown_total s e
    · exact prescaleUp_total s e
  unfold prescale
  by_cases hz : (sig.w0 ||| sig.w1 != 0) = true
  · rw [if_pos hz]
    by_cases h19 : (decide (exp ≥ 19) && sig.w1 == 0) = true
    · rw [if_pos h19]
      obtain ⟨p, hp, hp'⟩ := key (Gen.U128.mul64 sig 10000000000000000000) (exp - 19)
      refine ⟨p, hp, fun h0 => hp' ?_⟩
      simp only [Bool.and_eq_true, beq_iff_eq] at h19
      have hw1 : sig.w1.toNat = 0 := by rw [h19.2]; rfl
      have hw0 := sig.w0.toNat_lt
      have hc : (10000000000000000000 : UInt64).toNat = 10000000000000000000 := rfl
      have hlt : sig.toNat < 2 ^ 64 := by simp only [U128.toNat]; omega
      rw [U128_mul64_toNat_of_lt _ _ (by rw [hc]; omega), hc]
      omega
    · rw [if_neg h19]
      exact key sig exp
  · rw [if_neg hz]
    refine ⟨(sig, 0), rfl, fun h0 => ?_⟩
    rw [U128_or_ne_zero] at hz
    simp only [decide_eq_true_eq] at hz
    exact absurd h0 hz

/-! ## the main loop -/

/-- the decision `adjust = -1` is never taken for this mode and sign -/
def NoDown (rm : UInt8) (neg : Bool) : Prop :=
  ∀ (w0 : UInt64) (t : Int8) (d : UInt64), adjW rm neg w0 t d ≠ -1

/-- `adjust = -1` occurs only for `ToZero` (2), `ToPositiveInf` (5) on negative values and
    `ToNegativeInf` (4) on non-negative values; in particular never for the modes 0, 1, 3 and never for
    the invalid mode bytes ≥ 6. -/
theorem noDown_of_modes_sign (rm : UInt8) (neg : Bool)
    (hm : rm ≠ 2 ∧ ¬ (rm = 5 ∧ neg = true) ∧ ¬ (rm = 4 ∧ neg = false)) : NoDown rm neg := by
  intro w0 t d
  unfold adjW
  repeat' split
  all_goals first
    | decide
    | (exfalso; simp_all)

theorem noDown_of_modes (rm : UInt8) (neg : Bool) (hm : rm ≠ 2 ∧ rm ≠ 4 ∧ rm ≠ 5) : NoDown rm neg :=
  noDown_of_modes_sign rm neg ⟨hm.1, fun h => hm.2.2 h.1, fun h => hm.2.1 h.1⟩

/-- the main loop of `round` terminates without panic from every state when the mode/sign never
    decides `adjust = -1`, and otherwise from every state satisfying
    `sig ≠ 0 ∨ trunc ≠ -1 ∨ digit ≠ 0`; the variant is `(if shift then 2^128 else 0) + sig`. -/
theorem roundLoop_total_gen (rm : UInt8) (neg : Bool) (o : Option (U128 × Int16)) (shift : Bool)
    (sig : U128) (exp : Int16) (trunc : Int8) (digit : UInt64)
    (h : NoDown rm neg ∨ (sig.toNat ≠ 0 ∨ trunc ≠ -1 ∨ digit ≠ 0)) :
    ∃ r, roundLoop rm neg (o, shift, sig, exp, trunc, digit) = .ok r := by
  induction hn : (if shift = true then 2 ^ 128 else 0) + sig.toNat using Nat.strongRecOn
    generalizing o shift sig exp trunc digit with
  | _ n ih =>
    have hsig := sig.toNat_lt
    rw [roundLoop_unfold]
    -- the significand after the (possible) pre-scaling
    have hpre : ∀ up : Bool, ∃ p, (if shift = true then prescale up sig exp else pure (sig, exp)) = .ok p ∧
        (sig.toNat ≠ 0 → p.1.toNat ≠ 0) ∧ (shift = false → p.1 = sig) := by
      intro up
      cases shift
      · exact ⟨(sig, exp), rfl, id, fun _ => rfl⟩
      · obtain ⟨p, hp, hp'⟩ := prescale_total up sig exp
        exact ⟨p, by simpa only [if_true] using hp, hp', fun h => by cases h⟩
    rcases adjW_cases rm neg sig.w0 trunc digit with h0 | h1 | ⟨hm, ht, hd⟩
    · rw [roundBody_adj0 _ _ _ _ _ _ _ _ h0]
      exact ⟨_, rfl⟩
    · rw [roundBody_up _ _ _ _ _ _ _ _ h1]
      obtain ⟨p, hp, hp0, hps⟩ := hpre true
      have hp1 := p.1.toNat_lt
      rw [hp, ok_bind]
      by_cases hc : 12980742146337069071326240823050240 ≤ (Gen.U128.add64 p.1 1).toNat
      · obtain ⟨q, r, hq, hr, e⟩ := roundTail_carry false p (Gen.U128.add64 p.1 1) trunc digit hc
        rw [e]
        show ∃ r', roundLoop rm neg (none, false, q, p.2 + 1, (if (digit != 0) = true then 1 else trunc), r)
          = .ok r'
        have h1' : (1 : UInt64).toNat = 1 := rfl
        rw [U128_add64_toNat, h1'] at hc
        simp only [Nat.reducePow] at hc hp1 hsig
        have hge : 12980742146337069071326240823050239 ≤ p.1.toNat := by omega
        apply ih ((if false = true then 2 ^ 128 else 0) + q.toNat) _ none false q _ _ r (Or.inr (Or.inl (by omega))) rfl
        rw [← hn]
        cases shift
        · have := hps rfl
          rw [this] at hq hge
          simp only [Bool.false_eq_true, if_false]
          omega
        · simp only [Bool.false_eq_true, if_false, if_true, Nat.reducePow]
          omega
      · rw [roundTail_done _ _ _ _ _ (by omega)]
        exact ⟨_, rfl⟩
    · rw [roundBody_down _ _ _ _ _ _ _ _ hm]
      have hs0 : sig.toNat ≠ 0 := by
        rcases h with h | h | h | h
        · exact absurd hm (h _ _ _)
        · exact h
        · exact absurd ht h
        · exact absurd hd h
      obtain ⟨p, hp, hp0, hps⟩ := hpre false
      have hp1 := p.1.toNat_lt
      have hpne := hp0 hs0
      rw [hp, ok_bind]
      by_cases hc : 12980742146337069071326240823050240 ≤ (Gen.U128.sub64 p.1 1).toNat
      · obtain ⟨q, r, hq, hr, e⟩ := roundTail_carry false p (Gen.U128.sub64 p.1 1) trunc digit hc
        rw [e]
        show ∃ r', roundLoop rm neg (none, false, q, p.2 + 1, (if (digit != 0) = true then 1 else trunc), r)
          = .ok r'
        have h1' : (1 : UInt64).toNat = 1 := rfl
        rw [U128_sub64_toNat, h1'] at hc
        simp only [Nat.reducePow] at hc hp1 hsig
        have hge : 12980742146337069071326240823050241 ≤ p.1.toNat := by omega
        apply ih ((if false = true then 2 ^ 128 else 0) + q.toNat) _ none false q _ _ r (Or.inr (Or.inl (by omega))) rfl
        rw [← hn]
        cases shift
        · have := hps rfl
          rw [this] at hq hge
          simp only [Bool.false_eq_true, if_false]
          omega
        · simp only [Bool.false_eq_true, if_false, if_true, Nat.reducePow]
          omega
      · rw [roundTail_done _ _ _ _ _ (by omega)]
        exact ⟨_, rfl⟩

/-- the main loop of `round` terminates without panic from every state satisfying
    `sig ≠ 0 ∨ trunc ≠ -1 ∨ digit ≠ 0` -/
theorem roundLoop_total (rm : UInt8) (neg : Bool) (o : Option (U128 × Int16)) (shift : Bool)
    (sig : U128) (exp : Int16) (trunc : Int8) (digit : UInt64)
    (h : sig.toNat ≠ 0 ∨ trunc ≠ -1 ∨ digit ≠ 0) :
    ∃ r, roundLoop rm neg (o, shift, sig, exp, trunc, digit) = .ok r :=
  roundLoop_total_gen rm neg o shift sig exp trunc digit (Or.inr h)

/-- **Totality of the rounding kernel**: for every rounding-mode byte (valid or not) and all other
    arguments, `round` terminates without panic unless `sig = 0 ∧ trunc = -1 ∧ digit = 0`. -/
theorem round_total (rm : UInt8) (shift neg : Bool) (sig : U128) (exp : Int16) (trunc : Int8)
    (digit : UInt64) (h : sig.toNat ≠ 0 ∨ trunc ≠ -1 ∨ digit ≠ 0) :
    ∃ r, Gen.RoundingMode.round rm shift neg sig exp trunc digit = .ok r := by
  rw [round_eq_loop]
  exact roundLoop_total rm neg none shift sig exp trunc digit h

/-- **Unconditional totality of the rounding kernel for mode/sign combinations that never round
    towards zero** (no hypothesis on `sig`, `exp`, `trunc`, `digit`). -/
theorem round_total_nodown (rm : UInt8) (shift neg : Bool) (sig : U128) (exp : Int16) (trunc : Int8)
    (digit : UInt64) (hm : NoDown rm neg) :
    ∃ r, Gen.RoundingMode.round rm shift neg sig exp trunc digit = .ok r := by
  rw [round_eq_loop]
  exact roundLoop_total_gen rm neg none shift sig exp trunc digit (Or.inl hm)

/-- sign-aware form: every mode except `ToZero`, `ToPositiveInf` on negative and `ToNegativeInf` on
    non-negative values -/
theorem round_total_modes_sign (rm : UInt8) (shift neg : Bool) (sig : U128) (exp : Int16)
    (trunc : Int8) (digit : UInt64)
    (hm : rm ≠ 2 ∧ ¬ (rm = 5 ∧ neg = true) ∧ ¬ (rm = 4 ∧ neg = false)) :
    ∃ r, Gen.RoundingMode.round rm shift neg sig exp trunc digit = .ok r :=
  round_total_nodown rm shift neg sig exp trunc digit (noDown_of_modes_sign rm neg hm)

/-- `ToNearestEven` (0), `ToNearestAway` (1), `AwayFromZero` (3) and every invalid mode byte ≥ 6:
    `round` terminates without panic for ALL arguments. -/
theorem round_total_modes (rm : UInt8) (shift neg : Bool) (sig : U128) (exp : Int16) (trunc : Int8)
    (digit : UInt64) (hm : rm ≠ 2 ∧ rm ≠ 4 ∧ rm ≠ 5) :
    ∃ r, Gen.RoundingMode.round rm shift neg sig exp trunc digit = .ok r :=
  round_total_nodown rm shift neg sig exp trunc digit (noDown_of_modes rm neg hm)

/-- not `@[spec]` (would clash with `round_total_triple`) -/
theorem round_total_modes_triple (rm : UInt8) (shift neg : Bool) (sig : U128) (exp : Int16)
    (trunc : Int8) (digit : UInt64) :
    ⦃⌜rm ≠ 2 ∧ rm ≠ 4 ∧ rm ≠ 5⌝⦄
    Gen.RoundingMode.round rm shift neg sig exp trunc digit
    ⦃⇓ _ => ⌜True⌝⦄ :=
  triple_of_total (round_total_modes rm shift neg sig exp trunc digit)

/-- the default mode on the input on which `ToZero` loops forever -/
example : ∃ r, Gen.RoundingMode.round 0 true false { w0 := 0, w1 := 0 } 5 (-1) 0 = .ok r :=
  round_total_modes _ _ _ _ _ _ _ (by decide)

@[spec] theorem round_total_triple (rm : UInt8) (shift neg : Bool) (sig : U128) (exp : Int16)
    (trunc : Int8) (digit : UInt64) :
    ⦃⌜sig.toNat ≠ 0 ∨ trunc ≠ -1 ∨ digit ≠ 0⌝⦄
    Gen.RoundingMode.round rm shift neg sig exp trunc digit
    ⦃⇓ _ => ⌜True⌝⦄ :=
  triple_of_total (round_total rm shift neg sig exp trunc digit)

/-- the hypothesis is satisfiable with an invalid mode, `sig = 0`, `trunc = -1` -/
example : ∃ r, Gen.RoundingMode.round 200 true true { w0 := 0, w1 := 0 } (-7) (-1) 3 = .ok r :=
  round_total _ _ _ _ _ _ _ (Or.inr (Or.inr (by decide)))

/-! ## FINDING: the hypothesis is necessary — `round` does not terminate on
    `sig = 0, trunc = -1, digit = 0` when the decision is `adjust = -1` -/

theorem zero128_toNat : (U128.mk 0 0).toNat = 0 := by
  simp [U128.toNat]

theorem adjW_zero_stuck_modes :
    (∀ neg, adjW 2 neg 0 (-1) 0 = -1) ∧ adjW 5 true 0 (-1) 0 = -1 ∧ adjW 4 false 0 (-1) 0 = -1 := by
  refine ⟨fun neg => ?_, ?_, ?_⟩
  · cases neg <;> decide
  · decide
  · decide

/-- one pass of the loop body from `(shift = false, sig = 0, trunc = -1, digit = 0)` with decision
    `adjust = -1` is a `continue` (`.yield`) to the same state, only `exp` is incremented. -/
theorem roundBody_zero_stuck (rm : UInt8) (neg : Bool) (o : Option (U128 × Int16)) (exp : Int16)
    (h : adjW rm neg 0 (-1) 0 = -1) :
    roundBody rm neg () (o, false, { w0 := 0, w1 := 0 }, exp, -1, 0)
      = .ok (.yield (none, false, { w0 := 0, w1 := 0 }, exp + 1, -1, 0)) := by
  rw [roundBody_down _ _ _ _ _ _ _ _ h]
  simp only [Bool.false_eq_true, if_false]
  show roundTail false (({ w0 := 0, w1 := 0 } : U128), exp)
    (Gen.U128.sub64 { w0 := 0, w1 := 0 } 1) (-1) 0 = _
  have hs : (Gen.U128.sub64 { w0 := 0, w1 := 0 } 1).toNat = 2 ^ 128 - 1 := by
    rw [U128_sub64_toNat]; rfl
  obtain ⟨q, r, hq, hr, e⟩ := roundTail_carry false (({ w0 := 0, w1 := 0 } : U128), exp)
    (Gen.U128.sub64 { w0 := 0, w1 := 0 } 1) (-1) 0 (by rw [hs]; decide)
  have hq0 : q = { w0 := 0, w1 := 0 } := U128.toNat_inj (by
    rw [hq]; show (U128.mk 0 0).toNat / 10 = (U128.mk 0 0).toNat; rw [zero128_toNat])
  have hr0 : r = 0 := UInt64.toNat_inj.1 (by
    rw [hr]; show (U128.mk 0 0).toNat % 10 = (0 : UInt64).toNat; rw [zero128_toNat]; rfl)
  rw [e, hq0, hr0]
  rfl

/-- hence the loop from that state equals the loop from the same state with `exp+1` … -/
theorem roundLoop_zero_stuck (rm : UInt8) (neg : Bool) (o : Option (U128 × Int16)) (exp : Int16)
    (h : adjW rm neg 0 (-1) 0 = -1) :
    roundLoop rm neg (o, false, { w0 := 0, w1 := 0 }, exp, -1, 0)
      = roundLoop rm neg (none, false, { w0 := 0, w1 := 0 }, exp + 1, -1, 0) := by
  rw [roundLoop_unfold, roundBody_zero_stuck rm neg o exp h]
  rfl

/-- … and so on for any number `k` of passes: the loop never reaches a `return`. -/
theorem round_zero_stuck (rm : UInt8) (neg : Bool) (exp : Int16) (h : adjW rm neg 0 (-1) 0 = -1)
    (k : Nat) :
    Gen.RoundingMode.round rm false neg { w0 := 0, w1 := 0 } exp (-1) 0
      = roundLoop rm neg (none, false, { w0 := 0, w1 := 0 }, exp + Int16.ofNat k, -1, 0) := by
  rw [round_eq_loop]
  induction k with
  | zero =>
    have : exp + Int16.ofNat 0 = exp := by
      apply Int16.toInt_inj.1
      rw [Int16.toInt_add]; simp
    rw [this]
  | succ k ih =>
    rw [ih, roundLoop_zero_stuck rm neg none _ h]
    have : exp + Int16.ofNat k + 1 = exp + Int16.ofNat (k + 1) := by
      apply Int16.toInt_inj.1
      simp only [Int16.toInt_add, Int16.toInt_ofNat]
      simp [Int.add_bmod_bmod, Int.bmod_add_bmod, Int.add_assoc]
    rw [this]

/-- with `shift = true` (the form used by all `reduce*` callers) the first pass sets `exp := 0`,
    clears `shift`, and lands in the stuck state. -/
theorem round_zero_stuck_shift (rm : UInt8) (neg : Bool) (exp : Int16)
    (h : adjW rm neg 0 (-1) 0 = -1) :
    Gen.RoundingMode.round rm true neg { w0 := 0, w1 := 0 } exp (-1) 0
      = roundLoop rm neg (none, false, { w0 := 0, w1 := 0 }, 1, -1, 0) := by
  rw [round_eq_loop, roundLoop_unfold, roundBody_down _ _ _ _ _ _ _ _ h]
  have hp : prescale false { w0 := 0, w1 := 0 } exp = .ok ({ w0 := 0, w1 := 0 }, 0) := by
    unfold prescale
    rw [if_neg (by decide)]
    rfl
  simp only [if_true]
  rw [hp, ok_bind]
  have hs : (Gen.U128.sub64 { w0 := 0, w1 := 0 } 1).toNat = 2 ^ 128 - 1 := by
    rw [U128_sub64_toNat]; rfl
  obtain ⟨q, r, hq, hr, e⟩ := roundTail_carry false (({ w0 := 0, w1 := 0 } : U128), (0 : Int16))
    (Gen.U128.sub64 { w0 := 0, w1 := 0 } 1) (-1) 0 (by rw [hs]; decide)
  have hq0 : q = { w0 := 0, w1 := 0 } := U128.toNat_inj (by
    rw [hq]; show (U128.mk 0 0).toNat / 10 = (U128.mk 0 0).toNat; rw [zero128_toNat])
  have hr0 : r = 0 := UInt64.toNat_inj.1 (by
    rw [hr]; show (U128.mk 0 0).toNat % 10 = (0 : UInt64).toNat; rw [zero128_toNat]; rfl)
  rw [e, hq0, hr0]
  rfl

end D128.Proofs.Total
