/-
  D128/Proofs/LayoutFormat.lean — `Gen.Decimal.format` (Go: `func (d Decimal) format`, /repo/format.go:394)
  cut into its verb arms.

  * `Ly.formatE`, `Ly.formatF`, `Ly.formatG`, `Ly.formatG2`, `Ly.format_E`, `Ly.format_F`, `Ly.format_G` :
        the arms (text copied from the generated source) and `format … = digits ; arm` per verb
  * `Ly.Fin0`       : what `format` knows about the record of `Decimal.digits` for a finite value
  * `Ly.formatE_spec` : `e`/`E`: `Spec.layoutE (roundSlice s (P+1)) P '#' verb 2`, padded
  * `Ly.roundF`, `Ly.formatF_spec` : `f`/`F`: `Spec.layoutF (roundF s P) P '#'`, padded
-/
import D128.Proofs.LayoutRound

set_option autoImplicit false
set_option maxRecDepth 4096

namespace Ly
open Dg Gen

/-- the `e`/`E` arm of `format` (text copied from the generated source) -/
def formatE (digs : digits) (buf : Go.Bytes) (args : formatArgs) (prec : Int64) (hasPrec : Bool) (width : Int64) : Go.GoM (formatArgs × Go.Bytes) := do
  let mut digs : digits := digs
  let mut prec : Int64 := prec
  if (!hasPrec) then
    prec := (6 : Int64)
  let r_5 ← digits.round digs (prec + (1 : Int64))
  digs := r_5
  let (r_6, r_7) ← digits.fmtE digs buf prec width args.forceDP args.printSign args.padSign true args.padRight args.padZero args.verb
  digs := r_6
  return (args, r_7)

/-- the `f`/`F` arm of `format` -/
def formatF (digs : digits) (buf : Go.Bytes) (args : formatArgs) (prec : Int64) (hasPrec : Bool) (width : Int64) : Go.GoM (formatArgs × Go.Bytes) := do
  let mut digs : digits := digs
  let mut prec : Int64 := prec
  if (!hasPrec) then
    prec := (6 : Int64)
  if (decide (digs.exp < (0 : Int64))) then
    let r_8 ← digits.round digs ((digs.ndig + digs.exp) + prec)
    digs := r_8
  let (r_9, r_10) ← digits.fmtF digs buf prec width args.forceDP args.printSign args.padSign args.padRight args.padZero
  digs := r_9
  return (args, r_10)

/-- layout part of the `g`/`G` arm of `format` -/
def formatG2 (digs : digits) (buf : Go.Bytes) (args : formatArgs) (prec maxprec : Int64) (width : Int64) : Go.GoM (formatArgs × Go.Bytes) := do
  let mut digs : digits := digs
  let mut prec : Int64 := prec
  let mut eprec : Int64 := (0 : Int64)
  if (digs.ndig != (0 : Int64)) then
    eprec := (digs.ndig - (1 : Int64))
  let mut exp : Int64 := (digs.exp + eprec)
  if ((decide (exp < (-4 : Int64))) || (decide (exp ≥ maxprec))) then
    let mut e : UInt8 := (101 : UInt8)
    if (args.verb == (71 : UInt8)) then
      e := (69 : UInt8)
    let (r_13, r_14) ← digits.fmtE digs buf (prec - (1 : Int64)) width args.forceDP args.printSign args.padSign true args.padRight args.padZero e
    digs := r_13
    return (args, r_14)
  else
    if args.forceDP then
      prec := (prec - digs.exp)
      if (digs.ndig == (0 : Int64)) then
        prec := (prec - (1 : Int64))
      else
        prec := (prec - digs.ndig)
    else
      prec := (0 : Int64)
      if (decide (digs.exp < (0 : Int64))) then
        prec := (prec - digs.exp)
    let (r_15, r_16) ← digits.fmtF digs buf prec width args.forceDP args.printSign args.padSign args.padRight args.padZero
    digs := r_15
    return (args, r_16)

/-- the `g`/`G` arm of `format`: precision selection and rounding, then `formatG2` -/
def formatG (digs : digits) (buf : Go.Bytes) (args : formatArgs) (prec : Int64) (hasPrec : Bool) (width : Int64) : Go.GoM (formatArgs × Go.Bytes) := do
  let mut digs : digits := digs
  let mut prec : Int64 := prec
  let mut maxprec : Int64 := (0 : Int64)
  if args.forceDP then
    if (!hasPrec) then
      if (decide (digs.ndig < (6 : Int64))) then
        prec := (6 : Int64)
      else
        prec := digs.ndig
      maxprec := (6 : Int64)
    else
      if (prec == (0 : Int64)) then
        prec := (1 : Int64)
      maxprec := prec
    let r_11 ← digits.round digs prec
    digs := r_11
  else
    if hasPrec then
      if (prec == (0 : Int64)) then
        prec := (1 : Int64)
      let r_12 ← digits.round digs prec
      digs := r_12
      maxprec := prec
      prec := digs.ndig
    else
      if (digs.ndig != (0 : Int64)) then
        maxprec := (6 : Int64)
        prec := digs.ndig
      else
        maxprec := (6 : Int64)
  formatG2 digs buf args prec maxprec width

theorem format_E (d : Decimal) (buf : Go.Bytes) (args : formatArgs)
    (hv : args.verb = 101 ∨ args.verb = 69) :
    Decimal.format d buf args = (do
      let r_1 ← Decimal.digits_ d (default : digits)
      formatE r_1 buf args (formatArgs.precision args).1 (formatArgs.precision args).2
        (formatArgs.width args)) := by
  unfold Decimal.format formatE
  rcases hv with h | h <;> simp only [h] <;> rfl

theorem format_F (d : Decimal) (buf : Go.Bytes) (args : formatArgs)
    (hv : args.verb = 102 ∨ args.verb = 70) :
    Decimal.format d buf args = (do
      let r_1 ← Decimal.digits_ d (default : digits)
      formatF r_1 buf args (formatArgs.precision args).1 (formatArgs.precision args).2
        (formatArgs.width args)) := by
  unfold Decimal.format formatF
  rcases hv with h | h <;> simp only [h] <;> rfl

theorem format_G (d : Decimal) (buf : Go.Bytes) (args : formatArgs)
    (hv : args.verb = 103 ∨ args.verb = 71) :
    Decimal.format d buf args = (do
      let r_1 ← Decimal.digits_ d (default : digits)
      formatG r_1 buf args (formatArgs.precision args).1 (formatArgs.precision args).2
        (formatArgs.width args)) := by
  unfold Decimal.format formatG formatG2
  rcases hv with h | h <;> simp only [h] <;> rfl

/-- what `format` knows about the record `Decimal.digits` hands it for a finite value -/
structure Fin0 (r0 : digits) : Prop where
  wf : WF r0
  x0 : -6176 ≤ r0.exp.toInt
  dp : r0.exp.toInt + r0.ndig.toInt ≤ 6146
  z : r0.ndig.toInt = 0 → r0.exp.toInt = 0

theorem Fin0.expOK {r0 : digits} (h : Fin0 r0) : ExpOK r0 := by
  have := h.wf.n0; have := h.x0; have := h.dp
  unfold ExpOK; omega

theorem bind_snd {α : Type} (x : Go.GoM (digits × Go.Bytes)) (d : digits) (r : Go.Bytes) (a : α)
    (h : x = .ok (d, r)) :
    (x >>= fun p => pure (a, p.2) : Go.GoM (α × Go.Bytes)) = .ok (a, r) := by
  rw [h]; rfl

/-- **the `e`/`E` arm**: round to `P + 1` digits, lay out with `P` digits after the point -/
theorem formatE_spec (r0 : digits) (h : Fin0 r0) (buf : Go.Bytes) (args : formatArgs)
    (prec : Int64) (hasPrec : Bool) (width : Int64) (P : Nat)
    (hP : if hasPrec = true then prec.toInt = P else P = 6) (hPb : P < 2 ^ 59)
    (W : Nat) (hW : width.toInt = W) (hW' : W < 2 ^ 62) (hb : buf.size < 2 ^ 61)
    (hprz : args.padRight = true → args.padZero = false) :
    ∃ r, formatE r0 buf args prec hasPrec width = .ok (args, r) ∧
      bstr r = bstr buf ++ padStr args.padRight args.padZero W
        (signStr r0.neg args.printSign args.padSign)
        (Spec.layoutE (Spec.roundSlice (slice r0) (P + 1)) P args.forceDP (chr args.verb) 2) ∧
      NormS (Spec.roundSlice (slice r0) (P + 1)) := by
  have hwf := h.wf
  have hn0 := hwf.n0
  have hn39 := hwf.n39
  have hx0 := h.x0
  have hdp := h.dp
  -- the precision in effect
  obtain ⟨p, hp, hstep⟩ : ∃ p : Int64, p.toInt = P ∧
      formatE r0 buf args prec hasPrec width = (do
        let r_5 ← digits.round r0 (p + 1)
        let x ← digits.fmtE r_5 buf p width args.forceDP args.printSign args.padSign true
          args.padRight args.padZero args.verb
        pure (args, x.2)) := by
    cases hasPrec
    · simp only [Bool.false_eq_true, if_false] at hP
      exact ⟨6, by rw [hP]; decide, rfl⟩
    · simp only [if_true] at hP
      exact ⟨prec, hP, rfl⟩
  have hp1 : (p + 1).toInt = P + 1 := by
    rw [i64_add _ _ (by rw [e1]; omega) (by rw [e1]; omega), hp, e1]
  obtain ⟨r1, hr1, hpost, hshape⟩ := round_shape r0 (p + 1) hwf h.expOK (by omega)
  obtain ⟨hA, hB, hC, hD⟩ := hshape
  have hwf1 : WF r1 := hpost.2.1
  have hneg1 : r1.neg = r0.neg := hpost.1
  have h10 := hwf1.n0
  -- the rounded record denotes the rounded slice
  have hz1 : r1.ndig.toInt = 0 → r0.ndig.toInt = 0 := by
    intro hz; by_contra hne
    have := hC (by omega) (by omega); omega
  have hns := nslice_round r0 (p + 1) r1 (by omega) hpost hwf h.z
  have e : (p + 1).toInt.toNat = P + 1 := by omega
  rw [e] at hns
  have hsl : slice r1 = Spec.roundSlice (slice r0) (P + 1) := by
    rw [← hns]
    unfold nslice
    by_cases hz : r1.ndig.toInt = 0
    · have hr : r1 = r0 := hD (hz1 hz)
      rw [if_pos hz, hr]
      have h00 : r0.ndig.toInt = 0 := hz1 hz
      show (⟨msd r0.dig r0.ndig.toInt.toNat, r0.exp.toInt + r0.ndig.toInt⟩ : Spec.Slice) = _
      rw [h.z h00, h00]; rfl
    · rw [if_neg hz]
  have hexp1 : ExpOK r1 := by
    unfold ExpOK; rcases hA with ⟨_, e⟩ | ⟨_, e⟩ <;> omega
  have hzr : r1.ndig.toInt = 0 → r1.exp.toInt = 0 := by
    intro hz
    rw [hD (hz1 hz)]; exact h.z (hz1 hz)
  have hx : (expOf r1).natAbs < 10000 := by
    unfold expOf
    by_cases h1 : r1.ndig.toInt = 0
    · rw [hzr h1, h1]; decide
    · have := hC (by omega)
      rcases hA with ⟨_, e⟩ | ⟨_, e⟩ <;> split <;> omega
  obtain ⟨r, hr, hstr⟩ := fmtE_layout r1 hwf1 buf p width args.forceDP args.printSign args.padSign
    true args.padRight args.padZero args.verb hexp1 (by omega) (by omega)
    (by rcases hA with ⟨a, _⟩ | ⟨a, _⟩ <;> omega) hzr hx W hW hW' hb hprz
  refine ⟨r, ?_, ?_, ?_⟩
  · rw [hstep, hr1]
    exact bind_snd _ _ _ _ hr
  · rw [hstr, hsl, hneg1]
    have : p.toInt.toNat = P := by omega
    rw [this]; rfl
  · rw [← hns]; exact normS_nslice r1 hwf1

theorem nslice_fin0 (r0 : digits) (h : Fin0 r0) : nslice r0 = slice r0 := by
  unfold nslice
  by_cases hz : r0.ndig.toInt = 0
  · rw [if_pos hz]
    show _ = (⟨msd r0.dig r0.ndig.toInt.toNat, r0.exp.toInt + r0.ndig.toInt⟩ : Spec.Slice)
    rw [h.z hz, hz]; rfl
  · rw [if_neg hz]

/-- the slice the `f` verb prints: rounded at `P` places after the point -/
def roundF (s : Spec.Slice) (P : Nat) : Spec.Slice :=
  if s.dp + (P : Int) < 0 then ⟨[], 0⟩ else Spec.roundSlice s (s.dp + (P : Int)).toNat

/-- **the `f`/`F` arm**: round at `P` places after the point, lay out with `P` fraction digits -/
theorem formatF_spec (r0 : digits) (h : Fin0 r0) (buf : Go.Bytes) (args : formatArgs)
    (prec : Int64) (hasPrec : Bool) (width : Int64) (P : Nat)
    (hP : if hasPrec = true then prec.toInt = P else P = 6) (hPb : P < 2 ^ 57)
    (W : Nat) (hW : width.toInt = W) (hW' : W < 2 ^ 62) (hb : buf.size < 2 ^ 61)
    (hprz : args.padRight = true → args.padZero = false) :
    ∃ r, formatF r0 buf args prec hasPrec width = .ok (args, r) ∧
      bstr r = bstr buf ++ padStr args.padRight args.padZero W
        (signStr r0.neg args.printSign args.padSign)
        (Spec.layoutF (roundF (slice r0) P) P args.forceDP) ∧
      NormS (roundF (slice r0) P) := by
  have hwf := h.wf
  have hn0 := hwf.n0
  have hn39 := hwf.n39
  have hx0 := h.x0
  have hdp := h.dp
  have z0 : (0 : Int64).toInt = 0 := by decide
  obtain ⟨p, hp, hstep⟩ : ∃ p : Int64, p.toInt = P ∧
      formatF r0 buf args prec hasPrec width = (
        if decide (r0.exp < 0) = true then do
          let r_8 ← digits.round r0 (r0.ndig + r0.exp + p)
          let x ← digits.fmtF r_8 buf p width args.forceDP args.printSign args.padSign
            args.padRight args.padZero
          pure (args, x.2)
        else do
          let x ← digits.fmtF r0 buf p width args.forceDP args.printSign args.padSign
            args.padRight args.padZero
          pure (args, x.2)) := by
    cases hasPrec
    · simp only [Bool.false_eq_true, if_false] at hP
      exact ⟨6, by rw [hP]; decide, rfl⟩
    · simp only [if_true] at hP
      exact ⟨prec, hP, rfl⟩
  have hsdp : (slice r0).dp = r0.exp.toInt + r0.ndig.toInt := rfl
  by_cases hneg : r0.exp < 0
  · have hneg' : r0.exp.toInt < 0 := by rw [i64_lt, z0] at hneg; exact hneg
    have hs1 : (r0.ndig + r0.exp).toInt = r0.ndig.toInt + r0.exp.toInt :=
      i64_add _ _ (by omega) (by omega)
    have hnd : (r0.ndig + r0.exp + p).toInt = r0.ndig.toInt + r0.exp.toInt + P := by
      rw [i64_add _ _ (by omega) (by omega), hs1, hp]
    rw [hstep, if_pos (by simpa using hneg)]
    by_cases hlt : r0.ndig.toInt + r0.exp.toInt + (P : Int) < 0
    · -- everything is rounded away
      obtain ⟨r1, hr1, hpost⟩ := round_ok r0 (r0.ndig + r0.exp + p) hwf h.expOK
      obtain ⟨hneg1, hwf1, hB, _⟩ := hpost
      have hr1e := hB (by omega)
      have hnd1 : r1.ndig.toInt = 0 := by rw [hr1e]; exact z0
      have hex1 : r1.exp.toInt = r0.exp.toInt + r0.ndig.toInt := by
        rw [hr1e]; exact i64_add _ _ (by omega) (by omega)
      obtain ⟨r, hr, hstr⟩ := fmtF_layout r1 hwf1 buf p width args.forceDP args.printSign
        args.padSign args.padRight args.padZero (by omega) (by omega) (by omega) (by omega)
        (Or.inl hnd1) W hW hW' hb hprz
      have e1' : nslice r1 = roundF (slice r0) P := by
        unfold nslice roundF
        rw [if_pos hnd1, hsdp, if_pos (by omega)]
      refine ⟨r, ?_, ?_, ?_⟩
      · rw [hr1]; exact bind_snd _ _ _ _ hr
      · rw [hstr, hneg1]
        have : p.toInt.toNat = P := by omega
        rw [e1', this]
      · rw [← e1']; exact normS_nslice r1 hwf1
    · obtain ⟨r1, hr1, hpost, hshape⟩ := round_shape r0 (r0.ndig + r0.exp + p) hwf h.expOK
        (by omega)
      obtain ⟨hA, hB, hC, hD⟩ := hshape
      have hwf1 : WF r1 := hpost.2.1
      have hneg1 : r1.neg = r0.neg := hpost.1
      have h10 := hwf1.n0
      have hns := nslice_round r0 _ r1 (by omega) hpost hwf h.z
      obtain ⟨r, hr, hstr⟩ := fmtF_layout r1 hwf1 buf p width args.forceDP args.printSign
        args.padSign args.padRight args.padZero
        (by rcases hA with ⟨_, e⟩ | ⟨_, e⟩ <;> omega) (by rcases hA with ⟨_, e⟩ | ⟨_, e⟩ <;> omega)
        (by omega) (by omega)
        (by rcases hA with ⟨a, e⟩ | ⟨a, e⟩ <;> right <;> omega) W hW hW' hb hprz
      have e1' : Spec.roundSlice (slice r0) (r0.ndig + r0.exp + p).toInt.toNat = roundF (slice r0) P := by
        unfold roundF
        rw [hsdp, if_neg (by omega), hnd]
        congr 2; omega
      refine ⟨r, ?_, ?_, ?_⟩
      · rw [hr1]; exact bind_snd _ _ _ _ hr
      · rw [hstr, hneg1, hns]
        have : p.toInt.toNat = P := by omega
        rw [e1', this]
      · rw [← e1', ← hns]; exact normS_nslice r1 hwf1
  · have hneg' : 0 ≤ r0.exp.toInt := by rw [i64_lt, z0] at hneg; omega
    rw [hstep, if_neg (by simpa using hneg)]
    obtain ⟨r, hr, hstr⟩ := fmtF_layout r0 hwf buf p width args.forceDP args.printSign
      args.padSign args.padRight args.padZero (by omega) (by omega) (by omega) (by omega)
      (Or.inr (by omega)) W hW hW' hb hprz
    have e1' : slice r0 = roundF (slice r0) P := by
      unfold roundF
      rw [hsdp, if_neg (by omega), roundSlice_of_le]
      show (msd r0.dig r0.ndig.toInt.toNat).length ≤ _
      rw [msd_length]; omega
    refine ⟨r, bind_snd _ _ _ _ hr, ?_, ?_⟩
    · rw [hstr, nslice_fin0 r0 h]
      have : p.toInt.toNat = P := by omega
      rw [this]
      conv_lhs => rw [e1']
    · rw [← e1', ← nslice_fin0 r0 h]; exact normS_nslice r0 hwf

end Ly
