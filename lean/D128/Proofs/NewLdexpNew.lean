/-
  D128/Proofs/NewLdexpNew.lean — `Gen.New` (Go: /repo/decimal.go `func New(sig int64, exp int) Decimal`)
  against `Spec.newVal` (property C11), for all `Int64 × Int64` inputs.

  Provided (namespace `NL`):
  * `New_eq`         : join-point free normal form of `Gen.New`
  * `i64_lt_lit`, `i64_gt_lit` : `decide (e < k)` on `Int64` as a comparison of `toInt`
  * `new_sig_toNat`  : `uint64(|sig|)` (with the wrap-around of `MinInt64 * -1`) is `sig.toInt.natAbs`
  * `new_exp_toInt`  : `int16(exp + 6176)` does not wrap for `-6196 ≤ exp ≤ 6150`
  * `newVal_eq`      : `Spec.newVal` on a non-zero significand
  * `new_mid`        : the path through `reduce64` and `compose`
  * `new_correct`    : `New g sig exp` does not panic and denotes `Spec.newVal m sig exp`
-/
import D128.Proofs.MulQuoMul
import D128.Proofs.CanonFrexp
import D128.Proofs.RoundKernel
import D128.Proofs.NewLdexpSpec
import D128.Gen.Decimal3
set_option autoImplicit false
set_option maxRecDepth 4096
namespace NL
open Gen Spec
local notation "𝔳[" d "]" => Spec.interp (Gen.Decimal.lo d) (Gen.Decimal.hi d)

theorem New_eq (g : Globals) (sig exp : Int64) : Gen.New g sig exp =
    (if sig == 0 then pure (Gen.zero false) else
     if decide (exp < (-6196 : Int64)) then pure (Gen.zero (decide (sig < 0)))
     else if decide (exp > (6150 : Int64)) then pure (Gen.inf (decide (sig < 0)))
     else do
       let r ← Gen.RoundingMode.reduce64 g.DefaultRoundingMode (decide (sig < 0))
          (Go.conv (if decide (sig < 0) then sig * (-1 : Int64) else sig) : UInt64) (Go.conv (exp + (6176 : Int64)) : Int16)
       if decide (r.2 > (12287 : Int16)) = true then pure (Gen.inf (decide (sig < 0)))
       else pure (Gen.compose (decide (sig < 0)) r.1 r.2)) := by
  unfold Gen.New
  by_cases h0 : sig == 0
  · simp [h0]
  · by_cases hn : sig < 0
    · simp [h0, hn]
    · simp [h0, hn]

theorem i64_lt_lit (e k : Int64) : (decide (e < k) = true) ↔ e.toInt < k.toInt := by
  rw [decide_eq_true_iff, Int64.lt_iff_toInt_lt]
theorem i64_gt_lit (e k : Int64) : (decide (e > k) = true) ↔ k.toInt < e.toInt := by
  rw [decide_eq_true_iff, gt_iff_lt, Int64.lt_iff_toInt_lt]

/-- magnitude of the significand as converted by `New` -/
theorem new_sig_toNat (sig : Int64) :
    (Go.conv (if decide (sig < 0) then sig * (-1 : Int64) else sig) : UInt64).toNat = sig.toInt.natAbs := by
  by_cases hn : sig < 0
  · have : sig.toInt < 0 := by rwa [Int64.lt_iff_toInt_lt] at hn
    simp only [hn, decide_true, if_true]
    exact IntConvPf.neg_conv_toNat sig this
  · have : ¬ sig.toInt < 0 := by rwa [Int64.lt_iff_toInt_lt] at hn
    simp only [hn, decide_false, Bool.false_eq_true, if_false]
    exact IntConvPf.pos_conv_toNat sig (by omega)

theorem new_exp_toInt (exp : Int64) (h0 : -6196 ≤ exp.toInt) (h1 : exp.toInt ≤ 6150) :
    (Go.conv (exp + (6176 : Int64)) : Int16).toInt = exp.toInt + 6176 := by
  have e1 : (6176 : Int64).toInt = 6176 := by decide
  have a : (exp + (6176 : Int64)).toInt = exp.toInt + 6176 := by
    rw [Int64.toInt_add, e1]
    exact FrexpPf.i64_bmod _ (by simp only [Int.reducePow]; omega) (by simp only [Int.reducePow]; omega)
  rw [FrexpPf.i64_conv_i16, a] <;> rw [a] <;> simp only [Int.reducePow] <;> omega

theorem newVal_eq (sig : Int64) (m : Spec.Mode) (exp : Int) (h0 : ¬ sig = 0) :
    Spec.newVal m sig.toInt exp
      = Spec.flushOrRoundS m (decide (sig < 0)) (sig.toInt.natAbs : ℚ) exp := by
  have hsi : sig.toInt ≠ 0 := fun h => h0 (Int64.toInt_inj.mp h)
  have z : (0 : Int64).toInt = 0 := by decide
  have hneg : decide (sig < 0) = decide (sig.toInt < 0) := by
    rw [decide_eq_decide, Int64.lt_iff_toInt_lt, z]
  unfold Spec.newVal
  have : (sig.toInt == 0) = false := by simpa using hsi
  rw [this, hneg]
  simp only [Bool.false_eq_true, if_false]

/-- the path through the rounding kernel -/
theorem new_mid (rm : UInt8) (sg : UInt64) (N : Nat) (hsn : sg.toNat = N) (neg : Bool) (exp : Int64)
    (m : Spec.Mode) (hm : Spec.Mode.ofNat? rm.toNat = some m) (h1 : ¬ exp.toInt < -6196)
    (h2 : ¬ 6150 < exp.toInt) :
    ∃ r, (do
        let r ← RoundingMode.reduce64 rm neg sg (Go.conv (exp + (6176 : Int64)) : Int16)
        if decide (r.2 > (12287 : Int16)) = true then pure (Gen.inf neg)
        else pure (Gen.compose neg r.1 r.2) : Go.GoM Gen.Decimal) = .ok r ∧
      (𝔳[r]).same (Spec.flushOrRoundS m neg (N : ℚ) exp.toInt) = true := by
  have hE := new_exp_toInt exp (by omega) (by omega)
  obtain ⟨s', e', hr, hpost⟩ := reduce64_correct rm m neg sg
    (Go.conv (exp + (6176 : Int64)) : Int16) hm (by rw [hE]; omega) (by rw [hE]; omega)
  rw [hr]
  rw [hsn, hE, show exp.toInt + 6176 - 6176 = exp.toInt by omega] at hpost
  exact MQ.finish _ neg (s', e') hpost

/-- **C11, `New`.**  For every `sig`, `exp : Int64` and every valid default rounding mode, `New` does
not panic and returns a Decimal denoting `Spec.newVal m sig exp`: the member of the format that the
mode selects for `sig·10^exp`, a zero of the sign of `sig` below `10^-6177`, `±Inf` above the range,
`+0` for `sig = 0`. -/
theorem new_correct (g : Globals) (sig exp : Int64) (m : Spec.Mode)
    (hm : Spec.Mode.ofNat? g.DefaultRoundingMode.toNat = some m) :
    ∃ r, Gen.New g sig exp = .ok r ∧ (𝔳[r]).same (Spec.newVal m sig.toInt exp.toInt) = true := by
  rw [New_eq]
  by_cases h0 : sig = 0
  · subst h0
    refine ⟨Gen.zero false, by simp only [beq_self_eq_true, if_true]; rfl, ?_⟩
    rw [Enc.interp_zero]
    exact Sp.same_zero _ _ _
  · have hb : (sig == 0) = false := by simpa using h0
    have hsi : sig.toInt ≠ 0 := fun h => h0 (Int64.toInt_inj.mp h)
    rw [newVal_eq sig m _ h0]
    simp only [hb, Bool.false_eq_true, if_false]
    have hN1 : 1 ≤ sig.toInt.natAbs := by omega
    have hN2 : sig.toInt.natAbs < 10 ^ 19 := by
      have := sig.le_toInt; have := sig.toInt_lt
      simp only [Nat.reducePow, Int.reducePow] at *; omega
    have hq : (0 : ℚ) < (sig.toInt.natAbs : ℚ) := by exact_mod_cast hN1
    have hsn := new_sig_toNat sig
    generalize (Go.conv (if decide (sig < 0) then sig * (-1 : Int64) else sig) : UInt64) = sg at hsn
    generalize decide (sig < 0) = neg
    have l1 : (-6196 : Int64).toInt = -6196 := by decide
    have l2 : (6150 : Int64).toInt = 6150 := by decide
    by_cases h1 : exp.toInt < -6196
    · rw [if_pos ((i64_lt_lit _ _).2 (by rw [l1]; exact h1))]
      refine ⟨_, rfl, ?_⟩
      rw [Enc.interp_zero, flushS_tiny_of_lt m neg hq (nat_lt_zpow hN2) (by omega)]
      exact Sp.same_zero _ _ _
    · rw [if_neg (fun h => h1 (by have := (i64_lt_lit _ _).1 h; rwa [l1] at this))]
      by_cases h2 : 6150 < exp.toInt
      · rw [if_pos ((i64_gt_lit _ _).2 (by rw [l2]; exact h2))]
        refine ⟨_, rfl, ?_⟩
        rw [Enc.interp_inf, flushS_huge_of_le m neg hq (a := (0 : Nat)) (zpow_le_nat (by simpa using hN1))
          (by omega)]
        exact Sp.same_refl _
      · rw [if_neg (fun h => h2 (by have := (i64_gt_lit _ _).1 h; rwa [l2] at this))]
        exact new_mid g.DefaultRoundingMode sg _ hsn neg exp m hm h1 h2

/-- `new_correct` on a non-trivial input: `New(-12345, -6190)` under ToNearestEven -/
example := new_correct ⟨0⟩ (-12345) (-6190) .nearestEven rfl

end NL
