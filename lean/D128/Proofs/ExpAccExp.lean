/-
  D128/Proofs/ExpAccExp.lean — property C16: `Gen.Exp` on its whole finite non-zero path, relative to the
  facts `EpowHyp` about `decomposed192.epow` (value against `Real.exp`, size of the significand), which
  ExpAccEpow.lean provides.

  Provided (namespace `ExpAcc`):
  * `argOf d`, `argOf_sig`, `argOf_exp`, `val_argOf`   : the working-format argument of a finite Decimal
  * `EpowFacts a z`, `EpowHyp`                          : what `epow a l10 t = .ok z` must satisfy
  * `expStaged`, `Exp_eq : Gen.Exp g d = expStaged g d := rfl`, `Exp_fin` (guards resolved), `outOfRange`
  * `gv_inf_of_huge`, `gv_zero_of_tiny`, `exp_huge`, `inv_le_Emin`, `outOfRange_ok`, `outOfRange_ok'` : range ends
  * `near_of_rel`, `rcp_near`                           : closeness; the reciprocal of a close working value is close
  * `log_bounds`, `conv_log`, `epowPre_of_guard`, `arg_ge_of_guard` : the guard `dExp ≤ 5 - l10` gives `EpowPre`
  * `absArg`, `X_of_arg`, `absArg_pos`                  : the real argument
  * `Exp_general`                                       : nearest default mode, finite non-zero `d = ±c·10^e`:
        `∃ r, Gen.Exp g d = .ok r ∧ (𝔳[r]).neg = false ∧ ¬ GeneralViolation (Real.exp (X sb c e)) 𝔳[r]`
-/
import D128.Proofs.ExpAccTail
import D128.Proofs.ExpAccReal
import D128.Proofs.Words128Log
import D128.Proofs.EnclosureExact
set_option autoImplicit false
set_option maxRecDepth 4096
set_option exponentiation.threshold 512

namespace ExpAcc
open Gen D192 Spec SpecRound EnclPf
local notation "𝔳[" d "]" => Spec.interp (Gen.Decimal.lo d) (Gen.Decimal.hi d)

/-! ## the argument -/

/-- the working-format argument `|d|` of the exponential functions -/
def argOf (d : Decimal) : decomposed192 :=
  ({ (default : decomposed192) with sig := (U192.mk d.decompose.1.w0 d.decompose.1.w1 (0 : UInt64)), exp := (d.decompose.2 - (6176 : Int16)) } : decomposed192)

theorem argOf_sig (d : Decimal) : (argOf d).sig.toNat = d.decompose.1.toNat := by
  simp [argOf, U192.toNat, U128.toNat]

theorem argOf_exp (d : Decimal) (h1 : Decimal.isSpecial d = false) :
    (argOf d).exp.toInt = d.decompose.2.toInt - 6176 := by
  have h0 := Enc.decompose_exp_nonneg d
  have h2 := Enc.decompose_exp_le d h1
  have h6 : (6176 : Int16).toInt = 6176 := by decide
  show (d.decompose.2 - 6176).toInt = _
  rw [Int16.toInt_sub_of] <;> rw [h6] <;> omega

theorem val_argOf (d : Decimal) (h1 : Decimal.isSpecial d = false) :
    val (argOf d) = (d.decompose.1.toNat : ℚ) * (10 : ℚ) ^ (d.decompose.2.toInt - 6176) := by
  unfold val; rw [argOf_sig, argOf_exp d h1]

/-- facts about a finite non-zero Decimal -/
theorem fin_facts (d : Decimal) (h1 : Decimal.isSpecial d = false) (h2 : Decimal.IsZero d = false) :
    1 ≤ d.decompose.1.toNat ∧ d.decompose.1.toNat ≤ Spec.Cmax ∧ 0 ≤ d.decompose.2.toInt ∧
      d.decompose.2.toInt ≤ 12287 := by
  have hz := Sp.IsZero_eq_sig d
  rw [h2] at hz
  have hne : d.decompose.1.toNat ≠ 0 := by simpa using hz.symm
  exact ⟨by omega, Enc.decompose_sig_le d, Enc.decompose_exp_nonneg d, Enc.decompose_exp_le d h1⟩

/-! ## what is needed from `epow` -/

/-- what the result `z` of `epow a l10 t` satisfies: either the overflow marker with a really huge
exponential, or flag in {0,1} and a value within relative `10^-38` below `e^(val a)` whose significand is `1`
(the value 1 exactly, and then the argument is below `10^-50`) or long -/
def EpowFacts (a : decomposed192) (z : decomposed192 × Int8) : Prop :=
  (z.1 = dinf ∧ (10 : ℝ) ^ (16326 : ℕ) ≤ Real.exp ((val a : ℚ) : ℝ)) ∨
   ((z.2 = 0 ∨ z.2 = 1) ∧
    Real.exp ((val a : ℚ) : ℝ) * (1 - 1 / 10 ^ 38) ≤ ((val z.1 : ℚ) : ℝ) ∧
    ((val z.1 : ℚ) : ℝ) ≤ Real.exp ((val a : ℚ) : ℝ) ∧ 1 / 2 ≤ val z.1 ∧
    (z.1 = D192.one ∨ 10 ^ 55 ≤ z.1.sig.toNat) ∧ (z.1 = D192.one → val a < 1 / 10 ^ 50))

/-- the hypothesis on `epow` (proved in ExpAccEpow.lean) -/
def EpowHyp : Prop :=
  ∀ (a : decomposed192) (l10 : Int16) (t : Int8), EpowPre a l10 →
    l10.toInt = Nat.log 10 a.sig.toNat → (t = 0 ∨ t = 1) →
    ∃ z, decomposed192.epow a l10 t = .ok z ∧ EpowFacts a z

/-! ## the staged form -/

def expStaged (g : Globals) (d : Decimal) : Go.GoM Decimal := do
  if (Decimal.isSpecial d) then
    if (Decimal.IsNaN d) then
      return d
    if (Decimal.Signbit d) then
      return (zero false)
    return (inf false)
  if (Decimal.IsZero d) then
    return (one false)
  let (r_1, r_2) := Decimal.decompose d
  let mut dSig : U128 := r_1
  let mut dExp : Int16 := r_2
  dExp := (dExp - (6176 : Int16))
  let t_3 ← U128.log10 dSig
  let mut l10 : Int64 := t_3
  if (decide ((Go.conv dExp : Int64) > ((5 : Int64) - l10))) then
    if (Decimal.Signbit d) then
      return (zero false)
    return (inf false)
  let (r_4, r_5) ← decomposed192.epow ({ (default : decomposed192) with sig := (U192.mk dSig.w0 dSig.w1 (0 : UInt64)), exp := dExp } : decomposed192) (Go.conv l10 : Int16) (0 : Int8)
  let mut res : decomposed192 := r_4
  let mut trunc : Int8 := r_5
  if (decide (res.exp > (6169 : Int16))) then
    if (Decimal.Signbit d) then
      return (zero false)
    return (inf false)
  expTail g (Decimal.Signbit d) res trunc

theorem Exp_eq (g : Globals) (d : Decimal) : Gen.Exp g d = expStaged g d := rfl

/-- the early-out value of the three functions -/
def outOfRange (sb : Bool) : Decimal := if sb then zero false else inf false

/-- `Gen.Exp` on a finite non-zero argument, with the integer comparisons resolved -/
theorem Exp_fin (g : Globals) (d : Decimal) (h1 : Decimal.isSpecial d = false) (h2 : Decimal.IsZero d = false) :
    Gen.Exp g d =
      if ((d.decompose.2.toInt - 6176) > 5 - (Nat.log 10 d.decompose.1.toNat : Int)) then
        .ok (outOfRange (Decimal.Signbit d))
      else decomposed192.epow (argOf d) (Go.conv (Int64.ofNat (Nat.log 10 d.decompose.1.toNat)) : Int16) 0 >>= fun z =>
        if z.1.exp.toInt > 6169 then .ok (outOfRange (Decimal.Signbit d))
        else expTail g (Decimal.Signbit d) z.1 z.2 := by
  rw [Exp_eq]
  unfold expStaged
  simp only [h1, h2, if_false, Bool.false_eq_true]
  rw [U128_log10_eq]
  have hk := Nat.log10_lt_39_of_lt d.decompose.1.toNat d.decompose.1.toNat_lt
  have hl : (Int64.ofNat (Nat.log 10 d.decompose.1.toNat)).toInt = Nat.log 10 d.decompose.1.toNat :=
    Int64.toInt_ofNat_small _ (by omega)
  have he := argOf_exp d h1
  have hc : (Go.conv (d.decompose.2 - 6176) : Int64).toInt = d.decompose.2.toInt - 6176 := by
    rw [conv_i16_i64]; exact he
  have h5 : ((5 : Int64) - Int64.ofNat (Nat.log 10 d.decompose.1.toNat)).toInt
      = 5 - (Nat.log 10 d.decompose.1.toNat : Int) := by
    rw [Int64.toInt_sub, hl]
    have : (5 : Int64).toInt = 5 := by decide
    rw [this]
    apply Int.bmod_eq_of_le <;> omega
  have hg : (decide ((Go.conv (d.decompose.2 - 6176) : Int64) > (5 : Int64) - Int64.ofNat (Nat.log 10 d.decompose.1.toNat)) = true)
      ↔ (d.decompose.2.toInt - 6176) > 5 - (Nat.log 10 d.decompose.1.toNat : Int) := by
    rw [decide_eq_true_eq, gt_iff_lt, Int64.lt_iff_toInt_lt, h5, hc]
  show (Except.ok _ >>= _) = _
  simp only [RK.ok_bind]
  by_cases hgd : (d.decompose.2.toInt - 6176) > 5 - (Nat.log 10 d.decompose.1.toNat : Int)
  · rw [if_pos hgd]
    simp only [hg.2 hgd, if_true]
    unfold outOfRange
    cases Decimal.Signbit d <;> rfl
  · rw [if_neg hgd]
    have : ¬ (decide ((Go.conv (d.decompose.2 - 6176) : Int64) > (5 : Int64) - Int64.ofNat (Nat.log 10 d.decompose.1.toNat)) = true) :=
      fun h => hgd (hg.1 h)
    simp only [this]
    show (decomposed192.epow (argOf d) _ 0 >>= _) = _
    refine congrArg _ (funext fun z => ?_)
    have h69 : (decide (z.1.exp > (6169 : Int16)) = true) ↔ z.1.exp.toInt > 6169 := by
      rw [decide_eq_true_eq, gt_iff_lt, Int16.lt_iff_toInt_lt]; simp
    by_cases hz : z.1.exp.toInt > 6169
    · rw [if_pos hz]
      simp only [h69.2 hz, if_true]
      unfold outOfRange
      cases Decimal.Signbit d <;> rfl
    · rw [if_neg hz]
      have : ¬ (decide (z.1.exp > (6169 : Int16)) = true) := fun h => hz (h69.1 h)
      simp only [this]
      rfl

/-! ## range ends -/

theorem gv_inf_of_huge {F : ℝ} (h : (10 : ℝ) ^ (6150 : ℕ) ≤ F) : ¬ GeneralViolation F (.inf false) := by
  have hF : 0 < F := lt_of_lt_of_le (by positivity) h
  show ¬ ((false = true ↔ 0 < F) ∨ |F| < (10 : ℝ) ^ (Emax + 30) ∨
    |F| + (10 : ℝ) ^ (ulpExp |F|) < (Cmax : ℝ) * (10 : ℝ) ^ Emax)
  rw [abs_of_pos hF]
  have e1 : (10 : ℝ) ^ (Emax + 30) = (10 : ℝ) ^ (6141 : ℕ) := by
    rw [← zpow_natCast]; unfold Spec.Emax; norm_num
  have e2 : (10 : ℝ) ^ Emax = (10 : ℝ) ^ (6111 : ℕ) := by
    rw [← zpow_natCast]; unfold Spec.Emax; norm_num
  have hC : (Cmax : ℝ) ≤ (10 : ℝ) ^ (35 : ℕ) := by
    have := Cmax1_val; rw [show (Cmax : ℝ) = 10 * 2 ^ 110 - 1 by linarith]; norm_num
  have h41 : (10 : ℝ) ^ (6141 : ℕ) ≤ (10 : ℝ) ^ (6150 : ℕ) := pow_le_pow_right₀ (by norm_num) (by norm_num)
  have h46 : (10 : ℝ) ^ (35 : ℕ) * (10 : ℝ) ^ (6111 : ℕ) ≤ (10 : ℝ) ^ (6150 : ℕ) := by
    rw [← pow_add]; exact pow_le_pow_right₀ (by norm_num) (by norm_num)
  have hu : (0 : ℝ) < (10 : ℝ) ^ (ulpExp F) := zpow_pos (by norm_num) _
  have hCm : (Cmax : ℝ) * (10 : ℝ) ^ (6111 : ℕ) ≤ (10 : ℝ) ^ (35 : ℕ) * (10 : ℝ) ^ (6111 : ℕ) :=
    mul_le_mul_of_nonneg_right hC (by positivity)
  rw [e1, e2]
  generalize (10 : ℝ) ^ (6150 : ℕ) = a at *
  generalize (10 : ℝ) ^ (6141 : ℕ) = b at *
  generalize (10 : ℝ) ^ (35 : ℕ) * (10 : ℝ) ^ (6111 : ℕ) = c at *
  generalize (Cmax : ℝ) * (10 : ℝ) ^ (6111 : ℕ) = c' at *
  generalize (10 : ℝ) ^ (ulpExp F) = u at *
  rintro (h' | h' | h')
  · simp only [Bool.false_eq_true, false_iff, not_lt] at h'; linarith
  · linarith
  · linarith

theorem gv_zero_of_tiny {F : ℝ} (h0 : 0 < F) (h : F ≤ (10 : ℝ) ^ Emin) (n : Bool) (e : Int) :
    ¬ GeneralViolation F (.fin n 0 e) := by
  show ¬ ((10 : ℝ) ^ (ulpExp |F|) < |F|)
  rw [abs_of_pos h0, not_lt]
  exact le_trans h (pow_Emin_le_ulp h0)

/-- `e^A` for `A ≥ 10^6` -/
theorem exp_huge {A : ℝ} (h : (10 : ℝ) ^ (6 : ℕ) ≤ A) : (10 : ℝ) ^ (17000 : ℕ) < Real.exp A :=
  exp_gt_of_ge (by have : (40000 : ℝ) ≤ (10 : ℝ) ^ (6 : ℕ) := by norm_num
                   linarith)

theorem pow_6200_le_17000 : (10 : ℝ) ^ (6200 : ℕ) ≤ (10 : ℝ) ^ (17000 : ℕ) :=
  pow_le_pow_right₀ (by norm_num) (by norm_num)

theorem inv_le_Emin {T : ℝ} (h : (10 : ℝ) ^ (6176 : ℕ) ≤ T) : 1 / T ≤ (10 : ℝ) ^ Emin := by
  have hT : 0 < T := lt_of_lt_of_le (by positivity) h
  have e : (10 : ℝ) ^ Emin = 1 / (10 : ℝ) ^ (6176 : ℕ) := by
    unfold Spec.Emin
    rw [show (-6176 : Int) = -((6176 : ℕ) : Int) by norm_num, zpow_neg, zpow_natCast, one_div]
  rw [e]
  exact one_div_le_one_div_of_le (by positivity) h

/-! ## closeness -/

theorem near_of_rel {V : ℚ} {T : ℝ} (hT : 0 < T) (h1 : T * (1 - 1 / 10 ^ 36) ≤ (V : ℝ))
    (h2 : (V : ℝ) ≤ T * (1 + 1 / 10 ^ 36)) : Near V T := by
  unfold Near
  have : |(V : ℝ) - T| ≤ T * (1 / 10 ^ 36) := by
    rw [abs_le]; constructor <;> nlinarith
  calc |(V : ℝ) - T| * (3 * 10 ^ 34) ≤ T * (1 / 10 ^ 36) * (3 * 10 ^ 34) :=
        mul_le_mul_of_nonneg_right this (by norm_num)
    _ = T * (3 / 10 ^ 2) := by ring
    _ ≤ T := by nlinarith

/-- the reciprocal of a working value close to `T > 0` is close to `1/T` -/
theorem rcp_near (z : decomposed192) (t : Int8) (T : ℝ) (hT0 : 0 < T)
    (hz1 : T * (1 - 1 / 10 ^ 37) ≤ ((val z : ℚ) : ℝ)) (hz2 : ((val z : ℚ) : ℝ) ≤ T * (1 + 1 / 10 ^ 37))
    (he0 : -16000 ≤ z.exp.toInt) (he1 : z.exp.toInt ≤ 16000) :
    ∃ r t', decomposed192.rcp z t = .ok (r, t') ∧ Near (val r) (1 / T) ∧ 1 ≤ r.sig.toNat ∧
      -57 - z.exp.toInt - 61 ≤ r.exp.toInt ∧ r.exp.toInt ≤ -57 - z.exp.toInt + 1 ∧ (t' = t ∨ t' = 1) := by
  have hvz : (0 : ℝ) < ((val z : ℚ) : ℝ) := lt_of_lt_of_le (by nlinarith) hz1
  have hvzq : 0 < val z := by exact_mod_cast hvz
  have hsig : z.sig.toNat ≠ 0 := by
    intro h; unfold val at hvzq; rw [h] at hvzq; simp at hvzq
  obtain ⟨r, t', d', hr, hd0, hd1, hd2, -, c1, c2, c3, c4, c5, c6, c7, c8⟩ := rcp_contract z t hsig ⟨he0, he1⟩
  refine ⟨r, t', hr, ?_, c6, c7, c8, ?_⟩
  · -- value
    have hlow : (1 / d') * (1 - theta) ≤ val r :=
      lower_of_sig r (1 / d') theta LIM (by unfold LIM; norm_num) theta_pos theta_LIM c1 c2 c5
    have hd0r : (0 : ℝ) < (d' : ℝ) := by exact_mod_cast hd0
    have hd1r : (d' : ℝ) ≤ ((val z : ℚ) : ℝ) := by exact_mod_cast hd1
    have hd2r : ((val z : ℚ) : ℝ) ≤ (d' : ℝ) * (1 + 1 / 2 ^ 185) := by
      have : ((val z : ℚ) : ℝ) ≤ ((d' * (1 + 1 / 2 ^ 185) : ℚ) : ℝ) := by exact_mod_cast hd2
      push_cast at this; exact this
    have hlowr : (1 / (d' : ℝ)) * (1 - ((theta : ℚ) : ℝ)) ≤ ((val r : ℚ) : ℝ) := by
      have : (((1 / d') * (1 - theta) : ℚ) : ℝ) ≤ ((val r : ℚ) : ℝ) := by exact_mod_cast hlow
      push_cast at this; exact this
    have hupr : ((val r : ℚ) : ℝ) ≤ 1 / (d' : ℝ) := by
      have : ((val r : ℚ) : ℝ) ≤ ((1 / d' : ℚ) : ℝ) := by exact_mod_cast c1
      push_cast at this; exact this
    rw [theta_real] at hlowr
    -- 1/(T(1+1e-37)) ≤ 1/d' ≤ (1+2^-185)/(T(1-1e-37))
    have hTu : (0 : ℝ) < T * (1 + 1 / 10 ^ 37) := by positivity
    have hinv1 : 1 / (T * (1 + 1 / 10 ^ 37)) ≤ 1 / (d' : ℝ) := one_div_le_one_div_of_le hd0r (le_trans hd1r hz2)
    have hd'lo : T * (1 - 1 / 10 ^ 37) / (1 + 1 / 2 ^ 185) ≤ (d' : ℝ) := by
      rw [div_le_iff₀ (by positivity)]; linarith
    have hpos : (0 : ℝ) < T * (1 - 1 / 10 ^ 37) / (1 + 1 / 2 ^ 185) := by
      apply div_pos _ (by positivity); nlinarith
    have hinv2 : 1 / (d' : ℝ) ≤ 1 / (T * (1 - 1 / 10 ^ 37) / (1 + 1 / 2 ^ 185)) :=
      one_div_le_one_div_of_le hpos hd'lo
    have e3 : 1 / (T * (1 - 1 / 10 ^ 37) / (1 + 1 / 2 ^ 185))
        = (1 / T) * ((1 + 1 / 2 ^ 185) / (1 - 1 / 10 ^ 37)) := by
      field_simp
    have e4 : 1 / (T * (1 + 1 / 10 ^ 37)) = (1 / T) * (1 / (1 + 1 / 10 ^ 37)) := by
      field_simp
    have hfac : ((1 + 1 / 2 ^ 185) / (1 - 1 / 10 ^ 37) : ℝ) ≤ 1 + 1 / 10 ^ 36 := by
      rw [div_le_iff₀ (by norm_num)]; norm_num
    have hfac2 : (1 - 1 / 10 ^ 36 : ℝ) ≤ (1 / (1 + 1 / 10 ^ 37)) * (1 - 1 / 10 ^ 56) := by
      rw [div_mul_eq_mul_div, one_mul, le_div_iff₀ (by norm_num)]; norm_num
    have hT' : (0 : ℝ) < 1 / T := by positivity
    apply near_of_rel hT'
    · calc 1 / T * (1 - 1 / 10 ^ 36) ≤ 1 / T * ((1 / (1 + 1 / 10 ^ 37)) * (1 - 1 / 10 ^ 56)) :=
            mul_le_mul_of_nonneg_left hfac2 hT'.le
        _ = 1 / (T * (1 + 1 / 10 ^ 37)) * (1 - 1 / 10 ^ 56) := by rw [e4]; ring
        _ ≤ 1 / (d' : ℝ) * (1 - 1 / 10 ^ 56) := mul_le_mul_of_nonneg_right hinv1 (by norm_num)
        _ ≤ _ := hlowr
    · calc ((val r : ℚ) : ℝ) ≤ 1 / (d' : ℝ) := hupr
        _ ≤ (1 / T) * ((1 + 1 / 2 ^ 185) / (1 - 1 / 10 ^ 37)) := by rw [← e3]; exact hinv2
        _ ≤ 1 / T * (1 + 1 / 10 ^ 36) := mul_le_mul_of_nonneg_left hfac hT'.le
  · by_cases hc : val r = 1 / d' ∧ d' = val z
    · left; exact c3 hc
    · right; exact c4 hc

/-! ## the precondition of `epow` -/

theorem log_bounds (c : Nat) (hc : 1 ≤ c) :
    ((10 : ℚ) ^ (Nat.log 10 c : Int) ≤ (c : ℚ)) ∧ (c : ℚ) < (10 : ℚ) ^ ((Nat.log 10 c : Int) + 1) := by
  have h1 := Nat.pow_log_le_self 10 (x := c) (by omega)
  have h2 := Nat.lt_pow_succ_log_self (b := 10) (by norm_num) c
  constructor
  · rw [zpow_natCast]; exact_mod_cast h1
  · rw [show ((Nat.log 10 c : Int) + 1) = ((Nat.log 10 c + 1 : ℕ) : Int) by push_cast; ring, zpow_natCast]
    exact_mod_cast h2

theorem conv_log (c : Nat) (hc : c < 2 ^ 128) :
    (Go.conv (Int64.ofNat (Nat.log 10 c)) : Int16).toInt = Nat.log 10 c := by
  have hk := Nat.log10_lt_39_of_lt c hc
  have hl : (Int64.ofNat (Nat.log 10 c)).toInt = Nat.log 10 c := Int64.toInt_ofNat_small _ (by omega)
  have hs : Int16.size = 65536 := rfl
  simp only [Go.conv, Go.GoInt.ofInt, Go.GoInt.toInt, Int16.toInt_ofInt, hs, hl]
  apply Int.bmod_eq_of_le <;> omega

/-- the guard `dExp ≤ 5 - l10` of `Exp`, `Exp2`, `Expm1` gives the precondition of `epow` -/
theorem epowPre_of_guard (d : Decimal) (h1 : Decimal.isSpecial d = false) (h2 : Decimal.IsZero d = false)
    (hg : ¬ ((d.decompose.2.toInt - 6176) > 5 - (Nat.log 10 d.decompose.1.toNat : Int))) :
    EpowPre (argOf d) (Go.conv (Int64.ofNat (Nat.log 10 d.decompose.1.toNat)) : Int16) := by
  obtain ⟨hc1, hcC, he0, he1⟩ := fin_facts d h1 h2
  have hk := Nat.log10_lt_39_of_lt d.decompose.1.toNat d.decompose.1.toNat_lt
  have hl := conv_log d.decompose.1.toNat d.decompose.1.toNat_lt
  have hs := argOf_sig d
  have he := argOf_exp d h1
  obtain ⟨hb1, hb2⟩ := log_bounds d.decompose.1.toNat hc1
  set c := d.decompose.1.toNat with hc
  set L := Nat.log 10 c with hL
  refine ⟨by rw [hs]; omega, by rw [he]; omega, by rw [he]; omega, by rw [hl]; omega, by rw [hl]; omega, ?_, ?_⟩
  · unfold epowE; rw [he, hl]; omega
  · unfold epowX epowE
    rw [he, hl, hs]
    split
    · rename_i hneg
      rw [val_argOf d h1]
      have h10 : (10 : ℚ) ^ (d.decompose.2.toInt - 6176) ≤ (10 : ℚ) ^ (-(L : Int) - 1) :=
        zpow_le_zpow_right₀ (by norm_num) (by omega)
      have hp : (0 : ℚ) < (10 : ℚ) ^ (-(L : Int) - 1) := zpow_pos (by norm_num) _
      have hpe : (0 : ℚ) < (10 : ℚ) ^ (d.decompose.2.toInt - 6176) := zpow_pos (by norm_num) _
      have hcq : (0 : ℚ) ≤ (c : ℚ) := Nat.cast_nonneg _
      have e1 : (10 : ℚ) ^ ((L : Int) + 1) * (10 : ℚ) ^ (-(L : Int) - 1) = 1 := by
        rw [← zpow_add₀ (by norm_num)]; norm_num
      calc (c : ℚ) * (10 : ℚ) ^ (d.decompose.2.toInt - 6176)
          ≤ (c : ℚ) * (10 : ℚ) ^ (-(L : Int) - 1) := mul_le_mul_of_nonneg_left h10 hcq
        _ ≤ (10 : ℚ) ^ ((L : Int) + 1) * (10 : ℚ) ^ (-(L : Int) - 1) :=
            mul_le_mul_of_nonneg_right hb2.le hp.le
        _ = 1 := e1
    · have hp : (0 : ℚ) < (10 : ℚ) ^ (-(L : Int) - 1) := zpow_pos (by norm_num) _
      have e1 : (10 : ℚ) ^ ((L : Int) + 1) * (10 : ℚ) ^ (-(L : Int) - 1) = 1 := by
        rw [← zpow_add₀ (by norm_num)]; norm_num
      calc (c : ℚ) * (10 : ℚ) ^ (-(L : Int) - 1)
          ≤ (10 : ℚ) ^ ((L : Int) + 1) * (10 : ℚ) ^ (-(L : Int) - 1) :=
            mul_le_mul_of_nonneg_right hb2.le hp.le
        _ = 1 := e1

/-- a taken guard means `|x| ≥ 10^(5+1)` -/
theorem arg_ge_of_guard (d : Decimal) (h1 : Decimal.isSpecial d = false) (h2 : Decimal.IsZero d = false)
    (k : Nat) (hg : (d.decompose.2.toInt - 6176) > (k : Int) - (Nat.log 10 d.decompose.1.toNat : Int)) :
    (10 : ℚ) ^ (k + 1) ≤ val (argOf d) := by
  obtain ⟨hc1, hcC, he0, he1⟩ := fin_facts d h1 h2
  obtain ⟨hb1, hb2⟩ := log_bounds d.decompose.1.toNat hc1
  rw [val_argOf d h1]
  have hpe : (0 : ℚ) < (10 : ℚ) ^ (d.decompose.2.toInt - 6176) := zpow_pos (by norm_num) _
  have h10 : (10 : ℚ) ^ (((k : Int) + 1) - (Nat.log 10 d.decompose.1.toNat : Int))
      ≤ (10 : ℚ) ^ (d.decompose.2.toInt - 6176) := zpow_le_zpow_right₀ (by norm_num) (by omega)
  have e1 : (10 : ℚ) ^ (k + 1) = (10 : ℚ) ^ ((Nat.log 10 d.decompose.1.toNat : Int))
      * (10 : ℚ) ^ (((k : Int) + 1) - (Nat.log 10 d.decompose.1.toNat : Int)) := by
    rw [← zpow_add₀ (by norm_num), ← zpow_natCast]; congr 1; push_cast; ring
  rw [e1]
  exact mul_le_mul hb1 h10 (zpow_pos (by norm_num) _).le (Nat.cast_nonneg _)

/-! ## the real argument -/

/-- `|x|` as a real number -/
noncomputable def absArg (d : Decimal) : ℝ := ((val (argOf d) : ℚ) : ℝ)

theorem X_of_arg (d : Decimal) (h1 : Decimal.isSpecial d = false) :
    X (Decimal.Signbit d) d.decompose.1.toNat (d.decompose.2.toInt - 6176)
      = if Decimal.Signbit d then -absArg d else absArg d := by
  rw [X_eq]; unfold absArg; rw [val_argOf d h1]; push_cast; rfl

theorem absArg_pos (d : Decimal) (h1 : Decimal.isSpecial d = false) (h2 : Decimal.IsZero d = false) :
    0 < absArg d := by
  obtain ⟨hc1, -, -, -⟩ := fin_facts d h1 h2
  unfold absArg; rw [val_argOf d h1]
  have : (0 : ℚ) < (d.decompose.1.toNat : ℚ) * (10 : ℚ) ^ (d.decompose.2.toInt - 6176) :=
    mul_pos (by exact_mod_cast hc1) (zpow_pos (by norm_num) _)
  exact_mod_cast this

/-- the out-of-range value is right when `e^|x| ≥ 10^6150` (positive argument: `+Inf`) resp.
`e^|x| ≥ 10^6176` (negative argument: `+0`) -/
theorem outOfRange_ok' (sb : Bool) (A : ℝ) (hinf : sb = false → (10 : ℝ) ^ (6150 : ℕ) ≤ Real.exp A)
    (hzero : sb = true → (10 : ℝ) ^ (6176 : ℕ) ≤ Real.exp A) :
    (𝔳[outOfRange sb]).neg = false ∧
      ¬ GeneralViolation (Real.exp (if sb then -A else A)) 𝔳[outOfRange sb] := by
  cases sb
  · simp only [outOfRange, Bool.false_eq_true, if_false]
    rw [Enc.interp_inf]
    exact ⟨rfl, gv_inf_of_huge (hinf rfl)⟩
  · simp only [outOfRange, if_true]
    rw [Enc.interp_zero]
    refine ⟨rfl, gv_zero_of_tiny (Real.exp_pos _) ?_ _ _⟩
    rw [Real.exp_neg, ← one_div]
    exact inv_le_Emin (hzero rfl)

theorem outOfRange_ok (sb : Bool) (A : ℝ) (h : (10 : ℝ) ^ (6200 : ℕ) ≤ Real.exp A) :
    (𝔳[outOfRange sb]).neg = false ∧
      ¬ GeneralViolation (Real.exp (if sb then -A else A)) 𝔳[outOfRange sb] :=
  outOfRange_ok' sb A (fun _ => le_trans (pow_le_pow_right₀ (by norm_num) (by norm_num)) h)
    (fun _ => le_trans (pow_le_pow_right₀ (by norm_num) (by norm_num)) h)

theorem dinf_exp : dinf.exp.toInt = 32767 := by decide
theorem one_ne_big (z : decomposed192) (h : z.exp.toInt > 6169) : z ≠ D192.one := by
  intro hz; rw [hz, one_exp] at h; omega

/-- **`Gen.Exp` on a finite non-zero argument** (nearest default mode), relative to `EpowHyp`: no panic; the
result is non-negative and is not a `GeneralViolation` for `e^x`: finite results are within one unit in the
last place of `e^x`, `+Inf` / `+0` are returned only beyond the range. -/
theorem Exp_general (H : EpowHyp) (g : Globals) (m : Spec.Mode)
    (hm : Spec.Mode.ofNat? g.DefaultRoundingMode.toNat = some m) (hn : isNearest m = true)
    (d : Decimal) (h1 : Decimal.isSpecial d = false) (h2 : Decimal.IsZero d = false) :
    ∃ r, Gen.Exp g d = .ok r ∧ (𝔳[r]).neg = false ∧
      ¬ GeneralViolation
        (Real.exp (X (Decimal.Signbit d) d.decompose.1.toNat (d.decompose.2.toInt - 6176))) 𝔳[r] := by
  rw [Exp_fin g d h1 h2, X_of_arg d h1]
  have hA := absArg_pos d h1 h2
  by_cases hg : (d.decompose.2.toInt - 6176) > 5 - (Nat.log 10 d.decompose.1.toNat : Int)
  · -- |x| ≥ 10^6
    rw [if_pos hg]
    have hge := arg_ge_of_guard d h1 h2 5 (by exact_mod_cast hg)
    have hge' : (10 : ℝ) ^ (6 : ℕ) ≤ absArg d := by
      unfold absArg
      have : (((10 : ℚ) ^ (5 + 1) : ℚ) : ℝ) ≤ ((val (argOf d) : ℚ) : ℝ) := by exact_mod_cast hge
      push_cast at this; exact this
    have := exp_huge hge'
    exact ⟨_, rfl, outOfRange_ok _ _ (le_trans pow_6200_le_17000 this.le)⟩
  · rw [if_neg hg]
    have hpre := epowPre_of_guard d h1 h2 hg
    obtain ⟨z, hz, hfacts⟩ := H (argOf d) _ 0 hpre
      (by rw [conv_log _ d.decompose.1.toNat_lt, argOf_sig]) (Or.inl rfl)
    rw [hz]
    show ∃ r, (if z.1.exp.toInt > 6169 then _ else _) = Except.ok r ∧ _
    by_cases hbig : z.1.exp.toInt > 6169
    · -- the working exponent is beyond the range
      rw [if_pos hbig]
      refine ⟨_, rfl, outOfRange_ok _ _ ?_⟩
      rcases hfacts with ⟨-, hh⟩ | ⟨-, -, hv2, hv1, hsz, -⟩
      · exact le_trans (pow_le_pow_right₀ (by norm_num) (by norm_num)) hh
      · have hsz' : 10 ^ 55 ≤ z.1.sig.toNat := hsz.resolve_left (one_ne_big z.1 hbig)
        -- val z ≥ 10^55·10^6170
        have hval : (10 : ℚ) ^ (6200 : ℕ) ≤ val z.1 := by
          unfold val
          have hs : ((10 : ℚ) ^ (55 : ℕ)) ≤ (z.1.sig.toNat : ℚ) := by exact_mod_cast hsz'
          have hp : (10 : ℚ) ^ (6170 : Int) ≤ (10 : ℚ) ^ z.1.exp.toInt :=
            zpow_le_zpow_right₀ (by norm_num) (by omega)
          have e : (10 : ℚ) ^ (6200 : ℕ) ≤ (10 : ℚ) ^ (55 : ℕ) * (10 : ℚ) ^ (6170 : Int) := by
            rw [← zpow_natCast, ← zpow_natCast, ← zpow_add₀ (by norm_num)]
            exact zpow_le_zpow_right₀ (by norm_num) (by norm_num)
          exact le_trans e (mul_le_mul hs hp (zpow_pos (by norm_num) _).le (Nat.cast_nonneg _))
        have : (((10 : ℚ) ^ (6200 : ℕ) : ℚ) : ℝ) ≤ ((val z.1 : ℚ) : ℝ) := by exact_mod_cast hval
        push_cast at this
        exact le_trans this hv2
    · rw [if_neg hbig]
      -- the overflow marker has a huge exponent
      rcases hfacts with ⟨hd, -⟩ | ⟨hflag, hv1, hv2, hv3, hsz, -⟩
      · rw [hd, dinf_exp] at hbig; omega
      have hT1 : 1 ≤ Real.exp (absArg d) := Real.one_le_exp hA.le
      have hT0 : 0 < Real.exp (absArg d) := Real.exp_pos _
      have hs1 : 1 ≤ z.1.sig.toNat := sig_pos_of_val_pos z.1 (by linarith)
      have hexp0 : -58 ≤ z.1.exp.toInt := exp_ge_of_val z.1 (by linarith)
      have hv1' : Real.exp (absArg d) * (1 - 1 / 10 ^ 38) ≤ ((val z.1 : ℚ) : ℝ) := hv1
      have hv2' : ((val z.1 : ℚ) : ℝ) ≤ Real.exp (absArg d) := hv2
      cases hsb : Decimal.Signbit d
      · -- positive argument
        simp only [Bool.false_eq_true, if_false]
        rw [expTail_pos]
        exact expRound_ok g m hm hn false z.1 z.2 _ hT0 hs1 (by omega) (by omega) hflag
          (near_of_rel hT0 (by nlinarith) (by nlinarith)) (fun h => absurd h (by decide))
      · -- negative argument: the reciprocal
        simp only [if_true]
        rw [expTail_neg]
        obtain ⟨r, t', hr, hnear, hrs, hre0, hre1, hrt⟩ := rcp_near z.1 z.2 _ hT0 (by nlinarith) (by nlinarith) (by omega) (by omega)
        rw [show z.1.rcp z.2 = Except.ok (r, t') from hr]
        show ∃ r', expRound g true r t' = Except.ok r' ∧ _
        have hT' : Real.exp (-absArg d) = 1 / Real.exp (absArg d) := by rw [Real.exp_neg, one_div]
        rw [hT']
        refine expRound_ok g m hm hn true r t' _ (by positivity) hrs (by omega) (by omega) ?_ hnear ?_
        · rcases hrt with h | h
          · rw [h]; exact hflag
          · right; exact h
        · intro _
          rw [div_lt_one hT0]
          exact Real.one_lt_exp_iff.2 hA

end ExpAcc
