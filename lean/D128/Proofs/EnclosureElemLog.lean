/-
  Soundness of the enclosure oracle, part 8: `Spec.trueValue` for the logarithm family.

  The certified logarithm `Encl.log` starts from a `Float` guess (opaque to the kernel); nothing needs to be
  known about it: a bracket is returned only if both ends pass the one-sided `exp` tests, and those are sound
  without side conditions since `Encl.exp` is guarded.

  0. `signSplit_sound` : the common "positive / negative / undecided" tail of `trueValue`
     `ln2_inv_sound : 1 / Real.log 2 ∈ᵢ ln2.invPos`, `ln10_inv_sound : 1 / Real.log 10 ∈ᵢ ln10.invPos`
  1. `trueValue_log_sound`   : trueValue .log n c e = some (tn,t)   → ∃ T, T ∈ₛ t ∧ Real.log X = ±T
     `trueValue_log2_sound`  : trueValue .log2 n c e = some (tn,t)  → ∃ T, T ∈ₛ t ∧ Real.logb 2 X = ±T
     `trueValue_log10_sound` : trueValue .log10 n c e = some (tn,t) → ∃ T, T ∈ₛ t ∧ Real.logb 10 X = ±T
     (`Real.log X = Real.log |X|`, so the sign of the operand is irrelevant, as in `trueValue`)
  2. `trueValue_log1p_sound` : trueValue .log1p n c e = some (tn,t) → (n → |X| < 1) →
                               ∃ T, T ∈ₛ t ∧ Real.log (1 + X) = ±T
-/
import D128.Proofs.EnclosureElemExpm1
import Mathlib.Analysis.SpecialFunctions.Log.Base
set_option autoImplicit false

namespace EnclPf
open Spec Spec.Encl SpecRound

/-! ## 0. helpers -/

/-- the sign split at the end of several `trueValue` branches -/
def signSplit (l : I) : Option (Bool × Sci) :=
  if l.lo > 0 then some (false, ⟨l, 0⟩) else if l.hi < 0 then some (true, ⟨l.neg, 0⟩) else none

theorem signSplit_sound {l : I} {v : ℝ} {tn : Bool} {t : Sci} (hv : v ∈ᵢ l)
    (h : signSplit l = some (tn, t)) : ∃ T : ℝ, 0 < T ∧ T ∈ₛ t ∧ v = if tn then -T else T := by
  unfold signSplit at h
  split at h
  · rename_i hpos
    simp only [Option.some.injEq, Prod.mk.injEq] at h
    obtain ⟨rfl, rfl⟩ := h
    have : (0 : ℝ) < (l.lo : ℝ) := by exact_mod_cast hpos
    exact ⟨v, lt_of_lt_of_le this hv.1, ⟨v, hv, by simp⟩, by simp⟩
  · split at h
    · rename_i hneg
      simp only [Option.some.injEq, Prod.mk.injEq] at h
      obtain ⟨rfl, rfl⟩ := h
      have : (l.hi : ℝ) < 0 := by exact_mod_cast hneg
      exact ⟨-v, by linarith [hv.2], ⟨-v, mem_neg hv, by simp⟩, by simp⟩
    · exact absurd h (by simp)

theorem ln2_inv_sound : (1 / Real.log 2) ∈ᵢ ln2.invPos :=
  mem_invPos (lt_of_lt_of_le (by norm_num) ln2_lo_ge) ln2_sound

theorem ln10_inv_sound : (1 / Real.log 10) ∈ᵢ ln10.invPos :=
  mem_invPos (lt_of_lt_of_le (by norm_num) ln10_lo_ge) ln10_sound

theorem trueValue_log_eq (n : Bool) (c : Nat) (e : Int) :
    trueValue .log n c e = match Encl.log (c : Rat) e with
      | none => none
      | some l => signSplit l := rfl

theorem trueValue_log2_eq (n : Bool) (c : Nat) (e : Int) :
    trueValue .log2 n c e = match Encl.log (c : Rat) e with
      | none => none
      | some l => signSplit (l.mul ln2.invPos) := rfl

theorem trueValue_log10_eq (n : Bool) (c : Nat) (e : Int) :
    trueValue .log10 n c e = match Encl.log (c : Rat) e with
      | none => none
      | some l => signSplit (l.mul ln10.invPos) := rfl

theorem log_X (n : Bool) (c : Nat) (e : Int) :
    Real.log (X n c e) = Real.log (((c : ℚ) : ℝ) * (10 : ℝ) ^ e) := by
  rw [← Real.log_abs, abs_X]; simp

/-- the enclosure returned by `Encl.log c e` contains `log |X|` -/
theorem log_call_sound {n : Bool} {c : Nat} {e : Int} {l : I} (hc0 : c ≠ 0)
    (h : Encl.log (c : ℚ) e = some l) : Real.log (X n c e) ∈ᵢ l := by
  rw [log_X]
  exact log_sound (by exact_mod_cast Nat.pos_of_ne_zero hc0) h

/-! ## 1. log, log2, log10 -/

theorem trueValue_log_sound (n : Bool) (c : Nat) (e : Int) (tn : Bool) (t : Sci) (hc0 : c ≠ 0)
    (h : trueValue .log n c e = some (tn, t)) :
    ∃ T : ℝ, 0 < T ∧ T ∈ₛ t ∧ Real.log (X n c e) = if tn then -T else T := by
  rw [trueValue_log_eq] at h
  split at h
  · exact absurd h (by simp)
  · rename_i l hl
    exact signSplit_sound (log_call_sound hc0 hl) h

theorem trueValue_log2_sound (n : Bool) (c : Nat) (e : Int) (tn : Bool) (t : Sci) (hc0 : c ≠ 0)
    (h : trueValue .log2 n c e = some (tn, t)) :
    ∃ T : ℝ, 0 < T ∧ T ∈ₛ t ∧ Real.logb 2 (X n c e) = if tn then -T else T := by
  rw [trueValue_log2_eq] at h
  split at h
  · exact absurd h (by simp)
  · rename_i l hl
    have hv := mem_mul (log_call_sound (n := n) hc0 hl) ln2_inv_sound
    rw [mul_one_div, Real.log_div_log] at hv
    exact signSplit_sound hv h

theorem trueValue_log10_sound (n : Bool) (c : Nat) (e : Int) (tn : Bool) (t : Sci) (hc0 : c ≠ 0)
    (h : trueValue .log10 n c e = some (tn, t)) :
    ∃ T : ℝ, 0 < T ∧ T ∈ₛ t ∧ Real.logb 10 (X n c e) = if tn then -T else T := by
  rw [trueValue_log10_eq] at h
  split at h
  · exact absurd h (by simp)
  · rename_i l hl
    have hv := mem_mul (log_call_sound (n := n) hc0 hl) ln10_inv_sound
    rw [mul_one_div, Real.log_div_log] at hv
    exact signSplit_sound hv h

/-! ## 2. log1p -/

theorem trueValue_log1p_eq (n : Bool) (c : Nat) (e : Int) :
    trueValue .log1p n c e =
      let x : Rat := if e < -200 || e > 200 then 0 else (if n then -(mag c e) else mag c e)
      if e + (ndigits c : Int) < -40 then
        some (n, ⟨⟨(c : Rat) * (1 - pow10 (-39)), (c : Rat) * (1 + pow10 (-39))⟩, e⟩)
      else if e > 40 then
        match Encl.log (c : Rat) e with
        | some l => some (false, ⟨⟨l.lo, l.hi + pow10 (-38)⟩, 0⟩)
        | none => none
      else if e + (ndigits c : Int) < -12 then signSplit (log1pSmall x)
      else
        match Encl.log (1 + x) 0 with
        | none => none
        | some l => signSplit l := rfl

/-- the degree-5 Taylor enclosure of ln(1+x) -/
theorem log1pSmall_sound (x : ℚ) (hx : |x| ≤ 1 / 2) : Real.log (1 + (x : ℝ)) ∈ᵢ log1pSmall x := by
  have hxr : |(x : ℝ)| ≤ 1 / 2 := by
    have : ((|x| : ℚ) : ℝ) ≤ ((1 / 2 : ℚ) : ℝ) := by exact_mod_cast hx
    simpa using this
  have h1 : |(-(x : ℝ))| < 1 := by rw [abs_neg]; linarith
  have hb := Real.abs_log_sub_add_sum_range_le h1 5
  rw [abs_neg, sub_neg_eq_add] at hb
  have hsum : (∑ i ∈ Finset.range 5, (-(x : ℝ)) ^ (i + 1) / ((i : ℝ) + 1)) =
      -((x : ℝ) - (x : ℝ) ^ 2 / 2 + (x : ℝ) ^ 3 / 3 - (x : ℝ) ^ 4 / 4 + (x : ℝ) ^ 5 / 5) := by
    simp only [Finset.sum_range_succ, Finset.sum_range_zero]
    push_cast; ring
  rw [hsum] at hb
  have hden : |(x : ℝ)| ^ (5 + 1) / (1 - |(x : ℝ)|) ≤ 2 * |(x : ℝ)| ^ 6 := by
    rw [div_le_iff₀ (by linarith), show (5 + 1 : ℕ) = 6 from rfl]
    have h6 : (0 : ℝ) ≤ |(x : ℝ)| ^ 6 := by positivity
    nlinarith [mul_nonneg h6 (by linarith : (0 : ℝ) ≤ 1 / 2 - |(x : ℝ)|)]
  have hb' := abs_le.1 (le_trans hb hden)
  have habs : ((((if x < 0 then -x else x) : ℚ)) : ℝ) = |(x : ℝ)| := by
    rw [ite_neg_eq_abs]; push_cast; rfl
  unfold log1pSmall
  rw [mem_mk]
  constructor
  · apply rdDown_le_real
    rw [Rat.cast_sub, Rat.cast_mul, Rat.cast_pow, habs]
    push_cast; linarith [hb'.1]
  · apply le_rdUp_real
    rw [Rat.cast_add, Rat.cast_mul, Rat.cast_pow, habs]
    push_cast; linarith [hb'.2]

theorem log1p_tiny_pos {x δ : ℝ} (h0 : 0 ≤ x) (h1 : x ≤ δ) (_hδ : δ ≤ 1) :
    x * (1 - δ) ≤ Real.log (1 + x) ∧ Real.log (1 + x) ≤ x := by
  have hp : 0 < 1 + x := by linarith
  have b1 := Real.log_le_sub_one_of_pos hp
  have b2 := Real.one_sub_inv_le_log_of_pos hp
  refine ⟨le_trans ?_ b2, by linarith⟩
  have : 1 - (1 + x)⁻¹ = x / (1 + x) := by field_simp; ring
  rw [this, le_div_iff₀ hp]
  nlinarith [mul_nonneg h0 h0]

theorem log1p_tiny_neg {x δ : ℝ} (h0 : 0 ≤ x) (h1 : 2 * x ≤ δ) (hδ : δ ≤ 1) :
    x ≤ -Real.log (1 - x) ∧ -Real.log (1 - x) ≤ x * (1 + δ) := by
  have hp : 0 < 1 - x := by linarith
  have b1 := Real.log_le_sub_one_of_pos hp
  have b2 := Real.one_sub_inv_le_log_of_pos hp
  refine ⟨by linarith, ?_⟩
  have : 1 - (1 - x)⁻¹ = -(x / (1 - x)) := by field_simp; ring
  rw [this] at b2
  have : x / (1 - x) ≤ x * (1 + δ) := by
    rw [div_le_iff₀ hp]
    nlinarith [mul_nonneg h0 h0, mul_nonneg h0 (by linarith : (0 : ℝ) ≤ δ - 2 * x)]
  linarith

theorem trueValue_log1p_sound (n : Bool) (c : Nat) (e : Int) (tn : Bool) (t : Sci)
    (hc0 : c ≠ 0) (hc : c < 10 ^ 35) (hdom : n = true → |X n c e| < 1)
    (h : trueValue .log1p n c e = some (tn, t)) :
    ∃ T : ℝ, 0 < T ∧ T ∈ₛ t ∧ Real.log (1 + X n c e) = if tn then -T else T := by
  rw [trueValue_log1p_eq] at h
  simp only at h
  have hnd := ndigits_le_35 hc0 hc
  have hnd1 := ndigits_pos c
  have hA0 : (0 : ℝ) ≤ (c : ℝ) * (10 : ℝ) ^ e := by positivity
  have hXabs := abs_X n c e
  have hXlt := abs_X_lt n hc0 e
  have hXge := abs_X_ge n hc0 e
  rw [hXabs] at hXlt hXge
  split at h
  · -- |X| < 10^-40
    rename_i h40
    simp only [Option.some.injEq, Prod.mk.injEq] at h
    obtain ⟨rfl, rfl⟩ := h
    have h2 : (10 : ℝ) ^ (e + (ndigits c : Int)) ≤ (10 : ℝ) ^ (-41 : Int) :=
      zpow_le_zpow_right₀ (by norm_num) (by omega)
    have hu1 : (10 : ℝ) ^ (-39 : Int) ≤ 1 := zpow_le_one_of_nonpos₀ (by norm_num) (by norm_num)
    have h3 : 2 * (10 : ℝ) ^ (-41 : Int) ≤ (10 : ℝ) ^ (-39 : Int) := by norm_num
    have hAu : 2 * ((c : ℝ) * (10 : ℝ) ^ e) ≤ (10 : ℝ) ^ (-39 : Int) :=
      le_trans (mul_le_mul_of_nonneg_left (le_trans hXlt.le h2) (by norm_num)) h3
    generalize hu : (10 : ℝ) ^ (-39 : Int) = u at *
    have hApos : (0 : ℝ) < (c : ℝ) * (10 : ℝ) ^ e := by
      have : (0 : ℝ) < (c : ℝ) := by exact_mod_cast Nat.pos_of_ne_zero hc0
      positivity
    have hupos : (0 : ℝ) < u := by rw [← hu]; positivity
    cases n
    · obtain ⟨b1, b2⟩ := log1p_tiny_pos hA0 (by linarith) hu1
      refine ⟨Real.log (1 + X false c e), ?_, ?_, by simp⟩
      · rw [X_eq]; simp only [Bool.false_eq_true, if_false]
        exact Real.log_pos (by linarith)
      rw [X_eq]; simp only [Bool.false_eq_true, if_false]
      apply sciMem_rel hu <;> nlinarith
    · obtain ⟨b1, b2⟩ := log1p_tiny_neg hA0 hAu hu1
      refine ⟨-Real.log (1 + X true c e), ?_, ?_, by simp⟩
      · rw [X_eq]; simp only [if_true, ← sub_eq_add_neg]; linarith
      rw [X_eq]; simp only [if_true, ← sub_eq_add_neg]
      apply sciMem_rel hu <;> nlinarith
  rename_i h40
  split at h
  · -- e > 40 : X ≥ 10^41
    rename_i he
    have hA : (10 : ℝ) ^ (41 : Int) ≤ (c : ℝ) * (10 : ℝ) ^ e := by
      have : (10 : ℝ) ^ (41 : Int) ≤ (10 : ℝ) ^ (e + (ndigits c : Int) - 1) :=
        zpow_le_zpow_right₀ (by norm_num) (by omega)
      linarith
    have h41 : (1 : ℝ) < (10 : ℝ) ^ (41 : Int) := by norm_num
    cases n
    · split at h
      · rename_i l hl
        simp only [Option.some.injEq, Prod.mk.injEq] at h
        obtain ⟨rfl, rfl⟩ := h
        have hv := log_call_sound (n := false) hc0 hl
        have hXv : X false c e = (c : ℝ) * (10 : ℝ) ^ e := by rw [X_eq]; simp
        have hXpos : 0 < X false c e := by rw [hXv]; linarith
        refine ⟨Real.log (1 + X false c e), Real.log_pos (by linarith),
          ⟨Real.log (1 + X false c e), ?_, by simp⟩, by simp⟩
        -- log(1+X) = log X + log(1 + 1/X)
        have hsplit : Real.log (1 + X false c e) = Real.log (X false c e) + Real.log (1 + 1 / X false c e) := by
          rw [← Real.log_mul hXpos.ne' (by positivity)]
          congr 1; field_simp; ring
        have hq0 : 0 < 1 / X false c e := by positivity
        have hq1 : 1 / X false c e ≤ (10 : ℝ) ^ (-38 : Int) := by
          rw [div_le_iff₀ hXpos, hXv]
          have : (10 : ℝ) ^ (-38 : Int) * (10 : ℝ) ^ (41 : Int) ≤ (10 : ℝ) ^ (-38 : Int) * ((c : ℝ) * (10 : ℝ) ^ e) :=
            mul_le_mul_of_nonneg_left hA (by positivity)
          have e3 : (10 : ℝ) ^ (-38 : Int) * (10 : ℝ) ^ (41 : Int) = 1000 := by norm_num
          linarith
        have b1 := Real.log_le_sub_one_of_pos (by linarith : (0 : ℝ) < 1 + 1 / X false c e)
        have b2 : 0 ≤ Real.log (1 + 1 / X false c e) := Real.log_nonneg (by linarith)
        rw [mem_mk, Rat.cast_add, pow10_cast, hsplit]
        constructor
        · linarith [hv.1]
        · linarith [hv.2]
      · exact absurd h (by simp)
    · have := hdom rfl
      rw [hXabs] at this
      linarith
  rename_i he
  rw [xguard n c e (by omega) (by omega)] at h
  split at h
  · -- |X| < 10^-12: Taylor enclosure
    rename_i h12
    have hxq : |(Val.fin n c e).toRat| ≤ 1 / 2 := by
      have h1 := abs_toRat_lt n hc0 e
      have h2 : (10 : ℚ) ^ (e + (ndigits c : Int)) ≤ (10 : ℚ) ^ (-1 : Int) :=
        zpow_le_zpow_right₀ (by norm_num) (by omega)
      have h3 : (10 : ℚ) ^ (-1 : Int) ≤ 1 / 2 := by norm_num
      exact le_trans (le_trans h1.le h2) h3
    have hv := log1pSmall_sound _ hxq
    change Real.log (1 + X n c e) ∈ᵢ _ at hv
    exact signSplit_sound hv h
  -- general branch
  split at h
  · exact absurd h (by simp)
  · rename_i l hl
    have hpos : (0 : ℚ) < 1 + (Val.fin n c e).toRat := by
      have hr : (0 : ℝ) < 1 + X n c e := by
        cases n
        · rw [X_eq]; simp only [Bool.false_eq_true, if_false]; linarith
        · have := hdom rfl
          have := (abs_lt.1 this).1
          linarith
      have : ((0 : ℚ) : ℝ) < ((1 + (Val.fin n c e).toRat : ℚ) : ℝ) := by
        push_cast; exact hr
      exact_mod_cast this
    have hv := log_sound hpos hl
    have e1 : (((1 + (Val.fin n c e).toRat : ℚ)) : ℝ) * (10 : ℝ) ^ (0 : Int) = 1 + X n c e := by
      unfold X; push_cast; simp
    rw [e1] at hv
    exact signSplit_sound hv h

end EnclPf
