/-
  D128/Proofs/IntConvFrom.lean — `FromInt64/FromInt32/FromUint64/FromUint32` are exact, and the
  round trips.

    interp_compose, word_le_Cmax, interp_compose_word
    FromUint64_interp, FromUint32_interp, FromInt64_interp, FromInt32_interp
        𝔳[FromT i] = if i = 0 then +0·10^−6176 else Spec.fromInt i
    u32_conv_toNat, neg_conv_toNat, pos_conv_toNat, i32_conv_toInt   (Go conversions)
    same_of_interp        … hence Val.same 𝔳[FromT i] (Spec.fromInt i)
    truncInt_fromInt, sat_fromInt, sat_zero, sat_interp_from
    Int64_FromInt64, Int32_FromInt32, Uint64_FromUint64, Uint32_FromUint32 : T(FromT i) = (i, true)
-/
import D128.Proofs.IntConv32
import D128.Proofs.IntConvU
set_option autoImplicit false

namespace IntConvPf
open CanonPf

/-- reading back a composed finite value -/
theorem interp_compose (neg : Bool) (sig : U128) (exp : Int16)
    (hs : sig.toNat ≤ Spec.Cmax) (h0 : 0 ≤ exp.toInt) (h1 : exp.toInt ≤ 12287) :
    Spec.interp (Gen.compose neg sig exp).lo (Gen.compose neg sig exp).hi
      = .fin neg sig.toNat (exp.toInt - 6176) := by
  rw [Enc.interp_decompose _ (Enc.isSpecial_compose neg sig exp hs h0 h1),
    Enc.decompose_compose neg sig exp hs h0 h1, Enc.Signbit_compose neg sig exp hs h0 h1]

theorem word_le_Cmax (w : UInt64) : (U128.mk w 0).toNat ≤ Spec.Cmax := by
  have := w.toNat_lt
  rw [Cmax_val]
  simp only [U128.toNat, UInt64.toNat_zero]
  omega

theorem interp_compose_word (neg : Bool) (w : UInt64) :
    Spec.interp (Gen.compose neg (U128.mk w 0) 6176).lo (Gen.compose neg (U128.mk w 0) 6176).hi
      = .fin neg w.toNat 0 := by
  rw [interp_compose neg _ _ (word_le_Cmax w) (by rw [i16_6176]; omega) (by rw [i16_6176]; omega),
    i16_6176]
  simp [U128.toNat]

/-! ## FromUint64 / FromUint32 -/

theorem FromUint64_interp (i : UInt64) :
    Spec.interp (Gen.FromUint64 i).lo (Gen.FromUint64 i).hi =
      if i = 0 then .fin false 0 (-6176) else Spec.fromInt (i.toNat : Int) := by
  unfold Gen.FromUint64
  by_cases h : i = 0
  · subst h; rfl
  · have hb : (i == 0) = false := by simpa using h
    simp only [Id.run, pure, hb, Bool.false_eq_true, if_false, h]
    rw [interp_compose_word]
    have hn : i.toNat ≠ 0 := fun h0 => h (UInt64.toNat_inj.mp h0)
    unfold Spec.fromInt
    have h1 : ((i.toNat : Int) == 0) = false := by
      rw [beq_eq_false_iff_ne]; omega
    have h2 : decide ((i.toNat : Int) < 0) = false := by
      rw [decide_eq_false_iff_not]; omega
    simp only [h1, Bool.false_eq_true, if_false, h2, Int.natAbs_natCast]

theorem u32_conv_toNat (i : UInt32) : (Go.conv i : UInt64).toNat = i.toNat := by
  have := i.toNat_lt
  show (UInt64.ofInt (i.toNat : Int)).toNat = _
  simp only [UInt64.ofInt, UInt64.toNat_ofNat']
  omega

theorem FromUint32_interp (i : UInt32) :
    Spec.interp (Gen.FromUint32 i).lo (Gen.FromUint32 i).hi =
      if i = 0 then .fin false 0 (-6176) else Spec.fromInt (i.toNat : Int) := by
  unfold Gen.FromUint32
  simp only [Id.run, pure]
  rw [FromUint64_interp, u32_conv_toNat]
  have : (Go.conv i : UInt64) = 0 ↔ i = 0 := by
    rw [← UInt64.toNat_inj, ← UInt32.toNat_inj, u32_conv_toNat]; rfl
  by_cases h : i = 0
  · rw [if_pos (this.mpr h), if_pos h]
  · rw [if_neg (fun hh => h (this.mp hh)), if_neg h]

/-! ## FromInt64 / FromInt32 -/

theorem neg_conv_toNat (i : Int64) (h : i.toInt < 0) :
    (Go.conv (i * (-1 : Int64)) : UInt64).toNat = i.toInt.natAbs := by
  have h1 := i.le_toInt
  have e1 : (-1 : Int64).toInt = -1 := by decide
  show (UInt64.ofInt (i * (-1 : Int64)).toInt).toNat = _
  rw [Int64.toInt_mul, e1]
  simp only [UInt64.ofInt, UInt64.toNat_ofNat']
  have e2 : ((2 : Int) ^ 64) = (((2 : Nat) ^ 64 : Nat) : Int) := by norm_num
  rw [e2, Int.bmod_emod]
  simp only [Nat.reducePow, Int.reducePow] at *
  omega

theorem pos_conv_toNat (i : Int64) (h : 0 ≤ i.toInt) :
    (Go.conv i : UInt64).toNat = i.toInt.natAbs := by
  have h1 := i.toInt_lt
  show (UInt64.ofInt i.toInt).toNat = _
  simp only [UInt64.ofInt, UInt64.toNat_ofNat']
  simp only [Nat.reducePow, Int.reducePow] at *
  omega

theorem FromInt64_interp (i : Int64) :
    Spec.interp (Gen.FromInt64 i).lo (Gen.FromInt64 i).hi =
      if i = 0 then .fin false 0 (-6176) else Spec.fromInt i.toInt := by
  unfold Gen.FromInt64
  by_cases h : i = 0
  · subst h; rfl
  · have hb : (i == 0) = false := by simpa using h
    have hn : i.toInt ≠ 0 := fun h0 => h (Int64.toInt_inj.mp h0)
    have h1 : (i.toInt == 0) = false := by rw [beq_eq_false_iff_ne]; exact hn
    simp only [Id.run, pure, hb, Bool.false_eq_true, if_false, h]
    unfold Spec.fromInt
    simp only [h1, Bool.false_eq_true, if_false]
    by_cases hl : i < 0
    · have hl' : i.toInt < 0 := by rwa [Int64.lt_iff_toInt_lt] at hl
      simp only [hl, decide_true, if_true]
      rw [interp_compose_word, neg_conv_toNat i hl']
      simp [hl']
    · have hl' : ¬ i.toInt < 0 := by rwa [Int64.lt_iff_toInt_lt] at hl
      simp only [hl, decide_false, Bool.false_eq_true, if_false]
      rw [interp_compose_word, pos_conv_toNat i (by omega)]
      simp [hl']

theorem i32_conv_toInt (i : Int32) : (Go.conv i : Int64).toInt = i.toInt := by
  have h1 := i.toInt_lt
  have h2 := i.le_toInt
  show (Int64.ofInt i.toInt).toInt = _
  rw [Int64.toInt_ofInt]
  apply Int.bmod_eq_of_le <;> simp only [Int64.size, Int.reducePow] at * <;> omega

theorem FromInt32_interp (i : Int32) :
    Spec.interp (Gen.FromInt32 i).lo (Gen.FromInt32 i).hi =
      if i = 0 then .fin false 0 (-6176) else Spec.fromInt i.toInt := by
  unfold Gen.FromInt32
  simp only [Id.run, pure]
  rw [FromInt64_interp, i32_conv_toInt]
  have : (Go.conv i : Int64) = 0 ↔ i = 0 := by
    rw [← Int64.toInt_inj, ← Int32.toInt_inj, i32_conv_toInt]; rfl
  by_cases h : i = 0
  · rw [if_pos (this.mpr h), if_pos h]
  · rw [if_neg (fun hh => h (this.mp hh)), if_neg h]

/-- the two readings of zero denote the same value -/
theorem same_of_interp {x : Spec.Val} {k : Int} {z : Prop} [Decidable z] (hz : z → k = 0)
    (h : x = if z then .fin false 0 (-6176) else Spec.fromInt k) :
    x.same (Spec.fromInt k) = true := by
  by_cases hh : z
  · rw [h, if_pos hh, hz hh]
    simp [Spec.fromInt, Spec.Val.same, Spec.mag]
  · rw [h, if_neg hh]
    cases Spec.fromInt k <;> simp [Spec.Val.same]


/-! ## round trips -/

theorem truncInt_fromInt (k : Int) : Spec.truncInt (Spec.fromInt k) = k := by
  unfold Spec.fromInt
  by_cases h : k = 0
  · subst h; simp [Spec.truncInt]
  · have h1 : (k == 0) = false := by rw [beq_eq_false_iff_ne]; exact h
    simp only [h1, Bool.false_eq_true, if_false, Spec.truncInt, ge_iff_le, Int.le_refl, if_true,
      Int.toNat_zero, Nat.pow_zero, Nat.mul_one, decide_eq_true_eq]
    split_ifs <;> omega

theorem sat_fromInt (lo hi k : Int) (h0 : lo ≤ k) (h1 : k ≤ hi) :
    Spec.sat lo hi (Spec.fromInt k) = some (k, true) := by
  have ht := truncInt_fromInt k
  unfold Spec.fromInt at ht ⊢
  split_ifs at ht ⊢ <;> simp only [Spec.sat, ht] <;> rw [if_neg (by omega), if_neg (by omega)]

theorem sat_zero (lo hi : Int) (e : Int) (h0 : lo ≤ 0) (h1 : 0 ≤ hi) :
    Spec.sat lo hi (.fin false 0 e) = some (0, true) := by
  have ht : Spec.truncInt (.fin false 0 e) = 0 := by
    rw [truncInt_fin]; simp [truncMag]
  simp only [Spec.sat, ht]
  rw [if_neg (by omega), if_neg (by omega)]

theorem sat_interp_from (lo hi k : Int) (z : Prop) [Decidable z] (hz : z → k = 0)
    (h0 : lo ≤ k) (h1 : k ≤ hi) :
    Spec.sat lo hi (if z then .fin false 0 (-6176) else Spec.fromInt k) = some (k, true) := by
  by_cases hh : z
  · rw [if_pos hh, hz hh, sat_zero lo hi _ (by rw [← hz hh]; exact h0) (by rw [← hz hh]; exact h1)]
  · rw [if_neg hh, sat_fromInt lo hi k h0 h1]

theorem Int64_FromInt64 (i : Int64) : Gen.Decimal.Int64_ (Gen.FromInt64 i) = .ok (i, true) := by
  have h1 := i.toInt_lt
  have h2 := i.le_toInt
  rw [Int64_eq, FromInt64_interp,
    sat_interp_from _ _ i.toInt (i = 0) (fun h => by rw [h]; rfl)
      (by simp only [Int.reducePow] at h2; omega) (by simp only [Int.reducePow] at h1; omega)]
  simp only [Int64.ofInt_toInt]

theorem Int32_FromInt32 (i : Int32) : Gen.Decimal.Int32_ (Gen.FromInt32 i) = .ok (i, true) := by
  have h1 := i.toInt_lt
  have h2 := i.le_toInt
  rw [Int32_eq, FromInt32_interp,
    sat_interp_from _ _ i.toInt (i = 0) (fun h => by rw [h]; rfl)
      (by simp only [Int.reducePow] at h2; omega) (by simp only [Int.reducePow] at h1; omega)]
  simp only [Int32.ofInt_toInt]

theorem u32_ofInt_toNat (x : UInt32) : UInt32.ofInt (x.toNat : Int) = x := by
  apply UInt32.toNat_inj.mp
  have := x.toNat_lt
  simp only [UInt32.ofInt, UInt32.toNat_ofNat']
  omega

theorem Uint64_FromUint64 (i : UInt64) : Gen.Decimal.Uint64 (Gen.FromUint64 i) = .ok (i, true) := by
  have h1 := i.toNat_lt
  rw [Uint64_eq, FromUint64_interp,
    sat_interp_from _ _ (i.toNat : Int) (i = 0) (fun h => by rw [h]; rfl) (by omega) (by omega)]
  simp only [u64_ofInt_toNat]

theorem Uint32_FromUint32 (i : UInt32) : Gen.Decimal.Uint32 (Gen.FromUint32 i) = .ok (i, true) := by
  have h1 := i.toNat_lt
  rw [Uint32_eq, FromUint32_interp,
    sat_interp_from _ _ (i.toNat : Int) (i = 0) (fun h => by rw [h]; rfl) (by omega) (by omega)]
  simp only [u32_ofInt_toNat]

end IntConvPf
