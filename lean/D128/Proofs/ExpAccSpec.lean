/-
  D128/Proofs/ExpAccSpec.lean — property C16, specification side of the final rounding: what the member
  that a NEAREST mode selects for a rational working value `W` says about a REAL target `T` that `W`
  approximates to within half a unit in the last place (relative `1 / (2·(Cmax+1)) ≈ 3.85e-35`).

  Provided (namespace `ExpAcc`):
  * `ulp_facts`            : `Emin ≤ ulpExp T`, `T < (Cmax+1)·10^ulpExp T`, minimality
  * `gv_congr`             : `GeneralViolation F` is invariant under `Val.same`
  * `Close W T`            : `|W − T|·(2·(Cmax+1)) ≤ T`
  * `roundTo_fin_close`    : nearest mode, `roundTo m neg W = .fin neg c e`, `Close W T`
                             ⇒ `|c·10^e − T| ≤ 10^ulpExp T` (and the sharper `≤ max(½ulp + |W−T|, 2|W−T|)`)
  * `nearest_real`         : nearest mode, `0 < W`, `0 < T`, `Close W T`
                             ⇒ `¬ GeneralViolation (±T) (flushOrRound m neg W)`
                             (finite result within one ulp of `T`, `0` only if `T ≤ 10^Emin`, `±Inf` only if `T` is
                             beyond the largest finite Decimal minus one ulp)
  * `nearest_real_S`       : the same for `flushOrRoundS m neg q k`, `W = q·10^k`
-/
import D128.Proofs.EnclosureJudge
import D128.Proofs.SpecRound
set_option autoImplicit false

namespace ExpAcc
open Spec SpecRound EnclPf

/-- the real `(Cmax+1)` -/
theorem Cmax1_pos : (0 : ℝ) < (Cmax : ℝ) + 1 := by positivity

theorem Cmax1_val : ((Cmax : ℝ) + 1) = 10 * 2 ^ 110 := by
  have : ((Spec.Cmax + 1 : Nat) : ℝ) = ((10 * 2 ^ 110 : Nat) : ℝ) := by rw [Cmax_succ]
  push_cast at this; exact this.trans (by norm_num)

theorem Cmax1_ge : (10 : ℝ) ^ 34 ≤ (Cmax : ℝ) + 1 := by rw [Cmax1_val]; norm_num

/-- what `ulpExp T` is -/
theorem ulp_facts {T : ℝ} (hT : 0 < T) :
    Emin ≤ ulpExp T ∧ T < ((Cmax : ℝ) + 1) * (10 : ℝ) ^ (ulpExp T) ∧
    (Emin < ulpExp T → ((Cmax : ℝ) + 1) * (10 : ℝ) ^ (ulpExp T - 1) ≤ T) := by
  obtain ⟨h1, h2⟩ := (ulpExp_le_iff hT (ulpExp T)).1 (le_refl _)
  refine ⟨h1, h2, fun hlt => ?_⟩
  by_contra hc
  have := (ulpExp_le_iff hT (ulpExp T - 1)).2 ⟨by omega, not_le.1 hc⟩
  omega

/-- `W` approximates `T` to within half a unit in the last place, whatever the position of `T` in its decade -/
def Close (W : ℚ) (T : ℝ) : Prop := |(W : ℝ) - T| * (2 * ((Cmax : ℝ) + 1)) ≤ T

theorem Close.lt_half_ulp {W : ℚ} {T : ℝ} (hT : 0 < T) (h : Close W T) :
    |(W : ℝ) - T| < (10 : ℝ) ^ (ulpExp T) / 2 := by
  obtain ⟨-, h2, -⟩ := ulp_facts hT
  have hC := Cmax1_pos
  unfold Close at h
  have : |(W : ℝ) - T| * (2 * ((Cmax : ℝ) + 1)) < ((Cmax : ℝ) + 1) * (10 : ℝ) ^ (ulpExp T) :=
    lt_of_le_of_lt h h2
  have h3 : |(W : ℝ) - T| * 2 < (10 : ℝ) ^ (ulpExp T) := by
    by_contra hc
    have hc' := not_lt.1 hc
    have := mul_le_mul_of_nonneg_right hc' hC.le
    nlinarith
  linarith

/-- `T ≤ W·(1 + 4e-35)`, `W ≤ T·(1 + 4e-35)` in the crude form used for the range ends -/
theorem Close.bounds {W : ℚ} {T : ℝ} (hT : 0 < T) (h : Close W T) :
    |(W : ℝ) - T| ≤ T / 10 ^ 34 ∧ T ≤ 2 * (W : ℝ) ∧ (W : ℝ) ≤ 2 * T := by
  have hC := Cmax1_ge
  unfold Close at h
  have habs := abs_nonneg ((W : ℝ) - T)
  have h1 : |(W : ℝ) - T| * 10 ^ 34 ≤ T := by
    have : |(W : ℝ) - T| * 10 ^ 34 ≤ |(W : ℝ) - T| * (2 * ((Cmax : ℝ) + 1)) :=
      mul_le_mul_of_nonneg_left (by linarith) habs
    linarith
  have h2 : |(W : ℝ) - T| ≤ T / 10 ^ 34 := by
    rw [le_div_iff₀ (by positivity)]; exact h1
  have h3 : |(W : ℝ) - T| ≤ T / 2 := by
    have : T / 10 ^ 34 ≤ T / 2 := by
      apply div_le_div_of_nonneg_left hT.le (by norm_num) (by norm_num)
    linarith
  have := abs_le.1 h3
  exact ⟨h2, by linarith [this.1], by linarith [this.2]⟩

/-! ## invariance of the verdict under `Val.same` -/

theorem same_fin {n n' : Bool} {c c' : Nat} {e e' : Int}
    (h : (Val.fin n c e).same (.fin n' c' e') = true) :
    n = n' ∧ (c : ℚ) * (10 : ℚ) ^ e = (c' : ℚ) * (10 : ℚ) ^ e' := by
  simp only [Val.same, Bool.and_eq_true, beq_iff_eq, Spec.mag, pow10_eq_zpow] at h
  exact h

theorem X_of_same {n n' : Bool} {c c' : Nat} {e e' : Int}
    (h : (Val.fin n c e).same (.fin n' c' e') = true) : X n c e = X n' c' e' := by
  obtain ⟨rfl, hv⟩ := same_fin h
  have hv' : ((c : ℝ) * (10 : ℝ) ^ e) = ((c' : ℝ) * (10 : ℝ) ^ e') := by
    have : (((c : ℚ) * (10 : ℚ) ^ e : ℚ) : ℝ) = (((c' : ℚ) * (10 : ℚ) ^ e' : ℚ) : ℝ) := by rw [hv]
    push_cast at this; exact this
  rw [X_eq, X_eq, hv']

theorem zero_of_same {n n' : Bool} {c c' : Nat} {e e' : Int}
    (h : (Val.fin n c e).same (.fin n' c' e') = true) : c = 0 ↔ c' = 0 := by
  obtain ⟨-, hv⟩ := same_fin h
  have hp : (10 : ℚ) ^ e ≠ 0 := zpow_ne_zero _ (by norm_num)
  have hp' : (10 : ℚ) ^ e' ≠ 0 := zpow_ne_zero _ (by norm_num)
  constructor
  · rintro rfl
    simp only [Nat.cast_zero, zero_mul] at hv
    rcases mul_eq_zero.1 hv.symm with h | h
    · exact_mod_cast h
    · exact absurd h hp'
  · rintro rfl
    simp only [Nat.cast_zero, zero_mul] at hv
    rcases mul_eq_zero.1 hv with h | h
    · exact_mod_cast h
    · exact absurd h hp

/-- the verdict depends on the value of the result only -/
theorem gv_congr (F : ℝ) {v w : Val} (h : v.same w = true) : GeneralViolation F v → GeneralViolation F w := by
  match v, w with
  | .nan _ _, .nan _ _ => exact id
  | .inf n, .inf n' =>
    have : n = n' := by simpa [Val.same] using h
    subst this; exact id
  | .fin n c e, .fin n' c' e' =>
    have hX := X_of_same h
    have hz := zero_of_same h
    match c, c' with
    | 0, 0 => exact id
    | 0, c' + 1 => exact absurd (hz.1 rfl) (by omega)
    | c + 1, 0 => exact absurd (hz.2 rfl) (by omega)
    | c + 1, c' + 1 =>
      intro hv
      simp only [GeneralViolation] at hv ⊢
      rw [← hX]; exact hv
  | .nan _ _, .inf _ => simp [Val.same] at h
  | .nan _ _, .fin _ _ _ => simp [Val.same] at h
  | .inf _, .nan _ _ => simp [Val.same] at h
  | .inf _, .fin _ _ _ => simp [Val.same] at h
  | .fin _ _ _, .nan _ _ => simp [Val.same] at h
  | .fin _ _ _, .inf _ => simp [Val.same] at h

/-! ## the finite case -/

/-- the boundary `(Cmax+1)·10^u = 2^110·10^(u+1)` is a member of the format for `Emin ≤ u < Emax` -/
theorem boundary_member (u : Int) (h0 : Emin ≤ u) (h1 : u + 1 ≤ Emax) :
    Member (((Cmax : ℚ) + 1) * (10 : ℚ) ^ u) := by
  refine ⟨2 ^ 110, u + 1, by unfold Spec.Cmax; norm_num, by omega, h1, ?_⟩
  have hCs : ((Spec.Cmax : ℚ) + 1) = 10 * 2 ^ 110 := by
    have : ((Spec.Cmax + 1 : Nat) : ℚ) = ((10 * 2 ^ 110 : Nat) : ℚ) := by rw [Cmax_succ]
    push_cast at this; exact this.trans (by norm_num)
  rw [hCs, zpow_add₀ (by norm_num : (10 : ℚ) ≠ 0)]
  push_cast; ring

/-- the spacing exponent of a rational, from the real side -/
theorem spacing_le_of_lt {W : ℚ} (hW : 0 < W) {u : Int} (h0 : Emin ≤ u)
    (h : (W : ℝ) < ((Cmax : ℝ) + 1) * (10 : ℝ) ^ u) : Spec.spacingExp W ≤ u := by
  have hW' : (0 : ℝ) < (W : ℝ) := by exact_mod_cast hW
  rw [← ulpExp_rat W hW]
  exact (ulpExp_le_iff hW' u).2 ⟨h0, h⟩

/-- **finite result**: the member a nearest mode selects for `W` is within one unit in the last place (at `T`)
of every real `T` that `W` approximates to half a unit -/
theorem roundTo_fin_close {m : Mode} (hn : isNearest m = true) {neg : Bool} {W : ℚ} {T : ℝ}
    (hW : 0 < W) (hT : 0 < T) (hc : Close W T) {n : Bool} {c : Nat} {e : Int}
    (h : Spec.roundTo m neg W = .fin n c e) :
    |(c : ℝ) * (10 : ℝ) ^ e - T| ≤ (10 : ℝ) ^ (ulpExp T) / 2 + |(W : ℝ) - T| ∧
    |(c : ℝ) * (10 : ℝ) ^ e - T| ≤ (10 : ℝ) ^ (ulpExp T) := by
  obtain ⟨hu0, hu1, -⟩ := ulp_facts hT
  have hhalf := hc.lt_half_ulp hT
  set u := ulpExp T with hu
  set U : ℝ := (10 : ℝ) ^ u with hU
  have hUpos : 0 < U := zpow_pos (by norm_num) _
  have hE0 := abs_nonneg ((W : ℝ) - T)
  have key : |(c : ℝ) * (10 : ℝ) ^ e - T| ≤ U / 2 + |(W : ℝ) - T| := by
    by_cases hlt : (W : ℝ) < ((Cmax : ℝ) + 1) * U
    · -- the spacing at W is at most the one at T
      have hs : Spec.spacingExp W ≤ u := spacing_le_of_lt hW hu0 hlt
      have hr := roundTo_nearest_half hn hW h
      have hr' : |((c : ℝ) * (10 : ℝ) ^ e) - (W : ℝ)| ≤ (10 : ℝ) ^ (Spec.spacingExp W) / 2 := by
        have : (((|(c : ℚ) * (10 : ℚ) ^ e - W| : ℚ)) : ℝ) ≤ ((((10 : ℚ) ^ (Spec.spacingExp W) / 2 : ℚ)) : ℝ) := by
          exact_mod_cast hr
        push_cast at this; exact this
      have hp : (10 : ℝ) ^ (Spec.spacingExp W) ≤ U := zpow_le_zpow_right₀ (by norm_num) hs
      calc |(c : ℝ) * (10 : ℝ) ^ e - T|
          = |((c : ℝ) * (10 : ℝ) ^ e - (W : ℝ)) + ((W : ℝ) - T)| := by ring_nf
        _ ≤ |(c : ℝ) * (10 : ℝ) ^ e - (W : ℝ)| + |(W : ℝ) - T| := abs_add_le _ _
        _ ≤ U / 2 + |(W : ℝ) - T| := by linarith
    · -- W is at or above the boundary B = (Cmax+1)·U > T, which is a member
      have hge : ((Cmax : ℝ) + 1) * U ≤ (W : ℝ) := not_lt.1 hlt
      have hBq : ((Cmax : ℚ) + 1) * (10 : ℚ) ^ u ≤ W := by
        have : ((((Cmax : ℚ) + 1) * (10 : ℚ) ^ u : ℚ) : ℝ) ≤ (W : ℝ) := by push_cast; exact hge
        exact_mod_cast this
      -- u < Emax, otherwise the result would be infinite
      have hu2 : u + 1 ≤ Emax := by
        by_contra hcon
        have hEm : Emax ≤ u := by omega
        have : Spec.roundTo m neg W = .inf neg := by
          rw [roundTo_nearest_inf_iff hn neg hW]
          have hp : (10 : ℚ) ^ Emax ≤ (10 : ℚ) ^ u := zpow_le_zpow_right₀ (by norm_num) hEm
          have hC : (0 : ℚ) ≤ (Cmax : ℚ) := Nat.cast_nonneg _
          have hpp : (0 : ℚ) < (10 : ℚ) ^ Emax := zpow_pos (by norm_num) _
          calc ((Cmax : ℚ) + 1 / 2) * (10 : ℚ) ^ Emax ≤ ((Cmax : ℚ) + 1) * (10 : ℚ) ^ Emax := by
                apply mul_le_mul_of_nonneg_right _ hpp.le; linarith
            _ ≤ ((Cmax : ℚ) + 1) * (10 : ℚ) ^ u := mul_le_mul_of_nonneg_left hp (by linarith)
            _ ≤ W := hBq
        rw [this] at h; cases h
      have hB := boundary_member u hu0 hu2
      have hr := roundTo_nearest_member hn hW h hB
      have hr' : |((c : ℝ) * (10 : ℝ) ^ e) - (W : ℝ)| ≤ |((Cmax : ℝ) + 1) * U - (W : ℝ)| := by
        have : (((|(c : ℚ) * (10 : ℚ) ^ e - W| : ℚ)) : ℝ) ≤
            (((|((Cmax : ℚ) + 1) * (10 : ℚ) ^ u - W| : ℚ)) : ℝ) := by exact_mod_cast hr
        push_cast at this; exact this
      have hBW : |((Cmax : ℝ) + 1) * U - (W : ℝ)| ≤ |(W : ℝ) - T| := by
        rw [abs_of_nonpos (by linarith), abs_of_nonneg (by linarith)]
        linarith
      calc |(c : ℝ) * (10 : ℝ) ^ e - T|
          = |((c : ℝ) * (10 : ℝ) ^ e - (W : ℝ)) + ((W : ℝ) - T)| := by ring_nf
        _ ≤ |(c : ℝ) * (10 : ℝ) ^ e - (W : ℝ)| + |(W : ℝ) - T| := abs_add_le _ _
        _ ≤ |(W : ℝ) - T| + |(W : ℝ) - T| := by linarith
        _ ≤ U / 2 + |(W : ℝ) - T| := by linarith
  exact ⟨key, by linarith⟩

/-! ## all three outcomes -/

theorem pow_Emin_le_ulp {T : ℝ} (hT : 0 < T) : (10 : ℝ) ^ Emin ≤ (10 : ℝ) ^ (ulpExp T) :=
  zpow_le_zpow_right₀ (by norm_num) (ulp_facts hT).1

theorem signed_abs (neg : Bool) (T : ℝ) (hT : 0 < T) : |(if neg then -T else T)| = T := by
  cases neg
  · simp [abs_of_pos hT]
  · simp [abs_of_pos hT]

/-- **The member a nearest mode selects for `W` is an acceptable result for every real target `±T` that `W`
approximates to within half a unit in the last place**: not a NaN, the right sign, finite results within one
unit in the last place of `T`, zero only if `T ≤ 10^Emin`, infinite only if `T` plus one unit reaches the
largest finite Decimal. -/
theorem nearest_real {m : Mode} (hn : isNearest m = true) (neg : Bool) {W : ℚ} {T : ℝ}
    (hW : 0 < W) (hT : 0 < T) (hc : Close W T) :
    ¬ GeneralViolation (if neg then -T else T) (Spec.flushOrRound m neg W) := by
  obtain ⟨hb1, hb2, hb3⟩ := hc.bounds hT
  have hWr : (0 : ℝ) < (W : ℝ) := by exact_mod_cast hW
  set F : ℝ := if neg then -T else T with hF
  have hFabs : |F| = T := signed_abs neg T hT
  by_cases htiny : W < (10 : ℚ) ^ (Spec.Emin - 1)
  · -- flushed to zero
    rw [flushOrRound_tiny m neg hW htiny]
    show ¬ ((10 : ℝ) ^ (ulpExp |F|) < |F|)
    rw [hFabs, not_lt]
    have h1 : (W : ℝ) < (10 : ℝ) ^ (Spec.Emin - 1) := by
      have : ((W : ℚ) : ℝ) < (((10 : ℚ) ^ (Spec.Emin - 1) : ℚ) : ℝ) := by exact_mod_cast htiny
      push_cast at this; exact this
    have h2 : (10 : ℝ) ^ (Spec.Emin - 1) * 2 ≤ (10 : ℝ) ^ Emin := by
      rw [zpow_sub₀ (by norm_num : (10 : ℝ) ≠ 0)]
      have hp : (0 : ℝ) < (10 : ℝ) ^ Emin := zpow_pos (by norm_num) _
      rw [zpow_one]; linarith
    have := pow_Emin_le_ulp hT
    linarith
  · rw [flushOrRound_eq_roundTo m neg (not_lt.1 htiny)]
    rcases roundTo_member m neg W hW with hinf | ⟨c, e, hfin, -⟩
    · -- overflow
      rw [hinf]
      have hge := (roundTo_nearest_inf_iff hn neg hW).1 hinf
      have hgeR : (((Cmax : ℝ)) + 1 / 2) * (10 : ℝ) ^ Emax ≤ (W : ℝ) := by
        have : (((((Cmax : ℚ)) + 1 / 2) * (10 : ℚ) ^ Emax : ℚ) : ℝ) ≤ (W : ℝ) := by exact_mod_cast hge
        push_cast at this; exact this
      have hpE : (0 : ℝ) < (10 : ℝ) ^ Emax := zpow_pos (by norm_num) _
      have hC34 := Cmax1_ge
      show ¬ ((neg = true ↔ 0 < F) ∨ |F| < (10 : ℝ) ^ (Emax + 30) ∨
        |F| + (10 : ℝ) ^ (ulpExp |F|) < (Cmax : ℝ) * (10 : ℝ) ^ Emax)
      rw [hFabs]
      rintro (h | h | h)
      · cases neg
        · simp only [Bool.false_eq_true, false_iff, not_lt] at h
          have : F = T := by simp [hF]
          rw [this] at h; linarith
        · simp only [true_iff] at h
          have : F = -T := by simp [hF]
          rw [this] at h; linarith
      · -- T ≥ W/2 ≥ 10^(Emax+33)/2
        have h30 : (10 : ℝ) ^ (Emax + 30) * 2 < (((Cmax : ℝ)) + 1 / 2) * (10 : ℝ) ^ Emax := by
          rw [zpow_add₀ (by norm_num : (10 : ℝ) ≠ 0)]
          have : (10 : ℝ) ^ (30 : Int) * 2 < (Cmax : ℝ) + 1 / 2 := by
            have : (10 : ℝ) ^ (30 : Int) = 10 ^ 30 := by norm_cast
            rw [this]; nlinarith
          nlinarith
        linarith
      · -- T + ulp ≥ Cmax·10^Emax
        have hu := (ulp_facts hT)
        by_cases hbig : (Cmax : ℝ) * (10 : ℝ) ^ Emax ≤ T
        · have : (0 : ℝ) < (10 : ℝ) ^ (ulpExp T) := zpow_pos (by norm_num) _
          linarith
        · have hlt := not_le.1 hbig
          -- |W − T| < 10^Emax / 2
          have hE : |(W : ℝ) - T| * 2 < (10 : ℝ) ^ Emax := by
            unfold Close at hc
            have h1 : |(W : ℝ) - T| * (2 * ((Cmax : ℝ) + 1)) < (Cmax : ℝ) * (10 : ℝ) ^ Emax := lt_of_le_of_lt hc hlt
            have habs := abs_nonneg ((W : ℝ) - T)
            have hCp : (0 : ℝ) ≤ (Cmax : ℝ) := Nat.cast_nonneg _
            by_contra hcon
            have := not_lt.1 hcon
            nlinarith
          have := abs_le.1 (le_refl |(W : ℝ) - T|)
          have h2 : (W : ℝ) - T ≤ |(W : ℝ) - T| := le_abs_self _
          nlinarith
    · -- finite
      rw [hfin]
      obtain ⟨hn', hcC, he0, he1, -, -⟩ := roundTo_fin hW hfin
      obtain ⟨hsharp, hulp⟩ := roundTo_fin_close hn hW hT hc hfin
      have hhalf := hc.lt_half_ulp hT
      match c, hfin, hsharp, hulp with
      | 0, _, _, hulp =>
        show ¬ ((10 : ℝ) ^ (ulpExp |F|) < |F|)
        rw [hFabs, not_lt]
        simp only [Nat.cast_zero, zero_mul, zero_sub, abs_neg, abs_of_pos hT] at hulp
        exact hulp
      | c + 1, hfin, hsharp, hulp =>
        show ¬ (X neg (c + 1) e * F < 0 ∨ (10 : ℝ) ^ (ulpExp |F|) < |X neg (c + 1) e - F| ∨
          (10 : ℝ) ^ (Emax + 41) ≤ |F| ∨ |F| < (10 : ℝ) ^ (Emin - 40))
        have hRpos : (0 : ℝ) < ((c + 1 : ℕ) : ℝ) * (10 : ℝ) ^ e := by positivity
        have hXF : |X neg (c + 1) e - F| = |((c + 1 : ℕ) : ℝ) * (10 : ℝ) ^ e - T| := by
          rw [X_eq, hF]
          cases neg
          · simp
          · simp only [if_true]
            rw [show -(((c + 1 : ℕ) : ℝ) * (10 : ℝ) ^ e) - -T = -(((c + 1 : ℕ) : ℝ) * (10 : ℝ) ^ e - T) by ring,
              abs_neg]
        rw [hFabs, hXF]
        rintro (h | h | h | h)
        · rw [X_eq, hF] at h
          cases neg
          · simp only [Bool.false_eq_true, if_false] at h
            have := mul_pos hRpos hT; linarith
          · simp only [if_true] at h
            have := mul_pos hRpos hT; nlinarith
        · exact absurd hulp (not_le.2 h)
        · -- the result is finite, so W is below (Cmax + 1/2)·10^Emax
          have hninf : ¬ Spec.roundTo m neg W = .inf neg := by rw [hfin]; simp
          rw [roundTo_nearest_inf_iff hn neg hW, not_le] at hninf
          have hltR : (W : ℝ) < (((Cmax : ℝ)) + 1 / 2) * (10 : ℝ) ^ Emax := by
            have : ((W : ℚ) : ℝ) < (((((Cmax : ℚ)) + 1 / 2) * (10 : ℚ) ^ Emax : ℚ) : ℝ) := by exact_mod_cast hninf
            push_cast at this; exact this
          have hpE : (0 : ℝ) < (10 : ℝ) ^ Emax := zpow_pos (by norm_num) _
          have h41 : (((Cmax : ℝ)) + 1 / 2) * (10 : ℝ) ^ Emax * 2 < (10 : ℝ) ^ (Emax + 41) := by
            rw [zpow_add₀ (by norm_num : (10 : ℝ) ≠ 0)]
            have : ((Cmax : ℝ) + 1 / 2) * 2 < (10 : ℝ) ^ (41 : Int) := by
              have e41 : (10 : ℝ) ^ (41 : Int) = 10 ^ 41 := by norm_cast
              rw [e41]
              have := Cmax1_val
              nlinarith
            nlinarith
          linarith
        · -- the result is at least 10^Emin
          have hr1 : (10 : ℝ) ^ Emin ≤ ((c + 1 : ℕ) : ℝ) * (10 : ℝ) ^ e := by
            have h1 : (1 : ℝ) ≤ ((c + 1 : ℕ) : ℝ) := by exact_mod_cast Nat.succ_le_succ (Nat.zero_le c)
            have h2 : (10 : ℝ) ^ Emin ≤ (10 : ℝ) ^ e := zpow_le_zpow_right₀ (by norm_num) he0
            have hp : (0 : ℝ) < (10 : ℝ) ^ e := zpow_pos (by norm_num) _
            nlinarith
          -- T < 10^(Emin-40) forces ulpExp T = Emin
          have hp40 : (10 : ℝ) ^ (Emin - 40) * 10 ^ 40 = (10 : ℝ) ^ Emin := by
            rw [zpow_sub₀ (by norm_num : (10 : ℝ) ≠ 0)]
            have : (10 : ℝ) ^ (40 : Int) = 10 ^ 40 := by norm_cast
            rw [this]; field_simp
          have hpm : (0 : ℝ) < (10 : ℝ) ^ (Emin - 40) := zpow_pos (by norm_num) _
          have hue : ulpExp T = Emin := by
            apply le_antisymm _ (ulp_facts hT).1
            rw [ulpExp_le_iff hT]
            refine ⟨le_refl _, ?_⟩
            have := Cmax1_ge
            nlinarith
          rw [hue] at hsharp
          have := abs_le.1 hsharp
          -- r − T ≤ 10^Emin/2 + T/10^34
          have hT34 : T / 10 ^ 34 ≤ T := div_le_self hT.le (by norm_num)
          nlinarith [this.2]

/-- the same for the scaled form used by the rounding kernel theorems -/
theorem nearest_real_S {m : Mode} (hn : isNearest m = true) (neg : Bool) {q : ℚ} (k : Int) {T : ℝ}
    (hq : 0 < q) (hT : 0 < T) (hc : Close (q * (10 : ℚ) ^ k) T) :
    ¬ GeneralViolation (if neg then -T else T) (Spec.flushOrRoundS m neg q k) := by
  rw [flushOrRoundS_eq m neg q hq.le k]
  exact nearest_real hn neg (mul_pos hq (zpow_pos (by norm_num) _)) hT hc

end ExpAcc
