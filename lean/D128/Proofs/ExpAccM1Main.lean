/-
  D128/Proofs/ExpAccM1Main.lean — property C16: `Gen.Expm1` on its finite non-zero path.

  Provided (namespace `ExpAcc`):
  * `epowm1_facts` : `epowm1 (argOf d) sb l10 0 = .ok z` with `M1Facts sb |x| z`
  * `Expm1_ok`     : nearest default mode, finite non-zero `d = ±c·10^e`, and for a NEGATIVE argument
                     `2·10^-21 ≤ |x|`:  `∃ r, Gen.Expm1 g d = .ok r ∧ ¬ GeneralViolation (e^x − 1) 𝔳[r]`
                     and `|x| ≥ 10^6 → r = -1 resp. +Inf` (the huge-argument rule of the property)
  The hypothesis on negative arguments excludes the recorded defect `expm1-small-negative-cancellation`
  (`Expm1(x)` for `x < 0`, `|x| < 1e-22` is computed as `1/(1+s) − 1` and cancels); between `3·10^-22` (where the
  defect really starts) and `2·10^-21` the claim is true by test but not proved: `2·10^-21` is what the contract-level
  error bound of `rcp` (`2^-185` relative for the dropped divisor digits) allows; a sharper contract of `rcp` (only one
  divisor digit is dropped when the divisor is in [1, 3)) would give about `9·10^-22`.
-/
import D128.Proofs.ExpAccM1Neg
set_option autoImplicit false
set_option maxRecDepth 4096
set_option exponentiation.threshold 512

namespace ExpAcc
open Gen D192 Spec SpecRound EnclPf
local notation "𝔳[" d "]" => Spec.interp (Gen.Decimal.lo d) (Gen.Decimal.hi d)

/-- **`epowm1` against `e^(±|x|) − 1`** -/
theorem epowm1_facts (a : decomposed192) (l10 : Int16) (sb : Bool) (hpre : EpowPre a l10)
    (hl : l10.toInt = Nat.log 10 a.sig.toNat)
    (hsmall : sb = true → 2 / 10 ^ 21 ≤ val a) :
    ∃ z, decomposed192.epowm1 a sb l10 0 = .ok z ∧ M1Facts sb ((val a : ℚ) : ℝ) z := by
  obtain ⟨ho0, ho7, hx0, hx1, hxa, hx10⟩ := epow_arg a l10 hpre
  obtain ⟨m, tm, heq, hm1, hm2, htm, hmsz, hme1, hme0⟩ := epowm1_head a sb l10 0 hpre
  have hin : M1In a (epowX a l10) (epowO a l10) m tm :=
    { hx0 := hx0, hx1 := hx1, ho0 := ho0, ho7 := ho7, hxa := hxa, hx10 := hx10.imp id (fun h => h hl),
      hm1 := hm1, hm2 := hm2,
      htm := by rcases htm with h | h
                · left; exact h
                · right; exact h,
      hmsz := hmsz, hme1 := hme1, hme0 := hme0 }
  rw [heq]
  by_cases ho : epowO a l10 = 0
  · cases sb
    · exact m1_pos_small hin ho
    · refine m1_neg_small hin ho ?_
      have hav : val a = epowX a l10 := by
        rw [← hxa, ho]; simp [i16_zero_toInt]
      rw [← hav]; exact hsmall rfl
  · cases sb
    · exact m1_pos_big hin ho
    · exact m1_neg_big hin ho

/-- the sign-adjusted target -/
theorem target_sign (sb : Bool) (A : ℝ) (hA : 0 < A) :
    (if sb then -|Real.exp (if sb then -A else A) - 1| else |Real.exp (if sb then -A else A) - 1|)
      = Real.exp (if sb then -A else A) - 1 ∧ 0 < |Real.exp (if sb then -A else A) - 1| ∧
      (sb = true → |Real.exp (if sb then -A else A) - 1| < 1) := by
  cases sb
  · simp only [Bool.false_eq_true, if_false]
    have h1 : 0 < Real.exp A - 1 := by have := Real.add_one_le_exp A; linarith
    rw [abs_of_pos h1]
    exact ⟨rfl, h1, fun h => absurd h (by decide)⟩
  · simp only [if_true]
    have h0 : 0 < Real.exp (-A) := Real.exp_pos _
    have h1 : Real.exp (-A) < 1 := by rw [Real.exp_lt_one_iff]; linarith
    rw [abs_of_neg (by linarith)]
    exact ⟨by ring, by linarith, fun _ => by linarith⟩

/-- **`Gen.Expm1` on a finite non-zero argument** `d = ±c·10^e` (nearest default mode; negative arguments from
`2·10^-21` on in magnitude): no panic; the result is no `GeneralViolation` for `e^x − 1` (finite results within one
unit in the last place at the true result and of the right sign, `+Inf` only beyond the range); for `|x| ≥ 10^6`
the result is `−1` resp. `+Inf`. -/
theorem Expm1_ok (g : Globals) (m : Spec.Mode)
    (hm : Spec.Mode.ofNat? g.DefaultRoundingMode.toNat = some m) (hn : isNearest m = true)
    (d : Decimal) (h1 : Decimal.isSpecial d = false) (h2 : Decimal.IsZero d = false)
    (hsmall : Decimal.Signbit d = true → 2 / 10 ^ 21 ≤ val (argOf d)) :
    ∃ r, Gen.Expm1 g d = .ok r ∧
      ¬ GeneralViolation (Real.exp (if Decimal.Signbit d then -absArg d else absArg d) - 1) 𝔳[r] ∧
      ((10 : ℝ) ^ (6 : ℕ) ≤ absArg d → r = outM1 (Decimal.Signbit d)) := by
  rw [Expm1_fin g d h1 h2]
  have hA := absArg_pos d h1 h2
  by_cases hg : (d.decompose.2.toInt - 6176) > 5 - (Nat.log 10 d.decompose.1.toNat : Int)
  · -- |x| ≥ 10^6
    rw [if_pos hg]
    have hge := arg_ge_of_guard d h1 h2 5 (by exact_mod_cast hg)
    have hge' : (10 : ℝ) ^ (6 : ℕ) ≤ absArg d := by
      unfold absArg
      have : (((10 : ℚ) ^ (5 + 1) : ℚ) : ℝ) ≤ ((val (argOf d) : ℚ) : ℝ) := Rat.cast_le.2 hge
      push_cast at this; exact this
    have := exp_huge hge'
    exact ⟨_, rfl, outM1_ok _ _ (le_trans pow_6200_le_17000 this.le), fun _ => rfl⟩
  · rw [if_neg hg]
    have hpre := epowPre_of_guard d h1 h2 hg
    have hlt : ¬ ((10 : ℝ) ^ (6 : ℕ) ≤ absArg d) := by
      -- the guard was not taken: |x| < 10^6
      intro hbig
      obtain ⟨hc1, hcC, he0, he1⟩ := fin_facts d h1 h2
      obtain ⟨hb1, hb2⟩ := log_bounds d.decompose.1.toNat hc1
      have hv : val (argOf d) < (10 : ℚ) ^ (6 : ℕ) := by
        rw [val_argOf d h1]
        have hpe : (0 : ℚ) < (10 : ℚ) ^ (d.decompose.2.toInt - 6176) := zpow_pos (by norm_num) _
        have h10 : (10 : ℚ) ^ (d.decompose.2.toInt - 6176)
            ≤ (10 : ℚ) ^ ((5 : Int) - (Nat.log 10 d.decompose.1.toNat : Int)) :=
          zpow_le_zpow_right₀ (by norm_num) (by omega)
        have e1 : (10 : ℚ) ^ ((Nat.log 10 d.decompose.1.toNat : Int) + 1)
            * (10 : ℚ) ^ ((5 : Int) - (Nat.log 10 d.decompose.1.toNat : Int)) = (10 : ℚ) ^ (6 : ℕ) := by
          rw [← zpow_add₀ (by norm_num), ← zpow_natCast]; congr 1; push_cast; ring
        calc (d.decompose.1.toNat : ℚ) * (10 : ℚ) ^ (d.decompose.2.toInt - 6176)
            < (10 : ℚ) ^ ((Nat.log 10 d.decompose.1.toNat : Int) + 1) * (10 : ℚ) ^ (d.decompose.2.toInt - 6176) :=
              mul_lt_mul_of_pos_right hb2 hpe
          _ ≤ (10 : ℚ) ^ ((Nat.log 10 d.decompose.1.toNat : Int) + 1)
                * (10 : ℚ) ^ ((5 : Int) - (Nat.log 10 d.decompose.1.toNat : Int)) :=
              mul_le_mul_of_nonneg_left h10 (zpow_pos (by norm_num) _).le
          _ = (10 : ℚ) ^ (6 : ℕ) := e1
      have : ((val (argOf d) : ℚ) : ℝ) < (((10 : ℚ) ^ (6 : ℕ) : ℚ) : ℝ) := Rat.cast_lt.2 hv
      push_cast at this
      unfold absArg at hbig
      linarith
    obtain ⟨z, hz, hfacts⟩ := epowm1_facts (argOf d) _ (Decimal.Signbit d) hpre
      (by rw [conv_log _ d.decompose.1.toNat_lt, argOf_sig]) hsmall
    rw [hz]
    show ∃ r, (if z.2.1.exp.toInt > 6169 then _ else _) = Except.ok r ∧ _
    rcases hfacts with ⟨hbig, hhuge⟩ | ⟨hle, hsign, hs1, he0, hflag, hfl, hnear⟩
    · rw [if_pos hbig]
      exact ⟨_, rfl, outM1_ok _ _ hhuge, fun h => absurd h hlt⟩
    · rw [if_neg (by omega)]
      obtain ⟨t1, t2, t3⟩ := target_sign (Decimal.Signbit d) (absArg d) hA
      rw [hsign]
      obtain ⟨r, hr, hgv⟩ := expm1Round_ok g m hm hn (Decimal.Signbit d) z.2.1 z.2.2 _ t2 hs1 he0 (by omega)
        hflag hfl hnear t3
      rw [t1] at hgv
      exact ⟨r, hr, hgv, fun h => absurd h hlt⟩

end ExpAcc
