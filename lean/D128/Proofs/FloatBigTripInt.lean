/-
  D128/Proofs/FloatBigTripInt.lean — the round trip `FromFloat(d.Float(nil))` for integer-valued Decimals of any
  size, in the nearest modes (property C09, big.Float clauses).

  Provided (namespace `FB`):
  * `member_sep`           two different members of the Decimal format differ by at least `min/Cmax`
  * `roundTo_near_member`  nearest mode: `Spec.roundTo` of a number within `2^-128` (relative) of a positive member
                           is that member (same cohort as `roundTo` of the member itself)
  * `signed_nat`           numerator / denominator / sign of `±K`
  * `trip_integer`         nearest `DefaultRoundingMode`, `|d|` an integer (any size up to `Cmax·10^6111`):
                           `FromFloat(d.Float(nil))` is `Equal` to `d`
  (False in the directed modes: `cex_trip_away` in `FloatBigEx.lean`.)
-/
import D128.Proofs.FloatBigTrip
import D128.Proofs.SpecMeaningSelect
set_option autoImplicit false
set_option maxRecDepth 4096

namespace FB
open Go Go.BigFloat BF BigConv FromRatBound
local notation "𝔳[" d "]" => Spec.interp (Gen.Decimal.lo d) (Gen.Decimal.hi d)

/-- two different positive members of the Decimal format are at least `min/Cmax` apart -/
theorem member_sep {p q : ℚ} (hp : SpecRound.Member p) (hq : SpecRound.Member q)
    (hne : p ≠ q) : min p q ≤ (Spec.Cmax : ℚ) * |p - q| := by
  -- the one with the smaller exponent is at most Cmax·10^e, the difference at least 10^e
  have key : ∀ {p q : ℚ} {a b : ℕ} {e1 e2 : ℤ}, a ≤ Spec.Cmax → p = (a : ℚ) * (10 : ℚ) ^ e1 →
      q = (b : ℚ) * (10 : ℚ) ^ e2 → e1 ≤ e2 → p ≠ q → p ≤ (Spec.Cmax : ℚ) * |p - q| := by
    intro p q a b e1 e2 ha hp hq he hne
    obtain ⟨k, hk⟩ : ∃ k : ℕ, e2 - e1 = k := ⟨(e2 - e1).toNat, by omega⟩
    have hpe : (0 : ℚ) < (10 : ℚ) ^ e1 := zpow_pos (by norm_num) _
    have hq' : q = ((b * 10 ^ k : ℕ) : ℚ) * (10 : ℚ) ^ e1 := by
      rw [hq, show e2 = (k : ℤ) + e1 by omega, zpow_add₀ (by norm_num), zpow_natCast]; push_cast; ring
    have hdiff : p - q = (((a : ℤ) - ((b * 10 ^ k : ℕ) : ℤ) : ℤ) : ℚ) * (10 : ℚ) ^ e1 := by
      rw [hp, hq']; push_cast; ring
    have hz : ((a : ℤ) - ((b * 10 ^ k : ℕ) : ℤ)) ≠ 0 := by
      intro h; apply hne; rw [← sub_eq_zero, hdiff, h]; simp
    have h1 : (1 : ℚ) ≤ |((((a : ℤ) - ((b * 10 ^ k : ℕ) : ℤ) : ℤ)) : ℚ)| := by
      rw [← Int.cast_abs]; exact_mod_cast Int.one_le_abs hz
    have h2 : (10 : ℚ) ^ e1 ≤ |p - q| := by
      rw [hdiff, abs_mul, abs_of_pos hpe]
      calc (10 : ℚ) ^ e1 = 1 * (10 : ℚ) ^ e1 := (one_mul _).symm
        _ ≤ _ := mul_le_mul_of_nonneg_right h1 hpe.le
    calc p = (a : ℚ) * (10 : ℚ) ^ e1 := hp
      _ ≤ (Spec.Cmax : ℚ) * (10 : ℚ) ^ e1 := mul_le_mul_of_nonneg_right (by exact_mod_cast ha) hpe.le
      _ ≤ (Spec.Cmax : ℚ) * |p - q| := mul_le_mul_of_nonneg_left h2 (Nat.cast_nonneg _)
  obtain ⟨a, e1, ha, -, -, hpa⟩ := hp
  obtain ⟨b, e2, hb, -, -, hqb⟩ := hq
  rcases le_total e1 e2 with h | h
  · exact le_trans (min_le_left _ _) (key ha hpa hqb h hne)
  · have := key hb hqb hpa h (Ne.symm hne)
    rw [abs_sub_comm] at this
    exact le_trans (min_le_right _ _) this

theorem near_arith1 (t C N K X : ℚ) (ht0 : 0 < t) (c128 : t * C ≤ 1 / 8) (hNmax : N ≤ C * X) (hX : 0 < X)
    (hKle : K ≤ N + t * N) : K < (C + 1 / 2) * X := by
  have h3 : t * N ≤ X / 4 := by
    calc t * N ≤ t * (C * X) := mul_le_mul_of_nonneg_left hNmax ht0.le
      _ = (t * C) * X := by ring
      _ ≤ 1 / 8 * X := mul_le_mul_of_nonneg_right c128 hX.le
      _ ≤ X / 4 := by linarith
  nlinarith

theorem near_arith2 (t C N x : ℚ) (hN : 0 < N) (ht0 : 0 < t) (ht8 : t ≤ 1 / 8) (hC : 0 ≤ C)
    (c128 : t * C ≤ 1 / 8) (hxN : |x - N| ≤ 2 * (t * N)) (hsep : min x N ≤ C * |x - N|) : False := by
  have hxge : N - 2 * (t * N) ≤ x := by have := (abs_le.1 hxN).1; linarith
  have hmin : N / 2 ≤ min x N := by
    apply le_min
    · nlinarith
    · linarith
  have h4 : C * |x - N| ≤ C * (2 * (t * N)) := mul_le_mul_of_nonneg_left hxN hC
  have h5 : C * (2 * (t * N)) = 2 * (t * C) * N := by ring
  have h6 : 2 * (t * C) * N ≤ 2 * (1 / 8) * N := by nlinarith
  linarith

/-- a nearest rounding of a number within `2^-128` (relative) of a positive member returns that member -/
theorem roundTo_near_member {m : Spec.Mode} (hnear : SpecRound.isNearest m = true) (sg : Bool)
    {c : ℕ} {e : ℤ} (hc0 : 0 < c) (hc : c ≤ Spec.Cmax) (he1 : Spec.Emin ≤ e) (he2 : e ≤ Spec.Emax)
    (K : ℚ) (hK : 0 < K)
    (hclose : |K - (c : ℚ) * (10 : ℚ) ^ e| ≤ (2 : ℚ) ^ (-128 : ℤ) * ((c : ℚ) * (10 : ℚ) ^ e)) :
    (Spec.roundTo m sg K).same (Spec.roundTo m sg ((c : ℚ) * (10 : ℚ) ^ e)) = true := by
  set N : ℚ := (c : ℚ) * (10 : ℚ) ^ e with hN
  have hNpos : 0 < N := mul_pos (by exact_mod_cast hc0) (zpow_pos (by norm_num) _)
  have hNmem : SpecRound.Member N := ⟨c, e, hc, he1, he2, rfl⟩
  have hNmax : N ≤ (Spec.Cmax : ℚ) * (10 : ℚ) ^ Spec.Emax :=
    mul_le_mul (by exact_mod_cast hc) (zpow_le_zpow_right₀ (by norm_num) he2)
      (zpow_pos (by norm_num) _).le (Nat.cast_nonneg _)
  have hTpos : (0 : ℚ) < (10 : ℚ) ^ Spec.Emax := zpow_pos (by norm_num) _
  have c128 : (2 : ℚ) ^ (-128 : ℤ) * (Spec.Cmax : ℚ) ≤ 1 / 8 := by unfold Spec.Cmax; norm_num
  have ht0 : (0 : ℚ) < (2 : ℚ) ^ (-128 : ℤ) := two_zpow_pos _
  have ht8 : (2 : ℚ) ^ (-128 : ℤ) ≤ 1 / 8 := by norm_num
  have hCpos : (0 : ℚ) ≤ (Spec.Cmax : ℚ) := Nat.cast_nonneg _
  have hKle : K ≤ N + (2 : ℚ) ^ (-128 : ℤ) * N := by have := (abs_le.1 hclose).2; linarith
  -- K is below the overflow threshold
  have hKT : K < ((Spec.Cmax : ℚ) + 1 / 2) * (10 : ℚ) ^ Spec.Emax :=
    near_arith1 _ _ N K _ ht0 c128 hNmax hTpos hKle
  obtain ⟨c', e', hA', hc', he1', he2'⟩ := SpecRound.roundTo_fin_of_lt_half hnear sg hK hKT
  obtain ⟨cA, eA, hA, hvA, -⟩ := SpecRound.roundTo_exact m sg hc0 hc he1 he2
  rw [← hN] at hA hvA
  -- the signed numbers
  set r : ℚ := if sg then -K else K with hr
  have hr0 : r ≠ 0 := by rw [hr]; cases sg <;> simp [hK.ne']
  have hrneg : decide (r < 0) = sg := by
    rw [hr]; cases sg
    · simp only [Bool.false_eq_true, if_false]; exact decide_eq_false (not_lt.2 hK.le)
    · simp only [if_true]; exact decide_eq_true (by linarith)
  have hrabs : |r| = K := by
    rw [hr]; cases sg
    · simp only [Bool.false_eq_true, if_false]; exact abs_of_pos hK
    · simp only [if_true, abs_neg]; exact abs_of_pos hK
  have hsel := SpecMeaning.roundTo_selected m hr0
  rw [hrneg, hrabs, hA'] at hsel
  -- N, with the sign, is a value
  have hvalN : SpecMeaning.IsValue (Spec.Val.fin sg c e).toRat := SpecMeaning.isValue_fin hc he1 he2
  have hm' : m = .nearestEven ∨ m = .nearestAway := by
    cases m <;> simp [SpecRound.isNearest] at hnear <;> simp
  have hnr := hsel.nearest hm' rfl _ hvalN
  -- reduce to magnitudes
  have hmag : |(c' : ℚ) * (10 : ℚ) ^ e' - K| ≤ |N - K| := by
    rw [SpecMeaning.toRat_fin', SpecMeaning.toRat_fin', hr] at hnr
    cases sg
    · simpa using hnr
    · simp only [if_true] at hnr
      rw [show -((c' : ℚ) * (10 : ℚ) ^ e') - -K = -((c' : ℚ) * (10 : ℚ) ^ e' - K) by ring,
        show -((c : ℚ) * (10 : ℚ) ^ e) - -K = -(N - K) by rw [hN]; ring, abs_neg, abs_neg] at hnr
      exact hnr
  set x : ℚ := (c' : ℚ) * (10 : ℚ) ^ e' with hx
  have hxmem : SpecRound.Member x := ⟨c', e', hc', he1', he2', rfl⟩
  have hNK : |N - K| ≤ (2 : ℚ) ^ (-128 : ℤ) * N := by rw [abs_sub_comm]; exact hclose
  have hxN : |x - N| ≤ 2 * ((2 : ℚ) ^ (-128 : ℤ) * N) := by
    have := abs_sub_le x K N
    rw [abs_sub_comm K N] at this
    linarith
  -- separation
  have hxeq : x = N := by
    by_contra hne
    exact near_arith2 _ _ N x hNpos ht0 ht8 hCpos c128 hxN (member_sep hxmem hNmem hne)
  rw [hA', hA]
  simp only [Spec.Val.same, Spec.mag, SpecRound.pow10_eq_zpow, beq_self_eq_true, Bool.true_and, beq_iff_eq]
  rw [← hx, hxeq, hvA]

/-- numerator, denominator and sign of a signed natural number -/
theorem signed_nat (sg : Bool) (K : ℕ) (hK : 0 < K) (r : ℚ) (hr : r = if sg then -(K : ℚ) else (K : ℚ)) :
    r.num.natAbs = K ∧ r.den = 1 ∧ decide (r.num < 0) = sg ∧ r ≠ 0 := by
  cases sg
  · simp only [Bool.false_eq_true, if_false] at hr
    subst hr
    refine ⟨by rw [Rat.num_natCast, Int.natAbs_natCast], Rat.den_natCast K, ?_, by exact_mod_cast hK.ne'⟩
    rw [Rat.num_natCast]; exact decide_eq_false (by omega)
  · simp only [if_true] at hr
    subst hr
    refine ⟨by rw [Rat.neg_num, Rat.num_natCast, Int.natAbs_neg, Int.natAbs_natCast],
      by rw [Rat.den_neg_eq_den, Rat.den_natCast], ?_, by
        have : ((K : ℕ) : ℚ) ≠ 0 := by exact_mod_cast hK.ne'
        exact neg_ne_zero.2 this⟩
    rw [Rat.neg_num, Rat.num_natCast]; exact decide_eq_true (by omega)

/-- **round trip, integers.**  In a nearest `DefaultRoundingMode` EVERY integer-valued finite `d` (all
    `c·10^e`, `e ≥ 0`, up to `Cmax·10^6111`) comes back `Equal` from `FromFloat(d.Float(nil))`: the 128-bit
    rounding moves the integer by at most `2^-128` (relative), it stays an integer, and the 34-digit rounding of
    `FromInt` returns to `d` because two members of the format are at least `1/Cmax` (relative) apart. -/
theorem trip_integer (g : Globals) (d : Gen.Decimal) (m : Spec.Mode)
    (hm : Spec.Mode.ofNat? g.DefaultRoundingMode.toNat = some m) (hnear : SpecRound.isNearest m = true)
    (hs : Gen.Decimal.isSpecial d = false) (n : ℕ) (hv : |(𝔳[d]).toRat| = (n : ℚ)) :
    ∃ F d', Gen.Decimal.Float d none = .ok F ∧ Gen.FromFloat g F = .ok d' ∧
      Spec.equal 𝔳[d'] 𝔳[d] = true := by
  by_cases hn : n < 2 ^ 128
  · exact trip_int g d m hm hs n hn hv
  have hn' : 2 ^ 128 ≤ n := not_lt.1 hn
  have hnpos : 0 < n := lt_of_lt_of_le (by norm_num) hn'
  set v := (𝔳[d]).toRat with hvdef
  have hq : 0 < |v| := by rw [hv]; exact_mod_cast hnpos
  have hz : v ≠ 0 := abs_pos.1 hq
  set sg := Gen.Decimal.Signbit d with hsg
  set R := roundBits 128 0 sg |v| with hR
  have hRpos : 0 < R := roundBits_pos 128 0 sg |v| (by norm_num) hq
  have hFloat := Float_nil_nonzero d hs hz
  rw [← hvdef, ← hsg, ← hR] at hFloat
  set F : BigFloat := ⟨128, 0, .finite, sg, R⟩ with hF
  -- R is a natural number K
  obtain ⟨e1, e2⟩ := exponent_spec |v| hq
  have hexp : 128 < exponent |v| := by
    have h1 : (2 : ℚ) ^ (128 : ℤ) ≤ |v| := by
      rw [hv, show (128 : ℤ) = ((128 : ℕ) : ℤ) from rfl, zpow_natCast]; exact_mod_cast hn'
    exact (zpow_lt_zpow_iff_right₀ (by norm_num : (1 : ℚ) < 2)).1 (lt_of_le_of_lt h1 e2)
  obtain ⟨k, -, hRk⟩ := roundBits_dyadic 128 0 sg |v| (by norm_num) hq
  rw [← hR] at hRk
  set u : ℤ := exponent |v| - ((128 : ℕ) : ℤ) with hu
  have hu0 : 0 ≤ u := by omega
  set K : ℕ := k * 2 ^ u.toNat with hK
  have hRK : R = (K : ℚ) := by
    rw [hRk, hK]; push_cast
    rw [← zpow_natCast, Int.toNat_of_nonneg hu0]
  have hKpos : 0 < K := by
    have : (0 : ℚ) < (K : ℚ) := by rw [← hRK]; exact hRpos
    exact_mod_cast this
  have herr := roundBits_rel_err_nearest 128 0 sg |v| (Or.inl rfl) (by norm_num) hq
  rw [← hR, hRK, hv] at herr
  -- the two signed numbers
  have hvs : v = if sg then -(n : ℚ) else (n : ℚ) := by
    have := value_signed d hs
    rw [← hvdef, ← hsg, hv] at this; exact this
  have hrs : fvalue F = if sg then -(K : ℚ) else (K : ℚ) := by
    unfold fvalue; rw [← hRK]
  obtain ⟨vn, vd, vsg, vne⟩ := signed_nat sg n hnpos v hvs
  obtain ⟨rn, rd, rsg, rne⟩ := signed_nat sg K hKpos (fvalue F) hrs
  -- FromRat on both
  have hbits : ∀ j : ℕ, (j : ℚ) < T → Go.Big.bitLen j < 2 ^ 63 := by
    intro j hj
    have h1 : (j : ℚ) < ((Spec.Cmax : ℚ) + 1) * (10 : ℚ) ^ Spec.Emax := by
      refine lt_trans hj ?_
      unfold T
      have : (0 : ℚ) < (10 : ℚ) ^ Spec.Emax := zpow_pos (by norm_num) _
      nlinarith
    exact bitLen_of_lt_max h1
  have hmax := abs_value_le d hs
  rw [← hvdef, hv] at hmax
  have hTpos : (0 : ℚ) < (10 : ℚ) ^ Spec.Emax := zpow_pos (by norm_num) _
  have hnT : (n : ℚ) < T := by unfold T; linarith
  have c128 : (2 : ℚ) ^ (-128 : ℤ) * (Spec.Cmax : ℚ) ≤ 1 / 8 := by unfold Spec.Cmax; norm_num
  have hKT : (K : ℚ) < T := by
    have hKle : (K : ℚ) ≤ (n : ℚ) + (2 : ℚ) ^ (-128 : ℤ) * (n : ℚ) := by
      have := (abs_le.1 herr).2
      have e : (2 : ℚ) ^ (-((128 : ℕ) : ℤ)) = (2 : ℚ) ^ (-128 : ℤ) := rfl
      rw [e] at this; linarith
    exact near_arith1 _ _ _ _ _ (two_zpow_pos _) c128 hmax hTpos hKle
  have h1bits : Go.Big.bitLen 1 < 2 ^ 63 := by decide
  obtain ⟨d', hd', s'⟩ := FromRat_spec' g (fvalue F) m hm (by rw [rn]; exact hbits K hKT)
    (by rw [rd]; exact h1bits) rne
  obtain ⟨dv, hdv, sv⟩ := FromRat_spec' g v m hm (by rw [vn]; exact hbits n hnT)
    (by rw [vd]; exact h1bits) vne
  rw [rn, rd, rsg] at s'
  rw [vn, vd, vsg] at sv
  -- the round trip through Rat
  have hden1 : MemberNat v.den := by rw [vd]; exact memberNat_of_le (by unfold Spec.Cmax; norm_num)
  obtain ⟨q0, dq, -, hq0, hdq, heq, -⟩ := FromRat_Rat g d 0 m hm hs hden1
  rw [hq0, ← hvdef, hdv] at hdq
  have hdd : dv = dq := by injection hdq
  subst hdd
  -- the numerators round to the same member
  have hc := Enc.decompose_sig_le d
  have h0 := Enc.decompose_exp_nonneg d
  have h1 := Enc.decompose_exp_le d hs
  have hval : (n : ℚ) = ((Gen.Decimal.decompose d).1.toNat : ℚ) *
      (10 : ℚ) ^ ((Gen.Decimal.decompose d).2.toInt - 6176) := by
    rw [← hv, hvdef, Enc.interp_decompose d hs, abs_toRat_fin]
  have hc0 : 0 < (Gen.Decimal.decompose d).1.toNat := by
    rcases Nat.eq_zero_or_pos (Gen.Decimal.decompose d).1.toNat with h | h
    · rw [h] at hval; simp at hval; omega
    · exact h
  have hsame := roundTo_near_member hnear sg hc0 hc (e := (Gen.Decimal.decompose d).2.toInt - 6176)
    (by unfold Spec.Emin; omega) (by unfold Spec.Emax; omega) (K : ℚ) (by exact_mod_cast hKpos)
    (by rw [← hval]; exact herr)
  rw [← hval] at hsame
  have hq2 := Cohort.quo_congr m hsame (Cohort.same_refl (Spec.roundTo m false ((1 : ℕ) : ℚ)))
  have hfin : (𝔳[d']).same 𝔳[dv] = true :=
    Cohort.same_trans s' (Cohort.same_trans hq2 (Cohort.same_symm' sv))
  refine ⟨F, d', hFloat, by rw [FromFloat_eq_FromRat g F rfl]; exact hd', ?_⟩
  rw [Cohort.equal_congr_num (Cohort.sameNum_of_same hfin) (Cohort.sameNum_refl _)]
  exact heq

end FB
