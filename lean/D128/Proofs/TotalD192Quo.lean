/-
  D128.Proofs.TotalD192Quo — totality (termination, no panic) of `decomposed192.quo` and
  `decomposed192.rcp` (C20), relative to the correctness of the general 192-bit division
  `Gen.U192.div` (hypothesis `DivSpec`, discharged in `TotalDiv192`/`TotalD192QuoMain`).

  * `DivSpec`, `div_lin`
  * `d192_quo_triple` : `DivSpec → ⦃o.sig ≠ 0⦄ quo d o t ⦃r => (d.sig ≠ 0 → r.1.sig ≠ 0) ∧ (r.2 = t ∨ r.2 = 1)⦄`
  * `d192_rcp_triple` : `DivSpec → ⦃d.sig ≠ 0⦄ rcp d t ⦃r => r.1.sig ≠ 0 ∧ (r.2 = t ∨ r.2 = 1)⦄`
  Termination of the refinement loop `for rem != 0 && sig[2] <= …`: the quotient significand strictly
  increases in every pass (either it is scaled by ≥ 10, or — when the remainder is already
  normalised — the next quotient digit block `rem / o` is ≥ 1 because the divisor was reduced below
  the normalisation threshold; an overflow into the fourth word is divided back to ≥ 2^192/10,
  which is above the loop threshold).  With a zero divisor `U192.div` panics (Go: integer divide by
  zero), hence the preconditions.
-/
import D128.Proofs.TotalBase
set_option autoImplicit false
set_option mvcgen.warning false
set_option exponentiation.threshold 512
namespace D128.Proofs.Total
open Std.Do
open D128.Proofs.WordsWide

/-- exact correctness of the general 192-bit division (proved in `TotalDiv192`) -/
def DivSpec : Prop := ∀ n o : U192, o.toNat ≠ 0 →
  ∃ q r, Gen.U192.div n o = .ok (q, r) ∧ q.toNat = n.toNat / o.toNat ∧ r.toNat = n.toNat % o.toNat

/-- the linear consequences of `DivSpec` that the termination arguments use -/
theorem div_lin (hdiv : DivSpec) (n o : U192) :
    ⦃⌜o.toNat ≠ 0⌝⦄ Gen.U192.div n o
    ⦃⇓ x => ⌜x.2.toNat < o.toNat ∧ (o.toNat ≤ n.toNat → 1 ≤ x.1.toNat) ∧ x.1.toNat ≤ n.toNat⌝⦄ := by
  apply triple_of_ok_pre
  intro ho
  obtain ⟨q, r, e, hq, hr⟩ := hdiv n o ho
  refine ⟨(q, r), e, ?_, ?_, ?_⟩
  · rw [hr]; exact Nat.mod_lt _ (Nat.pos_of_ne_zero ho)
  · intro h; rw [hq]; exact Nat.div_pos h (Nat.pos_of_ne_zero ho)
  · rw [hq]; exact Nat.div_le_self _ _

theorem d192_quo_triple (hdiv : DivSpec) (d o : Gen.decomposed192) (trunc : Int8) :
    ⦃⌜o.sig.toNat ≠ 0⌝⦄ Gen.decomposed192.quo d o trunc
    ⦃⇓ r => ⌜(d.sig.toNat ≠ 0 → r.1.sig.toNat ≠ 0) ∧ (r.2 = trunc ∨ r.2 = 1)⌝⦄ := by
  have hd := div_lin hdiv
  mvcgen [Gen.decomposed192.quo, hd]
  case inv1 | inv3 | inv5 => exact fun st => ⟨2^192 - st.sig.toNat⟩
  case inv2 | inv4 => exact ⇓ x => match x with
    | .inl st => ⌜st.sig.toNat ≠ 0⌝
    | .inr st => ⌜st.sig.toNat ≠ 0⌝
  case inv6 => exact ⇓ x => match x with
    | .inl st => ⌜st.sig.toNat ≠ 0⌝
    | .inr st => ⌜1801439850948198400 * 2^128 ≤ st.sig.toNat⌝
  case inv7 => exact fun st => ⟨st.1.sig.toNat⟩
  case inv8 => exact ⇓ x => match x with
    | .inl st => ⌜st.1.sig.toNat ≠ 0 ∧ (st.2 = trunc ∨ st.2 = 1)⌝
    | .inr st => ⌜st.1.sig.toNat ≠ 0 ∧ (st.2 = trunc ∨ st.2 = 1) ∧
        st.1.sig.toNat < 1801439850948198399 * 2^128⌝
  case inv9 => exact fun st => ⟨2^192 - st.2.1.toNat⟩
  case inv10 => exact ⇓ x => match x with
    | .inl st => ⌜1 ≤ st.2.1.toNat ∧ (st.1 = trunc ∨ st.1 = 1)⌝
    | .inr st => ⌜1 ≤ st.2.1.toNat ∧ (st.1 = trunc ∨ st.1 = 1)⌝
  case inv11 | inv13 => exact fun st => ⟨2^192 - st.1.toNat⟩
  case inv12 => exact ⇓ x => match x with
    | .inl st => ⌜st.2.1.toNat ≠ 0 ∧ 1 ≤ st.1.toNat ∧
        ((st.1.toNat = (‹Int8 × U192 × U192 × Int16›).2.1.toNat ∧
            st.2.1.toNat = (‹Int8 × U192 × U192 × Int16›).2.2.1.toNat) ∨
          10 * (‹Int8 × U192 × U192 × Int16›).2.1.toNat ≤ st.1.toNat)⌝
    | .inr st => ⌜st.2.1.toNat ≠ 0 ∧ 1 ≤ st.1.toNat ∧
        ((st.1.toNat = (‹Int8 × U192 × U192 × Int16›).2.1.toNat ∧
            st.2.1.toNat = (‹Int8 × U192 × U192 × Int16›).2.2.1.toNat) ∨
          10 * (‹Int8 × U192 × U192 × Int16›).2.1.toNat ≤ st.1.toNat)⌝
  case inv14 => exact ⇓ x => match x with
    | .inl st => ⌜st.2.1.toNat ≠ 0 ∧ 1 ≤ st.1.toNat ∧
        ((st.1.toNat = (‹Int8 × U192 × U192 × Int16›).2.1.toNat ∧
            st.2.1.toNat = (‹Int8 × U192 × U192 × Int16›).2.2.1.toNat) ∨
          10 * (‹Int8 × U192 × U192 × Int16›).2.1.toNat ≤ st.1.toNat)⌝
    | .inr st => ⌜st.2.1.toNat ≠ 0 ∧ 1 ≤ st.1.toNat ∧
        ((st.1.toNat = (‹Int8 × U192 × U192 × Int16›).2.1.toNat ∧
            st.2.1.toNat = (‹Int8 × U192 × U192 × Int16›).2.2.1.toNat) ∨
          10 * (‹Int8 × U192 × U192 × Int16›).2.1.toNat ≤ st.1.toNat) ∧
        (1801439850948198400 * 2^128 ≤ st.2.1.toNat ∨ 1801439850948198400 * 2^128 ≤ st.1.toNat)⌝
  case inv15 => exact fun st => ⟨st.2.2.toNat⟩
  case inv16 => exact ⇓ x => match x with
    | .inl st => ⌜(st.1 = (‹Int8 × U192 × U192 × Int16›).1 ∨ st.1 = 1) ∧
        (st.2.2.toNat = (‹U192 × U192 × Int16›).1.toNat + (‹U192 × U192›).1.toNat ∨
          (2^192 ≤ (‹U192 × U192 × Int16›).1.toNat + (‹U192 × U192›).1.toNat ∧
           st.2.2.toNat = ((‹U192 × U192 × Int16›).1.toNat + (‹U192 × U192›).1.toNat) / 10))⌝
    | .inr st => ⌜(st.1 = (‹Int8 × U192 × U192 × Int16›).1 ∨ st.1 = 1) ∧ st.2.2.toNat < 2^192 ∧
        (st.2.2.toNat = (‹U192 × U192 × Int16›).1.toNat + (‹U192 × U192›).1.toNat ∨
          (2^192 ≤ (‹U192 × U192 × Int16›).1.toNat + (‹U192 × U192›).1.toNat ∧
           st.2.2.toNat = ((‹U192 × U192 × Int16›).1.toNat + (‹U192 × U192›).1.toNat) / 10))⌝
  all_goals (simp +zetaDelta at *)
  all_goals d192_prep
  all_goals d192_fin

theorem d192_rcp_triple (hdiv : DivSpec) (d : Gen.decomposed192) (trunc : Int8) :
    ⦃⌜d.sig.toNat ≠ 0⌝⦄ Gen.decomposed192.rcp d trunc
    ⦃⇓ r => ⌜r.1.sig.toNat ≠ 0 ∧ (r.2 = trunc ∨ r.2 = 1)⌝⦄ := by
  have hd := div_lin hdiv
  mvcgen [Gen.decomposed192.rcp, hd]
  case inv1 => exact fun st => ⟨st.1.sig.toNat⟩
  case inv2 => exact ⇓ x => match x with
    | .inl st => ⌜st.1.sig.toNat ≠ 0 ∧ (st.2 = trunc ∨ st.2 = 1)⌝
    | .inr st => ⌜st.1.sig.toNat ≠ 0 ∧ (st.2 = trunc ∨ st.2 = 1) ∧
        st.1.sig.toNat < 1801439850948198399 * 2^128⌝
  case inv3 => exact fun st => ⟨2^192 - st.2.1.toNat⟩
  case inv4 => exact ⇓ x => match x with
    | .inl st => ⌜1 ≤ st.2.1.toNat ∧ (st.1 = trunc ∨ st.1 = 1)⌝
    | .inr st => ⌜1 ≤ st.2.1.toNat ∧ (st.1 = trunc ∨ st.1 = 1)⌝
  case inv5 | inv7 => exact fun st => ⟨2^192 - st.1.toNat⟩
  case inv6 => exact ⇓ x => match x with
    | .inl st => ⌜st.2.1.toNat ≠ 0 ∧ 1 ≤ st.1.toNat ∧
        ((st.1.toNat = (‹Int8 × U192 × U192 × Int16›).2.1.toNat ∧
            st.2.1.toNat = (‹Int8 × U192 × U192 × Int16›).2.2.1.toNat) ∨
          10 * (‹Int8 × U192 × U192 × Int16›).2.1.toNat ≤ st.1.toNat)⌝
    | .inr st => ⌜st.2.1.toNat ≠ 0 ∧ 1 ≤ st.1.toNat ∧
        ((st.1.toNat = (‹Int8 × U192 × U192 × Int16›).2.1.toNat ∧
            st.2.1.toNat = (‹Int8 × U192 × U192 × Int16›).2.2.1.toNat) ∨
          10 * (‹Int8 × U192 × U192 × Int16›).2.1.toNat ≤ st.1.toNat)⌝
  case inv8 => exact ⇓ x => match x with
    | .inl st => ⌜st.2.1.toNat ≠ 0 ∧ 1 ≤ st.1.toNat ∧
        ((st.1.toNat = (‹Int8 × U192 × U192 × Int16›).2.1.toNat ∧
            st.2.1.toNat = (‹Int8 × U192 × U192 × Int16›).2.2.1.toNat) ∨
          10 * (‹Int8 × U192 × U192 × Int16›).2.1.toNat ≤ st.1.toNat)⌝
    | .inr st => ⌜st.2.1.toNat ≠ 0 ∧ 1 ≤ st.1.toNat ∧
        ((st.1.toNat = (‹Int8 × U192 × U192 × Int16›).2.1.toNat ∧
            st.2.1.toNat = (‹Int8 × U192 × U192 × Int16›).2.2.1.toNat) ∨
          10 * (‹Int8 × U192 × U192 × Int16›).2.1.toNat ≤ st.1.toNat) ∧
        (1801439850948198400 * 2^128 ≤ st.2.1.toNat ∨ 1801439850948198400 * 2^128 ≤ st.1.toNat)⌝
  case inv9 => exact fun st => ⟨st.2.2.toNat⟩
  case inv10 => exact ⇓ x => match x with
    | .inl st => ⌜(st.1 = (‹Int8 × U192 × U192 × Int16›).1 ∨ st.1 = 1) ∧
        (st.2.2.toNat = (‹U192 × U192 × Int16›).1.toNat + (‹U192 × U192›).1.toNat ∨
          (2^192 ≤ (‹U192 × U192 × Int16›).1.toNat + (‹U192 × U192›).1.toNat ∧ st.2.2.toNat = ((‹U192 × U192 × Int16›).1.toNat + (‹U192 × U192›).1.toNat) / 10))⌝
    | .inr st => ⌜(st.1 = (‹Int8 × U192 × U192 × Int16›).1 ∨ st.1 = 1) ∧ st.2.2.toNat < 2^192 ∧
        (st.2.2.toNat = (‹U192 × U192 × Int16›).1.toNat + (‹U192 × U192›).1.toNat ∨
          (2^192 ≤ (‹U192 × U192 × Int16›).1.toNat + (‹U192 × U192›).1.toNat ∧ st.2.2.toNat = ((‹U192 × U192 × Int16›).1.toNat + (‹U192 × U192›).1.toNat) / 10))⌝
  all_goals (simp +zetaDelta at *)
  all_goals d192_prep
  all_goals d192_fin

end D128.Proofs.Total
