/-
  D128/Proofs/TotalDiv192.lean — full correctness (hence panic-freedom for a non-zero divisor) of the
  generated 192-by-192-bit division `Gen.U192.div` (/repo/int.go `func (n uint192) div(o uint192)`).

  * `U192_div_spec`   : o.toNat ≠ 0 →
        ∃ q r, Gen.U192.div n o = .ok (q, r) ∧ q.toNat = n.toNat / o.toNat ∧ r.toNat = n.toNat % o.toNat
  * `U192_div_zero`   : o.toNat = 0 → Gen.U192.div n o = .error .divZero
  * `U192_div_triple` : the `@[spec]` Hoare triple (precondition o.toNat ≠ 0)

  Structure: `TotalDiv192Code` (staged normal form of the generated code, `U192_div_staged`),
  `TotalDiv192Nat` (pure arithmetic), `TotalDiv192A` (final correction, digit correction, path A),
  `TotalDiv192B` (paths C, B1, B2), `TotalDiv192C` (path B3).
-/
import D128.Proofs.TotalDiv192C

set_option autoImplicit false
set_option maxRecDepth 4096

namespace D128.Proofs.Total
open D128.Proofs.WordsWide
open Std.Do

theorem maxU64_toNat : (18446744073709551615 : UInt64).toNat = 2^64 - 1 := by decide

/-- `uint192.div`: for a non-zero divisor it never panics and returns exactly quotient and
remainder. -/
theorem U192_div_spec (n o : U192) (ho : o.toNat ≠ 0) :
    ∃ q r, Gen.U192.div n o = .ok (q, r)
      ∧ q.toNat = n.toNat / o.toNat ∧ r.toNat = n.toNat % o.toNat := by
  rw [U192_div_staged]
  unfold divStaged
  by_cases h2 : o.w2 = 0
  · rw [if_pos (by simpa using h2)]
    by_cases h1 : o.w1 = 0
    · rw [if_pos (by simpa using h1)]
      exact pathA_spec n o h2 h1 ho
    · rw [if_neg (by simpa using h1)]
      by_cases hn2 : n.w2 = 0
      · rw [if_pos (by simpa using hn2)]
        exact pathB1_spec n o h2 h1 hn2 ho
      · rw [if_neg (by simpa using hn2)]
        by_cases hlt : n.w2 < o.w1
        · rw [if_pos (by simpa using hlt)]
          exact pathB2_spec n o h2 h1 (UInt64.lt_iff_toNat_lt.mp hlt) ho
        · rw [if_neg (by simpa using hlt)]
          exact pathB3_spec _ n o maxU64_toNat h2 h1 ho
  · rw [if_neg (by simpa using h2)]
    exact pathC_spec n o h2 ho

example : ∃ n o : U192, o.toNat ≠ 0 ∧ o.w2 = 0 ∧ o.w1 ≠ 0 ∧ ¬ n.w2 < o.w1 :=
  ⟨⟨5, 6, 7⟩, ⟨1, 2, 0⟩, by decide, rfl, by decide, by decide⟩

/-- dividing by zero panics with Go's integer-divide-by-zero (from `bits.Div64`). -/
theorem U192_div_zero (n o : U192) (ho : o.toNat = 0) :
    Gen.U192.div n o = .error .divZero := by
  have hb := U192.bounds o
  have h0 : o.w0 = 0 := by
    apply UInt64.toNat_inj.mp; simp only [U192.toNat] at ho; simp; omega
  have h1 : o.w1 = 0 := by
    apply UInt64.toNat_inj.mp; simp only [U192.toNat] at ho; simp; omega
  have h2 : o.w2 = 0 := by
    apply UInt64.toNat_inj.mp; simp only [U192.toNat] at ho; simp; omega
  rw [U192_div_staged]
  unfold divStaged
  rw [if_pos (by simpa using h2), if_pos (by simpa using h1), pathA_eq, h0]
  simp [Go.bits.Div64]
  rfl

@[spec] theorem U192_div_triple (n o : U192) :
    ⦃⌜o.toNat ≠ 0⌝⦄ Gen.U192.div n o
    ⦃⇓ x => ⌜x.1.toNat = n.toNat / o.toNat ∧ x.2.toNat = n.toNat % o.toNat⌝⦄ := by
  by_cases ho : o.toNat ≠ 0
  · obtain ⟨q, r, e, hq, hr⟩ := U192_div_spec n o ho
    have := Go.triple_of_ok e
      (Q := fun x => x.1.toNat = n.toNat / o.toNat ∧ x.2.toNat = n.toNat % o.toNat) ⟨hq, hr⟩
    simpa [ho] using this
  · simp [Triple, ho]

end D128.Proofs.Total
