/-
  D128/Proofs/CohortElemLog.lean — property C19 for `Log`, `Log2`, `Log10` on the general path (finite, non-zero,
  positive argument): the result does not depend on the encoding of the operand, bit for bit, for every default
  rounding mode.

  `decomposed192.log` first reduces its argument to `(exp, msd, d1)`: the decimal exponent `exp = d.exp + ⌊log10 sig⌋`,
  the two leading digits `msd`, and the significand scaled up to full width (`LogAcc.logScale`) with exponent
  `-⌊log10 sig⌋ - …`; everything after that (`LogAcc.logMain`) is a function of this triple, and the triple is a
  function of the VALUE of the argument.

  Provided (namespace `CohortElem`):
  * `msd2_congr`   : the leading-digit pair of `n` and `n·10^k` (after the `msd < 10 → msd·10` adjustment) coincide
  * `log_congr_sc`, `log_congr` : `val a = val a'` (non-zero significands `< 10·LIM`, exponents within ±16000)
                     ⇒ `decomposed192.log a = decomposed192.log a'`
  * `logArg_congr` : finite non-zero Decimals of the same value: `log (logArg d) = log (logArg d')`
  * `log_encoding_independent`, `log2_encoding_independent`, `log10_encoding_independent` :
                     `Gen.Log g d = Gen.Log g d'` (resp. `Log2`, `Log10`) for all finite, non-zero, positive `d ~ d'`
-/
import D128.Proofs.CohortElemBase
import D128.Proofs.LogAccLog
import D128.Proofs.LogAccTop
set_option autoImplicit false
set_option maxRecDepth 4096
set_option linter.unusedVariables false

namespace CohortElem
open Gen D192 Root LogAcc D128.Proofs.WordsWide
local notation "𝔳[" d "]" => Spec.interp (Gen.Decimal.lo d) (Gen.Decimal.hi d)

/-- the adjusted leading digits `M = if m < 10 then m·10 else m` as a natural number: `⌊10·n / 10^⌊log10 n⌋⌋` -/
theorem msd_adj (n : U192) (hn : n.toNat ≠ 0) :
    ∃ m : Int64, Gen.U192.msd2 n = .ok m ∧
      (if decide (m < 10) = true then m * 10 else m).toInt
        = ((10 * n.toNat / 10 ^ Nat.log 10 n.toNat : Nat) : Int) := by
  obtain ⟨m, hm, hm0, hm99, hmlt, hmge⟩ := U192_msd2_spec n
  refine ⟨m, hm, ?_⟩
  have h10i : (10 : Int64).toInt = 10 := by decide
  rcases Nat.lt_or_ge n.toNat 10 with hlt | hge
  · have hL0 : Nat.log 10 n.toNat = 0 := Nat.log_of_lt hlt
    have hmn := hmlt hlt
    have hmlt' : m < 10 := by rw [Int64.lt_iff_toInt_lt, h10i]; omega
    simp only [hmlt', decide_true, if_true]
    rw [Int64.toInt_mul, h10i, hmn, hL0]
    have : ((n.toNat : Int) * 10).bmod (2 ^ 64) = (n.toNat : Int) * 10 := by
      apply Int.bmod_eq_of_le <;> omega
    rw [this]; simp; ring
  · obtain ⟨hm10, hmv⟩ := hmge hge
    have hnlt : ¬ (m < 10) := by rw [Int64.lt_iff_toInt_lt, h10i]; omega
    simp only [hnlt, decide_false, Bool.false_eq_true, if_false]
    rw [hmv]
    have hL1 : 1 ≤ Nat.log 10 n.toNat :=
      Nat.le_log_of_pow_le (by norm_num) (by simpa using hge)
    congr 1
    have e10 : 10 ^ Nat.log 10 n.toNat = 10 * 10 ^ (Nat.log 10 n.toNat - 1) := by
      rw [← Nat.pow_succ']; congr 1; omega
    rw [e10, Nat.mul_div_mul_left _ _ (by norm_num)]

theorem i64_eq_of_toInt {a b : Int64} (h : a.toInt = b.toInt) : a = b := Int64.toInt_inj.mp h

/-- the leading digits of a cohort member -/
theorem msd2_congr (n n' : U192) (k : Nat) (hn : n.toNat ≠ 0) (h : n'.toNat = n.toNat * 10 ^ k) :
    ∃ m m' : Int64, Gen.U192.msd2 n = .ok m ∧ Gen.U192.msd2 n' = .ok m' ∧
      (if decide (m < 10) = true then m * 10 else m) = (if decide (m' < 10) = true then m' * 10 else m') := by
  have hn' : n'.toNat ≠ 0 := by rw [h]; exact Nat.mul_ne_zero hn (by positivity)
  obtain ⟨m, hm, hM⟩ := msd_adj n hn
  obtain ⟨m', hm', hM'⟩ := msd_adj n' hn'
  refine ⟨m, m', hm, hm', i64_eq_of_toInt ?_⟩
  rw [hM, hM', h, log10_mul_pow _ _ hn, Nat.pow_add, ← Nat.mul_assoc,
    Nat.mul_div_mul_right _ _ (by positivity)]

theorem conv_log' (L : Nat) (hL : L ≤ 57) : ((Go.conv (Int64.ofNat L) : Int16)).toInt = L :=
  LogAcc.conv_log L hL (Int64_toInt_ofNat_small _ (by omega))

/-- exponent arithmetic of `log_congr_sc`, isolated from the large context -/
theorem log_exp_aux (x y cL cL' : Int16) (L L' k : Nat) (hc : cL.toInt = L) (hc' : cL'.toInt = L')
    (hL : L ≤ 57) (hL' : L' ≤ 57) (hLL : L' = L + k) (hexp : x.toInt = y.toInt + k)
    (he : -16000 ≤ x.toInt ∧ x.toInt ≤ 16000) (he' : -16000 ≤ y.toInt ∧ y.toInt ≤ 16000) :
    x + cL = y + cL' ∧ (-cL).toInt = -(L : Int) ∧ (-cL').toInt = -(L' : Int) := by
  refine ⟨?_, ?_, ?_⟩
  · apply Int16.toInt_inj.mp
    rw [Int16.toInt_add_of _ _ (by rw [hc]; omega) (by rw [hc]; omega),
      Int16.toInt_add_of _ _ (by rw [hc']; omega) (by rw [hc']; omega), hc, hc']
    omega
  · rw [Int16.toInt_neg, hc]; apply Int.bmod_eq_of_le <;> omega
  · rw [Int16.toInt_neg, hc']; apply Int.bmod_eq_of_le <;> omega

/-- `log` of a cohort member written with `k` more trailing zeros -/
theorem log_congr_sc (a a' : decomposed192) (k : Nat) (hs : Sc k a a') (ha : a.sig.toNat ≠ 0)
    (hu' : a'.sig.toNat < 10 * LIM)
    (he : -16000 ≤ a.exp.toInt ∧ a.exp.toInt ≤ 16000) (he' : -16000 ≤ a'.exp.toInt ∧ a'.exp.toInt ≤ 16000) :
    Gen.decomposed192.log a = Gen.decomposed192.log a' := by
  have ha' : a'.sig.toNat ≠ 0 := by rw [hs.1]; exact Nat.mul_ne_zero ha (by positivity)
  have hu : a.sig.toNat < 10 * LIM := by
    have : a.sig.toNat ≤ a.sig.toNat * 10 ^ k := Nat.le_mul_of_pos_right _ (by positivity)
    have h1 := hs.1
    omega
  have hL := Nat_log10_le_57_of_lt a.sig.toNat (U192.toNat_lt a.sig)
  have hL' := Nat_log10_le_57_of_lt a'.sig.toNat (U192.toNat_lt a'.sig)
  have hLL : Nat.log 10 a'.sig.toNat = Nat.log 10 a.sig.toNat + k := by rw [hs.1, log10_mul_pow _ _ ha]
  obtain ⟨m, m', hm, hm', hM⟩ := msd2_congr a.sig a'.sig k ha hs.1
  obtain ⟨hE, hneg, hneg'⟩ := log_exp_aux a.exp a'.exp _ _ _ _ k (conv_log' _ hL) (conv_log' _ hL') hL hL' hLL hs.2 he he'
  -- the scaled significand
  have hS : logScale { sig := a.sig, exp := -(Go.conv (Int64.ofNat (Nat.log 10 a.sig.toNat)) : Int16) }
      = logScale { sig := a'.sig, exp := -(Go.conv (Int64.ofNat (Nat.log 10 a'.sig.toNat)) : Int16) } := by
    apply logScale_congr { sig := a.sig, exp := -(Go.conv (Int64.ofNat (Nat.log 10 a.sig.toNat)) : Int16) }
      { sig := a'.sig, exp := -(Go.conv (Int64.ofNat (Nat.log 10 a'.sig.toNat)) : Int16) } ha ha' hu hu'
    · show -32000 ≤ (-(Go.conv (Int64.ofNat (Nat.log 10 a.sig.toNat)) : Int16)).toInt
      rw [hneg]; clear hLL hE hneg hneg'; omega
    · show -32000 ≤ (-(Go.conv (Int64.ofNat (Nat.log 10 a'.sig.toNat)) : Int16)).toInt
      rw [hneg']; clear hLL hE hneg hneg'; omega
    · apply Sc.val (k := k)
      refine ⟨hs.1, ?_⟩
      show (-(Go.conv (Int64.ofNat (Nat.log 10 a.sig.toNat)) : Int16)).toInt
        = (-(Go.conv (Int64.ofNat (Nat.log 10 a'.sig.toNat)) : Int16)).toInt + k
      rw [hneg, hneg', hLL]; push_cast; ring
  rw [log_eq, log_eq, U192_log10_eq, U192_log10_eq, hm, hm', RK.ok_bind, RK.ok_bind, RK.ok_bind, RK.ok_bind, hS, hE, hM]

/-- **`decomposed192.log` is a function of the value of its argument.** -/
theorem log_congr (a a' : decomposed192) (hv : val a = val a') (ha : a.sig.toNat ≠ 0) (ha' : a'.sig.toNat ≠ 0)
    (hu : a.sig.toNat < 10 * LIM) (hu' : a'.sig.toNat < 10 * LIM)
    (he : -16000 ≤ a.exp.toInt ∧ a.exp.toInt ≤ 16000) (he' : -16000 ≤ a'.exp.toInt ∧ a'.exp.toInt ≤ 16000) :
    Gen.decomposed192.log a = Gen.decomposed192.log a' := by
  obtain ⟨k, h | h⟩ := val_eq_nat hv
  · exact log_congr_sc a a' k h ha hu' he he'
  · exact (log_congr_sc a' a k h ha' hu he' he).symm

theorem cmax_lt : Spec.Cmax < 10 * LIM := by unfold Spec.Cmax LIM; norm_num

/-- the arguments handed to `log` by `Log`, `Log2`, `Log10` for two encodings of one value -/
theorem logArg_congr (d d' : Decimal) (h : (𝔳[d]).same 𝔳[d'] = true)
    (h1 : Decimal.isSpecial d = false) (h2 : Decimal.IsZero d = false) :
    Gen.decomposed192.log (logArg d) = Gen.decomposed192.log (logArg d') := by
  obtain ⟨h1', hsb, hz, hq⟩ := fin_args d d' h h1
  have h2' : Decimal.IsZero d' = false := by rw [hz]; exact h2
  obtain ⟨hs, hlo, hhi⟩ := logArg_ok d h1 h2
  obtain ⟨hs', hlo', hhi'⟩ := logArg_ok d' h1' h2'
  apply log_congr _ _ _ hs hs' _ _ ⟨hlo, hhi⟩ ⟨hlo', hhi'⟩
  · unfold D192.val
    rw [logArg_sig, logArg_sig, logArg_exp d h1, logArg_exp d' h1']
    exact hq
  · rw [logArg_sig]; exact lt_of_le_of_lt (Enc.decompose_sig_le d) cmax_lt
  · rw [logArg_sig]; exact lt_of_le_of_lt (Enc.decompose_sig_le d') cmax_lt

/-- **C19 for `Log`, general path**: bit-identical results for every default rounding mode. -/
theorem log_encoding_independent (g : Globals) (d d' : Decimal) (h : (𝔳[d]).same 𝔳[d'] = true)
    (h1 : Decimal.isSpecial d = false) (h2 : Decimal.IsZero d = false) (h3 : Decimal.Signbit d = false) :
    Gen.Log g d = Gen.Log g d' := by
  obtain ⟨h1', hsb, hz, -⟩ := fin_args d d' h h1
  rw [Log_eq g d h1 h2 h3, Log_eq g d' h1' (by rw [hz]; exact h2) (by rw [hsb]; exact h3),
    logArg_congr d d' h h1 h2]

/-- **C19 for `Log2`, general path.** -/
theorem log2_encoding_independent (g : Globals) (d d' : Decimal) (h : (𝔳[d]).same 𝔳[d'] = true)
    (h1 : Decimal.isSpecial d = false) (h2 : Decimal.IsZero d = false) (h3 : Decimal.Signbit d = false) :
    Gen.Log2 g d = Gen.Log2 g d' := by
  obtain ⟨h1', hsb, hz, -⟩ := fin_args d d' h h1
  rw [Log2_eq g d h1 h2 h3, Log2_eq g d' h1' (by rw [hz]; exact h2) (by rw [hsb]; exact h3),
    logArg_congr d d' h h1 h2]

/-- **C19 for `Log10`, general path.** -/
theorem log10_encoding_independent (g : Globals) (d d' : Decimal) (h : (𝔳[d]).same 𝔳[d'] = true)
    (h1 : Decimal.isSpecial d = false) (h2 : Decimal.IsZero d = false) (h3 : Decimal.Signbit d = false) :
    Gen.Log10 g d = Gen.Log10 g d' := by
  obtain ⟨h1', hsb, hz, -⟩ := fin_args d d' h h1
  rw [Log10_eq g d h1 h2 h3, Log10_eq g d' h1' (by rw [hz]; exact h2) (by rw [hsb]; exact h3),
    logArg_congr d d' h h1 h2]

end CohortElem

namespace CohortElem
open Gen

/-- hypotheses satisfiable: 7 written `7e0` and `7000e-3` -/
example (g : Globals) := log_encoding_independent g (Gen.compose false ⟨7, 0⟩ 6176) (Gen.compose false ⟨7000, 0⟩ 6173)
  (by decide +kernel) (by decide) (by decide) (by decide)
example (g : Globals) := log2_encoding_independent g (Gen.compose false ⟨7, 0⟩ 6176) (Gen.compose false ⟨7000, 0⟩ 6173)
  (by decide +kernel) (by decide) (by decide) (by decide)
example (g : Globals) := log10_encoding_independent g (Gen.compose false ⟨123456, 0⟩ 6173)
  (Gen.compose false ⟨12345600, 0⟩ 6171) (by decide +kernel) (by decide) (by decide) (by decide)

end CohortElem
