/-
  D128/Proofs/CohortElemCbrtEx.lean — property C19 for `Gen.Cbrt`: the hypotheses of `cbrt_encoding_independent_partial` and
  `cbrt_encoding_independent_bits_partial` (CohortElemCbrt.lean) discharged for a concrete input, `3` written `3e0` and `3000e-3`.

  The run on `3e0`: start `x₀ = 3e0`; first step `sq = 9`, `cub = 27` (exact: alternative (E) of CohortElemCbrtStep.lean), `num = 33`,
  `2cub = 54`, `den = 57`, Halley quotient `33/57 = 0.5789…` (leading digits outside `[6.1299, 7.1299)`: `NoSkip`; `27`, `54`, `33` have
  no over-full representation: `NoOverfull`), `frc = ⌊33·10^58/57⌋e-58` (58 digits, last digit `9`), and `3·frc` needs one digit
  dropped: a `7` — the last multiplication is INEXACT, the flag is raised, and from the second step on both runs are in identical
  states.  Since `while` loops are opaque to the kernel, the operations are evaluated through their result equations
  (`mul_sharp`, `add_exact_of_fit`, `quo_run` + `quo_congr1`).

  Provided (namespace `CohortElem`):
  * `noOverfull_of_window`, `noOverfull_of_decade` : `6.278·10^n ≤ v < 61.299·10^n ⇒ NoOverfull v`
  * `mul_small`                 : a product below `2^192` is returned as it is
  * `Ex3.start`, `Ex3.cond0`, `Ex3.quo33`, `Ex3.flag1`, `Ex3.runCond : CbrtRunCond d3`
  * `example`s: `Gen.Cbrt g 3e0` and `Gen.Cbrt g 3000e-3` succeed with `same` results (valid mode), and
    `Gen.Cbrt g 3e0 = Gen.Cbrt g 3000e-3` for every `g`; `cbrtStep_K`, `cbrtStep_J` on the first step of these two runs;
    `cbrt_same_of_J` on an over-full final state and its 57-digit twin with a raised flag
-/
import D128.Proofs.CohortElemCbrt
set_option autoImplicit false
set_option maxRecDepth 4096
set_option exponentiation.threshold 512
set_option linter.unusedVariables false

namespace CohortElem
open Gen D192 Root
local notation "𝔳[" d "]" => Spec.interp (Gen.Decimal.lo d) (Gen.Decimal.hi d)

/-! ### criteria for `NoOverfull` -/

theorem exp_lt_of_between {a v : ℚ} {x y : Int} (ha : 0 < a) (h1 : a * (10 : ℚ) ^ x ≤ v)
    (h2 : v < a * (10 : ℚ) ^ y) : x < y := by
  by_contra hc
  have h10 : (10 : ℚ) ^ y ≤ (10 : ℚ) ^ x := zpow_le_zpow_right₀ (by norm_num) (by omega)
  nlinarith

/-- a value in `[2^192, 100·LIM)·10^n` has no over-full representation -/
theorem noOverfull_of_window (v : ℚ) (n : Int) (h1 : (2 : ℚ) ^ 192 * (10 : ℚ) ^ n ≤ v)
    (h2 : v < 100 * (LIM : ℚ) * (10 : ℚ) ^ n) : NoOverfull v := by
  intro m e hv hm
  by_contra hc
  have hm1 : ((10 * LIM : Nat) : ℚ) ≤ (m : ℚ) := by exact_mod_cast (not_lt.mp hc)
  have hm2 : (m : ℚ) < (2 : ℚ) ^ 192 := by exact_mod_cast hm
  have hp : (0 : ℚ) < (10 : ℚ) ^ e := zpow_pos (by norm_num) _
  have hL : (0 : ℚ) < ((10 * LIM : Nat) : ℚ) := by unfold LIM; norm_num
  have b0 : v < (2 : ℚ) ^ 192 * (10 : ℚ) ^ e := by
    rw [hv]; exact mul_lt_mul_of_pos_right hm2 hp
  have a1 : n < e := exp_lt_of_between (a := (2 : ℚ) ^ 192) (by positivity) h1 b0
  have e1 : ((10 * LIM : Nat) : ℚ) * (10 : ℚ) ^ (n + 1) = 100 * (LIM : ℚ) * (10 : ℚ) ^ n := by
    rw [zpow_add₀ (by norm_num), zpow_one]; push_cast; ring
  have b1 : ((10 * LIM : Nat) : ℚ) * (10 : ℚ) ^ e ≤ v := by
    rw [hv]; exact mul_le_mul_of_nonneg_right hm1 hp.le
  have a2 : e < n + 1 := exp_lt_of_between hL b1 (by rw [e1]; exact h2)
  omega

/-- convenience form with small constants: `6.278·10^n ≤ v < 61.299·10^n` (`2^192 = 6.2771…·10^57`, `100·LIM = 61.2998…·10^57`) -/
theorem noOverfull_of_decade (v : ℚ) (n : Int) (h1 : 6278 / 1000 * (10 : ℚ) ^ n ≤ v)
    (h2 : v < 61299 / 1000 * (10 : ℚ) ^ n) : NoOverfull v := by
  have hp : (0 : ℚ) < (10 : ℚ) ^ n := zpow_pos (by norm_num) _
  have e : (10 : ℚ) ^ (n - 57) = (10 : ℚ) ^ n * ((10 : ℚ) ^ 57)⁻¹ := by
    rw [zpow_sub₀ (by norm_num)]; rfl
  refine noOverfull_of_window v (n - 57) ?_ ?_
  · rw [e]
    have : (2 : ℚ) ^ 192 * ((10 : ℚ) ^ 57)⁻¹ ≤ 6278 / 1000 := by norm_num
    nlinarith
  · rw [e]
    have : (61299 : ℚ) / 1000 ≤ 100 * (LIM : ℚ) * ((10 : ℚ) ^ 57)⁻¹ := by unfold LIM; norm_num
    nlinarith

/-- a product below `2^192` is returned as it is, with the incoming flag -/
theorem mul_small (d o : decomposed192) (t : Int8) (h : d.sig.toNat * o.sig.toNat < 2 ^ 192)
    (wd : Win d) (wo : Win o) :
    ∃ r, decomposed192.mul d o t = .ok (r, t) ∧ r.sig.toNat = d.sig.toNat * o.sig.toNat ∧
      r.exp.toInt = d.exp.toInt + o.exp.toInt ∧ val r = val d * val o := by
  obtain ⟨r, t', k, hr, hk, hs, he, ht, hm⟩ := mul_sharp d o t
  have hk0 : k = 0 := by
    rcases hm with h0 | h0
    · exact h0
    · have := Nat.div_le_self (d.sig.toNat * o.sig.toNat) (10 ^ (k - 1)); omega
  subst hk0
  rw [Nat.pow_zero, Nat.div_one] at hs
  rw [Nat.pow_zero, Nat.mod_one, if_pos rfl] at ht
  have hexp : r.exp.toInt = d.exp.toInt + o.exp.toInt := by
    have e0 : d.exp + o.exp + Int16.ofNat 0 = d.exp + o.exp := by simp
    unfold Win at wd wo
    rw [he, e0, Int16.toInt_add_of] <;> omega
  refine ⟨r, by rw [hr, ht], hs, hexp, ?_⟩
  rw [val_mul]; unfold val; rw [hs, hexp]

namespace Ex3

/-- `3e0` -/
def d3 : Decimal := ⟨3, 3476778912330022912⟩
/-- `3000e-3` -/
def d3' : Decimal := ⟨3000, 3475090062469758976⟩

def r3 : decomposed192 := ⟨⟨3, 0, 0⟩, 0⟩
def r6 : decomposed192 := ⟨⟨6, 0, 0⟩, 0⟩
def r33 : decomposed192 := ⟨⟨33, 0, 0⟩, 0⟩
def r57 : decomposed192 := ⟨⟨57, 0, 0⟩, 0⟩

theorem s3 : r3.sig.toNat = 3 := by decide
theorem e3 : r3.exp.toInt = 0 := by decide
theorem s6 : r6.sig.toNat = 6 := by decide
theorem e6 : r6.exp.toInt = 0 := by decide
theorem s33 : r33.sig.toNat = 33 := by decide
theorem e33 : r33.exp.toInt = 0 := by decide
theorem s57 : r57.sig.toNat = 57 := by decide
theorem e57 : r57.exp.toInt = 0 := by decide
theorem w3 : Win r3 := by unfold Win; rw [e3]; omega
theorem w6 : Win r6 := by unfold Win; rw [e6]; omega
theorem w33 : Win r33 := by unfold Win; rw [e33]; omega
theorem w57 : Win r57 := by unfold Win; rw [e57]; omega
theorem v3 : val r3 = 3 := by unfold val; rw [s3, e3]; norm_num
theorem v6 : val r6 = 6 := by unfold val; rw [s6, e6]; norm_num
theorem v33 : val r33 = 33 := by unfold val; rw [s33, e33]; norm_num
theorem v57 : val r57 = 57 := by unfold val; rw [s57, e57]; norm_num

theorem hsp : Decimal.isSpecial d3 = false := by decide
theorem hz : Decimal.IsZero d3 = false := by decide
theorem hsame : (𝔳[d3]).same 𝔳[d3'] = true := by decide +kernel

/-- the registers of the run on `3e0` -/
theorem start : cbrtArg d3 = r3 ∧ cbrtArg2 d3 = r6 ∧ cbrtStart d3 (cbrtL10 d3) = r3 := by
  obtain ⟨k, -, hk1, hk2, a1, a2, a3, a4, b1, b2⟩ := cbrt_regs d3 hsp hz
  have c3 : d3.decompose.1.toNat = 3 := by decide
  have x3 : d3.decompose.2.toInt = 6176 := by decide
  rw [c3] at hk1 a1 a3 b1
  rw [x3] at a2 b2
  have hk0 : k = 0 := by
    by_contra hc
    have : 10 ^ 1 ≤ 10 ^ k := Nat.pow_le_pow_right (by norm_num) (by omega)
    omega
  subst hk0
  have hse : cbrtStartExp 0 (6176 - 6176) = 0 := by decide
  rw [hse] at b2
  refine ⟨d192_ext (by rw [a1, s3]) (by rw [a2, e3]; norm_num),
    d192_ext (by rw [a3, s6]) (by rw [a4, a2, e6]; norm_num), d192_ext (by rw [b1, s3]) (by rw [b2, e3])⟩

/-- the values of the intermediate results of the first step -/
theorem vals0 {sq cub num d1 den : decomposed192 × Int8}
    (h1 : decomposed192.mul r3 r3 0 = .ok sq) (h2 : decomposed192.mul sq.1 r3 0 = .ok cub)
    (h3 : decomposed192.add cub.1 r6 0 = .ok num) (h4 : decomposed192.add cub.1 cub.1 0 = .ok d1)
    (h5 : decomposed192.add d1.1 r3 0 = .ok den) :
    val cub.1 = 27 ∧ val d1.1 = 54 ∧ val num.1 = 33 ∧ val den.1 = 57 ∧ Win num.1 ∧ Win den.1 := by
  have hw3 := w3; have hw6 := w6
  unfold Win at hw3 hw6
  -- sq
  obtain ⟨r, hr, hs, he, hv⟩ := mul_small r3 r3 0 (by rw [s3]; norm_num) w3 w3
  rw [hr] at h1
  have := ok_inj h1; subst this
  simp only at h2
  rw [s3] at hs; rw [e3] at he
  -- cub
  obtain ⟨c, hc, hcs, hce, hcv⟩ := mul_small r r3 0 (by rw [hs, s3]; norm_num) ⟨by omega, by omega⟩ w3
  rw [hc] at h2
  have := ok_inj h2; subst this
  simp only at h3 h4 ⊢
  rw [hv, v3] at hcv
  rw [he, e3] at hce
  have hcv' : val c = 27 := by rw [hcv]; norm_num
  have wc : -16000 ≤ c.exp.toInt ∧ c.exp.toInt ≤ 16000 := ⟨by omega, by omega⟩
  -- num
  obtain ⟨n, hn, hnv, hnw⟩ := add_exact_of_fit c r6 0 0 27 6 (by rw [hcv']; norm_num) (by rw [v6]; norm_num)
    (by unfold LIM; norm_num) wc hw6
  rw [hn] at h3
  have := ok_inj h3; subst this
  -- d1
  obtain ⟨u, hu, huv, huw⟩ := add_exact_of_fit c c 0 0 27 27 (by rw [hcv']; norm_num) (by rw [hcv']; norm_num)
    (by unfold LIM; norm_num) wc wc
  rw [hu] at h4
  have := ok_inj h4; subst this
  simp only at h5 ⊢
  have huv' : val u = 54 := by rw [huv, hcv']; norm_num
  simp only [min_self, max_self] at huw
  have wu : -16000 ≤ u.exp.toInt ∧ u.exp.toInt ≤ 16000 := ⟨by omega, by omega⟩
  -- den
  obtain ⟨q, hq, hqv, hqw⟩ := add_exact_of_fit u r3 0 0 54 3 (by rw [huv']; norm_num) (by rw [v3]; norm_num)
    (by unfold LIM; norm_num) wu hw3
  rw [hq] at h5
  have := ok_inj h5; subst this
  simp only
  have m1 := min_le_left c.exp.toInt r6.exp.toInt
  have m2 := le_max_left c.exp.toInt r6.exp.toInt
  have m3 := min_le_left u.exp.toInt r3.exp.toInt
  have m4 := le_max_left u.exp.toInt r3.exp.toInt
  have m5 := min_le_right c.exp.toInt r6.exp.toInt
  have m6 := le_max_right c.exp.toInt r6.exp.toInt
  have m7 := min_le_right u.exp.toInt r3.exp.toInt
  have m8 := le_max_right u.exp.toInt r3.exp.toInt
  have x3 := e3; have x6 := e6
  refine ⟨hcv', huv', by rw [hnv, hcv', v6]; norm_num, by rw [hqv, huv', v3]; norm_num, ?_, ?_⟩
  · unfold Win
    rcases min_choice c.exp.toInt r6.exp.toInt with h | h <;>
      rcases max_choice c.exp.toInt r6.exp.toInt with h' | h' <;> omega
  · unfold Win
    rcases min_choice u.exp.toInt r3.exp.toInt with h | h <;>
      rcases max_choice u.exp.toInt r3.exp.toInt with h' | h' <;> omega

theorem no27 : NoOverfull 27 := noOverfull_of_decade _ 0 (by norm_num) (by norm_num)
theorem no54 : NoOverfull 54 := noOverfull_of_decade _ 0 (by norm_num) (by norm_num)
theorem no33 : NoOverfull 33 := noOverfull_of_decade _ 0 (by norm_num) (by norm_num)
theorem ns3357 : NoSkip ((33 : ℚ) / 57) := noskip_of_decade _ (-1) (by norm_num) (by norm_num)

/-- the side conditions of the exact alternative hold at the start state of `Cbrt 3` -/
theorem cond0 : CbrtStepCond r3 r6 (r3, 0) := by
  intro sq cub num d1 den h1 h2 h3 h4 h5 _
  obtain ⟨a, b, c, e, -, -⟩ := vals0 h1 h2 h3 h4 h5
  rw [a, b, c, e]
  exact ⟨no27, no54, no33, ns3357⟩

/-- the 58-digit quotient `⌊33·10^58/57⌋` -/
def F : Nat := 5789473684210526315789473684210526315789473684210526315789

/-- the working-format quotient `33e0 / 57e0`, evaluated through its result equation: 58 digits, inexact -/
theorem quo33 : ∃ q, decomposed192.quo r33 r57 0 = .ok (q, 1) ∧ q.sig.toNat = F := by
  have hw33 := w33; have hw57 := w57
  unfold Win at hw33 hw57
  obtain ⟨r, s, a, b, c, hr, H, he, ha, hb, hc⟩ := quo_run r33 r57 0 (by rw [s33]; norm_num) (by rw [s57]; norm_num)
    hw33 hw57
  have h1 := H.a_min; have h2 := H.dn_ge; have h3 := H.b_min; have h4 := H.sig; have h5 := H.flag
  have h6 := H.stop; have h7 := H.path
  rw [s33] at h1 h2 h4 h5 h6 h7
  rw [s57] at h3 h4 h5 h6 h7
  -- a = 56
  have ha56 : a = 56 := by
    have lo : 56 ≤ a := by
      by_contra hlt
      have : 10 ^ a ≤ 10 ^ 55 := Nat.pow_le_pow_right (by norm_num) (by omega)
      have : 33 * 10 ^ a ≤ 33 * 10 ^ 55 := Nat.mul_le_mul_left _ this
      unfold LIM at h2; omega
    have hi : a ≤ 56 := by
      by_contra hgt
      rcases h1 with h0 | h0
      · omega
      · have : 10 ^ 56 ≤ 10 ^ (a - 1) := Nat.pow_le_pow_right (by norm_num) (by omega)
        have : 33 * 10 ^ 56 ≤ 33 * 10 ^ (a - 1) := Nat.mul_le_mul_left _ this
        unfold LIM at h0; omega
    omega
  -- b = 0
  have hb0 : b = 0 := by
    rcases h3 with h0 | h0
    · exact h0
    · have : 57 / 10 ^ (b - 1) ≤ 57 := Nat.div_le_self _ _
      unfold OLIM lim at h0; omega
  subst ha56; subst hb0
  rw [Nat.pow_zero, Nat.div_one] at h4 h5 h6 h7
  -- c = 2
  have hc2 : c = 2 := by
    have c0 : c ≠ 0 := by
      intro h0; subst h0
      rw [h4] at h6
      rcases h6 with h | h
      · norm_num at h
      · unfold LIM at h; norm_num at h
    have c1 : c ≠ 1 := by
      intro h0; subst h0
      rw [h4] at h6
      rcases h6 with h | h
      · norm_num at h
      · unfold LIM at h; norm_num at h
    have c3 : c ≤ 2 := by
      by_contra hgt
      rcases h7 with h | ⟨c0', hlt, hq, -, -⟩
      · exact c0 h
      · have k1 := qf_mul_le (33 * 10 ^ 56) 57 0 c0' (by norm_num)
        rw [Nat.pow_zero, Nat.mul_one, Nat.zero_add] at k1
        have k2 : 33 * 10 ^ 56 / 57 * 10 ^ c0' * 10 ^ (c - 1 - c0') ≤ 33 * 10 ^ 56 * 10 ^ c0' / 57 * 10 ^ (c - 1 - c0') :=
          Nat.mul_le_mul_right _ k1
        have k3 : 33 * 10 ^ 56 / 57 * 10 ^ c0' * 10 ^ (c - 1 - c0') = 33 * 10 ^ 56 / 57 * 10 ^ (c - 1) := by
          rw [Nat.mul_assoc, ← Nat.pow_add]; congr 2; omega
        have k4 : 10 ^ 2 ≤ 10 ^ (c - 1) := Nat.pow_le_pow_right (by norm_num) (by omega)
        have k5 : 33 * 10 ^ 56 / 57 * 10 ^ 2 ≤ 33 * 10 ^ 56 / 57 * 10 ^ (c - 1) := Nat.mul_le_mul_left _ k4
        have k6 : LIM ≤ 33 * 10 ^ 56 / 57 * 10 ^ 2 := by unfold LIM; norm_num
        omega
    omega
  subst hc2
  have hsig : r.sig.toNat = F := by rw [h4]; unfold F; norm_num
  have hflag : s = 1 := by
    rw [h5, if_neg]
    intro h; norm_num at h
  exact ⟨r, by rw [hr, hflag], hsig⟩

/-- the last multiplication of the first step of `Cbrt 3` is inexact: the flag is raised -/
theorem flag1 : ∀ s1, cbrtStep r3 r6 (r3, 0) = .ok s1 → s1.2 = 1 := by
  intro s1 h
  unfold cbrtStep at h
  obtain ⟨sq, h1, h⟩ := bind_ok h
  obtain ⟨cub, h2, h⟩ := bind_ok h
  obtain ⟨num, h3, h⟩ := bind_ok h
  obtain ⟨d1, h4, h⟩ := bind_ok h
  obtain ⟨den, h5, h⟩ := bind_ok h
  obtain ⟨frc, h6, h⟩ := bind_ok h
  obtain ⟨x, h7, h⟩ := bind_ok h
  cases h
  simp only at h1 h2 h3 h4 h5 h6 h7 ⊢
  obtain ⟨a, b, c, e, wn, wd⟩ := vals0 h1 h2 h3 h4 h5
  unfold Win at wn wd
  have hw33 := w33; have hw57 := w57
  unfold Win at hw33 hw57
  have hn0 : num.1.sig.toNat ≠ 0 := sig_ne_of_val_pos _ (by rw [c]; norm_num)
  have hd0 : den.1.sig.toNat ≠ 0 := sig_ne_of_val_pos _ (by rw [e]; norm_num)
  have hno : NoOverfull (val num.1) := by rw [c]; exact no33
  have hns : NoSkip (val num.1 / val den.1) := by rw [c, e]; exact ns3357
  obtain ⟨r, r', sf, hr, hr', -, halt, -⟩ := quo_congr1 num.1 r33 den.1 r57 0 (by rw [c, v33]) (by rw [e, v57])
    hn0 hd0 (Or.inl ⟨hno.sig, by rw [s33]; unfold LIM; norm_num⟩) (Or.inr (Or.inl hns)) wn wd hw33 hw57
  obtain ⟨q, hq, hqs⟩ := quo33
  rw [hq] at hr'
  have e1 := ok_inj hr'
  have hsf : sf = 1 := (congrArg Prod.snd e1).symm
  have hr'q : r' = q := (congrArg Prod.fst e1).symm
  have hrr : r = r' := by
    rcases halt with h | ⟨-, h, -⟩
    · exact h
    · rw [hsf] at h; exact absurd h (by decide)
  rw [hr] at h6
  have hfrc : frc.1.sig.toNat = F := by rw [← ok_inj h6]; show r.sig.toNat = F; rw [hrr, hr'q, hqs]
  -- the last multiplication
  obtain ⟨y, t', k, hy, -, hs, -, ht, hm⟩ := mul_sharp r3 frc.1 0
  rw [hy] at h7
  rw [← ok_inj h7]
  show t' = 1
  rw [s3, hfrc] at hs ht hm
  have hlt : 3 * F / 10 ^ k < 2 ^ 192 := hs ▸ U192.toNat_lt y.sig
  have hk1 : k = 1 := by
    have k0 : k ≠ 0 := by
      intro h0; subst h0
      unfold F at hlt; norm_num at hlt
    have k2 : k ≤ 1 := by
      by_contra hgt
      rcases hm with h0 | h0
      · exact k0 h0
      · have : 10 ^ 1 ≤ 10 ^ (k - 1) := Nat.pow_le_pow_right (by norm_num) (by omega)
        have : 3 * F / 10 ^ (k - 1) ≤ 3 * F / 10 ^ 1 := Nat.div_le_div_left this (by norm_num)
        have : 3 * F / 10 ^ 1 < 2 ^ 192 := by unfold F; norm_num
        omega
    omega
  subst hk1
  rw [ht, if_neg]
  unfold F; norm_num

/-- **the run-level hypothesis holds for `3e0`** -/
theorem runCond : CbrtRunCond d3 := by
  obtain ⟨a, b, c⟩ := start
  refine runCond_of_first d3 ?_ ?_
  · rw [a, b, c]; exact cond0
  · rw [a, b, c]; exact flag1

end Ex3

/-- `Cbrt(3e0)` and `Cbrt(3000e-3)`: both succeed with results of the same class, sign and value (any valid default mode) -/
example (g : Globals) (m : Spec.Mode) (hm : Spec.Mode.ofNat? g.DefaultRoundingMode.toNat = some m) :
    ∃ r r', Gen.Cbrt g Ex3.d3 = .ok r ∧ Gen.Cbrt g Ex3.d3' = .ok r' ∧ (𝔳[r]).same 𝔳[r'] = true :=
  cbrt_encoding_independent_partial g m hm Ex3.d3 Ex3.d3' Ex3.hsame Ex3.hsp Ex3.hz Ex3.runCond

/-- `Cbrt(3e0) = Cbrt(3000e-3)` bit for bit, for every `g` -/
example (g : Globals) : Gen.Cbrt g Ex3.d3 = Gen.Cbrt g Ex3.d3' :=
  cbrt_encoding_independent_bits_partial g Ex3.d3 Ex3.d3' Ex3.hsame Ex3.hsp Ex3.hz Ex3.runCond
    (core_flag_of_first Ex3.d3 Ex3.hsp Ex3.hz (by
      obtain ⟨a, b, c⟩ := Ex3.start
      rw [a, b, c]; exact Ex3.flag1))

/-- `cbrtStep_K` and `cbrtStep_J` on the first step of the two runs (`3e0` against `3000e-3`, both flags `0`) -/
example := cbrtStep_K (cbrt_argOK Ex3.d3 Ex3.hsp Ex3.hz)
  (cbrt_argOK Ex3.d3' (start_congr _ _ Ex3.hsame Ex3.hsp Ex3.hz).1 (start_congr _ _ Ex3.hsame Ex3.hsp Ex3.hz).2.1)
  (start_congr _ _ Ex3.hsame Ex3.hsp Ex3.hz).2.2.2.1 (start_congr _ _ Ex3.hsame Ex3.hsp Ex3.hz).2.2.2.2.1
  (cbrt_start_W Ex3.d3 Ex3.hsp Ex3.hz)
  (cbrt_start_W Ex3.d3' (start_congr _ _ Ex3.hsame Ex3.hsp Ex3.hz).1 (start_congr _ _ Ex3.hsame Ex3.hsp Ex3.hz).2.1)
  (Or.inr ⟨(start_congr _ _ Ex3.hsame Ex3.hsp Ex3.hz).2.2.2.2.2, rfl, rfl⟩)
  (fun _ => Ex3.runCond 0 (by norm_num) _ rfl rfl)
example := cbrtStep_J (cbrt_argOK Ex3.d3 Ex3.hsp Ex3.hz)
  (cbrt_argOK Ex3.d3' (start_congr _ _ Ex3.hsame Ex3.hsp Ex3.hz).1 (start_congr _ _ Ex3.hsame Ex3.hsp Ex3.hz).2.1)
  (start_congr _ _ Ex3.hsame Ex3.hsp Ex3.hz).2.2.2.1 (start_congr _ _ Ex3.hsame Ex3.hsp Ex3.hz).2.2.2.2.1
  (cbrt_start_W Ex3.d3 Ex3.hsp Ex3.hz)
  (cbrt_start_W Ex3.d3' (start_congr _ _ Ex3.hsame Ex3.hsp Ex3.hz).1 (start_congr _ _ Ex3.hsame Ex3.hsp Ex3.hz).2.1)
  (start_congr _ _ Ex3.hsame Ex3.hsp Ex3.hz).2.2.2.2.2 rfl
  (Ex3.runCond 0 (by norm_num) _ rfl rfl)

/-- `cbrt_same_of_J` on two states of value `6.2` with a raised flag and long significands (`62·10^56e-57` over-full, `62·10^55e-56`) -/
example (g : Globals) (m : Spec.Mode) (hm : Spec.Mode.ofNat? g.DefaultRoundingMode.toNat = some m) :=
  cbrt_same_of_J g m true (⟨u192 (62 * 10 ^ 56), -57⟩, 1) (⟨u192 (62 * 10 ^ 55), -56⟩, 1) hm
    (by
      have a1 : (u192 (62 * 10 ^ 56)).toNat = 62 * 10 ^ 56 := by decide
      have a2 : (u192 (62 * 10 ^ 55)).toNat = 62 * 10 ^ 55 := by decide
      show ((u192 (62 * 10 ^ 56)).toNat : ℚ) * (10 : ℚ) ^ (-57 : Int)
        = ((u192 (62 * 10 ^ 55)).toNat : ℚ) * (10 : ℚ) ^ (-56 : Int)
      rw [a1, a2]; norm_num)
    rfl (Or.inr rfl) (by decide)
    (fun _ => ⟨by unfold LIM; decide, by unfold LIM; decide⟩) (by decide) (by decide)

end CohortElem
