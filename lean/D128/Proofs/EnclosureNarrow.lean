/-
  Soundness of the enclosure oracle, part 16: a small calculus of NARROW positive intervals, used to bound the
  width of every enclosure `trueValue` returns.

  `Narrow a ρ α` : 0 < a.lo ≤ a.hi ≤ a.lo·(1+ρ) + α      (relative width ρ plus absolute slack α)

  1. `rdDown_neg`, `rdUp_neg`  : rdDown (−q) = −rdUp q, rdUp (−q) = −rdDown q
     `neg_mul_eq`              : a.neg.mul b = (a.mul b).neg
     `pos_mul_eq`              : product of two positive intervals = ⟨rdDown (lo·lo'), rdUp (hi·hi')⟩
  2. `narrow_mul`              : Narrow l ρ α, b positive with b.hi ≤ b.lo·(1+η), b.hi ≤ B ⇒
                                 Narrow (l.mul b) ((1+ρ)(1+η)(1+3ε) − 1) (α·B·(1+3ε))
     `narrow_mono`             : weaken ρ, α
  3. `log_narrow_pos`, `log_narrow_neg` : the bracket of the certified logarithm (or its negative) is
                                 `Narrow _ (3·10^-60) (3·10^-72)`
     `ln2_inv_narrow`, `ln10_inv_narrow` : the reciprocal constants are narrow (kernel-evaluated)
-/
import D128.Proofs.EnclosureWidth
set_option autoImplicit false

namespace EnclPf
open Spec Spec.Encl SpecRound

/-- a positive interval of relative width `ρ` plus absolute slack `α` -/
def Narrow (a : I) (ρ α : ℚ) : Prop := 0 < a.lo ∧ a.lo ≤ a.hi ∧ a.hi ≤ a.lo * (1 + ρ) + α

theorem narrow_mono {a : I} {ρ α ρ' α' : ℚ} (h : Narrow a ρ α) (hρ : ρ ≤ ρ') (hα : α ≤ α') : Narrow a ρ' α' := by
  obtain ⟨h1, h2, h3⟩ := h
  refine ⟨h1, h2, ?_⟩
  have : a.lo * (1 + ρ) ≤ a.lo * (1 + ρ') := mul_le_mul_of_nonneg_left (by linarith) h1.le
  linarith

/-! ## 1. negation and products of sign-definite intervals -/

theorem rdDown_neg (q : ℚ) : rdDown (-q) = -rdUp q := by
  unfold rdDown rdUp
  rcases lt_trichotomy q 0 with h | h | h
  · have h1 : ¬ ((-q == 0) = true) := by simp; linarith
    have h2 : ¬ ((q == 0) = true) := by simp; linarith
    have h3 : -q > 0 := by linarith
    have h4 : ¬ q > 0 := by linarith
    simp only [h1, h2, h3, h4, if_true, if_false, neg_neg, Bool.false_eq_true]
  · subst h; simp
  · have h1 : ¬ ((-q == 0) = true) := by simp; linarith
    have h2 : ¬ ((q == 0) = true) := by simp; linarith
    have h3 : ¬ -q > 0 := by linarith
    simp only [h1, h2, h3, h, if_true, if_false, neg_neg, Bool.false_eq_true]

theorem rdUp_neg (q : ℚ) : rdUp (-q) = -rdDown q := by
  have := rdDown_neg (-q)
  rw [neg_neg] at this
  rw [this, neg_neg]

theorem neg_mul_eq (a b : I) : a.neg.mul b = (a.mul b).neg := by
  unfold I.mul I.neg min4 max4
  simp only [neg_mul]
  have e1 : min (min (-(a.hi * b.lo)) (-(a.hi * b.hi))) (min (-(a.lo * b.lo)) (-(a.lo * b.hi))) =
      -(max (max (a.lo * b.lo) (a.lo * b.hi)) (max (a.hi * b.lo) (a.hi * b.hi))) := by
    rw [min_neg_neg, min_neg_neg, min_neg_neg, max_comm]
  have e2 : max (max (-(a.hi * b.lo)) (-(a.hi * b.hi))) (max (-(a.lo * b.lo)) (-(a.lo * b.hi))) =
      -(min (min (a.lo * b.lo) (a.lo * b.hi)) (min (a.hi * b.lo) (a.hi * b.hi))) := by
    rw [max_neg_neg, max_neg_neg, max_neg_neg, min_comm]
  rw [e1, e2, rdDown_neg, rdUp_neg]

theorem pos_mul_eq (a b : I) (ha : 0 < a.lo) (hab : a.lo ≤ a.hi) (hb : 0 < b.lo) (hbb : b.lo ≤ b.hi) :
    a.mul b = ⟨rdDown (a.lo * b.lo), rdUp (a.hi * b.hi)⟩ := by
  have hah : 0 < a.hi := lt_of_lt_of_le ha hab
  have hbh : 0 < b.hi := lt_of_lt_of_le hb hbb
  have e1 : a.lo * b.lo ≤ a.lo * b.hi := mul_le_mul_of_nonneg_left hbb ha.le
  have e2 : a.hi * b.lo ≤ a.hi * b.hi := mul_le_mul_of_nonneg_left hbb hah.le
  have e3 : a.lo * b.lo ≤ a.hi * b.lo := mul_le_mul_of_nonneg_right hab hb.le
  have e4 : a.lo * b.hi ≤ a.hi * b.hi := mul_le_mul_of_nonneg_right hab hbh.le
  unfold I.mul min4 max4
  simp only
  rw [min_eq_left e1, min_eq_left e2, min_eq_left e3, max_eq_right e1, max_eq_right e2, max_eq_right e4]

/-! ## 2. narrowness under multiplication by a narrow positive constant -/

theorem narrow_mul {l b : I} {ρ α η B : ℚ} (hl : Narrow l ρ α) (hρ : 0 ≤ ρ) (hα : 0 ≤ α)
    (hb : 0 < b.lo) (hbb : b.lo ≤ b.hi) (hη : b.hi ≤ b.lo * (1 + η)) (hη0 : 0 ≤ η) (hB : b.hi ≤ B) :
    Narrow (l.mul b) ((1 + ρ) * (1 + η) * (1 + 3 * eps) - 1) (α * B * (1 + 3 * eps)) := by
  obtain ⟨l1, l2, l3⟩ := hl
  rw [pos_mul_eq l b l1 l2 hb hbb]
  unfold Narrow
  simp only
  have hlh : 0 < l.hi := lt_of_lt_of_le l1 l2
  have hbh : 0 < b.hi := lt_of_lt_of_le hb hbb
  have p1 : 0 < l.lo * b.lo := mul_pos l1 hb
  have p2 : 0 < l.hi * b.hi := mul_pos hlh hbh
  have d1 := rdDown_pos_ratio p1
  have d2 := rdDown_le (l.lo * b.lo)
  have u1 := rdUp_pos_ratio p2
  have u2 := le_rdUp (l.hi * b.hi)
  have he := eps_pos
  have he2 : eps ≤ 1 / 10 := eps_le_tenth
  have hlopos : 0 < rdDown (l.lo * b.lo) := lt_of_lt_of_le (by nlinarith) d1
  refine ⟨hlopos, ?_, ?_⟩
  · have : l.lo * b.lo ≤ l.hi * b.hi := mul_le_mul l2 hbb hb.le hlh.le
    linarith
  · have k1 : (1 + eps) ≤ (1 - eps) * (1 + 3 * eps) := by nlinarith
    have hB0 : 0 < B := lt_of_lt_of_le hbh hB
    -- hi·bhi ≤ (lo(1+ρ)+α)·blo(1+η)  and  α·bhi ≤ α·B
    have s1 : l.hi * b.hi ≤ (l.lo * (1 + ρ) + α) * b.hi := mul_le_mul_of_nonneg_right l3 hbh.le
    have s2 : l.lo * (1 + ρ) * b.hi ≤ l.lo * (1 + ρ) * (b.lo * (1 + η)) :=
      mul_le_mul_of_nonneg_left hη (by positivity)
    have s3 : α * b.hi ≤ α * B := mul_le_mul_of_nonneg_left hB hα
    have s4 : l.hi * b.hi ≤ l.lo * b.lo * ((1 + ρ) * (1 + η)) + α * B := by nlinarith
    have hR : 0 ≤ (1 + ρ) * (1 + η) := by positivity
    calc rdUp (l.hi * b.hi) ≤ l.hi * b.hi * (1 + eps) := u1
      _ ≤ (l.lo * b.lo * ((1 + ρ) * (1 + η)) + α * B) * (1 + eps) :=
          mul_le_mul_of_nonneg_right s4 (by linarith)
      _ = l.lo * b.lo * ((1 + ρ) * (1 + η)) * (1 + eps) + α * B * (1 + eps) := by ring
      _ ≤ l.lo * b.lo * ((1 + ρ) * (1 + η)) * ((1 - eps) * (1 + 3 * eps)) + α * B * (1 + 3 * eps) := by
          have a1 : l.lo * b.lo * ((1 + ρ) * (1 + η)) * (1 + eps) ≤
              l.lo * b.lo * ((1 + ρ) * (1 + η)) * ((1 - eps) * (1 + 3 * eps)) :=
            mul_le_mul_of_nonneg_left k1 (by positivity)
          have a2 : α * B * (1 + eps) ≤ α * B * (1 + 3 * eps) :=
            mul_le_mul_of_nonneg_left (by linarith) (by positivity)
          linarith
      _ = (l.lo * b.lo * (1 - eps)) * ((1 + ρ) * (1 + η) * (1 + 3 * eps)) + α * B * (1 + 3 * eps) := by ring
      _ ≤ rdDown (l.lo * b.lo) * ((1 + ρ) * (1 + η) * (1 + 3 * eps)) + α * B * (1 + 3 * eps) := by
          have : (l.lo * b.lo * (1 - eps)) * ((1 + ρ) * (1 + η) * (1 + 3 * eps)) ≤
              rdDown (l.lo * b.lo) * ((1 + ρ) * (1 + η) * (1 + 3 * eps)) :=
            mul_le_mul_of_nonneg_right d1 (by positivity)
          linarith
      _ = rdDown (l.lo * b.lo) * (1 + ((1 + ρ) * (1 + η) * (1 + 3 * eps) - 1)) + α * B * (1 + 3 * eps) := by
          ring

/-! ## 3. the certified logarithm and the reciprocal constants -/

theorem log_narrow_pos {q : ℚ} {k : Int} {l : I} (h : Encl.log q k = some l) (hpos : 0 < l.lo) :
    Narrow l (3 / 10 ^ 60) (3 / 10 ^ 72) := by
  obtain ⟨w0, w1⟩ := log_width_le h
  have hmid : |(l.lo + l.hi) / 2| = (l.lo + l.hi) / 2 := abs_of_nonneg (by linarith)
  rw [hmid] at w1
  refine ⟨hpos, by linarith, ?_⟩
  nlinarith

theorem log_narrow_neg {q : ℚ} {k : Int} {l : I} (h : Encl.log q k = some l) (hneg : l.hi < 0) :
    Narrow l.neg (3 / 10 ^ 60) (3 / 10 ^ 72) := by
  obtain ⟨w0, w1⟩ := log_width_le h
  have hmid : |(l.lo + l.hi) / 2| = -((l.lo + l.hi) / 2) := abs_of_nonpos (by linarith)
  rw [hmid] at w1
  unfold Narrow I.neg
  simp only
  refine ⟨by linarith, by linarith, ?_⟩
  nlinarith

theorem ln2_inv_narrow : 0 < ln2.invPos.lo ∧ ln2.invPos.lo ≤ ln2.invPos.hi ∧
    ln2.invPos.hi ≤ ln2.invPos.lo * (1 + 1 / 10 ^ 74) ∧ ln2.invPos.hi ≤ 3 / 2 := by decide +kernel

theorem ln10_inv_narrow : 0 < ln10.invPos.lo ∧ ln10.invPos.lo ≤ ln10.invPos.hi ∧
    ln10.invPos.hi ≤ ln10.invPos.lo * (1 + 1 / 10 ^ 74) ∧ ln10.invPos.hi ≤ 1 / 2 := by decide +kernel

end EnclPf
