/-
  D128/Proofs/ExpAccExp2.lean — property C16: the last stage of `Gen.Exp2` (`exp2Tail` of TotalExp2.lean):
  `2^frac` via `epow (frac·ln2)`, product with the integer power `2^n`, range test, common tail.

  Provided (namespace `ExpAcc`):
  * `exp2Fin`, `exp2Tail_clean` (rfl-level normal form of `exp2Tail`)
  * `exp2Fin_ok`     : the range test `res.exp > 6146` + tail against the real target `e^(±A)`; a working value
                       with such a large exponent must have a significand of at least `10^38`
  * `exp2Fin_exact`  : `res = ⟨2^n, 0⟩`, flag 0, `n ≤ 127` (`n ≤ 56` for a negative argument): the result is the member the mode selects for the exact
                       `2^n` resp. `1/2^n`
  * `exp2Tail_ok`    : the stage after the split and the integer power
-/
import D128.Proofs.ExpAccExp10Main
import D128.Proofs.ExpAccPow2
set_option autoImplicit false
set_option maxRecDepth 4096
set_option exponentiation.threshold 512

namespace ExpAcc
open Gen D192 Spec SpecRound EnclPf D128.Proofs.WordsWide D128.Proofs.Total
local notation "𝔳[" d "]" => Spec.interp (Gen.Decimal.lo d) (Gen.Decimal.hi d)

/-- the final range test of `Exp2` followed by the common tail -/
def exp2Fin (g : Globals) (sb : Bool) (res : decomposed192) (trunc : Int8) : Go.GoM Decimal :=
  if (decide (res.exp > (6146 : Int16))) then outM sb else expTail g sb res trunc

theorem exp2Tail_clean (g : Globals) (d : Decimal) (f : U128) (fe : Int16) (n : UInt64) (s : U192)
    (e : Int16) (t0 : Int8) :
    exp2Tail g d f fe n s e t0 =
      (if ((f.w0 ||| f.w1) != (0 : UInt64)) then do
        let x ← decomposed192.mul (fracArg f fe) ln2 (0 : Int8)
        let t ← U192.log10 x.1.sig
        let z ← decomposed192.epow x.1 (Go.conv t : Int16) x.2
        if (decide (z.1.exp > (6169 : Int16))) then outM (Decimal.Signbit d)
        else
          if (n != (0 : UInt64)) then do
            let w ← decomposed192.mul ({ (default : decomposed192) with sig := s, exp := e } : decomposed192) z.1 z.2
            exp2Fin g (Decimal.Signbit d) w.1 w.2
          else exp2Fin g (Decimal.Signbit d) z.1 z.2
      else
        exp2Fin g (Decimal.Signbit d) ({ (default : decomposed192) with sig := s, exp := e } : decomposed192) t0) := by
  unfold exp2Tail exp2Fin outM
  by_cases hn : (n != (0 : UInt64)) = true <;> by_cases hf : ((f.w0 ||| f.w1) != (0 : UInt64)) = true <;>
    cases hsb : Decimal.Signbit d <;>
    simp only [hn, hf, if_true, if_false, Bool.false_eq_true] <;> rfl

/-- **the range test of `Exp2` and the tail against the real target** `e^(±A)` -/
theorem exp2Fin_ok (g : Globals) (m : Spec.Mode) (hm : Spec.Mode.ofNat? g.DefaultRoundingMode.toNat = some m)
    (hn : isNearest m = true) (sb : Bool) (res : decomposed192) (t : Int8) (A : ℝ) (hA : 0 < A)
    (hs1 : 1 ≤ res.sig.toNat) (he0 : -58 ≤ res.exp.toInt) (he1 : res.exp.toInt ≤ 13000)
    (ht : t = 0 ∨ t = 1)
    (hv1 : Real.exp A * (1 - 1 / 10 ^ 37) ≤ ((val res : ℚ) : ℝ))
    (hv2 : ((val res : ℚ) : ℝ) ≤ Real.exp A * (1 + 1 / 10 ^ 37))
    (hsz : res.exp.toInt > 6146 → 10 ^ 38 ≤ res.sig.toNat) :
    ∃ r, exp2Fin g sb res t = .ok r ∧ (𝔳[r]).neg = false ∧
      ¬ GeneralViolation (Real.exp (if sb then -A else A)) 𝔳[r] := by
  have hT0 : 0 < Real.exp A := Real.exp_pos _
  unfold exp2Fin
  by_cases hbig : res.exp.toInt > 6146
  · have hd : decide (res.exp > (6146 : Int16)) = true := (i16_gt_lit _ _).2 (by simpa using hbig)
    rw [if_pos hd, outM_eq]
    -- val res ≥ 10^38·10^6147 = 10^6185, hence e^A ≥ 10^6185/2 ≥ 10^6176
    have hv2' : ((val res : ℚ) : ℝ) ≤ Real.exp A * 2 := by nlinarith
    have hval : (10 : ℚ) ^ (6185 : ℕ) ≤ val res := by
      unfold val
      have hs : ((10 : ℚ) ^ (38 : ℕ)) ≤ (res.sig.toNat : ℚ) := by exact_mod_cast hsz hbig
      have hp : (10 : ℚ) ^ (6147 : Int) ≤ (10 : ℚ) ^ res.exp.toInt :=
        zpow_le_zpow_right₀ (by norm_num) (by omega)
      have e : (10 : ℚ) ^ (6185 : ℕ) = (10 : ℚ) ^ (38 : ℕ) * (10 : ℚ) ^ (6147 : Int) := by
        rw [← zpow_natCast, ← zpow_natCast, ← zpow_add₀ (by norm_num)]; norm_num
      rw [e]
      exact mul_le_mul hs hp (zpow_pos (by norm_num) _).le (Nat.cast_nonneg _)
    have hvr : (10 : ℝ) ^ (6185 : ℕ) ≤ ((val res : ℚ) : ℝ) := by
      have : (((10 : ℚ) ^ (6185 : ℕ) : ℚ) : ℝ) ≤ ((val res : ℚ) : ℝ) := Rat.cast_le.2 hval
      rw [Rat.cast_pow] at this; exact_mod_cast this
    have h76 : (10 : ℝ) ^ (6176 : ℕ) * 2 ≤ (10 : ℝ) ^ (6185 : ℕ) := by
      have : (10 : ℝ) ^ (6185 : ℕ) = (10 : ℝ) ^ (6176 : ℕ) * (10 : ℝ) ^ (9 : ℕ) := by rw [← pow_add]
      rw [this]
      exact mul_le_mul_of_nonneg_left (by norm_num) (by positivity)
    have hT76 : (10 : ℝ) ^ (6176 : ℕ) ≤ Real.exp A := by
      clear hval hsz
      generalize (10 : ℝ) ^ (6185 : ℕ) = a at *
      generalize (10 : ℝ) ^ (6176 : ℕ) = b at *
      linarith
    have h50 : (10 : ℝ) ^ (6150 : ℕ) ≤ (10 : ℝ) ^ (6176 : ℕ) := pow_le_pow_right₀ (by norm_num) (by norm_num)
    exact ⟨_, rfl, outOfRange_ok' sb A (fun _ => le_trans h50 hT76) (fun _ => hT76)⟩
  · have hd : ¬ decide (res.exp > (6146 : Int16)) = true := fun h => hbig (by simpa using (i16_gt_lit _ _).1 h)
    rw [if_neg hd]
    have hn1 : Real.exp A * (1 - 1 / 10 ^ 36) ≤ ((val res : ℚ) : ℝ) :=
      le_trans (mul_le_mul_of_nonneg_left (by norm_num) hT0.le) hv1
    have hn2 : ((val res : ℚ) : ℝ) ≤ Real.exp A * (1 + 1 / 10 ^ 36) :=
      le_trans hv2 (mul_le_mul_of_nonneg_left (by norm_num) hT0.le)
    cases sb
    · rw [expTail_pos]
      exact expRound_ok g m hm hn false res t _ hT0 hs1 (by omega) (by omega) ht
        (near_of_rel hT0 hn1 hn2) (fun h => absurd h (by decide))
    · rw [expTail_neg]
      obtain ⟨r, t', hr, hnear, hrs, hre0, hre1, hrt⟩ := rcp_near res t _ hT0 hv1 hv2 (by omega) (by omega)
      rw [show res.rcp t = Except.ok (r, t') from hr]
      show ∃ r', expRound g true r t' = Except.ok r' ∧ _
      have hT' : Real.exp (-A) = 1 / Real.exp A := by rw [Real.exp_neg, one_div]
      simp only [if_true]
      rw [hT']
      refine expRound_ok g m hm hn true r t' _ (by positivity) hrs (by omega) (by omega) ?_ hnear ?_
      · rcases hrt with h | h
        · rw [h]; exact ht
        · right; exact h
      · intro _
        rw [div_lt_one hT0]
        exact Real.one_lt_exp_iff.2 hA

theorem val_mk (s : U192) (e : Int16) :
    val ({ (default : decomposed192) with sig := s, exp := e } : decomposed192) = (s.toNat : ℚ) * (10 : ℚ) ^ e.toInt := rfl

/-- **integer argument `n ≤ 56`, exact power of two**: the result is the member the mode selects for the exact
`2^n` resp. `1/2^n` -/
theorem exp2Fin_exact (g : Globals) (m : Spec.Mode) (hm : Spec.Mode.ofNat? g.DefaultRoundingMode.toNat = some m)
    (hn : isNearest m = true) (sb : Bool) (s : U192) (n : Nat) (hs : s.toNat = 2 ^ n)
    (hn56 : if sb then n ≤ 56 else n ≤ 127) :
    ∃ r, exp2Fin g sb ({ (default : decomposed192) with sig := s, exp := 0 } : decomposed192) 0 = .ok r ∧
      (Spec.flushOrRound m false (if sb then 1 / (2 : ℚ) ^ n else (2 : ℚ) ^ n)).same 𝔳[r] = true := by
  set res : decomposed192 := ({ (default : decomposed192) with sig := s, exp := 0 } : decomposed192) with hres
  have hexp : res.exp.toInt = 0 := rfl
  have hsig : res.sig.toNat = 2 ^ n := hs
  have hs1 : 1 ≤ res.sig.toNat := by rw [hsig]; exact Nat.one_le_two_pow
  unfold exp2Fin
  have hd : ¬ decide (res.exp > (6146 : Int16)) = true := by
    intro h
    have := (i16_gt_lit _ _).1 h
    have h6 : (6146 : Int16).toInt = 6146 := by decide
    omega
  rw [if_neg hd]
  cases sb
  · rw [expTail_pos]
    obtain ⟨r, hr, hsame⟩ := expRound_exact g m hm false res hs1 (by omega) (by omega)
      (fun h => absurd h (by decide))
    refine ⟨r, hr, ?_⟩
    rw [flushOrRoundS_eq m false _ (Nat.cast_nonneg _), hexp, hsig] at hsame
    simpa using hsame
  · rw [expTail_neg]
    simp only [if_true] at hn56
    have hv : val res = (2 : ℚ) ^ n := by
      unfold val; rw [hexp, hsig]; simp
    have hpow : (2 : ℕ) ^ n ≤ 2 ^ 56 := Nat.pow_le_pow_right (by norm_num) hn56
    obtain ⟨r, hr, hvr, hrs1, hre0, hre1⟩ := rcp_exact res (by rw [hsig]; positivity)
      (by rw [hsig]; unfold OLIM lim; omega) ⟨by omega, by omega⟩ (5 ^ n * 10 ^ (56 - n)) (-56)
      (by rw [hexp]; norm_num)
      (by
        rw [hv]
        have h10 : (10 : ℚ) ^ (-56 : Int) = 1 / (10 : ℚ) ^ (56 : ℕ) := by
          rw [zpow_neg, one_div]; norm_cast
        have hsplit : (10 : ℚ) ^ (56 : ℕ) = (10 : ℚ) ^ n * (10 : ℚ) ^ (56 - n) := by
          rw [← pow_add]; congr 1; omega
        have h25 : (10 : ℚ) ^ n = (2 : ℚ) ^ n * (5 : ℚ) ^ n := by rw [← mul_pow]; norm_num
        push_cast
        rw [h10, hsplit, h25]
        field_simp)
    rw [show res.rcp 0 = Except.ok (r, 0) from hr]
    show ∃ r', expRound g true r 0 = Except.ok r' ∧ _
    have hq0 : (0 : ℚ) < 1 / (2 : ℚ) ^ n := by positivity
    have hq1 : 1 / (2 : ℚ) ^ n ≤ 1 := by
      rw [div_le_one (by positivity)]; exact one_le_pow₀ (by norm_num)
    have hspec : Spec.flushOrRoundS m false (r.sig.toNat : ℚ) r.exp.toInt
        = Spec.flushOrRound m false (1 / (2 : ℚ) ^ n) := by
      rw [flushOrRoundS_eq m false _ (Nat.cast_nonneg _), ← hv, ← hvr]; rfl
    obtain ⟨r', hr', hsame⟩ := expRound_exact g m hm true r hrs1 (by omega) (by omega)
      (by intro _; rw [hspec]; exact spec_le_one_ne_inf hn _ hq0 hq1)
    rw [hspec] at hsame
    exact ⟨r', hr', by simpa using hsame⟩

theorem log2_pos : (0 : ℝ) < Real.log 2 := by have := log2_ge; linarith

/-- **the stage of `Exp2` after the split and the integer power** -/
theorem exp2Tail_ok (g : Globals) (m : Spec.Mode) (hm : Spec.Mode.ofNat? g.DefaultRoundingMode.toNat = some m)
    (hn : isNearest m = true) (d : Decimal) (f : U128) (fe : Int16) (n : UInt64) (s : U192) (e : Int16)
    (t0 : Int8)
    (hf1 : (f.toNat : ℚ) * (10 : ℚ) ^ fe.toInt < 1) (hfe0 : -6176 ≤ fe.toInt) (hfe1 : fe.toInt ≤ 0)
    (hpos : 0 < (n.toNat : ℚ) + (f.toNat : ℚ) * (10 : ℚ) ^ fe.toInt)
    (hpost : 1 ≤ n.toNat → Post n.toNat s e t0) :
    ∃ r, exp2Tail g d f fe n s e t0 = .ok r ∧ (𝔳[r]).neg = false ∧
      ¬ GeneralViolation (Real.exp (if Decimal.Signbit d
          then -((((n.toNat : ℚ) + (f.toNat : ℚ) * (10 : ℚ) ^ fe.toInt : ℚ) : ℝ) * Real.log 2)
          else (((n.toNat : ℚ) + (f.toNat : ℚ) * (10 : ℚ) ^ fe.toInt : ℚ) : ℝ) * Real.log 2)) 𝔳[r] ∧
      (f.toNat = 0 → (if Decimal.Signbit d then n.toNat ≤ 56 else n.toNat ≤ 127) →
        (Spec.flushOrRound m false (if Decimal.Signbit d then 1 / (2 : ℚ) ^ n.toNat else (2 : ℚ) ^ n.toNat)).same 𝔳[r]
          = true) := by
  have hl2 := log2_pos
  set f' : ℚ := (f.toNat : ℚ) * (10 : ℚ) ^ fe.toInt with hf'
  have hposR : (0 : ℝ) < (((n.toNat : ℚ) + f' : ℚ) : ℝ) * Real.log 2 :=
    mul_pos (by exact_mod_cast hpos) hl2
  set T : ℝ := Real.exp ((((n.toNat : ℚ) + f' : ℚ) : ℝ) * Real.log 2) with hT
  have hT0 : 0 < T := Real.exp_pos _
  have hTsplit : T = (2 : ℝ) ^ n.toNat * Real.exp ((f' : ℝ) * Real.log 2) := by
    rw [hT]; push_cast; rw [add_mul, Real.exp_add, exp_nat_log 2 (by norm_num)]
  rw [exp2Tail_clean]
  by_cases hf0 : f.toNat = 0
  · -- integer argument
    have hc : ((f.w0 ||| f.w1) != (0 : UInt64)) = false := by rw [RK.U128_or_ne_zero]; simp [hf0]
    rw [hc]
    simp only [Bool.false_eq_true, if_false]
    have hf'0 : f' = 0 := by rw [hf', hf0]; simp
    have hn0 : 1 ≤ n.toNat := by
      rw [hf'0, add_zero] at hpos
      have : (0 : ℚ) < (n.toNat : ℚ) := hpos
      exact_mod_cast this
    obtain ⟨p1, p2, p3, p4, p5, p6, p7, p8, p9⟩ := hpost hn0
    have hTn : T = (2 : ℝ) ^ n.toNat := by
      rw [hTsplit, hf'0]; simp
    have hvr1 : (2 : ℝ) ^ n.toNat * (1 - 1 / 10 ^ 38)
        ≤ ((val ({ (default : decomposed192) with sig := s, exp := e } : decomposed192) : ℚ) : ℝ) := by
      rw [val_mk]
      have : ((((2 : ℚ) ^ n.toNat * (1 - 1 / 10 ^ 38) : ℚ)) : ℝ) ≤ ((((s.toNat : ℚ) * (10 : ℚ) ^ e.toInt : ℚ)) : ℝ) :=
        Rat.cast_le.2 p2
      push_cast at this ⊢; exact this
    have hvr2 : ((val ({ (default : decomposed192) with sig := s, exp := e } : decomposed192) : ℚ) : ℝ)
        ≤ (2 : ℝ) ^ n.toNat := by
      rw [val_mk]
      have : ((((s.toNat : ℚ) * (10 : ℚ) ^ e.toInt : ℚ)) : ℝ) ≤ ((((2 : ℚ) ^ n.toNat : ℚ)) : ℝ) := Rat.cast_le.2 p1
      push_cast at this ⊢; exact this
    have hp2 : (0 : ℝ) < (2 : ℝ) ^ n.toNat := by positivity
    obtain ⟨r, hr, hneg, hgv⟩ := exp2Fin_ok g m hm hn (Decimal.Signbit d)
      ({ (default : decomposed192) with sig := s, exp := e } : decomposed192) t0 _ hposR p7
      (by show -58 ≤ e.toInt; omega) (by show e.toInt ≤ 13000; omega) p3
      (by rw [← hT, hTn]
          exact le_trans (mul_le_mul_of_nonneg_left (by norm_num) hp2.le) hvr1)
      (by rw [← hT, hTn]
          exact le_trans hvr2 (by nlinarith))
      (by intro hbig
          apply p9
          by_contra hlt
          have := (p8 (by omega)).2.1
          have he0 : e.toInt = 0 := by rw [this]; rfl
          have hb : e.toInt > 6146 := hbig
          omega)
    refine ⟨r, hr, hneg, hgv, fun _ h56 => ?_⟩
    have h128 : n.toNat < 128 := by
      cases hsb : Decimal.Signbit d <;> rw [hsb] at h56 <;> simp at h56 <;> omega
    obtain ⟨hs2, he0', ht0⟩ := p8 h128
    obtain ⟨r', hr', hsame⟩ := exp2Fin_exact g m hm hn (Decimal.Signbit d) s n.toNat hs2 h56
    rw [he0', ht0] at hr
    have hrr : r' = r := Except.ok.inj (hr'.symm.trans hr)
    rw [← hrr]; exact hsame
  · -- fractional part
    have hc : ((f.w0 ||| f.w1) != (0 : UInt64)) = true := by rw [RK.U128_or_ne_zero]; simp [hf0]
    rw [hc]
    simp only [if_true]
    obtain ⟨mm, tm, z, hmul, hz, hflag, hze0, hze1, hzv1, hzv2, hzsz, -⟩ :=
      frac_pow Gen.ln2 (Real.log 2) ln2_const f fe hf0 hf1 hfe0 hfe1
    rw [hmul]
    simp only [RK.ok_bind]
    rw [U192_log10_eq, RK.ok_bind, hz, RK.ok_bind]
    have hd1 : ¬ decide (z.1.exp > (6169 : Int16)) = true := by
      intro h
      have := (i16_gt_lit _ _).1 h
      have h6 : (6169 : Int16).toInt = 6169 := by decide
      omega
    rw [if_neg hd1]
    set Tf : ℝ := Real.exp ((f' : ℝ) * Real.log 2) with hTf
    have hTf0 : 0 < Tf := Real.exp_pos _
    have hzpos : (0 : ℝ) < ((val z.1 : ℚ) : ℝ) := by nlinarith
    have hzs1 : 1 ≤ z.1.sig.toNat := sig_pos_of_val_pos z.1 (by exact_mod_cast hzpos)
    by_cases hn0 : n.toNat = 0
    · -- no integer part
      have hnz : (n != (0 : UInt64)) = false := by
        simp only [bne_eq_false_iff_eq]; exact UInt64.toNat_inj.1 hn0
      rw [hnz]
      simp only [Bool.false_eq_true, if_false]
      have hTn : T = Tf := by rw [hTsplit, hn0]; simp
      obtain ⟨r, hr, hneg, hgv⟩ := exp2Fin_ok g m hm hn (Decimal.Signbit d) z.1 z.2 _ hposR hzs1 hze0
        (by omega) hflag
        (by rw [← hT, hTn]
            exact le_trans (mul_le_mul_of_nonneg_left (by norm_num) hTf0.le) hzv1)
        (by rw [← hT, hTn]
            exact le_trans hzv2 (mul_le_mul_of_nonneg_left (by norm_num) hTf0.le))
        (by intro h; omega)
      exact ⟨r, hr, hneg, hgv, fun h => absurd h hf0⟩
    · -- integer part times fractional part
      have hn1 : 1 ≤ n.toNat := by omega
      have hnz : (n != (0 : UInt64)) = true := by
        simp only [bne_iff_ne, ne_eq]; intro h; apply hn0; rw [h]; rfl
      rw [hnz]
      simp only [if_true]
      obtain ⟨p1, p2, p3, p4, p5, p6, p7, p8, p9⟩ := hpost hn1
      set a : decomposed192 := ({ (default : decomposed192) with sig := s, exp := e } : decomposed192) with ha
      have hae : a.exp.toInt = e.toInt := rfl
      have hva : val a = (s.toNat : ℚ) * (10 : ℚ) ^ e.toInt := rfl
      obtain ⟨⟨w, tw⟩, hw, hw1, hw2, hw3, hw4, hw5, hw6⟩ := mul_q2 a z.1 z.2
        (by rw [hae]; omega) (by rw [hae]; omega)
      simp only at hw1 hw2 hw3 hw4 hw5 hw6
      rw [hae] at hw5 hw6
      obtain ⟨x', hx', hbigx⟩ := mul_big a z.1 z.2
      have hxw : x' = (w, tw) := Except.ok.inj (hx'.symm.trans hw)
      rw [hw, RK.ok_bind]
      -- values
      have hp2 : (0 : ℝ) < (2 : ℝ) ^ n.toNat := by positivity
      have har1 : (2 : ℝ) ^ n.toNat * (1 - 1 / 10 ^ 38) ≤ ((val a : ℚ) : ℝ) := by
        rw [hva]
        have : ((((2 : ℚ) ^ n.toNat * (1 - 1 / 10 ^ 38) : ℚ)) : ℝ) ≤ ((((s.toNat : ℚ) * (10 : ℚ) ^ e.toInt : ℚ)) : ℝ) :=
          Rat.cast_le.2 p2
        push_cast at this ⊢; exact this
      have har2 : ((val a : ℚ) : ℝ) ≤ (2 : ℝ) ^ n.toNat := by
        rw [hva]
        have : ((((s.toNat : ℚ) * (10 : ℚ) ^ e.toInt : ℚ)) : ℝ) ≤ ((((2 : ℚ) ^ n.toNat : ℚ)) : ℝ) := Rat.cast_le.2 p1
        push_cast at this ⊢; exact this
      have hwr1 : ((val w : ℚ) : ℝ) ≤ ((val a : ℚ) : ℝ) * ((val z.1 : ℚ) : ℝ) := by
        have : ((val w : ℚ) : ℝ) ≤ ((val a * val z.1 : ℚ) : ℝ) := Rat.cast_le.2 hw1
        push_cast at this; exact this
      have hwr2 : ((val a : ℚ) : ℝ) * ((val z.1 : ℚ) : ℝ) * (1 - ((D192.eps : ℚ) : ℝ)) ≤ ((val w : ℚ) : ℝ) := by
        have : ((val a * val z.1 * (1 - D192.eps) : ℚ) : ℝ) ≤ ((val w : ℚ) : ℝ) := Rat.cast_le.2 hw2
        push_cast at this; exact this
      have heps := eps_real_lt
      have heps0 := eps_real_pos
      have ha0 : (0 : ℝ) < ((val a : ℚ) : ℝ) := lt_of_lt_of_le (by nlinarith) har1
      -- lower bound: T·(1-1e-38)(1-2e-38)(1-eps) ≥ T·(1-1e-37)
      have hlow : T * (1 - 1 / 10 ^ 37) ≤ ((val w : ℚ) : ℝ) := by
        have h1 : (2 : ℝ) ^ n.toNat * (1 - 1 / 10 ^ 38) * (Tf * (1 - 2 / 10 ^ 38))
            ≤ ((val a : ℚ) : ℝ) * ((val z.1 : ℚ) : ℝ) :=
          mul_le_mul har1 hzv1 (by nlinarith) ha0.le
        have h2 : ((val a : ℚ) : ℝ) * ((val z.1 : ℚ) : ℝ) * (1 - 1 / 10 ^ 56)
            ≤ ((val a : ℚ) : ℝ) * ((val z.1 : ℚ) : ℝ) * (1 - ((D192.eps : ℚ) : ℝ)) :=
          mul_le_mul_of_nonneg_left (by linarith) (mul_pos ha0 hzpos).le
        have h3 : (2 : ℝ) ^ n.toNat * (1 - 1 / 10 ^ 38) * (Tf * (1 - 2 / 10 ^ 38)) * (1 - 1 / 10 ^ 56)
            ≤ ((val a : ℚ) : ℝ) * ((val z.1 : ℚ) : ℝ) * (1 - 1 / 10 ^ 56) :=
          mul_le_mul_of_nonneg_right h1 (by norm_num)
        have h4 : T * (1 - 1 / 10 ^ 37)
            ≤ (2 : ℝ) ^ n.toNat * (1 - 1 / 10 ^ 38) * (Tf * (1 - 2 / 10 ^ 38)) * (1 - 1 / 10 ^ 56) := by
          rw [hTsplit]
          have e : (2 : ℝ) ^ n.toNat * (1 - 1 / 10 ^ 38) * (Tf * (1 - 2 / 10 ^ 38)) * (1 - 1 / 10 ^ 56)
              = (2 : ℝ) ^ n.toNat * Tf * ((1 - 1 / 10 ^ 38) * (1 - 2 / 10 ^ 38) * (1 - 1 / 10 ^ 56)) := by ring
          rw [e]
          exact mul_le_mul_of_nonneg_left (by norm_num) (mul_pos hp2 hTf0).le
        linarith
      have hupp : ((val w : ℚ) : ℝ) ≤ T * (1 + 1 / 10 ^ 37) := by
        have h1 : ((val a : ℚ) : ℝ) * ((val z.1 : ℚ) : ℝ) ≤ (2 : ℝ) ^ n.toNat * (Tf * (1 + 1 / 10 ^ 50)) :=
          mul_le_mul har2 hzv2 hzpos.le hp2.le
        have h2 : (2 : ℝ) ^ n.toNat * (Tf * (1 + 1 / 10 ^ 50)) ≤ T * (1 + 1 / 10 ^ 37) := by
          rw [hTsplit]
          have e : (2 : ℝ) ^ n.toNat * (Tf * (1 + 1 / 10 ^ 50)) = (2 : ℝ) ^ n.toNat * Tf * (1 + 1 / 10 ^ 50) := by ring
          rw [e]
          exact mul_le_mul_of_nonneg_left (by norm_num) (mul_pos hp2 hTf0).le
        linarith
      have hwpos : (0 : ℝ) < ((val w : ℚ) : ℝ) := lt_of_lt_of_le (by nlinarith) hlow
      have hws1 : 1 ≤ w.sig.toNat := sig_pos_of_val_pos w (by exact_mod_cast hwpos)
      have htw : tw = 0 ∨ tw = 1 := by
        by_cases hex : val w = val a * val z.1
        · rw [hw3 hex]; exact hflag
        · right; exact hw4 hex
      obtain ⟨r, hr, hneg, hgv⟩ := exp2Fin_ok g m hm hn (Decimal.Signbit d) w tw _ hposR hws1 (by omega)
        (by omega) htw hlow hupp
        (by intro hbig
            have h128 : 128 ≤ n.toNat := by
              by_contra hlt
              have := (p8 (by omega)).2.1
              have he0 : e.toInt = 0 := by rw [this]; rfl
              omega
            have := hbigx (10 ^ 38) (by norm_num) (Or.inl ⟨p9 h128, hzs1⟩)
            rw [hxw] at this; exact this)
      exact ⟨r, hr, hneg, hgv, fun h => absurd h hf0⟩

end ExpAcc
