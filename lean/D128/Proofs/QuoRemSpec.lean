/-
  D128/Proofs/QuoRemSpec.lean — the specification side of C03: `Spec.quoRem` on finite non-zero
  operands, and what `Spec.flushOrRoundS` (the specification the rounding kernel `reduce128` is proved
  against) returns for an integer quotient and for an exactly representable remainder.

  Provided (namespace `QR`):
  * `same_symm`, `same_trans`, `same_inf_left` : `Spec.Val.same` is an equivalence; `±Inf` is only
                       `same` as itself
  * `qv`             : the quotient clause of `Spec.quoRem` as a function of the integer quotient
  * `spec_quoRem_fin`: `Spec.quoRem` on two finite non-zero values is `(qv … (a / b), exactOrInfS n (a % b) k)`
  * `round_member_same` : for a member `c·10^e` of the format, `flushOrRoundS m neg c e` is `same` as
                       `exactOrInfS neg q k` whenever `q·10^k = c·10^e`
  * `exact_member_same` : `(.fin neg c e).same (exactOrInfS neg c e)` for a member
  * `round_quo_same` : for an integer `t ≥ 1` written as `x·10^K`, `flushOrRoundS m neg x K` is `same` as
                       `qv m neg t`
  * `tau_rel`        : the sticky flag of the quotient stands for `τ = (t % 10^K)/10^K`
  * `post_transfer`  : the post-condition of `reduce128_correct` is stable under `same`
-/
import D128.Proofs.SpecRoundMono
import D128.Proofs.RoundKernelRound
import D128.Spec.Arith

set_option autoImplicit false

namespace QR
open Spec SpecRound

theorem same_symm (x y : Val) : x.same y = y.same x := by
  cases x <;> cases y <;> simp [Val.same, Bool.beq_comm]

theorem same_refl (x : Val) : x.same x = true := by
  cases x <;> simp [Val.same]

theorem same_trans {x y z : Val} (h1 : x.same y = true) (h2 : y.same z = true) :
    x.same z = true := by
  cases x <;> cases y <;> cases z <;> simp_all [Val.same]

theorem same_inf_left {n : Bool} {v : Val} (h : (Val.inf n).same v = true) : v = .inf n := by
  cases v <;> simp_all [Val.same]

theorem same_fin_of_eq (n : Bool) (c c' : Nat) (e e' : Int)
    (h : (c : Rat) * (10 : Rat) ^ e = (c' : Rat) * (10 : Rat) ^ e') :
    (Val.fin n c e).same (.fin n c' e') = true := by
  simp only [Val.same, beq_self_eq_true, Bool.true_and, beq_iff_eq, Spec.mag, pow10_eq_zpow]
  exact h

/-- the quotient clause of `Spec.quoRem` -/
def qv (m : Mode) (neg : Bool) (t : Nat) : Val :=
  if t == 0 then Val.fin neg 0 0
  else if isMember (t : Rat) then exactOrInf neg (t : Rat)
  else roundTo m neg (t : Rat)

theorem spec_quoRem_fin (m : Mode) (n n' : Bool) (c c' : Nat) (e e' : Int) (hc : c ≠ 0)
    (hc' : c' ≠ 0) :
    Spec.quoRem m (.fin n c e) (.fin n' c' e') =
      (qv m (n != n')
          ((c * 10 ^ (e - (if e ≤ e' then e else e')).toNat) /
            (c' * 10 ^ (e' - (if e ≤ e' then e else e')).toNat)),
        exactOrInfS n
          (((c * 10 ^ (e - (if e ≤ e' then e else e')).toNat) %
            (c' * 10 ^ (e' - (if e ≤ e' then e else e')).toNat) : Nat) : Rat)
          (if e ≤ e' then e else e')) := by
  have h1 : (c == 0) = false := by simpa using hc
  have h2 : (c' == 0) = false := by simpa using hc'
  simp only [Spec.quoRem, h1, h2, Bool.false_eq_true, if_false, qv]

theorem pow_Emin_le_one : (10 : Rat) ^ (Spec.Emin - 1) ≤ 1 := by
  apply zpow_le_one_of_nonpos₀ (by norm_num)
  unfold Spec.Emin; norm_num

theorem round_member_same (m : Mode) (neg : Bool) (c : Nat) (e : Int) (q : Rat) (k : Int)
    (hc0 : 0 < c) (hc : c ≤ Spec.Cmax) (he1 : Spec.Emin ≤ e) (he2 : e ≤ Spec.Emax) (hq0 : 0 ≤ q)
    (h : q * (10 : Rat) ^ k = (c : Rat) * (10 : Rat) ^ e) :
    (flushOrRoundS m neg (c : Rat) e).same (exactOrInfS neg q k) = true := by
  have hcq : (0 : Rat) < (c : Rat) := by exact_mod_cast hc0
  have hpe : (0 : Rat) < (10 : Rat) ^ e := zpow_pos (by norm_num) _
  have hpos : (0 : Rat) < (c : Rat) * (10 : Rat) ^ e := mul_pos hcq hpe
  have hge : (10 : Rat) ^ (Spec.Emin - 1) ≤ (c : Rat) * (10 : Rat) ^ e := by
    have h1 : (10 : Rat) ^ (Spec.Emin - 1) ≤ (10 : Rat) ^ e :=
      zpow_le_zpow_right₀ (by norm_num) (by omega)
    have h2 : (1 : Rat) ≤ (c : Rat) := by exact_mod_cast hc0
    calc (10 : Rat) ^ (Spec.Emin - 1) ≤ 1 * (10 : Rat) ^ e := by rw [one_mul]; exact h1
      _ ≤ (c : Rat) * (10 : Rat) ^ e := mul_le_mul_of_nonneg_right h2 hpe.le
  rw [flushOrRoundS_eq m neg _ hcq.le, flushOrRound_eq_roundTo m neg hge,
    exactOrInfS_scale neg q hq0 k, h]
  obtain ⟨c1, e1, hr, hv1, -⟩ := roundTo_exact m neg hc0 hc he1 he2
  obtain ⟨c2, e2, hx, hv2, -⟩ := exactOrInf_of_member neg hpos ⟨c, e, hc, he1, he2, rfl⟩
  rw [hr]
  change (Val.fin neg c1 e1).same (Spec.exactOrInf neg _) = true
  rw [hx]
  exact same_fin_of_eq _ _ _ _ _ (hv1.trans hv2.symm)

theorem exact_member_same (neg : Bool) (c : Nat) (e : Int)
    (hc : c ≤ Spec.Cmax) (he1 : Spec.Emin ≤ e) (he2 : e ≤ Spec.Emax) :
    (Val.fin neg c e).same (exactOrInfS neg (c : Rat) e) = true := by
  rcases Nat.eq_zero_or_pos c with h0 | hc0
  · subst h0
    simp [Spec.exactOrInfS, Val.same, Spec.mag]
  · have hcq : (0 : Rat) < (c : Rat) := by exact_mod_cast hc0
    have hpos : (0 : Rat) < (c : Rat) * (10 : Rat) ^ e := mul_pos hcq (zpow_pos (by norm_num) _)
    rw [exactOrInfS_scale neg _ hcq.le e]
    obtain ⟨c2, e2, hx, hv2, -⟩ := exactOrInf_of_member neg hpos ⟨c, e, hc, he1, he2, rfl⟩
    change (Val.fin neg c e).same (Spec.exactOrInf neg _) = true
    rw [hx]
    exact same_fin_of_eq _ _ _ _ _ hv2.symm

theorem round_quo_same (m : Mode) (neg : Bool) (t : Nat) (ht : 0 < t) (x : Rat) (K : Int)
    (hx0 : 0 ≤ x) (hx : x * (10 : Rat) ^ K = (t : Rat)) :
    (flushOrRoundS m neg x K).same (qv m neg t) = true := by
  have htq : (0 : Rat) < (t : Rat) := by exact_mod_cast ht
  have hge : (10 : Rat) ^ (Spec.Emin - 1) ≤ (t : Rat) := by
    have h2 : (1 : Rat) ≤ (t : Rat) := by exact_mod_cast ht
    exact le_trans pow_Emin_le_one h2
  rw [flushOrRoundS_eq m neg _ hx0, hx, flushOrRound_eq_roundTo m neg hge]
  have ht0 : (t == 0) = false := by simpa using (Nat.pos_iff_ne_zero.1 ht)
  unfold qv
  rw [ht0]
  simp only [Bool.false_eq_true, if_false]
  by_cases hm : Member (t : Rat)
  · rw [if_pos ((isMember_iff htq.le).2 hm)]
    obtain ⟨c2, e2, hx2, hv2, -⟩ := exactOrInf_of_member neg htq hm
    obtain ⟨c0, e0, hc0, he1, he2, hte⟩ := hm
    have hc0pos : 0 < c0 := by
      rcases Nat.eq_zero_or_pos c0 with h | h
      · subst h; simp at hte; linarith
      · exact h
    obtain ⟨c1, e1, hr, hv1, -⟩ := roundTo_exact m neg hc0pos hc0 he1 he2
    rw [hx2, hte, hr]
    exact same_fin_of_eq _ _ _ _ _ (by rw [hv1, hv2, hte])
  · have : ¬ (isMember (t : Rat) = true) := fun h => hm ((isMember_iff htq.le).1 h)
    rw [if_neg this]
    exact same_refl _

/-- what the sticky flag of the quotient stands for -/
theorem tau_rel (t K sig : Nat) (trunc : Int8) (hsig : sig = t / 10 ^ K)
    (htr : (trunc = 0 ∧ t % 10 ^ K = 0) ∨ (trunc = 1 ∧ t % 10 ^ K ≠ 0)) :
    RK.TruncRel trunc.toInt (((t % 10 ^ K : Nat) : ℚ) / (10 : ℚ) ^ K) ∧
      0 ≤ ((t % 10 ^ K : Nat) : ℚ) / (10 : ℚ) ^ K ∧
      ((sig : ℚ) + ((t % 10 ^ K : Nat) : ℚ) / (10 : ℚ) ^ K) * (10 : ℚ) ^ (K : Int) = (t : ℚ) := by
  have hp : (0 : ℚ) < (10 : ℚ) ^ K := pow_pos (by norm_num) _
  have hdm := Nat.div_add_mod t (10 ^ K)
  have hlt : t % 10 ^ K < 10 ^ K := Nat.mod_lt _ (Nat.pow_pos (by norm_num))
  refine ⟨?_, div_nonneg (Nat.cast_nonneg _) hp.le, ?_⟩
  · rcases htr with ⟨h1, h2⟩ | ⟨h1, h2⟩
    · left
      subst h1
      exact ⟨rfl, by rw [h2]; simp⟩
    · right; left
      subst h1
      refine ⟨rfl, ?_, ?_⟩
      · apply div_pos _ hp
        exact_mod_cast Nat.pos_of_ne_zero h2
      · rw [div_lt_one hp]
        exact_mod_cast hlt
  · rw [zpow_natCast, add_mul, div_mul_cancel₀ _ hp.ne', hsig]
    have : ((t / 10 ^ K * 10 ^ K + t % 10 ^ K : Nat) : ℚ) = (t : ℚ) := by
      congr 1
      rw [Nat.mul_comm]; exact hdm
    rw [← this]; push_cast; ring

/-- the post-condition of `reduce128_correct` transfers along `same` -/
theorem post_transfer (V0 V : Val) (neg : Bool) (s' : U128) (e' : Int16)
    (h : RK.RoundPost V0 neg s' e') (hs : V0.same V = true) : RK.RoundPost V neg s' e' := by
  unfold RK.RoundPost at *
  by_cases he : e'.toInt > 12287
  · rw [if_pos he] at h ⊢
    rw [h] at hs
    exact same_inf_left hs
  · rw [if_neg he] at h ⊢
    refine ⟨h.1, h.2.1, ?_⟩
    exact same_trans (by rw [same_symm]; exact hs) h.2.2

end QR
