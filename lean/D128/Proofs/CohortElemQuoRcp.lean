/-
  D128/Proofs/CohortElemQuoRcp.lean — property C19 for the elementary functions: `decomposed192.rcp` is `quo` with the fixed
  numerator `10^57·10^-57`, hence inherits its congruence lemmas.

  Provided (namespace `CohortElem`):
  * `oneD`, `rcp_stage`, `rcp_eq_quo` : `rcp d t = quo ⟨10^57, −57⟩ d t` (the numerator is `≥ LIM`, so stage (S) is the identity)
  * `rcp_congr`    : two operands of one value, two flags: the same register with both flags raised, or both reciprocals
                     exact (`val r · val d = 1`, flags passed through); significands non-zero and below `10·LIM`
  * `rcp_congr1`   : one flag; operands identical, or the no-step-over hypothesis of `quo_congr`
  The hypothesis `hns` (CohortElemQuoCongr.lean, OBSERVATION 2) cannot be dropped here either.
-/
import D128.Proofs.CohortElemQuoCongr
import D128.Proofs.D192Rcp
set_option autoImplicit false
set_option maxRecDepth 4096
set_option exponentiation.threshold 512
set_option linter.unusedVariables false

namespace CohortElem
open Gen D192 LogAcc

/-- the numerator of `rcp`: `10^57·10^-57` -/
def oneD : decomposed192 := ⟨oneSig, -57⟩

theorem rcp_stage (d : decomposed192) (t : Int8) :
    decomposed192.rcp d t = quoTrunc d t >>= fun p => quoDiv oneD p.1 p.2 := by
  unfold decomposed192.rcp quoTrunc quoDiv oneD oneSig
  simp only [bind_assoc, pure_bind]

theorem oneD_sig : oneD.sig.toNat = 10 ^ 57 := oneSig_toNat

theorem oneD_exp : oneD.exp.toInt = -57 := by decide

theorem oneD_val : val oneD = 1 := by
  unfold val
  rw [oneD_sig, oneD_exp]
  norm_num

/-- **`rcp` is `quo` with the numerator `10^57·10^-57`** -/
theorem rcp_eq_quo (d : decomposed192) (t : Int8) : decomposed192.rcp d t = decomposed192.quo oneD d t := by
  have hL : LIM ≤ oneD.sig.toNat := by rw [oneD_sig]; unfold LIM; norm_num
  rw [rcp_stage, quo_stage, if_neg (fun h => by
    have := (sig_zero_iff oneD).mp h
    rw [oneD_sig] at this; norm_num at this), logScale_id oneD hL]
  rfl

theorem oneD_safe (o o' : decomposed192) : (oneD.sig.toNat < 10 * LIM ∧ oneD.sig.toNat < 10 * LIM) ∨
    (oneD = oneD ∧ o.sig.toNat ≠ 1 ∧ o'.sig.toNat ≠ 1) := by
  left
  rw [oneD_sig]; unfold LIM; norm_num

/-- **`rcp` on cohort members** -/
theorem rcp_congr (d d' : decomposed192) (t t' : Int8) (hd : val d = val d') (hd0 : d.sig.toNat ≠ 0)
    (hns : NoSkip (1 / val d) ∨ (LIM ≤ 400 * d.sig.toNat ∧ LIM ≤ 400 * d'.sig.toNat))
    (h1 : -16000 ≤ d.exp.toInt ∧ d.exp.toInt ≤ 16000) (h1' : -16000 ≤ d'.exp.toInt ∧ d'.exp.toInt ≤ 16000) :
    ∃ r s r' s', decomposed192.rcp d t = .ok (r, s) ∧ decomposed192.rcp d' t' = .ok (r', s') ∧
      ((r = r' ∧ s = 1 ∧ s' = 1 ∧ (d.sig.toNat < OLIM → Full r)) ∨
       (val r * val d = 1 ∧ val r' * val d = 1 ∧ s = t ∧ s' = t')) ∧
      r.sig.toNat ≠ 0 ∧ r'.sig.toNat ≠ 0 ∧ r.sig.toNat < 10 * LIM ∧ r'.sig.toNat < 10 * LIM ∧
      -57 - d.exp.toInt - 116 ≤ r.exp.toInt ∧ r.exp.toInt ≤ -57 - d.exp.toInt ∧
      -57 - d'.exp.toInt - 116 ≤ r'.exp.toInt ∧ r'.exp.toInt ≤ -57 - d'.exp.toInt := by
  rw [rcp_eq_quo, rcp_eq_quo]
  have := quo_congr oneD oneD d d' t t' rfl hd (by rw [oneD_sig]; exact (Nat.pow_pos (by norm_num)).ne') hd0 (oneD_safe d d')
    (by rw [oneD_val]; exact hns) (by rw [oneD_exp]; omega) h1 (by rw [oneD_exp]; omega) h1'
  rw [oneD_val, oneD_exp] at this
  exact this

/-- **`rcp` on cohort members, one flag** -/
theorem rcp_congr1 (d d' : decomposed192) (t : Int8) (hd : val d = val d') (hd0 : d.sig.toNat ≠ 0)
    (hns : d = d' ∨ NoSkip (1 / val d) ∨ (LIM ≤ 400 * d.sig.toNat ∧ LIM ≤ 400 * d'.sig.toNat))
    (h1 : -16000 ≤ d.exp.toInt ∧ d.exp.toInt ≤ 16000) (h1' : -16000 ≤ d'.exp.toInt ∧ d'.exp.toInt ≤ 16000) :
    ∃ r r' s, decomposed192.rcp d t = .ok (r, s) ∧ decomposed192.rcp d' t = .ok (r', s) ∧
      val r = val r' ∧
      (r = r' ∨ (val r * val d = 1 ∧ s = t ∧ r.sig.toNat < 10 * LIM ∧ r'.sig.toNat < 10 * LIM)) ∧
      r.sig.toNat ≠ 0 ∧ r'.sig.toNat ≠ 0 ∧
      -57 - d.exp.toInt - 116 ≤ r.exp.toInt ∧ r.exp.toInt ≤ -57 - d.exp.toInt ∧
      -57 - d'.exp.toInt - 116 ≤ r'.exp.toInt ∧ r'.exp.toInt ≤ -57 - d'.exp.toInt := by
  rw [rcp_eq_quo, rcp_eq_quo]
  have := quo_congr1 oneD oneD d d' t rfl hd (by rw [oneD_sig]; exact (Nat.pow_pos (by norm_num)).ne') hd0 (oneD_safe d d')
    (by rw [oneD_val]; exact hns) (by rw [oneD_exp]; omega) h1 (by rw [oneD_exp]; omega) h1'
  rw [oneD_val, oneD_exp] at this
  exact this

/-- `rcp_congr1` on `1/8 = 1/8.0` (both exact: `125e-3` in different registers) -/
example := rcp_congr1 ⟨⟨8, 0, 0⟩, 0⟩ ⟨⟨80, 0, 0⟩, -1⟩ 0
  (by show ((8 : ℕ) : ℚ) * (10 : ℚ) ^ (0 : Int) = ((80 : ℕ) : ℚ) * (10 : ℚ) ^ (-1 : Int); norm_num)
  (by decide)
  (Or.inr (Or.inl (noskip_of_window _ (-58)
    (by show _ ≤ 1 / (((8 : ℕ) : ℚ) * (10 : ℚ) ^ (0 : Int)); unfold LIM; norm_num)
    (by show 1 / (((8 : ℕ) : ℚ) * (10 : ℚ) ^ (0 : Int)) < _; unfold LIM; norm_num))))
  (by decide) (by decide)

end CohortElem
